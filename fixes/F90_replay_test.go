package tokendata

import (
	"sync"
	"testing"

	"github.com/smartcontractkit/chainlink-common/pkg/logger"
	cciptypes "github.com/smartcontractkit/chainlink-ccip/pkg/types/ccipocr3"
)

func TestProbeF90(t *testing.T) {
	dups := 0
	for it := 0; it < 3000; it++ {
		q := newMsgQueue(logger.Test(t), make(chan struct{}))
		var m cciptypes.Message
		m.Header.MessageID = cciptypes.Bytes32{byte(it), byte(it >> 8), 7}
		var wg sync.WaitGroup
		start := make(chan struct{})
		for g := 0; g < 8; g++ {
			wg.Add(1)
			go func() { defer wg.Done(); <-start; q.enqueue(m, 0) }()
		}
		close(start)
		wg.Wait()
		if len(q.msgs) > 1 {
			dups++
		}
	}
	if dups > 0 {
		t.Fatalf("message queued more than once in %d of 3000 trials", dups)
	}
}

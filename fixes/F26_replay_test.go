//go:build verif

// Replay of the witness of C04_liveness_unfixed_refuted (F26) on the real code as it was BEFORE fixes/F26.patch
// (PASS there = the witness reproduces; with the patch applied the test FAILS: chain 1's off-ramp number is agreed).
// Run (nothing is written into the repository):
//   echo '{"Replace": {"<tree>/commit/merkleroot/zz_c04live_test.go": "/verif/fixes/F26_replay_test.go"}}' > /tmp/ov.json
//   cd <tree> && GOFLAGS=-mod=mod GOPROXY=off GOSUMDB=off GOTOOLCHAIN=local go test -tags verif -overlay /tmp/ov.json -run TestC04LiveOffRampThreshold -count=1 -vet=off -v ./commit/merkleroot/
// Observed before the repair: consensus succeeds, OffRampNextSeqNums = map[], RangesSelectedForReport = [].
package merkleroot

import (
	"testing"

	"github.com/smartcontractkit/chainlink-common/pkg/logger"
	"github.com/smartcontractkit/libocr/commontypes"

	"github.com/smartcontractkit/chainlink-ccip/internal/plugincommon"
	"github.com/smartcontractkit/chainlink-ccip/internal/plugintypes"
	cciptypes "github.com/smartcontractkit/chainlink-ccip/pkg/types/ccipocr3"
)

// 7 oracles, F=2; destination 9 has f=1 and the 4 readers 0..3; source 1 has f=2 and readers 0..6.
// Everybody is honest and has the same view: off-ramp next of chain 1 = 10 (the 4 destination readers),
// on-ramp latest of chain 1 = 12 (all 7).
func TestC04LiveOffRampThreshold(t *testing.T) {
	fch := map[cciptypes.ChainSelector]int{1: 2, 9: 1}
	var aos []plugincommon.AttributedObservation[Observation]
	for o := 0; o < 7; o++ {
		ob := Observation{
			OnRampMaxSeqNums: []plugintypes.SeqNumChain{{ChainSel: 1, SeqNum: 12}},
			FChain:           fch,
		}
		if o < 4 {
			ob.OffRampNextSeqNums = []plugintypes.SeqNumChain{{ChainSel: 1, SeqNum: 10}}
		}
		aos = append(aos, plugincommon.AttributedObservation[Observation]{OracleID: commontypes.OracleID(o), Observation: ob})
	}
	c, err := getConsensusObservation(logger.Nop(), 2, 9, aos)
	if err != nil {
		t.Fatalf("consensus failed: %v", err)
	}
	out := reportRangesOutcome(Query{}, logger.Nop(), c, 256, 9)
	t.Logf("REPLAY onramp=%v offramp=%v fchain=%v ranges=%v type=%v", c.OnRampMaxSeqNums, c.OffRampNextSeqNums, c.FChain,
		out.RangesSelectedForReport, out.OutcomeType)
	if _, ok := c.OffRampNextSeqNums[1]; ok {
		t.Fatalf("off-ramp next of chain 1 agreed: witness does not reproduce")
	}
	if len(out.RangesSelectedForReport) != 0 {
		t.Fatalf("interval selected: witness does not reproduce")
	}
}

//go:build verif

// TestVerif_C18_conv lives in its own file: it calls the unexported converter directly, so a signature change there
// must not stop the history / concurrency parts (which only use the exported poller) from building.
package reader

import (
	"testing"

	"github.com/smartcontractkit/chainlink-common/pkg/logger"

	rmntypes "github.com/smartcontractkit/chainlink-ccip/commit/merkleroot/rmn/types"
)

// ---------- convertOnChainConfigToRMNHomeChainConfig ----------
func TestVerif_C18_conv(t *testing.T) {
	r := vNewRand(vSeed() + 1814)
	n := vEnvInt("VERIF_N", 200)
	sink := vOpenSink("C18_conv")
	defer sink.Close()
	g := &vC18Gen{r: r, off: vNewIntern()}
	for i := 0; i < n; i++ {
		cls := vPick(r, []string{"valid", "valid", "nil-bitmap", "big"})
		resp := g.response(cls == "nil-bitmap", cls == "big")
		in := cPair(g.vcCoq(resp.ActiveConfig), g.vcCoq(resp.CandidateConfig))
		var out string
		func() {
			defer func() {
				if recover() != nil {
					out = "Panic"
				}
			}()
			m := convertOnChainConfigToRMNHomeChainConfig(logger.Nop(), resp.ActiveConfig, resp.CandidateConfig)
			keys := make([]uint64, 0, len(m))
			byN := map[uint64]rmntypes.HomeConfig{}
			for k, v := range m {
				kn := vC18B32N(k[:])
				keys = append(keys, kn)
				byN[kn] = v
			}
			vSortU64(keys)
			out = cApp("Ok", cMap(keys, func(k uint64) string { return cPair(cN(k), g.hcCoq(byN[k])) }))
		}()
		nt := !resp.ActiveConfig.ConfigDigest.IsEmpty() && len(resp.ActiveConfig.StaticConfig.Nodes) > 0 &&
			len(resp.ActiveConfig.DynamicConfig.SourceChains) > 0
		sink.Emit("conv", cls, nt, cPair(in, out), nil)
	}
}

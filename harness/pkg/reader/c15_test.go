//go:build verif

package reader

import (
	"encoding/binary"
	"sort"
	"testing"

	mapset "github.com/deckarep/golang-set/v2"
	"github.com/smartcontractkit/chainlink-common/pkg/logger"

	cciptypes "github.com/smartcontractkit/chainlink-ccip/pkg/types/ccipocr3"
)

func vC15Subj(b [16]byte) string {
	return cPair(cN(binary.BigEndian.Uint64(b[:8])), cN(binary.BigEndian.Uint64(b[8:])))
}
func vC15ChainSubj(c uint64) [16]byte {
	var b [16]byte
	binary.BigEndian.PutUint64(b[8:], c)
	return b
}

// subject decoding: the real getCurseInfoFromCursedSubjects and CurseInfo.NonCursedSourceChains
func TestVerif_C15_subjects(t *testing.T) {
	r := vNewRand(vSeed())
	n := vEnvInt("VERIF_N", 400)
	sink := vOpenSink("C15_subj")
	defer sink.Close()
	lggr := logger.Nop()
	pool := []uint64{0, 1, 2, 3, 5, 8, 900, 1 << 56, 1<<64 - 1, 72057594037927936, 72057594037927937}
	for i := 0; i < n; i++ {
		cls := vPick(r, []string{"none", "global", "dest", "sources", "allsources", "nearmiss", "highhalf", "mixed", "dupreq"})
		dest := vPick(r, pool)
		k := r.Range(0, 5)
		var srcs []uint64
		for len(srcs) < k {
			c := vPick(r, pool)
			if c != dest {
				srcs = append(srcs, c)
			}
		}
		if cls == "dupreq" && len(srcs) > 0 {
			srcs = append(srcs, srcs[0])
		}
		var subs [][16]byte
		addChain := func(c uint64) { subs = append(subs, vC15ChainSubj(c)) }
		switch cls {
		case "global":
			subs = append(subs, GlobalCurseSubject)
		case "dest":
			addChain(dest)
		case "sources", "dupreq":
			for _, c := range srcs {
				if r.Bool() {
					addChain(c)
				}
			}
		case "allsources":
			for _, c := range srcs {
				addChain(c)
			}
		case "nearmiss": // one byte off the global subject / a chain subject
			g := GlobalCurseSubject
			g[r.Intn(16)] ^= byte(1 << uint(r.Intn(8)))
			subs = append(subs, g)
			d := vC15ChainSubj(dest)
			d[r.Intn(16)] ^= byte(1 << uint(r.Intn(8)))
			subs = append(subs, d)
			for _, c := range srcs {
				s := vC15ChainSubj(c)
				s[r.Intn(8)] ^= byte(1 << uint(r.Intn(8))) // high half no longer zero
				subs = append(subs, s)
			}
		case "highhalf":
			for _, c := range append([]uint64{dest}, srcs...) {
				s := vC15ChainSubj(c)
				binary.BigEndian.PutUint64(s[:8], vPick(r, []uint64{1, 1 << 56, 1<<64 - 1}))
				subs = append(subs, s)
			}
			// the global subject with its halves swapped
			var sw [16]byte
			copy(sw[:8], GlobalCurseSubject[8:])
			copy(sw[8:], GlobalCurseSubject[:8])
			subs = append(subs, sw)
		case "mixed":
			if r.Bool() {
				subs = append(subs, GlobalCurseSubject)
			}
			if r.Bool() {
				addChain(dest)
			}
			for _, c := range srcs {
				if r.Bool() {
					addChain(c)
				}
			}
			addChain(vPick(r, pool)) // some other chain
		}
		srcSel := make([]cciptypes.ChainSelector, len(srcs))
		for x, c := range srcs {
			srcSel[x] = cciptypes.ChainSelector(c)
		}
		ci := getCurseInfoFromCursedSubjects(lggr, mapset.NewSet(subs...), cciptypes.ChainSelector(dest), srcSel)
		// second list for NonCursedSourceChains: the request, permuted, plus possibly a chain not asked about
		inp := append([]cciptypes.ChainSelector{}, srcSel...)
		p := r.Perm(len(inp))
		inp2 := make([]cciptypes.ChainSelector, len(inp))
		for x := range p {
			inp2[x] = inp[p[x]]
		}
		if r.Chance(1, 3) {
			inp2 = append(inp2, cciptypes.ChainSelector(vPick(r, pool)))
		}
		nc := ci.NonCursedSourceChains(inp2)
		keys := make([]uint64, 0, len(ci.CursedSourceChains))
		for c := range ci.CursedSourceChains {
			keys = append(keys, uint64(c))
		}
		sort.Slice(keys, func(a, b int) bool { return keys[a] < keys[b] })
		in := cTup(cMap(subs, vC15Subj), cN(dest), cListN(srcs),
			cMap(inp2, func(c cciptypes.ChainSelector) string { return cN(uint64(c)) }))
		out := cPair(cApp("CurseInfo",
			cMap(keys, func(c uint64) string { return cPair(cN(c), cBool(ci.CursedSourceChains[cciptypes.ChainSelector(c)])) }),
			cBool(ci.CursedDestination), cBool(ci.GlobalCurse)),
			cMap(nc, func(c cciptypes.ChainSelector) string { return cN(uint64(c)) }))
		sink.Emit("C15_subj", cls, len(subs) > 0 && len(srcs) > 0, cPair(in, out),
			map[string]any{"dest": dest, "sources": srcs, "subjects": len(subs)})
	}
}

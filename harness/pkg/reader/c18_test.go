//go:build verif

package reader

// C18 correspondence harness, RMN-home poller and observer bitmaps (pkg/reader/rmn_home.go).
//   TestVerif_C18_rmn_seq  : sequential histories over a scripted, gated contract reader
//   TestVerif_C18_rmn_conc : 16 reader goroutines while the poller refreshes (run with -race)
//   TestVerif_C18_bitmap   : IsNodeObserver exhaustively for n <= 8, random up to 256, invalid inputs
//   TestVerif_C18_conv     : convertOnChainConfigToRMNHomeChainConfig on valid and Byzantine configs

import (
	"context"
	"errors"
	"fmt"
	"math/big"
	"runtime"
	"strings"
	"sync"
	"sync/atomic"
	"testing"
	"time"

	"github.com/smartcontractkit/chainlink-common/pkg/logger"
	"github.com/smartcontractkit/chainlink-common/pkg/types"
	"github.com/smartcontractkit/chainlink-common/pkg/types/query"
	"github.com/smartcontractkit/chainlink-common/pkg/types/query/primitives"

	rmntypes "github.com/smartcontractkit/chainlink-ccip/commit/merkleroot/rmn/types"
	"github.com/smartcontractkit/chainlink-ccip/pkg/consts"
	cciptypes "github.com/smartcontractkit/chainlink-ccip/pkg/types/ccipocr3"
)

var vC18Err = errors.New("verif: scripted reader error")

type vC18Answer struct {
	err  bool
	resp GetAllConfigsResponse
}

type vC18Reader struct {
	gated   bool
	arrived chan struct{}
	answers chan vC18Answer
	script  []GetAllConfigsResponse
	calls   atomic.Int64
	done    chan struct{}
	once    sync.Once
}

func (r *vC18Reader) GetLatestValue(ctx context.Context, _ string, _ primitives.ConfidenceLevel, _ any, ret any) error {
	out, ok := ret.(*GetAllConfigsResponse)
	if !ok {
		return vC18Err
	}
	if !r.gated {
		k := int(r.calls.Add(1)) - 1
		if k < len(r.script) {
			*out = r.script[k]
			return nil
		}
		r.once.Do(func() { close(r.done) })
		<-ctx.Done()
		return ctx.Err()
	}
	select {
	case r.arrived <- struct{}{}:
	case <-ctx.Done():
		return ctx.Err()
	}
	select {
	case a := <-r.answers:
		if a.err {
			return vC18Err
		}
		*out = a.resp
		return nil
	case <-ctx.Done():
		return ctx.Err()
	}
}
func (r *vC18Reader) BatchGetLatestValues(context.Context, types.BatchGetLatestValuesRequest) (types.BatchGetLatestValuesResult, error) {
	return nil, vC18Err
}
func (r *vC18Reader) Bind(context.Context, []types.BoundContract) error   { return nil }
func (r *vC18Reader) Unbind(context.Context, []types.BoundContract) error { return nil }
func (r *vC18Reader) QueryKey(context.Context, types.BoundContract, query.KeyFilter, query.LimitAndSort, any) ([]types.Sequence, error) {
	return nil, vC18Err
}
func (r *vC18Reader) waitArrival(t *testing.T) {
	// the event is the call itself (normally within a millisecond); "did not call" is decided by a watch that
	// stretches on a starved machine, and only after a second, longer one has expired too - never by the wall clock alone
	if _, ok := vRecvW(r.arrived, 30*time.Second); ok {
		return
	}
	if _, ok := vRecvW(r.arrived, 60*time.Second); !ok {
		t.Fatalf("C18: poller did not call the contract reader")
	}
}

// ---------- identities: numbers packed into 32-byte values; 0 = the empty digest ----------
func vC18B32(n uint64) cciptypes.Bytes32 {
	var b cciptypes.Bytes32
	for i := 0; i < 8; i++ {
		b[31-i] = byte(n >> (8 * i))
	}
	return b
}
func vC18B32N(b []byte) uint64 {
	if len(b) != 32 {
		return 999999
	}
	for i := 0; i < 24; i++ {
		if b[i] != 0 {
			return 999999
		}
	}
	var n uint64
	for i := 24; i < 32; i++ {
		n = n<<8 | uint64(b[i])
	}
	return n
}

type vC18Gen struct {
	r   *vRand
	off *vIntern
}

func (g *vC18Gen) offID(b []byte) uint64 { return g.off.Id(fmt.Sprintf("%x", []byte(b))) }

// ---------- Coq rendering of inputs ----------
func (g *vC18Gen) vcCoq(vc VersionedConfig) string {
	nodes := cMap(vc.StaticConfig.Nodes, func(n Node) string {
		return cApp("mkRN", cN(vC18B32N(n.PeerID[:])), cN(vC18B32N(n.OffchainPublicKey[:])))
	})
	chains := cMap(vc.DynamicConfig.SourceChains, func(c SourceChain) string {
		bm := cNone()
		if c.ObserverNodesBitmap != nil {
			bm = cSome(cZb(c.ObserverNodesBitmap))
		}
		return cApp("mkRC", cN(uint64(c.ChainSelector)), cN(c.F), bm)
	})
	return cApp("mkVC", cN(vC18B32N(vc.ConfigDigest[:])), nodes, chains, cN(g.offID(vc.DynamicConfig.OffchainConfig)))
}

// ---------- generators ----------
func (g *vC18Gen) bitmap(n int, class int) *big.Int {
	r := g.r
	lim := new(big.Int).Lsh(big.NewInt(1), uint(n))
	switch class {
	case 1: // exactly the largest valid value
		return new(big.Int).Sub(lim, big.NewInt(1))
	case 2: // smallest invalid value
		return lim
	case 3: // far too large
		return new(big.Int).Lsh(big.NewInt(int64(r.Range(1, 9))), uint(n+r.Range(0, 70)))
	case 4:
		return big.NewInt(0)
	}
	v := new(big.Int)
	for i := 0; i < n; i++ {
		if r.Bool() {
			v.SetBit(v, i, 1)
		}
	}
	return v
}

func (g *vC18Gen) vconfig(digest uint64, allowNil bool, big256 bool) VersionedConfig {
	r := g.r
	n := r.Intn(7)
	if big256 && r.Chance(1, 4) {
		n = vPick(r, []int{255, 256, 257})
	}
	vc := VersionedConfig{Version: uint32(r.Intn(5)), ConfigDigest: vC18B32(digest)}
	base := r.Range(1, 50) * 10
	for j := 0; j < n; j++ {
		vc.StaticConfig.Nodes = append(vc.StaticConfig.Nodes, Node{PeerID: vC18B32(uint64(base + j)), OffchainPublicKey: vC18B32(uint64(7000 + base + j))})
	}
	for k := r.Intn(5); k > 0; k-- {
		cls := 0
		if r.Chance(1, 3) {
			cls = r.Range(1, 4)
		}
		var bm *big.Int
		if allowNil && r.Chance(1, 6) {
			bm = nil
		} else {
			bm = g.bitmap(n, cls)
		}
		f := uint64(r.Intn(4))
		if r.Chance(1, 12) {
			f = vPick(r, []uint64{1 << 63, 1<<64 - 1, 1<<63 - 1})
		}
		vc.DynamicConfig.SourceChains = append(vc.DynamicConfig.SourceChains,
			SourceChain{ChainSelector: cciptypes.ChainSelector(r.Range(1, 5)), F: f, ObserverNodesBitmap: bm})
	}
	switch r.Intn(3) {
	case 0:
		vc.DynamicConfig.OffchainConfig = nil
	case 1:
		vc.DynamicConfig.OffchainConfig = cciptypes.Bytes{}
	default:
		vc.DynamicConfig.OffchainConfig = cciptypes.Bytes{byte(r.Intn(4))}
	}
	vc.StaticConfig.OffchainConfig = cciptypes.Bytes{0xee}
	return vc
}

func (g *vC18Gen) response(allowNil, big256 bool) GetAllConfigsResponse {
	r := g.r
	a, c := uint64(r.Range(1, 5)), uint64(r.Range(1, 5))
	switch r.Intn(10) {
	case 0:
		a, c = 0, 0
	case 1:
		a = 0
	case 2, 3:
		c = 0
	case 4:
		c = a
	}
	return GetAllConfigsResponse{ActiveConfig: g.vconfig(a, allowNil, big256), CandidateConfig: g.vconfig(c, allowNil, big256)}
}

type vC18Ev struct {
	kind string // start, poll, read, close
	ans  vC18Answer
	ds   []uint64
}

func (g *vC18Gen) read() vC18Ev {
	ev := vC18Ev{kind: "read"}
	for _, d := range g.r.Perm(7) {
		ev.ds = append(ev.ds, uint64(d)) // every digest of the pool: 0 (the empty digest) .. 6 (never configured)
	}
	return ev
}
func (g *vC18Gen) pollOK() vC18Ev {
	resp := g.response(false, false)
	for resp.ActiveConfig.ConfigDigest.IsEmpty() && resp.CandidateConfig.ConfigDigest.IsEmpty() {
		resp = g.response(false, false)
	}
	return vC18Ev{kind: "poll", ans: vC18Answer{resp: resp}}
}
func (g *vC18Gen) pollFail() vC18Ev {
	if g.r.Chance(1, 3) { // answered, but both digests are empty: counts as a failed poll
		resp := g.response(false, false)
		resp.ActiveConfig.ConfigDigest = cciptypes.Bytes32{}
		resp.CandidateConfig.ConfigDigest = cciptypes.Bytes32{}
		return vC18Ev{kind: "poll", ans: vC18Answer{resp: resp}}
	}
	return vC18Ev{kind: "poll", ans: vC18Answer{err: true}}
}

func vC18CopyVC(vc VersionedConfig) VersionedConfig {
	out := vc
	out.StaticConfig.Nodes = append([]Node{}, vc.StaticConfig.Nodes...)
	out.DynamicConfig.SourceChains = make([]SourceChain, len(vc.DynamicConfig.SourceChains))
	for i, c := range vc.DynamicConfig.SourceChains {
		if c.ObserverNodesBitmap != nil {
			c.ObserverNodesBitmap = new(big.Int).Set(c.ObserverNodesBitmap)
		}
		out.DynamicConfig.SourceChains[i] = c
	}
	return out
}

// an answer that differs from prev in exactly one aspect (of the active config, or only the candidate digest)
func (g *vC18Gen) variant(prev GetAllConfigsResponse, aspect string) GetAllConfigsResponse {
	r := g.r
	out := GetAllConfigsResponse{ActiveConfig: vC18CopyVC(prev.ActiveConfig), CandidateConfig: vC18CopyVC(prev.CandidateConfig)}
	a := &out.ActiveConfig
	n := len(a.StaticConfig.Nodes)
	cs := a.DynamicConfig.SourceChains
	switch aspect {
	case "bitmap": // observer rotation on one chain: same chains, same F, same nodes
		if len(cs) > 0 && n > 0 {
			k := r.Intn(len(cs))
			j := r.Intn(n)
			if cs[k].ObserverNodesBitmap.BitLen() <= n { // flip one observer bit (an out-of-range bitmap is left as it is)
				cs[k].ObserverNodesBitmap.SetBit(cs[k].ObserverNodesBitmap, j, 1-cs[k].ObserverNodesBitmap.Bit(j))
			}
		}
	case "f":
		if len(cs) > 0 {
			cs[r.Intn(len(cs))].F += uint64(r.Range(1, 3))
		}
	case "chainset":
		if len(cs) > 1 && r.Bool() {
			a.DynamicConfig.SourceChains = cs[1:]
		} else {
			a.DynamicConfig.SourceChains = append(cs, SourceChain{ChainSelector: cciptypes.ChainSelector(r.Range(6, 9)), F: 1, ObserverNodesBitmap: g.bitmap(n, 0)})
		}
	case "order":
		perm := r.Perm(len(cs))
		sh := make([]SourceChain, len(cs))
		for i, j := range perm {
			sh[i] = cs[j]
		}
		a.DynamicConfig.SourceChains = sh
	case "node": // one node's peer id / key replaced
		if n > 0 {
			j := r.Intn(n)
			a.StaticConfig.Nodes[j] = Node{PeerID: vC18B32(uint64(900 + r.Intn(50))), OffchainPublicKey: vC18B32(uint64(7900 + r.Intn(50)))}
		}
	case "offchain":
		a.DynamicConfig.OffchainConfig = cciptypes.Bytes{byte(r.Range(10, 40))}
	case "candidate": // only the candidate digest moves
		out.CandidateConfig.ConfigDigest = vC18B32(uint64(vPick(r, []int{0, 4, 5})))
	default: // identical
	}
	return out
}

func (g *vC18Gen) history(cls string) []vC18Ev {
	r := g.r
	var evs []vC18Ev
	add := func(e vC18Ev) {
		evs = append(evs, e)
		if e.kind != "read" && r.Chance(2, 3) {
			evs = append(evs, g.read())
		}
	}
	start := vC18Ev{kind: "start"}
	closeEv := vC18Ev{kind: "close"}
	switch cls {
	case "delta":
		// successive SUCCESSFUL polls that differ in exactly one aspect, every getter read for every digest after every poll
		evs = append(evs, start)
		cur := GetAllConfigsResponse{ActiveConfig: g.vconfig(uint64(r.Range(1, 3)), false, false), CandidateConfig: g.vconfig(uint64(vPick(r, []int{0, 4})), false, false)}
		for len(cur.ActiveConfig.StaticConfig.Nodes) < 2 || len(cur.ActiveConfig.DynamicConfig.SourceChains) < 2 {
			cur.ActiveConfig = g.vconfig(uint64(r.Range(1, 3)), false, false)
		}
		for i := range cur.ActiveConfig.DynamicConfig.SourceChains { // valid bitmaps, so that observer sets are non-trivial
			cur.ActiveConfig.DynamicConfig.SourceChains[i].ObserverNodesBitmap = g.bitmap(len(cur.ActiveConfig.StaticConfig.Nodes), 0)
		}
		evs = append(evs, vC18Ev{kind: "poll", ans: vC18Answer{resp: cur}}, g.read())
		aspects := []string{"bitmap", "bitmap", "f", "chainset", "order", "node", "offchain", "candidate", "same"}
		for k := r.Range(3, 7); k > 0; k-- {
			cur = g.variant(cur, vPick(r, aspects))
			evs = append(evs, vC18Ev{kind: "poll", ans: vC18Answer{resp: cur}}, g.read())
			if r.Chance(1, 6) {
				evs = append(evs, g.pollFail(), g.read())
			}
		}
	case "mixed":
		add(start)
		for k := r.Range(3, 14); k > 0; k-- {
			switch {
			case r.Chance(6, 10):
				add(g.pollOK())
			case r.Chance(1, 2):
				add(vC18Ev{kind: "poll", ans: vC18Answer{resp: g.response(false, false)}})
			default:
				add(g.pollFail())
			}
		}
		if r.Bool() {
			add(closeEv)
		}
	case "health":
		add(start)
		if r.Bool() {
			add(g.pollOK())
		} else {
			add(g.pollFail())
		}
		k := vPick(r, []int{9, 10, 11, 12})
		cut := -1
		if r.Chance(2, 3) {
			cut = r.Range(1, k-1)
		}
		for i := 0; i < k; i++ {
			if i == cut {
				add(g.pollOK())
			}
			evs = append(evs, g.pollFail())
			if i >= 7 || r.Chance(1, 3) {
				evs = append(evs, g.read())
			}
		}
		if r.Bool() {
			add(g.pollOK())
		}
		for i := r.Intn(3); i > 0; i-- {
			add(g.pollFail())
		}
		if r.Chance(1, 3) {
			add(closeEv)
		}
	default: // lifecycle
		if r.Bool() {
			add(g.read())
		}
		if r.Chance(1, 3) {
			add(closeEv)
		}
		if r.Chance(1, 4) {
			add(g.pollOK())
		}
		add(start)
		if r.Chance(1, 3) {
			add(start)
		}
		for k := r.Intn(4); k > 0; k-- {
			if r.Chance(2, 3) {
				add(g.pollOK())
			} else {
				add(g.pollFail())
			}
		}
		add(closeEv) // always with a fetch in flight (the poller is waiting for the reader's answer)
		evs = append(evs, g.read())
		for k := r.Intn(4); k > 0; k-- {
			switch r.Intn(4) {
			case 0:
				add(g.pollOK())
			case 1:
				add(closeEv)
			case 2:
				add(start)
			default:
				add(g.read())
			}
		}
	}
	if evs[len(evs)-1].kind != "read" {
		evs = append(evs, g.read())
	}
	return evs
}

// ---------- canonical rendering of outputs ----------
func vC18NodesCoq(nodes []rmntypes.HomeNodeInfo) string {
	return cMap(nodes, func(n rmntypes.HomeNodeInfo) string {
		key := uint64(999998)
		if n.OffchainPublicKey != nil {
			key = vC18B32N([]byte(*n.OffchainPublicKey))
		}
		var chains []uint64
		if n.SupportedSourceChains != nil {
			for _, c := range n.SupportedSourceChains.ToSlice() {
				chains = append(chains, uint64(c))
			}
		}
		vSortU64(chains)
		return cApp("mkHN", cN(uint64(n.ID)), cN(vC18B32N(n.PeerID[:])), cN(key), cListN(chains))
	})
}
func vC18FCoq(m map[cciptypes.ChainSelector]int) string {
	keys := make([]uint64, 0, len(m))
	for k := range m {
		keys = append(keys, uint64(k))
	}
	vSortU64(keys)
	return cMap(keys, func(k uint64) string { return cPair(cN(k), cZ(int64(m[cciptypes.ChainSelector(k)]))) })
}
func (g *vC18Gen) hcCoq(c rmntypes.HomeConfig) string {
	return cApp("mkHC", vC18NodesCoq(c.Nodes), vC18FCoq(c.SourceChainF), cN(vC18B32N(c.ConfigDigest[:])), cN(g.offID(c.OffchainConfig)))
}

func (g *vC18Gen) observe(p RMNHome, ev vC18Ev) string {
	a, c := p.GetAllConfigDigests()
	var nodes, set, fs, offs []string
	for _, d := range ev.ds {
		dg := vC18B32(d)
		if ns, err := p.GetRMNNodesInfo(dg); err != nil {
			nodes = append(nodes, cNone())
		} else {
			nodes = append(nodes, cSome(vC18NodesCoq(ns)))
		}
		set = append(set, cBool(p.IsRMNHomeConfigDigestSet(dg)))
		if f, err := p.GetF(dg); err != nil {
			fs = append(fs, cNone())
		} else {
			fs = append(fs, cSome(vC18FCoq(f)))
		}
		if o, err := p.GetOffChainConfig(dg); err != nil {
			offs = append(offs, cNone())
		} else {
			offs = append(offs, cSome(cN(g.offID(o))))
		}
	}
	ready := p.Ready() == nil
	hr := p.HealthReport()
	healthy := len(hr) == 1
	for _, e := range hr {
		if e != nil {
			healthy = false
		}
	}
	return cTup(cPair(cN(vC18B32N(a[:])), cN(vC18B32N(c[:]))), cList(nodes), cList(set), cList(fs), cList(offs), cBool(ready), cBool(healthy))
}

func vC18NewPoller(rd *vC18Reader, interval time.Duration) *rmnHomePoller {
	return NewRMNHomePoller(rd, types.BoundContract{Address: "0xRMNHomeFakeAddress", Name: consts.ContractNameRMNHome},
		logger.Nop(), interval).(*rmnHomePoller)
}

func vC18Watch(t *testing.T, what string, f func()) {
	done := make(chan struct{})
	go func() { f(); close(done) }()
	if _, ok := vRecvW(done, 30*time.Second); ok {
		return
	}
	if _, ok := vRecvW(done, 60*time.Second); !ok { // second chance before a hang is declared
		t.Fatalf("C18: %s did not return", what)
	}
}

func (g *vC18Gen) runHistory(t *testing.T, evs []vC18Ev) []string {
	rd := &vC18Reader{gated: true, arrived: make(chan struct{}), answers: make(chan vC18Answer)}
	p := vC18NewPoller(rd, 300*time.Microsecond)
	phase := 0
	var obs []string
	for _, ev := range evs {
		switch ev.kind {
		case "start":
			err := p.Start(context.Background())
			if phase == 0 {
				if err != nil {
					t.Fatalf("C18: Start failed: %v", err)
				}
				phase = 1
				rd.waitArrival(t)
			}
		case "close":
			var err error
			vC18Watch(t, "Close", func() { err = p.Close() })
			if phase == 1 {
				if err != nil {
					t.Fatalf("C18: Close failed: %v", err)
				}
				phase = 2
			}
		case "poll":
			if phase != 1 {
				continue
			}
			if !vSendW(rd.answers, ev.ans, 30*time.Second) && !vSendW(rd.answers, ev.ans, 60*time.Second) {
				t.Fatalf("C18: poller did not take the scripted answer")
			}
			rd.waitArrival(t) // the next fetch has begun, so this one is fully processed
		case "read":
			obs = append(obs, g.observe(p, ev))
		}
	}
	if phase == 1 {
		vC18Watch(t, "Close", func() { _ = p.Close() })
	}
	return obs
}

func (g *vC18Gen) evCoq(ev vC18Ev) string {
	switch ev.kind {
	case "start":
		return "RStart"
	case "close":
		return "RClose"
	case "read":
		return cApp("RRead", cListN(ev.ds))
	default:
		if ev.ans.err {
			return cApp("RPoll", cNone())
		}
		return cApp("RPoll", cSome(cPair(g.vcCoq(ev.ans.resp.ActiveConfig), g.vcCoq(ev.ans.resp.CandidateConfig))))
	}
}

func vC18Show(evs []vC18Ev) string {
	var sb strings.Builder
	for _, e := range evs {
		if e.kind == "poll" {
			if e.ans.err {
				sb.WriteString("poll(err) ")
			} else {
				sb.WriteString(fmt.Sprintf("poll(%d,%d) ", vC18B32N(e.ans.resp.ActiveConfig.ConfigDigest[:]), vC18B32N(e.ans.resp.CandidateConfig.ConfigDigest[:])))
			}
		} else {
			sb.WriteString(e.kind + " ")
		}
	}
	return sb.String()
}

func TestVerif_C18_rmn_seq(t *testing.T) {
	r := vNewRand(vSeed() + 1811)
	n := vEnvInt("VERIF_N", 100)
	sink := vOpenSink("C18_rmn_seq")
	defer sink.Close()
	g := &vC18Gen{r: r, off: vNewIntern()}
	classes := []string{"mixed", "delta", "health", "delta", "lifecycle"}
	for i := 0; i < n; i++ {
		cls := classes[i%len(classes)]
		evs := g.history(cls)
		obs := g.runHistory(t, evs)
		polls := 0
		for _, e := range evs {
			if e.kind == "poll" {
				polls++
			}
		}
		sink.Emit("rseq", cls, polls >= 2, cPair(cMap(evs, g.evCoq), cList(obs)), vC18Show(evs))
	}
}

// ---------- concurrent readers during refresh ----------
type vC18Rec struct {
	a, c  cciptypes.Bytes32
	nodes []rmntypes.HomeNodeInfo
	nerr  bool
	f     map[cciptypes.ChainSelector]int
	ferr  bool
	off   cciptypes.Bytes
	oerr  bool
	st    rmnHomeState
}

func TestVerif_C18_rmn_conc(t *testing.T) {
	r := vNewRand(vSeed() + 1812)
	n := vEnvInt("VERIF_N", 10)
	sink := vOpenSink("C18_rmn_conc")
	defer sink.Close()
	g := &vC18Gen{r: r, off: vNewIntern()}
	const readers = 16
	const D = 7
	dD := vC18B32(D)
	for run := 0; run < n; run++ {
		K := r.Range(20, 60)
		script := make([]GetAllConfigsResponse, K)
		for k := range script {
			i := k + 1
			act := VersionedConfig{ConfigDigest: dD}
			nn := r.Range(1, 5)
			for j := 0; j < nn; j++ {
				act.StaticConfig.Nodes = append(act.StaticConfig.Nodes, Node{PeerID: vC18B32(uint64(1000*i + j)), OffchainPublicKey: vC18B32(uint64(j))})
			}
			act.DynamicConfig.SourceChains = []SourceChain{{ChainSelector: 1, F: uint64(i), ObserverNodesBitmap: g.bitmap(nn, 0)}}
			act.DynamicConfig.OffchainConfig = cciptypes.Bytes{byte(i), 0xaa}
			cand := g.vconfig(uint64(100+i), false, false)
			cand.DynamicConfig.OffchainConfig = cciptypes.Bytes{byte(i), 0xbb}
			script[k] = GetAllConfigsResponse{ActiveConfig: act, CandidateConfig: cand}
		}
		rd := &vC18Reader{script: script, done: make(chan struct{})}
		p := vC18NewPoller(rd, 150*time.Microsecond)
		var stop atomic.Bool
		var wg sync.WaitGroup
		logs := make([][]vC18Rec, readers)
		for w := 0; w < readers; w++ {
			wg.Add(1)
			go func(w int) {
				defer wg.Done()
				var last [4]int
				for it := 0; !stop.Load(); it++ {
					var rec vC18Rec
					var err error
					rec.a, rec.c = p.GetAllConfigDigests()
					rec.nodes, err = p.GetRMNNodesInfo(dD)
					rec.nerr = err != nil
					rec.f, err = p.GetF(dD)
					rec.ferr = err != nil
					rec.off, err = p.GetOffChainConfig(dD)
					rec.oerr = err != nil
					p.mutex.RLock()
					rec.st = p.rmnHomeState
					p.mutex.RUnlock()
					o := 0
					if len(rec.off) > 0 {
						o = int(rec.off[0])
					}
					mark := [4]int{int(vC18B32N(rec.c[:])), rec.f[1], o, int(vC18B32N(rec.st.candidateConfigDigest[:]))}
					if (mark != last || it%16 == 0) && len(logs[w]) < 300 {
						logs[w] = append(logs[w], rec)
						last = mark
					}
					runtime.Gosched()
				}
			}(w)
		}
		if err := p.Start(context.Background()); err != nil {
			t.Fatalf("C18: Start: %v", err)
		}
		if _, ok := vRecvW(rd.done, 60*time.Second); !ok {
			if _, ok := vRecvW(rd.done, 120*time.Second); !ok { // second chance before a hang is declared
				t.Fatalf("C18: the poller did not perform %d polls", K)
			}
		}
		time.Sleep(300 * time.Microsecond)
		stop.Store(true)
		wg.Wait()
		vC18Watch(t, "Close", func() { _ = p.Close() })

		table := vNewIntern()
		var items []string
		id := func(s string) string {
			k := table.Id(s)
			if int(k) > len(items) {
				items = append(items, s)
			}
			return cN(k - 1)
		}
		opt := func(isErr bool, s string) string {
			if isErr {
				return cNone()
			}
			return cSome(s)
		}
		readersCoq := make([]string, readers)
		nrec := 0
		for w := range logs {
			recs := make([]string, len(logs[w]))
			for i, rec := range logs[w] {
				sc := rec.st.candidateConfigDigest
				scfg, sok := rec.st.rmnHomeConfig[dD]
				ccfg, cok := rec.st.rmnHomeConfig[sc]
				recs[i] = cList([]string{
					id(cApp("RDig", cN(vC18B32N(rec.a[:])), cN(vC18B32N(rec.c[:])))),
					id(cApp("RNodes", cN(D), opt(rec.nerr, vC18NodesCoq(rec.nodes)))),
					id(cApp("RF", cN(D), opt(rec.ferr, vC18FCoq(rec.f)))),
					id(cApp("ROff", cN(D), opt(rec.oerr, cN(g.offID(rec.off))))),
					id(cApp("RDig", cN(vC18B32N(rec.st.activeConfigDigest[:])), cN(vC18B32N(sc[:])))),
					id(cApp("RNodes", cN(D), opt(!sok, vC18NodesCoq(scfg.Nodes)))),
					id(cApp("RF", cN(D), opt(!sok, vC18FCoq(scfg.SourceChainF)))),
					id(cApp("ROff", cN(vC18B32N(sc[:])), opt(!cok, cN(g.offID(ccfg.OffchainConfig))))),
				})
				nrec++
			}
			readersCoq[w] = cList(recs)
		}
		in := cMap(script, func(resp GetAllConfigsResponse) string {
			return cPair(g.vcCoq(resp.ActiveConfig), g.vcCoq(resp.CandidateConfig))
		})
		sink.Emit("rconc", "refresh", len(items) > 8,
			cPair(in, cPair(cList(items), cList(readersCoq))),
			fmt.Sprintf("polls=%d distinct_views=%d records=%d", K, len(items), nrec))
	}
}

// ---------- IsNodeObserver ----------
func vC18IsObserver(bm *big.Int, j, n int) (code uint64) {
	defer func() {
		if recover() != nil {
			code = 3
		}
	}()
	ok, err := IsNodeObserver(SourceChain{ChainSelector: 1, F: 1, ObserverNodesBitmap: bm}, j, n)
	switch {
	case err != nil:
		return 2
	case ok:
		return 1
	}
	return 0
}

func TestVerif_C18_bitmap(t *testing.T) {
	r := vNewRand(vSeed() + 1813)
	n := vEnvInt("VERIF_N", 600)
	sink := vOpenSink("C18_bitmap")
	defer sink.Close()
	g := &vC18Gen{r: r, off: vNewIntern()}
	emit := func(cls string, bm *big.Int, j, nn int) {
		var orig *big.Int
		if bm != nil {
			orig = new(big.Int).Set(bm)
		}
		code := vC18IsObserver(bm, j, nn)
		if bm != nil && bm.Cmp(orig) != 0 {
			code = 77 // the argument must not be modified
		}
		b := cNone()
		if orig != nil {
			b = cSome(cZb(orig))
		}
		sink.Emit("bitmap", cls, cls != "invalid", cPair(cTup(b, cZ(int64(j)), cZ(int64(nn))), cN(code)),
			fmt.Sprintf("bitmap=%v j=%d n=%d -> %d", orig, j, nn, code))
	}
	// exhaustive: every committee size 1..8, every bitmap 0..2^n (2^n itself is the first invalid one), every index
	for nn := 1; nn <= 8; nn++ {
		for b := 0; b <= 1<<nn; b++ {
			for j := 0; j < nn; j++ {
				emit("exhaustive", big.NewInt(int64(b)), j, nn)
			}
		}
	}
	for i := 0; i < n; i++ {
		switch i % 4 {
		case 0, 1:
			nn := r.Range(9, 256)
			if r.Chance(1, 4) {
				nn = vPick(r, []int{63, 64, 65, 128, 255, 256})
			}
			j := r.Intn(nn)
			if r.Chance(1, 4) {
				j = vPick(r, []int{0, nn - 1, nn / 2})
			}
			emit("random", g.bitmap(nn, 0), j, nn)
		case 2:
			nn := r.Range(1, 256)
			emit("edge", g.bitmap(nn, r.Range(1, 4)), vPick(r, []int{0, nn - 1}), nn)
		default:
			nn := vPick(r, []int{0, -1, 1, 5, 256, 257, 300})
			j := vPick(r, []int{-1, 0, 1, nn - 1, nn, nn + 1})
			var bm *big.Int
			switch r.Intn(3) {
			case 0:
				bm = nil
			case 1:
				bm = big.NewInt(int64(-r.Range(1, 40)))
			default:
				if nn > 0 && nn <= 300 {
					bm = g.bitmap(nn, r.Intn(5))
				} else {
					bm = big.NewInt(1)
				}
			}
			emit("invalid", bm, j, nn)
		}
	}
}


//go:build verif

package reader

import (
	"context"
	"errors"
	"fmt"
	"math/big"
	"strings"
	"testing"
	"time"

	cctypes "github.com/smartcontractkit/chainlink-common/pkg/types"
	"github.com/smartcontractkit/chainlink-common/pkg/logger"
	"github.com/smartcontractkit/chainlink-common/pkg/types/query"
	"github.com/smartcontractkit/chainlink-common/pkg/types/query/primitives"

	"github.com/smartcontractkit/chainlink-ccip/internal/plugintypes"
	"github.com/smartcontractkit/chainlink-ccip/pkg/consts"
	"github.com/smartcontractkit/chainlink-ccip/pkg/contractreader"
	cciptypes "github.com/smartcontractkit/chainlink-ccip/pkg/types/ccipocr3"
	"github.com/smartcontractkit/chainlink-ccip/pluginconfig"
)

// C13 directed site classes, package pkg/reader: the (guard, use) pairs of the reader layer modelled in
// coq/Model/PanicSites2.v are driven with inputs around the guard boundary; every case is
// (site input, termination code 0 returned / 1 returned an error / 2 panicked / 3 did not return).

type vC13sCR struct {
	fn func(method string, params, ret any) error
}

func (c *vC13sCR) GetLatestValue(ctx context.Context, readIdentifier string, conf primitives.ConfidenceLevel, params, ret any) error {
	parts := strings.Split(readIdentifier, "-")
	return c.fn(parts[len(parts)-1], params, ret)
}
func (c *vC13sCR) BatchGetLatestValues(ctx context.Context, request cctypes.BatchGetLatestValuesRequest) (cctypes.BatchGetLatestValuesResult, error) {
	return nil, errors.New("unscripted")
}
func (c *vC13sCR) Bind(ctx context.Context, bindings []cctypes.BoundContract) error   { return nil }
func (c *vC13sCR) Unbind(ctx context.Context, bindings []cctypes.BoundContract) error { return nil }
func (c *vC13sCR) QueryKey(ctx context.Context, contract cctypes.BoundContract, filter query.KeyFilter, ls query.LimitAndSort, seqType any) ([]cctypes.Sequence, error) {
	return nil, nil
}

var _ contractreader.ContractReaderFacade = (*vC13sCR)(nil)

type vC13sCW struct{ nilAnswer bool }

func (c *vC13sCW) Start(context.Context) error    { return nil }
func (c *vC13sCW) Close() error                   { return nil }
func (c *vC13sCW) Ready() error                   { return nil }
func (c *vC13sCW) HealthReport() map[string]error { return nil }
func (c *vC13sCW) Name() string                   { return "vC13sCW" }
func (c *vC13sCW) SubmitTransaction(ctx context.Context, contractName, method string, args any, transactionID string, toAddress string, meta *cctypes.TxMeta, value *big.Int) error {
	return errors.New("unscripted")
}
func (c *vC13sCW) GetTransactionStatus(ctx context.Context, transactionID string) (cctypes.TransactionStatus, error) {
	return 0, errors.New("unscripted")
}
func (c *vC13sCW) GetFeeComponents(ctx context.Context) (*cctypes.ChainFeeComponents, error) {
	if c.nilAnswer {
		return nil, nil
	}
	return &cctypes.ChainFeeComponents{ExecutionFee: big.NewInt(7), DataAvailabilityFee: big.NewInt(1)}, nil
}

// vC13sRun: 0 returned, 1 returned an error, 2 panicked, 3 watchdog.
func vC13sRun(f func() error) (int, string) {
	var err error
	code, what := vGuard(3*time.Second, func() { err = f() })
	if code == 0 && err != nil {
		return 1, err.Error()
	}
	return code, what
}

func vC13sNat(n int) string { return fmt.Sprintf("%d%%nat", n) }

func TestVerif_C13_sites_reader(t *testing.T) {
	ctx := context.Background()
	sink := vOpenSink("C13_sites_reader")
	defer sink.Close()
	lggr := logger.Nop()
	const dest = cciptypes.ChainSelector(900)
	emit := func(cls, in string, code int, what string, show map[string]any) {
		show["code"], show["panic"] = code, what
		sink.Emit("C13_sites_reader", cls, true, cPair(in, cNi(code)), show)
	}
	lens := []int{0, 1, 2, 3, 5}

	// ---- site zip/4: getAllOffRampSourceChainsConfig — len(SourceChainConfigs) != len(Selectors) before the index loop
	for _, n := range lens {
		for _, d := range []int{-2, -1, 0, 1, 2} {
			m := n + d
			if m < 0 {
				continue
			}
			cr := &vC13sCR{fn: func(method string, params, ret any) error {
				if method != consts.MethodNameOffRampGetAllSourceChainConfigs {
					return errors.New("unscripted " + method)
				}
				out := ret.(*selectorsAndConfigs)
				for i := 0; i < n; i++ {
					out.Selectors = append(out.Selectors, uint64(10+i))
				}
				for i := 0; i < m; i++ {
					out.SourceChainConfigs = append(out.SourceChainConfigs, sourceChainConfig{OnRamp: []byte{1, byte(i)}, IsEnabled: true, MinSeqNr: 1})
				}
				return nil
			}}
			r := newCCIPChainReaderInternal(ctx, lggr, map[cciptypes.ChainSelector]contractreader.ContractReaderFacade{dest: cr}, nil, dest, []byte{0x0F})
			code, what := vC13sRun(func() error { _, err := r.getAllOffRampSourceChainsConfig(ctx, dest); return err })
			emit("zip4/source-chain-configs", cApp("SZip", cN(4), vC13sNat(n), vC13sNat(m)), code, what, map[string]any{"selectors": n, "configs": m})
		}
	}

	// ---- site zip/7: priceReader.GetFeeQuoterTokenUpdates — one update per requested token
	for _, n := range lens {
		for _, d := range []int{-2, -1, 0, 1, 2} {
			m := n + d
			if m < 0 {
				continue
			}
			cr := &vC13sCR{fn: func(method string, params, ret any) error {
				if method != consts.MethodNameFeeQuoterGetTokenPrices {
					return errors.New("unscripted " + method)
				}
				out := ret.(*[]plugintypes.TimestampedUnixBig)
				upd := make([]plugintypes.TimestampedUnixBig, m)
				for i := range upd {
					upd[i] = plugintypes.TimestampedUnixBig{Timestamp: 1700000000, Value: big.NewInt(int64(5 + i))}
				}
				*out = upd
				return nil
			}}
			readers := map[cciptypes.ChainSelector]contractreader.ContractReaderFacade{dest: cr}
			rd := newCCIPChainReaderInternal(ctx, lggr, readers, nil, dest, []byte{0x0F})
			_ = rd.Sync(ctx, ContractAddresses{consts.ContractNameFeeQuoter: {dest: []byte{0xFE}}})
			pr := NewPriceReader(lggr, readers, map[cciptypes.UnknownEncodedAddress]pluginconfig.TokenInfo{}, rd, dest)
			var tokens []cciptypes.UnknownEncodedAddress
			for i := 0; i < n; i++ {
				tokens = append(tokens, cciptypes.UnknownEncodedAddress(fmt.Sprintf("0x%040x", 10+i)))
			}
			code, what := vC13sRun(func() error { _, err := pr.GetFeeQuoterTokenUpdates(ctx, tokens, dest); return err })
			emit("zip7/fee-quoter-token-updates", cApp("SZip", cN(7), vC13sNat(n), vC13sNat(m)), code, what, map[string]any{"tokens": n, "updates": m})
		}
	}

	// ---- site raw-price: getRawTokenPriceE18Normalized — latestRoundData without an answer
	for _, ansNil := range []bool{false, true} {
		for _, dec := range []uint8{0, 6, 17, 18, 19, 36, 255} {
			cr := &vC13sCR{fn: func(method string, params, ret any) error {
				switch method {
				case consts.MethodNameGetLatestRoundData:
					out := ret.(*LatestRoundData)
					out.RoundID = big.NewInt(1)
					if !ansNil {
						out.Answer = big.NewInt(123456789)
					}
					return nil
				case consts.MethodNameGetDecimals:
					*(ret.(*uint8)) = dec
					return nil
				}
				return errors.New("unscripted " + method)
			}}
			pr := &priceReader{lggr: lggr, feedChain: dest, chainReaders: map[cciptypes.ChainSelector]contractreader.ContractReaderFacade{dest: cr}}
			code, what := vC13sRun(func() error {
				p, err := pr.getRawTokenPriceE18Normalized(ctx, "0x01", cctypes.BoundContract{Address: "0x02", Name: consts.ContractNamePriceAggregator}, cr)
				if err != nil {
					return err
				}
				_ = calculateUsdPer1e18TokenAmount(p, 18) // what GetFeedPricesUSD does next with the value
				return nil
			})
			emit("raw-price/answer-nil="+fmt.Sprint(ansNil), cApp("SRawPrice", cBool(ansNil), cN(uint64(dec))), code, what, map[string]any{"answer_nil": ansNil, "decimals": dec})
		}
	}

	// ---- site fee-comp: GetChainsFeeComponents — a chain writer answering (nil, nil)
	for _, isNil := range []bool{false, true} {
		rd := newCCIPChainReaderInternal(ctx, lggr, map[cciptypes.ChainSelector]contractreader.ContractReaderFacade{dest: &vC13sCR{fn: func(string, any, any) error { return errors.New("x") }}},
			map[cciptypes.ChainSelector]cctypes.ContractWriter{dest: &vC13sCW{nilAnswer: isNil}}, dest, []byte{0x0F})
		code, what := vC13sRun(func() error { _ = rd.GetChainsFeeComponents(ctx, []cciptypes.ChainSelector{dest, 5}); return nil })
		emit("fee-comp/nil="+fmt.Sprint(isNil), cApp("SFeeComp", cBool(isNil)), code, what, map[string]any{"nil": isNil})
	}

	// ---- site unpack-id: MessageSentEvent.unpackID — len(Arg0) < 32 before Arg0[:32]
	for _, l := range []int{0, 1, 31, 32, 33, 64, 200} {
		ev := MessageSentEvent{Arg0: make([]byte, l)}
		if l == 0 {
			ev.Arg0 = nil
		}
		code, what := vC13sRun(func() error { _, err := ev.unpackID(); return err })
		emit("unpack-id", cApp("SUnpackID", vC13sNat(l)), code, what, map[string]any{"len": l})
	}

	// ---- site payload: NewSourceTokenDataPayloadFromBytes — len(extraData) < 64 before [24:32] and [60:64]
	for _, l := range []int{0, 1, 31, 32, 59, 63, 64, 65, 128} {
		var b cciptypes.Bytes
		if l > 0 {
			b = make([]byte, l)
		}
		code, what := vC13sRun(func() error { _, err := NewSourceTokenDataPayloadFromBytes(b); return err })
		emit("payload", cApp("SPayload", vC13sNat(l)), code, what, map[string]any{"len": l})
	}
}

//go:build verif

package ccipocr3

// C20, JSON text layer: Model/JsonText.v (print / parse) against encoding/json itself.
//   sink C20_jprint: (tree, bytes json.Marshal emitted for it)
//   sink C20_jparse: ((accept_only, bytes), tree json.Valid + json.Decoder.Token built, or error)
// Everything generated stays inside the modelled subset: all bytes below 128 and no \u escape above 007f
// (accepted inputs whose tree holds a byte >= 0x80 are dropped and counted).

import (
	"bytes"
	"encoding/json"
	"errors"
	"fmt"
	"io"
	"sort"
	"strconv"
	"strings"
	"testing"
)

// ---------- tree ----------
type vC20JN struct {
	k    byte // n t f # s a o
	s    string
	arr  []*vC20JN
	keys []string
	vals []*vC20JN
}

func vC20JChunks(b []byte) string {
	if len(b) == 0 {
		return "[]"
	}
	var sb strings.Builder
	sb.WriteString("(txp [")
	for i := 0; i < len(b); i += 7 {
		e := i + 7
		if e > len(b) {
			e = len(b)
		}
		var c uint64
		for k := e - 1; k >= i; k-- {
			c = c<<8 | uint64(b[k])
		}
		c |= uint64(e-i) << 56
		if i > 0 {
			sb.WriteString("; ")
		}
		sb.WriteString(strconv.FormatUint(c, 10))
	}
	sb.WriteString("]%uint63)")
	return sb.String()
}

func (j *vC20JN) Coq() string {
	switch j.k {
	case 'n':
		return "JNull"
	case 't':
		return "JTrue"
	case 'f':
		return "JFalse"
	case '#':
		return cApp("JNum", vC20JChunks([]byte(j.s)))
	case 's':
		return cApp("JStr", vC20JChunks([]byte(j.s)))
	case 'a':
		return cApp("JArr", cMap(j.arr, func(e *vC20JN) string { return e.Coq() }))
	default:
		xs := make([]string, len(j.keys))
		for i := range j.keys {
			xs[i] = cPair(vC20JChunks([]byte(j.keys[i])), j.vals[i].Coq())
		}
		return cApp("JObj", cList(xs))
	}
}

// ASCII only?
func (j *vC20JN) Ascii() bool {
	ok := func(s string) bool {
		for i := 0; i < len(s); i++ {
			if s[i] >= 0x80 {
				return false
			}
		}
		return true
	}
	if !ok(j.s) {
		return false
	}
	for _, e := range j.arr {
		if !e.Ascii() {
			return false
		}
	}
	for i := range j.keys {
		if !ok(j.keys[i]) || !j.vals[i].Ascii() {
			return false
		}
	}
	return true
}
func (j *vC20JN) Depth() int {
	d := 0
	for _, e := range j.arr {
		if x := e.Depth(); x > d {
			d = x
		}
	}
	for _, e := range j.vals {
		if x := e.Depth(); x > d {
			d = x
		}
	}
	if j.k == 'a' || j.k == 'o' {
		return d + 1
	}
	return 0
}

// "raw" marshalling: the tree type assembles containers itself (member order under our control) and hands every
// string (values and member names) to the standard encoder; json.Marshal then runs its compaction / HTML escaping
// pass over the result, as it does for every Marshaler.
func (j *vC20JN) MarshalJSON() ([]byte, error) {
	switch j.k {
	case 'n':
		return []byte("null"), nil
	case 't':
		return []byte("true"), nil
	case 'f':
		return []byte("false"), nil
	case '#':
		return []byte(j.s), nil
	case 's':
		return json.Marshal(j.s)
	case 'a':
		var b bytes.Buffer
		b.WriteByte('[')
		for i, e := range j.arr {
			if i > 0 {
				b.WriteByte(',')
			}
			x, err := json.Marshal(e)
			if err != nil {
				return nil, err
			}
			b.Write(x)
		}
		b.WriteByte(']')
		return b.Bytes(), nil
	default:
		var b bytes.Buffer
		b.WriteByte('{')
		for i := range j.keys {
			if i > 0 {
				b.WriteByte(',')
			}
			k, err := json.Marshal(j.keys[i])
			if err != nil {
				return nil, err
			}
			b.Write(k)
			b.WriteByte(':')
			x, err := json.Marshal(j.vals[i])
			if err != nil {
				return nil, err
			}
			b.Write(x)
		}
		b.WriteByte('}')
		return b.Bytes(), nil
	}
}

// "native" marshalling: plain Go values, so that the encoder's own slice / map / string / number paths run.
// Objects become map[string]any when their member names are distinct and ascending (the map encoder sorts them
// into that order); otherwise the object stays a tree node.
func (j *vC20JN) Native() any {
	switch j.k {
	case 'n':
		return nil
	case 't':
		return true
	case 'f':
		return false
	case '#':
		return json.Number(j.s)
	case 's':
		return j.s
	case 'a':
		out := make([]any, len(j.arr))
		for i, e := range j.arr {
			out[i] = e.Native()
		}
		return out
	default:
		for i := 1; i < len(j.keys); i++ {
			if !(j.keys[i-1] < j.keys[i]) {
				return j
			}
		}
		m := make(map[string]any, len(j.keys))
		for i := range j.keys {
			m[j.keys[i]] = j.vals[i].Native()
		}
		return m
	}
}

// ---------- generators ----------
var vC20JSpecial = []byte{0x00, 0x01, 0x07, 0x08, 0x09, 0x0a, 0x0b, 0x0c, 0x0d, 0x0e, 0x1f, 0x20, '"', '\\', '/', '<', '>', '&',
	0x7f, '\'', 'u', 'b', 'n', '0', 'A', '~', '{', ']', ',', ':'}

func vC20JString(r *vRand) string {
	n := vPick(r, []int{0, 0, 1, 1, 2, 3, 5, 8, 12})
	b := make([]byte, n)
	for i := range b {
		if r.Chance(2, 5) {
			b[i] = vPick(r, vC20JSpecial)
		} else {
			b[i] = byte(r.Intn(128))
		}
	}
	return string(b)
}

var vC20JNums = []string{"0", "-0", "1", "-1", "7", "10", "100", "18446744073709551615", "18446744073709551616",
	"-9223372036854775808", "1e3", "1E3", "1e+3", "1e-3", "1.5", "-1.5e-10", "0.0", "0e0", "-0.0E-0", "1.0E+2",
	"123456789012345678901234567890", "0.000001", "1e400", "2.5E+007"}

func vC20JDigits(r *vRand, lo, hi int) string {
	n := r.Range(lo, hi)
	b := make([]byte, n)
	for i := range b {
		b[i] = byte('0' + r.Intn(10))
	}
	return string(b)
}
func vC20JNumber(r *vRand) string {
	if r.Chance(3, 5) {
		return vPick(r, vC20JNums)
	}
	var sb strings.Builder
	if r.Bool() {
		sb.WriteByte('-')
	}
	if r.Chance(1, 3) {
		sb.WriteByte('0')
	} else {
		sb.WriteByte(byte('1' + r.Intn(9)))
		sb.WriteString(vC20JDigits(r, 0, 5))
	}
	if r.Chance(1, 3) {
		sb.WriteByte('.')
		sb.WriteString(vC20JDigits(r, 1, 4))
	}
	if r.Chance(1, 3) {
		sb.WriteByte(vPick(r, []byte{'e', 'E'}))
		sb.WriteString(vPick(r, []string{"", "+", "-"}))
		sb.WriteString(vC20JDigits(r, 1, 3))
	}
	return sb.String()
}

func vC20JTree(r *vRand, depth int) *vC20JN {
	k := r.Intn(10)
	if depth >= 4 && k >= 6 {
		k = r.Intn(6)
	}
	switch k {
	case 0:
		return &vC20JN{k: vPick(r, []byte{'n', 't', 'f'})}
	case 1, 2:
		return &vC20JN{k: '#', s: vC20JNumber(r)}
	case 3, 4, 5:
		return &vC20JN{k: 's', s: vC20JString(r)}
	case 6, 7:
		j := &vC20JN{k: 'a'}
		n := vPick(r, []int{0, 1, 1, 2, 3})
		for i := 0; i < n; i++ {
			j.arr = append(j.arr, vC20JTree(r, depth+1))
		}
		return j
	default:
		j := &vC20JN{k: 'o'}
		n := vPick(r, []int{0, 1, 1, 2, 3})
		for i := 0; i < n; i++ {
			key := vC20JString(r)
			if i > 0 && r.Chance(1, 6) {
				key = j.keys[r.Intn(i)] // duplicate member name
			}
			j.keys = append(j.keys, key)
			j.vals = append(j.vals, vC20JTree(r, depth+1))
		}
		if r.Bool() { // ascending distinct names: eligible for the map encoder
			sort.Strings(j.keys)
			out := j.keys[:0]
			for i, k := range j.keys {
				if i == 0 || k != j.keys[i-1] {
					out = append(out, k)
				}
			}
			j.keys = out
			j.vals = j.vals[:len(out)]
		}
		return j
	}
}

// a foreign spelling of a tree: white space between tokens, any admissible escape for each string byte
func vC20JSpellStr(r *vRand, s string, sb *bytes.Buffer) {
	sb.WriteByte('"')
	for i := 0; i < len(s); i++ {
		c := s[i]
		short := byte(0)
		switch c {
		case '"', '\\', '/':
			short = c
		case '\b':
			short = 'b'
		case '\f':
			short = 'f'
		case '\n':
			short = 'n'
		case '\r':
			short = 'r'
		case '\t':
			short = 't'
		}
		rawOK := c >= 0x20 && c != '"' && c != '\\'
		switch {
		case rawOK && r.Chance(3, 5):
			sb.WriteByte(c)
		case short != 0 && r.Chance(2, 3):
			sb.WriteByte('\\')
			sb.WriteByte(short)
		default:
			h := fmt.Sprintf("%04x", c)
			switch r.Intn(3) {
			case 0:
				h = strings.ToUpper(h)
			case 1:
				hb := []byte(h)
				for k := range hb {
					if r.Bool() && hb[k] >= 'a' {
						hb[k] -= 32
					}
				}
				h = string(hb)
			}
			sb.WriteString(`\u` + h)
		}
	}
	sb.WriteByte('"')
}
func vC20JWs(r *vRand, sb *bytes.Buffer, dense bool) {
	if !dense && !r.Chance(1, 3) {
		return
	}
	n := r.Range(0, 3)
	for i := 0; i < n; i++ {
		sb.WriteByte(vPick(r, []byte{' ', ' ', '\t', '\n', '\r'}))
	}
}
func vC20JSpell(r *vRand, j *vC20JN, sb *bytes.Buffer, dense bool) {
	switch j.k {
	case 'n':
		sb.WriteString("null")
	case 't':
		sb.WriteString("true")
	case 'f':
		sb.WriteString("false")
	case '#':
		sb.WriteString(j.s)
	case 's':
		vC20JSpellStr(r, j.s, sb)
	case 'a':
		sb.WriteByte('[')
		vC20JWs(r, sb, dense)
		for i, e := range j.arr {
			if i > 0 {
				sb.WriteByte(',')
				vC20JWs(r, sb, dense)
			}
			vC20JSpell(r, e, sb, dense)
			vC20JWs(r, sb, dense)
		}
		sb.WriteByte(']')
	default:
		sb.WriteByte('{')
		vC20JWs(r, sb, dense)
		for i := range j.keys {
			if i > 0 {
				sb.WriteByte(',')
				vC20JWs(r, sb, dense)
			}
			vC20JSpellStr(r, j.keys[i], sb)
			vC20JWs(r, sb, dense)
			sb.WriteByte(':')
			vC20JWs(r, sb, dense)
			vC20JSpell(r, j.vals[i], sb, dense)
			vC20JWs(r, sb, dense)
		}
		sb.WriteByte('}')
	}
}

const vC20JPalette = "\"\\/,:[]{}0123456789.-+eEtrufalsn \t\n\r\x00\x1f\x7f'xU"

func vC20JMutate(r *vRand, b []byte) ([]byte, string) {
	b = append([]byte{}, b...)
	if len(b) == 0 {
		return []byte{vC20JPalette[r.Intn(len(vC20JPalette))]}, "insert"
	}
	i := r.Intn(len(b))
	switch r.Intn(7) {
	case 0:
		return append(b[:i], b[i+1:]...), "delete"
	case 1:
		c := vC20JPalette[r.Intn(len(vC20JPalette))]
		return append(b[:i], append([]byte{c}, b[i:]...)...), "insert"
	case 2:
		b[i] = vC20JPalette[r.Intn(len(vC20JPalette))]
		return b, "replace"
	case 3:
		return b[:i], "truncate"
	case 4:
		return append(b, vPick(r, []string{"x", ",", "]", "}", "1", " 1", "null", "\"", "\n\t ", "{}", "\x00"})...), "append"
	case 5:
		if i+1 < len(b) {
			b[i], b[i+1] = b[i+1], b[i]
		}
		return b, "swap"
	default:
		return append(b[:i], append([]byte{b[i]}, b[i:]...)...), "double"
	}
}

var vC20JFixed = []string{
	// accepted
	`0`, `-0`, `18446744073709551615`, `1e3`, `1.5`, `1E+3`, `-1.5e-07`, `""`, `[]`, `{}`, `null`, `true`, `false`,
	` [ ] `, "\t{\n}\r", `{"a":1,"a":2}`, `{"a":1,"A":2,"a":null}`, `{"":{"":[]}}`, `"\/"`, `"\u0041"`, `"\u004a\u004A"`,
	`"\u007f\u007F\u0000"`, `"\b\f\n\r\t\"\\\/"`, `"<>&"`, "\"\x7f\"", `"\u003c\u003E\u0026"`, `[1 ,2, 3 ]`,
	`{ "k" : "v" , "l" : [ { } ] }`, `[[[[[[]]]]]]`, `["a","a"]`, ` 1 `, "1\n", `"'"`, `"u"`, `"\\u0041"`, `[0,-0,0.0,0e0]`,
	// rejected
	``, ` `, `[1,]`, `[,1]`, `[1,,2]`, `{"a":1,}`, `{,}`, `{"a"}`, `{"a":}`, `{:1}`, `{1:1}`, `{"a":1 "b":2}`, `{"a" 1}`,
	`[1 2]`, `[`, `]`, `{`, `}`, `[}`, `{]`, `[1`, `{"a":1`, `{"a"`, `{"a":`, `"abc`, `"`, `"\`, `"\"`, `"\u12"`, `"\u12G4"`,
	`"\u 041"`, `"\x41"`, `"\a"`, `"\U0041"`, `"\'"`, "\"\n\"", "\"\t\"", "\"\x00\"", "\"\x1f\"", `'a'`, `01`, `-01`, `00`, `-`, `--1`, `+1`, `1.`,
	`.5`, `-.5`, `1e`, `1e+`, `1E-`, `1.e3`, `1e3.5`, `1.5.3`, `0x10`, `1_0`, `1a`, `Infinity`, `NaN`, `tru`, `truee`, `True`,
	`nul`, `nulll`, `NULL`, `fals`, `falsee`, `1 2`, `[] []`, `{} x`, `null,`, `1,`, `"a" "b"`, `[1]]`, `{"a":1}}`, `// x`, `/* */1`,
	"\x80", "[\xff]", "1\x80", "\xef\xbb\xbf1", "\v1", "\f1", "1\v", "\x001", "[1\x00]", `{"a":tru}`, `[nul]`, `[-]`, `[1.]`, `[01]`,
	`{"a":01}`, `["\ud800"]x`, `[1e]`,
}

// ---------- Go's decoder, order preserving ----------
func vC20JWalk(d *json.Decoder) (*vC20JN, error) {
	tok, err := d.Token()
	if err != nil {
		return nil, err
	}
	switch x := tok.(type) {
	case nil:
		return &vC20JN{k: 'n'}, nil
	case bool:
		if x {
			return &vC20JN{k: 't'}, nil
		}
		return &vC20JN{k: 'f'}, nil
	case json.Number:
		return &vC20JN{k: '#', s: string(x)}, nil
	case string:
		return &vC20JN{k: 's', s: x}, nil
	case json.Delim:
		if x == '[' {
			j := &vC20JN{k: 'a'}
			for d.More() {
				e, err := vC20JWalk(d)
				if err != nil {
					return nil, err
				}
				j.arr = append(j.arr, e)
			}
			_, err := d.Token()
			return j, err
		}
		if x == '{' {
			j := &vC20JN{k: 'o'}
			for d.More() {
				kt, err := d.Token()
				if err != nil {
					return nil, err
				}
				ks, ok := kt.(string)
				if !ok {
					return nil, fmt.Errorf("member name is not a string")
				}
				e, err := vC20JWalk(d)
				if err != nil {
					return nil, err
				}
				j.keys = append(j.keys, ks)
				j.vals = append(j.vals, e)
			}
			_, err := d.Token()
			return j, err
		}
	}
	return nil, fmt.Errorf("unexpected token %v", tok)
}

// json.Unmarshal's verdict (syntax only) and, when accepted, the tree
func vC20JGoParse(b []byte) (*vC20JN, bool) {
	valid := json.Valid(b)
	var x any
	uerr := json.Unmarshal(b, &x)
	var terr *json.UnmarshalTypeError
	if errors.As(uerr, &terr) {
		uerr = nil // syntax accepted; a number outside float64 (1e400) only fails the conversion into `any`
	}
	if (uerr == nil) != valid {
		panic(fmt.Sprintf("C20 json harness: json.Valid=%v but Unmarshal into any: %v on %q", valid, uerr, b))
	}
	if !valid {
		return nil, false
	}
	d := json.NewDecoder(bytes.NewReader(b))
	d.UseNumber()
	j, err := vC20JWalk(d)
	if err != nil {
		panic(fmt.Sprintf("C20 json harness: token walk failed on valid input %q: %v", b, err))
	}
	if _, err := d.Token(); err != io.EOF {
		panic(fmt.Sprintf("C20 json harness: data after the value in valid input %q", b))
	}
	return j, true
}

func TestVerif_C20_json(t *testing.T) {
	r := vNewRand(vSeed() + 2020)
	n := vEnvInt("VERIF_N", 1000)
	ps := vOpenSink("C20_jprint")
	defer ps.Close()
	ds := vOpenSink("C20_jparse")
	defer ds.Close()

	// ---------------- encoder ----------------
	both := false
	emitPrint := func(cls string, j *vC20JN) {
		raw, err := json.Marshal(j)
		if err != nil {
			panic(fmt.Sprintf("C20 json harness: Marshal(raw) failed: %v", err))
		}
		variant := "raw"
		out := raw
		if both {
			ps.Emit("C20_jprint", cls+"/"+variant, len(out) > 12, cPair(j.Coq(), vC20JChunks(out)),
				map[string]any{"bytes": string(out)})
		}
		if both || r.Bool() {
			nat, err := json.Marshal(j.Native())
			if err != nil {
				panic(fmt.Sprintf("C20 json harness: Marshal(native) failed: %v", err))
			}
			variant, out = "native", nat
		}
		ps.Emit("C20_jprint", cls+"/"+variant, len(out) > 12, cPair(j.Coq(), vC20JChunks(out)),
			map[string]any{"bytes": string(out)})
	}
	np := n * 2 / 5
	// every ASCII byte on its own and between neighbours, as a value and as a member name
	for c := 0; c < 128 && c < np; c++ {
		s := string([]byte{byte(c)})
		switch c % 3 {
		case 0:
			emitPrint("sweep", &vC20JN{k: 's', s: s})
		case 1:
			emitPrint("sweep", &vC20JN{k: 'a', arr: []*vC20JN{{k: 's', s: "a" + s + "b"}}})
		default:
			emitPrint("sweep", &vC20JN{k: 'o', keys: []string{s}, vals: []*vC20JN{{k: 's', s: s + s}}})
		}
	}
	all := make([]byte, 128)
	for i := range all {
		all[i] = byte(i)
	}
	both = true
	emitPrint("sweep-all", &vC20JN{k: 's', s: string(all)})
	emitPrint("sweep-all", &vC20JN{k: 'o', keys: []string{string(all)}, vals: []*vC20JN{{k: 'a'}}})
	both = false
	for _, tok := range vC20JNums {
		emitPrint("number", &vC20JN{k: 'a', arr: []*vC20JN{{k: '#', s: tok}}})
	}
	for i := 130 + len(vC20JNums); i < np; i++ {
		j := vC20JTree(r, 0)
		emitPrint(fmt.Sprintf("tree/depth%d", j.Depth()), j)
	}

	// ---------------- decoder ----------------
	dropped := 0
	emitParse := func(cls string, b []byte, ref []byte) {
		j, ok := vC20JGoParse(b)
		if ok && !j.Ascii() {
			dropped++
			return
		}
		out := "(PTree None)"
		verdict := "rejected"
		nt := len(b) > 3
		if ok {
			out = cApp("PTree", cSome(j.Coq()))
			verdict = "accepted"
			nt = ref == nil || !bytes.Equal(b, ref)
		}
		ds.Emit("C20_jparse", cls+"/"+verdict, nt, cPair(cPair("false", vC20JChunks(b)), out), map[string]any{"bytes": string(b)})
	}
	for _, s := range vC20JFixed {
		emitParse("fixed", []byte(s), nil)
	}
	// the nesting limit: 10000 open containers are accepted, 10001 are not (only the verdict is compared)
	for _, k := range []int{9999, 10000, 10001} {
		for _, shape := range []string{"arr", "obj", "mixed"} {
			var b []byte
			var term string
			switch shape {
			case "arr":
				b = []byte(strings.Repeat("[", k) + strings.Repeat("]", k))
				term = fmt.Sprintf("(nrep %d [91]%%N ++ nrep %d [93]%%N)", k, k)
			case "obj":
				b = []byte(strings.Repeat(`{"":`, k) + "1" + strings.Repeat("}", k))
				term = fmt.Sprintf("(nrep %d [123; 34; 34; 58]%%N ++ [49]%%N ++ nrep %d [125]%%N)", k, k)
			default:
				b = []byte(strings.Repeat(`{"":`, k-1) + "[]" + strings.Repeat("}", k-1))
				term = fmt.Sprintf("(nrep %d [123; 34; 34; 58]%%N ++ [91; 93]%%N ++ nrep %d [125]%%N)", k-1, k-1)
			}
			ok := json.Valid(b)
			var x json.RawMessage
			if (json.Unmarshal(b, &x) == nil) != ok {
				panic("C20 json harness: Valid / Unmarshal disagree on a deep input")
			}
			ds.Emit("C20_jparse", fmt.Sprintf("deep/%s/%d", shape, k), true,
				cPair(cPair("true", term), cApp("PAcc", cBool(ok))), map[string]any{"depth": k, "shape": shape})
		}
	}
	nd := n - np - len(vC20JFixed) - 9
	for i := 0; i < nd; i++ {
		j := vC20JTree(r, 0)
		ref, err := json.Marshal(j)
		if err != nil {
			panic(err)
		}
		var sb bytes.Buffer
		vC20JWs(r, &sb, true)
		vC20JSpell(r, j, &sb, r.Bool())
		vC20JWs(r, &sb, true)
		b := sb.Bytes()
		switch i % 3 {
		case 0:
			emitParse("respelled", b, ref)
		case 1:
			m, l := vC20JMutate(r, b)
			emitParse("mutated/"+l, m, ref)
		default:
			m, l := vC20JMutate(r, ref)
			if r.Chance(1, 3) {
				var l2 string
				m, l2 = vC20JMutate(r, m)
				l += "+" + l2
			}
			emitParse("mutated-compact/"+l, m, ref)
		}
	}
	if dropped > 0 {
		t.Logf("C20 json harness: %d accepted inputs outside the modelled subset (non-ASCII after unescaping) dropped", dropped)
	}
}

//go:build verif

package ccipocr3

import (
	"math"
	"testing"
)

// C02, part lim: SeqNumRange.Limit on a fixed boundary grid plus a random stream.
func TestVerif_C02_limit(t *testing.T) {
	r := vNewRand(vSeed() + 201)
	n := vEnvInt("VERIF_N", 500)
	sink := vOpenSink("C02_lim")
	defer sink.Close()
	const mx = math.MaxUint64
	pts := []uint64{0, 1, 2, 3, 254, 255, 256, 257, 258, 1<<63 - 1, 1 << 63, 1<<63 + 1,
		mx - 257, mx - 256, mx - 255, mx - 254, mx - 2, mx - 1, mx}
	ns := []uint64{0, 1, 2, 3, 255, 256, 257, 1 << 63, mx - 1, mx}
	emit := func(cls string, s, e, lim uint64) {
		var out string
		func() {
			defer func() {
				if rec := recover(); rec != nil {
					out = cPair(cN(0), cN(0)) // Limit has no panic path; a panic shows up as a mismatch
					cls += "/panic"
				}
			}()
			rg := NewSeqNumRange(SeqNum(s), SeqNum(e))
			got := rg.Limit(lim)
			out = cPair(cN(uint64(got.Start())), cN(uint64(got.End())))
			if rg.Start() != SeqNum(s) || rg.End() != SeqNum(e) {
				cls += "/receiver-modified"
				out = cPair(cN(0), cN(0))
			}
		}()
		// non-trivial: well-formed range, n >= 1, and the size is within one of n or the end is within 257 of 2^64
		size1 := e - s // size minus one
		nt := s <= e && lim >= 1 && (size1+1 == lim || size1 == lim || size1+2 == lim || e >= mx-257)
		sink.Emit("C02_lim", cls, nt, cPair(cTup(cN(s), cN(e), cN(lim)), out),
			map[string]any{"start": s, "end": e, "n": lim})
	}
	for _, s := range pts {
		for _, e := range pts {
			for _, lim := range ns {
				cls := "grid"
				switch {
				case s > e:
					cls = "grid-inverted"
				case s == 0 && e == mx:
					cls = "grid-fullrange"
				case e-s+1 > lim:
					cls = "grid-truncate"
				}
				emit(cls, s, e, lim)
			}
		}
	}
	for i := 0; i < n; i++ {
		var s, e, lim uint64
		cls := vPick(r, []string{"size-at-n", "near-max", "random", "inverted", "full"})
		switch cls {
		case "size-at-n":
			lim = uint64(r.Range(1, 300))
			s = r.U64() >> uint(r.Intn(64))
			if s > mx-400 {
				s = mx - 400
			}
			e = s + lim - 1 + uint64(r.Range(0, 2)) - 1 // size in {n-1, n, n+1}
			if e < s {
				e = s
			}
		case "near-max":
			lim = uint64(r.Range(1, 300))
			s = mx - uint64(r.Intn(600))
			e = s + uint64(r.Intn(int(mx-s)+1))
		case "random":
			s = r.U64() >> uint(r.Intn(64))
			if s == 0 { // mx-s+1 wraps to 0
				e = r.U64() >> uint(r.Intn(64))
			} else {
				e = s + (r.U64()>>uint(r.Intn(64)))%(mx-s+1)
			}
			lim = r.U64() >> uint(r.Intn(64))
		case "inverted":
			e = r.U64() >> uint(r.Intn(64))
			s = e + 1 + uint64(r.Intn(5))
			if s < e {
				s, e = mx, 0
			}
			lim = uint64(r.Range(0, 300))
		case "full":
			s, e = 0, mx
			lim = r.U64() >> uint(r.Intn(64))
			if lim == 0 {
				lim = 1
			}
		}
		emit(cls, s, e, lim)
	}
}

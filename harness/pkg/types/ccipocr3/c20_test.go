//go:build verif

package ccipocr3

import (
	"encoding/json"
	"math/big"
	"testing"
)

// text -> Coq list of byte values
func vC20Text(b []byte) string {
	if len(b) == 0 {
		return "[]"
	}
	buf := make([]byte, 0, len(b)*4+4)
	buf = append(buf, '[')
	for i, c := range b {
		if i > 0 {
			buf = append(buf, ';', ' ')
		}
		buf = append(buf, []byte(itoaC20(int(c)))...)
	}
	buf = append(buf, []byte("]%N")...)
	return string(buf)
}
func itoaC20(v int) string {
	if v == 0 {
		return "0"
	}
	var d [4]byte
	i := len(d)
	for v > 0 {
		i--
		d[i] = byte('0' + v%10)
		v /= 10
	}
	return string(d[i:])
}
func vC20OptBytes(b []byte) string {
	if b == nil {
		return cNone()
	}
	return cSome(vC20Text(b))
}
func vC20OptBig(b *big.Int) string {
	if b == nil {
		return cNone()
	}
	return cSome(cZb(b))
}
func vC20OBytes(b []byte, err error) string {
	if err != nil {
		return "OErr"
	}
	return cApp("OBytes", cBool(b == nil), vC20Text(b))
}

func vC20RandBytes(r *vRand, n int) []byte {
	b := make([]byte, n)
	for i := range b {
		switch r.Intn(6) {
		case 0:
			b[i] = 0
		case 1:
			b[i] = 0xff
		default:
			b[i] = byte(r.U64())
		}
	}
	return b
}

const vC20HexLower = "0123456789abcdef"
const vC20HexMixed = "0123456789abcdefABCDEF"

// a hex-ish token body: class decides case, parity and junk
func vC20HexBody(r *vRand, cls string) string {
	n := vPick(r, []int{0, 1, 2, 3, 4, 8, 40, 63, 64, 65, 66, 70})
	s := make([]byte, n)
	for i := range s {
		switch cls {
		case "lower":
			s[i] = vC20HexLower[r.Intn(16)]
		case "junk":
			s[i] = vC20HexMixed[r.Intn(22)]
			if r.Chance(1, 12) {
				s[i] = vPick(r, []byte{'g', 'G', 'x', ' ', '-', '_', 0x80, 'z', '/', ':', '@', '`'})
			}
		default:
			s[i] = vC20HexMixed[r.Intn(22)]
		}
	}
	return string(s)
}

// tokens for the Bytes / Bytes32 decoders
func vC20ByteTok(r *vRand) (string, []byte) {
	cls := vPick(r, []string{"honest", "upper", "odd", "noprefix", "junk", "short", "json", "nested"})
	switch cls {
	case "honest":
		return cls, []byte(`"0x` + vC20HexBody(r, "lower") + `"`)
	case "upper":
		return cls, []byte(`"0x` + vC20HexBody(r, "mixed") + `"`)
	case "odd":
		return cls, []byte(`"0x` + vC20HexBody(r, "mixed") + "a" + `"`)
	case "noprefix":
		p := vPick(r, []string{"0X", "00", "x0", "", "0", "1x", "zz", " 0x"})
		return cls, []byte(`"` + p + vC20HexBody(r, "mixed") + `"`)
	case "junk":
		return cls, []byte(`"0x` + vC20HexBody(r, "junk") + `"`)
	case "short":
		return cls, []byte(vPick(r, []string{"", `"`, `""`, `"0`, `"0x`, `"0x"`, `0x`, `"0x0"`, `"0xa"`, "0", "12", `"x"`, `"00"`}))
	case "json":
		return cls, []byte(vPick(r, []string{"null", "true", "false", "1234", "12345678", "1e22", "0", "-12", "1.5", "123456"}))
	default:
		return cls, []byte(vPick(r, []string{`[1234]`, `{"a":"bb"}`, `[]`, `{}`, `[12]`, `"0x00"`, `"0x00"`, `["0x00"]`}))
	}
}

func vC20BigTok(r *vRand) (string, []byte) {
	cls := vPick(r, []string{"honest", "neg", "huge", "plus", "zeros", "null", "junk", "unquoted", "short"})
	digits := func(n int) string {
		s := make([]byte, n)
		for i := range s {
			s[i] = byte('0' + r.Intn(10))
		}
		if n > 0 && s[0] == '0' {
			s[0] = '1'
		}
		return string(s)
	}
	switch cls {
	case "honest":
		return cls, []byte(`"` + digits(vPick(r, []int{1, 2, 5, 19, 20, 30})) + `"`)
	case "neg":
		return cls, []byte(`"-` + digits(vPick(r, []int{1, 3, 20, 78})) + `"`)
	case "huge":
		return cls, []byte(`"` + digits(vPick(r, []int{77, 78, 79, 100, 155})) + `"`)
	case "plus":
		return cls, []byte(`"+` + digits(r.Range(1, 6)) + `"`)
	case "zeros":
		return cls, []byte(`"` + vPick(r, []string{"0", "00", "-0", "+0", "007", "-007", "0000000000000000000001"}) + `"`)
	case "null":
		return cls, []byte("null")
	case "junk":
		return cls, []byte(`"` + vPick(r, []string{"", "-", "+", "1_000", "0x10", "1e5", "1.0", " 1", "1 ", "--1", "+-1", "12a", "a", "null", "١"}) + `"`)
	case "unquoted":
		return cls, []byte(vPick(r, []string{"123", "1234", "-12-", "[12]", "[-3]", "{}", "true", "x5x", "55", "0", "10", "[+3]"}))
	default:
		return cls, []byte(vPick(r, []string{"", "1", `"`, `""`, "nul", "nulll", "NULL"}))
	}
}

func vC20UintContent(r *vRand) (string, string) {
	cls := vPick(r, []string{"honest", "zero", "max", "over", "zeros", "sign", "junk", "null", "empty"})
	switch cls {
	case "honest":
		return cls, itoaBig(r.U64() >> uint(r.Intn(64)))
	case "zero":
		return cls, "0"
	case "max":
		return cls, vPick(r, []string{"18446744073709551615", "18446744073709551614", "9223372036854775808"})
	case "over":
		return cls, vPick(r, []string{"18446744073709551616", "18446744073709551625", "99999999999999999999", "184467440737095516150"})
	case "zeros":
		return cls, vPick(r, []string{"00", "007", "018446744073709551615", "0000000000000000000000001"})
	case "sign":
		return cls, vPick(r, []string{"-0", "-1", "+1", "+0", "-"})
	case "junk":
		return cls, vPick(r, []string{"1e3", "1.0", " 1", "1 ", "0x10", "1_0", "true", "nul", "nulll", "a", "1a", "٣"})
	case "null":
		return cls, "null"
	default:
		return cls, ""
	}
}
func itoaBig(v uint64) string { return new(big.Int).SetUint64(v).String() }

func TestVerif_C20_leaf(t *testing.T) {
	r := vNewRand(vSeed())
	n := vEnvInt("VERIF_N", 900)
	sink := vOpenSink("C20_leaf")
	defer sink.Close()
	emit := func(cls string, nt bool, in, out string, show any) {
		sink.Emit("C20_leaf", cls, nt, cPair(in, out), show)
	}
	for i := 0; i < n; i++ {
		switch i % 12 {
		case 0: // Bytes / UnknownAddress decode (same code path; alternate the receiver type)
			cls, tok := vC20ByteTok(r)
			var out []byte
			var err error
			if r.Bool() {
				var b Bytes
				err = b.UnmarshalJSON(tok)
				out = b
			} else {
				var a UnknownAddress
				err = a.UnmarshalJSON(tok)
				out = a
			}
			emit("bytesdec/"+cls, err == nil, cApp("LBytesDec", vC20Text(tok)), vC20OBytes(out, err), string(tok))
		case 1: // Bytes encode: nil, empty, long
			var b []byte
			cls := vPick(r, []string{"nil", "empty", "one", "addr", "long"})
			switch cls {
			case "empty":
				b = []byte{}
			case "one":
				b = vC20RandBytes(r, 1)
			case "addr":
				b = vC20RandBytes(r, vPick(r, []int{20, 32}))
			case "long":
				b = vC20RandBytes(r, r.Range(100, 700))
			}
			js, err := Bytes(b).MarshalJSON()
			if r.Bool() {
				js, err = UnknownAddress(b).MarshalJSON()
			}
			if err != nil {
				t.Fatal(err)
			}
			// String() must be the token without the quotes
			if `"`+Bytes(b).String()+`"` != string(js) || UnknownAddress(b).String() != Bytes(b).String() {
				js = []byte("String/MarshalJSON disagree")
			}
			emit("bytesenc/"+cls, len(b) > 0, cApp("LBytesEnc", vC20OptBytes(b)), cApp("OText", vC20Text(js)), len(b))
		case 2: // NewBytesFromString / NewUnknownAddressFromHex
			cls, tok := vC20ByteTok(r)
			s := string(tok)
			if len(s) >= 2 && s[0] == '"' {
				s = s[1 : len(s)-1]
			}
			var out []byte
			var err error
			if r.Bool() {
				var b Bytes
				b, err = NewBytesFromString(s)
				out = b
			} else {
				var a UnknownAddress
				a, err = NewUnknownAddressFromHex(s)
				out = a
			}
			if err != nil {
				out = nil
			}
			emit("bytesstr/"+cls, err == nil, cApp("LBytesStr", vC20Text([]byte(s))), vC20OBytes(out, err), s)
		case 3: // Bytes32 decode into fresh or dirty receiver
			cls, tok := vC20ByteTok(r)
			var b Bytes32
			if r.Chance(1, 3) {
				copy(b[:], vC20RandBytes(r, 32))
				cls += "+dirty"
			}
			prev := append([]byte{}, b[:]...)
			err := b.UnmarshalJSON(tok)
			emit("b32dec/"+cls, err == nil, cApp("LB32Dec", vC20Text(prev), vC20Text(tok)), vC20OBytes(b[:], err), string(tok))
		case 4:
			var b Bytes32
			cls := vPick(r, []string{"zero", "ones", "rand"})
			switch cls {
			case "ones":
				for k := range b {
					b[k] = 0xff
				}
			case "rand":
				copy(b[:], vC20RandBytes(r, 32))
			}
			js, err := b.MarshalJSON()
			if err != nil {
				t.Fatal(err)
			}
			if `"`+b.String()+`"` != string(js) {
				js = []byte("String/MarshalJSON disagree")
			}
			emit("b32enc/"+cls, cls != "zero", cApp("LB32Enc", vC20Text(b[:])), cApp("OText", vC20Text(js)), nil)
		case 5:
			cls, tok := vC20ByteTok(r)
			s := string(tok)
			if len(s) >= 2 && s[0] == '"' {
				s = s[1 : len(s)-1]
			}
			b, err := NewBytes32FromString(s)
			emit("b32str/"+cls, err == nil, cApp("LB32Str", vC20Text([]byte(s))), vC20OBytes(b[:], err), s)
		case 6, 7: // BigInt decode into fresh or non-nil receiver
			cls, tok := vC20BigTok(r)
			var b BigInt
			if r.Chance(1, 4) {
				b = NewBigIntFromInt64(int64(r.Intn(100)) - 50)
				cls += "+dirty"
			}
			prev := vC20OptBig(b.Int)
			err := b.UnmarshalJSON(tok)
			out := "OErr"
			if err == nil {
				out = cApp("OBig", vC20OptBig(b.Int))
			}
			emit("bigdec/"+cls, err == nil, cApp("LBigDec", prev, vC20Text(tok)), out, string(tok))
		case 8: // BigInt encode
			cls := vPick(r, []string{"nil", "zero", "small", "neg", "u256", "over256", "negbig"})
			var v *big.Int
			switch cls {
			case "zero":
				v = big.NewInt(0)
			case "small":
				v = big.NewInt(int64(r.Intn(1000)))
			case "neg":
				v = big.NewInt(-int64(r.Intn(1000)) - 1)
			case "u256":
				v = new(big.Int).Sub(new(big.Int).Lsh(big.NewInt(1), 256), big.NewInt(int64(r.Intn(3))+1))
			case "over256":
				v = new(big.Int).Add(new(big.Int).Lsh(big.NewInt(1), uint(r.Range(256, 400))), big.NewInt(int64(r.Intn(5))))
			case "negbig":
				v = new(big.Int).Neg(new(big.Int).Lsh(big.NewInt(3), uint(r.Range(64, 300))))
			}
			js, err := BigInt{Int: v}.MarshalJSON()
			if err != nil {
				t.Fatal(err)
			}
			emit("bigenc/"+cls, v != nil, cApp("LBigEnc", vC20OptBig(v)), cApp("OText", vC20Text(js)), string(js))
		case 9: // SeqNum.String
			v := vPick(r, []uint64{0, 1, 9, 10, 99, 100, 1<<63 - 1, 1 << 63, 1<<64 - 1, 1<<64 - 2, r.U64(), r.U64() >> 32})
			s := SeqNum(v).String()
			emit("seqstr", v > 9, cApp("LSeqStr", cN(v)), cApp("OText", vC20Text([]byte(s))), s)
		case 10: // `,string` field and plain number field of RampMessageHeader
			cls, c := vC20UintContent(r)
			if r.Bool() {
				var h RampMessageHeader
				err := json.Unmarshal([]byte(`{"seqNum":"`+c+`"}`), &h)
				out := "OErr"
				if err == nil {
					out = cApp("ON", cN(uint64(h.SequenceNumber)))
				}
				emit("uintq/"+cls, err == nil, cApp("LUintQ", vC20Text([]byte(c))), out, c)
			} else {
				if !json.Valid([]byte(`{"nonce":` + c + `}`)) {
					c = vPick(r, []string{"0", "1", "18446744073709551615", "18446744073709551616", "-0", "-1", "1e3", "1.0", "null", "true", "12"})
					cls = "valid"
				}
				var h RampMessageHeader
				err := json.Unmarshal([]byte(`{"nonce":`+c+`}`), &h)
				out := "OErr"
				if err == nil {
					out = cApp("ON", cN(h.Nonce))
				}
				emit("uintnum/"+cls, err == nil, cApp("LUintNum", vC20Text([]byte(c))), out, c)
			}
		default: // map key
			cls, c := vC20UintContent(r)
			m := map[ChainSelector]int{}
			err := json.Unmarshal([]byte(`{"`+c+`":1}`), &m)
			out := "OErr"
			if err == nil {
				if len(m) != 1 {
					out = "OErr (* no key stored *)"
				}
				for k := range m {
					out = cApp("ON", cN(uint64(k)))
				}
			}
			emit("uintkey/"+cls, err == nil, cApp("LUintKey", vC20Text([]byte(c))), out, c)
		}
	}
}

//go:build verif

package commit

import (
	"context"
	"fmt"
	"testing"
	"time"

	"github.com/smartcontractkit/libocr/offchainreporting2plus/ocr3types"

	"github.com/smartcontractkit/chainlink-ccip/commit/merkleroot"
	"github.com/smartcontractkit/chainlink-ccip/internal/plugintypes"
	cciptypes "github.com/smartcontractkit/chainlink-ccip/pkg/types/ccipocr3"
)

// C13, chain-reader results: every answer a contract reader gives while the commit plugin observes (through the real
// ccipChainReader) is mutated at every JSON node in turn (null / empty / zero / max / negative / duplicate / delete /
// type confusion / odd string); Observation must return (value or error), never panic or hang.
// Uses the scripted contract readers of the C11 harness (c11_test.go is injected alongside).
func TestVerif_C13_commit_reader(t *testing.T) {
	ctx := context.Background()
	vC11FullRanges = true
	r := vNewRand(vSeed() + 1315)
	worlds := vEnvInt("VERIF_N", 3)
	sink := vOpenSink("C13_reader_commit")
	defer sink.Close()
	defer func() { vC11ResultHook = nil }()
	for wi := 0; wi < worlds; wi++ {
		c := vC11GenCfg(r)
		w := vC11GenWorld(r, c, 0)
		// an oracle with the largest role (most reader calls)
		best, bestN := c.Oracles[0], -1
		for _, o := range c.Oracles {
			if n := len(c.role(o)); n > bestN {
				best, bestN = o, n
			}
		}
		for phase := 0; phase < 3; phase++ {
			prev := Outcome{}
			switch phase {
			case 1:
				prev.MerkleRootOutcome.OutcomeType = merkleroot.ReportIntervalsSelected
				for _, ch := range w.Ranges {
					prev.MerkleRootOutcome.RangesSelectedForReport = append(prev.MerkleRootOutcome.RangesSelectedForReport,
						plugintypes.ChainRange{ChainSel: cciptypes.ChainSelector(ch), SeqNumRange: cciptypes.NewSeqNumRange(10, 12)})
				}
			case 2:
				prev.MerkleRootOutcome.OutcomeType = merkleroot.ReportGenerated
			}
			prevB, _ := prev.Encode()
			qb, _ := Query{}.Encode()
			outCtx := ocr3types.OutcomeContext{SeqNr: 5, PreviousOutcome: prevB}
			// 1. record the honest answers in call order
			var answers []string
			vC11ResultHook = func(js string) string { answers = append(answers, js); return js }
			p := vC11CommitPlugin(ctx, w, best)
			_, _ = p.Observation(ctx, outCtx, qb)
			vC11ResultHook = nil
			// 2. mutate the k-th answer at every node
			for k, js := range answers {
				tree, err := vDecodeJSON([]byte(js))
				if err != nil {
					continue
				}
				var paths [][]vPathElem
				vPaths(tree, nil, &paths)
				for _, pth := range paths {
					for _, kind := range vMutKinds {
						mv, ok := vMutate(tree, pth, kind)
						if !ok {
							continue
						}
						mjs := string(vC13Enc(mv))
						count := 0
						vC11ResultHook = func(in string) string {
							count++
							if count-1 == k {
								return mjs
							}
							return in
						}
						pl := vC11CommitPlugin(ctx, w, best)
						code, what := vGuard(3*time.Second, func() { _, _ = pl.Observation(ctx, outCtx, qb) })
						vC11ResultHook = nil
						site := fmt.Sprintf("w%d|phase%d|answer%d|%s|%s", wi, phase, k, vPathString(pth), kind)
						sink.Emit("C13_reader_commit", "reader/"+kind, true,
							cPair(cTup(cN(0), cNi(7), cNi(0), cN(vHash48(site))), cNi(code)),
							map[string]any{"world": wi, "phase": phase, "answer": k, "honest_answer": js, "path": vPathString(pth), "mutation": kind, "code": code, "panic": what})
					}
				}
			}
		}
	}
}

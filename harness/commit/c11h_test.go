//go:build verif

// C11 — long-lived commit plugins (one per oracle) on REAL home-chain pollers over a scripted CCIPHome whose chain
// configs change between rounds.  After every poll one round is played: every oracle observes through a real
// ccipChainReader limited to the chains of its CURRENT role and every oracle validates every observation.  The round
// is judged against the Roles model on the role map of the latest successfully fetched configuration.
package commit

import (
	"context"
	"testing"

	"github.com/smartcontractkit/libocr/commontypes"
	"github.com/smartcontractkit/libocr/offchainreporting2plus/ocr3types"

	"github.com/smartcontractkit/chainlink-ccip/internal/mocks"
	readerpkg "github.com/smartcontractkit/chainlink-ccip/pkg/reader"
	cciptypes "github.com/smartcontractkit/chainlink-ccip/pkg/types/ccipocr3"
	"github.com/smartcontractkit/chainlink-ccip/pluginconfig"
)

// the plugin keeps one CCIPReader for its lifetime; what it can reach (contract readers / chain writers of the chains
// of the oracle's current role) is replaced underneath between rounds
type vC11HSwap struct{ readerpkg.CCIPReader }

func vC11FromRH(h *vRHCfg) *vC11Cfg {
	c := h.clone()
	return &vC11Cfg{Oracles: c.Oracles, Chains: c.Chains, F: c.F, Readers: c.Readers, Dest: c.Dest, Feed: c.Feed}
}

// initial role map: the C11 generator restricted to DONs of 4 or 7 oracles
func vC11HGenCfg(r *vRand) *vRHCfg {
	for {
		c := vC11GenCfg(r)
		if len(c.Oracles) == 4 || len(c.Oracles) == 7 {
			return (&vRHCfg{Oracles: c.Oracles, Chains: c.Chains, F: c.F, Readers: c.Readers, Dest: c.Dest, Feed: c.Feed}).clone()
		}
	}
}

func vC11HWorld(r *vRand, c *vC11Cfg, tokens []string) *vC11World {
	failMode := r.Intn(3)
	if r.Bool() || len(c.Chains) == 0 {
		failMode = 0
	}
	w := vC11GenWorld(r, c, failMode)
	// the token list is off-chain configuration: fixed for the lifetime of the plugins
	w.Tokens = tokens
	w.Fq = nil
	for _, t := range tokens {
		if r.Bool() {
			w.Fq = append(w.Fq, t)
		}
	}
	return w
}

func vC11HClass(st int, chg *vRHChange) string {
	if st == 0 || chg == nil {
		return "first-poll/"
	}
	return chg.Kind + "/"
}

func TestVerif_C11_commit_hist(t *testing.T) {
	ctx := context.Background()
	vC11FullRanges = true
	r := vNewRand(vSeed() + 1111)
	n := vEnvInt("VERIF_N", 10) // histories
	sink := vOpenSink("C11_commit_hist")
	defer sink.Close()
	api := vOpenSink("C11_commit_api")
	defer api.Close()
	for hi := 0; hi < n; hi++ {
		base := vC11HGenCfg(r)
		tokens := []string{"0x0A", "0x0B"}[:r.Range(0, 2)]
		ti := map[cciptypes.UnknownEncodedAddress]pluginconfig.TokenInfo{}
		for _, tk := range tokens {
			ti[cciptypes.UnknownEncodedAddress(tk)] = pluginconfig.TokenInfo{Decimals: 18}
		}
		don := vRHNewDon(t, r, base)
		onchain, eff := base.clone(), base.clone()
		N := len(base.Oracles)
		swaps := make([]*vC11HSwap, N)
		prs := make([]*vC11PR, N)
		plugins := make([]*Plugin, N)
		for k, o := range base.Oracles {
			swaps[k] = &vC11HSwap{}
			prs[k] = &vC11PR{oracle: o}
			plugins[k] = NewPlugin(1, don.p2p,
				pluginconfig.CommitOffchainConfig{PriceFeedChainSelector: cciptypes.ChainSelector(base.Feed), TokenInfo: ti},
				cciptypes.ChainSelector(base.Dest), swaps[k], prs[k], mocks.NewCommitPluginJSONReportCodec(), mocks.NewMessageHasher(),
				mocks.NullLogger, don.hcs[k], nil, nil, nil,
				ocr3types.ReportingPluginConfig{F: 1, N: N, OracleID: commontypes.OracleID(o)})
		}
		steps := r.Range(5, 8)
		kinds := vRHPlan(r, hi, steps)
		var chg *vRHChange
		for st := 0; st <= steps; st++ {
			if st > 0 {
				onchain, chg = vRHMutate(r, onchain, kinds[st-1], true, []uint64{5, 6, 7, 11})
				don.apply(t, onchain, chg.Failed)
				if !chg.Failed {
					eff = onchain.clone()
				}
			}
			c := vC11FromRH(eff)
			w := vC11HWorld(r, c, tokens)
			for k, o := range c.Oracles {
				swaps[k].CCIPReader = vC11Reader(ctx, w, o)
				prs[k].w = w
				plugins[k].contractsInitialized.Store(w.Init)
			}
			rd := vC11CommitGenRound(t, r, w)
			ctxS := don.coqCtx(eff)
			extra := map[string]any{"history": hi, "step": st, "polls": don.shows}
			if chg != nil {
				extra["change"] = chg
			}
			vC11CommitRunWorld(t, ctx, sink, "C11_commit_hist", c, w, plugins, rd, func(flS, stS string, o int) string {
				return cPair(ctxS, "let fl := "+flS+" in "+cTup("fl", stS, cNi(rd.phase), cBool(rd.retry), cNi(o)))
			}, vC11HClass(st, chg), extra)
			inst := 0
			if st%2 == 1 {
				inst = r.Intn(N)
			}
			don.queryAll(api, "C11_commit_api", eff, inst, vC11HClass(st, chg), map[string]any{"history": hi, "step": st})
		}
		don.close()
	}
}

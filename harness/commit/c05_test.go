//go:build verif

package commit

import (
	"context"
	"math"
	"testing"

	"github.com/smartcontractkit/libocr/commontypes"
	"github.com/smartcontractkit/libocr/offchainreporting2plus/ocr3types"
	"github.com/smartcontractkit/libocr/offchainreporting2plus/types"
	libocrtypes "github.com/smartcontractkit/libocr/ragep2p/types"

	"github.com/smartcontractkit/chainlink-ccip/commit/chainfee"
	"github.com/smartcontractkit/chainlink-ccip/commit/merkleroot"
	rmntypes "github.com/smartcontractkit/chainlink-ccip/commit/merkleroot/rmn/types"
	"github.com/smartcontractkit/chainlink-ccip/internal/mocks"
	"github.com/smartcontractkit/chainlink-ccip/internal/plugincommon"
	"github.com/smartcontractkit/chainlink-ccip/internal/reader"
	cciptypes "github.com/smartcontractkit/chainlink-ccip/pkg/types/ccipocr3"
	"github.com/smartcontractkit/chainlink-ccip/pluginconfig"
)

const vC05Dest = cciptypes.ChainSelector(900)

func vC05Plugin(rmnEnabled bool) *Plugin {
	hc := vNewHomeChain()
	m := map[commontypes.OracleID]libocrtypes.PeerID{}
	var peers []libocrtypes.PeerID
	for o := 0; o < 4; o++ {
		m[commontypes.OracleID(o)] = vPeer(o)
		peers = append(peers, vPeer(o))
	}
	hc.SetChain(vC05Dest, 1, peers)
	var d1, d2 types.ConfigDigest
	d1[0], d2[0] = 1, 2
	hc.OCR = reader.ActiveAndCandidate{
		ActiveConfig:    reader.OCR3ConfigWithMeta{ConfigDigest: d1},
		CandidateConfig: reader.OCR3ConfigWithMeta{ConfigDigest: d2},
	}
	return &Plugin{
		oracleID:        0,
		oracleIDToP2PID: m,
		offchainCfg:     pluginconfig.CommitOffchainConfig{RMNEnabled: rmnEnabled},
		ccipReader:      &vCCIPReader{},
		reportCodec:     mocks.NewCommitPluginJSONReportCodec(),
		lggr:            mocks.NullLogger,
		homeChain:       hc,
		reportingCfg:    ocr3types.ReportingPluginConfig{ConfigDigest: d1, OracleID: 0},
		chainSupport:    plugincommon.NewChainSupport(mocks.NullLogger, hc, m, 0, vC05Dest),
	}
}

func vC05Root(k int) cciptypes.MerkleRootChain {
	return cciptypes.MerkleRootChain{ChainSel: cciptypes.ChainSelector(5 + k), OnRampAddress: []byte{1, 2},
		SeqNumsRange: cciptypes.NewSeqNumRange(10, 13), MerkleRoot: cciptypes.Bytes32{7, byte(k)}}
}

func vC05Accept(p *Plugin, ctx context.Context, rep, info []byte) int {
	code := 2
	func() {
		defer func() { _ = recover() }()
		ok, err := p.ShouldAcceptAttestedReport(ctx, 1, ocr3types.ReportWithInfo[[]byte]{Report: rep, Info: info})
		switch {
		case err != nil:
			code = 2
		case ok:
			code = 1
		default:
			code = 0
		}
	}()
	return code
}

// one round of the report parts: an agreed outcome goes through Reports; whatever is emitted goes to
// ShouldAcceptAttestedReport. plug gives the plugin to use (a fresh one, or the long-lived one of a history)
func vC05ReportRound(ctx context.Context, t *testing.T, r *vRand, codec cciptypes.CommitPluginCodec, fixedRmn *bool, plug func(rmn bool) *Plugin) (string, string, string, bool, map[string]any) {
	ty := vPick(r, []int64{2, 2, 2, 3, 0, 1, 4})
	f := uint64(r.Intn(4))
	nr := r.Intn(4)
	ns := vPick(r, []int{0, int(f), int(f) + 1, int(f) + 2, r.Intn(4)})
	if ns < 0 {
		ns = 0
	}
	gp := r.Intn(2)
	rmn := !r.Chance(1, 4)
	if fixedRmn != nil {
		rmn = *fixedRmn
	}
	mo := merkleroot.Outcome{OutcomeType: merkleroot.OutcomeType(ty),
		RMNRemoteCfg: rmntypes.RemoteConfig{ContractAddress: []byte{1}, F: f, ConfigVersion: 1}}
	for k := 0; k < nr; k++ {
		mo.RootsToReport = append(mo.RootsToReport, vC05Root(k))
	}
	for k := 0; k < ns; k++ {
		mo.RMNReportSignatures = append(mo.RMNReportSignatures, cciptypes.RMNECDSASignature{R: cciptypes.Bytes32{byte(k + 1)}, S: cciptypes.Bytes32{9}})
	}
	oc := Outcome{MerkleRootOutcome: mo}
	for k := 0; k < gp; k++ {
		oc.ChainFeeOutcome = chainfee.Outcome{GasPrices: []cciptypes.GasPriceChain{{ChainSel: 3, GasPrice: cciptypes.NewBigIntFromInt64(5)}}}
	}
	ocb, err := oc.Encode()
	if err != nil {
		t.Fatal(err)
	}
	p := plug(rmn)
	out := cNone()
	cls := "empty"
	func() {
		defer func() {
			if rec := recover(); rec != nil {
				out = cSome(cTup(cN(99), cN(99), cN(99), cN(2)))
				cls = "PANIC"
			}
		}()
		reports, err := p.Reports(ctx, 1, ocb)
		if err != nil {
			out = cSome(cTup(cN(99), cN(99), cN(99), cN(2)))
			return
		}
		if len(reports) == 0 {
			return
		}
		dec, derr := codec.Decode(ctx, reports[0].ReportWithInfo.Report)
		var info ReportInfo
		ierr := info.Decode(reports[0].ReportWithInfo.Info)
		if derr != nil || ierr != nil {
			out = cSome(cTup(cN(99), cN(99), cN(99), cN(2)))
			return
		}
		acc := vC05Accept(plug(rmn), ctx, reports[0].ReportWithInfo.Report, reports[0].ReportWithInfo.Info)
		out = cSome(cTup(cNi(len(dec.MerkleRoots)), cNi(len(dec.RMNSignatures)), cN(info.RemoteF), cNi(acc)))
		cls = "sigs>F"
		switch {
		case nr == 0 && ns > 0:
			cls = "sigs-without-roots"
		case nr == 0:
			cls = "prices-only"
		case uint64(ns) == f:
			cls = "sigs=F"
		case uint64(ns) == f+1:
			cls = "sigs=F+1"
		case uint64(ns) < f:
			cls = "sigs<F"
		}
	}()
	in := cTup(cZ(ty), cNi(nr), cNi(ns), cN(f), cNi(gp), cBool(rmn))
	return in, out, cls, nr > 0 && rmn, map[string]any{"type": ty, "roots": nr, "sigs": ns, "F": f, "gasPrices": gp, "rmn": rmn}
}

// part report: a fresh plugin per case
func TestVerif_C05_report(t *testing.T) {
	ctx := context.Background()
	r := vNewRand(vSeed() + 503)
	n := vEnvInt("VERIF_N", 400)
	sink := vOpenSink("C05_report")
	defer sink.Close()
	codec := mocks.NewCommitPluginJSONReportCodec()
	for i := 0; i < n; i++ {
		in, out, cls, nt, show := vC05ReportRound(ctx, t, r, codec, nil, vC05Plugin)
		sink.Emit("C05_report", cls, nt, cPair(in, out), show)
	}
}

// part replife: ONE long-lived plugin per history (Reports and ShouldAcceptAttestedReport on the same instance, as
// libocr calls them) over 4..12 report cycles in which F_rmn, the number of signatures, roots and prices of the agreed
// outcome change from cycle to cycle; every cycle is judged on its own outcome (the model has no memory)
func TestVerif_C05_replife(t *testing.T) {
	ctx := context.Background()
	r := vNewRand(vSeed() + 513)
	n := vEnvInt("VERIF_N", 60)
	sink := vOpenSink("C05_replife")
	defer sink.Close()
	codec := mocks.NewCommitPluginJSONReportCodec()
	for h := 0; h < n; h++ {
		rmn := !r.Chance(1, 5)
		p := vC05Plugin(rmn)
		cycles := r.Range(4, 12)
		for c := 0; c < cycles; c++ {
			in, out, cls, nt, show := vC05ReportRound(ctx, t, r, codec, &rmn, func(bool) *Plugin { return p })
			show["history"], show["cycle"] = h, c
			sink.Emit("C05_replife", cls, nt, cPair(in, out), show)
		}
	}
}

// part gate: ShouldAcceptAttestedReport on a hand-made report and info, RemoteF over the whole uint64 range
func TestVerif_C05_gate(t *testing.T) {
	ctx := context.Background()
	r := vNewRand(vSeed() + 504)
	n := vEnvInt("VERIF_N", 400)
	sink := vOpenSink("C05_gate")
	defer sink.Close()
	codec := mocks.NewCommitPluginJSONReportCodec()
	for i := 0; i < n; i++ {
		f := vPick(r, []uint64{0, 1, 2, 3, 1<<63 - 2, 1<<63 - 1, 1 << 63, math.MaxUint64 - 1, math.MaxUint64})
		if r.Chance(1, 2) {
			f = uint64(r.Intn(4))
		}
		nr := r.Intn(3)
		ns := r.Intn(5)
		if f < 4 && r.Bool() {
			ns = int(f) + r.Intn(2) // F or F+1
		}
		gp := r.Intn(2)
		rmn := !r.Chance(1, 4)
		rep := cciptypes.CommitPluginReport{}
		for k := 0; k < nr; k++ {
			rep.MerkleRoots = append(rep.MerkleRoots, vC05Root(k))
		}
		for k := 0; k < ns; k++ {
			rep.RMNSignatures = append(rep.RMNSignatures, cciptypes.RMNECDSASignature{R: cciptypes.Bytes32{byte(k + 1)}, S: cciptypes.Bytes32{9}})
		}
		for k := 0; k < gp; k++ {
			rep.PriceUpdates.GasPriceUpdates = append(rep.PriceUpdates.GasPriceUpdates, cciptypes.GasPriceChain{ChainSel: 3, GasPrice: cciptypes.NewBigIntFromInt64(5)})
		}
		rb, _ := codec.Encode(ctx, rep)
		info, _ := ReportInfo{RemoteF: f}.Encode()
		acc := vC05Accept(vC05Plugin(rmn), ctx, rb, info)
		cls := "F-small"
		if f >= 1<<63-2 {
			cls = "F-huge"
		}
		if uint64(ns) == f {
			cls += "/sigs=F"
		} else if uint64(ns) == f+1 {
			cls += "/sigs=F+1"
		}
		in := cTup(cNi(nr), cNi(ns), cN(f), cBool(rmn), cNi(gp))
		sink.Emit("C05_gate", cls, nr > 0 && rmn, cPair(in, cNi(acc)),
			map[string]any{"roots": nr, "sigs": ns, "remoteF": f, "rmn": rmn, "gasPrices": gp})
	}
}

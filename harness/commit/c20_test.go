//go:build verif

package commit

import (
	"bytes"
	"encoding/json"
	"fmt"
	"io"
	"math/big"
	"reflect"
	"sort"
	"strconv"
	"strings"
	"testing"
	"time"

	commonconfig "github.com/smartcontractkit/chainlink-common/pkg/config"

	"github.com/smartcontractkit/chainlink-ccip/chainconfig"
	"github.com/smartcontractkit/chainlink-ccip/commit/merkleroot"
	"github.com/smartcontractkit/chainlink-ccip/internal/plugintypes"
	cciptypes "github.com/smartcontractkit/chainlink-ccip/pkg/types/ccipocr3"
	"github.com/smartcontractkit/chainlink-ccip/pluginconfig"
)

// ===================================================================================================
// Generic part (identical copy in harness/execute/exectypes/c20_test.go): JSON tree, Go type
// descriptors derived by reflection following encoding/json's rules, value printer, random value
// generator, type-directed mutation of honest encodings.  Encodings travel to the judge as bytes
// (Model/JsonText.v prints and parses them); the tree type here only serves the mutation engine.
// ===================================================================================================

// texts: dictionary reference when the string is a known member name, else 7-byte chunks packed into
// primitive integers (cheap for coqc to parse); Check/C20_check.v holds the same dictionary and the unpacker.
func vC20Chunks(b []byte) string {
	if len(b) == 0 {
		return "[]"
	}
	var sb strings.Builder
	sb.WriteString("(txp [")
	for i := 0; i < len(b); i += 7 {
		e := i + 7
		if e > len(b) {
			e = len(b)
		}
		var c uint64
		for k := e - 1; k >= i; k-- {
			c = c<<8 | uint64(b[k])
		}
		c |= uint64(e-i) << 56
		if i > 0 {
			sb.WriteString("; ")
		}
		sb.WriteString(strconv.FormatUint(c, 10))
	}
	sb.WriteString("]%uint63)")
	return sb.String()
}
func vC20Tx(s string) string {
	if k, ok := vC20DictIdx[s]; ok {
		return "(dn " + strconv.Itoa(k) + ")"
	}
	return vC20Chunks([]byte(s))
}
func vC20ByteList(b []byte) string { return vC20Chunks(b) }

var vC20DictIdx = func() map[string]int {
	m := map[string]int{}
	for i, s := range vC20Dict {
		m[s] = i
	}
	return m
}()

// VC20DICT-BEGIN
var vC20Dict = []string{
	"0", "0001-01-01T00:00:00Z", "0s", "0x", "1", "Addresses", "DataAvailabilityFee", "ExecutionFee", "FChain",
	"Filter", "GetCommitReports", "GetMessages", "Initialized", "RMNSignatures", "RetryRMNSignatures", "State",
	"TokenData", "aggregatorAddress", "amount", "batchGasLimit", "batchingStrategyID", "blockNum", "chain",
	"chainFee", "chainFeeObs", "chainFeeOutcome", "chainFeeQuery", "chainFeeUpdates", "chainReports", "chainSel",
	"chainSelector", "commitReports", "configDigest", "configVersion", "contractAddress", "contracts",
	"costlyMessages", "daFee", "daGasPriceDeviationPPB", "data", "dataAvailabilityDeviationPPB", "decimals",
	"destChainSelector", "destExecData", "destTokenAddress", "deviationPPB", "discoveryObs", "execDeviationPPB",
	"execFee", "executedMessages", "extraArgs", "extraData", "f", "fChain", "feeComponents", "feeInfo",
	"feeQuoterTokenUpdates", "feeToken", "feeTokenAmount", "feeValueJuels", "feedTokenPrices", "gasPrice",
	"gasPriceDeviationPPB", "gasPrices", "header", "inflightCacheExpiry", "maxReportTransmissionCheckAttempts",
	"maxTreeSize", "merkleObs", "merkleRoot", "merkleRootOutcome", "merkleRootQuery", "merkleRoots", "messageId",
	"messageTokenData", "messageVisibilityInterval", "messages", "msgHash", "nativeTokenPrice",
	"newMsgScanBatchSize", "nodeIndex", "nonce", "nonces", "offRampNextSeqNums", "offchainTokenData", "onRamp",
	"onRampAddress", "onRampMaxSeqNums", "onchainPublicKey", "optimisticConfirmations", "outcomeType", "price",
	"proofFlagBits", "proofs", "r", "rangesSelectedForReport", "ready", "receiver", "relativeBoostPerWaitHour",
	"remoteF", "remoteGasPriceBatchWriteFrequency", "report", "reportTransmissionCheckAttempts", "rmnEnabled",
	"rmnRemoteCfg", "rmnRemoteConfig", "rmnReportSignatures", "rmnReportVersion", "rmnSignaturesTimeout",
	"rootSnoozeTime", "rootsToReport", "s", "sender", "seqNum", "seqNumRange", "seqNumsRange",
	"sequenceNumberRange", "signObservationPrefix", "signers", "sourceChainSelector", "sourcePoolAddress",
	"timestamp", "tokenAmounts", "tokenDataObservations", "tokenDataObservers", "tokenID", "tokenInfo",
	"tokenObs", "tokenPriceBatchWriteFrequency", "tokenPriceChainSelector", "tokenPriceOutcome",
	"tokenPriceQuery", "tokenPrices", "type", "value", "version", "zzUnknown",
}

// VC20DICT-END

// ---------- JSON tree ----------
type vC20J struct {
	k    byte // n t f # s a o
	s    string
	arr  []*vC20J
	keys []string
	vals []*vC20J
}

func vC20ParseVal(d *json.Decoder) (*vC20J, error) {
	tok, err := d.Token()
	if err != nil {
		return nil, err
	}
	switch x := tok.(type) {
	case nil:
		return &vC20J{k: 'n'}, nil
	case bool:
		if x {
			return &vC20J{k: 't'}, nil
		}
		return &vC20J{k: 'f'}, nil
	case json.Number:
		return &vC20J{k: '#', s: string(x)}, nil
	case string:
		return &vC20J{k: 's', s: x}, nil
	case json.Delim:
		if x == '[' {
			j := &vC20J{k: 'a'}
			for d.More() {
				e, err := vC20ParseVal(d)
				if err != nil {
					return nil, err
				}
				j.arr = append(j.arr, e)
			}
			_, err := d.Token()
			return j, err
		}
		if x == '{' {
			j := &vC20J{k: 'o'}
			for d.More() {
				kt, err := d.Token()
				if err != nil {
					return nil, err
				}
				e, err := vC20ParseVal(d)
				if err != nil {
					return nil, err
				}
				j.keys = append(j.keys, kt.(string))
				j.vals = append(j.vals, e)
			}
			_, err := d.Token()
			return j, err
		}
	}
	return nil, fmt.Errorf("unexpected token %v", tok)
}
func vC20Parse(b []byte) *vC20J {
	d := json.NewDecoder(bytes.NewReader(b))
	d.UseNumber()
	j, err := vC20ParseVal(d)
	if err != nil {
		panic(fmt.Sprintf("harness parser: %v on %s", err, b))
	}
	if _, err := d.Token(); err != io.EOF {
		panic("harness parser: trailing data")
	}
	return j
}
func vC20Str(s string) string {
	// strings handed to the custom unmarshalers must not need escapes; everything we generate is plain ASCII
	var sb strings.Builder
	sb.WriteByte('"')
	for i := 0; i < len(s); i++ {
		c := s[i]
		if c == '"' || c == '\\' || c < 0x20 {
			fmt.Fprintf(&sb, `\u%04x`, c)
		} else {
			sb.WriteByte(c)
		}
	}
	sb.WriteByte('"')
	return sb.String()
}
// style 0: compact; style > 0 (seed of a small generator): white space between the tokens and member names partly
// written with \u00XX escapes (member names go through encoding/json's own unquoting, never through a custom
// unmarshaler)
type vC20Style struct{ s uint64 }

func (st *vC20Style) next(n int) int {
	if st == nil || st.s == 0 {
		return -1
	}
	st.s = st.s*6364136223846793005 + 1442695040888963407
	return int((st.s >> 33) % uint64(n))
}
func (st *vC20Style) ws(sb *strings.Builder) {
	switch st.next(6) {
	case 0:
		sb.WriteByte(' ')
	case 1:
		sb.WriteString("\n\t")
	case 2:
		sb.WriteString("\r\n  ")
	}
}
func (st *vC20Style) key(k string, sb *strings.Builder) {
	if len(k) == 0 || st.next(3) != 0 {
		sb.WriteString(vC20Str(k))
		return
	}
	i := st.next(len(k))
	pre, post := vC20Str(k[:i]), vC20Str(k[i+1:])
	esc := fmt.Sprintf(`\u%04x`, k[i])
	if k[i] == '/' && st.next(2) == 0 {
		esc = `\/`
	} else if st.next(2) == 0 {
		esc = fmt.Sprintf(`\u%04X`, k[i])
	}
	sb.WriteString(pre[:len(pre)-1] + esc + post[1:])
}
func (j *vC20J) Ser(sb *strings.Builder) { j.SerStyle(sb, nil) }
func (j *vC20J) SerStyle(sb *strings.Builder, st *vC20Style) {
	switch j.k {
	case 'n':
		sb.WriteString("null")
	case 't':
		sb.WriteString("true")
	case 'f':
		sb.WriteString("false")
	case '#':
		sb.WriteString(j.s)
	case 's':
		sb.WriteString(vC20Str(j.s))
	case 'a':
		sb.WriteByte('[')
		st.ws(sb)
		for i, e := range j.arr {
			if i > 0 {
				sb.WriteByte(',')
				st.ws(sb)
			}
			e.SerStyle(sb, st)
			st.ws(sb)
		}
		sb.WriteByte(']')
	case 'o':
		sb.WriteByte('{')
		st.ws(sb)
		for i := range j.keys {
			if i > 0 {
				sb.WriteByte(',')
				st.ws(sb)
			}
			st.key(j.keys[i], sb)
			st.ws(sb)
			sb.WriteByte(':')
			st.ws(sb)
			j.vals[i].SerStyle(sb, st)
			st.ws(sb)
		}
		sb.WriteByte('}')
	}
}
func (j *vC20J) Bytes() []byte {
	var sb strings.Builder
	j.Ser(&sb)
	return []byte(sb.String())
}
func (j *vC20J) BytesStyle(seed uint64) []byte {
	var sb strings.Builder
	sb.WriteString(" ")
	j.SerStyle(&sb, &vC20Style{s: seed | 1})
	sb.WriteString("\n")
	return []byte(sb.String())
}
func (j *vC20J) Coq() string {
	switch j.k {
	case 'n':
		return "JNull"
	case 't':
		return "JTrue"
	case 'f':
		return "JFalse"
	case '#':
		return cApp("JNum", vC20Tx(j.s))
	case 's':
		return cApp("JStr", vC20Tx(j.s))
	case 'a':
		return cApp("JArr", cMap(j.arr, func(e *vC20J) string { return e.Coq() }))
	default:
		xs := make([]string, len(j.keys))
		for i := range j.keys {
			xs[i] = cPair(vC20Tx(j.keys[i]), j.vals[i].Coq())
		}
		return cApp("JObj", cList(xs))
	}
}
func (j *vC20J) Clone() *vC20J {
	c := &vC20J{k: j.k, s: j.s}
	for _, e := range j.arr {
		c.arr = append(c.arr, e.Clone())
	}
	c.keys = append(c.keys, j.keys...)
	for _, e := range j.vals {
		c.vals = append(c.vals, e.Clone())
	}
	return c
}

// ---------- type descriptors ----------
type vC20F struct {
	name string
	idx  int
	t    *vC20T
}
type vC20T struct {
	kind   string // uint uints int bool string bytes bytes32 bigint bigptr opaque slice array map ptr struct
	max    uint64
	n      int
	elem   *vC20T
	keyU   bool
	keyMax uint64
	fields []vC20F
	zero   *vC20J
	rt     reflect.Type
}

var (
	vC20tBytes   = reflect.TypeOf(cciptypes.Bytes(nil))
	vC20tAddr    = reflect.TypeOf(cciptypes.UnknownAddress(nil))
	vC20tB32     = reflect.TypeOf(cciptypes.Bytes32{})
	vC20tBigInt  = reflect.TypeOf(cciptypes.BigInt{})
	vC20tBigPtr  = reflect.TypeOf((*big.Int)(nil))
	vC20tTime    = reflect.TypeOf(time.Time{})
	vC20tDur     = reflect.TypeOf(commonconfig.Duration{})
	vC20tDurPtr  = reflect.TypeOf((*commonconfig.Duration)(nil))
	vC20tCache   = map[reflect.Type]*vC20T{}
	vC20Skipped  = map[string]bool{} // constructs deliberately left out (reported in the class histogram)
)

func vC20UintMax(rt reflect.Type) uint64 {
	switch rt.Kind() {
	case reflect.Uint8:
		return 1<<8 - 1
	case reflect.Uint16:
		return 1<<16 - 1
	case reflect.Uint32:
		return 1<<32 - 1
	}
	return 1<<64 - 1
}
func vC20IsUint(k reflect.Kind) bool {
	return k == reflect.Uint || k == reflect.Uint8 || k == reflect.Uint16 || k == reflect.Uint32 || k == reflect.Uint64
}
func vC20ZeroTok(rt reflect.Type) *vC20J {
	b, err := json.Marshal(reflect.Zero(rt).Interface())
	if err != nil {
		panic(err)
	}
	return vC20Parse(b)
}

func vC20TypeOf(rt reflect.Type) *vC20T {
	if t, ok := vC20tCache[rt]; ok {
		return t
	}
	t := &vC20T{rt: rt}
	vC20tCache[rt] = t
	switch {
	case rt == vC20tBytes || rt == vC20tAddr:
		t.kind = "bytes"
		return t
	case rt == vC20tB32:
		t.kind = "bytes32"
		return t
	case rt == vC20tBigInt:
		t.kind = "bigint"
		return t
	case rt == vC20tBigPtr:
		t.kind = "bigptr"
		return t
	case rt == vC20tTime || rt == vC20tDur || rt.Kind() == reflect.Float64 ||
		(rt.Kind() == reflect.Slice && rt.Elem().Kind() == reflect.Uint8):
		t.kind = "opaque"
		t.zero = vC20ZeroTok(rt)
		return t
	case rt == vC20tDurPtr:
		// *Duration: null when nil, a string otherwise; kept as an opaque leaf
		t.kind = "opaque"
		t.zero = &vC20J{k: 'n'}
		return t
	}
	if rt.Kind() != reflect.Ptr && rt.Kind() != reflect.Interface {
		if _, ok := reflect.PtrTo(rt).MethodByName("UnmarshalJSON"); ok {
			panic("C20 harness: unmodelled custom unmarshaler on " + rt.String())
		}
	}
	switch rt.Kind() {
	case reflect.Bool:
		t.kind = "bool"
	case reflect.String:
		t.kind = "string"
	case reflect.Int, reflect.Int64:
		t.kind = "int"
	case reflect.Uint, reflect.Uint8, reflect.Uint16, reflect.Uint32, reflect.Uint64:
		t.kind = "uint"
		t.max = vC20UintMax(rt)
	case reflect.Slice:
		t.kind = "slice"
		t.elem = vC20TypeOf(rt.Elem())
	case reflect.Array:
		t.kind = "array"
		t.n = rt.Len()
		t.elem = vC20TypeOf(rt.Elem())
	case reflect.Map:
		t.kind = "map"
		t.elem = vC20TypeOf(rt.Elem())
		if vC20IsUint(rt.Key().Kind()) {
			t.keyU = true
			t.keyMax = vC20UintMax(rt.Key())
		} else if rt.Key().Kind() != reflect.String {
			panic("C20 harness: map key kind " + rt.Key().String())
		}
	case reflect.Ptr:
		if rt.Elem().Kind() == reflect.Struct && strings.Contains(rt.Elem().PkgPath(), "/rmn") {
			// *rmn.ReportSignatures (protobuf messages inside): always generated nil, kept as an opaque null leaf
			t.kind = "opaque"
			t.zero = &vC20J{k: 'n'}
			vC20Skipped["ptr:"+rt.String()] = true
			return t
		}
		t.kind = "ptr"
		t.elem = vC20TypeOf(rt.Elem())
	case reflect.Struct:
		t.kind = "struct"
		for i := 0; i < rt.NumField(); i++ {
			f := rt.Field(i)
			if !f.IsExported() {
				continue
			}
			tag := f.Tag.Get("json")
			if tag == "-" {
				continue
			}
			if f.Anonymous {
				// embedded *struct (TokenDataObserverConfig): always generated nil => contributes no members
				vC20Skipped["embedded:"+rt.String()+"."+f.Name] = true
				continue
			}
			name := f.Name
			opts := ""
			if tag != "" {
				parts := strings.SplitN(tag, ",", 2)
				if parts[0] != "" {
					name = parts[0]
				}
				if len(parts) > 1 {
					opts = parts[1]
				}
			}
			ft := vC20TypeOf(f.Type)
			switch opts {
			case "":
			case "string":
				if ft.kind != "uint" {
					panic("C20 harness: ,string on " + f.Type.String())
				}
				ft = &vC20T{kind: "uints", max: ft.max, rt: f.Type}
			default:
				panic("C20 harness: unmodelled tag option " + opts + " on " + rt.String() + "." + f.Name)
			}
			t.fields = append(t.fields, vC20F{name: name, idx: i, t: ft})
		}
	default:
		panic("C20 harness: unmodelled kind " + rt.String())
	}
	return t
}

func (t *vC20T) Coq() string {
	switch t.kind {
	case "uint":
		return cApp("TUint", cN(t.max))
	case "uints":
		return cApp("TUintS", cN(t.max))
	case "int":
		return "TInt"
	case "bool":
		return "TBool"
	case "string":
		return "TString"
	case "bytes":
		return "TBytes"
	case "bytes32":
		return "TBytes32"
	case "bigint":
		return "TBigInt"
	case "bigptr":
		return "TBigPtr"
	case "opaque":
		return cApp("TOpaque", t.zero.Coq())
	case "slice":
		return cApp("TSlice", t.elem.Coq())
	case "array":
		return cApp("TArray", strconv.Itoa(t.n), t.elem.Coq())
	case "map":
		if t.keyU {
			return cApp("TMap", cSome(cN(t.keyMax)), t.elem.Coq())
		}
		return cApp("TMap", cNone(), t.elem.Coq())
	case "ptr":
		return cApp("TPtr", t.elem.Coq())
	default:
		xs := make([]string, len(t.fields))
		for i, f := range t.fields {
			xs[i] = cPair(vC20Tx(f.name), f.t.Coq())
		}
		return cApp("TStruct", cList(xs))
	}
}

// ---------- Go value -> Coq val ----------
func vC20OptZ(b *big.Int) string {
	if b == nil {
		return cNone()
	}
	return cSome(cZb(b))
}
func vC20Val(t *vC20T, v reflect.Value) string {
	switch t.kind {
	case "uint", "uints":
		return cApp("VU", cN(v.Uint()))
	case "int":
		return cApp("VZ", cZ(v.Int()))
	case "bool":
		return cApp("VBool", cBool(v.Bool()))
	case "string":
		return cApp("VStr", vC20Tx(v.String()))
	case "bytes":
		if v.IsNil() {
			return "(VBytes None)"
		}
		return cApp("VBytes", cSome(vC20ByteList(v.Bytes())))
	case "bytes32":
		b := make([]byte, 32)
		reflect.Copy(reflect.ValueOf(b), v)
		return cApp("VB32", vC20ByteList(b))
	case "bigint":
		return cApp("VBig", vC20OptZ(v.Interface().(cciptypes.BigInt).Int))
	case "bigptr":
		return cApp("VBig", vC20OptZ(v.Interface().(*big.Int)))
	case "opaque":
		b, err := json.Marshal(v.Interface())
		if err != nil {
			panic(err)
		}
		return cApp("VOpq", vC20Parse(b).Coq())
	case "slice":
		if v.IsNil() {
			return "(VList None)"
		}
		xs := make([]string, v.Len())
		for i := range xs {
			xs[i] = vC20Val(t.elem, v.Index(i))
		}
		return cApp("VList", cSome(cList(xs)))
	case "array":
		xs := make([]string, v.Len())
		for i := range xs {
			xs[i] = vC20Val(t.elem, v.Index(i))
		}
		return cApp("VArr", cList(xs))
	case "map":
		if v.IsNil() {
			return "(VMap None)"
		}
		type kv struct {
			k string
			v reflect.Value
		}
		var kvs []kv
		it := v.MapRange()
		for it.Next() {
			k := it.Key()
			ks := ""
			if t.keyU {
				ks = strconv.FormatUint(k.Uint(), 10)
			} else {
				ks = k.String()
			}
			kvs = append(kvs, kv{ks, it.Value()})
		}
		sort.Slice(kvs, func(i, j int) bool { return kvs[i].k < kvs[j].k })
		xs := make([]string, len(kvs))
		for i, e := range kvs {
			xs[i] = cPair(vC20Tx(e.k), vC20Val(t.elem, e.v))
		}
		return cApp("VMap", cSome(cList(xs)))
	case "ptr":
		if v.IsNil() {
			return "(VPtr None)"
		}
		return cApp("VPtr", cSome(vC20Val(t.elem, v.Elem())))
	default:
		xs := make([]string, len(t.fields))
		for i, f := range t.fields {
			xs[i] = vC20Val(f.t, v.Field(f.idx))
		}
		return cApp("VRec", cList(xs))
	}
}

// ---------- random values ----------
var vC20Zones = []*time.Location{time.UTC, time.FixedZone("", 3600), time.FixedZone("", -5*3600-1800), time.FixedZone("x", 0), time.FixedZone("", 14*3600)}

func vC20U64(r *vRand, max uint64) uint64 {
	switch r.Intn(8) {
	case 0:
		return 0
	case 1:
		return max
	case 2:
		return max - 1
	case 3:
		return 1
	case 4:
		return r.U64() % 20
	}
	v := r.U64() >> uint(r.Intn(64))
	if v > max {
		v %= max
	}
	return v
}
func vC20Big(r *vRand) *big.Int {
	switch r.Intn(7) {
	case 0:
		return big.NewInt(0)
	case 1:
		return big.NewInt(int64(r.Intn(1000)))
	case 2:
		return big.NewInt(-int64(r.Intn(1000)) - 1)
	case 3:
		return new(big.Int).Sub(new(big.Int).Lsh(big.NewInt(1), 256), big.NewInt(1))
	case 4:
		return new(big.Int).Add(new(big.Int).Lsh(big.NewInt(1), uint(r.Range(256, 300))), big.NewInt(int64(r.Intn(9))))
	case 5:
		return new(big.Int).Neg(new(big.Int).Lsh(big.NewInt(int64(r.Intn(9))+1), uint(r.Range(60, 260))))
	}
	return new(big.Int).SetUint64(r.U64())
}
func vC20Ident(r *vRand) string {
	const cs = "abcdefghijklmnopqrstuvwxyzABCDEFXYZ0123456789_-."
	// one in four free strings (string fields, string map keys) uses the whole ASCII range: the characters the
	// encoder escapes (quote, backslash, control characters, < > &), 0x7f, /
	const sp = "\"\\/<>&\x00\x01\b\t\n\f\r\x1f\x7f '"
	wide := r.Chance(1, 4)
	n := r.Range(0, 8)
	b := make([]byte, n)
	for i := range b {
		b[i] = cs[r.Intn(len(cs))]
		if wide && r.Bool() {
			b[i] = sp[r.Intn(len(sp))]
		}
	}
	return string(b)
}
func vC20Bytes(r *vRand) []byte {
	switch r.Intn(6) {
	case 0:
		return nil
	case 1:
		return []byte{}
	case 2:
		return []byte{byte(r.U64())}
	case 3:
		b := make([]byte, 20)
		for i := range b {
			b[i] = byte(r.U64())
		}
		return b
	case 4:
		b := make([]byte, r.Range(33, 90))
		for i := range b {
			b[i] = byte(r.U64())
		}
		return b
	}
	b := make([]byte, r.Range(1, 32))
	for i := range b {
		b[i] = byte(r.U64())
	}
	return b
}

// size budget keeps values (and Coq terms) small
func vC20Gen(r *vRand, v reflect.Value, depth int) {
	rt := v.Type()
	switch {
	case rt == vC20tBytes || rt == vC20tAddr:
		b := vC20Bytes(r)
		if b == nil {
			v.Set(reflect.Zero(rt))
		} else {
			v.Set(reflect.ValueOf(b).Convert(rt))
		}
		return
	case rt == vC20tB32:
		var b cciptypes.Bytes32
		switch r.Intn(4) {
		case 0:
		case 1:
			for i := range b {
				b[i] = 0xff
			}
		default:
			for i := range b {
				b[i] = byte(r.U64())
			}
		}
		v.Set(reflect.ValueOf(b))
		return
	case rt == vC20tBigInt:
		if r.Chance(1, 5) {
			v.Set(reflect.ValueOf(cciptypes.BigInt{}))
		} else {
			v.Set(reflect.ValueOf(cciptypes.BigInt{Int: vC20Big(r)}))
		}
		return
	case rt == vC20tBigPtr:
		if r.Chance(1, 5) {
			v.Set(reflect.Zero(rt))
		} else {
			v.Set(reflect.ValueOf(vC20Big(r)))
		}
		return
	case rt == vC20tTime:
		switch r.Intn(5) {
		case 0:
			v.Set(reflect.ValueOf(time.Time{}))
		case 1:
			v.Set(reflect.ValueOf(time.Unix(int64(r.Intn(2000000000)), 0).UTC()))
		default:
			v.Set(reflect.ValueOf(time.Unix(int64(r.Intn(4000000000)), int64(r.Intn(1000000000))).In(vPick(r, vC20Zones))))
		}
		return
	case rt == vC20tDur:
		v.Set(reflect.ValueOf(*commonconfig.MustNewDuration(time.Duration(r.Intn(100000)) * time.Millisecond)))
		return
	case rt == vC20tDurPtr:
		if r.Bool() {
			v.Set(reflect.ValueOf(commonconfig.MustNewDuration(time.Duration(r.Intn(100000)) * time.Millisecond)))
		}
		return
	}
	switch rt.Kind() {
	case reflect.Bool:
		v.SetBool(r.Bool())
	case reflect.String:
		v.SetString(vC20Ident(r))
	case reflect.Int, reflect.Int64:
		switch r.Intn(6) {
		case 0:
			v.SetInt(0)
		case 1:
			v.SetInt(-1 << 63)
		case 2:
			v.SetInt(1<<63 - 1)
		case 3:
			v.SetInt(-int64(r.Intn(10)))
		default:
			v.SetInt(int64(r.Intn(10)))
		}
	case reflect.Uint, reflect.Uint8, reflect.Uint16, reflect.Uint32, reflect.Uint64:
		v.SetUint(vC20U64(r, vC20UintMax(rt)))
	case reflect.Float64:
		v.SetFloat(vPick(r, []float64{0, 0.5, 1, 1.5, 0.07, 1e21, 1e-7, 123456.789, -2.25}))
	case reflect.Slice:
		if rt.Elem().Kind() == reflect.Uint8 { // plain []byte
			b := vC20Bytes(r)
			if b != nil {
				v.SetBytes(b)
			}
			return
		}
		n := 0
		switch r.Intn(5) {
		case 0:
			return // nil
		case 1:
			n = 0
		default:
			n = r.Range(1, 3)
		}
		if depth > 3 && n > 1 {
			n = 1
		}
		s := reflect.MakeSlice(rt, n, n)
		for i := 0; i < n; i++ {
			vC20Gen(r, s.Index(i), depth+1)
		}
		v.Set(s)
	case reflect.Array:
		for i := 0; i < v.Len(); i++ {
			vC20Gen(r, v.Index(i), depth+1)
		}
	case reflect.Map:
		n := 0
		switch r.Intn(5) {
		case 0:
			return
		case 1:
		default:
			n = r.Range(1, 3)
		}
		if depth > 3 && n > 1 {
			n = 1
		}
		m := reflect.MakeMap(rt)
		for i := 0; i < n; i++ {
			k := reflect.New(rt.Key()).Elem()
			vC20Gen(r, k, depth+1)
			e := reflect.New(rt.Elem()).Elem()
			vC20Gen(r, e, depth+1)
			m.SetMapIndex(k, e)
		}
		v.Set(m)
	case reflect.Ptr:
		if rt.Elem().Kind() == reflect.Struct && strings.Contains(rt.Elem().PkgPath(), "/rmn") {
			return
		}
		if r.Chance(1, 3) {
			return
		}
		p := reflect.New(rt.Elem())
		vC20Gen(r, p.Elem(), depth+1)
		v.Set(p)
	case reflect.Struct:
		for i := 0; i < rt.NumField(); i++ {
			f := rt.Field(i)
			if !f.IsExported() || f.Anonymous || f.Tag.Get("json") == "-" {
				continue
			}
			vC20Gen(r, v.Field(i), depth+1)
		}
	default:
		panic("C20 harness gen: " + rt.String())
	}
}

// ---------- type-directed mutation of an honest tree ("foreign but mostly acceptable bytes") ----------
func vC20Upper(s string) string {
	b := []byte(s)
	for i := 2; i < len(b); i++ {
		if b[i] >= 'a' && b[i] <= 'f' && i%3 != 0 {
			b[i] -= 32
		}
	}
	return string(b)
}

// returns the label of the mutation applied ("" if none)
func vC20Mutate(r *vRand, t *vC20T, j *vC20J) string {
	// descend with probability, otherwise mutate here
	switch t.kind {
	case "struct":
		if j.k == 'o' && len(j.keys) > 0 && r.Chance(3, 5) {
			i := r.Intn(len(j.keys))
			for _, f := range t.fields {
				if f.name == j.keys[i] {
					if l := vC20Mutate(r, f.t, j.vals[i]); l != "" {
						return l
					}
				}
			}
		}
	case "slice", "array":
		if j.k == 'a' && len(j.arr) > 0 && r.Chance(3, 5) {
			if l := vC20Mutate(r, t.elem, j.arr[r.Intn(len(j.arr))]); l != "" {
				return l
			}
		}
	case "map":
		if j.k == 'o' && len(j.keys) > 0 && r.Chance(3, 5) {
			if l := vC20Mutate(r, t.elem, j.vals[r.Intn(len(j.vals))]); l != "" {
				return l
			}
		}
	case "ptr":
		if j.k != 'n' && r.Chance(3, 5) {
			if l := vC20Mutate(r, t.elem, j); l != "" {
				return l
			}
		}
	}
	switch t.kind {
	case "struct":
		if j.k != 'o' {
			return ""
		}
		switch r.Intn(7) {
		case 0: // drop a member
			if len(j.keys) == 0 {
				return ""
			}
			i := r.Intn(len(j.keys))
			j.keys = append(j.keys[:i], j.keys[i+1:]...)
			j.vals = append(j.vals[:i], j.vals[i+1:]...)
			return "drop-member"
		case 1: // unknown member
			j.keys = append(j.keys, "zzUnknown")
			j.vals = append(j.vals, &vC20J{k: 'a', arr: []*vC20J{{k: '#', s: "1"}, {k: 'n'}}})
			return "unknown-member"
		case 2: // member set to null
			if len(j.keys) == 0 {
				return ""
			}
			i := r.Intn(len(j.vals))
			for _, f := range t.fields {
				if f.name == j.keys[i] && f.t.kind == "opaque" {
					return "" // null handling of opaque leaves (Duration rejects it, Time ignores it) is not modelled
				}
			}
			j.vals[i] = &vC20J{k: 'n'}
			return "null-member"
		case 3: // key in another case
			if len(j.keys) == 0 {
				return ""
			}
			i := r.Intn(len(j.keys))
			if r.Bool() {
				j.keys[i] = strings.ToUpper(j.keys[i])
			} else {
				j.keys[i] = strings.ToLower(j.keys[i])
			}
			return "key-case"
		case 4: // swap two members
			if len(j.keys) < 2 {
				return ""
			}
			a, b := r.Intn(len(j.keys)), r.Intn(len(j.keys))
			j.keys[a], j.keys[b] = j.keys[b], j.keys[a]
			j.vals[a], j.vals[b] = j.vals[b], j.vals[a]
			return "swap-members"
		case 5: // duplicate member: same key again with the value of a sibling of the same JSON kind or itself
			if len(j.keys) == 0 {
				return ""
			}
			i := r.Intn(len(j.keys))
			for _, f := range t.fields {
				if f.name == j.keys[i] && f.t.kind == "opaque" {
					return ""
				}
			}
			dup := j.vals[i].Clone()
			for _, f := range t.fields {
				if f.name == j.keys[i] {
					vC20Mutate(r, f.t, dup)
				}
			}
			if r.Bool() {
				j.keys = append(j.keys, j.keys[i])
				j.vals = append(j.vals, dup)
			} else {
				j.keys = append([]string{j.keys[i]}, j.keys...)
				j.vals = append([]*vC20J{dup}, j.vals...)
			}
			return "dup-member"
		default: // wrong JSON kind for the whole struct
			*j = *vPick(r, []*vC20J{{k: 'n'}, {k: 'a'}, {k: '#', s: "1"}})
			return "struct-kind"
		}
	case "uint", "int":
		if j.k != '#' {
			return ""
		}
		alts := []string{"0", "1", "18446744073709551615", "18446744073709551616", "4294967295", "4294967296", "255", "256",
			"-0", "-1", "1.0", "1e2", "9223372036854775807", "9223372036854775808", "-9223372036854775808", "-9223372036854775809"}
		if r.Chance(1, 6) {
			*j = *vPick(r, []*vC20J{{k: 'n'}, {k: 's', s: j.s}, {k: 't'}})
			return "num-kind"
		}
		j.s = vPick(r, alts)
		return "num-literal"
	case "uints":
		if j.k != 's' {
			return ""
		}
		if r.Chance(1, 6) {
			*j = *vPick(r, []*vC20J{{k: 'n'}, {k: '#', s: j.s}})
			return "numstr-kind"
		}
		j.s = vPick(r, []string{"00" + j.s, "+" + j.s, "-" + j.s, "null", "", "18446744073709551616", "18446744073709551615", "1e3", " " + j.s, "0"})
		return "numstr-content"
	case "bool":
		*j = *vPick(r, []*vC20J{{k: 'n'}, {k: 't'}, {k: 'f'}, {k: '#', s: "1"}, {k: 's', s: "true"}})
		return "bool"
	case "string":
		*j = *vPick(r, []*vC20J{{k: 'n'}, {k: 's', s: "Filter"}, {k: 's', s: ""}, {k: '#', s: "5"}})
		return "string"
	case "bytes":
		if j.k != 's' {
			return ""
		}
		switch r.Intn(7) {
		case 0:
			j.s = vC20Upper(j.s)
			return "hex-upper"
		case 1:
			j.s += "a"
			return "hex-odd"
		case 2:
			if len(j.s) >= 2 {
				j.s = vPick(r, []string{"0X", "", "00"}) + j.s[2:]
			}
			return "hex-noprefix"
		case 3:
			j.s += "zz"
			return "hex-junk"
		case 4:
			*j = vC20J{k: 'n'}
			return "bytes-null"
		case 5:
			*j = *vPick(r, []*vC20J{{k: '#', s: "12"}, {k: 't'}, {k: 's', s: ""}, {k: 's', s: "0"}})
			return "bytes-kind"
		default:
			j.s = "0x"
			return "hex-empty"
		}
	case "bytes32":
		if j.k != 's' {
			return ""
		}
		switch r.Intn(8) {
		case 0:
			j.s = vC20Upper(j.s)
			return "b32-upper"
		case 1:
			j.s = j.s[:2+2*r.Intn(32)]
			return "b32-short"
		case 2:
			j.s += "ffee"
			return "b32-long"
		case 3:
			if len(j.s) >= 2 {
				j.s = vPick(r, []string{"zz", "00", "xx"}) + j.s[2:]
			}
			return "b32-noprefix"
		case 4:
			*j = *vPick(r, []*vC20J{{k: 'n'}, {k: 't'}, {k: '#', s: "1234"}, {k: '#', s: "12345678"}, {k: '#', s: "0"}, {k: '#', s: "123"}})
			return "b32-kind"
		case 5:
			j.s += "a"
			return "b32-odd"
		case 6:
			j.s = vPick(r, []string{"", "0", "0x", "0x0"})
			return "b32-tiny"
		default:
			j.s = j.s[:len(j.s)-1] + "g"
			return "b32-junk"
		}
	case "bigint":
		switch r.Intn(6) {
		case 0:
			if j.k == 's' {
				j.s = "+" + j.s
			}
			return "big-plus"
		case 1:
			if j.k == 's' {
				if strings.HasPrefix(j.s, "-") {
					j.s = "-00" + j.s[1:]
				} else {
					j.s = "00" + j.s
				}
			}
			return "big-zeros"
		case 2:
			*j = vC20J{k: 'n'}
			return "big-null"
		case 3:
			*j = *vPick(r, []*vC20J{{k: '#', s: "123"}, {k: '#', s: "1234"}, {k: '#', s: "5"}, {k: 't'}, {k: '#', s: "-12"}})
			return "big-unquoted"
		case 4:
			*j = *vPick(r, []*vC20J{{k: 's', s: ""}, {k: 's', s: "-"}, {k: 's', s: "1_0"}, {k: 's', s: "0x1"}, {k: 's', s: "1e3"}, {k: 's', s: "-0"}})
			return "big-junk"
		default:
			*j = vC20J{k: 's', s: "-0"}
			return "big-negzero"
		}
	case "bigptr":
		*j = *vPick(r, []*vC20J{{k: 'n'}, {k: '#', s: "-0"}, {k: '#', s: "1e3"}, {k: '#', s: "1.5"}, {k: 's', s: "12"}, {k: '#', s: "340282366920938463463374607431768211456"}})
		return "bigptr"
	case "slice":
		switch r.Intn(4) {
		case 0:
			*j = vC20J{k: 'n'}
			return "slice-null"
		case 1:
			*j = vC20J{k: 'a'}
			return "slice-empty"
		case 2:
			if j.k == 'a' && len(j.arr) > 0 {
				j.arr = append(j.arr, j.arr[len(j.arr)-1].Clone())
				return "slice-repeat"
			}
			return ""
		default:
			*j = *vPick(r, []*vC20J{{k: 'o'}, {k: '#', s: "1"}, {k: 's', s: "x"}})
			return "slice-kind"
		}
	case "array":
		if j.k != 'a' {
			return ""
		}
		switch r.Intn(3) {
		case 0:
			if len(j.arr) > 0 {
				j.arr = j.arr[:len(j.arr)-1]
			}
			return "array-short"
		case 1:
			if len(j.arr) > 0 {
				j.arr = append(j.arr, j.arr[0].Clone())
			}
			return "array-long"
		default:
			*j = vC20J{k: 'n'}
			return "array-null"
		}
	case "map":
		if j.k != 'o' {
			*j = vC20J{k: 'o'}
			return "map-empty"
		}
		switch r.Intn(5) {
		case 0:
			*j = vC20J{k: 'n'}
			return "map-null"
		case 1:
			if len(j.keys) > 0 && t.keyU {
				i := r.Intn(len(j.keys))
				j.keys = append(j.keys, "0"+j.keys[i])
				j.vals = append(j.vals, j.vals[(i+1)%len(j.vals)].Clone())
				return "map-key-zeros-dup"
			}
			return ""
		case 2:
			if t.keyU {
				j.keys = append(j.keys, vPick(r, []string{"-1", "+1", "18446744073709551616", "x", "", "1.0", "null"}))
				j.vals = append(j.vals, &vC20J{k: 'n'})
				return "map-key-bad"
			}
			j.keys = append(j.keys, vPick(r, []string{"", "Zed", "0x"}))
			j.vals = append(j.vals, &vC20J{k: 'n'})
			return "map-key-extra"
		case 3:
			if len(j.keys) > 1 {
				a, b := 0, len(j.keys)-1
				j.keys[a], j.keys[b] = j.keys[b], j.keys[a]
				j.vals[a], j.vals[b] = j.vals[b], j.vals[a]
				return "map-reorder"
			}
			return ""
		default:
			if len(j.keys) > 0 {
				j.keys = append(j.keys, j.keys[0])
				j.vals = append(j.vals, j.vals[len(j.vals)-1].Clone())
				return "map-key-dup"
			}
			return ""
		}
	case "ptr":
		*j = vC20J{k: 'n'}
		return "ptr-null"
	}
	return ""
}

// ---------- one Encode/Decode pair ----------
type vC20Codec struct {
	name string
	rt   reflect.Type
	enc  func(v reflect.Value) ([]byte, error)
	dec  func(b []byte) (reflect.Value, error)
	fix  func(r *vRand, v reflect.Value) // make the value one the encoder's sort leaves in place
}

func vC20OptVal(t *vC20T, v reflect.Value, err error) string {
	if err != nil {
		return cNone()
	}
	return cSome(vC20Val(t, v))
}

func vC20RunCodec(r *vRand, sink *vSink, sinkName string, c vC20Codec, n int) {
	t := vC20TypeOf(c.rt)
	tq := t.Coq()
	for i := 0; i < n; i++ {
		v := reflect.New(c.rt).Elem()
		if i > 0 { // case 0: the zero value
			vC20Gen(r, v, 0)
		}
		if c.fix != nil {
			c.fix(r, v)
		}
		vq := vC20Val(t, v)
		b, err := c.enc(v)
		if err != nil {
			panic(fmt.Sprintf("%s: encode failed: %v", c.name, err))
		}
		honest := i%2 == 0
		if honest {
			// the bytes themselves go to the judge: the model prints its own tree and must arrive at the same bytes
			d, derr := c.dec(b)
			flag := false
			dq := cNone()
			if derr == nil {
				dq = cSome(vC20Val(t, d))
				b2, err2 := c.enc(d)
				flag = err2 == nil && bytes.Equal(b, b2)
			}
			sink.Emit(sinkName, c.name+"/honest", len(b) > 40,
				cPair(cTup(tq, vq, cNone()), cTup(vC20Chunks(b), dq, cBool(flag))),
				map[string]any{"bytes": string(b)})
			continue
		}
		j := vC20Parse(b)
		label := ""
		for k := 0; k < 6 && label == ""; k++ {
			label = vC20Mutate(r, t, j)
		}
		if label == "" {
			label = "unchanged"
		}
		if r.Chance(1, 4) { // a second mutation
			if l2 := vC20Mutate(r, t, j); l2 != "" {
				label += "+" + l2
			}
		}
		fb := j.Bytes()
		if r.Chance(1, 3) { // the same tree spelt with white space and escaped member names
			fb = j.BytesStyle(r.U64())
			label += "+respelt"
		}
		if !json.Valid(fb) {
			panic("harness serialiser produced invalid JSON: " + string(fb))
		}
		if r.Chance(1, 12) { // something after the value: json.Unmarshal must refuse it
			fb = append(fb, vPick(r, []string{"x", " {}", ",", "]", "\n1", "\"\"", "\x00"})...)
			label += "+trailing"
		}
		d, derr := c.dec(fb)
		out := cTup("[]", cNone(), "true")
		if derr == nil {
			dq := vC20Val(t, d) // before Encode (commit Outcome.Encode sorts in place)
			b2, err2 := c.enc(d)
			if err2 != nil {
				panic(fmt.Sprintf("%s: re-encode failed: %v", c.name, err2))
			}
			d2, err3 := c.dec(b2)
			flag := false
			if err3 == nil {
				b3, err4 := c.enc(d2)
				flag = err4 == nil && bytes.Equal(b2, b3)
			}
			out = cTup(vC20Chunks(b2), cSome(dq), cBool(flag))
			if c.fix != nil && err3 == nil && vC20Val(t, d2) != dq {
				// the encoder canonicalised the decoded value (sorted a list, turned nil into empty): judge the
				// canonical value as an honest one; the idempotence flag is still the real code's
				sink.Emit(sinkName, c.name+"/foreign-canon/"+label, true,
					cPair(cTup(tq, vC20Val(t, d2), cNone()), cTup(vC20Chunks(b2), cSome(vC20Val(t, d2)), cBool(flag))),
					map[string]any{"bytes": string(fb), "mutation": label})
				continue
			}
		}
		acc := "rejected"
		if derr == nil {
			acc = "accepted"
		}
		sink.Emit(sinkName, c.name+"/foreign/"+label+"/"+acc, derr == nil,
			cPair(cTup(tq, vq, cSome(vC20Chunks(fb))), out),
			map[string]any{"bytes": string(fb), "mutation": label})
	}
}

func vC20Codec1[T any](name string, enc func(T) ([]byte, error), dec func([]byte) (T, error), fix func(r *vRand, v *T)) vC20Codec {
	var z T
	c := vC20Codec{name: name, rt: reflect.TypeOf(z)}
	c.enc = func(v reflect.Value) ([]byte, error) { return enc(v.Interface().(T)) }
	c.dec = func(b []byte) (reflect.Value, error) {
		x, err := dec(b)
		return reflect.ValueOf(&x).Elem(), err
	}
	if fix != nil {
		c.fix = func(r *vRand, v reflect.Value) { fix(r, v.Addr().Interface().(*T)) }
	}
	return c
}

// distinct ascending selectors
func vC20Asc(r *vRand, n int) []uint64 {
	out := make([]uint64, n)
	cur := uint64(r.Intn(3))
	for i := range out {
		out[i] = cur
		cur += uint64(r.Range(1, 5))
	}
	if n > 0 && r.Chance(1, 4) {
		out[n-1] = 1<<64 - 1
	}
	return out
}

// member names of a descriptor (used to regenerate the dictionary: VERIF_C20_NAMES=1)
func vC20Names(t *vC20T, seen map[*vC20T]bool, out map[string]bool) {
	if t == nil || seen[t] {
		return
	}
	seen[t] = true
	for _, f := range t.fields {
		out[f.name] = true
		vC20Names(f.t, seen, out)
	}
	vC20Names(t.elem, seen, out)
}
func vC20PrintNames(codecs []vC20Codec) {
	out := map[string]bool{}
	for _, c := range codecs {
		vC20Names(vC20TypeOf(c.rt), map[*vC20T]bool{}, out)
	}
	var xs []string
	for k := range out {
		xs = append(xs, k)
	}
	sort.Strings(xs)
	b, _ := json.Marshal(xs)
	fmt.Println("C20NAMES " + string(b))
}

// ===================================================================================================
// Package-specific part
// ===================================================================================================

func vC20FixOutcome(r *vRand, o *Outcome) {
	m := &o.MerkleRootOutcome
	for i, c := range vC20Asc(r, len(m.RangesSelectedForReport)) {
		m.RangesSelectedForReport[i].ChainSel = cciptypes.ChainSelector(c)
	}
	for i, c := range vC20Asc(r, len(m.RootsToReport)) {
		m.RootsToReport[i].ChainSel = cciptypes.ChainSelector(c)
	}
	for i, c := range vC20Asc(r, len(m.OffRampNextSeqNums)) {
		m.OffRampNextSeqNums[i].ChainSel = cciptypes.ChainSelector(c)
	}
}

func vC20ChainRange(c, id uint64) plugintypes.ChainRange {
	return plugintypes.ChainRange{ChainSel: cciptypes.ChainSelector(c),
		SeqNumRange: cciptypes.NewSeqNumRange(cciptypes.SeqNum(id), cciptypes.SeqNum(id+10))}
}
func vC20SeqNumChain(c, id uint64) plugintypes.SeqNumChain {
	return plugintypes.NewSeqNumChain(cciptypes.ChainSelector(c), cciptypes.SeqNum(id))
}

func TestVerif_C20_commit(t *testing.T) {
	r := vNewRand(vSeed())
	n := vEnvInt("VERIF_N", 300)
	sink := vOpenSink("C20_struct_commit")
	defer sink.Close()
	codecs := []vC20Codec{
		vC20Codec1("commit.Outcome", func(o Outcome) ([]byte, error) { return o.Encode() }, decodeOutcome, vC20FixOutcome),
		vC20Codec1("commit.Observation", func(o Observation) ([]byte, error) { return o.Encode() }, DecodeCommitPluginObservation, nil),
		vC20Codec1("commit.Query", func(q Query) ([]byte, error) { return q.Encode() }, DecodeCommitPluginQuery, nil),
		vC20Codec1("commit.ReportInfo", func(ri ReportInfo) ([]byte, error) { return ri.Encode() },
			func(b []byte) (ReportInfo, error) { var ri ReportInfo; err := ri.Decode(b); return ri, err }, nil),
		vC20Codec1("pluginconfig.CommitOffchainConfig", pluginconfig.EncodeCommitOffchainConfig, pluginconfig.DecodeCommitOffchainConfig, nil),
		vC20Codec1("pluginconfig.ExecuteOffchainConfig", pluginconfig.EncodeExecuteOffchainConfig, pluginconfig.DecodeExecuteOffchainConfig,
			func(r *vRand, c *pluginconfig.ExecuteOffchainConfig) {
				// the decoder rejects observers other than a fully configured USDC one (embedded sub-config: not modelled)
				if len(c.TokenDataObservers) > 0 {
					c.TokenDataObservers = []pluginconfig.TokenDataObserverConfig{}
				}
			}),
		vC20Codec1("chainconfig.ChainConfig", chainconfig.EncodeChainConfig, chainconfig.DecodeChainConfig, nil),
	}
	if vEnvInt("VERIF_C20_NAMES", 0) == 1 {
		vC20PrintNames(codecs)
	}
	weights := []int{5, 5, 1, 2, 2, 2, 2}
	tot := 0
	for _, w := range weights {
		tot += w
	}
	for i, c := range codecs {
		k := n * weights[i] / tot
		if k < 4 {
			k = 4
		}
		vC20RunCodec(r, sink, "C20_struct_commit", c, k)
	}
	for k := range vC20Skipped {
		t.Logf("C20 harness: left out %s", k)
	}
}

// canonical order of commit Outcome.Encode: the same items in two arrangements
func TestVerif_C20_commit_sort(t *testing.T) {
	r := vNewRand(vSeed() + 77)
	n := vEnvInt("VERIF_N", 150)
	sink := vOpenSink("C20_sort_commit")
	defer sink.Close()
	for i := 0; i < n; i++ {
		cls := vPick(r, []string{"unique", "unique", "unique", "dupkey", "sorted", "single", "empty"})
		mk := func() []uint64 {
			k := r.Range(2, 6)
			switch cls {
			case "single":
				k = 1
			case "empty":
				k = 0
			}
			ks := make([]uint64, k)
			used := map[uint64]bool{}
			for x := range ks {
				for {
					c := vPick(r, []uint64{0, 1, 2, 3, 5, 8, 1<<64 - 1, 1 << 63, r.U64()})
					if !used[c] {
						used[c] = true
						ks[x] = c
						break
					}
				}
			}
			if cls == "dupkey" && k >= 2 {
				ks[r.Intn(k)] = ks[r.Intn(k)]
			}
			if cls == "sorted" {
				vSortU64(ks)
			}
			return ks
		}
		ra, ro, of := mk(), mk(), mk()
		// the canonical sort of Encode must not depend on the outcome type: a ReportEmpty / ReportTransmitted /
		// ReportTransmissionFailed outcome still carries OffRampNextSeqNums (seeded change C20-12 skipped the sort there)
		ot := vPick(r, []merkleroot.OutcomeType{merkleroot.ReportIntervalsSelected, merkleroot.ReportGenerated, merkleroot.ReportEmpty,
			merkleroot.ReportInFlight, merkleroot.ReportTransmitted, merkleroot.ReportTransmissionFailed, 0})
		build := func(pr, po, pf []int) (Outcome, string) {
			var o Outcome
			o.MerkleRootOutcome.OutcomeType = ot
			var sa, sb, sc []string
			for _, x := range pr {
				o.MerkleRootOutcome.RangesSelectedForReport = append(o.MerkleRootOutcome.RangesSelectedForReport,
					vC20ChainRange(ra[x], uint64(x+1)))
				sa = append(sa, cPair(cN(ra[x]), cNi(x+1)))
			}
			for _, x := range po {
				var root cciptypes.Bytes32
				root[31] = byte(x + 1)
				o.MerkleRootOutcome.RootsToReport = append(o.MerkleRootOutcome.RootsToReport,
					cciptypes.MerkleRootChain{ChainSel: cciptypes.ChainSelector(ro[x]), MerkleRoot: root})
				sb = append(sb, cPair(cN(ro[x]), cNi(x+1)))
			}
			for _, x := range pf {
				o.MerkleRootOutcome.OffRampNextSeqNums = append(o.MerkleRootOutcome.OffRampNextSeqNums,
					vC20SeqNumChain(of[x], uint64(x+1)))
				sc = append(sc, cPair(cN(of[x]), cNi(x+1)))
			}
			return o, cApp("MrLists", cList(sa), cList(sb), cList(sc))
		}
		id := func(k int) []int {
			p := make([]int, k)
			for x := range p {
				p[x] = x
			}
			return p
		}
		o1, in1 := build(id(len(ra)), id(len(ro)), id(len(of)))
		o2, in2 := build(r.Perm(len(ra)), r.Perm(len(ro)), r.Perm(len(of)))
		read := func(o Outcome) ([]byte, string) {
			b, err := o.Encode()
			if err != nil {
				panic(err)
			}
			d, err := decodeOutcome(b)
			if err != nil {
				panic(err)
			}
			var sa, sb, sc []string
			for _, x := range d.MerkleRootOutcome.RangesSelectedForReport {
				sa = append(sa, cPair(cN(uint64(x.ChainSel)), cN(uint64(x.SeqNumRange.Start()))))
			}
			for _, x := range d.MerkleRootOutcome.RootsToReport {
				sb = append(sb, cPair(cN(uint64(x.ChainSel)), cN(uint64(x.MerkleRoot[31]))))
			}
			for _, x := range d.MerkleRootOutcome.OffRampNextSeqNums {
				sc = append(sc, cPair(cN(uint64(x.ChainSel)), cN(uint64(x.SeqNum))))
			}
			return b, cApp("MrLists", cList(sa), cList(sb), cList(sc))
		}
		b1, out1 := read(o1)
		b2, out2 := read(o2)
		sink.Emit("C20_sort_commit", cls, len(ra)+len(ro)+len(of) >= 4,
			cPair(cApp("SCommit", in1, in2), cApp("SOCommit", out1, out2, cBool(bytes.Equal(b1, b2)))),
			map[string]any{"a": string(b1), "b": string(b2)})
	}
}

//go:build verif

package commit

import (
	"context"
	"encoding/json"
	"fmt"
	"math/big"
	"strings"
	"testing"
	"time"

	commonconfig "github.com/smartcontractkit/chainlink-common/pkg/config"
	ctypes "github.com/smartcontractkit/chainlink-common/pkg/types"
	"github.com/smartcontractkit/libocr/commontypes"
	"github.com/smartcontractkit/libocr/offchainreporting2plus/ocr3types"
	"github.com/smartcontractkit/libocr/offchainreporting2plus/types"
	libocrtypes "github.com/smartcontractkit/libocr/ragep2p/types"

	"github.com/smartcontractkit/chainlink-ccip/commit/chainfee"
	"github.com/smartcontractkit/chainlink-ccip/commit/merkleroot"
	"github.com/smartcontractkit/chainlink-ccip/commit/merkleroot/rmn"
	"github.com/smartcontractkit/chainlink-ccip/commit/merkleroot/rmn/rmnpb"
	rmntypes "github.com/smartcontractkit/chainlink-ccip/commit/merkleroot/rmn/types"
	"github.com/smartcontractkit/chainlink-ccip/internal/mocks"
	"github.com/smartcontractkit/chainlink-ccip/internal/plugintypes"
	"github.com/smartcontractkit/chainlink-ccip/pkg/consts"
	readerpkg "github.com/smartcontractkit/chainlink-ccip/pkg/reader"
	cciptypes "github.com/smartcontractkit/chainlink-ccip/pkg/types/ccipocr3"
	"github.com/smartcontractkit/chainlink-ccip/pluginconfig"
)

const (
	vC13Dest = cciptypes.ChainSelector(900)
	vC13Feed = cciptypes.ChainSelector(800)
	vC13N    = 4
)

var vC13Sources = []cciptypes.ChainSelector{5, 7}
var vC13Tokens = []cciptypes.UnknownEncodedAddress{"0x000000000000000000000000000000000000000a", "0x000000000000000000000000000000000000000b"}

type vC13Prices struct{}

func (vC13Prices) GetFeedPricesUSD(ctx context.Context, tokens []cciptypes.UnknownEncodedAddress) ([]*big.Int, error) {
	out := make([]*big.Int, len(tokens))
	for i := range out {
		out[i] = big.NewInt(1e9)
	}
	return out, nil
}
func (vC13Prices) GetFeeQuoterTokenUpdates(ctx context.Context, tokens []cciptypes.UnknownEncodedAddress, chain cciptypes.ChainSelector) (map[cciptypes.UnknownEncodedAddress]plugintypes.TimestampedBig, error) {
	m := map[cciptypes.UnknownEncodedAddress]plugintypes.TimestampedBig{}
	for _, t := range tokens {
		m[t] = plugintypes.TimestampedBig{Timestamp: time.Unix(1700000000, 0).UTC(), Value: cciptypes.NewBigIntFromInt64(1e9)}
	}
	return m, nil
}

func vC13FChain() map[cciptypes.ChainSelector]int {
	return map[cciptypes.ChainSelector]int{vC13Dest: 1, vC13Feed: 1, 5: 1, 7: 1}
}

func vC13Plugin(me int) *Plugin {
	hc := vNewHomeChain()
	m := map[commontypes.OracleID]libocrtypes.PeerID{}
	var peers []libocrtypes.PeerID
	for i := 0; i < vC13N; i++ {
		m[commontypes.OracleID(i)] = vPeer(i)
		peers = append(peers, vPeer(i))
	}
	for ch, f := range vC13FChain() {
		hc.SetChain(ch, f, peers)
	}
	cfg := pluginconfig.CommitOffchainConfig{
		RemoteGasPriceBatchWriteFrequency:  *commonconfig.MustNewDuration(time.Minute),
		TokenPriceBatchWriteFrequency:      *commonconfig.MustNewDuration(time.Minute),
		PriceFeedChainSelector:             vC13Feed,
		MaxReportTransmissionCheckAttempts: 3,
		MaxMerkleTreeSize:                  4,
		NewMsgScanBatchSize:                256,
		TokenInfo:                          map[cciptypes.UnknownEncodedAddress]pluginconfig.TokenInfo{},
		FeeInfo:                            map[cciptypes.ChainSelector]pluginconfig.FeeInfo{},
	}
	for _, tok := range vC13Tokens {
		cfg.TokenInfo[tok] = pluginconfig.TokenInfo{AggregatorAddress: tok, DeviationPPB: cciptypes.NewBigIntFromInt64(1e7), Decimals: 18}
	}
	for _, ch := range vC13Sources {
		cfg.FeeInfo[ch] = pluginconfig.FeeInfo{ExecDeviationPPB: cciptypes.NewBigIntFromInt64(1e8), DataAvailabilityDeviationPPB: cciptypes.NewBigIntFromInt64(1e8)}
	}
	rd := &vCCIPReader{
		NextSeqNumFn: func(ch []cciptypes.ChainSelector) ([]cciptypes.SeqNum, error) {
			out := make([]cciptypes.SeqNum, len(ch))
			for i := range out {
				out[i] = 10
			}
			return out, nil
		},
		MsgsFn: func(chain cciptypes.ChainSelector, r cciptypes.SeqNumRange) ([]cciptypes.Message, error) {
			var out []cciptypes.Message
			if r.End() < r.Start() || r.End()-r.Start() > 1000 {
				return nil, nil
			}
			for s := r.Start(); s <= r.End(); s++ {
				out = append(out, cciptypes.Message{Header: cciptypes.RampMessageHeader{MessageID: cciptypes.Bytes32{byte(s), byte(chain)}, SourceChainSelector: chain, SequenceNumber: s}})
			}
			return out, nil
		},
		ExpectedNextFn: func(s, d cciptypes.ChainSelector) (cciptypes.SeqNum, error) { return 13, nil },
		FeeCompFn: func(chains []cciptypes.ChainSelector) map[cciptypes.ChainSelector]ctypes.ChainFeeComponents {
			m := map[cciptypes.ChainSelector]ctypes.ChainFeeComponents{}
			for _, c := range chains {
				m[c] = ctypes.ChainFeeComponents{ExecutionFee: big.NewInt(1000), DataAvailabilityFee: big.NewInt(10)}
			}
			return m
		},
		NativePriceFn: func(sel []cciptypes.ChainSelector) map[cciptypes.ChainSelector]cciptypes.BigInt {
			m := map[cciptypes.ChainSelector]cciptypes.BigInt{}
			for _, c := range sel {
				m[c] = cciptypes.NewBigIntFromInt64(2e18)
			}
			return m
		},
	}
	p := NewPlugin(1, m, cfg, vC13Dest, rd, vC13Prices{}, mocks.NewCommitPluginJSONReportCodec(),
		mocks.NewMessageHasher(), mocks.NullLogger, hc, nil, nil, nil,
		ocr3types.ReportingPluginConfig{F: 1, N: vC13N, OracleID: commontypes.OracleID(me), MaxDurationQuery: time.Second})
	switch vC13Disc {
	case 0:
		p.discoveryProcessor = nil
	case 1: // discovery enabled, contracts already initialised
		p.contractsInitialized.Store(true)
	}
	// case 2: discovery enabled, fresh instance (discovery-only observations until the first Outcome)
	return p
}

// vC13Disc selects the discovery configuration of the plugins built by vC13Plugin (see the cases above)
var vC13Disc = 0

type vC13Scenario struct {
	name string
	prev Outcome
	q    Query
	obs  []Observation
}

func vC13Scenarios() []vC13Scenario {
	base := time.Date(2024, 11, 5, 12, 0, 0, 0, time.UTC)
	mk := func(state string) vC13Scenario {
		sc := vC13Scenario{name: state}
		switch state {
		case "build", "build-bundle":
			mo := merkleroot.Outcome{OutcomeType: merkleroot.ReportIntervalsSelected}
			for _, ch := range vC13Sources {
				mo.RangesSelectedForReport = append(mo.RangesSelectedForReport, plugintypes.ChainRange{ChainSel: ch, SeqNumRange: cciptypes.NewSeqNumRange(10, 12)})
				mo.OffRampNextSeqNums = append(mo.OffRampNextSeqNums, plugintypes.SeqNumChain{ChainSel: ch, SeqNum: 10})
			}
			mo.RMNRemoteCfg = rmntypes.RemoteConfig{ContractAddress: []byte{1}, ConfigDigest: cciptypes.Bytes32{1}, F: 1,
				Signers: []rmntypes.RemoteSignerInfo{{OnchainPublicKey: []byte{1}, NodeIndex: 0}, {OnchainPublicKey: []byte{2}, NodeIndex: 1}}, RmnReportVersion: cciptypes.Bytes32{3}}
			sc.prev.MerkleRootOutcome = mo
			if state == "build-bundle" {
				// a leader-supplied RMN bundle while RMN is disabled: it is not verified in Observation and reaches Outcome
				bundle := &rmn.ReportSignatures{}
				for k := 0; k < 2; k++ {
					bundle.Signatures = append(bundle.Signatures, &rmnpb.EcdsaSignature{R: make([]byte, 32), S: make([]byte, 32)})
				}
				for _, ch := range vC13Sources {
					bundle.LaneUpdates = append(bundle.LaneUpdates, &rmnpb.FixedDestLaneUpdate{
						LaneSource:     &rmnpb.LaneSource{SourceChainSelector: uint64(ch), OnrampAddress: []byte{byte(ch), 0xAA}},
						ClosedInterval: &rmnpb.ClosedInterval{MinMsgNr: 10, MaxMsgNr: 12},
						Root:           append([]byte{1, byte(ch)}, make([]byte, 30)...)})
				}
				sc.q.MerkleRootQuery.RMNSignatures = bundle
			}
		case "wait":
			mo := merkleroot.Outcome{OutcomeType: merkleroot.ReportGenerated, ReportTransmissionCheckAttempts: 1}
			for _, ch := range vC13Sources {
				mo.OffRampNextSeqNums = append(mo.OffRampNextSeqNums, plugintypes.SeqNumChain{ChainSel: ch, SeqNum: 10})
			}
			sc.prev.MerkleRootOutcome = mo
		}
		sc.prev.TokenPriceOutcome.TokenPrices = []cciptypes.TokenPrice{{TokenID: vC13Tokens[0], Price: cciptypes.NewBigIntFromInt64(5)}}
		sc.prev.ChainFeeOutcome.GasPrices = []cciptypes.GasPriceChain{{ChainSel: 5, GasPrice: cciptypes.NewBigIntFromInt64(5)}}
		for o := 0; o < vC13N; o++ {
			var ob Observation
			ob.FChain = vC13FChain()
			ob.MerkleRootObs.FChain = vC13FChain()
			ob.TokenPriceObs.FChain = vC13FChain()
			ob.ChainFeeObs.FChain = vC13FChain()
			ob.TokenPriceObs.Timestamp = base
			ob.ChainFeeObs.TimestampNow = base
			ob.TokenPriceObs.FeeQuoterTokenUpdates = map[cciptypes.UnknownEncodedAddress]plugintypes.TimestampedBig{}
			ob.ChainFeeObs.FeeComponents = map[cciptypes.ChainSelector]ctypes.ChainFeeComponents{}
			ob.ChainFeeObs.NativeTokenPrices = map[cciptypes.ChainSelector]cciptypes.BigInt{}
			ob.ChainFeeObs.ChainFeeUpdates = map[cciptypes.ChainSelector]chainfee.Update{}
			for _, ch := range vC13Sources {
				ob.MerkleRootObs.OnRampMaxSeqNums = append(ob.MerkleRootObs.OnRampMaxSeqNums, plugintypes.SeqNumChain{ChainSel: ch, SeqNum: 20})
				ob.MerkleRootObs.OffRampNextSeqNums = append(ob.MerkleRootObs.OffRampNextSeqNums, plugintypes.SeqNumChain{ChainSel: ch, SeqNum: 10})
				if strings.HasPrefix(state, "build") {
					ob.MerkleRootObs.MerkleRoots = append(ob.MerkleRootObs.MerkleRoots, cciptypes.MerkleRootChain{ChainSel: ch, OnRampAddress: []byte{byte(ch), 0xAA},
						SeqNumsRange: cciptypes.NewSeqNumRange(10, 12), MerkleRoot: cciptypes.Bytes32{1, byte(ch)}})
				}
				ob.ChainFeeObs.FeeComponents[ch] = ctypes.ChainFeeComponents{ExecutionFee: big.NewInt(1000), DataAvailabilityFee: big.NewInt(10)}
				ob.ChainFeeObs.NativeTokenPrices[ch] = cciptypes.NewBigIntFromInt64(2e18)
				ob.ChainFeeObs.ChainFeeUpdates[ch] = chainfee.Update{ChainFee: chainfee.ComponentsUSDPrices{ExecutionFeePriceUSD: big.NewInt(2000), DataAvFeePriceUSD: big.NewInt(20)}, Timestamp: base.Add(-2 * time.Minute)}
			}
			for _, tok := range vC13Tokens {
				ob.TokenPriceObs.FeedTokenPrices = append(ob.TokenPriceObs.FeedTokenPrices, cciptypes.TokenPrice{TokenID: tok, Price: cciptypes.NewBigIntFromInt64(1e9)})
				ob.TokenPriceObs.FeeQuoterTokenUpdates[tok] = plugintypes.TimestampedBig{Timestamp: base.Add(-2 * time.Minute), Value: cciptypes.NewBigIntFromInt64(9e8)}
			}
			ob.MerkleRootObs.RMNRemoteConfig = sc.prev.MerkleRootOutcome.RMNRemoteCfg
			ob.DiscoveryObs.FChain = vC13FChain()
			ob.DiscoveryObs.Addresses = readerpkg.ContractAddresses{
				consts.ContractNameOnRamp:       map[cciptypes.ChainSelector]cciptypes.UnknownAddress{},
				consts.ContractNameNonceManager: map[cciptypes.ChainSelector]cciptypes.UnknownAddress{vC13Dest: {0xD1}},
				consts.ContractNameRMNRemote:    map[cciptypes.ChainSelector]cciptypes.UnknownAddress{vC13Dest: {0xD2}},
				consts.ContractNameFeeQuoter:    map[cciptypes.ChainSelector]cciptypes.UnknownAddress{vC13Dest: {0xD3}},
				consts.ContractNameRouter:       map[cciptypes.ChainSelector]cciptypes.UnknownAddress{},
			}
			for _, ch := range vC13Sources {
				ob.DiscoveryObs.Addresses[consts.ContractNameOnRamp][ch] = cciptypes.UnknownAddress{byte(ch), 0xAA}
				ob.DiscoveryObs.Addresses[consts.ContractNameFeeQuoter][ch] = cciptypes.UnknownAddress{byte(ch), 0xFE}
				ob.DiscoveryObs.Addresses[consts.ContractNameRouter][ch] = cciptypes.UnknownAddress{byte(ch), 0xB0}
			}
			sc.obs = append(sc.obs, ob)
		}
		return sc
	}
	return []vC13Scenario{mk("select"), mk("build"), mk("build-bundle"), mk("wait")}
}

func vC13Enc(v any) []byte {
	b, err := json.Marshal(v)
	if err != nil {
		panic(err)
	}
	return b
}

// one sweep case: which document was mutated where and how, which callback answered with which code
func TestVerif_C13_commit(t *testing.T) {
	ctx := context.Background()
	r := vNewRand(vSeed() + 1313)
	maxCases := 10000000
	pairsWanted := vEnvInt("VERIF_N", 300) // random double-site mutations on top of the exhaustive single-site sweep
	sink := vOpenSink("C13_commit")
	defer sink.Close()
	emitted := 0
	hangs := 0
	// class ids for the Coq side: doc 0 observation, 1 query, 2 previous outcome, 3 outcome(for Reports), 4 report, 5 report info, 6 raw bytes
	run := func(scn string, doc int, path, kind string, cb int, cbName string, f func()) {
		if emitted >= maxCases || hangs > 8 {
			return
		}
		code, what := vGuard(3*time.Second, f)
		if code == 3 {
			hangs++
		}
		sink.Emit("C13_commit", fmt.Sprintf("doc%d/%s", doc, kind), true,
			cPair(cTup(cN(0), cNi(doc), cNi(cb), cN(vHash48(scn+"|"+path+"|"+kind+"|"+cbName))), cNi(code)),
			map[string]any{"scenario": scn, "doc": doc, "path": path, "mutation": kind, "callback": cbName, "code": code, "panic": what})
		emitted++
	}
	defer func() { vC13Disc = 0 }()
	for _, disc := range []int{0, 1, 2} {
	vC13Disc = disc
	for _, sc := range vC13Scenarios() {
		if disc > 0 {
			sc.name = fmt.Sprintf("disc%d/%s", disc, sc.name)
		}
		prevB, _ := sc.prev.Encode()
		qB, _ := sc.q.Encode()
		obsB := make([][]byte, vC13N)
		for o := range obsB {
			obsB[o], _ = sc.obs[o].Encode()
		}
		mkAos := func(first []byte) []types.AttributedObservation {
			aos := []types.AttributedObservation{{Observation: first, Observer: 0}}
			for o := 1; o < vC13N; o++ {
				aos = append(aos, types.AttributedObservation{Observation: obsB[o], Observer: commontypes.OracleID(o)})
			}
			return aos
		}
		octx := ocr3types.OutcomeContext{SeqNr: 5, PreviousOutcome: prevB}
		// honest baseline (also produces the outcome / report documents that are mutated below)
		var honestOutcome ocr3types.Outcome
		run(sc.name, 0, "$", "none", 2, "Outcome", func() {
			out, err := vC13Plugin(1).Outcome(ctx, octx, qB, mkAos(obsB[0]))
			if err == nil {
				honestOutcome = out
			}
		})
		run(sc.name, 0, "$", "none", 0, "Observation", func() { _, _ = vC13Plugin(1).Observation(ctx, octx, qB) })
		var honestReports []ocr3types.ReportPlus[[]byte]
		run(sc.name, 3, "$", "none", 3, "Reports", func() { honestReports, _ = vC13Plugin(1).Reports(ctx, 5, honestOutcome) })

		sweep := func(doc int, orig []byte, apply func(path, kind string, mutated []byte)) {
			tree, err := vDecodeJSON(orig)
			if err != nil {
				return
			}
			var paths [][]vPathElem
			vPaths(tree, nil, &paths)
			for _, p := range paths {
				for _, kind := range vMutKinds {
					mv, ok := vMutate(tree, p, kind)
					if !ok {
						continue
					}
					apply(vPathString(p), kind, vC13Enc(mv))
				}
			}
		}
		// ---- doc 0: observation of oracle 0
		sweep(0, obsB[0], func(path, kind string, mb []byte) {
			valid := false
			run(sc.name, 0, path, kind, 1, "ValidateObservation", func() {
				valid = vC13Plugin(1).ValidateObservation(ctx, octx, qB, types.AttributedObservation{Observation: mb, Observer: 0}) == nil
			})
			if valid { // "observation sets in which every observation individually passed validation"
				var out ocr3types.Outcome
				run(sc.name, 0, path, kind, 2, "Outcome", func() { out, _ = vC13Plugin(2).Outcome(ctx, octx, qB, mkAos(mb)) })
				if out != nil {
					run(sc.name, 0, path, kind, 3, "Reports", func() { _, _ = vC13Plugin(3).Reports(ctx, 5, out) })
				}
			}
		})
		// ---- random double-site mutations of oracle 0's observation
		if tree, err := vDecodeJSON(obsB[0]); err == nil {
			var paths [][]vPathElem
			vPaths(tree, nil, &paths)
			for k := 0; k < pairsWanted/4 && len(paths) > 1; k++ {
				p1, p2 := paths[r.Intn(len(paths))], paths[r.Intn(len(paths))]
				k1, k2 := vPick(r, vMutKinds), vPick(r, vMutKinds)
				m1, ok := vMutate(tree, p1, k1)
				if !ok {
					continue
				}
				m2, ok := vMutate(m1, p2, k2)
				if !ok {
					continue
				}
				mb := vC13Enc(m2)
				path, kind := vPathString(p1)+" & "+vPathString(p2), k1+"+"+k2
				valid := false
				run(sc.name, 0, path, kind, 1, "ValidateObservation", func() {
					valid = vC13Plugin(1).ValidateObservation(ctx, octx, qB, types.AttributedObservation{Observation: mb, Observer: 0}) == nil
				})
				if valid {
					run(sc.name, 0, path, kind, 2, "Outcome", func() { _, _ = vC13Plugin(2).Outcome(ctx, octx, qB, mkAos(mb)) })
				}
			}
		}
		// ---- doc 1: query
		sweep(1, qB, func(path, kind string, mb []byte) {
			run(sc.name, 1, path, kind, 0, "Observation", func() { _, _ = vC13Plugin(1).Observation(ctx, octx, mb) })
			run(sc.name, 1, path, kind, 1, "ValidateObservation", func() {
				_ = vC13Plugin(1).ValidateObservation(ctx, octx, mb, types.AttributedObservation{Observation: obsB[0], Observer: 0})
			})
			run(sc.name, 1, path, kind, 2, "Outcome", func() { _, _ = vC13Plugin(2).Outcome(ctx, octx, mb, mkAos(obsB[0])) })
		})
		// ---- doc 2: previous outcome
		sweep(2, prevB, func(path, kind string, mb []byte) {
			oc := ocr3types.OutcomeContext{SeqNr: 5, PreviousOutcome: mb}
			run(sc.name, 2, path, kind, 0, "Observation", func() { _, _ = vC13Plugin(1).Observation(ctx, oc, qB) })
			run(sc.name, 2, path, kind, 1, "ValidateObservation", func() {
				_ = vC13Plugin(1).ValidateObservation(ctx, oc, qB, types.AttributedObservation{Observation: obsB[0], Observer: 0})
			})
			run(sc.name, 2, path, kind, 2, "Outcome", func() { _, _ = vC13Plugin(2).Outcome(ctx, oc, qB, mkAos(obsB[0])) })
			run(sc.name, 2, path, kind, 4, "Query", func() { _, _ = vC13Plugin(2).Query(ctx, oc) })
		})
		// ---- doc 3: outcome fed to Reports
		if honestOutcome != nil {
			sweep(3, honestOutcome, func(path, kind string, mb []byte) {
				run(sc.name, 3, path, kind, 3, "Reports", func() { _, _ = vC13Plugin(3).Reports(ctx, 5, mb) })
			})
		}
		// ---- doc 4 / 5: report and report info
		for _, rp := range honestReports {
			sweep(4, rp.ReportWithInfo.Report, func(path, kind string, mb []byte) {
				ri := ocr3types.ReportWithInfo[[]byte]{Report: mb, Info: rp.ReportWithInfo.Info}
				run(sc.name, 4, path, kind, 5, "ShouldAccept", func() { _, _ = vC13Plugin(1).ShouldAcceptAttestedReport(ctx, 5, ri) })
				run(sc.name, 4, path, kind, 6, "ShouldTransmit", func() { _, _ = vC13Plugin(1).ShouldTransmitAcceptedReport(ctx, 5, ri) })
			})
			sweep(5, rp.ReportWithInfo.Info, func(path, kind string, mb []byte) {
				ri := ocr3types.ReportWithInfo[[]byte]{Report: rp.ReportWithInfo.Report, Info: mb}
				run(sc.name, 5, path, kind, 5, "ShouldAccept", func() { _, _ = vC13Plugin(1).ShouldAcceptAttestedReport(ctx, 5, ri) })
			})
		}
		// ---- doc 6: raw byte strings at every entry point
		for k := 0; k < 40; k++ {
			var raw []byte
			src := [][]byte{obsB[0], qB, prevB}[k%3]
			switch k % 4 {
			case 0:
				raw = src[:r.Intn(len(src)+1)] // truncated
			case 1:
				raw = make([]byte, r.Intn(40))
				for i := range raw {
					raw[i] = byte(r.U64())
				}
			case 2:
				raw = append([]byte{}, src...)
				if len(raw) > 0 {
					raw[r.Intn(len(raw))] = byte(r.U64())
				}
			default:
				raw = []byte(vPick(r, []string{"", "null", "[]", "{}", "0", "\"x\"", "{\"merkleObs\":null}", "{\"merkleRootOutcome\":{\"outcomeType\":-7}}"}))
			}
			oc := ocr3types.OutcomeContext{SeqNr: 5, PreviousOutcome: raw}
			tag := fmt.Sprintf("raw%d", k)
			rawValid := false
			run(sc.name, 6, tag, "raw", 1, "ValidateObservation", func() {
				rawValid = vC13Plugin(1).ValidateObservation(ctx, octx, qB, types.AttributedObservation{Observation: raw, Observer: 0}) == nil
			})
			// raw bytes as previous outcome, as query, and (only if they pass validation) as an observation
			run(sc.name, 6, tag, "raw-prev", 2, "Outcome", func() { _, _ = vC13Plugin(2).Outcome(ctx, oc, qB, mkAos(obsB[0])) })
			run(sc.name, 6, tag, "raw-query", 2, "Outcome", func() { _, _ = vC13Plugin(2).Outcome(ctx, octx, raw, mkAos(obsB[0])) })
			if rawValid {
				run(sc.name, 6, tag, "raw-obs", 2, "Outcome", func() { _, _ = vC13Plugin(2).Outcome(ctx, octx, qB, mkAos(raw)) })
			}
			run(sc.name, 6, tag, "raw", 0, "Observation", func() { _, _ = vC13Plugin(2).Observation(ctx, oc, raw) })
			run(sc.name, 6, tag, "raw", 3, "Reports", func() { _, _ = vC13Plugin(2).Reports(ctx, 5, raw) })
			ri := ocr3types.ReportWithInfo[[]byte]{Report: raw, Info: raw}
			run(sc.name, 6, tag, "raw", 5, "ShouldAccept", func() { _, _ = vC13Plugin(1).ShouldAcceptAttestedReport(ctx, 5, ri) })
			run(sc.name, 6, tag, "raw", 6, "ShouldTransmit", func() { _, _ = vC13Plugin(1).ShouldTransmitAcceptedReport(ctx, 5, ri) })
		}
	}
	}
}

//go:build verif

package commit

import (
	"context"
	"fmt"
	"sort"
	"testing"
	"time"

	commonconfig "github.com/smartcontractkit/chainlink-common/pkg/config"
	"github.com/smartcontractkit/chainlink-common/pkg/hashutil"
	"github.com/smartcontractkit/chainlink-common/pkg/merklemulti"
	"github.com/smartcontractkit/libocr/commontypes"
	"github.com/smartcontractkit/libocr/offchainreporting2plus/ocr3types"
	"github.com/smartcontractkit/libocr/offchainreporting2plus/types"
	libocrtypes "github.com/smartcontractkit/libocr/ragep2p/types"

	"github.com/smartcontractkit/chainlink-ccip/internal/mocks"
	"github.com/smartcontractkit/chainlink-ccip/internal/plugintypes"
	"github.com/smartcontractkit/chainlink-ccip/internal/reader"
	readerpkg "github.com/smartcontractkit/chainlink-ccip/pkg/reader"
	cciptypes "github.com/smartcontractkit/chainlink-ccip/pkg/types/ccipocr3"
	"github.com/smartcontractkit/chainlink-ccip/pluginconfig"
)

const vC04Dest = cciptypes.ChainSelector(900)

var vC04Sources = []cciptypes.ChainSelector{5, 7}

// the DON of one history: size, F of the role DON, per-chain f and designated reader sets (home-chain config), the
// Byzantine oracles, and the honest destination readers 0,1,2 that compute the outcome and take transmission turns.
//   n4  : 4 oracles, F = 1, f = 1 everywhere (f_dest = 2 in class fdest2), destination read by all, a source possibly not by one
//   n7  : 7 oracles, F = 2, f_dest = 1 read by 0..3 only, sources with f in {1,2} read by 3f+1 .. 7 oracles
//   n10 : 10 oracles, F = 3, f_dest = 1 read by 0..3 only, sources with f in {2,3} read by 3f+1 .. 10 oracles
// Byzantine oracles: at most F in all, at most f_dest among the destination readers, at most f_src among the readers of
// each source (a colluder too many is left out of that source's reader set).
type vC04Shape struct {
	n, F    int
	f       map[cciptypes.ChainSelector]int
	readers map[cciptypes.ChainSelector][]int
	byz     []int
	rounds  int
}

func (s *vC04Shape) reads(ch cciptypes.ChainSelector, id int) bool {
	for _, o := range s.readers[ch] {
		if o == id {
			return true
		}
	}
	return false
}
func (s *vC04Shape) isByz(id int) bool {
	for _, o := range s.byz {
		if o == id {
			return true
		}
	}
	return false
}
func (s *vC04Shape) peers(ch cciptypes.ChainSelector) []libocrtypes.PeerID {
	var out []libocrtypes.PeerID
	for _, o := range s.readers[ch] {
		out = append(out, vPeer(o))
	}
	return out
}

// big DON (n in {7, 10}): f_dest = 1 < f_src for at least one source
func vC04BigShape(r *vRand, n, rounds int) (*vC04Shape, string) {
	F := (n - 1) / 3
	sh := &vC04Shape{n: n, F: F, f: map[cciptypes.ChainSelector]int{vC04Dest: 1}, readers: map[cciptypes.ChainSelector][]int{vC04Dest: {0, 1, 2, 3}}, rounds: rounds}
	cls := fmt.Sprintf("n%d", n)
	// Byzantine oracles: usually F of them, the highest ids; sometimes one of them is the destination reader 3
	nb := vPick(r, []int{F, F, F, F - 1, 0})
	for k := 0; k < nb; k++ {
		sh.byz = append(sh.byz, n-1-k)
	}
	if nb > 0 && r.Chance(1, 2) {
		sh.byz[nb-1] = 3
	}
	cls += fmt.Sprintf("-byz%d", nb)
	for i, ch := range vC04Sources {
		f := F - r.Intn(2) // F or F-1
		if i == 0 && n == 7 {
			f = 2
		}
		if i == 0 && n == 10 {
			f = vPick(r, []int{3, 3, 2})
		}
		sh.f[ch] = f
		// readers: everybody, or 3f+1 .. n-1 of them; Byzantine readers of this source limited to f
		drop := map[int]bool{}
		nbz := 0
		for _, b := range sh.byz {
			if nbz < f {
				nbz++
			} else {
				drop[b] = true
			}
		}
		want := n
		if 3*f+1 < n && r.Bool() {
			want = r.Range(3*f+1, n-1)
		}
		perm := r.Perm(n)
		for _, o := range perm {
			if n-len(drop) <= want {
				break
			}
			if !drop[o] && !sh.isByz(o) {
				drop[o] = true
			}
		}
		for o := 0; o < n; o++ {
			if !drop[o] {
				sh.readers[ch] = append(sh.readers[ch], o)
			}
		}
		cls += fmt.Sprintf("-f%d:%d/%d", ch, f, len(sh.readers[ch]))
	}
	return sh, cls
}

// the ground truth the oracles read from
type vC04World struct {
	logLen   map[cciptypes.ChainSelector]uint64 // messages 1..logLen exist on the source chain
	finalLen map[cciptypes.ChainSelector]uint64 // ... of which 1..finalLen are finalized
	cursor   map[cciptypes.ChainSelector]uint64 // off-ramp: next expected sequence number
	landed   [][]vC04Root                       // every report that reached the off-ramp, in order (accepted or not)
	commits  map[cciptypes.ChainSelector][][2]uint64
}

type vC04Root struct {
	ch   cciptypes.ChainSelector
	s, e uint64
	root cciptypes.Bytes32
}

func vC04MsgID(ch cciptypes.ChainSelector, seq uint64) cciptypes.Bytes32 {
	return cciptypes.Bytes32{byte(ch), byte(seq >> 8), byte(seq), 0xC4}
}

func (w *vC04World) trueRoot(ch cciptypes.ChainSelector, s, e uint64) (cciptypes.Bytes32, bool) {
	if s < 1 || e < s || e > w.logLen[ch] || e-s > 1000 {
		return cciptypes.Bytes32{}, false
	}
	var leaves [][32]byte
	for q := s; q <= e; q++ {
		leaves = append(leaves, vC04MsgID(ch, q))
	}
	tr, err := merklemulti.NewTree(hashutil.NewKeccak(), leaves)
	if err != nil {
		return cciptypes.Bytes32{}, false
	}
	return tr.Root(), true
}

// OffRamp.commit: every root must start at the stored cursor and have min <= max, else the whole report reverts
func (w *vC04World) land(roots []vC04Root) bool {
	w.landed = append(w.landed, roots)
	cur := map[cciptypes.ChainSelector]uint64{}
	for k, v := range w.cursor {
		cur[k] = v
	}
	for _, r := range roots {
		if r.s != cur[r.ch] || r.s > r.e {
			return false
		}
		cur[r.ch] = r.e + 1
	}
	w.cursor = cur
	for _, r := range roots {
		w.commits[r.ch] = append(w.commits[r.ch], [2]uint64{r.s, r.e})
	}
	return true
}

type vC04Oracle struct {
	id     int
	p      *Plugin
	lag    uint64 // how far this oracle's view of finality trails
	failNS bool   // next NextSeqNum call fails
	errKind int   // rotates the kind of the scripted error (plain, deadline, cancelled)
	failMs bool   // next MsgsBetweenSeqNums call fails
	failCh map[cciptypes.ChainSelector]bool // this round every MsgsBetweenSeqNums call for the chain fails (reader storm)
}

// the home-chain config every oracle sees is the shape's: per chain f and designated readers. (In the n4 class
// "fdest2" the destination's f is 2 != f_src = 1: off-ramp next numbers are destination data and need 2*f_dest+1 = 5
// reporters — with four oracles none is ever agreed and nothing is selected; before fixes/F26.patch the source
// chains' 2*1+1 = 3 decided.)
func vC04NewOracle(w *vC04World, id int, maxTree uint64, sh *vC04Shape) *vC04Oracle {
	o := &vC04Oracle{id: id, failCh: map[cciptypes.ChainSelector]bool{}}
	hc := vNewHomeChain()
	m := map[commontypes.OracleID]libocrtypes.PeerID{}
	for i := 0; i < sh.n; i++ {
		m[commontypes.OracleID(i)] = vPeer(i)
	}
	hc.SetChain(vC04Dest, sh.f[vC04Dest], sh.peers(vC04Dest))
	for _, ch := range vC04Sources {
		hc.SetChain(ch, sh.f[ch], sh.peers(ch))
	}
	hc.OCR = reader.ActiveAndCandidate{ActiveConfig: reader.OCR3ConfigWithMeta{ConfigDigest: [32]byte{1}}, CandidateConfig: reader.OCR3ConfigWithMeta{ConfigDigest: [32]byte{2}}}
	rd := &vCCIPReader{
		NextSeqNumFn: func(chains []cciptypes.ChainSelector) ([]cciptypes.SeqNum, error) {
			if !sh.reads(vC04Dest, id) {
				return nil, fmt.Errorf("chain %d: %w", vC04Dest, readerpkg.ErrContractReaderNotFound)
			}
			if o.failNS {
				o.failNS = false
				o.errKind++
				return nil, vErrN(o.errKind)
			}
			out := make([]cciptypes.SeqNum, len(chains))
			for i, c := range chains {
				out[i] = cciptypes.SeqNum(w.cursor[c])
			}
			return out, nil
		},
		ExpectedNextFn: func(src, dst cciptypes.ChainSelector) (cciptypes.SeqNum, error) {
			if !sh.reads(src, id) {
				return 0, fmt.Errorf("chain %d: %w", src, readerpkg.ErrContractReaderNotFound)
			}
			return cciptypes.SeqNum(w.logLen[src] + 1), nil // latest, not necessarily finalized
		},
		MsgsFn: func(chain cciptypes.ChainSelector, r cciptypes.SeqNumRange) ([]cciptypes.Message, error) {
			if !sh.reads(chain, id) {
				return nil, fmt.Errorf("chain %d: %w", chain, readerpkg.ErrContractReaderNotFound)
			}
			if o.failCh[chain] {
				return nil, vErrNext()
			}
			if o.failMs {
				o.failMs = false
				return nil, vErrNext()
			}
			fin := w.finalLen[chain]
			if fin >= o.lag {
				fin -= o.lag
			} else {
				fin = 0
			}
			var out []cciptypes.Message
			for q := uint64(r.Start()); q <= uint64(r.End()) && q <= fin; q++ {
				out = append(out, cciptypes.Message{Header: cciptypes.RampMessageHeader{MessageID: vC04MsgID(chain, q), SourceChainSelector: chain, DestChainSelector: vC04Dest, SequenceNumber: cciptypes.SeqNum(q)}})
			}
			return out, nil
		},
		AddrFn: func(name string, chain cciptypes.ChainSelector) ([]byte, error) { return []byte{byte(chain), 0xAD}, nil },
	}
	cfg := pluginconfig.CommitOffchainConfig{
		RemoteGasPriceBatchWriteFrequency:  *commonconfig.MustNewDuration(time.Minute),
		TokenPriceBatchWriteFrequency:      *commonconfig.MustNewDuration(0),
		PriceFeedChainSelector:             vC04Dest,
		MaxReportTransmissionCheckAttempts: 3,
		MaxMerkleTreeSize:                  maxTree,
		NewMsgScanBatchSize:                256,
	}
	o.p = NewPlugin(1, m, cfg, vC04Dest, rd, nil, mocks.NewCommitPluginJSONReportCodec(), mocks.NewMessageHasher(),
		mocks.NullLogger, hc, nil, nil, nil,
		ocr3types.ReportingPluginConfig{F: sh.F, N: sh.n, OracleID: commontypes.OracleID(id), ConfigDigest: [32]byte{1}, MaxDurationQuery: time.Second})
	o.p.discoveryProcessor = nil
	return o
}

type vC04Pending struct {
	rep     ocr3types.ReportWithInfo[[]byte]
	roots   []vC04Root
	by      int
	readyAt int
}

func vC04RootsCoq(w *vC04World, roots []vC04Root) string {
	return cMap(roots, func(r vC04Root) string {
		tr, ok := w.trueRoot(r.ch, r.s, r.e)
		return cTup(cN(uint64(r.ch)), cPair(cN(r.s), cN(r.e)), cBool(ok && tr == r.root))
	})
}

func vC04CursorCoq(cur map[cciptypes.ChainSelector]uint64) string {
	var ks []cciptypes.ChainSelector
	for k := range cur {
		ks = append(ks, k)
	}
	sort.Slice(ks, func(i, j int) bool { return ks[i] < ks[j] })
	return cMap(ks, func(k cciptypes.ChainSelector) string { return cPair(cN(uint64(k)), cN(cur[k])) })
}

func TestVerif_C04_history(t *testing.T) {
	ctx := context.Background()
	r := vNewRand(vSeed() + 404)
	nHist := vEnvInt("VERIF_N", 30)
	rounds := vEnvInt("VERIF_ROUNDS", 36)
	tsink := vOpenSink("C04_transmit")
	defer tsink.Close()
	fsink := vOpenSink("C04_final")
	defer fsink.Close()
	rsink := vOpenSink("C04_round")
	defer rsink.Close()
	codec := mocks.NewCommitPluginJSONReportCodec()
	for hi := 0; hi < nHist; hi++ {
		w := &vC04World{logLen: map[cciptypes.ChainSelector]uint64{}, finalLen: map[cciptypes.ChainSelector]uint64{},
			cursor: map[cciptypes.ChainSelector]uint64{}, commits: map[cciptypes.ChainSelector][][2]uint64{}}
		initCursor := map[cciptypes.ChainSelector]uint64{}
		for _, ch := range vC04Sources {
			w.cursor[ch] = 1
			initCursor[ch] = 1
			w.logLen[ch] = uint64(r.Intn(6))
			w.finalLen[ch] = w.logLen[ch]
		}
		maxTree := uint64(vPick(r, []int{2, 4, 256}))
		cls := fmt.Sprintf("tree%d", maxTree)
		var sh *vC04Shape
		big := 0
		switch hi % 5 {
		case 3:
			big = 7
		case 4:
			big = 10
		}
		if big == 0 {
			// ---- the four-oracle DON: f = 1 everywhere, oracle 3 may lie, a source chain may lack one reader
			sh = &vC04Shape{n: 4, F: 1, f: map[cciptypes.ChainSelector]int{vC04Dest: 1}, readers: map[cciptypes.ChainSelector][]int{vC04Dest: {0, 1, 2, 3}}, rounds: rounds}
			if r.Bool() { // oracle 3 lies in this history
				sh.byz = []int{3}
				cls += "-byz"
			}
			// role assignment: in two histories out of three some source chain is not read by one oracle
			for _, ch := range vC04Sources {
				noRead := -1
				if r.Chance(1, 2) {
					noRead = r.Intn(4)
				}
				if hi%3 == 0 {
					noRead = -1
				}
				sh.f[ch] = 1
				for o := 0; o < 4; o++ {
					if o != noRead {
						sh.readers[ch] = append(sh.readers[ch], o)
					}
				}
				if noRead >= 0 {
					cls += fmt.Sprintf("-role%d!%d", noRead, ch)
				}
			}
			if hi%8 == 5 {
				sh.f[vC04Dest] = 2
				cls += "-fdest2"
			}
		} else {
			// ---- a role DON with a small destination committee and larger source committees (f_dest < f_src)
			bigRounds := rounds * 2 / 3
			if big == 10 {
				bigRounds = rounds / 2
			}
			var c string
			sh, c = vC04BigShape(r, big, bigRounds)
			cls += "-" + c
		}
		faultDen := 10 // per oracle and round: 1/faultDen chance of a failing destination read / source read
		lossDen := 12  // ... of a lost observation
		if big > 0 {
			faultDen, lossDen = 30, 40
		}
		oracles := make([]*vC04Oracle, sh.n)
		for i := range oracles {
			oracles[i] = vC04NewOracle(w, i, maxTree, sh)
			oracles[i].lag = uint64(r.Intn(3))
			if big > 0 && r.Chance(2, 3) {
				oracles[i].lag = 0
			}
		}
		var prev ocr3types.Outcome
		var pending []vC04Pending
		transmits, reportsMade, diverged := 0, 0, 0
		for rd := 0; rd < sh.rounds; rd++ {
			// ---- fault injection for this round
			for _, o := range oracles {
				o.failNS = r.Chance(1, faultDen)
				o.failMs = r.Chance(1, faultDen)
				for ch := range o.failCh {
					delete(o.failCh, ch)
				}
			}
			// what the previous outcome asks for: the intervals of a building round
			var selected []plugintypes.ChainRange
			if po, err := decodeOutcome(prev); err == nil && int(po.MerkleRootOutcome.OutcomeType) == 1 {
				selected = po.MerkleRootOutcome.RangesSelectedForReport
			}
			// reader storm (big DONs, building rounds): the source reads of one selected chain fail on all honest
			// readers but a few — 0, 2*f_dest, 2*f_dest+1, 2*f_src or 2*f_src+1 of them keep working —, so that the honest
			// support for the true root falls below 2*f_src+1 while the colluders (up to f_src >= 2*f_dest+1) stay
			stormCh := cciptypes.ChainSelector(0)
			stormKeep := -1
			collude, forgeCh := 5, vC04Sources[0]
			if big > 0 {
				collude = vPick(r, []int{0, 0, 1, 2, 3, 4, 5})
				// the attack the per-chain threshold is there for: a selected chain whose colluding readers number at least
				// 2*f_dest+1 (possible only when f_src >= 2*f_dest+1), the honest support for its true root cut below
				// 2*f_dest+1, all colluders reporting the same forged root
				var targets []cciptypes.ChainSelector
				for _, cr := range selected {
					nb := 0
					for _, b := range sh.byz {
						if sh.reads(cr.ChainSel, b) {
							nb++
						}
					}
					if nb >= 2*sh.f[vC04Dest]+1 {
						targets = append(targets, cr.ChainSel)
					}
				}
				switch {
				case len(targets) > 0 && r.Chance(1, 2):
					stormCh = targets[r.Intn(len(targets))]
					stormKeep = r.Intn(2*sh.f[vC04Dest] + 1)
					collude = r.Intn(2)
				case len(selected) > 0 && r.Chance(1, 3):
					stormCh = selected[r.Intn(len(selected))].ChainSel
					fd, fs := sh.f[vC04Dest], sh.f[stormCh]
					stormKeep = vPick(r, []int{0, 2 * fd, 2*fd + 1, 2 * fs, 2*fs + 1})
				}
				if stormCh != 0 {
					forgeCh = stormCh
					var honest []int
					for _, o := range sh.readers[stormCh] {
						if !sh.isByz(o) {
							honest = append(honest, o)
						}
					}
					for k, idx := range r.Perm(len(honest)) {
						if k >= stormKeep {
							oracles[honest[idx]].failCh[stormCh] = true
						}
					}
				} else {
					forgeCh = vC04Sources[r.Intn(len(vC04Sources))]
				}
			}
			octx := ocr3types.OutcomeContext{SeqNr: uint64(rd + 1), PreviousOutcome: prev}
			leader := oracles[r.Intn(sh.n)]
			q, err := leader.p.Query(ctx, octx)
			if err != nil {
				q = nil
			}
			// "rollout" round (1 in 8, not the first): the home-chain f of one source chain is being changed and the oracles
			// have picked the change up at different times — three camps report three values, none of them 2F+1 strong, so the
			// round has NO agreed f for that chain and the chain must be left out, whatever was agreed in earlier rounds
			// (seeded change C01-12 let a long-lived processor fall back to the f it agreed on before)
			rolloutCh, rcls := cciptypes.ChainSelector(0), cls
			if rd > 0 && r.Chance(1, 8) {
				rolloutCh = vC04Sources[r.Intn(len(vC04Sources))]
				rcls += "/rollout"
			}
			var aos []types.AttributedObservation
			for _, o := range oracles {
				if o.id != 0 && r.Chance(1, lossDen) {
					continue // this oracle's observation is lost
				}
				ob, err := o.p.Observation(ctx, octx, q)
				if err != nil {
					continue
				}
				if rolloutCh != 0 {
					ob = vC04Rollout(ob, rolloutCh, sh.f[rolloutCh]+2*(o.id%3))
				}
				if sh.isByz(o.id) {
					if big == 0 || r.Chance(1, 5) {
						ob = vC04Lie(r, ob, 2*sh.f[forgeCh]+1) // on its own
					} else {
						ob = vC04Collude(ob, sh, o.id, collude, forgeCh, selected, w)
					}
				}
				ao := types.AttributedObservation{Observation: ob, Observer: commontypes.OracleID(o.id)}
				if oracles[0].p.ValidateObservation(ctx, octx, q, ao) == nil {
					aos = append(aos, ao)
				}
			}
			if len(aos) >= 2*sh.F+1 {
				perm := r.Perm(len(aos))
				shuf := make([]types.AttributedObservation, len(aos))
				for i, p := range perm {
					shuf[i] = aos[p]
				}
				var outs [][]byte
				for _, o := range oracles[:3] {
					out, err := o.p.Outcome(ctx, octx, q, shuf)
					if err != nil {
						out = []byte("ERR")
					}
					outs = append(outs, out)
				}
				if string(outs[0]) != string(outs[1]) || string(outs[0]) != string(outs[2]) {
					diverged++
				}
				if string(outs[0]) != "ERR" {
					vC04EmitRound(rsink, rcls, hi, rd, prev, q, shuf, outs[0], maxTree, sh.F)
					prev = outs[0]
					reps, err := oracles[0].p.Reports(ctx, uint64(rd+1), prev)
					if err == nil {
						for _, rp := range reps {
							dec, err := codec.Decode(ctx, rp.ReportWithInfo.Report)
							if err != nil || len(dec.MerkleRoots) == 0 {
								continue
							}
							reportsMade++
							var roots []vC04Root
							for _, mr := range dec.MerkleRoots {
								roots = append(roots, vC04Root{ch: mr.ChainSel, s: uint64(mr.SeqNumsRange.Start()), e: uint64(mr.SeqNumsRange.End()), root: mr.MerkleRoot})
							}
							by := r.Intn(3)
							// prefer a transmitter (honest destination readers 0,1,2) that does not read one of the report's source chains
							for _, rt := range roots {
								for nr := 0; nr < 3; nr++ {
									if !sh.reads(rt.ch, nr) && r.Bool() {
										by = nr
									}
								}
							}
							acc, err := oracles[by].p.ShouldAcceptAttestedReport(ctx, uint64(rd+1), rp.ReportWithInfo)
							if err == nil && acc && !r.Chance(1, 8) { // 1/8: the attested report is lost
								pending = append(pending, vC04Pending{rep: rp.ReportWithInfo, roots: roots, by: by, readyAt: rd + r.Intn(4)})
								if r.Chance(1, 4) { // a second transmitter holds the same report (duplicate send)
									by2 := (by + 1) % 3
									for _, rt := range roots {
										for nr := 0; nr < 3; nr++ {
											if !sh.reads(rt.ch, nr) && nr != by && r.Bool() {
												by2 = nr
											}
										}
									}
									pending = append(pending, vC04Pending{rep: rp.ReportWithInfo, roots: roots, by: by2, readyAt: rd + r.Intn(6)})
								}
							}
						}
					}
				}
			}
			// ---- transmissions that come due, in random order
			var due, later []vC04Pending
			for _, pd := range pending {
				if pd.readyAt <= rd {
					due = append(due, pd)
				} else {
					later = append(later, pd)
				}
			}
			pending = later
			for _, idx := range r.Perm(len(due)) {
				pd := due[idx]
				o := oracles[pd.by]
				o.failNS = r.Chance(1, 8)
				fails := o.failNS
				curBefore := vC04CursorCoq(w.cursor)
				ok, err := o.p.ShouldTransmitAcceptedReport(ctx, uint64(rd+1), pd.rep)
				code := 0
				if err != nil {
					code = 2
				} else if ok {
					code = 1
				}
				o.failNS = false
				in := cTup(vC04RootsCoq(w, pd.roots), curBefore, cBool(fails))
				tsink.Emit("C04_transmit", cls, len(pd.roots) > 0, cPair(in, cNi(code)),
					map[string]any{"history": hi, "round": rd, "by": pd.by, "roots": fmt.Sprint(pd.roots), "cursor": fmt.Sprint(w.cursor), "readerFails": fails, "verdict": code})
				if code == 1 {
					transmits++
					if r.Chance(1, 8) {
						// mined one step later: somebody else's transaction may get in first
						pending = append(pending, vC04Pending{rep: pd.rep, roots: pd.roots, by: -1, readyAt: rd + 1})
					} else {
						w.land(pd.roots)
					}
				}
			}
			// late-mined transactions (by = -1) were filtered above only if due; land them directly
			var keep []vC04Pending
			for _, pd := range pending {
				if pd.by == -1 && pd.readyAt <= rd+1 {
					w.land(pd.roots)
				} else {
					keep = append(keep, pd)
				}
			}
			pending = keep
			// ---- the world moves
			for _, ch := range vC04Sources {
				if r.Chance(2, 3) {
					w.logLen[ch] += uint64(r.Intn(4))
				}
				if w.finalLen[ch] < w.logLen[ch] && r.Chance(3, 4) {
					w.finalLen[ch] += uint64(1 + r.Intn(int(w.logLen[ch]-w.finalLen[ch])))
				}
			}
		}
		// ---- end of history: what the off-ramp holds
		landed := cMap(w.landed, func(roots []vC04Root) string {
			return cMap(roots, func(x vC04Root) string { return cTup(cN(uint64(x.ch)), cPair(cN(x.s), cN(x.e)), cN(0)) })
		})
		var commitsCoq []string
		var finalCur []string
		for _, ch := range vC04Sources {
			commitsCoq = append(commitsCoq, cPair(cN(uint64(ch)), cMap(w.commits[ch], func(iv [2]uint64) string { return cPair(cN(iv[0]), cN(iv[1])) })))
			finalCur = append(finalCur, cPair(cN(uint64(ch)), cN(w.cursor[ch])))
		}
		fsink.Emit("C04_final", cls, len(w.landed) > 1,
			cPair(cPair(vC04CursorCoq(initCursor), landed), cTup(cList(commitsCoq), cList(finalCur), cNi(diverged))),
			map[string]any{"history": hi, "rounds": sh.rounds, "n": sh.n, "F": sh.F, "f": fmt.Sprint(sh.f), "readers": fmt.Sprint(sh.readers), "byzantine": fmt.Sprint(sh.byz), "maxTree": maxTree, "reports": reportsMade, "transmit_true": transmits,
				"landed": len(w.landed), "commits": fmt.Sprint(w.commits), "log": fmt.Sprint(w.logLen), "outcome_divergences": diverged})
	}
}

// ---- whole-plugin round correspondence: (previous outcome, query, decoded attributed observations) -> outcome,
// printed in the types of the C01 / C03 models (CommitConsensus.aobs, CommitSM.outcome)
func vC04AddrID(b []byte) uint64 {
	if len(b) == 0 {
		return 0
	}
	return vHash48("addr:" + string(b))
}
func vC04RootID(b cciptypes.Bytes32) uint64 { return vHash48("root:" + string(b[:])) }

func vC04OutcomeCoq(ob []byte) (string, bool) {
	o, err := decodeOutcome(ob)
	if err != nil {
		return "", false
	}
	m := o.MerkleRootOutcome
	if !m.RMNRemoteCfg.IsEmpty() || len(m.RMNReportSignatures) > 0 {
		return "", false
	}
	ranges := cMap(m.RangesSelectedForReport, func(c plugintypes.ChainRange) string {
		return cPair(cN(uint64(c.ChainSel)), cPair(cN(uint64(c.SeqNumRange.Start())), cN(uint64(c.SeqNumRange.End()))))
	})
	roots := cMap(m.RootsToReport, func(c cciptypes.MerkleRootChain) string {
		return cTup(cN(uint64(c.ChainSel)), cPair(cN(uint64(c.SeqNumsRange.Start())), cN(uint64(c.SeqNumsRange.End()))), cN(vC04AddrID(c.OnRampAddress)), cN(vC04RootID(c.MerkleRoot)))
	})
	off := cMap(m.OffRampNextSeqNums, func(c plugintypes.SeqNumChain) string { return cPair(cN(uint64(c.ChainSel)), cN(uint64(c.SeqNum))) })
	return cApp("mkOutcome", cZ(int64(m.OutcomeType)), ranges, roots, off, cN(uint64(m.ReportTransmissionCheckAttempts)), "[]", "(0%N, 0%N)"), true
}

func vC04EmitRound(sink *vSink, cls string, hi, rd int, prev, q []byte, aos []types.AttributedObservation, out []byte, maxTree uint64, F int) {
	prevC, ok1 := vC04OutcomeCoq(prev)
	outC, ok2 := vC04OutcomeCoq(out)
	dq, err := DecodeCommitPluginQuery(q)
	if !ok1 || !ok2 || (err != nil && len(q) > 0) || dq.MerkleRootQuery.RMNSignatures != nil {
		return
	}
	var obsC []string
	for _, ao := range aos {
		o, err := DecodeCommitPluginObservation(ao.Observation)
		if err != nil {
			continue // Outcome skips observations that do not decode
		}
		m := o.MerkleRootObs
		if !m.RMNRemoteConfig.IsEmpty() {
			return
		}
		roots := cMap(m.MerkleRoots, func(c cciptypes.MerkleRootChain) string {
			return cTup(cN(uint64(c.ChainSel)), cN(vC04AddrID(c.OnRampAddress)), cPair(cN(uint64(c.SeqNumsRange.Start())), cN(uint64(c.SeqNumsRange.End()))), cN(vC04RootID(c.MerkleRoot)))
		})
		sc := func(l []plugintypes.SeqNumChain) string {
			return cMap(l, func(c plugintypes.SeqNumChain) string { return cPair(cN(uint64(c.ChainSel)), cN(uint64(c.SeqNum))) })
		}
		var ks []cciptypes.ChainSelector
		for k := range m.FChain {
			ks = append(ks, k)
		}
		sort.Slice(ks, func(i, j int) bool { return ks[i] < ks[j] })
		fch := cMap(ks, func(k cciptypes.ChainSelector) string { return cPair(cN(uint64(k)), cZ(int64(m.FChain[k]))) })
		obsC = append(obsC, cPair(cN(uint64(ao.Observer)), cApp("mkObs", roots, sc(m.OnRampMaxSeqNums), sc(m.OffRampNextSeqNums), "rmn_none", fch)))
	}
	// F of the role DON of this history; the per-chain f values are in the observations' fChain maps;
	// 3 = MaxReportTransmissionCheckAttempts of the offchain config above
	in := cTup(cZ(int64(F)), cN(uint64(vC04Dest)), cN(3), cN(maxTree), prevC, cBool(dq.MerkleRootQuery.RetryRMNSignatures), cList(obsC))
	sink.Emit("C04_round", cls, len(obsC) >= 2*F+1, cPair(in, outC), map[string]any{"history": hi, "round": rd, "F": F, "observations": len(obsC)})
}

// the colluders' observation of this round: every colluder applies the same forgery [kind] to its own observation.
//   0,1 (building): the same forged root for every selected interval of chain forgeCh (all selected chains for kind 1)
//                   — built from the previous outcome's intervals, so that it does not depend on the colluder's reads
//   2: on-ramp latest of forgeCh advanced by 100;  3: off-ramp next of forgeCh advanced by 2 (destination readers only
//   get it through validation);  4: says nothing;  5: honest this round
func vC04Collude(ob []byte, sh *vC04Shape, id, kind int, forgeCh cciptypes.ChainSelector, selected []plugintypes.ChainRange, w *vC04World) []byte {
	o, err := DecodeCommitPluginObservation(ob)
	if err != nil {
		return ob
	}
	m := &o.MerkleRootObs
	switch kind {
	case 0, 1:
		if len(selected) == 0 {
			break
		}
		var out []cciptypes.MerkleRootChain
		for _, mr := range m.MerkleRoots { // honest roots of the chains that are not forged
			if kind == 0 && mr.ChainSel != forgeCh {
				out = append(out, mr)
			}
		}
		for _, cr := range selected {
			if (kind == 1 || cr.ChainSel == forgeCh) && sh.reads(cr.ChainSel, id) {
				out = append(out, cciptypes.MerkleRootChain{ChainSel: cr.ChainSel, OnRampAddress: []byte{byte(cr.ChainSel), 0xAD}, SeqNumsRange: cr.SeqNumRange,
					MerkleRoot: cciptypes.Bytes32{0xBA, 0xD0, byte(cr.ChainSel), byte(cr.SeqNumRange.Start()), byte(cr.SeqNumRange.End())}})
			}
		}
		m.MerkleRoots = out
	case 2:
		for i := range m.OnRampMaxSeqNums {
			if m.OnRampMaxSeqNums[i].ChainSel == forgeCh {
				m.OnRampMaxSeqNums[i].SeqNum = cciptypes.SeqNum(w.logLen[forgeCh] + 100)
			}
		}
	case 3:
		for i := range m.OffRampNextSeqNums {
			if m.OffRampNextSeqNums[i].ChainSel == forgeCh {
				m.OffRampNextSeqNums[i].SeqNum = cciptypes.SeqNum(w.cursor[forgeCh] + 2)
			}
		}
	case 4:
		m.MerkleRoots, m.OnRampMaxSeqNums, m.OffRampNextSeqNums = nil, nil, nil
	}
	b, err := o.Encode()
	if err != nil {
		return ob
	}
	return b
}

// the observation with the f of chain ch replaced in every fChain map it carries
func vC04Rollout(ob []byte, ch cciptypes.ChainSelector, f int) []byte {
	o, err := DecodeCommitPluginObservation(ob)
	if err != nil {
		return ob
	}
	for _, m := range []map[cciptypes.ChainSelector]int{o.FChain, o.MerkleRootObs.FChain, o.TokenPriceObs.FChain, o.ChainFeeObs.FChain, o.DiscoveryObs.FChain} {
		if _, ok := m[ch]; ok {
			m[ch] = f
		}
	}
	b, err := o.Encode()
	if err != nil {
		return ob
	}
	return b
}

// a Byzantine observation of one oracle on its own: decodable, different; reps = 2f+1 for the multi-vote shapes
func vC04Lie(r *vRand, ob []byte, reps int) []byte {
	o, err := DecodeCommitPluginObservation(ob)
	if err != nil {
		return ob
	}
	switch r.Intn(8) {
	case 5:
		// multi-vote: a forged root for the first chain repeated 2f+1 times, interleaved with the (honest) roots of the
		// other chains so that no two copies are neighbours: [A', B, A', B, A'] (seeded change C04-6 / C01-1 family)
		if rs := o.MerkleRootObs.MerkleRoots; len(rs) >= 1 {
			forged := rs[0]
			forged.MerkleRoot[0] ^= 0xFF
			var out []cciptypes.MerkleRootChain
			for k := 0; k < reps; k++ {
				out = append(out, forged)
				if len(rs) >= 2 {
					out = append(out, rs[1+k%(len(rs)-1)])
				}
			}
			o.MerkleRootObs.MerkleRoots = out
		}
	case 6:
		// the same for off-ramp next numbers: a stale / advanced cursor voted three times, not adjacent
		if ns := o.MerkleRootObs.OffRampNextSeqNums; len(ns) >= 1 {
			forged := ns[0]
			forged.SeqNum += cciptypes.SeqNum(1 + r.Intn(3))
			var out []plugintypes.SeqNumChain
			for k := 0; k < reps; k++ {
				out = append(out, forged)
				if len(ns) >= 2 {
					out = append(out, ns[1+k%(len(ns)-1)])
				}
			}
			o.MerkleRootObs.OffRampNextSeqNums = out
		}
	case 7:
		if ns := o.MerkleRootObs.OnRampMaxSeqNums; len(ns) >= 1 {
			forged := ns[0]
			forged.SeqNum += 7
			var out []plugintypes.SeqNumChain
			for k := 0; k < reps; k++ {
				out = append(out, forged)
				if len(ns) >= 2 {
					out = append(out, ns[1+k%(len(ns)-1)])
				}
			}
			o.MerkleRootObs.OnRampMaxSeqNums = out
		}
	case 0:
		for i := range o.MerkleRootObs.MerkleRoots {
			o.MerkleRootObs.MerkleRoots[i].MerkleRoot[0] ^= 0xFF
		}
	case 1:
		for i := range o.MerkleRootObs.OffRampNextSeqNums {
			o.MerkleRootObs.OffRampNextSeqNums[i].SeqNum += cciptypes.SeqNum(1 + r.Intn(3))
		}
	case 2:
		for i := range o.MerkleRootObs.OnRampMaxSeqNums {
			o.MerkleRootObs.OnRampMaxSeqNums[i].SeqNum += 100
		}
	case 3:
		for i := range o.MerkleRootObs.MerkleRoots {
			o.MerkleRootObs.MerkleRoots[i].SeqNumsRange.SetEnd(o.MerkleRootObs.MerkleRoots[i].SeqNumsRange.End() + 1)
		}
	default:
		o.MerkleRootObs.MerkleRoots = nil
		o.MerkleRootObs.OffRampNextSeqNums = nil
	}
	b, err := o.Encode()
	if err != nil {
		return ob
	}
	return b
}

var _ readerpkg.CCIPReader = (*vCCIPReader)(nil)

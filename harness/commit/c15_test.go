//go:build verif

package commit

import (
	"context"
	"encoding/binary"
	"fmt"
	"reflect"
	"testing"
	"time"

	commonconfig "github.com/smartcontractkit/chainlink-common/pkg/config"
	cctypes "github.com/smartcontractkit/chainlink-common/pkg/types"
	"github.com/smartcontractkit/chainlink-common/pkg/types/query"
	"github.com/smartcontractkit/chainlink-common/pkg/types/query/primitives"
	"github.com/smartcontractkit/libocr/commontypes"
	"github.com/smartcontractkit/libocr/offchainreporting2plus/ocr3types"
	libocrtypes "github.com/smartcontractkit/libocr/ragep2p/types"

	"github.com/smartcontractkit/chainlink-ccip/commit/merkleroot"
	"github.com/smartcontractkit/chainlink-ccip/internal/mocks"
	"github.com/smartcontractkit/chainlink-ccip/internal/plugincommon"
	"github.com/smartcontractkit/chainlink-ccip/internal/plugintypes"
	"github.com/smartcontractkit/chainlink-ccip/pkg/consts"
	"github.com/smartcontractkit/chainlink-ccip/pkg/contractreader"
	readerpkg "github.com/smartcontractkit/chainlink-ccip/pkg/reader"
	cciptypes "github.com/smartcontractkit/chainlink-ccip/pkg/types/ccipocr3"
	"github.com/smartcontractkit/chainlink-ccip/pluginconfig"
)

// the scripted remote: what is cursed right now and how the curse read behaves.
// real == false: scripted CCIPReader answer (like the real reader: only for the chains asked about); a failing read
//
//	ranges over error KINDS (plain, wrapping reader.ErrContractReaderNotFound, wrapping contractreader.ErrNoBindings,
//	context deadline / cancellation).
//
// real == true: the answer comes from the REAL ccipChainReader.GetRmnCurseInfo over a scripted contract reader of the
//
//	destination: state "noreader" (no destination reader at all), "unbound" (reader present, RMNRemote not bound),
//	"rpc-plain" / "rpc-ctx" (bound, the call fails), "bound" (bound, returns the cursed subjects on chain).
//
// For the model every failing read is the one value fails = true.
type vC15Remote struct {
	fails, global, dest bool
	cursed              map[uint64]bool
	real                bool
	kind                string
}

type vC15Facade struct {
	subjects [][16]byte
	err      error
}

func (f *vC15Facade) GetLatestValue(ctx context.Context, id string, c primitives.ConfidenceLevel, params, ret any) error {
	if f.err != nil {
		return f.err
	}
	fld := reflect.ValueOf(ret).Elem().FieldByName("CursedSubjects")
	if !fld.IsValid() {
		return fmt.Errorf("verif: unexpected read %s", id)
	}
	fld.Set(reflect.ValueOf(f.subjects))
	return nil
}
func (f *vC15Facade) BatchGetLatestValues(context.Context, cctypes.BatchGetLatestValuesRequest) (cctypes.BatchGetLatestValuesResult, error) {
	return nil, nil
}
func (f *vC15Facade) Bind(context.Context, []cctypes.BoundContract) error   { return nil }
func (f *vC15Facade) Unbind(context.Context, []cctypes.BoundContract) error { return nil }
func (f *vC15Facade) QueryKey(context.Context, cctypes.BoundContract, query.KeyFilter, query.LimitAndSort, any) ([]cctypes.Sequence, error) {
	return nil, nil
}

func vC15ChainSubject(c uint64) [16]byte {
	var b [16]byte
	binary.BigEndian.PutUint64(b[8:], c)
	return b
}

func (m *vC15Remote) Fn(dest cciptypes.ChainSelector, src []cciptypes.ChainSelector) (*readerpkg.CurseInfo, error) {
	if m.real {
		return m.realRead(dest, src)
	}
	if m.fails {
		switch m.kind {
		case "notfound":
			return nil, fmt.Errorf("validate dest=%d extended reader existence: %w", dest,
				fmt.Errorf("chain %d: %w", dest, readerpkg.ErrContractReaderNotFound))
		case "nobindings":
			return nil, fmt.Errorf("get latest value: %w", contractreader.ErrNoBindings)
		case "both":
			return nil, fmt.Errorf("not bound: %w: %w", readerpkg.ErrContractReaderNotFound, contractreader.ErrNoBindings)
		case "ctx-deadline":
			return nil, fmt.Errorf("read: %w", context.DeadlineExceeded)
		case "ctx-canceled":
			return nil, context.Canceled
		case "nil-info": // an error together with a non-nil (empty) answer
			return &readerpkg.CurseInfo{CursedSourceChains: map[cciptypes.ChainSelector]bool{}}, vErrNext()
		}
		return nil, vErrNext()
	}
	ci := &readerpkg.CurseInfo{CursedSourceChains: map[cciptypes.ChainSelector]bool{}, CursedDestination: m.global || m.dest, GlobalCurse: m.global}
	for _, c := range src {
		ci.CursedSourceChains[c] = m.cursed[uint64(c)]
	}
	return ci, nil
}

// the real reader of an oracle, configured for the current state of the remote
func (m *vC15Remote) realRead(dest cciptypes.ChainSelector, src []cciptypes.ChainSelector) (*readerpkg.CurseInfo, error) {
	ctx := context.Background()
	fac := &vC15Facade{}
	if m.global {
		fac.subjects = append(fac.subjects, readerpkg.GlobalCurseSubject)
	}
	if m.dest {
		fac.subjects = append(fac.subjects, vC15ChainSubject(uint64(dest)))
	}
	var cs []uint64
	for c, b := range m.cursed {
		if b {
			cs = append(cs, c)
		}
	}
	vSortU64(cs)
	for _, c := range cs {
		fac.subjects = append(fac.subjects, vC15ChainSubject(c))
	}
	switch m.kind {
	case "rpc-plain":
		fac.err = vErrNext()
	case "rpc-ctx":
		fac.err = context.DeadlineExceeded
	}
	readers := map[cciptypes.ChainSelector]contractreader.Extended{}
	if m.kind != "noreader" {
		ext := contractreader.NewExtendedContractReader(fac)
		if m.kind != "unbound" {
			if err := ext.Bind(ctx, []cctypes.BoundContract{{Name: consts.ContractNameRMNRemote, Address: "0x0000000000000000000000000000000000000002"}}); err != nil {
				panic(err)
			}
		}
		readers[dest] = ext
	}
	rd := readerpkg.NewCCIPReaderWithExtendedContractReaders(ctx, mocks.NullLogger, readers, nil, dest, []byte{0x01})
	return rd.GetRmnCurseInfo(ctx, dest, src)
}

func (m *vC15Remote) Coq() string {
	var cs []uint64
	for c, b := range m.cursed {
		if b {
			cs = append(cs, c)
		}
	}
	vSortU64(cs)
	return cTup(cBool(m.fails), cBool(m.global), cBool(m.dest), cListN(cs))
}
func vC15GenRemote(r *vRand, chains []uint64) (*vC15Remote, string) {
	m := &vC15Remote{cursed: map[uint64]bool{}}
	cls := vPick(r, []string{"clean", "clean", "global", "dest", "fails", "fails", "one", "some", "all", "unrelated"})
	switch cls {
	case "global":
		m.global = true
	case "dest":
		m.dest = true
	case "fails":
		m.fails = true
		// whatever is on chain while the read fails (it must not matter): often a global or lane curse
		switch r.Intn(4) {
		case 0:
			m.global = true
		case 1:
			if len(chains) > 0 {
				m.cursed[vPick(r, chains)] = true
			}
		}
	case "one":
		if len(chains) > 0 {
			m.cursed[vPick(r, chains)] = true
		}
	case "some":
		for _, c := range chains {
			if r.Bool() {
				m.cursed[c] = true
			}
		}
	case "all":
		for _, c := range chains {
			m.cursed[c] = true
		}
	case "unrelated":
		m.cursed[777] = true
		m.cursed[1<<64-1] = true
	}
	if r.Chance(1, 10) && len(chains) > 0 { // a source curse on top of whatever else
		m.cursed[vPick(r, chains)] = true
	}
	m.real = r.Chance(2, 5)
	if m.fails {
		if m.real {
			m.kind = vPick(r, []string{"noreader", "unbound", "unbound", "rpc-plain", "rpc-ctx"})
		} else {
			m.kind = vPick(r, []string{"plain", "notfound", "nobindings", "both", "ctx-deadline", "ctx-canceled", "nil-info"})
		}
		cls += "/" + m.kind
	} else if m.real {
		m.kind = "bound"
	}
	if m.real {
		cls = "real/" + cls
	}
	return m, cls
}

// ShouldAcceptAttestedReport of the commit plugin under a scripted curse reader; one plugin instance sees a
// sequence of reports while the curse set changes (nothing may be remembered between calls).
func TestVerif_C15_accept_commit(t *testing.T) {
	ctx := context.Background()
	r := vNewRand(vSeed() + 16)
	n := vEnvInt("VERIF_N", 300)
	sink := vOpenSink("C15_acc_commit")
	defer sink.Close()
	codec := mocks.NewCommitPluginJSONReportCodec()
	pool := []uint64{1, 2, 3, 5, 8, 13, 1<<64 - 2}
	i := 0
	for i < n {
		hc := vNewHomeChain()
		me := commontypes.OracleID(1)
		m := map[commontypes.OracleID]libocrtypes.PeerID{me: vPeer(1)}
		hc.SetChain(900, 1, []libocrtypes.PeerID{vPeer(1)})
		rem := &vC15Remote{}
		rmn := r.Bool()
		rd := &vCCIPReader{CurseFn: func(d cciptypes.ChainSelector, s []cciptypes.ChainSelector) (*readerpkg.CurseInfo, error) {
			return rem.Fn(d, s)
		}}
		p := &Plugin{
			oracleID: me, oracleIDToP2PID: m,
			offchainCfg: pluginconfig.CommitOffchainConfig{RMNEnabled: rmn},
			ccipReader:  rd, reportCodec: codec, lggr: mocks.NullLogger, homeChain: hc,
			reportingCfg: ocr3types.ReportingPluginConfig{OracleID: me},
			chainSupport: plugincommon.NewChainSupport(mocks.NullLogger, hc, m, me, 900),
		}
		steps := r.Range(1, 4)
		for st := 0; st < steps && i < n; st++ {
			k := vPick(r, []int{0, 1, 1, 2, 3})
			perm := r.Perm(len(pool))
			var srcs []uint64
			for x := 0; x < k; x++ {
				srcs = append(srcs, pool[perm[x]])
			}
			if k >= 2 && r.Chance(1, 6) {
				srcs[1] = srcs[0] // the same chain twice in one report
			}
			var cls string
			rem, cls = vC15GenRemote(r, srcs)
			rep := cciptypes.CommitPluginReport{}
			for _, c := range srcs {
				rep.MerkleRoots = append(rep.MerkleRoots, cciptypes.MerkleRootChain{ChainSel: cciptypes.ChainSelector(c),
					SeqNumsRange: cciptypes.NewSeqNumRange(1, 2), MerkleRoot: cciptypes.Bytes32{1}})
			}
			tp, gp := r.Intn(2), r.Intn(2)
			for x := 0; x < tp; x++ {
				rep.PriceUpdates.TokenPriceUpdates = append(rep.PriceUpdates.TokenPriceUpdates, cciptypes.TokenPrice{TokenID: "t", Price: cciptypes.NewBigIntFromInt64(1)})
			}
			for x := 0; x < gp; x++ {
				rep.PriceUpdates.GasPriceUpdates = append(rep.PriceUpdates.GasPriceUpdates, cciptypes.GasPriceChain{ChainSel: 1, GasPrice: cciptypes.NewBigIntFromInt64(1)})
			}
			sigs := r.Intn(3)
			for x := 0; x < sigs; x++ {
				rep.RMNSignatures = append(rep.RMNSignatures, cciptypes.RMNECDSASignature{})
			}
			f := uint64(r.Intn(3))
			infoOK := !r.Chance(1, 8)
			rb, err := codec.Encode(ctx, rep)
			if err != nil {
				t.Fatal(err)
			}
			info, _ := ReportInfo{RemoteF: f}.Encode()
			if !infoOK {
				info = []byte("{")
			}
			ok, err := p.ShouldAcceptAttestedReport(ctx, 1, ocr3types.ReportWithInfo[[]byte]{Report: rb, Info: info})
			o := 0
			if err != nil {
				o = 2
			} else if ok {
				o = 1
			}
			if st > 0 {
				cls = "history/" + cls
			}
			in := cTup(cNi(0), cListN(srcs), rem.Coq(), cTup(cNi(tp), cNi(gp), cNi(sigs), cBool(infoOK), cBool(rmn), cN(f)))
			sink.Emit("C15_acc_commit", cls, len(srcs) > 0, cPair(in, cNi(o)),
				map[string]any{"srcs": srcs, "step": st, "rmn": rmn})
			i++
		}
	}
}

// ===================================================================================================
// Plugin level: commit.Plugin.Observation (real Plugin via NewPlugin, real merkleroot.Processor, real chain support over
// the fake home chain) in every state of the commit cycle, under a curse state that changes between the rounds, and the
// acceptance of the report the cycle leads to.
// ===================================================================================================
// a previous outcome that leads to the wanted state; the outcome type ranges over every type with that successor and
// the fields the state does not use carry leftovers (numbers, roots, ranges of earlier rounds) that must not leak
func vC15PrevOutcome(r *vRand, state int, sel []uint64, known []uint64) []byte {
	var o Outcome
	m := &o.MerkleRootOutcome
	leftovers := func() {
		for _, c := range known {
			if r.Bool() {
				m.OffRampNextSeqNums = append(m.OffRampNextSeqNums, plugintypes.NewSeqNumChain(cciptypes.ChainSelector(c), 7))
			}
			if r.Bool() {
				m.RootsToReport = append(m.RootsToReport, cciptypes.MerkleRootChain{ChainSel: cciptypes.ChainSelector(c),
					SeqNumsRange: cciptypes.NewSeqNumRange(4, 6), MerkleRoot: cciptypes.Bytes32{9}})
			}
		}
	}
	switch state {
	case 1: // SelectingRangesForReport next
		m.OutcomeType = vPick(r, []merkleroot.OutcomeType{0, merkleroot.ReportEmpty, merkleroot.ReportTransmitted, merkleroot.ReportTransmissionFailed})
		if m.OutcomeType != 0 {
			leftovers()
			for _, c := range known {
				if r.Bool() {
					m.RangesSelectedForReport = append(m.RangesSelectedForReport,
						plugintypes.ChainRange{ChainSel: cciptypes.ChainSelector(c), SeqNumRange: cciptypes.NewSeqNumRange(4, 6)})
				}
			}
		}
	case 2: // BuildingReport next
		m.OutcomeType = merkleroot.ReportIntervalsSelected
		leftovers()
		for _, c := range sel {
			m.RangesSelectedForReport = append(m.RangesSelectedForReport,
				plugintypes.ChainRange{ChainSel: cciptypes.ChainSelector(c), SeqNumRange: cciptypes.NewSeqNumRange(11, 13)})
		}
	case 3: // WaitingForReportTransmission next
		m.OutcomeType = vPick(r, []merkleroot.OutcomeType{merkleroot.ReportGenerated, merkleroot.ReportInFlight})
		for _, c := range sel {
			m.RootsToReport = append(m.RootsToReport,
				cciptypes.MerkleRootChain{ChainSel: cciptypes.ChainSelector(c), SeqNumsRange: cciptypes.NewSeqNumRange(11, 13), MerkleRoot: cciptypes.Bytes32{1}})
			m.OffRampNextSeqNums = append(m.OffRampNextSeqNums, plugintypes.NewSeqNumChain(cciptypes.ChainSelector(c), 11))
			m.RangesSelectedForReport = append(m.RangesSelectedForReport,
				plugintypes.ChainRange{ChainSel: cciptypes.ChainSelector(c), SeqNumRange: cciptypes.NewSeqNumRange(11, 13)})
		}
	}
	b, err := o.Encode()
	if err != nil {
		panic(err)
	}
	return b
}

func TestVerif_C15_cycle_commit(t *testing.T) {
	ctx := context.Background()
	r := vNewRand(vSeed() + 19)
	n := vEnvInt("VERIF_N", 300)
	sink := vOpenSink("C15_cyc_commit")
	defer sink.Close()
	asink := vOpenSink("C15_cyc_acc_commit")
	defer asink.Close()
	codec := mocks.NewCommitPluginJSONReportCodec()
	pool := []uint64{1, 2, 3, 5, 8, 13, 21}
	q, err := Query{}.Encode()
	if err != nil {
		t.Fatal(err)
	}
	i := 0
	for i < n {
		// one DON configuration, one plugin instance, one or two full cycles
		k := r.Range(0, 5)
		perm := r.Perm(len(pool))
		var known []uint64
		for x := 0; x < k; x++ {
			known = append(known, pool[perm[x]])
		}
		sup := vPick(r, []int{1, 1, 1, 1, 1, 0})
		hc := vNewHomeChain()
		me := commontypes.OracleID(1)
		m := map[commontypes.OracleID]libocrtypes.PeerID{me: vPeer(1), 2: vPeer(2)}
		destPeers := []libocrtypes.PeerID{vPeer(2)}
		if sup == 1 {
			destPeers = append(destPeers, vPeer(1))
		}
		hc.SetChain(900, 1, destPeers)
		for _, c := range known {
			hc.SetChain(cciptypes.ChainSelector(c), 1, []libocrtypes.PeerID{vPeer(1), vPeer(2)})
		}
		rem := &vC15Remote{}
		mode := 0
		rd := &vCCIPReader{
			CurseFn: func(d cciptypes.ChainSelector, s []cciptypes.ChainSelector) (*readerpkg.CurseInfo, error) {
				return rem.Fn(d, s)
			},
			NextSeqNumFn: func(chains []cciptypes.ChainSelector) ([]cciptypes.SeqNum, error) {
				if mode == 1 {
					return nil, vErrNext()
				}
				out := make([]cciptypes.SeqNum, len(chains))
				for x, c := range chains {
					out[x] = cciptypes.SeqNum(uint64(c) + 1000)
				}
				if mode == 2 && len(out) > 0 {
					out = out[1:]
				}
				return out, nil
			},
			ExpectedNextFn: func(src, dst cciptypes.ChainSelector) (cciptypes.SeqNum, error) { return 20, nil },
			MsgsFn: func(chain cciptypes.ChainSelector, rg cciptypes.SeqNumRange) ([]cciptypes.Message, error) {
				var out []cciptypes.Message
				for s := rg.Start(); s <= rg.End(); s++ {
					out = append(out, cciptypes.Message{Header: cciptypes.RampMessageHeader{
						MessageID: cciptypes.Bytes32{byte(chain), byte(s)}, SourceChainSelector: chain, DestChainSelector: 900, SequenceNumber: s}})
				}
				return out, nil
			},
		}
		cfg := pluginconfig.CommitOffchainConfig{
			RemoteGasPriceBatchWriteFrequency:  *commonconfig.MustNewDuration(time.Minute),
			TokenPriceBatchWriteFrequency:      *commonconfig.MustNewDuration(0),
			PriceFeedChainSelector:             900,
			MaxReportTransmissionCheckAttempts: 3,
			MaxMerkleTreeSize:                  256,
			NewMsgScanBatchSize:                256,
		}
		p := NewPlugin(1, m, cfg, 900, rd, nil, codec, mocks.NewMessageHasher(), mocks.NullLogger, hc, nil, nil, nil,
			ocr3types.ReportingPluginConfig{F: 1, N: 4, OracleID: me, ConfigDigest: [32]byte{1}, MaxDurationQuery: time.Second})
		p.discoveryProcessor = nil
		cycles := r.Range(1, 2)
		for cy := 0; cy < cycles && i < n; cy++ {
			var agreed []uint64 // the sources of the ranges the cycle agreed on in its first round
			for st := 1; st <= 3 && i < n; st++ {
				var cls string
				rem, cls = vC15GenRemote(r, known)
				mode = vPick(r, []int{0, 0, 0, 0, 0, 1, 2})
				hc.CfgErr = st != 2 && r.Chance(1, 25)
				var sel []uint64
				if st != 1 {
					sel = agreed
				}
				obsBytes, err := p.Observation(ctx, ocr3types.OutcomeContext{SeqNr: uint64(10 + st), PreviousOutcome: vC15PrevOutcome(r, st, sel, known)}, q)
				if err != nil {
					t.Fatalf("Observation: %v", err)
				}
				obs, err := DecodeCommitPluginObservation(obsBytes)
				if err != nil {
					t.Fatal(err)
				}
				off := make([]string, len(obs.MerkleRootObs.OffRampNextSeqNums))
				var offChains []uint64
				for x, e := range obs.MerkleRootObs.OffRampNextSeqNums {
					off[x] = cPair(cN(uint64(e.ChainSel)), cN(uint64(e.SeqNum)))
					offChains = append(offChains, uint64(e.ChainSel))
				}
				var rootChains []uint64
				for _, e := range obs.MerkleRootObs.MerkleRoots {
					rootChains = append(rootChains, uint64(e.ChainSel))
				}
				vSortU64(rootChains)
				supQ, knownQ := sup, cSome(cListN(known))
				if hc.CfgErr {
					supQ, knownQ = 2, cNone()
				}
				label := []string{"", "selecting", "building", "waiting"}[st]
				if st > 1 || cy > 0 {
					cls = "history/" + cls
				}
				in := cTup(cNi(st), cNi(supQ), knownQ, rem.Coq(), cNi(mode), cListN(sel))
				sink.Emit("C15_cyc_commit", label+"/"+cls, len(known) >= 2 && sup == 1, cPair(in, cPair(cList(off), cListN(rootChains))),
					map[string]any{"state": label, "known": known, "sup": supQ, "selected": sel, "cycle": cy})
				i++
				hc.CfgErr = false
				if st == 1 {
					agreed = offChains // what this oracle would vote into the selected ranges
					if len(agreed) == 0 && len(known) > 0 && r.Chance(1, 3) {
						agreed = known[:1] // the others agreed on ranges although this oracle saw a curse / failure
					}
				}
				if st == 2 && len(rootChains) > 0 {
					// the report this cycle leads to, presented for acceptance under whatever is cursed THEN
					var cls2 string
					rem, cls2 = vC15GenRemote(r, rootChains)
					rep := cciptypes.CommitPluginReport{MerkleRoots: obs.MerkleRootObs.MerkleRoots}
					rb, err := codec.Encode(ctx, rep)
					if err != nil {
						t.Fatal(err)
					}
					info, _ := ReportInfo{}.Encode()
					ok, err := p.ShouldAcceptAttestedReport(ctx, 1, ocr3types.ReportWithInfo[[]byte]{Report: rb, Info: info})
					o := 0
					if err != nil {
						o = 2
					} else if ok {
						o = 1
					}
					var srcs []uint64
					for _, e := range rep.MerkleRoots {
						srcs = append(srcs, uint64(e.ChainSel))
					}
					ain := cTup(cNi(0), cListN(srcs), rem.Coq(), cTup(cNi(0), cNi(0), cNi(0), "true", "false", cNi(0)))
					asink.Emit("C15_cyc_acc_commit", "cycle/"+cls2, true, cPair(ain, cNi(o)), map[string]any{"srcs": srcs})
				}
			}
		}
	}
}

//go:build verif

package commit

import (
	"context"
	"testing"

	"github.com/smartcontractkit/libocr/commontypes"
	"github.com/smartcontractkit/libocr/offchainreporting2plus/ocr3types"
	libocrtypes "github.com/smartcontractkit/libocr/ragep2p/types"

	"github.com/smartcontractkit/chainlink-ccip/internal/mocks"
	"github.com/smartcontractkit/chainlink-ccip/internal/plugincommon"
	readerpkg "github.com/smartcontractkit/chainlink-ccip/pkg/reader"
	cciptypes "github.com/smartcontractkit/chainlink-ccip/pkg/types/ccipocr3"
	"github.com/smartcontractkit/chainlink-ccip/pluginconfig"
)

// the scripted remote: what is cursed right now; answers like the real reader (only for the chains asked about)
type vC15Remote struct {
	fails, global, dest bool
	cursed              map[uint64]bool
}

func (m *vC15Remote) Fn(dest cciptypes.ChainSelector, src []cciptypes.ChainSelector) (*readerpkg.CurseInfo, error) {
	if m.fails {
		return nil, vErr
	}
	ci := &readerpkg.CurseInfo{CursedSourceChains: map[cciptypes.ChainSelector]bool{}, CursedDestination: m.global || m.dest, GlobalCurse: m.global}
	for _, c := range src {
		ci.CursedSourceChains[c] = m.cursed[uint64(c)]
	}
	return ci, nil
}
func (m *vC15Remote) Coq() string {
	var cs []uint64
	for c, b := range m.cursed {
		if b {
			cs = append(cs, c)
		}
	}
	vSortU64(cs)
	return cTup(cBool(m.fails), cBool(m.global), cBool(m.dest), cListN(cs))
}
func vC15GenRemote(r *vRand, chains []uint64) (*vC15Remote, string) {
	m := &vC15Remote{cursed: map[uint64]bool{}}
	cls := vPick(r, []string{"clean", "clean", "global", "dest", "fails", "one", "some", "all", "unrelated"})
	switch cls {
	case "global":
		m.global = true
	case "dest":
		m.dest = true
	case "fails":
		m.fails = true
	case "one":
		if len(chains) > 0 {
			m.cursed[vPick(r, chains)] = true
		}
	case "some":
		for _, c := range chains {
			if r.Bool() {
				m.cursed[c] = true
			}
		}
	case "all":
		for _, c := range chains {
			m.cursed[c] = true
		}
	case "unrelated":
		m.cursed[777] = true
		m.cursed[1<<64-1] = true
	}
	if r.Chance(1, 10) && len(chains) > 0 { // a source curse on top of whatever else
		m.cursed[vPick(r, chains)] = true
	}
	return m, cls
}

// ShouldAcceptAttestedReport of the commit plugin under a scripted curse reader; one plugin instance sees a
// sequence of reports while the curse set changes (nothing may be remembered between calls).
func TestVerif_C15_accept_commit(t *testing.T) {
	ctx := context.Background()
	r := vNewRand(vSeed() + 16)
	n := vEnvInt("VERIF_N", 300)
	sink := vOpenSink("C15_acc_commit")
	defer sink.Close()
	codec := mocks.NewCommitPluginJSONReportCodec()
	pool := []uint64{1, 2, 3, 5, 8, 13, 1<<64 - 2}
	i := 0
	for i < n {
		hc := vNewHomeChain()
		me := commontypes.OracleID(1)
		m := map[commontypes.OracleID]libocrtypes.PeerID{me: vPeer(1)}
		hc.SetChain(900, 1, []libocrtypes.PeerID{vPeer(1)})
		rem := &vC15Remote{}
		rmn := r.Bool()
		rd := &vCCIPReader{CurseFn: func(d cciptypes.ChainSelector, s []cciptypes.ChainSelector) (*readerpkg.CurseInfo, error) { return rem.Fn(d, s) }}
		p := &Plugin{
			oracleID: me, oracleIDToP2PID: m,
			offchainCfg: pluginconfig.CommitOffchainConfig{RMNEnabled: rmn},
			ccipReader:  rd, reportCodec: codec, lggr: mocks.NullLogger, homeChain: hc,
			reportingCfg: ocr3types.ReportingPluginConfig{OracleID: me},
			chainSupport: plugincommon.NewChainSupport(mocks.NullLogger, hc, m, me, 900),
		}
		steps := r.Range(1, 4)
		for st := 0; st < steps && i < n; st++ {
			k := vPick(r, []int{0, 1, 1, 2, 3})
			perm := r.Perm(len(pool))
			var srcs []uint64
			for x := 0; x < k; x++ {
				srcs = append(srcs, pool[perm[x]])
			}
			if k >= 2 && r.Chance(1, 6) {
				srcs[1] = srcs[0] // the same chain twice in one report
			}
			var cls string
			rem, cls = vC15GenRemote(r, srcs)
			rep := cciptypes.CommitPluginReport{}
			for _, c := range srcs {
				rep.MerkleRoots = append(rep.MerkleRoots, cciptypes.MerkleRootChain{ChainSel: cciptypes.ChainSelector(c),
					SeqNumsRange: cciptypes.NewSeqNumRange(1, 2), MerkleRoot: cciptypes.Bytes32{1}})
			}
			tp, gp := r.Intn(2), r.Intn(2)
			for x := 0; x < tp; x++ {
				rep.PriceUpdates.TokenPriceUpdates = append(rep.PriceUpdates.TokenPriceUpdates, cciptypes.TokenPrice{TokenID: "t", Price: cciptypes.NewBigIntFromInt64(1)})
			}
			for x := 0; x < gp; x++ {
				rep.PriceUpdates.GasPriceUpdates = append(rep.PriceUpdates.GasPriceUpdates, cciptypes.GasPriceChain{ChainSel: 1, GasPrice: cciptypes.NewBigIntFromInt64(1)})
			}
			sigs := r.Intn(3)
			for x := 0; x < sigs; x++ {
				rep.RMNSignatures = append(rep.RMNSignatures, cciptypes.RMNECDSASignature{})
			}
			f := uint64(r.Intn(3))
			infoOK := !r.Chance(1, 8)
			rb, err := codec.Encode(ctx, rep)
			if err != nil {
				t.Fatal(err)
			}
			info, _ := ReportInfo{RemoteF: f}.Encode()
			if !infoOK {
				info = []byte("{")
			}
			ok, err := p.ShouldAcceptAttestedReport(ctx, 1, ocr3types.ReportWithInfo[[]byte]{Report: rb, Info: info})
			o := 0
			if err != nil {
				o = 2
			} else if ok {
				o = 1
			}
			if st > 0 {
				cls = "history/" + cls
			}
			in := cTup(cNi(0), cListN(srcs), rem.Coq(), cTup(cNi(tp), cNi(gp), cNi(sigs), cBool(infoOK), cBool(rmn), cN(f)))
			sink.Emit("C15_acc_commit", cls, len(srcs) > 0, cPair(in, cNi(o)),
				map[string]any{"srcs": srcs, "step": st, "rmn": rmn})
			i++
		}
	}
}

//go:build verif

// C11 / C12 — shared machinery of the long-lived-instance parts (identical text in harness/commit/c11c12_hist_test.go and
// harness/execute/c11c12_hist_test.go apart from the package clause): a scripted CCIPHome contract reader, one REAL
// home-chain poller (internal/reader homeChainPoller) per oracle on top of it, histories of role-map changes between
// polls, and the direct queries of the poller / plugincommon.ChainSupport API.
// (approach of harness/execute/c16r_test.go, generalised)
package commit

import (
	"context"
	"fmt"
	"sort"
	"strings"
	"sync"
	"sync/atomic"
	"testing"
	"time"

	cctypesRH "github.com/smartcontractkit/chainlink-common/pkg/types"
	"github.com/smartcontractkit/chainlink-common/pkg/types/query/primitives"
	"github.com/smartcontractkit/libocr/commontypes"
	libocrtypes "github.com/smartcontractkit/libocr/ragep2p/types"

	"github.com/smartcontractkit/chainlink-ccip/chainconfig"
	"github.com/smartcontractkit/chainlink-ccip/internal/mocks"
	"github.com/smartcontractkit/chainlink-ccip/internal/plugincommon"
	"github.com/smartcontractkit/chainlink-ccip/internal/reader"
	"github.com/smartcontractkit/chainlink-ccip/pkg/consts"
	cciptypes "github.com/smartcontractkit/chainlink-ccip/pkg/types/ccipocr3"
)

// ---------- role map on the home chain ----------
type vRHCfg struct {
	Oracles []int // oracle ids of the DON (keys of oracleIDToP2PID): fixed for the lifetime of the plugins
	Chains  []uint64
	F       map[uint64]int
	Readers map[uint64][]int // may contain peers of other DONs (ids >= 20)
	Dest    uint64
	Feed    uint64
	saved   *vRHCfg // the configuration before everything was removed (kind empty-config), for the restoring step
}

func (c *vRHCfg) clone() *vRHCfg {
	d := &vRHCfg{Oracles: append([]int{}, c.Oracles...), Chains: append([]uint64{}, c.Chains...), F: map[uint64]int{},
		Readers: map[uint64][]int{}, Dest: c.Dest, Feed: c.Feed, saved: c.saved}
	for k, v := range c.F {
		d.F[k] = v
	}
	for k, v := range c.Readers {
		d.Readers[k] = append([]int{}, v...)
	}
	return d
}
func (c *vRHCfg) has(ch uint64) bool {
	for _, x := range c.Chains {
		if x == ch {
			return true
		}
	}
	return false
}
func (c *vRHCfg) reads(o int, ch uint64) bool {
	if !c.has(ch) {
		return false
	}
	for _, x := range c.Readers[ch] {
		if x == o {
			return true
		}
	}
	return false
}
func (c *vRHCfg) role(o int) []uint64 {
	var out []uint64
	for _, ch := range c.Chains {
		if c.reads(o, ch) {
			out = append(out, ch)
		}
	}
	return out
}
func (c *vRHCfg) addReader(o int, ch uint64) {
	if !c.reads(o, ch) {
		c.Readers[ch] = append(c.Readers[ch], o)
	}
}
func (c *vRHCfg) dropReader(o int, ch uint64) {
	var out []int
	for _, x := range c.Readers[ch] {
		if x != o {
			out = append(out, x)
		}
	}
	c.Readers[ch] = out
}
func (c *vRHCfg) addChain(ch uint64, f int, readers []int) {
	if !c.has(ch) {
		c.Chains = append(c.Chains, ch)
		sort.Slice(c.Chains, func(i, j int) bool { return c.Chains[i] < c.Chains[j] })
	}
	c.F[ch] = f
	c.Readers[ch] = append([]int{}, readers...)
}
func (c *vRHCfg) dropChain(ch uint64) {
	var out []uint64
	for _, x := range c.Chains {
		if x != ch {
			out = append(out, x)
		}
	}
	c.Chains = out
	delete(c.F, ch)
	delete(c.Readers, ch)
}

// one poll result as a Coq term of type RolesHist.hpoll
func (c *vRHCfg) coqPoll() string {
	items := make([]string, len(c.Chains))
	for i, ch := range c.Chains {
		rs := make([]string, len(c.Readers[ch]))
		for k, o := range c.Readers[ch] {
			rs[k] = cNi(o)
		}
		items[i] = cPair(cN(ch), cPair(cNi(c.F[ch]), cList(rs)))
	}
	return cSome(cList(items))
}
func (c *vRHCfg) show() map[string]any {
	rd := map[string][]int{}
	for _, ch := range c.Chains {
		rd[fmt.Sprint(ch)] = c.Readers[ch]
	}
	return map[string]any{"chains": c.Chains, "f": fmt.Sprint(c.F), "readers": rd}
}

// ---------- scripted CCIPHome ----------
type vRHState struct {
	mu   sync.Mutex
	cfg  *vRHCfg
	fail bool
	r    *vRand // emission order of the chain configs and of the readers is re-drawn at every fetch
}

// one contract reader per poller (the fetch counters are per poller), all on the same contract state
type vRHHome struct {
	cctypesRH.UnimplementedContractReader
	st      *vRHState
	fetches atomic.Int64 // GetAllChainConfigs calls answered or refused
}

func (h *vRHHome) GetLatestValue(ctx context.Context, id string, conf primitives.ConfidenceLevel, params, ret any) error {
	st := h.st
	st.mu.Lock()
	defer st.mu.Unlock()
	if !strings.HasSuffix(id, consts.MethodNameGetAllChainConfigs) {
		return fmt.Errorf("verif: unexpected read %q", id)
	}
	out, ok := ret.(*[]reader.ChainConfigInfo)
	if !ok {
		return fmt.Errorf("verif: unexpected return %T", ret)
	}
	defer h.fetches.Add(1)
	if st.fail {
		return vErrNext()
	}
	pm, _ := params.(map[string]any)
	if idx, _ := pm["pageIndex"].(uint64); idx > 0 {
		*out = nil
		return nil
	}
	enc, _ := chainconfig.EncodeChainConfig(chainconfig.ChainConfig{GasPriceDeviationPPB: cciptypes.NewBigIntFromInt64(1000), OptimisticConfirmations: 1})
	var res []reader.ChainConfigInfo
	for _, i := range st.r.Perm(len(st.cfg.Chains)) {
		ch := st.cfg.Chains[i]
		rs := st.cfg.Readers[ch]
		var ps []libocrtypes.PeerID
		for _, k := range st.r.Perm(len(rs)) {
			ps = append(ps, vPeer(rs[k]))
		}
		res = append(res, reader.ChainConfigInfo{ChainSelector: cciptypes.ChainSelector(ch),
			ChainConfig: reader.HomeChainConfigMapper{Readers: ps, FChain: uint8(st.cfg.F[ch]), Config: enc}})
	}
	*out = res
	return nil
}

// ---------- the DON: one long-lived poller + ChainSupport per oracle ----------
type vRHDon struct {
	st     *vRHState
	homes  []*vRHHome
	hcs    []reader.HomeChain
	cs     []plugincommon.ChainSupport
	p2p    map[commontypes.OracleID]libocrtypes.PeerID
	polls  []string // Coq terms of the poll results every poller has gone through, oldest first
	shows  []any
	allChs map[uint64]bool // every chain ever configured
}

func vRHNewDon(t *testing.T, r *vRand, c *vRHCfg) *vRHDon {
	d := &vRHDon{st: &vRHState{cfg: c.clone(), r: vNewRand(r.U64())}, p2p: map[commontypes.OracleID]libocrtypes.PeerID{}, allChs: map[uint64]bool{}}
	for _, o := range c.Oracles {
		d.p2p[commontypes.OracleID(o)] = vPeer(o)
	}
	for _, o := range c.Oracles {
		h := &vRHHome{st: d.st}
		hc := reader.NewHomeChainConfigPoller(h, mocks.NullLogger, 2*time.Millisecond,
			cctypesRH.BoundContract{Address: "0xCC", Name: consts.ContractNameCCIPConfig})
		if err := hc.Start(context.Background()); err != nil {
			t.Fatal(err)
		}
		d.homes = append(d.homes, h)
		d.hcs = append(d.hcs, hc)
		d.cs = append(d.cs, plugincommon.NewChainSupport(mocks.NullLogger, hc, d.p2p, commontypes.OracleID(o), cciptypes.ChainSelector(c.Dest)))
	}
	d.record(c, false)
	d.sync(t)
	return d
}

func (d *vRHDon) record(c *vRHCfg, failed bool) {
	if failed {
		d.polls = append(d.polls, "None")
		d.shows = append(d.shows, "failed poll")
		return
	}
	d.polls = append(d.polls, c.coqPoll())
	d.shows = append(d.shows, c.show())
	for _, ch := range c.Chains {
		d.allChs[ch] = true
	}
}

// the contract now holds c; with failed = true every read of it fails (the pollers must keep their last good state).
// Returns after every poller has completed at least one fetch that started after the change.
func (d *vRHDon) apply(t *testing.T, c *vRHCfg, failed bool) {
	d.st.mu.Lock()
	d.st.cfg = c.clone()
	d.st.fail = failed
	d.st.mu.Unlock()
	d.record(c, failed)
	d.sync(t)
}

// a fetch counted after the call has read the contract after the call; when the second such fetch is being answered
// the first one has gone through setState (the poll loop is sequential)
func (d *vRHDon) sync(t *testing.T) {
	c0 := make([]int64, len(d.homes))
	for i, h := range d.homes {
		c0[i] = h.fetches.Load()
	}
	// the events: every poller's fetch counter has advanced by two. The pollers poll every 2 ms; "does not poll" is
	// decided by a watch (30 s that stretch when the machine is starved) and only after a second, longer one has
	// expired as well - never by the wall clock alone
	for i, h := range d.homes {
		polled := func() bool { return h.fetches.Load() >= c0[i]+2 }
		if !vAwait(30*time.Second, polled) && !vAwait(60*time.Second, polled) {
			t.Fatalf("verif: home-chain poller %d did not poll", i)
		}
	}
}

func (d *vRHDon) close() {
	for _, hc := range d.hcs {
		_ = hc.Close()
	}
}

// history context as a Coq term of type RolesHist_check.hctx
func (d *vRHDon) coqCtx(c *vRHCfg) string {
	os := make([]string, len(c.Oracles))
	for i, o := range c.Oracles {
		os[i] = cNi(o)
	}
	return cTup(cList(os), cN(c.Dest), cN(c.Feed), cList(d.polls))
}

// ---------- role-map changes ----------
type vRHChange struct {
	Kind    string
	Oracles []int    // oracles whose role changed
	Chains  []uint64 // chains concerned
	Removed [][2]int // (oracle, chain) designations taken away
	Added   [][2]int // (oracle, chain) designations given
	Failed  bool     // the poll that would have fetched it fails
}

var vRHKinds = []string{"add-chain-to-oracle", "drop-chain-keep-others", "drop-dest-keep-others", "add-dest", "drop-oracle", "add-oracle",
	"change-f", "rotate", "drop-chain", "add-chain", "swap", "several", "several", "failed-poll", "foreign-reader", "empty-config"}

// after an empty-config step the next step is one of these whatever was planned: the old configuration again (the
// contract answered one empty page in between) or a new role map built from nothing
var vRHRestoreKinds = []string{"empty-page-then-same", "rebuild-after-empty"}

// vRHMutate returns the next configuration; opts: keepDest = the destination chain stays configured,
// extraChains = selectors that may be added as new chains
func vRHMutate(r *vRand, cur *vRHCfg, kind string, keepDest bool, extraChains []uint64) (*vRHCfg, *vRHChange) {
	c := cur.clone()
	chg := &vRHChange{Kind: kind}
	note := func(o int, ch uint64) {
		seenO, seenC := false, false
		for _, x := range chg.Oracles {
			seenO = seenO || x == o
		}
		for _, x := range chg.Chains {
			seenC = seenC || x == ch
		}
		if !seenO {
			chg.Oracles = append(chg.Oracles, o)
		}
		if !seenC {
			chg.Chains = append(chg.Chains, ch)
		}
	}
	add := func(o int, ch uint64) {
		if c.has(ch) && !c.reads(o, ch) {
			c.addReader(o, ch)
			chg.Added = append(chg.Added, [2]int{o, int(ch)})
			note(o, ch)
		}
	}
	drop := func(o int, ch uint64) {
		if c.reads(o, ch) {
			c.dropReader(o, ch)
			chg.Removed = append(chg.Removed, [2]int{o, int(ch)})
			note(o, ch)
		}
	}
	depth := 0
	var one func(kind string)
	one = func(kind string) {
		depth++
		if depth > 6 {
			return
		}
		o := vPick(r, c.Oracles)
		switch kind {
		case "add-chain-to-oracle":
			for _, k := range r.Perm(len(c.Oracles)) {
				o = c.Oracles[k]
				var cand []uint64
				for _, ch := range c.Chains {
					if !c.reads(o, ch) {
						cand = append(cand, ch)
					}
				}
				if len(cand) > 0 {
					add(o, vPick(r, cand))
					return
				}
			}
			one("drop-chain-keep-others")
		case "drop-chain-keep-others", "drop-dest-keep-others":
			for _, k := range r.Perm(len(c.Oracles)) {
				o = c.Oracles[k]
				rl := c.role(o)
				if len(rl) < 2 {
					continue
				}
				if kind == "drop-dest-keep-others" {
					if c.reads(o, c.Dest) {
						drop(o, c.Dest)
						return
					}
					continue
				}
				drop(o, vPick(r, rl))
				return
			}
			one("add-chain-to-oracle")
		case "add-dest":
			for _, k := range r.Perm(len(c.Oracles)) {
				o = c.Oracles[k]
				if c.has(c.Dest) && !c.reads(o, c.Dest) {
					add(o, c.Dest)
					return
				}
			}
			one("drop-dest-keep-others")
		case "drop-oracle":
			for _, ch := range c.role(o) {
				drop(o, ch)
			}
		case "add-oracle":
			// an oracle without any chain (if there is one) is given chains; otherwise one oracle is given everything
			for _, k := range r.Perm(len(c.Oracles)) {
				if len(c.role(c.Oracles[k])) == 0 {
					o = c.Oracles[k]
					break
				}
			}
			for _, ch := range c.Chains {
				if r.Chance(2, 3) || ch == c.Dest {
					add(o, ch)
				}
			}
		case "change-f":
			if len(c.Chains) > 0 {
				ch := vPick(r, c.Chains)
				c.F[ch] = 3 - c.F[ch] // 1 <-> 2
				chg.Chains = append(chg.Chains, ch)
			}
		case "rotate":
			// same sets, other order (the scripted contract also shuffles at every fetch)
			for _, ch := range c.Chains {
				rs := c.Readers[ch]
				if len(rs) > 1 {
					c.Readers[ch] = append(rs[1:], rs[0])
				}
			}
		case "drop-chain":
			var cand []uint64
			for _, ch := range c.Chains {
				if ch != c.Dest || !keepDest {
					cand = append(cand, ch)
				}
			}
			if len(cand) > 1 {
				ch := vPick(r, cand)
				for _, x := range c.Readers[ch] {
					chg.Removed = append(chg.Removed, [2]int{x, int(ch)})
					note(x, ch)
				}
				c.dropChain(ch)
			}
		case "add-chain":
			var cand []uint64
			for _, ch := range extraChains {
				if !c.has(ch) {
					cand = append(cand, ch)
				}
			}
			if len(cand) == 0 {
				one("drop-chain")
				return
			}
			ch := vPick(r, cand)
			var rs []int
			for _, x := range c.Oracles {
				if r.Chance(2, 3) {
					rs = append(rs, x)
				}
			}
			c.addChain(ch, r.Range(1, 2), nil)
			for _, x := range rs {
				add(x, ch)
			}
			note(o, ch)
		case "swap":
			// one oracle loses a chain another one gains
			for _, ki := range r.Perm(len(c.Chains)) {
				ch := c.Chains[ki]
				var in, out []int
				for _, x := range c.Oracles {
					if c.reads(x, ch) {
						in = append(in, x)
					} else {
						out = append(out, x)
					}
				}
				if len(in) > 0 && len(out) > 0 {
					drop(vPick(r, in), ch)
					add(vPick(r, out), ch)
					return
				}
			}
			one("drop-chain-keep-others")
		case "foreign-reader":
			// a peer of another DON is added to / removed from a chain
			if len(c.Chains) > 0 {
				ch := vPick(r, c.Chains)
				p := 20 + r.Intn(2)
				if c.reads(p, ch) {
					c.dropReader(p, ch)
				} else {
					c.addReader(p, ch)
				}
				chg.Chains = append(chg.Chains, ch)
			}
		}
	}
	if len(cur.Chains) == 0 && cur.saved != nil {
		// the contract holds no chain config at all (the step before was empty-config)
		kind = vPick(r, vRHRestoreKinds)
		chg.Kind = kind
		c.saved = nil
		if kind == "empty-page-then-same" {
			c = cur.saved.clone()
			c.saved = nil
		} else {
			chs := []uint64{cur.Dest}
			for _, ch := range extraChains {
				if ch != cur.Dest && (ch == cur.Feed || r.Chance(1, 2)) {
					chs = append(chs, ch)
				}
			}
			for _, ch := range chs {
				c.addChain(ch, r.Range(1, 2), nil)
			}
		}
		for _, ch := range c.Chains {
			rs := c.Readers[ch]
			if kind != "empty-page-then-same" {
				rs = nil
				for _, x := range c.Oracles {
					if r.Chance(2, 3) {
						rs = append(rs, x)
					}
				}
				if len(rs) == 0 {
					rs = []int{c.Oracles[0]}
				}
				c.Readers[ch] = rs
			}
			for _, x := range rs {
				chg.Added = append(chg.Added, [2]int{x, int(ch)})
				note(x, ch)
			}
		}
		return c, chg
	}
	switch kind {
	case "empty-config":
		// every chain config is removed: the next successful poll answers with an empty first page
		sv := cur.clone()
		sv.saved = nil
		for _, ch := range append([]uint64{}, c.Chains...) {
			for _, x := range c.Readers[ch] {
				chg.Removed = append(chg.Removed, [2]int{x, int(ch)})
				note(x, ch)
			}
			c.dropChain(ch)
		}
		c.saved = sv
	case "several":
		for x := 0; x < r.Range(2, 4); x++ {
			one(vPick(r, []string{"add-chain-to-oracle", "drop-chain-keep-others", "drop-dest-keep-others", "add-dest", "drop-oracle",
				"add-oracle", "change-f", "rotate", "drop-chain", "add-chain", "swap", "foreign-reader"}))
		}
	case "failed-poll":
		one(vPick(r, []string{"add-chain-to-oracle", "drop-chain-keep-others", "drop-dest-keep-others", "add-dest", "drop-oracle", "swap"}))
		chg.Failed = true
	default:
		one(kind)
	}
	return c, chg
}

// ---------- direct queries of the poller / ChainSupport API ----------
func vRHPeerID(p libocrtypes.PeerID) int { return int(p[0]) - 1 }

func vRHSetCoq(xs []cciptypes.ChainSelector) string {
	out := make([]uint64, len(xs))
	for i, x := range xs {
		out[i] = uint64(x)
	}
	vSortU64(out)
	return cListN(out)
}
func vRHChainCfgCoq(cc reader.ChainConfig) string {
	var ids []uint64
	for _, p := range cc.SupportedNodes.ToSlice() {
		ids = append(ids, uint64(vRHPeerID(p)))
	}
	vSortU64(ids)
	return cPair(cZ(int64(cc.FChain)), cListN(ids))
}

// vRHQueryAll asks instance k everything about the given peers / oracles / chains; one case per query
func (d *vRHDon) queryAll(sink *vSink, sinkName string, c *vRHCfg, k int, cls string, show map[string]any) {
	hc, cs := d.hcs[k], d.cs[k]
	ctxS := d.coqCtx(c)
	emit := func(q, a, what string) {
		sh := map[string]any{"query": what, "answer": a, "instance": c.Oracles[k], "polls": d.shows}
		for kk, v := range show {
			sh[kk] = v
		}
		sink.Emit(sinkName, cls+"/"+strings.SplitN(what, "(", 2)[0], true, cPair(cPair(ctxS, q), a), sh)
	}
	peers := append(append([]int{}, c.Oracles...), 20, 21, 15)
	for _, p := range peers {
		s, err := hc.GetSupportedChainsForPeer(vPeer(p))
		a := "(ASet [99999%N])"
		if err == nil {
			a = cApp("ASet", vRHSetCoq(s.ToSlice()))
		}
		emit(cApp("QSupported", cNi(p)), a, fmt.Sprintf("GetSupportedChainsForPeer(%d)", p))
	}
	{
		s, err := hc.GetKnownCCIPChains()
		a := "(ASet [99999%N])"
		if err == nil {
			a = cApp("ASet", vRHSetCoq(s.ToSlice()))
		}
		emit("QKnown", a, "GetKnownCCIPChains()")
	}
	var chs []uint64
	for ch := range d.allChs {
		chs = append(chs, ch)
	}
	chs = append(chs, 77)
	vSortU64(chs)
	for _, ch := range chs {
		cc, err := hc.GetChainConfig(cciptypes.ChainSelector(ch))
		a := cApp("ACfg", "None")
		if err == nil {
			a = cApp("ACfg", cSome(vRHChainCfgCoq(cc)))
		}
		emit(cApp("QChainCfg", cN(ch)), a, fmt.Sprintf("GetChainConfig(%d)", ch))
	}
	{
		m, err := hc.GetFChain()
		a := "(AFch [(99999%N, 0%Z)])"
		if err == nil {
			var ks []uint64
			for kk := range m {
				ks = append(ks, uint64(kk))
			}
			vSortU64(ks)
			items := make([]string, len(ks))
			for i, kk := range ks {
				items[i] = cPair(cN(kk), cZ(int64(m[cciptypes.ChainSelector(kk)])))
			}
			a = cApp("AFch", cList(items))
		}
		emit("QFChain", a, "GetFChain()")
	}
	{
		m, err := hc.GetAllChainConfigs()
		a := "(AAll [(99999%N, (0%Z, []))])"
		if err == nil {
			var ks []uint64
			for kk := range m {
				ks = append(ks, uint64(kk))
			}
			vSortU64(ks)
			items := make([]string, len(ks))
			for i, kk := range ks {
				items[i] = cPair(cN(kk), vRHChainCfgCoq(m[cciptypes.ChainSelector(kk)]))
			}
			a = cApp("AAll", cList(items))
		}
		emit("QAll", a, "GetAllChainConfigs()")
	}
	for _, o := range append(append([]int{}, c.Oracles...), 15) {
		s, err := cs.SupportedChains(commontypes.OracleID(o))
		a := cApp("AOptSet", "None")
		if err == nil {
			a = cApp("AOptSet", cSome(vRHSetCoq(s.ToSlice())))
		}
		emit(cApp("QSupChains", cNi(o)), a, fmt.Sprintf("ChainSupport.SupportedChains(%d)", o))
		b, err := cs.SupportsDestChain(commontypes.OracleID(o))
		a = cApp("AOptB", "None")
		if err == nil {
			a = cApp("AOptB", cSome(cBool(b)))
		}
		emit(cApp("QSupDest", cNi(o)), a, fmt.Sprintf("ChainSupport.SupportsDestChain(%d)", o))
	}
	{
		s, err := cs.KnownSourceChainsSlice()
		a := "(ASet [99999%N])"
		if err == nil {
			// the order of this slice is part of its contract (ascending): not re-sorted here
			out := make([]uint64, len(s))
			for i, x := range s {
				out[i] = uint64(x)
			}
			a = cApp("ASet", cListN(out))
		}
		emit("QKnownSrc", a, "ChainSupport.KnownSourceChainsSlice()")
	}
}

// vRHPlan draws the kinds of the steps of one history: every kind appears early in some history
func vRHPlan(r *vRand, hist int, steps int) []string {
	out := make([]string, steps)
	for s := range out {
		out[s] = vRHKinds[(hist*5+s*3+r.Intn(2))%len(vRHKinds)]
	}
	return out
}

//go:build verif

package chainfee

import (
	"context"
	"encoding/json"
	"math/big"
	"sort"
	"strings"
	"testing"
	"time"

	"github.com/smartcontractkit/libocr/commontypes"
	libocrtypes "github.com/smartcontractkit/libocr/ragep2p/types"

	commonconfig "github.com/smartcontractkit/chainlink-common/pkg/config"
	"github.com/smartcontractkit/chainlink-common/pkg/logger"
	"github.com/smartcontractkit/chainlink-common/pkg/types"

	"github.com/smartcontractkit/chainlink-ccip/internal/plugincommon"
	cciptypes "github.com/smartcontractkit/chainlink-ccip/pkg/types/ccipocr3"
	"github.com/smartcontractkit/chainlink-ccip/pluginconfig"
)

// C14 (chainfee, histories): ONE processor built with NewProcessor over ONE home-chain fake lives through a history of
// rounds. Round k+1 is handed the Outcome value round k returned (JSON round-tripped, also when round k returned an error:
// commit.Plugin.Outcome stores it all the same) or an arbitrary non-empty previous outcome. Between rounds the role map,
// the chains' f, the number of observers, the agreement on f, the stored on-chain updates (fresh / heartbeat-due / absent /
// at the deviation boundary), the prices and the clock change, one aspect at a time and several at once.
// One case per round: (previous outcome, this round's full input) -> (verdicts, result, prices of the returned value).

type vC14HChainState struct {
	exec, da, price *big.Int
	stored          *Update // what the destination stores for the chain; nil = nothing stored
}

func vC14HGas(gs []cciptypes.GasPriceChain) string {
	if len(gs) == 0 {
		return "no_prices"
	}
	return cMap(gs, func(g cciptypes.GasPriceChain) string { return cPair(cN(uint64(g.ChainSel)), vC14Z(g.GasPrice.Int)) })
}

func vC14HPeers(ids []commontypes.OracleID, readers []int) []libocrtypes.PeerID {
	ps := make([]libocrtypes.PeerID, 0, len(readers))
	for _, j := range readers {
		ps = append(ps, vPeer(int(ids[j])))
	}
	return ps
}

func TestVerif_C14_cfh(t *testing.T) {
	r := vNewRand(vSeed() + 1415)
	n := vEnvInt("VERIF_N", 250)
	sink := vOpenSink("C14_cfh")
	defer sink.Close()
	e18 := big.NewInt(1e18)
	emitted := 0
	for hist := 0; emitted < n; hist++ {
		nOr := r.Range(4, 10)
		F := (nOr - 1) / 3
		hcls := "std"
		if r.Chance(1, 12) {
			F = r.Range(0, 3)
			hcls = "Frand"
		}
		perm := r.Perm(32)
		ids := make([]commontypes.OracleID, nOr)
		idmap := map[commontypes.OracleID]libocrtypes.PeerID{}
		for k := range ids {
			ids[k] = commontypes.OracleID(perm[k])
			idmap[ids[k]] = vPeer(int(ids[k]))
		}
		dest := cciptypes.ChainSelector(900)
		// f of a chain: mostly one the DON can reach (2f+1 <= N), sometimes not
		maxF := 1
		if nOr >= 6 {
			maxF = 2
		}
		pickF := func() int {
			if r.Chance(1, 10) {
				return r.Range(1, 2)
			}
			return r.Range(1, maxF)
		}
		chains := []vC14Chain{{sel: dest, f: pickF()}}
		for k, ns := 0, r.Range(1, 3); k < ns; k++ {
			chains = append(chains, vC14Chain{sel: cciptypes.ChainSelector(10 + r.Intn(3) + 10*k), f: pickF()})
		}
		hc := vNewHomeChain()
		for k := range chains {
			for j := range ids {
				if r.Chance(9, 10) {
					chains[k].readers = append(chains[k].readers, j)
				}
			}
			hc.SetChain(chains[k].sel, chains[k].f, vC14HPeers(ids, chains[k].readers))
		}
		freq := vPick(r, []time.Duration{time.Minute, time.Second, 3 * time.Hour})
		feeInfo := map[cciptypes.ChainSelector]pluginconfig.FeeInfo{}
		ppbOf := map[cciptypes.ChainSelector][2]int64{}
		for _, c := range chains {
			if r.Chance(7, 8) {
				p := [2]int64{vPick(r, []int64{1e6, 5e7, 1e9, 1}), vPick(r, []int64{1e6, 5e7, 2e9})}
				ppbOf[c.sel] = p
				feeInfo[c.sel] = pluginconfig.FeeInfo{ExecDeviationPPB: cciptypes.NewBigIntFromInt64(p[0]), DataAvailabilityDeviationPPB: cciptypes.NewBigIntFromInt64(p[1])}
			}
		}
		if r.Chance(1, 20) {
			feeInfo = nil
			ppbOf = map[cciptypes.ChainSelector][2]int64{}
			hcls += "+nofeeinfo"
		}
		// the long-lived instance: the real constructor, the chain support the plugin would hand it
		proc := NewProcessor(logger.Nop(), ids[0], dest, hc, nil,
			pluginconfig.CommitOffchainConfig{RemoteGasPriceBatchWriteFrequency: *commonconfig.MustNewDuration(freq), FeeInfo: feeInfo},
			plugincommon.NewChainSupport(logger.Nop(), hc, idmap, ids[0], dest), F)

		state := map[cciptypes.ChainSelector]*vC14HChainState{}
		for _, c := range chains {
			st := &vC14HChainState{
				exec:  new(big.Int).Mul(big.NewInt(int64(r.Range(1, 500))), big.NewInt(1e9)),
				da:    new(big.Int).Mul(big.NewInt(int64(r.Range(0, 50))), big.NewInt(1e8)),
				price: new(big.Int).Mul(big.NewInt(int64(r.Range(1, 5000))), e18),
			}
			if r.Chance(1, 8) {
				st.price = vC14Pow2(130)
			}
			state[c.sel] = st
		}
		now := time.Unix(1_700_000_000, int64(r.Intn(1e9))).UTC()
		lastNow := now
		arbPrev := func() Outcome {
			var gs []cciptypes.GasPriceChain
			for _, c := range chains[1:] {
				if r.Chance(2, 3) {
					gs = append(gs, cciptypes.GasPriceChain{ChainSel: c.sel, GasPrice: cciptypes.NewBigInt(vC14Mag(r))})
				}
			}
			if len(gs) == 0 || r.Chance(1, 4) {
				gs = append(gs, cciptypes.GasPriceChain{ChainSel: cciptypes.ChainSelector(4000 + r.Intn(3)), GasPrice: cciptypes.NewBigInt(vC14Mag(r))})
			}
			sort.Slice(gs, func(a, b int) bool { return gs[a].ChainSel < gs[b].ChainSel })
			return Outcome{GasPrices: gs}
		}
		prev, prevKind := Outcome{}, "first-empty"
		if r.Chance(1, 2) {
			prev, prevKind = arbPrev(), "first-arb"
		}
		var lastReturned Outcome
		rounds := r.Range(3, 8)
		// calm histories: every round is nominal (all oracles observe everything they can read, full agreement, no spread,
		// small clock steps, what was reported is written) except for ONE deviation; wild histories: everything varies at once
		calm := r.Chance(1, 2)
		if calm {
			hcls += "+calm"
			rounds = r.Range(4, 10)
			for _, c := range chains[1:] {
				if st := state[c.sel]; r.Bool() {
					st.stored = &Update{ChainFee: ComponentsUSDPrices{
						ExecutionFeePriceUSD: new(big.Int).Div(new(big.Int).Mul(st.exec, st.price), e18),
						DataAvFeePriceUSD:    new(big.Int).Div(new(big.Int).Mul(st.da, st.price), e18)}, Timestamp: now.Add(-freq / 2)}
				}
			}
		}
		for k := 0; k < rounds && emitted < n; k++ {
			var changes []string
			dev, devChain := "", r.Range(1, len(chains)-1)
			if calm && r.Chance(3, 4) {
				dev = vPick(r, []string{"roles", "f", "market", "heartbeat", "clockback", "wipe", "stored-boundary", "stored-heartbeat",
					"observers", "observers", "quiet", "quiet", "fdest-agreement", "fdest-agreement", "fsrc-agreement", "fc-count", "native",
					"outliers", "nup", "byz", "arbprev"})
			}
			// ---- the clock
			if k > 0 {
				lastNow = now
				step := vPick(r, []time.Duration{time.Second, time.Second, freq / 3, freq / 3, freq / 7, freq - 1, freq, freq + 1, 2 * freq})
				if calm {
					step = vPick(r, []time.Duration{time.Second, freq / 7})
					if dev == "heartbeat" {
						step = vPick(r, []time.Duration{freq - 1, freq, freq + 1, 2 * freq})
					}
				}
				now = now.Add(step)
				if (!calm && r.Chance(1, 12)) || dev == "clockback" {
					now = lastNow.Add(-time.Second)
					changes = append(changes, "clockback")
				}
			}
			// ---- environment changes between rounds: none / one / several
			if k > 0 {
				muts := []func(){
					func() { // role map: one oracle loses or gains a chain
						ci := r.Intn(len(chains))
						c := &chains[ci]
						if len(c.readers) > 0 && r.Bool() {
							x := r.Intn(len(c.readers))
							c.readers = append(append([]int{}, c.readers[:x]...), c.readers[x+1:]...)
						} else {
							have := map[int]bool{}
							for _, j := range c.readers {
								have[j] = true
							}
							for _, j := range r.Perm(nOr) {
								if !have[j] {
									c.readers = append(append([]int{}, c.readers...), j)
									break
								}
							}
						}
						hc.SetChain(c.sel, c.f, vC14HPeers(ids, c.readers))
						changes = append(changes, "roles")
					},
					func() { // the f of a chain (home chain configuration)
						c := &chains[r.Intn(len(chains))]
						if maxF == 2 || r.Chance(1, 6) {
							c.f = 3 - c.f
						}
						hc.SetChain(c.sel, c.f, vC14HPeers(ids, c.readers))
						if c.sel == dest {
							changes = append(changes, "fdest")
						} else {
							changes = append(changes, "fsrc")
						}
					},
					func() { // market move
						st := state[chains[r.Range(1, len(chains)-1)].sel]
						switch r.Intn(3) {
						case 0:
							st.exec = new(big.Int).Mul(big.NewInt(int64(r.Range(1, 500))), big.NewInt(1e9))
						case 1:
							st.price = new(big.Int).Mul(big.NewInt(int64(r.Range(1, 5000))), e18)
						case 2:
							st.exec = new(big.Int).Add(st.exec, big.NewInt(int64(r.Range(1, 1000))))
						}
						changes = append(changes, "market")
					},
				}
				switch {
				case calm:
					switch dev {
					case "roles":
						muts[0]()
					case "f":
						muts[1]()
					case "market":
						muts[2]()
					}
				case r.Intn(4) == 0:
				case r.Bool():
					vPick(r, muts)()
				default:
					for _, mi := range r.Perm(len(muts))[:r.Range(2, 3)] {
						muts[mi]()
					}
				}
			}
			// ---- what the destination stores: the last returned prices were written (or not), wiped, or sit at a boundary
			for ci, c := range chains {
				st := state[c.sel]
				curEx := new(big.Int).Div(new(big.Int).Mul(st.exec, st.price), e18)
				curDa := new(big.Int).Div(new(big.Int).Mul(st.da, st.price), e18)
				written := false
				for _, g := range lastReturned.GasPrices {
					if g.ChainSel == c.sel && (calm || r.Chance(3, 4)) {
						u := FromPackedFee(g.GasPrice.Int)
						st.stored = &Update{ChainFee: u, Timestamp: lastNow}
						written = true
					}
				}
				if written {
					continue
				}
				op := r.Intn(8)
				if calm {
					op = 7
					if ci == devChain {
						switch dev {
						case "wipe":
							op = 0
						case "stored-boundary":
							op = 1
						case "stored-heartbeat":
							op = 3
						}
					}
				}
				switch op {
				case 0, 4:
					st.stored = nil
				case 1, 2:
					pp, ok := ppbOf[c.sel]
					if !ok {
						pp = [2]int64{1e6, 1e6}
					}
					sEx, sDa := vC14Stored(r, curEx, pp[0]), new(big.Int).Set(curDa)
					if r.Chance(1, 3) {
						sEx, sDa = new(big.Int).Set(curEx), vC14Stored(r, curDa, pp[1])
					}
					ts := now.Add(-freq).Add(time.Duration(r.Range(-1, 1)))
					if r.Chance(1, 2) {
						ts = now.Add(-freq / 2)
					}
					st.stored = &Update{ChainFee: ComponentsUSDPrices{ExecutionFeePriceUSD: sEx, DataAvFeePriceUSD: sDa}, Timestamp: ts}
				case 3:
					if st.stored != nil { // same value, the heartbeat boundary
						st.stored = &Update{ChainFee: st.stored.ChainFee, Timestamp: now.Add(-freq).Add(time.Duration(r.Range(-1, 1)))}
					}
				}
			}
			if dev == "clockback" && k > 0 {
				// the clock went back across a heartbeat boundary: due at the previous round's time, not due now
				if st := state[chains[devChain].sel]; st.stored != nil {
					st.stored = &Update{ChainFee: st.stored.ChainFee, Timestamp: now.Add(-freq).Add(lastNow.Sub(now) / 2)}
				}
			}
			// ---- who observes this round, agreement on the destination's f
			nObs := vPick(r, []int{nOr, nOr, nOr, nOr, nOr, nOr, nOr, nOr, 2*F + 1, 2*F + 1, 2*chains[0].f + 1, vPick(r, []int{2 * F, 2 * chains[0].f}), r.Range(0, 1)})
			if calm {
				nObs = nOr
				if dev == "observers" {
					nObs = vPick(r, []int{2*F + 1, 2*chains[0].f + 1, 2 * F, 2 * chains[0].f, 1})
				}
			}
			if nObs > nOr {
				nObs = nOr
			}
			if nObs < nOr {
				changes = append(changes, "observers")
			}
			observers := r.Perm(nOr)[:nObs]
			isObs := map[int]bool{}
			for _, oi := range observers {
				isObs[oi] = true
			}
			quiet := r.Chance(1, 6)
			if calm {
				quiet = dev == "quiet"
			}
			if quiet {
				changes = append(changes, "quiet")
			}
			obs := make([]Observation, nOr)
			sameNow := r.Chance(1, 2) || calm
			for k := range obs {
				obs[k] = Observation{
					FeeComponents:     map[cciptypes.ChainSelector]types.ChainFeeComponents{},
					NativeTokenPrices: map[cciptypes.ChainSelector]cciptypes.BigInt{},
					ChainFeeUpdates:   map[cciptypes.ChainSelector]Update{},
					FChain:            map[cciptypes.ChainSelector]int{},
					TimestampNow:      now,
				}
				if !sameNow {
					obs[k].TimestampNow = now.Add(time.Duration(r.Range(-2000, 2000)) * time.Millisecond)
				}
			}
			for ci, c := range chains {
				cnt := nObs
				lose := (ci == 0 && r.Chance(1, 8)) || (ci != 0 && r.Chance(1, 5))
				if calm {
					lose = (ci == 0 && dev == "fdest-agreement") || (ci == devChain && dev == "fsrc-agreement")
				}
				if lose && ci == 0 {
					cnt = vPick(r, []int{2*F + 1, 2 * F, 0})
					changes = append(changes, "fdest-agreement")
				} else if lose {
					cnt = vPick(r, []int{2*F + 1, 2 * F, 1, 0})
					changes = append(changes, "fsrc-agreement")
				}
				for j, oi := range observers {
					if j < cnt {
						obs[oi].FChain[c.sel] = c.f
					} else if r.Chance(1, 3) {
						obs[oi].FChain[c.sel] = c.f + 1
					}
				}
			}
			spread := vPick(r, []int{0, 0, 1000, 200000})
			if calm {
				spread = 0
			}
			for ci, c := range chains {
				if ci == 0 && (calm || r.Chance(2, 3)) {
					continue
				}
				st := state[c.sel]
				var rd []int // the chain's readers that observe this round
				for _, j := range c.readers {
					if isObs[j] {
						rd = append(rd, j)
					}
				}
				order := r.Perm(len(rd))
				nFc := vC14Count(r, c.f, len(order))
				if r.Chance(1, 8) {
					nFc = 0
				}
				boundary := func() int { // a count at the chain's threshold, capped by who can observe
					x := vPick(r, []int{0, 2 * c.f, 2*c.f + 1})
					if x > len(order) {
						x = len(order)
					}
					return x
				}
				if calm {
					nFc = len(order)
					if dev == "fc-count" && ci == devChain {
						nFc = boundary()
					}
				}
				if quiet {
					nFc = vPick(r, []int{0, 0, 2 * c.f, 1})
					if nFc > len(order) {
						nFc = len(order)
					}
					if nFc > 2*c.f {
						nFc = 2 * c.f
					}
				}
				nNt := nFc
				if r.Chance(1, 3) {
					nNt = vPick(r, []int{vC14Count(r, c.f, len(order)), 0})
				}
				nOut := r.Intn(c.f + 1)
				if calm {
					nNt, nOut = nFc, 0
					if ci == devChain {
						switch dev {
						case "native":
							nNt = boundary()
						case "outliers":
							nOut = c.f
						}
					}
				}
				for j, ri := range order {
					oi := rd[ri]
					if j < nFc {
						e, d := vC14Near(r, st.exec, spread), vC14Near(r, st.da, spread)
						if st.da.Sign() == 0 {
							d = big.NewInt(0)
						}
						if j < nOut {
							e, d = vC14Outlier(r), vC14Outlier(r)
						}
						obs[oi].FeeComponents[c.sel] = types.ChainFeeComponents{ExecutionFee: e, DataAvailabilityFee: d}
					}
					if j < nNt {
						p := vC14Near(r, st.price, spread)
						if j < nOut {
							p = vC14Outlier(r)
						}
						obs[oi].NativeTokenPrices[c.sel] = cciptypes.NewBigInt(p)
					}
				}
				if st.stored != nil {
					var dr []int
					for _, j := range chains[0].readers {
						if isObs[j] {
							dr = append(dr, j)
						}
					}
					nUp := vC14Count(r, chains[0].f, len(dr))
					if r.Chance(1, 6) {
						nUp = 0 // nobody reports what the destination stores
					}
					nUo := 0
					if r.Chance(1, 4) {
						nUo = r.Intn(chains[0].f + 1)
					}
					if calm {
						nUp, nUo = len(dr), 0
						if dev == "nup" && ci == devChain {
							nUp = vPick(r, []int{0, 2 * chains[0].f, 2*chains[0].f + 1})
							if nUp > len(dr) {
								nUp = len(dr)
							}
						}
					}
					for j, ri := range r.Perm(len(dr)) {
						if j >= nUp {
							break
						}
						u := Update{ChainFee: ComponentsUSDPrices{ExecutionFeePriceUSD: new(big.Int).Set(st.stored.ChainFee.ExecutionFeePriceUSD),
							DataAvFeePriceUSD: new(big.Int).Set(st.stored.ChainFee.DataAvFeePriceUSD)}, Timestamp: st.stored.Timestamp}
						if j < nUo {
							u.ChainFee.ExecutionFeePriceUSD = vC14Outlier(r)
							u.Timestamp = u.Timestamp.Add(time.Duration(r.Range(-5, 5)) * time.Hour)
						}
						obs[dr[ri]].ChainFeeUpdates[c.sel] = u
					}
				}
			}
			byz := ""
			nByz := r.Intn(5) / 3
			if calm {
				nByz = 0
				if dev == "byz" {
					nByz = 1
				}
			}
			for b := 0; b < nByz && nObs > 0; b++ {
				oi := vPick(r, observers)
				c := vPick(r, chains)
				switch r.Intn(6) {
				case 0:
					obs[oi].FeeComponents[c.sel] = types.ChainFeeComponents{ExecutionFee: nil, DataAvailabilityFee: big.NewInt(1)}
					byz += "+nilexec"
				case 1:
					obs[oi].FeeComponents[c.sel] = types.ChainFeeComponents{ExecutionFee: big.NewInt(1), DataAvailabilityFee: big.NewInt(int64(r.Range(-1, 0)))}
					byz += "+da0orneg"
				case 2:
					obs[oi].NativeTokenPrices[c.sel] = vPick(r, []cciptypes.BigInt{{}, cciptypes.NewBigIntFromInt64(0), cciptypes.NewBigIntFromInt64(-3)})
					byz += "+badnative"
				case 3:
					obs[oi].ChainFeeUpdates[c.sel] = Update{Timestamp: now}
					byz += "+nilupdate"
				case 4:
					obs[oi].FChain[c.sel] = vPick(r, []int{0, -1})
					byz += "+fnonpos"
				case 5:
					obs[oi].FChain[c.sel] = vPick(r, []int{c.f + 1, 9, 1 << 40})
					byz += "+finflated"
				}
			}
			// ---- the previous outcome handed to this round
			if k > 0 {
				prevKind = "own"
				if (!calm && r.Chance(1, 6)) || dev == "arbprev" {
					prev, prevKind = arbPrev(), "arb"
				}
			}
			prevStr := vC14HGas(prev.GasPrices)

			aos := make([]plugincommon.AttributedObservation[Observation], 0, nObs)
			for _, oi := range observers {
				aos = append(aos, plugincommon.AttributedObservation[Observation]{OracleID: ids[oi], Observation: obs[oi]})
			}
			cls := hcls
			verdicts := make([]string, len(aos))
			var accepted []plugincommon.AttributedObservation[Observation]
			for k, ao := range aos {
				ok := func() (ok bool) {
					defer func() {
						if recover() != nil {
							ok = false
							cls += "+VALPANIC"
						}
					}()
					return proc.ValidateObservation(prev, Query{}, ao) == nil
				}()
				verdicts[k] = cBool(ok)
				if ok {
					accepted = append(accepted, ao)
				}
			}
			var returned Outcome
			res := func() (out string) {
				defer func() {
					if recover() != nil {
						out = "Panic"
						returned = Outcome{}
					}
				}()
				oc, err := proc.Outcome(context.Background(), prev, Query{}, accepted)
				returned = oc
				if err != nil {
					return "Err"
				}
				return cApp("Ok", vC14HGas(oc.GasPrices))
			}()
			carried := vC14HGas(returned.GasPrices)
			// what the next round is handed: the returned value through its JSON form, as the plugin outcome carries it
			lastReturned = returned
			var next Outcome
			if b, err := json.Marshal(returned); err != nil || json.Unmarshal(b, &next) != nil {
				t.Fatalf("outcome does not round-trip: %v", err)
			}

			sorted := append([]vC14Chain{}, chains...)
			sort.Slice(sorted, func(a, b int) bool { return sorted[a].sel < sorted[b].sel })
			roleStr := cMap(sorted, func(c vC14Chain) string {
				return cPair(cN(uint64(c.sel)), cMap(c.readers, func(j int) string { return cN(uint64(ids[j])) }))
			})
			known := cMap(ids, func(o commontypes.OracleID) string { return cN(uint64(o)) })
			var fiKeys []uint64
			for k := range feeInfo {
				fiKeys = append(fiKeys, uint64(k))
			}
			vSortU64(fiKeys)
			fiStr := cMap(fiKeys, func(k uint64) string {
				p := ppbOf[cciptypes.ChainSelector(k)]
				return cPair(cN(k), cPair(cZ(p[0]), cZ(p[1])))
			})
			aoStr := cMap(aos, func(ao plugincommon.AttributedObservation[Observation]) string {
				o := ao.Observation
				return cPair(cN(uint64(ao.OracleID)), cApp("mkCfRaw",
					vC14SortedMap(o.FeeComponents, func(c types.ChainFeeComponents) string {
						return cPair(vC14OptZ(c.ExecutionFee), vC14OptZ(c.DataAvailabilityFee))
					}),
					vC14SortedMap(o.NativeTokenPrices, func(b cciptypes.BigInt) string { return vC14OptZ(b.Int) }),
					vC14SortedMap(o.ChainFeeUpdates, func(u Update) string {
						return cTup(vC14OptZ(u.ChainFee.ExecutionFeePriceUSD), vC14OptZ(u.ChainFee.DataAvFeePriceUSD), vC14Zi(u.Timestamp.UnixNano()))
					}),
					vC14SortedMap(o.FChain, func(f int) string { return cZ(int64(f)) }),
					vC14Zi(o.TimestampNow.UnixNano())))
			})
			input := cPair(prevStr, cTup(vC14Zi(int64(freq)), fiStr, cZ(int64(F)), cN(uint64(dest)), roleStr, known, aoStr))
			cls += "/prev=" + prevKind
			if len(prev.GasPrices) > 0 {
				cls += "+"
			}
			if calm {
				changes = nil
				if dev != "" {
					changes = []string{dev}
				}
			}
			if len(changes) > 0 {
				sort.Strings(changes)
				cls += "/" + strings.Join(vC14HUniq(changes), ",")
			}
			if byz != "" {
				cls += "/byz"
			}
			switch {
			case res == "Err":
				cls += "/err"
			case res == "Panic":
				cls += "/panic"
			case len(returned.GasPrices) == 0:
				cls += "/none"
			default:
				cls += "/prices"
			}
			sink.Emit("C14_cfh", cls, len(prev.GasPrices) > 0, cPair(input, cApp("hist_o", cList(verdicts), res, carried)),
				map[string]any{"history": hist, "round": k, "F": F, "n": nOr, "freq_ns": int64(freq), "byz": byz, "changes": changes,
					"prev": prev, "prevKind": prevKind, "aos": aos, "feeInfo": ppbOf, "result": res, "returned": returned})
			emitted++
			prev = next
		}
		_ = proc.Close()
	}
}

func vC14HUniq(xs []string) []string {
	var out []string
	for i, x := range xs {
		if i == 0 || xs[i-1] != x {
			out = append(out, x)
		}
	}
	return out
}

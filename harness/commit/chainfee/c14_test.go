//go:build verif

package chainfee

import (
	"context"
	"math/big"
	"sort"
	"testing"
	"time"

	"github.com/smartcontractkit/libocr/commontypes"
	libocrtypes "github.com/smartcontractkit/libocr/ragep2p/types"

	commonconfig "github.com/smartcontractkit/chainlink-common/pkg/config"
	"github.com/smartcontractkit/chainlink-common/pkg/logger"
	"github.com/smartcontractkit/chainlink-common/pkg/types"

	"github.com/smartcontractkit/chainlink-ccip/internal/plugincommon"
	"github.com/smartcontractkit/chainlink-ccip/internal/plugincommon/consensus"
	cciptypes "github.com/smartcontractkit/chainlink-ccip/pkg/types/ccipocr3"
	"github.com/smartcontractkit/chainlink-ccip/pluginconfig"
)

// Coq numerals in hexadecimal: decimal literals of 20..80 digits dominate the parsing time of the case files
func vC14Z(b *big.Int) string {
	if b.Sign() < 0 {
		return "(-0x" + new(big.Int).Neg(b).Text(16) + ")%Z"
	}
	return "(0x" + b.Text(16) + ")%Z"
}
func vC14Zi(v int64) string { return vC14Z(big.NewInt(v)) }

// C14 (chainfee part): To/FromPackedFee, consensus.Median, and ValidateObservation + Outcome of the processor.

func vC14Pow2(n int) *big.Int { return new(big.Int).Lsh(big.NewInt(1), uint(n)) }

func vC14Mag(r *vRand) *big.Int {
	switch r.Intn(8) {
	case 0:
		return big.NewInt(0)
	case 1:
		return big.NewInt(int64(r.Range(1, 3)))
	case 2:
		return new(big.Int).Sub(vC14Pow2(112), big.NewInt(int64(r.Range(0, 2))))
	case 3:
		return new(big.Int).Add(vC14Pow2(112), big.NewInt(int64(r.Range(0, 2))))
	case 4:
		return vC14Pow2(r.Range(100, 260))
	default:
		return new(big.Int).SetUint64(r.U64() >> uint(r.Intn(60)))
	}
}

func vC14OptZ(b *big.Int) string {
	if b == nil {
		return cNone()
	}
	return cSome(vC14Z(b))
}

var vC14BigSels = []cciptypes.ChainSelector{5009297550715157269, 11344663589394136015, 15971525489660198786, 4949039107694359620,
	3734403246176062136, 4051577828743386545, 6433500567565415381, 16015286601757825753, 13264668187771770619,
	1<<64 - 1, 1 << 63, 7}

func TestVerif_C14_pack(t *testing.T) {
	r := vNewRand(vSeed() + 1403)
	n := vEnvInt("VERIF_N", 200)
	sink := vOpenSink("C14_pack")
	defer sink.Close()
	for i := 0; i < n; i++ {
		da, ex := vC14Mag(r), vC14Mag(r)
		cls := "nonneg"
		if r.Chance(1, 10) {
			ex.Neg(ex)
			cls = "negexec"
		}
		da0, ex0 := new(big.Int).Set(da), new(big.Int).Set(ex)
		packed := ComponentsUSDPrices{ExecutionFeePriceUSD: ex, DataAvFeePriceUSD: da}.ToPackedFee()
		back := FromPackedFee(packed)
		if da0.Cmp(da) != 0 || ex0.Cmp(ex) != 0 {
			cls += "+MUTATED-ARGS"
		}
		if ex0.Cmp(vC14Pow2(112)) >= 0 {
			cls += "+execoverflow"
		}
		sink.Emit("C14_pack", cls, ex0.Sign() > 0 && da0.Sign() > 0,
			cPair(cPair(vC14Z(da0), vC14Z(ex0)), cPair(vC14Z(packed), cPair(vC14Z(back.ExecutionFeePriceUSD), vC14Z(back.DataAvFeePriceUSD)))),
			map[string]any{"da": da0.String(), "exec": ex0.String(), "packed": packed.String()})
	}
}

func TestVerif_C14_med(t *testing.T) {
	r := vNewRand(vSeed() + 1404)
	n := vEnvInt("VERIF_N", 200)
	sink := vOpenSink("C14_med")
	defer sink.Close()
	for i := 0; i < n; i++ {
		k := r.Range(1, 12)
		vals := make([]cciptypes.BigInt, k)
		strs := make([]string, k)
		base := vC14Mag(r)
		for j := range vals {
			var v *big.Int
			switch r.Intn(4) {
			case 0:
				v = vC14Mag(r)
			case 1:
				v = new(big.Int).Set(base)
			default:
				v = new(big.Int).Add(base, big.NewInt(int64(r.Range(-3, 3))))
			}
			vals[j] = cciptypes.NewBigInt(v)
			strs[j] = vC14Z(v)
		}
		m := consensus.Median(vals, consensus.BigIntComparator)
		for j := range vals { // input untouched?
			if vC14Z(vals[j].Int) != strs[j] {
				m = cciptypes.NewBigIntFromInt64(-12345)
			}
		}
		cls := "odd"
		if k%2 == 0 {
			cls = "even"
		}
		sink.Emit("C14_med", cls, k >= 3, cPair(cList(strs), vC14Z(m.Int)), map[string]any{"vals": strs, "median": m.String()})
	}
}

type vC14Chain struct {
	sel     cciptypes.ChainSelector
	f       int
	readers []int // indexes into ids
}

func vC14Count(r *vRand, f, n int) int {
	c := vPick(r, []int{2 * f, 2*f + 1, 2*f + 1, 2*f + 2, n, n})
	if c > n {
		c = n
	}
	if c < 0 {
		c = 0
	}
	return c
}

// a value near base (honest spread), or an outlier
func vC14Near(r *vRand, base *big.Int, spreadPPM int) *big.Int {
	if spreadPPM == 0 {
		return new(big.Int).Set(base)
	}
	d := new(big.Int).Mul(base, big.NewInt(int64(r.Range(-spreadPPM, spreadPPM))))
	d.Div(d, big.NewInt(1e6))
	v := new(big.Int).Add(base, d)
	if v.Sign() <= 0 {
		v.SetInt64(1)
	}
	return v
}

func vC14Outlier(r *vRand) *big.Int {
	return vPick(r, []*big.Int{big.NewInt(1), big.NewInt(2), vC14Pow2(256), vC14Pow2(130)})
}

// stored value at the deviation boundary of cur for threshold ppb: cur = stored*(1 + (ppb+d)/1e9) roughly
func vC14Stored(r *vRand, cur *big.Int, ppb int64) *big.Int {
	switch r.Intn(6) {
	case 0:
		return new(big.Int).Set(cur)
	case 1:
		return big.NewInt(0)
	case 2:
		return big.NewInt(int64(r.Range(1, 2)))
	}
	d := int64(r.Range(-1, 1))
	den := big.NewInt(1e9 + ppb + d)
	s := new(big.Int).Mul(cur, big.NewInt(1e9))
	s.Div(s, den)
	s.Add(s, big.NewInt(int64(r.Range(-1, 1))))
	if r.Chance(1, 4) { // stored above current
		s = new(big.Int).Mul(cur, den)
		s.Div(s, big.NewInt(1e9))
		s.Add(s, big.NewInt(int64(r.Range(-1, 1))))
	}
	if s.Sign() < 0 {
		s.SetInt64(0)
	}
	return s
}

func TestVerif_C14_cf(t *testing.T) {
	r := vNewRand(vSeed() + 1405)
	n := vEnvInt("VERIF_N", 300)
	sink := vOpenSink("C14_cf")
	defer sink.Close()
	e18 := big.NewInt(1e18)
	for i := 0; i < n; i++ {
		nOr := r.Range(4, 10)
		F := (nOr - 1) / 3
		cls := "std"
		if r.Chance(1, 12) {
			F = r.Range(0, 3)
			cls = "Frand"
		}
		perm := r.Perm(32)
		ids := make([]commontypes.OracleID, nOr)
		for k := range ids {
			ids[k] = commontypes.OracleID(perm[k])
		}
		dest := cciptypes.ChainSelector(900)
		chains := []vC14Chain{{sel: dest, f: r.Range(1, 2)}}
		// half of the cases: production-sized selectors (more than 2^63 apart / cyclic modulo 2^64), so that a subtracting or
		// truncating comparison of selectors shows (seeded change C10-11)
		bigSels, bigPerm := r.Chance(1, 2), r.Perm(len(vC14BigSels))
		for k, ns := 0, r.Range(1, 3); k < ns; k++ {
			sel := cciptypes.ChainSelector(10 + r.Intn(3) + 10*k)
			if bigSels {
				sel = vC14BigSels[bigPerm[k]]
			}
			chains = append(chains, vC14Chain{sel: sel, f: r.Range(1, 2)})
		}
		hc := vNewHomeChain()
		idmap := map[commontypes.OracleID]libocrtypes.PeerID{}
		for _, o := range ids {
			idmap[o] = vPeer(int(o))
		}
		for k := range chains {
			var peers []libocrtypes.PeerID
			for j, o := range ids {
				if r.Chance(9, 10) {
					chains[k].readers = append(chains[k].readers, j)
					peers = append(peers, vPeer(int(o)))
				}
			}
			hc.SetChain(chains[k].sel, chains[k].f, peers)
		}
		freq := vPick(r, []time.Duration{time.Minute, time.Second, 3 * time.Hour})
		feeInfo := map[cciptypes.ChainSelector]pluginconfig.FeeInfo{}
		ppbOf := map[cciptypes.ChainSelector][2]int64{}
		for _, c := range chains {
			if r.Chance(5, 6) {
				p := [2]int64{vPick(r, []int64{1e6, 5e7, 1e9, 1}), vPick(r, []int64{1e6, 5e7, 2e9})}
				ppbOf[c.sel] = p
				feeInfo[c.sel] = pluginconfig.FeeInfo{ExecDeviationPPB: cciptypes.NewBigIntFromInt64(p[0]), DataAvailabilityDeviationPPB: cciptypes.NewBigIntFromInt64(p[1])}
			}
		}
		if r.Chance(1, 15) {
			feeInfo = nil
			ppbOf = map[cciptypes.ChainSelector][2]int64{}
			cls += "+nofeeinfo"
		}
		proc := &processor{
			oracleID: ids[0], destChain: dest, lggr: logger.Nop(), fRoleDON: F,
			chainSupport: plugincommon.NewChainSupport(logger.Nop(), hc, idmap, ids[0], dest),
			cfg:          pluginconfig.CommitOffchainConfig{RemoteGasPriceBatchWriteFrequency: *commonconfig.MustNewDuration(freq), FeeInfo: feeInfo},
		}
		now := time.Unix(1_700_000_000, int64(r.Intn(1e9))).UTC()
		sameNow := r.Chance(1, 2)
		obs := make([]Observation, nOr)
		for k := range obs {
			obs[k] = Observation{
				FeeComponents:     map[cciptypes.ChainSelector]types.ChainFeeComponents{},
				NativeTokenPrices: map[cciptypes.ChainSelector]cciptypes.BigInt{},
				ChainFeeUpdates:   map[cciptypes.ChainSelector]Update{},
				FChain:            map[cciptypes.ChainSelector]int{},
				TimestampNow:      now,
			}
			if !sameNow {
				obs[k].TimestampNow = now.Add(time.Duration(r.Range(-2000, 2000)) * time.Millisecond)
			}
		}
		// fChain: usually unanimous; sometimes a source chain has no agreed f (class of F08)
		nof := -1
		if r.Chance(1, 4) && len(chains) > 1 {
			nof = r.Range(1, len(chains)-1)
			cls += "+nof"
		}
		for ci, c := range chains {
			cnt := nOr
			if ci == nof {
				cnt = vPick(r, []int{0, 1, 2 * F})
			} else if ci != 0 && r.Chance(1, 8) {
				cnt = vPick(r, []int{2 * F, 2*F + 1})
			}
			for j, oi := range r.Perm(nOr) {
				if j < cnt {
					obs[oi].FChain[c.sel] = c.f
				} else if r.Chance(1, 3) {
					obs[oi].FChain[c.sel] = c.f + 1
				}
			}
		}
		// per source chain: fee components and native price from readers, honest spread + up to f outliers
		spread := vPick(r, []int{0, 0, 1000, 200000})
		for ci, c := range chains {
			if ci == 0 && r.Chance(2, 3) {
				continue
			}
			exec := new(big.Int).Mul(big.NewInt(int64(r.Range(1, 500))), big.NewInt(1e9))
			da := new(big.Int).Mul(big.NewInt(int64(r.Range(0, 50))), big.NewInt(1e8))
			price := new(big.Int).Mul(big.NewInt(int64(r.Range(1, 5000))), e18)
			if r.Chance(1, 8) {
				price = vC14Pow2(130)
			}
			if r.Chance(1, 10) {
				exec = big.NewInt(int64(r.Range(1, 3)))
				price = big.NewInt(int64(r.Range(1, 1e6)))
			}
			order := r.Perm(len(c.readers))
			nFc := vC14Count(r, c.f, len(order))
			nNt := nFc
			if r.Chance(1, 3) {
				nNt = vC14Count(r, c.f, len(order))
			}
			if ci == nof && r.Chance(1, 2) {
				nFc, nNt = 1, 1 // F08 shape: one oracle alone observes a chain nobody agreed an f for
			}
			nOut := r.Intn(c.f + 1)
			for j, ri := range order {
				oi := c.readers[ri]
				if j < nFc {
					e, d := vC14Near(r, exec, spread), vC14Near(r, da, spread)
					if da.Sign() == 0 {
						d = big.NewInt(0)
					}
					if j < nOut {
						e, d = vC14Outlier(r), vC14Outlier(r)
					}
					obs[oi].FeeComponents[c.sel] = types.ChainFeeComponents{ExecutionFee: e, DataAvailabilityFee: d}
				}
				if j < nNt {
					p := vC14Near(r, price, spread)
					if j < nOut {
						p = vC14Outlier(r)
					}
					obs[oi].NativeTokenPrices[c.sel] = cciptypes.NewBigInt(p)
				}
			}
			// stored updates (destination data): count around 2*fDest+1, values around the deviation boundary
			if r.Chance(3, 4) {
				curEx := new(big.Int).Div(new(big.Int).Mul(exec, price), e18)
				curDa := new(big.Int).Div(new(big.Int).Mul(da, price), e18)
				pp, ok := ppbOf[c.sel]
				if !ok {
					pp = [2]int64{1e6, 1e6}
				}
				sEx, sDa := vC14Stored(r, curEx, pp[0]), vC14Stored(r, curDa, pp[1])
				if r.Chance(1, 2) {
					sDa = new(big.Int).Set(curDa)
				} else if r.Chance(1, 2) {
					sEx = new(big.Int).Set(curEx)
				}
				ts := now.Add(-freq).Add(time.Duration(r.Range(-1, 1)))
				if r.Chance(1, 4) {
					ts = now.Add(-freq / 2)
				}
				dr := chains[0].readers
				nUp := vC14Count(r, chains[0].f, len(dr))
				for j, ri := range r.Perm(len(dr)) {
					if j >= nUp {
						break
					}
					u := Update{ChainFee: ComponentsUSDPrices{ExecutionFeePriceUSD: new(big.Int).Set(sEx), DataAvFeePriceUSD: new(big.Int).Set(sDa)}, Timestamp: ts}
					if j < r.Intn(chains[0].f+1) && r.Chance(1, 3) {
						u.ChainFee.ExecutionFeePriceUSD = vC14Outlier(r)
						u.Timestamp = ts.Add(time.Duration(r.Range(-5, 5)) * time.Hour)
					}
					obs[dr[ri]].ChainFeeUpdates[c.sel] = u
				}
			}
		}
		// malformed stream
		byz := ""
		for b, nb := 0, r.Intn(3); b < nb; b++ {
			oi := r.Intn(nOr)
			c := vPick(r, chains)
			switch r.Intn(9) {
			case 0:
				obs[oi].FeeComponents[c.sel] = types.ChainFeeComponents{ExecutionFee: nil, DataAvailabilityFee: big.NewInt(1)}
				byz += "+nilexec"
			case 1:
				obs[oi].FeeComponents[c.sel] = types.ChainFeeComponents{ExecutionFee: big.NewInt(1), DataAvailabilityFee: nil}
				byz += "+nilda"
			case 2:
				obs[oi].FeeComponents[c.sel] = types.ChainFeeComponents{ExecutionFee: big.NewInt(int64(r.Range(-1, 0))), DataAvailabilityFee: big.NewInt(1)}
				byz += "+nonposexec"
			case 3:
				obs[oi].FeeComponents[c.sel] = types.ChainFeeComponents{ExecutionFee: big.NewInt(1), DataAvailabilityFee: big.NewInt(int64(r.Range(-1, 0)))}
				byz += "+da0orneg"
			case 4:
				obs[oi].NativeTokenPrices[c.sel] = vPick(r, []cciptypes.BigInt{{}, cciptypes.NewBigIntFromInt64(0), cciptypes.NewBigIntFromInt64(-3)})
				byz += "+badnative"
			case 5: // F09: null inside an update
				u := Update{Timestamp: now}
				switch r.Intn(3) {
				case 0:
					u.ChainFee.ExecutionFeePriceUSD = big.NewInt(1)
				case 1:
					u.ChainFee.DataAvFeePriceUSD = big.NewInt(1)
				}
				obs[oi].ChainFeeUpdates[c.sel] = u
				byz += "+nilupdate"
			case 6:
				obs[oi].FChain[c.sel] = vPick(r, []int{0, -1})
				byz += "+fnonpos"
			case 7:
				obs[oi].FeeComponents[777] = types.ChainFeeComponents{ExecutionFee: big.NewInt(1), DataAvailabilityFee: big.NewInt(1)}
				byz += "+unsupported"
			case 8:
				obs[oi].FChain[c.sel] = vPick(r, []int{c.f + 1, 9, 1 << 40})
				byz += "+finflated"
			}
		}

		order := r.Perm(nOr)
		aos := make([]plugincommon.AttributedObservation[Observation], nOr)
		for k, oi := range order {
			aos[k] = plugincommon.AttributedObservation[Observation]{OracleID: ids[oi], Observation: obs[oi]}
		}
		verdicts := make([]string, nOr)
		var accepted []plugincommon.AttributedObservation[Observation]
		for k, ao := range aos {
			ok := func() (ok bool) {
				defer func() {
					if recover() != nil {
						ok = false
						cls += "+VALPANIC"
					}
				}()
				return proc.ValidateObservation(Outcome{}, Query{}, ao) == nil
			}()
			verdicts[k] = cBool(ok)
			if ok {
				accepted = append(accepted, ao)
			}
		}
		res := func() (out string) {
			defer func() {
				if recover() != nil {
					out = "Panic"
				}
			}()
			oc, err := proc.Outcome(context.Background(), Outcome{}, Query{}, accepted)
			if err != nil {
				return "Err"
			}
			return cApp("Ok", cMap(oc.GasPrices, func(g cciptypes.GasPriceChain) string {
				return cPair(cN(uint64(g.ChainSel)), vC14Z(g.GasPrice.Int))
			}))
		}()

		sort.Slice(chains, func(a, b int) bool { return chains[a].sel < chains[b].sel })
		roleStr := cMap(chains, func(c vC14Chain) string {
			return cPair(cN(uint64(c.sel)), cMap(c.readers, func(j int) string { return cN(uint64(ids[j])) }))
		})
		known := cMap(ids, func(o commontypes.OracleID) string { return cN(uint64(o)) })
		var fiKeys []uint64
		for k := range feeInfo {
			fiKeys = append(fiKeys, uint64(k))
		}
		vSortU64(fiKeys)
		fiStr := cMap(fiKeys, func(k uint64) string {
			p := ppbOf[cciptypes.ChainSelector(k)]
			return cPair(cN(k), cPair(cZ(p[0]), cZ(p[1])))
		})
		aoStr := cMap(aos, func(ao plugincommon.AttributedObservation[Observation]) string {
			o := ao.Observation
			return cPair(cN(uint64(ao.OracleID)), cApp("mkCfRaw",
				vC14SortedMap(o.FeeComponents, func(c types.ChainFeeComponents) string {
					return cPair(vC14OptZ(c.ExecutionFee), vC14OptZ(c.DataAvailabilityFee))
				}),
				vC14SortedMap(o.NativeTokenPrices, func(b cciptypes.BigInt) string { return vC14OptZ(b.Int) }),
				vC14SortedMap(o.ChainFeeUpdates, func(u Update) string {
					return cTup(vC14OptZ(u.ChainFee.ExecutionFeePriceUSD), vC14OptZ(u.ChainFee.DataAvFeePriceUSD), vC14Zi(u.Timestamp.UnixNano()))
				}),
				vC14SortedMap(o.FChain, func(f int) string { return cZ(int64(f)) }),
				vC14Zi(o.TimestampNow.UnixNano())))
		})
		input := cTup(vC14Zi(int64(freq)), fiStr, cZ(int64(F)), cN(uint64(dest)), roleStr, known, aoStr)
		full := cls
		if byz != "" {
			full += "/byz"
		}
		switch {
		case res == "Err":
			full += "/err"
		case res == "Panic":
			full += "/panic"
		case res == "(Ok [])":
			full += "/none"
		default:
			full += "/prices"
		}
		sink.Emit("C14_cf", full, res != "Err" && res != "Panic" && res != "(Ok [])", cPair(input, cPair(cList(verdicts), res)),
			map[string]any{"F": F, "n": nOr, "freq_ns": int64(freq), "byz": byz, "aos": aos, "feeInfo": ppbOf, "result": res})
	}
}

func vC14SortedMap[V any](m map[cciptypes.ChainSelector]V, pr func(V) string) string {
	ks := make([]uint64, 0, len(m))
	for k := range m {
		ks = append(ks, uint64(k))
	}
	vSortU64(ks)
	return cMap(ks, func(k uint64) string { return cPair(cN(k), pr(m[cciptypes.ChainSelector(k)])) })
}

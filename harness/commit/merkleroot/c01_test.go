//go:build verif

package merkleroot

import (
	"encoding/hex"
	"fmt"
	"sort"
	"testing"

	"github.com/smartcontractkit/libocr/commontypes"
	"github.com/smartcontractkit/libocr/offchainreporting2plus/ocr3types"
	libocrtypes "github.com/smartcontractkit/libocr/ragep2p/types"

	"github.com/smartcontractkit/chainlink-common/pkg/logger"

	rmntypes "github.com/smartcontractkit/chainlink-ccip/commit/merkleroot/rmn/types"
	"github.com/smartcontractkit/chainlink-ccip/internal/plugincommon"
	"github.com/smartcontractkit/chainlink-ccip/internal/plugintypes"
	cciptypes "github.com/smartcontractkit/chainlink-ccip/pkg/types/ccipocr3"
)

// C01 (merkleroot part): Processor.ValidateObservation on every generated attributed observation, then
// getConsensusObservation on the accepted ones. Case = ((F, dest, retry, roles, known, aos), (verdicts, result)).

type vC01Chain struct {
	sel     cciptypes.ChainSelector
	f       int
	readers []commontypes.OracleID
}

func vC01Addr(r *vRand, v int) cciptypes.Bytes {
	// value 0 is the nil / empty pair (one identity under %v), others are distinct byte strings
	if v == 0 {
		if r.Bool() {
			return nil
		}
		return cciptypes.Bytes{}
	}
	return cciptypes.Bytes{0xA0, byte(v)}
}

func vC01Target(r *vRand, thr, n int) int {
	c := vPick(r, []int{0, thr - 1, thr, thr, thr + 1, n})
	if c < 0 {
		c = 0
	}
	if c > n {
		c = n
	}
	return c
}

func vC01Rmn(r *vRand, v int) rmntypes.RemoteConfig {
	if v == 0 {
		return rmntypes.RemoteConfig{}
	}
	return rmntypes.RemoteConfig{
		ContractAddress:  cciptypes.UnknownAddress{0xCC, byte(v)},
		ConfigDigest:     cciptypes.Bytes32{byte(v)},
		Signers:          []rmntypes.RemoteSignerInfo{{OnchainPublicKey: cciptypes.UnknownAddress{1}, NodeIndex: 0}, {OnchainPublicKey: cciptypes.UnknownAddress{2}, NodeIndex: 1}},
		F:                1,
		ConfigVersion:    uint32(v),
		RmnReportVersion: cciptypes.Bytes32{9},
	}
}

// malformed variants of a well-formed RMN remote config (validateRMNRemoteConfig branches)
func vC01RmnBreak(r *vRand, c rmntypes.RemoteConfig) (rmntypes.RemoteConfig, string) {
	switch r.Intn(8) {
	case 0:
		c.ConfigDigest = cciptypes.Bytes32{}
		return c, "rmn-nodigest"
	case 1:
		c.RmnReportVersion = cciptypes.Bytes32{}
		return c, "rmn-noversion"
	case 2:
		c.F = uint64(len(c.Signers)) // len < F+1
		return c, "rmn-fewsigners"
	case 3:
		c.F = uint64(len(c.Signers)) - 1 // len == F+1: boundary, still valid
		return c, "rmn-signers-boundary"
	case 4:
		c.ContractAddress = nil
		return c, "rmn-noaddr"
	case 5:
		c.Signers = []rmntypes.RemoteSignerInfo{{OnchainPublicKey: nil, NodeIndex: 0}, {OnchainPublicKey: cciptypes.UnknownAddress{2}, NodeIndex: 1}}
		return c, "rmn-emptykey"
	case 6:
		c.Signers = []rmntypes.RemoteSignerInfo{{OnchainPublicKey: cciptypes.UnknownAddress{1}, NodeIndex: 1}, {OnchainPublicKey: cciptypes.UnknownAddress{2}, NodeIndex: 1}}
		return c, "rmn-dupindex"
	default:
		c.F = ^uint64(0) // F+1 wraps to 0
		return c, "rmn-fmax"
	}
}

type vC01Printer struct{ in *vIntern }

// Value identity used for interning is a hand-written canonical encoding of the exported fields (raw bytes in hex,
// numbers in decimal). It must NOT go through any String()/"%v" of the code under test: whether the implementation's
// own vote identity (sha3 of the "%v" rendering) distinguishes exactly the values that differ is part of what is checked.
// nil and empty byte strings have the same content and are one value.
func (p vC01Printer) bytesID(b []byte) string { return cN(p.in.Id("b:" + hex.EncodeToString(b))) }
func (p vC01Printer) root(m cciptypes.MerkleRootChain) string {
	return cTup(cN(uint64(m.ChainSel)), p.bytesID(m.OnRampAddress),
		cPair(cN(uint64(m.SeqNumsRange.Start())), cN(uint64(m.SeqNumsRange.End()))), p.bytesID(m.MerkleRoot[:]))
}
func (p vC01Printer) seq(s plugintypes.SeqNumChain) string {
	return cPair(cN(uint64(s.ChainSel)), cN(uint64(s.SeqNum)))
}
func (p vC01Printer) rmnID(c rmntypes.RemoteConfig) string {
	k := "rmn|" + hex.EncodeToString(c.ContractAddress) + "|" + hex.EncodeToString(c.ConfigDigest[:]) + "|"
	for _, sg := range c.Signers {
		k += hex.EncodeToString(sg.OnchainPublicKey) + ":" + fmt.Sprint(sg.NodeIndex) + ","
	}
	k += "|" + fmt.Sprint(c.F) + "|" + fmt.Sprint(c.ConfigVersion) + "|" + hex.EncodeToString(c.RmnReportVersion[:])
	return cN(p.in.Id(k))
}

// a well-formed config that differs from c in exactly one field
func vC01RmnOneField(r *vRand, c rmntypes.RemoteConfig) (rmntypes.RemoteConfig, string) {
	sg := make([]rmntypes.RemoteSignerInfo, len(c.Signers))
	copy(sg, c.Signers)
	c.Signers = sg
	switch r.Intn(8) {
	case 0:
		c.Signers[0].OnchainPublicKey = cciptypes.UnknownAddress{0xF0, 1}
		return c, "key0"
	case 1:
		c.Signers[len(sg)-1].OnchainPublicKey = cciptypes.UnknownAddress{0xF0, 2}
		return c, "keyN"
	case 2:
		c.Signers[len(sg)-1].NodeIndex = 7
		return c, "index"
	case 3:
		c.F = 0
		return c, "F"
	case 4:
		c.ConfigDigest[31] ^= 1
		return c, "digest"
	case 5:
		c.ConfigVersion++
		return c, "version"
	case 6:
		c.ContractAddress = append(cciptypes.UnknownAddress{}, c.ContractAddress...)
		c.ContractAddress[len(c.ContractAddress)-1] ^= 1
		return c, "address"
	default:
		c.RmnReportVersion[0] ^= 1
		return c, "reportversion"
	}
}

// rearranges order so that the first holder of the competing value B (position ta) is the reader with the lowest
// (mode 1) or the highest (mode 2) oracle id
func vC01OddFirst(order []int, ids []commontypes.OracleID, ta, mode int) {
	if ta >= len(order) || mode == 0 {
		return
	}
	best := 0
	for k := range order {
		if (mode == 1 && ids[order[k]] < ids[order[best]]) || (mode == 2 && ids[order[k]] > ids[order[best]]) {
			best = k
		}
	}
	order[ta], order[best] = order[best], order[ta]
}

func (p vC01Printer) rmn(c rmntypes.RemoteConfig) string {
	return cApp("mkRmn", p.rmnID(c), cBool(len(c.ContractAddress) == 0), cBool(c.ConfigDigest == cciptypes.Bytes32{}),
		cMap(c.Signers, func(s rmntypes.RemoteSignerInfo) string {
			return cPair(cBool(len(s.OnchainPublicKey) == 0), cN(s.NodeIndex))
		}), cN(c.F), cN(uint64(c.ConfigVersion)), cBool(c.RmnReportVersion == cciptypes.Bytes32{}))
}
func vC01SortedFChain(m map[cciptypes.ChainSelector]int) string {
	ks := make([]uint64, 0, len(m))
	for k := range m {
		ks = append(ks, uint64(k))
	}
	vSortU64(ks)
	return cMap(ks, func(k uint64) string { return cPair(cN(k), cZ(int64(m[cciptypes.ChainSelector(k)]))) })
}
func (p vC01Printer) obs(o Observation) string {
	return cApp("mkObs", cMap(o.MerkleRoots, p.root), cMap(o.OnRampMaxSeqNums, p.seq), cMap(o.OffRampNextSeqNums, p.seq),
		p.rmn(o.RMNRemoteConfig), vC01SortedFChain(o.FChain))
}

func vC01SortedMap[V any](m map[cciptypes.ChainSelector]V, pr func(V) string) string {
	ks := make([]uint64, 0, len(m))
	for k := range m {
		ks = append(ks, uint64(k))
	}
	vSortU64(ks)
	return cMap(ks, func(k uint64) string { return cPair(cN(k), pr(m[cciptypes.ChainSelector(k)])) })
}

func vC01Consensus(p vC01Printer, F int, dest cciptypes.ChainSelector,
	aos []plugincommon.AttributedObservation[Observation]) (out string) {
	defer func() {
		if rec := recover(); rec != nil {
			out = "Panic"
		}
	}()
	c, err := getConsensusObservation(logger.Nop(), F, dest, aos)
	if err != nil {
		return "Err"
	}
	return cApp("Ok", cApp("mkCons",
		vC01SortedMap(c.MerkleRoots, p.root),
		vC01SortedMap(c.OnRampMaxSeqNums, func(s cciptypes.SeqNum) string { return cN(uint64(s)) }),
		vC01SortedMap(c.OffRampNextSeqNums, func(s cciptypes.SeqNum) string { return cN(uint64(s)) }),
		vC01SortedMap(c.RMNRemoteConfig, p.rmnID),
		vC01SortedFChain(c.FChain)))
}

func vC01Validate(p *Processor, q Query, ao plugincommon.AttributedObservation[Observation]) (ok bool, panicked bool) {
	defer func() {
		if rec := recover(); rec != nil {
			ok, panicked = false, true
		}
	}()
	return p.ValidateObservation(Outcome{}, q, ao) == nil, false
}

func TestVerif_C01_mr(t *testing.T) {
	r := vNewRand(vSeed() + 101)
	n := vEnvInt("VERIF_N", 300)
	sink := vOpenSink("C01_mr")
	defer sink.Close()
	for i := 0; i < n; i++ {
		in := vNewIntern()
		pr := vC01Printer{in}
		nOr := r.Range(4, 13)
		F := (nOr - 1) / 3
		cls := "std"
		switch r.Intn(14) {
		case 0:
			F = 0
			cls = "F0"
		case 1:
			F = -1
			cls = "Fneg"
		case 2:
			F = r.Range(1, 4)
			cls = "Frand"
		}
		perm := r.Perm(32)
		ids := make([]commontypes.OracleID, nOr)
		for k := range ids {
			ids[k] = commontypes.OracleID(perm[k])
		}
		dest := cciptypes.ChainSelector(900)
		nSrc := r.Range(1, 4)
		chains := []vC01Chain{{sel: dest, f: r.Range(1, 3)}}
		for k := 0; k < nSrc; k++ {
			chains = append(chains, vC01Chain{sel: cciptypes.ChainSelector(10 + r.Intn(3) + 10*k), f: r.Range(1, 3)})
		}
		// role assignment: mostly large reader sets so that thresholds can be met
		for k := range chains {
			for _, o := range ids {
				if r.Chance(4, 5) {
					chains[k].readers = append(chains[k].readers, o)
				}
			}
		}
		destInRoles := !r.Chance(1, 25)
		knownDrop := -1
		if r.Chance(1, 20) {
			knownDrop = r.Intn(nOr)
		}
		hc := vNewHomeChain()
		idmap := map[commontypes.OracleID]libocrtypes.PeerID{}
		for k, o := range ids {
			if k != knownDrop {
				idmap[o] = vPeer(int(o))
			}
		}
		for _, c := range chains {
			if c.sel == dest && !destInRoles {
				continue
			}
			peers := make([]libocrtypes.PeerID, len(c.readers))
			for k, o := range c.readers {
				peers[k] = vPeer(int(o))
			}
			hc.SetChain(c.sel, c.f, peers)
		}
		proc := &Processor{
			oracleID:     ids[0],
			destChain:    dest,
			lggr:         logger.Nop(),
			reportingCfg: ocr3types.ReportingPluginConfig{F: F},
			chainSupport: plugincommon.NewChainSupport(logger.Nop(), hc, idmap, ids[0], dest),
		}

		obs := make([]Observation, nOr)
		for k := range obs {
			obs[k].FChain = map[cciptypes.ChainSelector]int{}
		}
		// fChain votes: per chain a target count for the true f, the rest split between a competing f and silence
		thrF := 2*F + 1
		if thrF < 1 {
			thrF = 1
		}
		for _, c := range chains {
			tc := vC01Target(r, thrF, nOr)
			if c.sel == dest && r.Chance(2, 3) {
				tc = nOr
			}
			order := r.Perm(nOr)
			alt := vC01Target(r, thrF, nOr)
			for j, oi := range order {
				switch {
				case j < tc:
					obs[oi].FChain[c.sel] = c.f
				case j < tc+alt && r.Chance(1, 2):
					obs[oi].FChain[c.sel] = c.f + 1
				}
			}
		}
		// per chain and field: value A with a target count, sometimes value B with its own target count
		pickFrom := func(c vC01Chain, forDest bool) []int {
			rs := c.readers
			if forDest {
				rs = chains[0].readers
			}
			idx := map[commontypes.OracleID]int{}
			for k, o := range ids {
				idx[o] = k
			}
			out := make([]int, 0, len(rs))
			for _, j := range r.Perm(len(rs)) {
				out = append(out, idx[rs[j]])
			}
			return out
		}
		offDiff := false // some source chain's f differs from the destination's
		for ci, c := range chains {
			for field := 0; field < 3; field++ {
				thr := 2*c.f + 1
				if field != 2 && c.sel == dest && r.Chance(1, 2) {
					continue
				}
				order := pickFrom(c, field == 2)
				// off-ramp next numbers are destination data: the counts are aimed at the threshold of the key chain,
				// at the destination's, or anywhere from 2*min(f_k,f_dest)+1 to 2*max(f_k,f_dest)+1 (F26: before the
				// repair the key chain's f decided, after it the destination's; f_k < f_dest and f_k > f_dest both occur)
				if field == 2 && c.sel != dest {
					thrD := 2*chains[0].f + 1
					lo, hi := thr, thrD
					if lo > hi {
						lo, hi = hi, lo
					}
					switch r.Intn(3) {
					case 0:
						thr = thrD
					case 1:
						thr = r.Range(lo, hi)
					}
					if lo != hi {
						offDiff = true
					}
				}
				ta := vC01Target(r, thr, len(order))
				tb := 0
				if r.Chance(1, 2) {
					tb = vPick(r, []int{1, 1, vC01Target(r, thr, len(order))})
					vC01OddFirst(order, ids, ta, r.Intn(3))
				}
				// which component differs between value A and value B of a root
				comp := r.Intn(4)
				for j, oi := range order {
					v := -1
					if j < ta {
						v = 0
					} else if j < ta+tb {
						v = 1
					}
					if v < 0 {
						continue
					}
					switch field {
					case 0:
						m := cciptypes.MerkleRootChain{ChainSel: c.sel, OnRampAddress: vC01Addr(r, 0),
							SeqNumsRange: cciptypes.NewSeqNumRange(10, 20), MerkleRoot: cciptypes.Bytes32{byte(ci + 1)}}
						if ci%2 == 1 {
							m.OnRampAddress = vC01Addr(r, 7)
						}
						if v == 1 {
							switch comp {
							case 0:
								m.OnRampAddress = vC01Addr(r, 8)
							case 1:
								m.SeqNumsRange = cciptypes.NewSeqNumRange(10, 21)
							case 2:
								m.SeqNumsRange = cciptypes.NewSeqNumRange(11, 20)
							default:
								m.MerkleRoot = cciptypes.Bytes32{byte(ci + 1), 1}
							}
						}
						obs[oi].MerkleRoots = append(obs[oi].MerkleRoots, m)
					case 1:
						obs[oi].OnRampMaxSeqNums = append(obs[oi].OnRampMaxSeqNums,
							plugintypes.NewSeqNumChain(c.sel, cciptypes.SeqNum(100+v)))
					case 2:
						obs[oi].OffRampNextSeqNums = append(obs[oi].OffRampNextSeqNums,
							plugintypes.NewSeqNumChain(c.sel, cciptypes.SeqNum(50+v)))
					}
				}
			}
		}
		// RMN remote config from destination readers
		rmnCls := ""
		{
			order := pickFrom(chains[0], true)
			thr := 2*chains[0].f + 1
			ta := vC01Target(r, thr, len(order))
			tb := 0
			cfgA := vC01Rmn(r, 1)
			cfgB := vC01Rmn(r, 2)
			if r.Chance(2, 3) {
				tb = vPick(r, []int{1, 1, 2, vC01Target(r, thr, len(order))})
				if r.Chance(3, 4) { // B differs from A in exactly one field
					var l string
					cfgB, l = vC01RmnOneField(r, cfgA)
					rmnCls = "+rmn1:" + l
				}
				// with observations in ascending oracle id order the lowest id is added to the vote count first
				vC01OddFirst(order, ids, ta, r.Intn(3))
			}
			for j, oi := range order {
				if j < ta {
					obs[oi].RMNRemoteConfig = cfgA
				} else if j < ta+tb {
					obs[oi].RMNRemoteConfig = cfgB
				}
			}
		}
		// Byzantine / malformed stream: a few oracles get one mutation each
		nByz := r.Intn(3)
		if r.Chance(1, 6) {
			nByz = r.Range(3, nOr)
		}
		byzCls := ""
		for b := 0; b < nByz; b++ {
			oi := r.Intn(nOr)
			c := vPick(r, chains)
			o := &obs[oi]
			switch r.Intn(12) {
			case 0: // duplicate root for a chain (same value): double vote attempt
				if len(o.MerkleRoots) > 0 {
					o.MerkleRoots = append(o.MerkleRoots, o.MerkleRoots[r.Intn(len(o.MerkleRoots))])
					byzCls += "+duproot"
				}
			case 1: // second, different root for the same chain
				if len(o.MerkleRoots) > 0 {
					m := o.MerkleRoots[0]
					m.MerkleRoot = cciptypes.Bytes32{0xEE}
					o.MerkleRoots = append(o.MerkleRoots, m)
					byzCls += "+duproot2"
				}
			case 2:
				if len(o.OnRampMaxSeqNums) > 0 {
					o.OnRampMaxSeqNums = append(o.OnRampMaxSeqNums, o.OnRampMaxSeqNums[0])
					byzCls += "+duponramp"
				}
			case 3:
				if len(o.OffRampNextSeqNums) > 0 {
					o.OffRampNextSeqNums = append(o.OffRampNextSeqNums, o.OffRampNextSeqNums[r.Intn(len(o.OffRampNextSeqNums))])
					byzCls += "+dupofframp"
				}
			case 4: // entry for a chain the oracle may not read (or an unknown chain)
				sel := c.sel
				if r.Chance(1, 3) {
					sel = 777
				}
				o.MerkleRoots = append(o.MerkleRoots, cciptypes.MerkleRootChain{ChainSel: sel, SeqNumsRange: cciptypes.NewSeqNumRange(10, 20), MerkleRoot: cciptypes.Bytes32{0xBB}})
				byzCls += "+foreignroot"
			case 5:
				sel := c.sel
				if r.Chance(1, 3) {
					sel = 777
				}
				o.OnRampMaxSeqNums = append(o.OnRampMaxSeqNums, plugintypes.NewSeqNumChain(sel, 100))
				byzCls += "+foreignonramp"
			case 6: // off-ramp number (any key, also unknown chains) - needs destination support only
				o.OffRampNextSeqNums = append(o.OffRampNextSeqNums, plugintypes.NewSeqNumChain(cciptypes.ChainSelector(vPick(r, []uint64{uint64(c.sel), 778})), 50))
				byzCls += "+offramp"
			case 7: // fChain claim <= 0
				o.FChain[c.sel] = vPick(r, []int{0, -1, -5})
				byzCls += "+fnonpos"
			case 8: // inflated fChain claim
				o.FChain[c.sel] = vPick(r, []int{c.f + 1, 9, 1 << 40, 1<<62 + 3, 1<<63 - 1})
				byzCls += "+finflated"
			case 9:
				cfg, l := vC01RmnBreak(r, vC01Rmn(r, 1))
				o.RMNRemoteConfig = cfg
				byzCls += "+" + l
			case 10: // RMN config from anyone
				o.RMNRemoteConfig = vC01Rmn(r, vPick(r, []int{1, 2, 3}))
				byzCls += "+rmnany"
			case 11: // fChain for an unknown chain
				o.FChain[779] = 1
				byzCls += "+funknown"
			}
		}
		retry := r.Chance(1, 25)
		if retry {
			cls = "retry"
			if r.Bool() {
				for k := range obs {
					if r.Chance(2, 3) {
						obs[k] = Observation{}
						if r.Bool() {
							obs[k].FChain = map[cciptypes.ChainSelector]int{}
						}
					}
				}
			}
		}
		if !destInRoles {
			cls = "nodestcfg"
		}
		if knownDrop >= 0 {
			cls = "unknownoracle"
		}

		// run the implementation
		order := r.Perm(nOr)
		if r.Chance(1, 2) {
			sort.Slice(order, func(a, b int) bool { return ids[order[a]] < ids[order[b]] })
		}
		aos := make([]plugincommon.AttributedObservation[Observation], nOr)
		for k, oi := range order {
			aos[k] = plugincommon.AttributedObservation[Observation]{OracleID: ids[oi], Observation: obs[oi]}
		}
		verdicts := make([]string, nOr)
		var accepted []plugincommon.AttributedObservation[Observation]
		nRej := 0
		for k, ao := range aos {
			ok, pan := vC01Validate(proc, Query{RetryRMNSignatures: retry}, ao)
			verdicts[k] = cBool(ok)
			if pan {
				verdicts[k] = "false"
				cls += "+PANIC"
			}
			if ok {
				accepted = append(accepted, ao)
			} else {
				nRej++
			}
		}
		res := vC01Consensus(pr, F, dest, accepted)

		// Coq term
		roleStr := make([]string, 0, len(chains))
		sort.Slice(chains, func(a, b int) bool { return chains[a].sel < chains[b].sel })
		for _, c := range chains {
			if c.sel == dest && !destInRoles {
				continue
			}
			roleStr = append(roleStr, cPair(cN(uint64(c.sel)), cMap(c.readers, func(o commontypes.OracleID) string { return cN(uint64(o)) })))
		}
		known := make([]string, 0, nOr)
		for k, o := range ids {
			if k != knownDrop {
				known = append(known, cN(uint64(o)))
			}
		}
		aoStr := cMap(aos, func(ao plugincommon.AttributedObservation[Observation]) string {
			return cPair(cN(uint64(ao.OracleID)), pr.obs(ao.Observation))
		})
		input := cTup(cZ(int64(F)), cN(uint64(dest)), cBool(retry), cList(roleStr), cList(known), aoStr)
		out := cPair(cList(verdicts), res)
		full := cls
		if offDiff {
			full += "+fk!=fd"
		}
		if byzCls != "" {
			full += "/byz"
		}
		_ = rmnCls
		sink.Emit("C01_mr", full+vC01ResCls(res, nRej), res != "Err" && len(accepted) >= 3, cPair(input, out),
			map[string]any{"F": F, "dest": dest, "n": nOr, "byz": byzCls, "rmn": rmnCls, "rejected": nRej, "aos": aos, "result": res})
	}
}

func vC01ResCls(res string, nRej int) string {
	s := "/ok"
	if res == "Err" {
		s = "/nodest"
	} else if res == "Panic" {
		s = "/panic"
	}
	if nRej > 0 {
		s += "/rej"
	}
	return s
}

//go:build verif

package merkleroot

import (
	"context"
	"encoding/binary"
	"fmt"
	"reflect"
	"testing"

	mapset "github.com/deckarep/golang-set/v2"
	cctypes "github.com/smartcontractkit/chainlink-common/pkg/types"
	"github.com/smartcontractkit/chainlink-common/pkg/types/query"
	"github.com/smartcontractkit/chainlink-common/pkg/types/query/primitives"
	"github.com/smartcontractkit/libocr/commontypes"

	"github.com/smartcontractkit/chainlink-ccip/internal/mocks"
	"github.com/smartcontractkit/chainlink-ccip/pkg/consts"
	"github.com/smartcontractkit/chainlink-ccip/pkg/contractreader"
	readerpkg "github.com/smartcontractkit/chainlink-ccip/pkg/reader"
	cciptypes "github.com/smartcontractkit/chainlink-ccip/pkg/types/ccipocr3"
)

type vC15Support struct {
	sup      int // 0 false, 1 true, 2 error
	known    []cciptypes.ChainSelector
	knownErr bool
}

func (s vC15Support) DestChain() cciptypes.ChainSelector { return 900 }
func (s vC15Support) SupportedChains(commontypes.OracleID) (mapset.Set[cciptypes.ChainSelector], error) {
	return mapset.NewSet[cciptypes.ChainSelector](), nil
}
func (s vC15Support) SupportsDestChain(commontypes.OracleID) (bool, error) {
	switch s.sup {
	case 0:
		return false, nil
	case 1:
		return true, nil
	}
	return false, vErrNext()
}
func (s vC15Support) KnownSourceChainsSlice() ([]cciptypes.ChainSelector, error) {
	if s.knownErr {
		return nil, vErrNext()
	}
	return append([]cciptypes.ChainSelector{}, s.known...), nil
}

// the scripted remote: what is cursed right now and how the curse read behaves.
// real == false: scripted CCIPReader answer (like the real reader: only for the chains asked about); a failing read
//
//	ranges over error KINDS (plain, wrapping reader.ErrContractReaderNotFound, wrapping contractreader.ErrNoBindings,
//	context deadline / cancellation).
//
// real == true: the answer comes from the REAL ccipChainReader.GetRmnCurseInfo over a scripted contract reader of the
//
//	destination: state "noreader" (no destination reader at all), "unbound" (reader present, RMNRemote not bound),
//	"rpc-plain" / "rpc-ctx" (bound, the call fails), "bound" (bound, returns the cursed subjects on chain).
//
// For the model every failing read is the one value fails = true.
type vC15Remote struct {
	fails, global, dest bool
	cursed              map[uint64]bool
	real                bool
	kind                string
}

type vC15Facade struct {
	subjects [][16]byte
	err      error
}

func (f *vC15Facade) GetLatestValue(ctx context.Context, id string, c primitives.ConfidenceLevel, params, ret any) error {
	if f.err != nil {
		return f.err
	}
	fld := reflect.ValueOf(ret).Elem().FieldByName("CursedSubjects")
	if !fld.IsValid() {
		return fmt.Errorf("verif: unexpected read %s", id)
	}
	fld.Set(reflect.ValueOf(f.subjects))
	return nil
}
func (f *vC15Facade) BatchGetLatestValues(context.Context, cctypes.BatchGetLatestValuesRequest) (cctypes.BatchGetLatestValuesResult, error) {
	return nil, nil
}
func (f *vC15Facade) Bind(context.Context, []cctypes.BoundContract) error   { return nil }
func (f *vC15Facade) Unbind(context.Context, []cctypes.BoundContract) error { return nil }
func (f *vC15Facade) QueryKey(context.Context, cctypes.BoundContract, query.KeyFilter, query.LimitAndSort, any) ([]cctypes.Sequence, error) {
	return nil, nil
}

func vC15ChainSubject(c uint64) [16]byte {
	var b [16]byte
	binary.BigEndian.PutUint64(b[8:], c)
	return b
}

func (m *vC15Remote) Fn(dest cciptypes.ChainSelector, src []cciptypes.ChainSelector) (*readerpkg.CurseInfo, error) {
	if m.real {
		return m.realRead(dest, src)
	}
	if m.fails {
		switch m.kind {
		case "notfound":
			return nil, fmt.Errorf("validate dest=%d extended reader existence: %w", dest,
				fmt.Errorf("chain %d: %w", dest, readerpkg.ErrContractReaderNotFound))
		case "nobindings":
			return nil, fmt.Errorf("get latest value: %w", contractreader.ErrNoBindings)
		case "both":
			return nil, fmt.Errorf("not bound: %w: %w", readerpkg.ErrContractReaderNotFound, contractreader.ErrNoBindings)
		case "ctx-deadline":
			return nil, fmt.Errorf("read: %w", context.DeadlineExceeded)
		case "ctx-canceled":
			return nil, context.Canceled
		case "nil-info": // an error together with a non-nil (empty) answer
			return &readerpkg.CurseInfo{CursedSourceChains: map[cciptypes.ChainSelector]bool{}}, vErrNext()
		}
		return nil, vErrNext()
	}
	ci := &readerpkg.CurseInfo{CursedSourceChains: map[cciptypes.ChainSelector]bool{}, CursedDestination: m.global || m.dest, GlobalCurse: m.global}
	for _, c := range src {
		ci.CursedSourceChains[c] = m.cursed[uint64(c)]
	}
	return ci, nil
}

// the real reader of an oracle, configured for the current state of the remote
func (m *vC15Remote) realRead(dest cciptypes.ChainSelector, src []cciptypes.ChainSelector) (*readerpkg.CurseInfo, error) {
	ctx := context.Background()
	fac := &vC15Facade{}
	if m.global {
		fac.subjects = append(fac.subjects, readerpkg.GlobalCurseSubject)
	}
	if m.dest {
		fac.subjects = append(fac.subjects, vC15ChainSubject(uint64(dest)))
	}
	var cs []uint64
	for c, b := range m.cursed {
		if b {
			cs = append(cs, c)
		}
	}
	vSortU64(cs)
	for _, c := range cs {
		fac.subjects = append(fac.subjects, vC15ChainSubject(c))
	}
	switch m.kind {
	case "rpc-plain":
		fac.err = vErrNext()
	case "rpc-ctx":
		fac.err = context.DeadlineExceeded
	}
	readers := map[cciptypes.ChainSelector]contractreader.Extended{}
	if m.kind != "noreader" {
		ext := contractreader.NewExtendedContractReader(fac)
		if m.kind != "unbound" {
			if err := ext.Bind(ctx, []cctypes.BoundContract{{Name: consts.ContractNameRMNRemote, Address: "0x0000000000000000000000000000000000000002"}}); err != nil {
				panic(err)
			}
		}
		readers[dest] = ext
	}
	rd := readerpkg.NewCCIPReaderWithExtendedContractReaders(ctx, mocks.NullLogger, readers, nil, dest, []byte{0x01})
	return rd.GetRmnCurseInfo(ctx, dest, src)
}

func (m *vC15Remote) Coq() string {
	var cs []uint64
	for c, b := range m.cursed {
		if b {
			cs = append(cs, c)
		}
	}
	vSortU64(cs)
	return cTup(cBool(m.fails), cBool(m.global), cBool(m.dest), cListN(cs))
}
func vC15GenRemote(r *vRand, chains []uint64) (*vC15Remote, string) {
	m := &vC15Remote{cursed: map[uint64]bool{}}
	cls := vPick(r, []string{"clean", "clean", "global", "dest", "fails", "fails", "one", "some", "all", "unrelated"})
	switch cls {
	case "global":
		m.global = true
	case "dest":
		m.dest = true
	case "fails":
		m.fails = true
		// whatever is on chain while the read fails (it must not matter): often a global or lane curse
		switch r.Intn(4) {
		case 0:
			m.global = true
		case 1:
			if len(chains) > 0 {
				m.cursed[vPick(r, chains)] = true
			}
		}
	case "one":
		if len(chains) > 0 {
			m.cursed[vPick(r, chains)] = true
		}
	case "some":
		for _, c := range chains {
			if r.Bool() {
				m.cursed[c] = true
			}
		}
	case "all":
		for _, c := range chains {
			m.cursed[c] = true
		}
	case "unrelated":
		m.cursed[777] = true
		m.cursed[1<<64-1] = true
	}
	if r.Chance(1, 10) && len(chains) > 0 { // a source curse on top of whatever else
		m.cursed[vPick(r, chains)] = true
	}
	m.real = r.Chance(2, 5)
	if m.fails {
		if m.real {
			m.kind = vPick(r, []string{"noreader", "unbound", "unbound", "rpc-plain", "rpc-ctx"})
		} else {
			m.kind = vPick(r, []string{"plain", "notfound", "nobindings", "both", "ctx-deadline", "ctx-canceled", "nil-info"})
		}
		cls += "/" + m.kind
	} else if m.real {
		m.kind = "bound"
	}
	if m.real {
		cls = "real/" + cls
	}
	return m, cls
}

func TestVerif_C15_observe_commit(t *testing.T) {
	ctx := context.Background()
	r := vNewRand(vSeed() + 15)
	n := vEnvInt("VERIF_N", 300)
	sink := vOpenSink("C15_obs_commit")
	defer sink.Close()
	pool := []uint64{1, 2, 3, 5, 8, 13, 1<<64 - 1001, 1<<64 - 2}
	i := 0
	for i < n {
		// one observer instance, several calls while the remote changes (history): nothing may be cached
		k := r.Range(0, 5)
		perm := r.Perm(len(pool))
		var known []uint64
		for x := 0; x < k; x++ {
			known = append(known, pool[perm[x]])
		}
		sup := vC15Support{sup: vPick(r, []int{1, 1, 1, 1, 0, 2})}
		if r.Chance(1, 10) {
			sup.knownErr = true
		}
		for _, c := range known {
			sup.known = append(sup.known, cciptypes.ChainSelector(c))
		}
		rem := &vC15Remote{}
		mode := 0
		rd := &vCCIPReader{
			CurseFn: func(d cciptypes.ChainSelector, s []cciptypes.ChainSelector) (*readerpkg.CurseInfo, error) {
				return rem.Fn(d, s)
			},
			NextSeqNumFn: func(chains []cciptypes.ChainSelector) ([]cciptypes.SeqNum, error) {
				if mode == 1 {
					return nil, vErrNext()
				}
				out := make([]cciptypes.SeqNum, len(chains))
				for x, c := range chains {
					out[x] = cciptypes.SeqNum(uint64(c) + 1000)
				}
				if mode == 2 && len(out) > 0 {
					out = out[1:]
				}
				return out, nil
			},
		}
		o := observerImpl{lggr: mocks.NullLogger, nodeID: 1, chainSupport: sup, ccipReader: rd}
		steps := r.Range(1, 4)
		for st := 0; st < steps && i < n; st++ {
			var cls string
			rem, cls = vC15GenRemote(r, known)
			mode = vPick(r, []int{0, 0, 0, 0, 1, 2})
			res := o.ObserveOffRampNextSeqNums(ctx)
			knownQ := cNone()
			if !sup.knownErr {
				knownQ = cSome(cListN(known))
			}
			in := cTup(cNi(sup.sup), knownQ, rem.Coq(), cNi(mode))
			out := make([]string, len(res))
			for x, e := range res {
				out[x] = cPair(cN(uint64(e.ChainSel)), cN(uint64(e.SeqNum)))
			}
			if st > 0 {
				cls = "history/" + cls
			}
			sink.Emit("C15_obs_commit", cls, len(known) >= 2 && sup.sup == 1, cPair(in, cList(out)),
				map[string]any{"known": known, "sup": sup.sup, "mode": mode, "step": st})
			i++
		}
	}
}

//go:build verif

package merkleroot

import (
	"context"
	"testing"

	mapset "github.com/deckarep/golang-set/v2"
	"github.com/smartcontractkit/libocr/commontypes"

	"github.com/smartcontractkit/chainlink-ccip/internal/mocks"
	readerpkg "github.com/smartcontractkit/chainlink-ccip/pkg/reader"
	cciptypes "github.com/smartcontractkit/chainlink-ccip/pkg/types/ccipocr3"
)

type vC15Support struct {
	sup      int // 0 false, 1 true, 2 error
	known    []cciptypes.ChainSelector
	knownErr bool
}

func (s vC15Support) DestChain() cciptypes.ChainSelector { return 900 }
func (s vC15Support) SupportedChains(commontypes.OracleID) (mapset.Set[cciptypes.ChainSelector], error) {
	return mapset.NewSet[cciptypes.ChainSelector](), nil
}
func (s vC15Support) SupportsDestChain(commontypes.OracleID) (bool, error) {
	switch s.sup {
	case 0:
		return false, nil
	case 1:
		return true, nil
	}
	return false, vErr
}
func (s vC15Support) KnownSourceChainsSlice() ([]cciptypes.ChainSelector, error) {
	if s.knownErr {
		return nil, vErr
	}
	return append([]cciptypes.ChainSelector{}, s.known...), nil
}

// the scripted remote: what is cursed right now; answers like the real reader (only for the chains asked about)
type vC15Remote struct {
	fails, global, dest bool
	cursed              map[uint64]bool
}

func (m *vC15Remote) Fn(dest cciptypes.ChainSelector, src []cciptypes.ChainSelector) (*readerpkg.CurseInfo, error) {
	if m.fails {
		return nil, vErr
	}
	ci := &readerpkg.CurseInfo{CursedSourceChains: map[cciptypes.ChainSelector]bool{}, CursedDestination: m.global || m.dest, GlobalCurse: m.global}
	for _, c := range src {
		ci.CursedSourceChains[c] = m.cursed[uint64(c)]
	}
	return ci, nil
}
func (m *vC15Remote) Coq() string {
	var cs []uint64
	for c, b := range m.cursed {
		if b {
			cs = append(cs, c)
		}
	}
	vSortU64(cs)
	return cTup(cBool(m.fails), cBool(m.global), cBool(m.dest), cListN(cs))
}
func vC15GenRemote(r *vRand, chains []uint64) (*vC15Remote, string) {
	m := &vC15Remote{cursed: map[uint64]bool{}}
	cls := vPick(r, []string{"clean", "clean", "global", "dest", "fails", "one", "some", "all", "unrelated"})
	switch cls {
	case "global":
		m.global = true
	case "dest":
		m.dest = true
	case "fails":
		m.fails = true
	case "one":
		if len(chains) > 0 {
			m.cursed[vPick(r, chains)] = true
		}
	case "some":
		for _, c := range chains {
			if r.Bool() {
				m.cursed[c] = true
			}
		}
	case "all":
		for _, c := range chains {
			m.cursed[c] = true
		}
	case "unrelated":
		m.cursed[777] = true
		m.cursed[1<<64-1] = true
	}
	if r.Chance(1, 10) { // a source curse on top of whatever else
		if len(chains) > 0 {
			m.cursed[vPick(r, chains)] = true
		}
	}
	return m, cls
}

func TestVerif_C15_observe_commit(t *testing.T) {
	ctx := context.Background()
	r := vNewRand(vSeed() + 15)
	n := vEnvInt("VERIF_N", 300)
	sink := vOpenSink("C15_obs_commit")
	defer sink.Close()
	pool := []uint64{1, 2, 3, 5, 8, 13, 1<<64 - 1001, 1<<64 - 2}
	i := 0
	for i < n {
		// one observer instance, several calls while the remote changes (history): nothing may be cached
		k := r.Range(0, 5)
		perm := r.Perm(len(pool))
		var known []uint64
		for x := 0; x < k; x++ {
			known = append(known, pool[perm[x]])
		}
		sup := vC15Support{sup: vPick(r, []int{1, 1, 1, 1, 0, 2})}
		if r.Chance(1, 10) {
			sup.knownErr = true
		}
		for _, c := range known {
			sup.known = append(sup.known, cciptypes.ChainSelector(c))
		}
		rem := &vC15Remote{}
		mode := 0
		rd := &vCCIPReader{
			CurseFn: func(d cciptypes.ChainSelector, s []cciptypes.ChainSelector) (*readerpkg.CurseInfo, error) { return rem.Fn(d, s) },
			NextSeqNumFn: func(chains []cciptypes.ChainSelector) ([]cciptypes.SeqNum, error) {
				if mode == 1 {
					return nil, vErr
				}
				out := make([]cciptypes.SeqNum, len(chains))
				for x, c := range chains {
					out[x] = cciptypes.SeqNum(uint64(c) + 1000)
				}
				if mode == 2 && len(out) > 0 {
					out = out[1:]
				}
				return out, nil
			},
		}
		o := observerImpl{lggr: mocks.NullLogger, nodeID: 1, chainSupport: sup, ccipReader: rd}
		steps := r.Range(1, 4)
		for st := 0; st < steps && i < n; st++ {
			var cls string
			rem, cls = vC15GenRemote(r, known)
			mode = vPick(r, []int{0, 0, 0, 0, 1, 2})
			res := o.ObserveOffRampNextSeqNums(ctx)
			knownQ := cNone()
			if !sup.knownErr {
				knownQ = cSome(cListN(known))
			}
			in := cTup(cNi(sup.sup), knownQ, rem.Coq(), cNi(mode))
			out := make([]string, len(res))
			for x, e := range res {
				out[x] = cPair(cN(uint64(e.ChainSel)), cN(uint64(e.SeqNum)))
			}
			if st > 0 {
				cls = "history/" + cls
			}
			sink.Emit("C15_obs_commit", cls, len(known) >= 2 && sup.sup == 1, cPair(in, cList(out)),
				map[string]any{"known": known, "sup": sup.sup, "mode": mode, "step": st})
			i++
		}
	}
}

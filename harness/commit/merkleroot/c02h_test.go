//go:build verif

package merkleroot

import (
	"context"
	"encoding/hex"
	"encoding/json"
	"fmt"
	"math"
	"sort"
	"testing"

	mapset "github.com/deckarep/golang-set/v2"
	"github.com/smartcontractkit/libocr/commontypes"
	"github.com/smartcontractkit/libocr/offchainreporting2plus/ocr3types"
	ragep2ptypes "github.com/smartcontractkit/libocr/ragep2p/types"

	"github.com/smartcontractkit/chainlink-common/pkg/hashutil"

	rmntypes "github.com/smartcontractkit/chainlink-ccip/commit/merkleroot/rmn/types"
	"github.com/smartcontractkit/chainlink-ccip/internal/mocks"
	"github.com/smartcontractkit/chainlink-ccip/internal/plugincommon"
	"github.com/smartcontractkit/chainlink-ccip/internal/plugintypes"
	"github.com/smartcontractkit/chainlink-ccip/internal/reader"
	readerpkg "github.com/smartcontractkit/chainlink-ccip/pkg/reader"
	cciptypes "github.com/smartcontractkit/chainlink-ccip/pkg/types/ccipocr3"
	"github.com/smartcontractkit/chainlink-ccip/pluginconfig"
)

// ---------------------------------------------------------------------------------------------------------------
// part hist: ONE long-lived Processor (NewProcessor: real observerImpl) per history, driven through Observation and
// Outcome for many rounds while everything it reads changes between rounds: the previous outcome (the JSON
// round-tripped outcome of the round before, or an arbitrary decodable outcome of any type carrying leftover fields),
// the votes (per chain and field: agreed / one short of the threshold / absent / split, independently for on-ramp
// latest, off-ramp next, fChain, roots, RMN remote config), the chain set, curses, support, address binding,
// reader content (new messages, reorganised messages, lagging finality, failures), home-chain fChain.
// Every round is one case in each sink; the Coq model is evaluated on that round's inputs only.
// ---------------------------------------------------------------------------------------------------------------

type vC02HSel = cciptypes.ChainSelector

// ---------- Coq terms ----------
type vC02HT struct{ in *vIntern }

func (t vC02HT) addr(b []byte) string  { return cN(t.in.Id("a:" + hex.EncodeToString(b))) }
func (t vC02HT) h32(b [32]byte) string { return cN(t.in.Id("h:" + hex.EncodeToString(b[:]))) }
func (t vC02HT) cfgID(c rmntypes.RemoteConfig) uint64 {
	if c.IsEmpty() {
		return 0
	}
	k := "rmn|" + hex.EncodeToString(c.ContractAddress) + "|" + hex.EncodeToString(c.ConfigDigest[:]) + "|"
	for _, sg := range c.Signers {
		k += hex.EncodeToString(sg.OnchainPublicKey) + ":" + fmt.Sprint(sg.NodeIndex) + ","
	}
	k += "|" + fmt.Sprint(c.F) + "|" + fmt.Sprint(c.ConfigVersion) + "|" + hex.EncodeToString(c.RmnReportVersion[:])
	return t.in.Id(k)
}
func (t vC02HT) rng(s cciptypes.SeqNumRange) string {
	return cPair(cN(uint64(s.Start())), cN(uint64(s.End())))
}

// CommitSM.root = (chain, interval, address, root); CommitConsensus.root_t = (chain, address, interval, root)
func (t vC02HT) smRoot(m cciptypes.MerkleRootChain) string {
	return cTup(cN(uint64(m.ChainSel)), t.rng(m.SeqNumsRange), t.addr(m.OnRampAddress), t.h32(m.MerkleRoot))
}
func (t vC02HT) ccRoot(m cciptypes.MerkleRootChain) string {
	return cTup(cN(uint64(m.ChainSel)), t.addr(m.OnRampAddress), t.rng(m.SeqNumsRange), t.h32(m.MerkleRoot))
}
func (t vC02HT) seq(s plugintypes.SeqNumChain) string {
	return cPair(cN(uint64(s.ChainSel)), cN(uint64(s.SeqNum)))
}
func (t vC02HT) chainRange(c plugintypes.ChainRange) string {
	return cPair(cN(uint64(c.ChainSel)), t.rng(c.SeqNumRange))
}
func (t vC02HT) outcome(o Outcome) string {
	cfg := cPair(cN(0), cN(0))
	if !o.RMNRemoteCfg.IsEmpty() {
		cfg = cPair(cN(t.cfgID(o.RMNRemoteCfg)), cN(o.RMNRemoteCfg.F))
	}
	return cApp("hOut", cZ(int64(o.OutcomeType)),
		cMap(o.RangesSelectedForReport, t.chainRange),
		cMap(o.RootsToReport, t.smRoot),
		cMap(o.OffRampNextSeqNums, t.seq),
		cN(uint64(o.ReportTransmissionCheckAttempts)),
		cMap(o.RMNReportSignatures, func(s cciptypes.RMNECDSASignature) string {
			return cN(t.in.Id("sig:" + hex.EncodeToString(s.R[:]) + hex.EncodeToString(s.S[:])))
		}),
		cfg)
}
func (t vC02HT) fchain(m map[vC02HSel]int) string {
	ks := make([]uint64, 0, len(m))
	for k := range m {
		ks = append(ks, uint64(k))
	}
	vSortU64(ks)
	return cMap(ks, func(k uint64) string { return cPair(cN(k), cZ(int64(m[vC02HSel(k)]))) })
}
func (t vC02HT) obs(o Observation) string {
	c := o.RMNRemoteConfig
	rmn := cApp("hRmn", cN(t.cfgID(c)), cBool(len(c.ContractAddress) == 0), cBool(c.ConfigDigest == cciptypes.Bytes32{}),
		cMap(c.Signers, func(s rmntypes.RemoteSignerInfo) string {
			return cPair(cBool(len(s.OnchainPublicKey) == 0), cN(s.NodeIndex))
		}), cN(c.F), cN(uint64(c.ConfigVersion)), cBool(c.RmnReportVersion == cciptypes.Bytes32{}))
	return cApp("hObs", cMap(o.MerkleRoots, t.ccRoot), cMap(o.OnRampMaxSeqNums, t.seq), cMap(o.OffRampNextSeqNums, t.seq),
		rmn, t.fchain(o.FChain))
}

// ---------- the world the long-lived Processor reads; it changes between rounds ----------
type vC02HWorld struct {
	universe []vC02HSel
	known    map[vC02HSel]bool
	knownErr bool
	sup      map[vC02HSel]bool
	supErr   bool
	sd       bool
	sdErr    bool
	fch      map[vC02HSel]int // home chain fChain, destination included
	fchErr   bool
	off, on  map[vC02HSel]uint64 // off-ramp next, on-ramp latest
	cursed   map[vC02HSel]bool
	blocked  int // 0 no, 1 global curse, 2 destination cursed
	curseErr bool
	nextMode int // NextSeqNum: 0 honest, 1 error, 2 one short, 3 one long
	expErr   map[vC02HSel]bool
	expZero  map[vC02HSel]bool
	addr     map[vC02HSel][]byte
	addrErr  map[vC02HSel]bool
	fin      map[vC02HSel]uint64 // the message reader holds sequence numbers <= fin
	ver      map[vC02HSel]int    // content version of the chain's messages (a reorganisation bumps it)
	msgMode  map[vC02HSel]string
	hostile  bool             // history with an adversarial message reader
	shift    map[vC02HSel]int // reader mode shift-unordered / mid-out: by how much the window is off
	order    []int // order in which KnownSourceChainsSlice lists the chains
}

func vC02HNewWorld(r *vRand, universe []vC02HSel) *vC02HWorld {
	w := &vC02HWorld{universe: universe, known: map[vC02HSel]bool{}, sup: map[vC02HSel]bool{}, sd: true,
		fch: map[vC02HSel]int{}, off: map[vC02HSel]uint64{}, on: map[vC02HSel]uint64{}, cursed: map[vC02HSel]bool{},
		expErr: map[vC02HSel]bool{}, expZero: map[vC02HSel]bool{}, addr: map[vC02HSel][]byte{}, addrErr: map[vC02HSel]bool{},
		fin: map[vC02HSel]uint64{}, ver: map[vC02HSel]int{}, msgMode: map[vC02HSel]string{}, shift: map[vC02HSel]int{}, order: r.Perm(len(universe))}
	w.fch[vC02Dest] = 1
	high := r.Chance(1, 8) // a history whose sequence numbers sit just below 2^64
	for _, k := range universe {
		w.known[k] = !r.Chance(1, 6)
		w.sup[k] = !r.Chance(1, 8)
		w.fch[k] = 1
		o := uint64(r.Range(1, 40))
		if high {
			o = vC02Max - uint64(r.Range(10, 30))
		}
		w.off[k] = o
		w.on[k] = o + uint64(r.Range(0, 6)) - 1
		w.fin[k] = w.on[k]
		w.addr[k] = []byte{byte(k), 0xAD, 0}
		w.msgMode[k] = "honest"
	}
	return w
}

// one step of the environment; aspects limits what may change in this history ("" = everything)
func (w *vC02HWorld) step(r *vRand, aspect string) {
	may := func(a string) bool { return aspect == "" || aspect == a }
	for _, k := range w.universe {
		if may("on") && r.Chance(1, 2) && w.on[k] < vC02Max-8 {
			w.on[k] += uint64(r.Intn(5))
		}
		if may("on") {
			// finality follows the on-ramp, sometimes lagging
			w.fin[k] = w.on[k]
			if r.Chance(1, 5) && w.on[k] > 2 {
				w.fin[k] = w.on[k] - uint64(r.Range(1, 2))
			}
		}
		if may("off") && r.Chance(1, 4) && w.off[k] < vC02Max-8 {
			w.off[k] += uint64(r.Range(1, 4)) // reports land (possibly more than this DON knows of)
		}
		if may("curse") && r.Chance(1, 4) {
			w.cursed[k] = !w.cursed[k]
		}
		if may("support") && r.Chance(1, 6) {
			w.sup[k] = !w.sup[k]
		}
		if may("known") && r.Chance(1, 7) {
			w.known[k] = !w.known[k]
		}
		if may("fchain") && r.Chance(1, 6) {
			w.fch[k] = 3 - w.fch[k] // 1 <-> 2
		}
		if may("addr") && r.Chance(1, 5) {
			switch r.Intn(4) {
			case 0:
				w.addr[k] = []byte{byte(k), 0xAD, byte(r.Intn(3))}
			case 1:
				w.addr[k] = nil
			case 2:
				w.addrErr[k] = !w.addrErr[k]
			default:
				w.addr[k] = []byte{byte(k), 0xAE}
			}
		}
		if may("reorg") && r.Chance(1, 5) {
			w.ver[k]++
		}
		if may("reader") {
			w.msgMode[k] = vPick(r, []string{"honest", "honest", "honest", "honest", "unordered", "error", "gap", "dup", "hasher", "short",
				"shift-unordered", "shift-unordered", "mid-out", "inner-dup", "inner-foreign"})
			if w.hostile { // a reader that answers with the right count and plausible ends but not the interval
				w.msgMode[k] = vPick(r, []string{"honest", "shift-unordered", "shift-unordered", "shift-unordered", "mid-out", "inner-dup", "inner-foreign", "unordered"})
			}
			w.shift[k] = vPick(r, []int{1, -1, 2, -2})
			w.expErr[k] = r.Chance(1, 12)
			w.expZero[k] = r.Chance(1, 20)
		}
	}
	if may("curse") {
		w.blocked = 0
		if r.Chance(1, 10) {
			w.blocked = 1 + r.Intn(2)
		}
		w.curseErr = r.Chance(1, 15)
	}
	if may("support") {
		w.supErr = r.Chance(1, 15)
		w.sd = !r.Chance(1, 10)
		w.sdErr = r.Chance(1, 20)
	}
	if may("known") {
		w.knownErr = r.Chance(1, 20)
		w.order = r.Perm(len(w.universe))
	}
	if may("fchain") {
		w.fchErr = r.Chance(1, 15)
		if r.Chance(1, 8) {
			w.fch[vC02Dest] = 3 - w.fch[vC02Dest]
		}
	}
	if may("reader") {
		w.nextMode = 0
		if r.Chance(1, 8) {
			w.nextMode = 1 + r.Intn(3)
		}
	}
}

func (w *vC02HWorld) msg(k vC02HSel, seq uint64) cciptypes.Message {
	var id cciptypes.Bytes32
	id[0], id[1], id[2] = 0x4D, byte(k), byte(w.ver[k])
	x := seq*0x9E3779B97F4A7C15 + uint64(k)*0xBF58476D1CE4E5B9 + uint64(w.ver[k])
	for j := 0; j < 8; j++ {
		id[8+j] = byte(seq >> (8 * (7 - j)))
		id[16+j] = byte(x >> (8 * j))
	}
	return cciptypes.Message{Header: cciptypes.RampMessageHeader{MessageID: id, SequenceNumber: cciptypes.SeqNum(seq),
		SourceChainSelector: k, DestChainSelector: vC02Dest}}
}

// what MsgsBetweenSeqNums answers in the current state of the world
func (w *vC02HWorld) answer(k vC02HSel, rg cciptypes.SeqNumRange) ([]cciptypes.Message, error) {
	mode := w.msgMode[k]
	if mode == "error" {
		return nil, vErrNext()
	}
	ms := []cciptypes.Message{}
	for q, cnt := uint64(rg.Start()), 0; q <= uint64(rg.End()) && q <= w.fin[k] && cnt < 48; q, cnt = q+1, cnt+1 {
		ms = append(ms, w.msg(k, q))
		if q == vC02Max {
			break
		}
	}
	n := len(ms)
	switch mode {
	case "unordered":
		for i, j := 0, n-1; i < j; i, j = i+1, j-1 {
			ms[i], ms[j] = ms[j], ms[i]
		}
	case "gap":
		if n >= 3 {
			ms = append(ms[:1], ms[2:]...)
		}
	case "dup":
		if n >= 2 {
			ms[n-1] = ms[0]
		}
	case "hasher":
		if n >= 1 {
			ms[n/2].Header.MessageID[0] = 0xEE
		}
	case "short":
		if n >= 1 {
			ms = ms[:n-1]
		}
	case "shift-unordered":
		// the window of the right size moved by shift, in-range messages first and last, the out-of-range ones between
		// them (4,6,5 / 3,2,4 for [3->5])
		d := w.shift[k]
		lo, hi := uint64(rg.Start()), uint64(rg.End())
		if n >= 3 && uint64(n) == hi-lo+1 && n-vC02HAbs(d) >= 2 && lo >= 2 && hi <= vC02Max-2 {
			var in, out []cciptypes.Message
			for q := lo; q <= hi; q++ {
				x := q + uint64(int64(d))
				if x >= lo && x <= hi {
					in = append(in, w.msg(k, x))
				} else {
					out = append(out, w.msg(k, x))
				}
			}
			ms = append(append([]cciptypes.Message{in[0]}, out...), in[1:]...)
		}
	case "mid-out": // right count, ends in range, one middle message outside
		lo, hi := uint64(rg.Start()), uint64(rg.End())
		if n >= 3 && lo >= 2 && hi <= vC02Max-2 {
			x := hi + 1
			if w.shift[k] < 0 {
				x = lo - 1
			}
			ms[n/2] = w.msg(k, x)
			if w.shift[k]%2 == 0 {
				ms[0], ms[n-1] = ms[n-1], ms[0]
			}
		}
	case "inner-dup":
		if n >= 3 {
			ms[n/2] = ms[0]
		}
	case "inner-foreign":
		if n >= 3 {
			ms[n/2].Header.SourceChainSelector = k + 16
		}
	}
	return ms, nil
}

func vC02HAbs(d int) int {
	if d < 0 {
		return -d
	}
	return d
}

type vC02HSupport struct{ w *vC02HWorld }

func (s vC02HSupport) DestChain() vC02HSel { return vC02Dest }
func (s vC02HSupport) SupportedChains(commontypes.OracleID) (mapset.Set[vC02HSel], error) {
	if s.w.supErr {
		return nil, vErrNext()
	}
	return mapset.NewSet(s.w.supList()...), nil
}
func (s vC02HSupport) SupportsDestChain(commontypes.OracleID) (bool, error) {
	if s.w.sdErr {
		return false, vErrNext()
	}
	return s.w.sd, nil
}
func (s vC02HSupport) KnownSourceChainsSlice() ([]vC02HSel, error) {
	if s.w.knownErr {
		return nil, vErrNext()
	}
	return s.w.knownList(), nil
}
func (w *vC02HWorld) supList() []vC02HSel {
	var out []vC02HSel
	for _, k := range w.universe {
		if w.sup[k] {
			out = append(out, k)
		}
	}
	if w.sd {
		out = append(out, vC02Dest)
	}
	return out
}
func (w *vC02HWorld) knownList() []vC02HSel {
	out := []vC02HSel{}
	for _, i := range w.order {
		if k := w.universe[i]; w.known[k] {
			out = append(out, k)
		}
	}
	return out
}

// ---------- previous outcomes ----------
func vC02HWire(o Outcome) Outcome {
	b, err := json.Marshal(o)
	if err != nil {
		panic(err)
	}
	var back Outcome
	if err := json.Unmarshal(b, &back); err != nil {
		panic(err)
	}
	return back
}

func vC02HCfg(r *vRand) rmntypes.RemoteConfig {
	switch r.Intn(3) {
	case 0:
		return rmntypes.RemoteConfig{}
	}
	var d, v cciptypes.Bytes32
	d[0], d[1] = 0xD1, byte(r.Intn(2))
	v[0] = 0x52
	return rmntypes.RemoteConfig{
		ContractAddress:  []byte{0xC0, 1},
		ConfigDigest:     d,
		Signers:          []rmntypes.RemoteSignerInfo{{OnchainPublicKey: []byte{1}, NodeIndex: 0}, {OnchainPublicKey: []byte{2}, NodeIndex: 1}},
		F:                1,
		ConfigVersion:    1,
		RmnReportVersion: v,
	}
}

func vC02HRoot(w *vC02HWorld, k vC02HSel, rg cciptypes.SeqNumRange, variant byte) cciptypes.MerkleRootChain {
	var rt cciptypes.Bytes32
	rt[0], rt[1], rt[2] = 0xAA, byte(k), variant
	rt[3], rt[4] = byte(rg.Start()), byte(rg.End())
	return cciptypes.MerkleRootChain{ChainSel: k, SeqNumsRange: rg, OnRampAddress: w.addr[k], MerkleRoot: rt}
}

// an arbitrary decodable previous outcome: any type, fields that have nothing to do with this round
func vC02HLeftover(r *vRand, last Outcome, w *vC02HWorld, max uint64) (Outcome, string) {
	types := []OutcomeType{0, ReportIntervalsSelected, ReportGenerated, ReportEmpty, ReportInFlight, ReportTransmitted,
		ReportTransmissionFailed, 7, -1, ReportEmpty, ReportEmpty, ReportTransmitted, ReportTransmissionFailed, ReportIntervalsSelected}
	kind := vPick(r, []string{"retype", "stale-off", "random", "random", "type-only"})
	o := last
	switch kind {
	case "retype": // the last outcome's fields under another type
		o.OutcomeType = vPick(r, types)
	case "type-only":
		o = Outcome{OutcomeType: vPick(r, types)}
	}
	if kind == "stale-off" || kind == "random" {
		if kind == "random" {
			o = Outcome{OutcomeType: vPick(r, types)}
		}
		o.OffRampNextSeqNums = nil
		for _, k := range w.universe {
			if r.Chance(1, 3) {
				continue
			}
			v := w.off[k]
			switch r.Intn(4) {
			case 0: // stale: where the cursor was some reports ago
				if v > 3 {
					v -= uint64(r.Range(1, 3))
				}
			case 1:
				v += uint64(r.Range(1, 3))
			case 2:
				v = uint64(r.Range(0, 60))
			}
			o.OffRampNextSeqNums = append(o.OffRampNextSeqNums, plugintypes.NewSeqNumChain(k, cciptypes.SeqNum(v)))
		}
	}
	if kind == "random" {
		for _, k := range w.universe {
			if r.Chance(1, 2) {
				continue
			}
			s := w.off[k]
			if r.Chance(1, 3) && s > 2 {
				s -= uint64(r.Range(1, 2))
			}
			sat := func(a, b uint64) uint64 { // saturating addition
				if a > vC02Max-b {
					return vC02Max
				}
				return a + b
			}
			e := sat(s, uint64(r.Intn(6)))
			switch r.Intn(12) {
			case 0:
				if e < vC02Max {
					s, e = e+1, s // inverted
				}
			case 1:
				e = sat(s, 300)
			}
			o.RangesSelectedForReport = append(o.RangesSelectedForReport, plugintypes.ChainRange{ChainSel: k,
				SeqNumRange: cciptypes.NewSeqNumRange(cciptypes.SeqNum(s), cciptypes.SeqNum(e))})
		}
		if r.Chance(1, 2) {
			k := vPick(r, w.universe)
			o.RootsToReport = append(o.RootsToReport, vC02HRoot(w, k, cciptypes.NewSeqNumRange(3, 4), 9))
			var a, b cciptypes.Bytes32
			a[0], b[0] = 1, 2
			o.RMNReportSignatures = []cciptypes.RMNECDSASignature{{R: a, S: b}}
		}
		o.RMNRemoteCfg = vC02HCfg(r)
		sub := func(a, b uint64) uint64 {
			if a < b {
				return 0
			}
			return a - b
		}
		o.ReportTransmissionCheckAttempts = uint(vPick(r, []uint64{0, 1, sub(max, 2), sub(max, 1), max, math.MaxUint64}))
	}
	return o, kind
}

// ---------- votes ----------
// the oracles that vote value v for a key, drawn from a presence class relative to the threshold thr
func vC02HVoters(r *vRand, present []int, thr int, cls string) (main []int, other []int) {
	nOr := len(present)
	perm := make([]int, nOr)
	for i, j := range r.Perm(nOr) {
		perm[i] = present[j]
	}
	switch cls {
	case "agree":
		if thr > nOr {
			return perm, nil
		}
		m := r.Range(thr, nOr)
		return perm[:m], perm[m:]
	case "below":
		m := thr - 1
		if m > nOr {
			m = nOr
		}
		if m < 0 {
			m = 0
		}
		return perm[:m], perm[m:]
	case "split":
		if 2*thr <= nOr {
			return perm[:thr], perm[thr : 2*thr]
		}
		m := thr - 1
		if m > nOr {
			m = nOr
		}
		return perm[:m], perm[m:]
	}
	return nil, nil // absent
}

func vC02HPresence(r *vRand) string {
	return vPick(r, []string{"agree", "agree", "agree", "agree", "agree", "agree", "below", "absent", "absent", "split"})
}

type vC02HVotes struct {
	aos   []plugincommon.AttributedObservation[Observation]
	label string
}

func vC02HGenVotes(r *vRand, w *vC02HWorld, fed Outcome, nOr, F int) vC02HVotes {
	obs := make([]Observation, nOr)
	st := fed.NextState()
	// the oracles whose observation arrives in this round (votes are drawn among them)
	present := r.Perm(nOr)
	if r.Chance(1, 5) {
		present = present[:nOr-1]
	}
	if r.Chance(1, 25) {
		present = present[:2]
	}
	everything := r.Chance(1, 8) // every field voted on whatever the state
	label := ""
	// --- fChain (threshold 2F+1 of the role DON)
	agreedF := map[vC02HSel]int{}
	for i := range obs {
		obs[i].FChain = map[vC02HSel]int{}
	}
	fKeys := append([]vC02HSel{vC02Dest}, w.universe...)
	for _, k := range fKeys {
		cls := vPick(r, []string{"agree", "agree", "agree", "agree", "agree", "agree", "agree", "agree", "agree", "below", "absent", "other"})
		if k == vC02Dest && cls != "agree" && r.Chance(3, 4) {
			cls = "agree"
		}
		f := w.fch[k]
		if cls == "other" { // the DON agrees on another f than the world's
			f = 3 - f
			cls = "agree"
		}
		mainV, rest := vC02HVoters(r, present, 2*F+1, cls)
		for _, i := range mainV {
			obs[i].FChain[k] = f
		}
		for _, i := range rest {
			if r.Chance(1, 3) {
				obs[i].FChain[k] = f + 1 + i
			}
		}
		if len(mainV) >= 2*F+1 {
			agreedF[k] = f
		} else if k != vC02Dest {
			label += "f-unagreed,"
		}
	}
	thrOf := func(k vC02HSel) int {
		f, ok := agreedF[k]
		if !ok {
			f = w.fch[k]
		}
		return 2*f + 1
	}
	seqVotes := func(field string, k vC02HSel, v uint64, cls string) {
		mainV, rest := vC02HVoters(r, present, thrOf(k), cls)
		put := func(i int, x uint64) {
			sc := plugintypes.NewSeqNumChain(k, cciptypes.SeqNum(x))
			if field == "on" {
				obs[i].OnRampMaxSeqNums = append(obs[i].OnRampMaxSeqNums, sc)
			} else {
				obs[i].OffRampNextSeqNums = append(obs[i].OffRampNextSeqNums, sc)
			}
		}
		for _, i := range mainV {
			put(i, v)
		}
		for j, i := range rest {
			switch {
			case cls == "split":
				put(i, v+1)
			case r.Chance(1, 2):
				put(i, v+2+uint64(j)) // lagging / deviating readers, each its own value
			}
		}
	}
	// --- on-ramp latest / off-ramp next
	if st == SelectingRangesForReport || everything {
		for _, k := range w.universe {
			if !w.known[k] && !r.Chance(1, 6) {
				continue // a chain that is not configured is normally not observed at all
			}
			onCls, offCls := vC02HPresence(r), vC02HPresence(r)
			if w.cursed[k] && !r.Chance(1, 8) {
				offCls = "absent" // honest oracles leave cursed source chains out of the off-ramp observation
			}
			seqVotes("on", k, w.on[k], onCls)
			seqVotes("off", k, w.off[k], offCls)
			if onCls == "agree" && offCls != "agree" {
				label += "on-without-off,"
			}
			if onCls != "agree" && offCls == "agree" {
				label += "off-without-on,"
			}
		}
	} else if st == WaitingForReportTransmission {
		for _, k := range w.universe {
			if w.cursed[k] && !r.Chance(1, 8) {
				continue
			}
			seqVotes("off", k, w.off[k], vC02HPresence(r))
		}
	}
	// --- RMN remote config
	if st == SelectingRangesForReport || everything {
		cls := vPick(r, []string{"agree", "agree", "below", "absent", "split"})
		cfg := vC02HCfg(r)
		mainV, rest := vC02HVoters(r, present, thrOf(vC02Dest), cls)
		for _, i := range mainV {
			obs[i].RMNRemoteConfig = cfg
		}
		if cls == "split" {
			other := cfg
			other.ConfigDigest[5] ^= 0x77
			other.ContractAddress = []byte{0xC0, 2}
			for _, i := range rest {
				obs[i].RMNRemoteConfig = other
			}
		}
	}
	// --- merkle roots
	if st == BuildingReport || everything {
		seen := map[vC02HSel]bool{}
		rs := fed.RangesSelectedForReport
		if r.Chance(1, 6) { // a root for an interval nobody selected
			k := vPick(r, w.universe)
			rs = append(append([]plugintypes.ChainRange{}, rs...), plugintypes.ChainRange{ChainSel: k, SeqNumRange: cciptypes.NewSeqNumRange(1, 2)})
		}
		for _, cr := range rs {
			if seen[cr.ChainSel] {
				continue
			}
			seen[cr.ChainSel] = true
			cls := vC02HPresence(r)
			rt := vC02HRoot(w, cr.ChainSel, cr.SeqNumRange, 0)
			mainV, rest := vC02HVoters(r, present, thrOf(cr.ChainSel), cls)
			for _, i := range mainV {
				obs[i].MerkleRoots = append(obs[i].MerkleRoots, rt)
			}
			for j, i := range rest {
				if cls == "split" || r.Chance(1, 2) {
					x := vC02HRoot(w, cr.ChainSel, cr.SeqNumRange, byte(1+j))
					if cls == "split" {
						x = vC02HRoot(w, cr.ChainSel, cr.SeqNumRange, 100)
					}
					obs[i].MerkleRoots = append(obs[i].MerkleRoots, x)
				}
			}
		}
	}
	// oracle ids: distinct, not necessarily 0..n-1 in order
	ids := r.Perm(nOr)
	aos := make([]plugincommon.AttributedObservation[Observation], 0, nOr)
	sort.Ints(present)
	if r.Bool() { // the slice order libocr hands over is not the oracle order
		for i, j := range r.Perm(len(present)) {
			present[i], present[j] = present[j], present[i]
		}
	}
	for _, i := range present {
		o := obs[i]
		aos = append(aos, plugincommon.AttributedObservation[Observation]{OracleID: commontypes.OracleID(ids[i]), Observation: o})
	}
	if everything {
		label += "everything,"
	}
	return vC02HVotes{aos: aos, label: label}
}

// ---------- the table of internal hashes the model's tree is evaluated through ----------
type vC02HTriple struct{ a, b, c uint64 }

func vC02HLogTree(keccak hashutil.Hasher[[32]byte], hid func([32]byte) uint64, seen map[[2]uint64]bool, tbl *[]vC02HTriple, leaves [][32]byte) {
	layer := leaves
	for len(layer) > 1 {
		if len(layer)%2 == 1 {
			layer = append(append([][32]byte{}, layer...), keccak.ZeroHash())
		}
		var next [][32]byte
		for j := 0; j < len(layer); j += 2 {
			c := keccak.HashInternal(layer[j], layer[j+1])
			key := [2]uint64{hid(layer[j]), hid(layer[j+1])}
			if !seen[key] {
				seen[key] = true
				*tbl = append(*tbl, vC02HTriple{key[0], key[1], hid(c)})
			}
			next = append(next, c)
		}
		layer = next
	}
}

func vC02HOptList(err bool, xs []vC02HSel) string {
	if err {
		return cNone()
	}
	ks := make([]uint64, 0, len(xs))
	for _, k := range xs {
		ks = append(ks, uint64(k))
	}
	return cSome(cListN(ks))
}

func TestVerif_C02_hist(t *testing.T) {
	ctx := context.Background()
	r := vNewRand(vSeed() + 204)
	nHist := vEnvInt("VERIF_N", 60)
	sinkO := vOpenSink("C02_hist")
	defer sinkO.Close()
	sinkB := vOpenSink("C02_hobs")
	defer sinkB.Close()
	keccak := hashutil.NewKeccak()
	universe := []vC02HSel{1, 2, 3, 5}
	aspects := []string{"", "", "", "", "", "", "prev", "on", "off", "curse", "support", "known", "fchain", "addr", "reorg", "reader", "prev"}
	for hidx := 0; hidx < nHist; hidx++ {
		nOr := vPick(r, []int{4, 4, 7})
		F := (nOr - 1) / 3
		tree := vPick(r, []uint64{1, 2, 3, 4, 8, 256})
		max := vPick(r, []uint64{1, 2, 3, 5})
		aspect := aspects[hidx%len(aspects)]
		w := vC02HNewWorld(r, universe)
		w.hostile = (aspect == "" || aspect == "reader") && r.Chance(1, 2)
		if w.hostile && tree < 3 {
			tree = vPick(r, []uint64{3, 4, 8})
		}
		if nOr == 7 && r.Bool() {
			for _, k := range universe {
				w.fch[k] = 1 + r.Intn(2)
			}
		}
		hc := vNewHomeChain()
		syncHome := func() {
			hc.CfgErr = w.fchErr
			hc.Configs = map[vC02HSel]reader.ChainConfig{}
			for k, f := range w.fch {
				if k == vC02Dest || w.known[k] {
					hc.SetChain(k, f, nil)
				}
			}
		}
		rd := &vCCIPReader{
			MsgsFn: func(chain vC02HSel, rg cciptypes.SeqNumRange) ([]cciptypes.Message, error) { return w.answer(chain, rg) },
			AddrFn: func(name string, chain vC02HSel) ([]byte, error) {
				if w.addrErr[chain] {
					return nil, vErrNext()
				}
				return w.addr[chain], nil
			},
			NextSeqNumFn: func(chains []vC02HSel) ([]cciptypes.SeqNum, error) {
				if w.nextMode == 1 {
					return nil, vErrNext()
				}
				out := make([]cciptypes.SeqNum, 0, len(chains)+1)
				for _, c := range chains {
					out = append(out, cciptypes.SeqNum(w.off[c]))
				}
				if w.nextMode == 2 && len(out) > 0 {
					out = out[:len(out)-1]
				}
				if w.nextMode == 3 {
					out = append(out, 1)
				}
				return out, nil
			},
			ExpectedNextFn: func(src, dst vC02HSel) (cciptypes.SeqNum, error) {
				if w.expErr[src] {
					return 0, vErrNext()
				}
				if w.expZero[src] {
					return 0, nil
				}
				return cciptypes.SeqNum(w.on[src] + 1), nil
			},
			CurseFn: func(dest vC02HSel, src []vC02HSel) (*readerpkg.CurseInfo, error) {
				if w.curseErr {
					return nil, vErrNext()
				}
				ci := &readerpkg.CurseInfo{CursedSourceChains: map[vC02HSel]bool{}, GlobalCurse: w.blocked == 1, CursedDestination: w.blocked == 2}
				for k, c := range w.cursed {
					if c {
						ci.CursedSourceChains[k] = true
					}
				}
				return ci, nil
			},
		}
		idToPeer := map[commontypes.OracleID]ragep2ptypes.PeerID{}
		for o := 0; o < nOr; o++ {
			idToPeer[commontypes.OracleID(o)] = vPeer(o)
		}
		// the long-lived instance: built once, as the commit plugin builds it, used for every round of the history
		proc := NewProcessor(0, idToPeer, mocks.NullLogger,
			pluginconfig.CommitOffchainConfig{MaxMerkleTreeSize: tree, MaxReportTransmissionCheckAttempts: uint(max)},
			vC02Dest, hc, rd, vC02Hasher{},
			ocr3types.ReportingPluginConfig{F: F, N: nOr, OracleID: 0},
			vC02HSupport{w}, nil, nil, nil)
		prev := Outcome{}
		if r.Chance(1, 3) {
			prev, _ = vC02HLeftover(r, Outcome{}, w, max)
		}
		rounds := r.Range(8, 16)
		for rnd := 0; rnd < rounds; rnd++ {
			if rnd > 0 {
				w.step(r, aspect)
			}
			syncHome()
			fed := vC02HWire(prev)
			prevKind := "wire"
			if (aspect == "" || aspect == "prev") && r.Chance(1, 3) {
				var lo Outcome
				lo, prevKind = vC02HLeftover(r, fed, w, max)
				fed = vC02HWire(lo)
			}
			st := fed.NextState()
			stName := map[State]string{SelectingRangesForReport: "sel", BuildingReport: "build", WaitingForReportTransmission: "wait"}[st]
			q := Query{RetryRMNSignatures: r.Chance(1, 8)}
			if st == BuildingReport && r.Chance(1, 6) {
				q.RetryRMNSignatures = true
			}

			// ---------------- Observation of the long-lived instance
			{
				tm := vC02HT{in: vNewIntern()}
				hid := func(b [32]byte) uint64 { return tm.in.Id("h:" + hex.EncodeToString(b[:])) }
				zeroID := hid(keccak.ZeroHash())
				var ob Observation
				panicked := false
				func() {
					defer func() {
						if rec := recover(); rec != nil {
							panicked = true
						}
					}()
					var err error
					ob, err = proc.Observation(ctx, fed, q)
					if err != nil {
						panicked = true
					}
				}()
				building := st == BuildingReport && !q.RetryRMNSignatures
				var ansL, addrL []string
				var tbl []vC02HTriple
				seenT := map[[2]uint64]bool{}
				ntB := false
				if building {
					seen := map[vC02HSel]bool{}
					for _, cr := range fed.RangesSelectedForReport {
						k := cr.ChainSel
						if seen[k] {
							continue
						}
						seen[k] = true
						ms, err := w.answer(k, cr.SeqNumRange)
						if err != nil {
							ansL = append(ansL, cPair(cN(uint64(k)), cNone()))
						} else {
							ansL = append(ansL, cPair(cN(uint64(k)), cSome(cMap(ms, func(m cciptypes.Message) string {
								hh := cNone()
								if m.Header.MessageID[0] != 0xEE {
									hh = cSome(cN(hid(m.Header.MessageID)))
								}
								return cTup(cN(uint64(m.Header.SequenceNumber)), cN(uint64(m.Header.SourceChainSelector)), hh)
							}))))
							srt := append([]cciptypes.Message{}, ms...)
							sort.SliceStable(srt, func(x, y int) bool { return srt[x].Header.SequenceNumber < srt[y].Header.SequenceNumber })
							var leaves [][32]byte
							for _, m := range srt {
								if m.Header.MessageID[0] != 0xEE {
									leaves = append(leaves, m.Header.MessageID)
								}
							}
							if len(leaves) > 0 {
								vC02HLogTree(keccak, hid, seenT, &tbl, leaves)
							}
							if w.sup[k] && !w.supErr {
								ntB = true
							}
						}
						if !w.addrErr[k] {
							addrL = append(addrL, cPair(cN(uint64(k)), tm.addr(w.addr[k])))
						}
					}
				}
				curse := cNone()
				if !w.curseErr {
					var cs []uint64
					for _, k := range universe {
						if w.cursed[k] {
							cs = append(cs, uint64(k))
						}
					}
					curse = cSome(cPair(cBool(w.blocked != 0), cListN(cs)))
				}
				sd := cNone()
				if !w.sdErr {
					sd = cSome(cBool(w.sd))
				}
				env := cTup(vC02HOptList(w.supErr, w.supList()), vC02HOptList(w.knownErr, w.knownList()), sd, curse)
				var cur, ex []string
				for _, k := range universe {
					cur = append(cur, cPair(cN(uint64(k)), cN(w.off[k])))
					switch {
					case w.expErr[k]:
						ex = append(ex, cPair(cN(uint64(k)), cNone()))
					case w.expZero[k]:
						ex = append(ex, cPair(cN(uint64(k)), cSome(cN(0))))
					default:
						ex = append(ex, cPair(cN(uint64(k)), cSome(cN(w.on[k]+1))))
					}
				}
				fchS := cNone()
				if !w.fchErr {
					m := map[vC02HSel]int{}
					for k, c := range hc.Configs {
						m[k] = c.FChain
					}
					fchS = cSome(tm.fchain(m))
				}
				in := cTup(cZ(int64(fed.OutcomeType)), cMap(fed.RangesSelectedForReport, tm.chainRange), cBool(q.RetryRMNSignatures),
					env, cPair(cNi(w.nextMode), cList(cur)), cList(ex),
					cTup(cList(ansL), cList(addrL), cN(zeroID), cMap(tbl, func(x vC02HTriple) string { return cPair(cPair(cN(x.a), cN(x.b)), cN(x.c)) })),
					fchS)
				var out string
				if panicked {
					out = cTup(cList([]string{cTup(cN(0), cPair(cN(0), cN(0)), cN(0), cN(0))}), "[]", "[]", "[]")
				} else {
					out = cTup(cMap(ob.MerkleRoots, func(rt cciptypes.MerkleRootChain) string {
						return cTup(cN(uint64(rt.ChainSel)), tm.rng(rt.SeqNumsRange), tm.addr(rt.OnRampAddress), cN(hid(rt.MerkleRoot)))
					}), cMap(ob.OnRampMaxSeqNums, tm.seq), cMap(ob.OffRampNextSeqNums, tm.seq), tm.fchain(ob.FChain))
				}
				cls := stName + "/" + prevKind
				if q.RetryRMNSignatures && st == BuildingReport {
					cls += "/retry"
				}
				if aspect != "" {
					cls += "/only-" + aspect
				}
				nt := ntB || (st != BuildingReport && (len(ob.OffRampNextSeqNums) > 0 || len(ob.OnRampMaxSeqNums) > 0))
				if building {
					for _, cr := range fed.RangesSelectedForReport {
						if m := w.msgMode[cr.ChainSel]; m != "honest" && cr.SeqNumRange.End() >= cr.SeqNumRange.Start() &&
							uint64(cr.SeqNumRange.End()-cr.SeqNumRange.Start()) >= 2 && uint64(cr.SeqNumRange.End()) <= w.fin[cr.ChainSel] {
							cls += "/reader-" + m
							break
						}
					}
				}
				sinkB.Emit("C02_hobs", cls, nt, cPair(in, out), map[string]any{"history": hidx, "round": rnd, "state": stName,
					"prev": prevKind, "ranges": len(fed.RangesSelectedForReport), "roots": len(ob.MerkleRoots), "panic": panicked})
			}

			// ---------------- Outcome of the long-lived instance on this round's votes
			votes := vC02HGenVotes(r, w, fed, nOr, F)
			tm := vC02HT{in: vNewIntern()}
			var out Outcome
			panicked := false
			func() {
				defer func() {
					if rec := recover(); rec != nil {
						panicked = true
					}
				}()
				var err error
				out, err = proc.Outcome(ctx, fed, q, votes.aos)
				if err != nil {
					panicked = true
				}
			}()
			in := cTup(cZ(int64(F)), cN(uint64(vC02Dest)), cN(max), cN(tree), tm.outcome(fed), cBool(q.RetryRMNSignatures),
				cMap(votes.aos, func(ao plugincommon.AttributedObservation[Observation]) string {
					return cPair(cN(uint64(ao.OracleID)), tm.obs(ao.Observation))
				}))
			outS := ""
			if panicked {
				outS = cApp("hOut", cZ(-77), "[]", "[]", "[]", cN(0), "[]", cPair(cN(0), cN(0)))
			} else {
				out = vC02HWire(out)
				outS = tm.outcome(out)
			}
			// labels from the real consensus (labels only; the judge computes the agreed maps with the model)
			co, cerr := getConsensusObservation(mocks.NullLogger, F, vC02Dest, votes.aos)
			cls := stName + "/" + prevKind
			nt := false
			if cerr != nil {
				cls += "/no-consensus"
			} else {
				switch st {
				case SelectingRangesForReport:
					both := 0
					for k := range co.OffRampNextSeqNums {
						if _, ok := co.OnRampMaxSeqNums[k]; ok {
							both++
						}
					}
					nt = both >= 1
					for _, sc := range fed.OffRampNextSeqNums {
						_, offOK := co.OffRampNextSeqNums[sc.ChainSel]
						_, onOK := co.OnRampMaxSeqNums[sc.ChainSel]
						if !offOK && onOK {
							cls += "/carried-off-unagreed"
							break
						}
					}
				case BuildingReport:
					nt = len(co.MerkleRoots) >= 1 || q.RetryRMNSignatures
					if q.RetryRMNSignatures {
						cls += "/retry"
					}
				default:
					nt = true
				}
			}
			if aspect != "" {
				cls += "/only-" + aspect
			}
			sinkO.Emit("C02_hist", cls, nt, cPair(in, outS), map[string]any{"history": hidx, "round": rnd, "state": stName, "prev": prevKind,
				"votes": votes.label, "oracles": nOr, "F": F, "tree": tree, "outType": int(out.OutcomeType), "ranges": fmt.Sprint(out.RangesSelectedForReport),
				"prevOff": fmt.Sprint(fed.OffRampNextSeqNums), "panic": panicked})
			if panicked {
				break
			}
			if r.Chance(1, 7) {
				// the round did not complete: libocr starts the next round from the same previous outcome
				prev = fed
				continue
			}
			prev = out
		}
	}
}

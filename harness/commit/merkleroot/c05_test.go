//go:build verif

package merkleroot

// C05 harness, package merkleroot. Injected together with c03_test.go (term printers vC03Terms, generators).

import (
	"context"
	"encoding/hex"
	"sort"
	"testing"
	"time"

	"github.com/smartcontractkit/chainlink-common/pkg/hashutil"

	"github.com/smartcontractkit/libocr/commontypes"
	"github.com/smartcontractkit/libocr/offchainreporting2plus/ocr3types"
	ragep2ptypes "github.com/smartcontractkit/libocr/ragep2p/types"

	"github.com/smartcontractkit/chainlink-ccip/commit/merkleroot/rmn"
	"github.com/smartcontractkit/chainlink-ccip/commit/merkleroot/rmn/rmnpb"
	rmntypes "github.com/smartcontractkit/chainlink-ccip/commit/merkleroot/rmn/types"
	"github.com/smartcontractkit/chainlink-ccip/internal/mocks"
	"github.com/smartcontractkit/chainlink-ccip/internal/plugincommon"
	"github.com/smartcontractkit/chainlink-ccip/internal/plugintypes"
	"github.com/smartcontractkit/chainlink-ccip/pkg/consts"
	readerpkg "github.com/smartcontractkit/chainlink-ccip/pkg/reader"
	cciptypes "github.com/smartcontractkit/chainlink-ccip/pkg/types/ccipocr3"
	"github.com/smartcontractkit/chainlink-ccip/pluginconfig"
)

const vC05KnownDest = cciptypes.ChainSelector(5009297550715157269) // ethereum mainnet: known to chain-selectors
const vC05UnknownDest = cciptypes.ChainSelector(900)

// ---------- fakes ----------
type vC05Crypto struct {
	ok    bool
	calls int
	sigs  []cciptypes.RMNECDSASignature
	rep   cciptypes.RMNReport
	addrs []cciptypes.UnknownAddress
}

func (c *vC05Crypto) VerifyReportSignatures(_ context.Context, sigs []cciptypes.RMNECDSASignature, rep cciptypes.RMNReport, addrs []cciptypes.UnknownAddress) error {
	c.calls++
	c.sigs, c.rep, c.addrs = sigs, rep, addrs
	if c.ok {
		return nil
	}
	return vErrNext()
}

type vC05Home struct {
	readerpkg.RMNHome // only GetRMNNodesInfo is called by the code under test
	err               bool
}

func (h vC05Home) GetRMNNodesInfo(cciptypes.Bytes32) ([]rmntypes.HomeNodeInfo, error) {
	if h.err {
		return nil, vErrNext()
	}
	return nil, nil
}

type vC05Controller struct {
	rmn.Controller // only InitConnection is called by the code under test
	err            bool
}

func (c vC05Controller) InitConnection(context.Context, cciptypes.Bytes32, cciptypes.Bytes32, []ragep2ptypes.PeerID, []rmntypes.HomeNodeInfo) error {
	if c.err {
		return vErrNext()
	}
	return nil
}

// observer fake of the obs part: every call returns a fixed, non-empty, recognisable value, so that the observation
// returned by Processor.Observation shows which calls were made
type vC05Observer struct{}

var vC05ObsRoot = cciptypes.MerkleRootChain{ChainSel: 1, OnRampAddress: []byte{1, 0xAD}, SeqNumsRange: cciptypes.NewSeqNumRange(10, 12), MerkleRoot: cciptypes.Bytes32{0xAA, 9}}
var vC05ObsCfg = rmntypes.RemoteConfig{ContractAddress: []byte{0xC0}, ConfigDigest: cciptypes.Bytes32{0xD1}, F: 1, ConfigVersion: 1,
	Signers: []rmntypes.RemoteSignerInfo{{OnchainPublicKey: []byte{1}, NodeIndex: 0}, {OnchainPublicKey: []byte{2}, NodeIndex: 1}}, RmnReportVersion: cciptypes.Bytes32{0x52}}

func (vC05Observer) ObserveOffRampNextSeqNums(context.Context) []plugintypes.SeqNumChain {
	return []plugintypes.SeqNumChain{{ChainSel: 1, SeqNum: 10}}
}
func (vC05Observer) ObserveLatestOnRampSeqNums(context.Context, cciptypes.ChainSelector) []plugintypes.SeqNumChain {
	return []plugintypes.SeqNumChain{{ChainSel: 1, SeqNum: 40}}
}
func (vC05Observer) ObserveMerkleRoots(context.Context, []plugintypes.ChainRange) []cciptypes.MerkleRootChain {
	return []cciptypes.MerkleRootChain{vC05ObsRoot}
}
func (vC05Observer) ObserveRMNRemoteCfg(context.Context, cciptypes.ChainSelector) rmntypes.RemoteConfig {
	return vC05ObsCfg
}
func (vC05Observer) ObserveFChain() map[cciptypes.ChainSelector]int {
	return map[cciptypes.ChainSelector]int{1: 1}
}

func vC05ObsTerm(tm vC03Terms, ob Observation) string {
	return cApp("mkObs", cMap(ob.MerkleRoots, tm.root), tm.seqChains(ob.OnRampMaxSeqNums), tm.seqChains(ob.OffRampNextSeqNums),
		tm.cfg(ob.RMNRemoteConfig), cBool(len(ob.FChain) > 0))
}

// a bundle around the given roots; class decides how it deviates
func vC05Bundle(r *vRand, roots []cciptypes.MerkleRootChain, nsigs int) (*rmn.ReportSignatures, string) {
	rs := &rmn.ReportSignatures{}
	for i := 0; i < nsigs; i++ {
		rs.Signatures = append(rs.Signatures, vC03Sig(byte(i+1)))
	}
	cls := vPick(r, []string{"exact", "exact", "one-chain", "one-min", "one-max", "one-root", "one-addr", "subset", "superset",
		"duplicate", "none", "malformed"})
	dev := -1
	if len(roots) > 0 {
		dev = r.Intn(len(roots))
	}
	for i, rt := range roots {
		x := rt
		x.OnRampAddress = append([]byte{}, rt.OnRampAddress...)
		if i == dev {
			switch cls {
			case "one-chain":
				x.ChainSel++
			case "one-min":
				x.SeqNumsRange = cciptypes.NewSeqNumRange(x.SeqNumsRange.Start()+1, x.SeqNumsRange.End())
			case "one-max":
				x.SeqNumsRange = cciptypes.NewSeqNumRange(x.SeqNumsRange.Start(), x.SeqNumsRange.End()+1)
			case "one-root":
				x.MerkleRoot[31] ^= 1
			case "one-addr":
				// the address deviates in exactly one way: a byte appended / prepended, the first or the last byte
				// changed, or cut to its rightmost 20 bytes
				way := r.Intn(5)
				if len(x.OnRampAddress) == 0 {
					way = 0
				}
				switch way {
				case 0:
					x.OnRampAddress = append(x.OnRampAddress, 0)
				case 1:
					x.OnRampAddress = append([]byte{0}, x.OnRampAddress...)
				case 2:
					x.OnRampAddress[0] ^= 0x40
				case 3:
					x.OnRampAddress[len(x.OnRampAddress)-1] ^= 0x40
				default:
					if len(x.OnRampAddress) > 20 {
						x.OnRampAddress = x.OnRampAddress[len(x.OnRampAddress)-20:]
					} else {
						x.OnRampAddress[0] ^= 0x01
					}
				}
			case "subset":
				continue
			case "duplicate":
				rs.LaneUpdates = append(rs.LaneUpdates, vC03Lane(x))
			}
		}
		if cls == "none" {
			continue
		}
		rs.LaneUpdates = append(rs.LaneUpdates, vC03Lane(x))
	}
	switch cls {
	case "superset":
		rs.LaneUpdates = append(rs.LaneUpdates, vC03Lane(vC03Root(r, 77, 1, 9)))
	case "malformed":
		switch r.Intn(6) {
		case 0:
			rs.Signatures = append(rs.Signatures, nil)
		case 1:
			rs.Signatures = append(rs.Signatures, &rmnpb.EcdsaSignature{R: make([]byte, 31), S: make([]byte, 32)})
		case 2:
			rs.LaneUpdates = append(rs.LaneUpdates, nil)
		case 3:
			rs.LaneUpdates = append(rs.LaneUpdates, &rmnpb.FixedDestLaneUpdate{ClosedInterval: &rmnpb.ClosedInterval{}, Root: make([]byte, 32)})
		case 4:
			rs.LaneUpdates = append(rs.LaneUpdates, &rmnpb.FixedDestLaneUpdate{LaneSource: &rmnpb.LaneSource{}, Root: make([]byte, 32)})
		case 5:
			rs.LaneUpdates = append(rs.LaneUpdates, &rmnpb.FixedDestLaneUpdate{LaneSource: &rmnpb.LaneSource{}, ClosedInterval: &rmnpb.ClosedInterval{}, Root: make([]byte, r.Intn(31))})
		}
	}
	return rs, cls
}

// ---------- part obs ----------
func TestVerif_C05_obs(t *testing.T) {
	ctx := context.Background()
	r := vNewRand(vSeed() + 501)
	n := vEnvInt("VERIF_N", 600)
	sink := vOpenSink("C05_obs")
	defer sink.Close()
	for i := 0; i < n; i++ {
		tm := vC03Terms{in: vNewIntern()}
		enabled := !r.Chance(1, 6)
		ty := vPick(r, []int64{1, 1, 1, 1, 0, 2, 3, 4, 5, 6, 9})
		cfg := vC03Cfg(r)
		if r.Chance(1, 2) && cfg.IsEmpty() {
			cfg = vC03Cfg(r)
		}
		cfg.RmnReportVersion = vC03Bytes32(r, 0x52)
		if r.Chance(1, 8) {
			cfg = rmntypes.RemoteConfig{}
		}
		prev := Outcome{OutcomeType: OutcomeType(ty), RMNRemoteCfg: cfg}
		roots := []cciptypes.MerkleRootChain{vC03Root(r, 1, 10, 12), vC03Root(r, 2, 5, 5)}
		q := Query{RetryRMNSignatures: r.Chance(1, 5)}
		qcls := "no-bundle"
		if r.Chance(3, 4) {
			q.RMNSignatures, qcls = vC05Bundle(r, roots, r.Intn(4))
		}
		known := !r.Chance(1, 10)
		dest := vC05KnownDest
		if !known {
			dest = vC05UnknownDest
		}
		offErr := r.Chance(1, 10)
		offAddr := []byte{0x0F, byte(r.Intn(2))}
		init := r.Intn(2) // 0 cached, 1 init ok, 2 init fails
		if r.Chance(1, 8) {
			init = 2
		}
		crypto := &vC05Crypto{ok: !r.Chance(1, 4)}
		proc := &Processor{
			oracleID:        1,
			oracleIDToP2pID: map[commontypes.OracleID]ragep2ptypes.PeerID{1: {1}, 2: {2}},
			offchainCfg:     pluginconfig.CommitOffchainConfig{RMNEnabled: enabled},
			destChain:       dest,
			lggr:            mocks.NullLogger,
			observer:        vC05Observer{},
			ccipReader: &vCCIPReader{AddrFn: func(name string, chain cciptypes.ChainSelector) ([]byte, error) {
				if offErr {
					return nil, vErrNext()
				}
				return offAddr, nil
			}},
			reportingCfg:  ocr3types.ReportingPluginConfig{F: 1, N: 4},
			rmnCrypto:     crypto,
			rmnController: vC05Controller{err: init == 2 && r.Bool()},
			rmnHomeReader: vC05Home{err: false},
		}
		if init == 2 && !proc.rmnController.(vC05Controller).err {
			proc.rmnHomeReader = vC05Home{err: true}
		}
		if init == 0 {
			proc.rmnControllerCfgDigest = cfg.ConfigDigest
		} else {
			proc.rmnControllerCfgDigest = cciptypes.Bytes32{0xFE, 0xFE} // never a generated digest
		}
		code := 0
		var got Observation
		func() {
			defer func() {
				if rec := recover(); rec != nil {
					code = 2
				}
			}()
			var err error
			got, err = proc.Observation(ctx, prev, q) // the value is kept also when err != nil
			if err != nil {
				code = 1
			}
		}()
		call := cNone()
		if crypto.calls > 0 {
			lanes := cMap(crypto.rep.LaneUpdates, func(l cciptypes.RMNLaneUpdate) string {
				return cTup(cN(uint64(l.SourceChainSelector)), cPair(cN(uint64(l.MinSeqNr)), cN(uint64(l.MaxSeqNr))), tm.addr(l.OnRampAddress), tm.h32(l.MerkleRoot))
			})
			rep := cTup(tm.h32(crypto.rep.ReportVersionDigest), cN(uint64(crypto.rep.DestChainSelector)), tm.addr(crypto.rep.RmnRemoteContractAddress),
				tm.addr(crypto.rep.OfframpAddress), tm.h32(crypto.rep.RmnHomeContractConfigDigest), lanes)
			call = cSome(cTup(cMap(crypto.sigs, tm.sig), rep, cMap(crypto.addrs, func(a cciptypes.UnknownAddress) string { return tm.addr(a) })))
			if crypto.calls > 1 {
				code = 2 // verified twice: not expressible, shows as mismatch
			}
		}
		detail := cApp("mkDetail",
			cMap(cfg.Signers, func(s rmntypes.RemoteSignerInfo) string { return tm.addr(s.OnchainPublicKey) }),
			tm.addr(cfg.ContractAddress), tm.h32(cfg.ConfigDigest), tm.h32(cfg.RmnReportVersion))
		off := cSome(tm.addr(offAddr))
		if offErr {
			off = cNone()
		}
		world := cApp("mkWorld", cList([]string{tm.root(vC05ObsRoot)}), "[(1%N, 40%N)]", "[(1%N, 10%N)]", tm.cfg(vC05ObsCfg), "true")
		in := cTup(cBool(enabled), cZ(ty), cBool(cfg.IsEmpty()), detail, cN(uint64(dest)), cNi(init), cBool(known), off, tm.query(q), cBool(crypto.ok), world)
		cls := qcls
		if q.RetryRMNSignatures {
			cls = "retry+" + cls
		}
		if ty != 1 {
			cls = "notbuilding/" + cls
		}
		if !enabled {
			cls = "disabled/" + cls
		}
		sink.Emit("C05_obs", cls, enabled && ty == 1, cPair(in, cTup(cNi(code), call, vC05ObsTerm(tm, got))),
			map[string]any{"enabled": enabled, "prevType": ty, "cfgEmpty": cfg.IsEmpty(), "init": init, "known": known, "offErr": offErr, "cryptoOK": crypto.ok, "query": qcls, "retry": q.RetryRMNSignatures})
	}
}

// ---------- part build ----------
func TestVerif_C05_build(t *testing.T) {
	ctx := context.Background()
	r := vNewRand(vSeed() + 502)
	n := vEnvInt("VERIF_N", 600)
	sink := vOpenSink("C05_build")
	defer sink.Close()
	for i := 0; i < n; i++ {
		tm := vC03Terms{in: vNewIntern()}
		prev := Outcome{OutcomeType: ReportIntervalsSelected, RMNRemoteCfg: vC03Cfg(r),
			OffRampNextSeqNums: []plugintypes.SeqNumChain{{ChainSel: 1, SeqNum: 10}, {ChainSel: 2, SeqNum: 5}}}
		if r.Chance(1, 12) {
			prev.OutcomeType = vPick(r, []OutcomeType{0, 2, 3, 4})
		}
		// agreed roots: 0..3 chains; nil and empty addresses are the same address
		var agreed []cciptypes.MerkleRootChain
		for _, k := range []cciptypes.ChainSelector{1, 2, 3} {
			if r.Chance(2, 3) {
				rt := vC03Root(r, k, uint64(r.Range(1, 20)), uint64(r.Range(20, 40)))
				switch r.Intn(6) {
				case 0:
					rt.OnRampAddress = nil
				case 1:
					rt.OnRampAddress = []byte{}
				}
				agreed = append(agreed, rt)
				prev.RangesSelectedForReport = append(prev.RangesSelectedForReport, plugintypes.ChainRange{ChainSel: k, SeqNumRange: rt.SeqNumsRange})
			}
		}
		fChain := map[cciptypes.ChainSelector]int{vC03Dest: 1, 1: 1, 2: 1, 3: 1}
		var aos []plugincommon.AttributedObservation[Observation]
		for o := 0; o < 4; o++ {
			aos = append(aos, plugincommon.AttributedObservation[Observation]{OracleID: commontypes.OracleID(o),
				Observation: Observation{FChain: fChain, MerkleRoots: agreed}})
		}
		q := Query{RetryRMNSignatures: r.Chance(1, 12)}
		qcls := "no-bundle"
		if r.Chance(9, 10) {
			q.RMNSignatures, qcls = vC05Bundle(r, agreed, r.Intn(4))
		}
		proc := &Processor{
			offchainCfg:  pluginconfig.CommitOffchainConfig{MaxMerkleTreeSize: 256, MaxReportTransmissionCheckAttempts: 5, RMNEnabled: r.Bool()},
			destChain:    vC03Dest,
			lggr:         mocks.NullLogger,
			reportingCfg: ocr3types.ReportingPluginConfig{F: 1, N: 4},
		}
		co, cerr := getConsensusObservation(mocks.NullLogger, 1, vC03Dest, aos)
		prev = vC03Wire(prev)
		var out Outcome
		panicked := false
		func() {
			defer func() {
				if rec := recover(); rec != nil {
					panicked = true
				}
			}()
			var err error
			out, err = proc.Outcome(ctx, prev, q, aos)
			if err != nil {
				panicked = true
			}
		}()
		outS := cApp("mkOutcome", cZ(-77), "[]", "[]", "[]", cN(0), "[]", cPair(cN(0), cN(0)))
		if !panicked {
			outS = tm.outcome(vC03Wire(out))
		} else {
			qcls += "/PANIC"
		}
		in := cTup(cN(5), cN(256), tm.outcome(prev), tm.query(q), tm.cons(co, cerr))
		nsig := 0
		if q.RMNSignatures != nil {
			nsig = len(q.RMNSignatures.Signatures)
		}
		sink.Emit("C05_build", qcls, len(agreed) > 0 && q.RMNSignatures != nil, cPair(in, outS),
			map[string]any{"agreed": len(agreed), "bundle": qcls, "sigs": nsig, "retry": q.RetryRMNSignatures, "roots_out": len(out.RootsToReport), "sigs_out": len(out.RMNReportSignatures), "type_out": int(out.OutcomeType)})
	}
}

// ---------------------------------------------------------------------------------------------------------------
// part chain: Processor.Query -> Observation (4 oracles) -> ValidateObservation -> Outcome over histories, processors
// built with the real NewProcessor (real observerImpl over a scripted honest reader), RMN on or off
// ---------------------------------------------------------------------------------------------------------------

type vC05ChainCtrl struct {
	mode   string // "sigs", "timeout", "err"
	bundle *rmn.ReportSignatures
	calls  int
	reqs   []*rmnpb.FixedDestLaneUpdateRequest
	dest   *rmnpb.LaneDest
}

func (c *vC05ChainCtrl) InitConnection(context.Context, cciptypes.Bytes32, cciptypes.Bytes32, []ragep2ptypes.PeerID, []rmntypes.HomeNodeInfo) error {
	return nil
}
func (c *vC05ChainCtrl) Close() error { return nil }
func (c *vC05ChainCtrl) ComputeReportSignatures(_ context.Context, dest *rmnpb.LaneDest, reqs []*rmnpb.FixedDestLaneUpdateRequest, _ rmntypes.RemoteConfig) (*rmn.ReportSignatures, error) {
	c.calls++
	c.reqs, c.dest = reqs, dest
	switch c.mode {
	case "timeout":
		return nil, rmn.ErrTimeout
	case "err":
		return nil, vErrNext()
	}
	return c.bundle, nil
}

type vC05IdHasher struct{}

func (vC05IdHasher) Hash(_ context.Context, m cciptypes.Message) (cciptypes.Bytes32, error) {
	return m.Header.MessageID, nil
}

func vC05ChainMsg(k cciptypes.ChainSelector, seq uint64) cciptypes.Message {
	var id cciptypes.Bytes32
	id[0], id[1] = 0x4D, byte(k)
	for j := 0; j < 8; j++ {
		id[31-j] = byte(seq >> (8 * j))
	}
	return cciptypes.Message{Header: cciptypes.RampMessageHeader{MessageID: id, SequenceNumber: cciptypes.SeqNum(seq),
		SourceChainSelector: k, DestChainSelector: vC05KnownDest}}
}

func TestVerif_C05_chain(t *testing.T) {
	ctx := context.Background()
	r := vNewRand(vSeed() + 505)
	nHist := vEnvInt("VERIF_N", 120)
	sink := vOpenSink("C05_chain")
	defer sink.Close()
	keccak := hashutil.NewKeccak()
	sources := []cciptypes.ChainSelector{1, 2, 3}
	const dbMax = 400
	for hidx := 0; hidx < nHist; hidx++ {
		enabled := !r.Chance(1, 5)
		max := vPick(r, []uint64{1, 2, 3})
		tree := vPick(r, []uint64{2, 4, 9})
		// ---- the DON: 4 oracles, F = 1, every oracle reads every chain
		hc := vNewHomeChain()
		idToPeer := map[commontypes.OracleID]ragep2ptypes.PeerID{}
		var peers []ragep2ptypes.PeerID
		for o := 0; o < 4; o++ {
			idToPeer[commontypes.OracleID(o)] = vPeer(o)
			peers = append(peers, vPeer(o))
		}
		hc.SetChain(vC05KnownDest, 1, peers)
		for _, k := range sources {
			hc.SetChain(k, 1, peers)
		}
		// ---- the world the scripted reader shows
		off := map[cciptypes.ChainSelector]uint64{}
		on := map[cciptypes.ChainSelector]uint64{}
		for _, k := range sources {
			off[k] = uint64(r.Range(1, 20))
			on[k] = off[k] + uint64(r.Range(0, 6)) - 1
		}
		// a well-formed RMN remote config (ValidateObservation rejects malformed ones; that is C11/C12) or none
		wcfg := rmntypes.RemoteConfig{}
		if !r.Chance(1, 6) {
			wcfg = rmntypes.RemoteConfig{
				ContractAddress:  []byte{0xC0, byte(r.Intn(2))},
				ConfigDigest:     vC03Bytes32(r, 0xD1),
				Signers:          []rmntypes.RemoteSignerInfo{{OnchainPublicKey: []byte{1}, NodeIndex: 0}, {OnchainPublicKey: []byte{2}, NodeIndex: 1}, {OnchainPublicKey: []byte{3}, NodeIndex: 2}},
				F:                uint64(r.Intn(3)),
				ConfigVersion:    1,
				RmnReportVersion: vC03Bytes32(r, 0x52),
			}
		}
		offAddr := []byte{0x0F, 0x01}
		offErr := r.Chance(1, 25)
		onAddrErr := map[cciptypes.ChainSelector]bool{}
		if r.Chance(1, 20) {
			onAddrErr[vPick(r, sources)] = true
		}
		onAddr := func(k cciptypes.ChainSelector) []byte { return []byte{byte(k), 0xAD} }
		rd := &vCCIPReader{
			MsgsFn: func(chain cciptypes.ChainSelector, rg cciptypes.SeqNumRange) ([]cciptypes.Message, error) {
				ms := []cciptypes.Message{}
				for q := uint64(rg.Start()); q <= uint64(rg.End()) && q <= dbMax; q++ {
					if q <= on[chain] { // the reader holds what was sent so far
						ms = append(ms, vC05ChainMsg(chain, q))
					}
				}
				return ms, nil
			},
			AddrFn: func(name string, chain cciptypes.ChainSelector) ([]byte, error) {
				if name == consts.ContractNameOffRamp {
					if offErr {
						return nil, vErrNext()
					}
					return offAddr, nil
				}
				if onAddrErr[chain] {
					return nil, vErrNext()
				}
				return onAddr(chain), nil
			},
			NextSeqNumFn: func(chains []cciptypes.ChainSelector) ([]cciptypes.SeqNum, error) {
				out := make([]cciptypes.SeqNum, len(chains))
				for i, c := range chains {
					out[i] = cciptypes.SeqNum(off[c])
				}
				return out, nil
			},
			ExpectedNextFn: func(src, dst cciptypes.ChainSelector) (cciptypes.SeqNum, error) {
				return cciptypes.SeqNum(on[src] + 1), nil
			},
			RMNRemoteFn: func(cciptypes.ChainSelector) (rmntypes.RemoteConfig, error) { return wcfg, nil },
		}
		ctrl := &vC05ChainCtrl{}
		cryptos := make([]*vC05Crypto, 4)
		procs := make([]*Processor, 4)
		for o := 0; o < 4; o++ {
			cryptos[o] = &vC05Crypto{}
			oid := commontypes.OracleID(o)
			procs[o] = NewProcessor(oid, idToPeer, mocks.NullLogger,
				pluginconfig.CommitOffchainConfig{RMNEnabled: enabled, MaxMerkleTreeSize: tree, MaxReportTransmissionCheckAttempts: uint(max), RMNSignaturesTimeout: time.Second},
				vC05KnownDest, hc, rd, vC05IdHasher{},
				ocr3types.ReportingPluginConfig{F: 1, N: 4, OracleID: oid},
				plugincommon.NewChainSupport(mocks.NullLogger, hc, idToPeer, oid, vC05KnownDest),
				ctrl, cryptos[o], vC05Home{})
		}
		prev := Outcome{}
		rounds := r.Range(3, 10)
		for rd0 := 0; rd0 < rounds; rd0++ {
			tm := vC03Terms{in: vNewIntern(), dest: vC05KnownDest}
			hid := func(b [32]byte) uint64 { return tm.in.Id("h:" + hex.EncodeToString(b[:])) }
			zeroID := hid(keccak.ZeroHash())
			prev = vC03Wire(prev)
			st := prev.NextState()
			// the world moves: new messages arrive
			for _, k := range sources {
				if on[k]+3 < dbMax {
					on[k] += uint64(r.Intn(3))
				}
			}
			// true roots of the previous outcome's ranges (a fifth, unjudged observer instance computes them)
			trueRoots := procs[3].observer.ObserveMerkleRoots(ctx, prev.RangesSelectedForReport)
			sort.Slice(trueRoots, func(a, b int) bool { return trueRoots[a].ChainSel < trueRoots[b].ChainSel })
			mkBundle := func(kind string) *rmn.ReportSignatures {
				rs := &rmn.ReportSignatures{Signatures: []*rmnpb.EcdsaSignature{vC03Sig(1), vC03Sig(2), vC03Sig(3)}}
				for _, rt := range trueRoots {
					x := rt
					if kind == "other" {
						x.MerkleRoot[7] ^= 0x5A
					}
					rs.LaneUpdates = append(rs.LaneUpdates, vC03Lane(x))
				}
				if kind == "other" && len(trueRoots) == 0 {
					rs.LaneUpdates = append(rs.LaneUpdates, vC03Lane(vC03Root(r, 1, 1, 2)))
				}
				return rs
			}
			ans := r.Chance(2, 3)
			for o := range cryptos {
				*cryptos[o] = vC05Crypto{ok: ans}
			}
			// ---- leader
			var q Query
			var leadTerm, leadOut, lcls string
			leaderFailed := false
			if r.Bool() {
				ctrl.mode = vPick(r, []string{"sigs", "sigs", "sigs-other", "timeout", "err"})
				ctrl.calls, ctrl.reqs = 0, nil
				ctrlTerm := "CtrlErr"
				switch ctrl.mode {
				case "sigs":
					ctrl.bundle = mkBundle("matching")
				case "sigs-other":
					ctrl.bundle = mkBundle("other")
					ctrl.mode = "sigs"
				case "timeout":
					ctrlTerm = "CtrlTimeout"
				}
				if ctrl.mode == "sigs" {
					ctrlTerm = cApp("CtrlSigs", tm.query(Query{RMNSignatures: ctrl.bundle})[len("(mkQuery false (Some "):])
					ctrlTerm = ctrlTerm[:len(ctrlTerm)-2] // strip the two closing parentheses of mkQuery / Some
				}
				lcls = "honest-" + ctrl.mode
				leadTerm = cApp("LHonest", ctrlTerm)
				code := 0
				func() {
					defer func() {
						if rec := recover(); rec != nil {
							code = 2
						}
					}()
					var err error
					q, err = procs[rd0%4].Query(ctx, prev)
					if err != nil {
						code = 1
					}
				}()
				reqT := cNone()
				if ctrl.calls > 0 {
					reqT = cSome(cMap(ctrl.reqs, func(u *rmnpb.FixedDestLaneUpdateRequest) string {
						return cTup(cN(u.LaneSource.SourceChainSelector), tm.addr(u.LaneSource.OnrampAddress), cN(u.ClosedInterval.MinMsgNr), cN(u.ClosedInterval.MaxMsgNr))
					}))
				}
				qT := cNone()
				if code == 0 {
					qT = cSome(tm.query(q))
				} else {
					leaderFailed = true
				}
				leadOut = cTup(cNi(code), qT, reqT)
			} else {
				q = Query{RetryRMNSignatures: r.Bool()}
				kind := vPick(r, []string{"absent", "matching", "matching", "other"})
				if kind != "absent" {
					q.RMNSignatures = mkBundle(kind)
				}
				lcls = "byz-" + kind
				if kind == "matching" && !ans {
					lcls = "byz-forged"
				}
				if q.RetryRMNSignatures {
					lcls += "+retry"
				}
				leadTerm = cApp("LByz", tm.query(q))
				leadOut = cTup(cNi(0), cSome(tm.query(q)), cNone())
			}
			// ---- oracles
			restOut := cNone()
			var out Outcome
			haveOut := false
			var co consensusObservation
			var cerr error = vErrNext()
			if !leaderFailed {
				obsT := make([]string, 4)
				codes := make([]int, 4)
				var aos []plugincommon.AttributedObservation[Observation]
				var validT []string
				var validAos []plugincommon.AttributedObservation[Observation]
				for o := 0; o < 4; o++ {
					var ob Observation
					func() {
						defer func() {
							if rec := recover(); rec != nil {
								codes[o] = 2
							}
						}()
						var err error
						ob, err = procs[o].Observation(ctx, prev, q)
						if err != nil {
							codes[o] = 1
						}
					}()
					sort.Slice(ob.MerkleRoots, func(a, b int) bool { return ob.MerkleRoots[a].ChainSel < ob.MerkleRoots[b].ChainSel })
					sort.Slice(ob.OnRampMaxSeqNums, func(a, b int) bool { return ob.OnRampMaxSeqNums[a].ChainSel < ob.OnRampMaxSeqNums[b].ChainSel })
					sort.Slice(ob.OffRampNextSeqNums, func(a, b int) bool { return ob.OffRampNextSeqNums[a].ChainSel < ob.OffRampNextSeqNums[b].ChainSel })
					obsT[o] = cApp("mkObs", cMap(ob.MerkleRoots, tm.root), tm.seqChains(ob.OnRampMaxSeqNums), tm.seqChains(ob.OffRampNextSeqNums),
						tm.cfg(ob.RMNRemoteConfig), cBool(len(ob.FChain) > 0))
					aos = append(aos, plugincommon.AttributedObservation[Observation]{OracleID: commontypes.OracleID(o), Observation: ob})
				}
				alike := true
				for o := 1; o < 4; o++ {
					if obsT[o] != obsT[0] || codes[o] != codes[0] || cryptos[o].calls != cryptos[0].calls {
						alike = false
					}
				}
				for o := 0; o < 4; o++ {
					ok := false
					func() {
						defer func() { _ = recover() }()
						ok = procs[0].ValidateObservation(prev, q, aos[o]) == nil
					}()
					validT = append(validT, cBool(ok))
					if ok {
						validAos = append(validAos, aos[o])
					}
				}
				call := cNone()
				if c := cryptos[0]; c.calls > 0 {
					lanes := cMap(c.rep.LaneUpdates, func(l cciptypes.RMNLaneUpdate) string {
						return cTup(cN(uint64(l.SourceChainSelector)), cPair(cN(uint64(l.MinSeqNr)), cN(uint64(l.MaxSeqNr))), tm.addr(l.OnRampAddress), tm.h32(l.MerkleRoot))
					})
					rep := cTup(tm.h32(c.rep.ReportVersionDigest), cN(uint64(c.rep.DestChainSelector)), tm.addr(c.rep.RmnRemoteContractAddress),
						tm.addr(c.rep.OfframpAddress), tm.h32(c.rep.RmnHomeContractConfigDigest), lanes)
					call = cSome(cTup(cMap(c.sigs, tm.sig), rep, cMap(c.addrs, func(a cciptypes.UnknownAddress) string { return tm.addr(a) })))
					if c.calls > 1 {
						codes[0] = 2
					}
				}
				outT := cNone()
				if len(validAos) >= 3 { // libocr calls Outcome on a quorum (2F+1) of valid observations only
					co, cerr = getConsensusObservation(mocks.NullLogger, 1, vC05KnownDest, validAos)
					func() {
						defer func() {
							if rec := recover(); rec != nil {
								outT = cSome(cApp("mkOutcome", cZ(-77), "[]", "[]", "[]", cN(0), "[]", cPair(cN(0), cN(0))))
							}
						}()
						o2, err := procs[0].Outcome(ctx, prev, q, validAos)
						if err != nil {
							panic(err)
						}
						out, haveOut = vC03Wire(o2), true
						outT = cSome(tm.outcome(out))
					}()
				}
				restOut = cSome(cTup(cTup(cNi(codes[0]), call, obsT[0], cBool(alike)), cList(validT), outT))
			}
			// ---- input term
			cfg := prev.RMNRemoteCfg
			detail := cApp("mkDetail",
				cMap(cfg.Signers, func(s rmntypes.RemoteSignerInfo) string { return tm.addr(s.OnchainPublicKey) }),
				tm.addr(cfg.ContractAddress), tm.h32(cfg.ConfigDigest), tm.h32(cfg.RmnReportVersion))
			offT := cSome(tm.addr(offAddr))
			if offErr {
				offT = cNone()
			}
			var onrL, ansL []string
			for _, k := range sources {
				if !onAddrErr[k] {
					onrL = append(onrL, cPair(cN(uint64(k)), tm.addr(onAddr(k))))
				}
			}
			type triple struct{ a, b, c uint64 }
			var tbl []triple
			seenT := map[[2]uint64]bool{}
			seenK := map[cciptypes.ChainSelector]bool{}
			for _, cr := range prev.RangesSelectedForReport {
				if seenK[cr.ChainSel] {
					continue
				}
				seenK[cr.ChainSel] = true
				ms, _ := rd.MsgsFn(cr.ChainSel, cr.SeqNumRange)
				ansL = append(ansL, cPair(cN(uint64(cr.ChainSel)), cSome(cMap(ms, func(m cciptypes.Message) string {
					return cTup(cN(uint64(m.Header.SequenceNumber)), cN(uint64(m.Header.SourceChainSelector)), cSome(cN(hid(m.Header.MessageID))))
				}))))
				var layer [][32]byte
				for _, m := range ms {
					layer = append(layer, m.Header.MessageID)
				}
				for len(layer) > 1 {
					if len(layer)%2 == 1 {
						layer = append(append([][32]byte{}, layer...), keccak.ZeroHash())
					}
					var next [][32]byte
					for j := 0; j < len(layer); j += 2 {
						c := keccak.HashInternal(layer[j], layer[j+1])
						key := [2]uint64{hid(layer[j]), hid(layer[j+1])}
						if !seenT[key] {
							seenT[key] = true
							tbl = append(tbl, triple{key[0], key[1], hid(c)})
						}
						next = append(next, c)
					}
					layer = next
				}
			}
			supT := cSome(cList([]string{cN(uint64(vC05KnownDest)), cN(1), cN(2), cN(3)}))
			rootsSide := cTup(supT, cList(ansL), cN(zeroID), cMap(tbl, func(x triple) string { return cPair(cPair(cN(x.a), cN(x.b)), cN(x.c)) }))
			var wonL, woffL []string
			for _, k := range sources {
				wonL = append(wonL, cPair(cN(uint64(k)), cN(on[k])))
				woffL = append(woffL, cPair(cN(uint64(k)), cN(off[k])))
			}
			input := cTup(cBool(enabled), cN(max), cN(tree), tm.outcome(prev), detail, cN(uint64(vC05KnownDest)), offT, cList(onrL),
				leadTerm, cBool(ans), rootsSide, cList(wonL), cList(woffL), tm.cfg(wcfg), cBool(true), tm.cons(co, cerr))
			cls := map[State]string{SelectingRangesForReport: "selecting", BuildingReport: "building", WaitingForReportTransmission: "waiting"}[st] + "/" + lcls
			if !enabled {
				cls = "rmn-off/" + cls
			}
			sink.Emit("C05_chain", cls, enabled && st == BuildingReport, cPair(input, cPair(leadOut, restOut)),
				map[string]any{"enabled": enabled, "state": int(st), "leader": lcls, "cryptoOK": ans, "round": rd0, "haveOutcome": haveOut,
					"roots_out": len(out.RootsToReport), "sigs_out": len(out.RMNReportSignatures), "type_out": int(out.OutcomeType)})
			if !haveOut {
				break // no quorum of valid observations / leader failed: libocr would start another round on the same outcome
			}
			// the report is transmitted some time after it was generated
			if out.OutcomeType == ReportGenerated || (prev.OutcomeType == ReportGenerated && r.Bool()) || out.OutcomeType == ReportInFlight {
				if r.Bool() {
					src := out.RootsToReport
					for _, rt := range src {
						off[rt.ChainSel] = uint64(rt.SeqNumsRange.End()) + 1
					}
				}
			}
			prev = out
		}
	}
}

//go:build verif

package merkleroot

// C05 harness, package merkleroot. Injected together with c03_test.go (term printers vC03Terms, generators).

import (
	"context"
	"testing"

	"github.com/smartcontractkit/libocr/commontypes"
	"github.com/smartcontractkit/libocr/offchainreporting2plus/ocr3types"
	ragep2ptypes "github.com/smartcontractkit/libocr/ragep2p/types"

	"github.com/smartcontractkit/chainlink-ccip/commit/merkleroot/rmn"
	"github.com/smartcontractkit/chainlink-ccip/commit/merkleroot/rmn/rmnpb"
	rmntypes "github.com/smartcontractkit/chainlink-ccip/commit/merkleroot/rmn/types"
	"github.com/smartcontractkit/chainlink-ccip/internal/mocks"
	"github.com/smartcontractkit/chainlink-ccip/internal/plugincommon"
	"github.com/smartcontractkit/chainlink-ccip/internal/plugintypes"
	readerpkg "github.com/smartcontractkit/chainlink-ccip/pkg/reader"
	cciptypes "github.com/smartcontractkit/chainlink-ccip/pkg/types/ccipocr3"
	"github.com/smartcontractkit/chainlink-ccip/pluginconfig"
)

const vC05KnownDest = cciptypes.ChainSelector(5009297550715157269) // ethereum mainnet: known to chain-selectors
const vC05UnknownDest = cciptypes.ChainSelector(900)

// ---------- fakes ----------
type vC05Crypto struct {
	ok    bool
	calls int
	sigs  []cciptypes.RMNECDSASignature
	rep   cciptypes.RMNReport
	addrs []cciptypes.UnknownAddress
}

func (c *vC05Crypto) VerifyReportSignatures(_ context.Context, sigs []cciptypes.RMNECDSASignature, rep cciptypes.RMNReport, addrs []cciptypes.UnknownAddress) error {
	c.calls++
	c.sigs, c.rep, c.addrs = sigs, rep, addrs
	if c.ok {
		return nil
	}
	return vErr
}

type vC05Home struct {
	readerpkg.RMNHome // only GetRMNNodesInfo is called by the code under test
	err               bool
}

func (h vC05Home) GetRMNNodesInfo(cciptypes.Bytes32) ([]rmntypes.HomeNodeInfo, error) {
	if h.err {
		return nil, vErr
	}
	return nil, nil
}

type vC05Controller struct {
	rmn.Controller // only InitConnection is called by the code under test
	err            bool
}

func (c vC05Controller) InitConnection(context.Context, cciptypes.Bytes32, cciptypes.Bytes32, []ragep2ptypes.PeerID, []rmntypes.HomeNodeInfo) error {
	if c.err {
		return vErr
	}
	return nil
}

type vC05Observer struct{}

func (vC05Observer) ObserveOffRampNextSeqNums(context.Context) []plugintypes.SeqNumChain { return nil }
func (vC05Observer) ObserveLatestOnRampSeqNums(context.Context, cciptypes.ChainSelector) []plugintypes.SeqNumChain {
	return nil
}
func (vC05Observer) ObserveMerkleRoots(context.Context, []plugintypes.ChainRange) []cciptypes.MerkleRootChain {
	return nil
}
func (vC05Observer) ObserveRMNRemoteCfg(context.Context, cciptypes.ChainSelector) rmntypes.RemoteConfig {
	return rmntypes.RemoteConfig{}
}
func (vC05Observer) ObserveFChain() map[cciptypes.ChainSelector]int { return nil }

// a bundle around the given roots; class decides how it deviates
func vC05Bundle(r *vRand, roots []cciptypes.MerkleRootChain, nsigs int) (*rmn.ReportSignatures, string) {
	rs := &rmn.ReportSignatures{}
	for i := 0; i < nsigs; i++ {
		rs.Signatures = append(rs.Signatures, vC03Sig(byte(i+1)))
	}
	cls := vPick(r, []string{"exact", "exact", "one-chain", "one-min", "one-max", "one-root", "one-addr", "subset", "superset",
		"duplicate", "none", "malformed"})
	dev := -1
	if len(roots) > 0 {
		dev = r.Intn(len(roots))
	}
	for i, rt := range roots {
		x := rt
		x.OnRampAddress = append([]byte{}, rt.OnRampAddress...)
		if i == dev {
			switch cls {
			case "one-chain":
				x.ChainSel++
			case "one-min":
				x.SeqNumsRange = cciptypes.NewSeqNumRange(x.SeqNumsRange.Start()+1, x.SeqNumsRange.End())
			case "one-max":
				x.SeqNumsRange = cciptypes.NewSeqNumRange(x.SeqNumsRange.Start(), x.SeqNumsRange.End()+1)
			case "one-root":
				x.MerkleRoot[31] ^= 1
			case "one-addr":
				// the address deviates in exactly one way: a byte appended / prepended, the first or the last byte
				// changed, or cut to its rightmost 20 bytes
				way := r.Intn(5)
				if len(x.OnRampAddress) == 0 {
					way = 0
				}
				switch way {
				case 0:
					x.OnRampAddress = append(x.OnRampAddress, 0)
				case 1:
					x.OnRampAddress = append([]byte{0}, x.OnRampAddress...)
				case 2:
					x.OnRampAddress[0] ^= 0x40
				case 3:
					x.OnRampAddress[len(x.OnRampAddress)-1] ^= 0x40
				default:
					if len(x.OnRampAddress) > 20 {
						x.OnRampAddress = x.OnRampAddress[len(x.OnRampAddress)-20:]
					} else {
						x.OnRampAddress[0] ^= 0x01
					}
				}
			case "subset":
				continue
			case "duplicate":
				rs.LaneUpdates = append(rs.LaneUpdates, vC03Lane(x))
			}
		}
		if cls == "none" {
			continue
		}
		rs.LaneUpdates = append(rs.LaneUpdates, vC03Lane(x))
	}
	switch cls {
	case "superset":
		rs.LaneUpdates = append(rs.LaneUpdates, vC03Lane(vC03Root(r, 77, 1, 9)))
	case "malformed":
		switch r.Intn(6) {
		case 0:
			rs.Signatures = append(rs.Signatures, nil)
		case 1:
			rs.Signatures = append(rs.Signatures, &rmnpb.EcdsaSignature{R: make([]byte, 31), S: make([]byte, 32)})
		case 2:
			rs.LaneUpdates = append(rs.LaneUpdates, nil)
		case 3:
			rs.LaneUpdates = append(rs.LaneUpdates, &rmnpb.FixedDestLaneUpdate{ClosedInterval: &rmnpb.ClosedInterval{}, Root: make([]byte, 32)})
		case 4:
			rs.LaneUpdates = append(rs.LaneUpdates, &rmnpb.FixedDestLaneUpdate{LaneSource: &rmnpb.LaneSource{}, Root: make([]byte, 32)})
		case 5:
			rs.LaneUpdates = append(rs.LaneUpdates, &rmnpb.FixedDestLaneUpdate{LaneSource: &rmnpb.LaneSource{}, ClosedInterval: &rmnpb.ClosedInterval{}, Root: make([]byte, r.Intn(31))})
		}
	}
	return rs, cls
}

// ---------- part obs ----------
func TestVerif_C05_obs(t *testing.T) {
	ctx := context.Background()
	r := vNewRand(vSeed() + 501)
	n := vEnvInt("VERIF_N", 600)
	sink := vOpenSink("C05_obs")
	defer sink.Close()
	for i := 0; i < n; i++ {
		tm := vC03Terms{in: vNewIntern()}
		enabled := !r.Chance(1, 6)
		ty := vPick(r, []int64{1, 1, 1, 1, 0, 2, 3, 4, 5, 6, 9})
		cfg := vC03Cfg(r)
		if r.Chance(1, 2) && cfg.IsEmpty() {
			cfg = vC03Cfg(r)
		}
		cfg.RmnReportVersion = vC03Bytes32(r, 0x52)
		if r.Chance(1, 8) {
			cfg = rmntypes.RemoteConfig{}
		}
		prev := Outcome{OutcomeType: OutcomeType(ty), RMNRemoteCfg: cfg}
		roots := []cciptypes.MerkleRootChain{vC03Root(r, 1, 10, 12), vC03Root(r, 2, 5, 5)}
		q := Query{RetryRMNSignatures: r.Chance(1, 5)}
		qcls := "no-bundle"
		if r.Chance(3, 4) {
			q.RMNSignatures, qcls = vC05Bundle(r, roots, r.Intn(4))
		}
		known := !r.Chance(1, 10)
		dest := vC05KnownDest
		if !known {
			dest = vC05UnknownDest
		}
		offErr := r.Chance(1, 10)
		offAddr := []byte{0x0F, byte(r.Intn(2))}
		init := r.Intn(2) // 0 cached, 1 init ok, 2 init fails
		if r.Chance(1, 8) {
			init = 2
		}
		crypto := &vC05Crypto{ok: !r.Chance(1, 4)}
		proc := &Processor{
			oracleID:        1,
			oracleIDToP2pID: map[commontypes.OracleID]ragep2ptypes.PeerID{1: {1}, 2: {2}},
			offchainCfg:     pluginconfig.CommitOffchainConfig{RMNEnabled: enabled},
			destChain:       dest,
			lggr:            mocks.NullLogger,
			observer:        vC05Observer{},
			ccipReader: &vCCIPReader{AddrFn: func(name string, chain cciptypes.ChainSelector) ([]byte, error) {
				if offErr {
					return nil, vErr
				}
				return offAddr, nil
			}},
			reportingCfg:  ocr3types.ReportingPluginConfig{F: 1, N: 4},
			rmnCrypto:     crypto,
			rmnController: vC05Controller{err: init == 2 && r.Bool()},
			rmnHomeReader: vC05Home{err: false},
		}
		if init == 2 && !proc.rmnController.(vC05Controller).err {
			proc.rmnHomeReader = vC05Home{err: true}
		}
		if init == 0 {
			proc.rmnControllerCfgDigest = cfg.ConfigDigest
		} else {
			proc.rmnControllerCfgDigest = cciptypes.Bytes32{0xFE, 0xFE} // never a generated digest
		}
		code := 0
		func() {
			defer func() {
				if rec := recover(); rec != nil {
					code = 2
				}
			}()
			_, err := proc.Observation(ctx, prev, q)
			if err != nil {
				code = 1
			}
		}()
		call := cNone()
		if crypto.calls > 0 {
			lanes := cMap(crypto.rep.LaneUpdates, func(l cciptypes.RMNLaneUpdate) string {
				return cTup(cN(uint64(l.SourceChainSelector)), cPair(cN(uint64(l.MinSeqNr)), cN(uint64(l.MaxSeqNr))), tm.addr(l.OnRampAddress), tm.h32(l.MerkleRoot))
			})
			rep := cTup(tm.h32(crypto.rep.ReportVersionDigest), cN(uint64(crypto.rep.DestChainSelector)), tm.addr(crypto.rep.RmnRemoteContractAddress),
				tm.addr(crypto.rep.OfframpAddress), tm.h32(crypto.rep.RmnHomeContractConfigDigest), lanes)
			call = cSome(cTup(cMap(crypto.sigs, tm.sig), rep, cMap(crypto.addrs, func(a cciptypes.UnknownAddress) string { return tm.addr(a) })))
			if crypto.calls > 1 {
				code = 2 // verified twice: not expressible, shows as mismatch
			}
		}
		detail := cApp("mkDetail",
			cMap(cfg.Signers, func(s rmntypes.RemoteSignerInfo) string { return tm.addr(s.OnchainPublicKey) }),
			tm.addr(cfg.ContractAddress), tm.h32(cfg.ConfigDigest), tm.h32(cfg.RmnReportVersion))
		off := cSome(tm.addr(offAddr))
		if offErr {
			off = cNone()
		}
		in := cTup(cBool(enabled), cZ(ty), cBool(cfg.IsEmpty()), detail, cN(uint64(dest)), cNi(init), cBool(known), off, tm.query(q), cBool(crypto.ok))
		cls := qcls
		if q.RetryRMNSignatures {
			cls = "retry+" + cls
		}
		if ty != 1 {
			cls = "notbuilding/" + cls
		}
		if !enabled {
			cls = "disabled/" + cls
		}
		sink.Emit("C05_obs", cls, enabled && ty == 1, cPair(in, cPair(cNi(code), call)),
			map[string]any{"enabled": enabled, "prevType": ty, "cfgEmpty": cfg.IsEmpty(), "init": init, "known": known, "offErr": offErr, "cryptoOK": crypto.ok, "query": qcls, "retry": q.RetryRMNSignatures})
	}
}

// ---------- part build ----------
func TestVerif_C05_build(t *testing.T) {
	ctx := context.Background()
	r := vNewRand(vSeed() + 502)
	n := vEnvInt("VERIF_N", 600)
	sink := vOpenSink("C05_build")
	defer sink.Close()
	for i := 0; i < n; i++ {
		tm := vC03Terms{in: vNewIntern()}
		prev := Outcome{OutcomeType: ReportIntervalsSelected, RMNRemoteCfg: vC03Cfg(r),
			OffRampNextSeqNums: []plugintypes.SeqNumChain{{ChainSel: 1, SeqNum: 10}, {ChainSel: 2, SeqNum: 5}}}
		if r.Chance(1, 12) {
			prev.OutcomeType = vPick(r, []OutcomeType{0, 2, 3, 4})
		}
		// agreed roots: 0..3 chains; nil and empty addresses are the same address
		var agreed []cciptypes.MerkleRootChain
		for _, k := range []cciptypes.ChainSelector{1, 2, 3} {
			if r.Chance(2, 3) {
				rt := vC03Root(r, k, uint64(r.Range(1, 20)), uint64(r.Range(20, 40)))
				switch r.Intn(6) {
				case 0:
					rt.OnRampAddress = nil
				case 1:
					rt.OnRampAddress = []byte{}
				}
				agreed = append(agreed, rt)
				prev.RangesSelectedForReport = append(prev.RangesSelectedForReport, plugintypes.ChainRange{ChainSel: k, SeqNumRange: rt.SeqNumsRange})
			}
		}
		fChain := map[cciptypes.ChainSelector]int{vC03Dest: 1, 1: 1, 2: 1, 3: 1}
		var aos []plugincommon.AttributedObservation[Observation]
		for o := 0; o < 4; o++ {
			aos = append(aos, plugincommon.AttributedObservation[Observation]{OracleID: commontypes.OracleID(o),
				Observation: Observation{FChain: fChain, MerkleRoots: agreed}})
		}
		q := Query{RetryRMNSignatures: r.Chance(1, 12)}
		qcls := "no-bundle"
		if r.Chance(9, 10) {
			q.RMNSignatures, qcls = vC05Bundle(r, agreed, r.Intn(4))
		}
		proc := &Processor{
			offchainCfg:  pluginconfig.CommitOffchainConfig{MaxMerkleTreeSize: 256, MaxReportTransmissionCheckAttempts: 5, RMNEnabled: r.Bool()},
			destChain:    vC03Dest,
			lggr:         mocks.NullLogger,
			reportingCfg: ocr3types.ReportingPluginConfig{F: 1, N: 4},
		}
		co, cerr := getConsensusObservation(mocks.NullLogger, 1, vC03Dest, aos)
		prev = vC03Wire(prev)
		var out Outcome
		panicked := false
		func() {
			defer func() {
				if rec := recover(); rec != nil {
					panicked = true
				}
			}()
			var err error
			out, err = proc.Outcome(ctx, prev, q, aos)
			if err != nil {
				panicked = true
			}
		}()
		outS := cApp("mkOutcome", cZ(-77), "[]", "[]", "[]", cN(0), "[]", cPair(cN(0), cN(0)))
		if !panicked {
			outS = tm.outcome(vC03Wire(out))
		} else {
			qcls += "/PANIC"
		}
		in := cTup(cN(5), cN(256), tm.outcome(prev), tm.query(q), tm.cons(co, cerr))
		nsig := 0
		if q.RMNSignatures != nil {
			nsig = len(q.RMNSignatures.Signatures)
		}
		sink.Emit("C05_build", qcls, len(agreed) > 0 && q.RMNSignatures != nil, cPair(in, outS),
			map[string]any{"agreed": len(agreed), "bundle": qcls, "sigs": nsig, "retry": q.RetryRMNSignatures, "roots_out": len(out.RootsToReport), "sigs_out": len(out.RMNReportSignatures), "type_out": int(out.OutcomeType)})
	}
}

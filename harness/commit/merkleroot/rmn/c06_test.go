//go:build verif

// C06 correspondence harness: drives the REAL rmn.controller.ComputeReportSignatures with a scripted PeerClient
// (the harness owns the Recv channel and records every Send), table-driven ed25519 / RMNCrypto stubs and an
// RMNHome stub.  Every schedule is generated from the PRNG; an item is delivered only when the controller
// goroutine is parked in its select (goroutine status read from runtime.Stack), so timers that are due have
// fired and the run is deterministic; "race" items are handed over at the next select entry, where Go may pick
// either ready case (the Coq side then allows both outcomes).
package rmn

import (
	"bytes"
	"context"
	"crypto/ed25519"
	"crypto/sha256"
	"errors"
	"fmt"
	"runtime"
	"sort"
	"strconv"
	"sync"
	"testing"
	"time"

	mapset "github.com/deckarep/golang-set/v2"
	"google.golang.org/protobuf/proto"

	chainsel "github.com/smartcontractkit/chain-selectors"
	ragep2ptypes "github.com/smartcontractkit/libocr/ragep2p/types"

	"github.com/smartcontractkit/chainlink-common/pkg/logger"

	"github.com/smartcontractkit/chainlink-ccip/commit/merkleroot/rmn/rmnpb"
	rmntypes "github.com/smartcontractkit/chainlink-ccip/commit/merkleroot/rmn/types"
	readerpkg "github.com/smartcontractkit/chainlink-ccip/pkg/reader"
	cciptypes "github.com/smartcontractkit/chainlink-ccip/pkg/types/ccipocr3"
)

// ---------------------------------------------------------------- identities (byte strings <-> model ids)

func vC06Root(id uint64) []byte { b := make([]byte, 32); b[31] = byte(id); return b } // id 0 = the empty Bytes32
func vC06RootID(b []byte) uint64 {
	if len(b) != 32 || !bytes.Equal(b[:31], make([]byte, 31)) {
		return 999
	}
	return uint64(b[31])
}
// vC06OnrampN: the on-ramp address with identity id as an n-byte string. n = 32 is the abi-encoded form the plugin
// requests (0xAB, zeros, then the 20 address bytes 0x11 .. id), n = 20 the bare address; other lengths exist so that
// the 20-byte rule of the controller is exercised on requested addresses that are shorter / longer.
func vC06OnrampN(id uint64, n int) []byte {
	b := make([]byte, n)
	if n > 20 {
		b[0] = 0xAB
	}
	if n >= 20 {
		b[n-20] = 0x11
	} else if n >= 2 {
		b[0] = 0x11
	}
	if n >= 1 {
		b[n-1] = byte(id)
	}
	return b
}

// olen as stored in requests / lane updates: 0 = the usual 32 bytes, -1 = an empty address, else the length
func vC06ReqLen(olen int) int {
	switch {
	case olen == 0:
		return 32
	case olen < 0:
		return 0
	}
	return olen
}

// the harness's own statement of what an observation has to carry for a requested address: its last 20 bytes
func vC06Tail20(b []byte) []byte {
	if len(b) > 20 {
		return b[len(b)-20:]
	}
	return b
}

// a byte string whose length matters, for the Coq side: (length, its non-zero bytes as (index from the end, byte) in
// ascending index order) — canonical, so equal terms <=> bytes.Equal
func cAddr(b []byte) string {
	var nz []string
	for i := len(b) - 1; i >= 0; i-- {
		if b[i] != 0 {
			nz = append(nz, cPair(cNi(len(b)-1-i), cNi(int(b[i]))))
		}
	}
	return cPair(cNi(len(b)), cList(nz))
}
func vC06Offramp(id uint64) []byte  { return []byte{0x0f, 0xfa, byte(id)} }
func vC06Digest(id uint64) cciptypes.Bytes32 {
	var d cciptypes.Bytes32
	d[0] = 0xD1
	d[31] = byte(id)
	return d
}
func vC06Addr(id uint64) []byte { b := make([]byte, 20); b[19] = byte(id); return b } // order of bytes = order of ids
func vC06Key(id uint64) *ed25519.PublicKey {
	k := make(ed25519.PublicKey, 32)
	k[0] = byte(id)
	return &k
}

var vC06DestSel = [3]uint64{0, chainsel.TEST_90000004.Selector, 4242} // id 1: known chain, id 2: unknown to chain-selectors

// ---------------------------------------------------------------- stubs

type vC06Home struct {
	readerpkg.RMNHome // unimplemented methods are never called by the controller
	nodes             []rmntypes.HomeNodeInfo
	f                 map[cciptypes.ChainSelector]int
	// long-lived use (history part): the reader knows exactly one config digest at a time, its answers are replaced
	// between calls (always by freshly built values, never by mutation of what an earlier answer handed out)
	strict bool
	digest cciptypes.Bytes32
}

func (h *vC06Home) GetRMNNodesInfo(d cciptypes.Bytes32) ([]rmntypes.HomeNodeInfo, error) {
	if h.strict && d != h.digest {
		return nil, errors.New("stub: unknown config digest")
	}
	return h.nodes, nil
}
func (h *vC06Home) GetF(d cciptypes.Bytes32) (map[cciptypes.ChainSelector]int, error) {
	if h.strict && d != h.digest {
		return nil, errors.New("stub: unknown config digest")
	}
	cp := map[cciptypes.ChainSelector]int{}
	for k, v := range h.f {
		cp[k] = v
	}
	return cp, nil
}

// ed25519 stub: a signature is the marker of the key followed by the 32 bytes the signer signed; it verifies iff the
// marker is the key's and those bytes are exactly the message the controller asks to verify. The harness computes
// the signed bytes independently (vC06ObsPreimage), so a change of what verifyObservationSignature hashes or
// prefixes invalidates every honest response.
type vC06Ed struct{}

const vC06Prefix = "chainlink ccip 1.6 rmn observation"

func (vC06Ed) Verify(pk ed25519.PublicKey, msg, sig []byte) bool {
	return len(sig) == 34 && sig[0] == 0xED && sig[1] == pk[0] && bytes.Equal(sig[2:], msg)
}

// sha256(prefix | sha256(observation bytes)), as documented for RMN offchain observation signatures
func vC06ObsPreimage(ob *rmnpb.Observation) []byte {
	var obs []byte
	if ob != nil {
		var err error
		if obs, err = proto.Marshal(ob); err != nil {
			panic(err)
		}
	}
	h1 := sha256.Sum256(obs)
	h2 := sha256.Sum256(append([]byte(vC06Prefix), h1[:]...))
	return h2[:]
}

// RMNCrypto stub: signature (R,S) verifies for the signer address whose id is R[0]; remembers the reports it saw
type vC06Crypto struct {
	mu      sync.Mutex
	reports []cciptypes.RMNReport
}

func (c *vC06Crypto) VerifyReportSignatures(_ context.Context, sigs []cciptypes.RMNECDSASignature,
	rep cciptypes.RMNReport, signers []cciptypes.UnknownAddress) error {
	c.mu.Lock()
	c.reports = append(c.reports, rep)
	c.mu.Unlock()
	if len(sigs) != 1 || len(signers) != 1 {
		return errors.New("stub: expected one signature and one signer")
	}
	if !bytes.Equal(signers[0], vC06Addr(uint64(sigs[0].R[0]))) {
		return errors.New("stub: signature does not verify")
	}
	return nil
}

type vC06Send struct {
	kind   uint64 // 0 observation request, 1 report signature request
	node   uint64
	rid    uint64 // real request id
	iid    uint64 // interned: 1 + index of the Send call
	ok     bool
	chains []uint64
	epoch  int // number of select entries before this Send
	attr   []*rmnpb.AttributedSignedObservation
}

type vC06Peer struct {
	mu           sync.Mutex
	ch           chan PeerResponse // unbuffered: a delivery completes when the select takes it
	preload      chan PeerResponse // race items wait here for the next select entry
	nextPreload  *PeerResponse
	cancelAtNext bool
	cancel       context.CancelFunc
	epoch        int
	sends        []vC06Send
	fails        []bool
	base         int // Send calls of earlier ComputeReportSignatures calls on the same controller (history part)
	inits        int // InitConnection calls seen
}

func (p *vC06Peer) InitConnection(context.Context, cciptypes.Bytes32, cciptypes.Bytes32,
	[]ragep2ptypes.PeerID, []rmntypes.HomeNodeInfo) error {
	p.mu.Lock()
	p.inits++
	p.mu.Unlock()
	return nil
}

// arm prepares the long-lived peer for the next call of the same controller: the channels stay, the script starts over,
// model request ids go on counting where the previous call stopped.
func (p *vC06Peer) arm(fails []bool, cancel context.CancelFunc) {
	p.mu.Lock()
	defer p.mu.Unlock()
	p.base += len(p.sends)
	p.sends, p.epoch, p.fails, p.cancel = nil, 0, fails, cancel
	p.nextPreload, p.cancelAtNext = nil, false
	for len(p.preload) > 0 {
		<-p.preload
	}
}
func (p *vC06Peer) Close() error { return nil }
func (p *vC06Peer) Send(n rmntypes.HomeNodeInfo, request []byte) error {
	p.mu.Lock()
	defer p.mu.Unlock()
	req := &rmnpb.Request{}
	if err := proto.Unmarshal(request, req); err != nil {
		panic("harness: request does not unmarshal")
	}
	k := len(p.sends)
	s := vC06Send{node: uint64(n.ID), rid: req.RequestId, iid: uint64(p.base + k + 1), epoch: p.epoch}
	s.ok = !(k < len(p.fails) && p.fails[k])
	if or := req.GetObservationRequest(); or != nil {
		for _, r := range or.FixedDestLaneUpdateRequests {
			s.chains = append(s.chains, r.LaneSource.SourceChainSelector)
		}
	} else if sr := req.GetReportSignatureRequest(); sr != nil {
		s.kind = 1
		s.attr = sr.AttributedSignedObservations
	} else {
		panic("harness: request of unknown kind")
	}
	p.sends = append(p.sends, s)
	if !s.ok {
		return errors.New("scripted send failure")
	}
	return nil
}

// Recv is evaluated by the controller at every entry of its select.
func (p *vC06Peer) Recv() <-chan PeerResponse {
	p.mu.Lock()
	defer p.mu.Unlock()
	p.epoch++
	if len(p.preload) > 0 {
		return p.preload
	}
	if p.nextPreload != nil {
		p.preload <- *p.nextPreload
		p.nextPreload = nil
		return p.preload
	}
	if p.cancelAtNext {
		p.cancelAtNext = false
		p.cancel()
	}
	return p.ch
}
func (p *vC06Peer) snapshot() []vC06Send {
	p.mu.Lock()
	defer p.mu.Unlock()
	return append([]vC06Send(nil), p.sends...)
}

// ---------------------------------------------------------------- goroutine status

func vC06GoID() string {
	buf := make([]byte, 64)
	n := runtime.Stack(buf, false)
	f := bytes.Fields(buf[:n])
	return string(f[1])
}

// vC06Parked reports whether goroutine gid is blocked in a select statement.
func vC06Parked(gid string, buf []byte) bool {
	n := runtime.Stack(buf, true)
	key := []byte("goroutine " + gid + " [")
	i := bytes.Index(buf[:n], key)
	if i < 0 {
		return false
	}
	return bytes.HasPrefix(buf[i+len(key):n], []byte("select"))
}

// ---------------------------------------------------------------- scripted messages (mirror of the Coq types)

type vC06LU struct {
	src       bool
	ch, onr   uint64
	olen      int    // length class of the REQUESTED address this lane update answers (see vC06ReqLen)
	raw       bool   // the on-ramp bytes are onrRaw instead of the last 20 bytes of the requested address
	onrRaw    []byte
	itv       bool
	mn, mx    uint64
	rootKind  int // 0 nil, 1 short, 2 exact, 3 long
	root      uint64
	shortLen  int // length of a short root (default 5)
}
type vC06Body struct {
	garbage bool
	rid     uint64 // real request id
	iid     uint64 // model request id
	kind    int    // 0 none, 1 observation, 2 report signature
	// observation
	hasObs, hasDest bool
	sel, off, dig   uint64
	lus             []vC06LU
	sig             uint64
	sigEmpty        bool // no signature bytes at all
	sigOther        bool // the right key's marker over other bytes than this observation
	// report signature
	hasSig   bool
	lenOK    bool
	rLen     int  // with !lenOK: length of R (0 = 31)
	sShort   bool // with !lenOK: S has 31 bytes, R is fine
	by, nonc uint64
}

// the on-ramp address bytes of a lane update
func (l *vC06LU) onramp() []byte {
	if l.raw {
		return l.onrRaw
	}
	return vC06Tail20(vC06OnrampN(l.onr, vC06ReqLen(l.olen)))
}

// setOnramp replaces the address by f(expected bytes, requested bytes)
func (l *vC06LU) setOnramp(f func(exp, req []byte) []byte) {
	exp := append([]byte(nil), l.onramp()...)
	req := vC06OnrampN(l.onr, vC06ReqLen(l.olen))
	l.onrRaw, l.raw = f(exp, req), true
}
func (l *vC06LU) bumpOnramp() {
	l.setOnramp(func(exp, _ []byte) []byte {
		if len(exp) == 0 {
			return []byte{1}
		}
		exp[len(exp)-1]++
		return exp
	})
}

// the on-ramp address shapes that are NOT the requested lane although they share bytes with it
var vC06OnrampShapes = []struct {
	name string
	f    func(exp, req []byte) []byte
}{
	{"onramp-empty", func(exp, req []byte) []byte { return []byte{} }},
	{"onramp-tail-1", func(exp, req []byte) []byte {
		if len(exp) < 2 {
			return append(exp, 0)
		}
		return exp[len(exp)-1:]
	}},
	{"onramp-tail-19", func(exp, req []byte) []byte {
		if len(exp) < 2 {
			return append(exp, 0)
		}
		return exp[1:]
	}},
	{"onramp-head-19", func(exp, req []byte) []byte {
		if len(exp) < 2 {
			return append([]byte{0}, exp...)
		}
		return exp[:len(exp)-1]
	}},
	{"onramp-as-requested", func(exp, req []byte) []byte { // the full requested (abi-encoded) form: longer, same tail
		if len(req) == len(exp) {
			return append([]byte{0}, exp...)
		}
		return req
	}},
	{"onramp-padded-21", func(exp, req []byte) []byte { return append([]byte{0}, exp...) }},
	{"onramp-plus-zero", func(exp, req []byte) []byte { return append(exp, 0) }},
}

func (b *vC06Body) pb() []byte {
	if b.garbage {
		return []byte{0xff, 0xff, 0xff, 0x07}
	}
	r := &rmnpb.Response{RequestId: b.rid}
	switch b.kind {
	case 1:
		so := &rmnpb.SignedObservation{}
		var ob *rmnpb.Observation
		if b.hasObs {
			ob = &rmnpb.Observation{RmnHomeContractConfigDigest: func() []byte { d := vC06Digest(b.dig); return d[:] }(),
				Timestamp: 1}
			if b.hasDest {
				ob.LaneDest = &rmnpb.LaneDest{DestChainSelector: vC06DestSel[b.sel], OfframpAddress: vC06Offramp(b.off)}
			}
			for _, l := range b.lus {
				lu := &rmnpb.FixedDestLaneUpdate{}
				if l.src {
					lu.LaneSource = &rmnpb.LaneSource{SourceChainSelector: l.ch, OnrampAddress: l.onramp()}
				}
				if l.itv {
					lu.ClosedInterval = &rmnpb.ClosedInterval{MinMsgNr: l.mn, MaxMsgNr: l.mx}
				}
				switch l.rootKind {
				case 1:
					n := l.shortLen
					if n <= 0 || n >= 32 {
						n = 5
					}
					lu.Root = make([]byte, n)
					lu.Root[0], lu.Root[n-1] = 1, byte(l.root)
				case 2:
					lu.Root = vC06Root(l.root)
				case 3:
					lu.Root = append(vC06Root(l.root), 0x77)
				}
				ob.FixedDestLaneUpdates = append(ob.FixedDestLaneUpdates, lu)
			}
			so.Observation = ob
		}
		if !b.sigEmpty {
			pre := vC06ObsPreimage(ob)
			if b.sigOther {
				pre[0] ^= 0xff
			}
			so.Signature = append([]byte{0xED, byte(b.sig)}, pre...)
		}
		r.Response = &rmnpb.Response_SignedObservation{SignedObservation: so}
	case 2:
		rs := &rmnpb.ReportSignature{}
		if b.hasSig {
			n, m := 32, 32
			if !b.lenOK {
				switch {
				case b.sShort:
					m = 31
				case b.rLen > 0:
					n = b.rLen
				default:
					n = 31
				}
			}
			R := make([]byte, n)
			S := make([]byte, m)
			R[0], R[1] = byte(b.by), byte(b.nonc)
			rs.Signature = &rmnpb.EcdsaSignature{R: R, S: S}
		}
		r.Response = &rmnpb.Response_ReportSignature{ReportSignature: rs}
	}
	out, err := proto.Marshal(r)
	if err != nil {
		panic(err)
	}
	return out
}

func (b *vC06Body) coq() string {
	if b.garbage {
		return "BGarbage"
	}
	var p string
	switch b.kind {
	case 0:
		p = "PNone"
	case 1:
		ob := cNone()
		if b.hasObs {
			dest := cNone()
			if b.hasDest {
				dest = cSome(cPair(cN(b.sel), cN(b.off)))
			}
			lus := cMap(b.lus, func(l vC06LU) string {
				src, itv := cNone(), cNone()
				if l.src {
					src = cSome(cPair(cN(l.ch), cAddr(l.onramp())))
				}
				if l.itv {
					itv = cSome(cPair(cN(l.mn), cN(l.mx)))
				}
				root := [...]string{"RNil", "RShort", cApp("R32", cN(l.root)), cApp("RLong", cN(l.root))}[l.rootKind]
				return cApp("mkLU", src, itv, root)
			})
			ob = cSome(cApp("mkObs", dest, cN(b.dig), lus))
		}
		sg := b.sig
		if b.sigEmpty || b.sigOther {
			sg = 0 // no key has marker 0
		}
		p = cApp("PObs", cApp("mkSO", ob, cN(sg)))
	case 2:
		sg := cNone()
		if b.hasSig {
			sg = cSome(cApp("mkEcdsa", cBool(b.lenOK), cN(b.by*100+b.nonc)))
		}
		p = cApp("PSig", sg)
	}
	return cApp("BMsg", cN(b.iid), p)
}

// ---------------------------------------------------------------- configuration of one case

type vC06Node struct {
	id     uint64
	chains []uint64
	key    uint64
}
type vC06Req struct {
	ch, onr, mn, mx uint64
	olen            int // length class of the requested on-ramp address (see vC06ReqLen)
}

func (q vC06Req) onramp() []byte { return vC06OnrampN(q.onr, vC06ReqLen(q.olen)) }
type vC06Signer struct{ node, addr uint64 }
type vC06Cfg struct {
	nodes     []vC06Node
	homeF     [][2]int64 // chain, F
	destSel   uint64
	destOff   uint64
	digest    uint64
	reqs      []vC06Req
	signers   []vC06Signer
	remoteF   uint64
	dueA      bool
	dueB      bool
	trueRoot  map[uint64]uint64
	altRoot   map[uint64]uint64
	byzantine map[uint64]bool
}

func (c *vC06Cfg) coq() string {
	return cApp("mkConfig",
		cMap(c.nodes, func(n vC06Node) string { return cApp("mkHomeNode", cN(n.id), cListN(n.chains), cN(n.key)) }),
		cMap(c.homeF, func(p [2]int64) string { return cPair(cN(uint64(p[0])), cZ(p[1])) }),
		cN(c.destSel), cN(c.destOff), cBool(c.destSel == 1), cN(c.digest),
		cMap(c.reqs, func(r vC06Req) string { return cApp("mkLaneReq", cN(r.ch), cAddr(r.onramp()), cN(r.mn), cN(r.mx)) }),
		cMap(c.signers, func(s vC06Signer) string { return cApp("mkSigner", cN(s.node), cN(s.addr)) }),
		cZ(int64(c.remoteF)), cBool(c.dueA), cBool(c.dueB))
}

func (c *vC06Cfg) observers(ch uint64) []uint64 {
	var r []uint64
	for _, n := range c.nodes {
		for _, x := range n.chains {
			if x == ch {
				r = append(r, n.id)
			}
		}
	}
	return r
}
func (c *vC06Cfg) node(id uint64) *vC06Node {
	for i := range c.nodes {
		if c.nodes[i].id == id {
			return &c.nodes[i]
		}
	}
	return nil
}
func (c *vC06Cfg) req(ch uint64) *vC06Req {
	for i := range c.reqs {
		if c.reqs[i].ch == ch {
			return &c.reqs[i]
		}
	}
	return nil
}

func vC06GenCfg(r *vRand, cls string) *vC06Cfg {
	c := &vC06Cfg{destSel: 1, destOff: 7, digest: 3, trueRoot: map[uint64]uint64{}, altRoot: map[uint64]uint64{},
		byzantine: map[uint64]bool{}}
	nn := r.Range(2, 6)
	ids := r.Perm(10)
	for i := 0; i < nn; i++ {
		c.nodes = append(c.nodes, vC06Node{id: uint64(ids[i]), key: uint64(20 + ids[i])})
	}
	nch := r.Range(1, 3)
	chs := r.Perm(6)
	for i := 0; i < nch; i++ {
		ch := uint64(chs[i] + 1)
		f := int64(r.Range(0, 2))
		// number of observers at the boundary F, F+1, F+2, all
		want := int(f) + r.Range(0, 2)
		if r.Chance(1, 4) {
			want = nn
		}
		if cls != "fewobs" && want < int(f)+1 {
			want = int(f) + 1
		}
		if want > nn {
			want = nn
			if cls != "fewobs" && int64(nn) < f+1 {
				f = int64(nn) - 1
			}
		}
		for _, k := range r.Perm(nn)[:want] {
			c.nodes[k].chains = append(c.nodes[k].chains, ch)
		}
		c.homeF = append(c.homeF, [2]int64{int64(ch), f})
		c.reqs = append(c.reqs, vC06Req{ch: ch, onr: uint64(30 + ch), mn: uint64(r.Range(0, 50)), mx: uint64(60 + r.Range(0, 50))})
		c.trueRoot[ch] = uint64(100 + ch)
		c.altRoot[ch] = uint64(200 + ch)
		if r.Chance(1, 12) {
			c.altRoot[ch] = 0 // the empty root as a competing value
		}
		if r.Chance(1, 40) {
			c.trueRoot[ch] = 0
		}
	}
	// a chain that is configured but not requested, so that "unexpected source chain" responses exist
	c.homeF = append(c.homeF, [2]int64{9, 0})
	for i := range c.nodes {
		if r.Bool() {
			c.nodes[i].chains = append(c.nodes[i].chains, 9)
		}
		vSortU64(c.nodes[i].chains)
	}
	switch cls {
	case "nof":
		c.homeF = c.homeF[1:]
	case "dupchain":
		c.reqs = append(c.reqs, c.reqs[0])
	case "baddest":
		c.destSel = 2
	}
	// remote signers
	c.remoteF = uint64(r.Range(0, 2))
	ns := int(c.remoteF) + r.Range(0, 2)
	if cls != "fewsigners" && ns < int(c.remoteF)+1 {
		ns = int(c.remoteF) + 1
	}
	if ns > nn {
		ns = nn
		if cls != "fewsigners" && uint64(nn) < c.remoteF+1 {
			c.remoteF = uint64(nn) - 1
		}
	}
	addrs := r.Perm(60)
	for i, k := range r.Perm(nn)[:ns] {
		c.signers = append(c.signers, vC06Signer{node: c.nodes[k].id, addr: uint64(addrs[i] + 1)})
	}
	if r.Chance(1, 8) { // a signer that RMNHome does not know
		c.signers = append(c.signers, vC06Signer{node: 77, addr: uint64(addrs[ns] + 1)})
	}
	for _, n := range c.nodes {
		if r.Chance(1, 3) {
			c.byzantine[n.id] = true
		}
	}
	c.dueA = r.Chance(1, 3)
	c.dueB = r.Chance(1, 3)
	// requested on-ramp addresses that are not the usual 32 bytes: exactly 20, 21, longer, short, one byte, empty
	if r.Chance(1, 8) {
		c.reqs[r.Intn(len(c.reqs))].olen = vPick(r, []int{20, 21, 40, 5, 1, -1, 19})
	}
	return c
}

// ---------------------------------------------------------------- response generator

type vC06Gen struct {
	r      *vRand
	c      *vC06Cfg
	sent   []vC06Body          // bodies delivered so far (for duplicates)
	sentBy []uint64            // and their senders
	used   map[uint64]bool     // model ids already answered by their addressee
	honest int                 // out of 100: probability that the next response is a correct one
	// "villain" mode: Byzantine nodes answer their own request with the honest roots / a plausible signature but
	// with ONE fixed defect, so that their vote would tip a threshold if the corresponding check were missing
	villainA, villainB int // -1 = off
	// "attack" mode (phase A): the observers of attackChain other than the attacker stay silent, everybody else is
	// honest, and the attacker answers EVERY request id it holds with a correctly signed observation that carries all
	// requested lanes it observes (whether or not they were asked under that id), with its own root on attackChain.
	// With one request per node this is one vote; if a node ever holds two request ids it votes twice.
	attack              bool
	attacker, attackChain uint64
	sweep *vC06Sweep
	// history part: answers to requests of EARLIER calls on the same controller that may still arrive now (real and
	// model request ids of that earlier call)
	stale []vC06Item
	// history part: the identity a node had in an EARLIER call where it differs from the current one (offchain key of a
	// node whose key was rotated or that left RMNHome; signer address of a node whose address changed or that is no
	// signer any more).  A node that is unaware of the change, or Byzantine, still answers with it.
	oldKey, oldAddr map[uint64]uint64
}

// previousIdentity lets a Byzantine node answer an otherwise correct response with its earlier key / address
func (g *vC06Gen) previousIdentity(b *vC06Body, node uint64, phaseB bool) bool {
	if phaseB {
		if a, ok := g.oldAddr[node]; ok && b.by != a && g.c.byzantine[node] && g.r.Chance(1, 2) {
			b.by = a
			return true
		}
		return false
	}
	if k, ok := g.oldKey[node]; ok && b.sig != k && g.c.byzantine[node] && g.r.Chance(1, 2) {
		b.sig = k
		return true
	}
	return false
}

// ---------------------------------------------------------------- systematic anomaly sweep
// One honest run in which ONE response (the first one of the chosen phase, from the asked node with the smallest id)
// carries one anomaly or a pair of anomalies; everybody else, and the same node afterwards where its request is
// still open, answers correctly.
type vC06Anom struct {
	name  string
	order int // lane-list surgery first (0), lane field surgery next (1), everything else last (2)
	apply func(g *vC06Gen, b *vC06Body, node *uint64, target vC06Send, any []vC06Send)
	twice bool
}
type vC06Sweep struct {
	phase int // 0 observations, 1 report signatures
	anoms []vC06Anom
	done  bool
	again *vC06Item
}

func vC06Last(b *vC06Body) *vC06LU {
	if len(b.lus) == 0 {
		return nil
	}
	return &b.lus[len(b.lus)-1]
}
func vC06First(b *vC06Body) *vC06LU {
	if len(b.lus) == 0 {
		return nil
	}
	return &b.lus[0]
}
func vC06OtherSend(target vC06Send, any []vC06Send) *vC06Send {
	for i := range any {
		if any[i].node != target.node {
			return &any[i]
		}
	}
	return nil
}

func vC06AnomsA() []vC06Anom {
	type B = vC06Body
	onLU := func(name string, sel func(*B) *vC06LU, f func(*vC06LU)) vC06Anom {
		return vC06Anom{name: name, order: 1, apply: func(_ *vC06Gen, b *B, _ *uint64, _ vC06Send, _ []vC06Send) {
			if l := sel(b); l != nil {
				f(l)
			}
		}}
	}
	plain := func(name string, f func(b *B)) vC06Anom {
		return vC06Anom{name: name, order: 2, apply: func(_ *vC06Gen, b *B, _ *uint64, _ vC06Send, _ []vC06Send) { f(b) }}
	}
	l := []vC06Anom{
		{name: "extra-unrequested-lane", order: 0, apply: func(g *vC06Gen, b *B, _ *uint64, _ vC06Send, _ []vC06Send) {
			b.lus = append(b.lus, vC06LU{src: true, ch: 9, onr: 39, itv: true, mn: 1, mx: 2, rootKind: 2, root: 109})
		}},
		{name: "extra-unobserved-lane", order: 0, apply: func(g *vC06Gen, b *B, _ *uint64, _ vC06Send, _ []vC06Send) {
			g.corruptObsK(b, 19)
		}},
		{name: "duplicate-lane", order: 0, apply: func(_ *vC06Gen, b *B, _ *uint64, _ vC06Send, _ []vC06Send) {
			if len(b.lus) > 0 {
				b.lus = append(b.lus, b.lus[0])
			}
		}},
		{name: "missing-lane", order: 0, apply: func(_ *vC06Gen, b *B, _ *uint64, _ vC06Send, _ []vC06Send) {
			if len(b.lus) > 0 {
				b.lus = b.lus[:len(b.lus)-1]
			}
		}},
		{name: "zero-lanes", order: 0, apply: func(_ *vC06Gen, b *B, _ *uint64, _ vC06Send, _ []vC06Send) { b.lus = nil }},
		onLU("root-nil-last", vC06Last, func(l *vC06LU) { l.rootKind = 0 }),
		onLU("root-5-last", vC06Last, func(l *vC06LU) { l.rootKind, l.shortLen = 1, 5 }),
		onLU("root-31-last", vC06Last, func(l *vC06LU) { l.rootKind, l.shortLen = 1, 31 }),
		onLU("root-33-last", vC06Last, func(l *vC06LU) { l.rootKind = 3 }),
		onLU("root-nil-first", vC06First, func(l *vC06LU) { l.rootKind = 0 }),
		onLU("root-5-first", vC06First, func(l *vC06LU) { l.rootKind, l.shortLen = 1, 5 }),
		onLU("root-33-first", vC06First, func(l *vC06LU) { l.rootKind = 3 }),
		onLU("nil-lanesource-last", vC06Last, func(l *vC06LU) { l.src = false }),
		onLU("nil-interval-last", vC06Last, func(l *vC06LU) { l.itv = false }),
		onLU("nil-lanesource-first", vC06First, func(l *vC06LU) { l.src = false }),
		onLU("nil-interval-first", vC06First, func(l *vC06LU) { l.itv = false }),
		onLU("min-plus-one", vC06First, func(l *vC06LU) { l.mn++ }),
		onLU("max-minus-one", vC06First, func(l *vC06LU) { l.mx-- }),
		onLU("onramp-differs", vC06Last, func(l *vC06LU) { l.bumpOnramp() }),
		onLU("conflicting-root", vC06First, func(l *vC06LU) { l.root = 200 + l.ch }),
		onLU("empty-root", vC06First, func(l *vC06LU) { l.root = 0 }),
		onLU(vC06OnrampShapes[0].name, vC06Last, func(l *vC06LU) { l.setOnramp(vC06OnrampShapes[0].f) }),
		onLU(vC06OnrampShapes[1].name, vC06First, func(l *vC06LU) { l.setOnramp(vC06OnrampShapes[1].f) }),
		onLU(vC06OnrampShapes[2].name, vC06Last, func(l *vC06LU) { l.setOnramp(vC06OnrampShapes[2].f) }),
		onLU(vC06OnrampShapes[3].name, vC06Last, func(l *vC06LU) { l.setOnramp(vC06OnrampShapes[3].f) }),
		onLU(vC06OnrampShapes[4].name, vC06First, func(l *vC06LU) { l.setOnramp(vC06OnrampShapes[4].f) }),
		onLU(vC06OnrampShapes[5].name, vC06Last, func(l *vC06LU) { l.setOnramp(vC06OnrampShapes[5].f) }),
		onLU(vC06OnrampShapes[6].name, vC06Last, func(l *vC06LU) { l.setOnramp(vC06OnrampShapes[6].f) }),
		plain("nil-observation", func(b *B) { b.hasObs = false }),
		plain("nil-lanedest", func(b *B) { b.hasDest = false }),
		plain("wrong-dest-selector", func(b *B) { b.sel = 3 - b.sel }),
		plain("wrong-offramp", func(b *B) { b.off++ }),
		plain("wrong-digest", func(b *B) { b.dig++ }),
		plain("signature-of-other-key", func(b *B) { b.sig++ }),
		plain("signature-over-other-bytes", func(b *B) { b.sigOther = true }),
		plain("empty-signature", func(b *B) { b.sigEmpty = true }),
		plain("no-payload", func(b *B) { b.kind = 0 }),
		plain("signature-payload", func(b *B) { b.kind, b.hasSig, b.lenOK, b.by = 2, true, true, 1 }),
		plain("garbage", func(b *B) { b.garbage = true }),
		plain("unknown-id", func(b *B) { b.rid, b.iid = 0xDEAD0001, 901 }),
		{name: "foreign-id", order: 2, apply: func(_ *vC06Gen, b *B, _ *uint64, t vC06Send, any []vC06Send) {
			if o := vC06OtherSend(t, any); o != nil {
				b.rid, b.iid = o.rid, o.iid
			}
		}},
		{name: "sender-unknown-node", order: 2, apply: func(_ *vC06Gen, _ *B, n *uint64, _ vC06Send, _ []vC06Send) { *n = 55 }},
		{name: "sender-other-node", order: 2, apply: func(_ *vC06Gen, _ *B, n *uint64, t vC06Send, any []vC06Send) {
			if o := vC06OtherSend(t, any); o != nil {
				*n = o.node
			}
		}},
		{name: "answers-twice", order: 2, twice: true, apply: func(_ *vC06Gen, _ *B, _ *uint64, _ vC06Send, _ []vC06Send) {}},
	}
	return l
}

func vC06AnomsB() []vC06Anom {
	type B = vC06Body
	plain := func(name string, f func(b *B)) vC06Anom {
		return vC06Anom{name: name, order: 2, apply: func(_ *vC06Gen, b *B, _ *uint64, _ vC06Send, _ []vC06Send) { f(b) }}
	}
	return []vC06Anom{
		plain("nil-signature", func(b *B) { b.hasSig = false }),
		plain("R-31", func(b *B) { b.lenOK, b.rLen = false, 31 }),
		plain("R-33", func(b *B) { b.lenOK, b.rLen = false, 33 }),
		plain("R-2", func(b *B) { b.lenOK, b.rLen = false, 2 }),
		plain("S-31", func(b *B) { b.lenOK, b.sShort = false, true }),
		plain("signature-of-other-signer", func(b *B) { b.by = b.by%60 + 1 }),
		plain("no-payload", func(b *B) { b.kind = 0 }),
		plain("observation-payload", func(b *B) { b.kind, b.hasObs, b.hasDest = 1, true, true }),
		plain("garbage", func(b *B) { b.garbage = true }),
		plain("unknown-id", func(b *B) { b.rid, b.iid = 0xDEAD0002, 902 }),
		{name: "foreign-id", order: 2, apply: func(_ *vC06Gen, b *B, _ *uint64, t vC06Send, any []vC06Send) {
			if o := vC06OtherSend(t, any); o != nil {
				b.rid, b.iid = o.rid, o.iid
			}
		}},
		{name: "sender-unknown-node", order: 2, apply: func(_ *vC06Gen, _ *B, n *uint64, _ vC06Send, _ []vC06Send) { *n = 55 }},
		{name: "sender-other-node", order: 2, apply: func(_ *vC06Gen, _ *B, n *uint64, t vC06Send, any []vC06Send) {
			if o := vC06OtherSend(t, any); o != nil {
				*n = o.node
			}
		}},
		{name: "answers-twice", order: 2, twice: true, apply: func(_ *vC06Gen, _ *B, _ *uint64, _ vC06Send, _ []vC06Send) {}},
	}
}

// sweepNext: the scripted behaviour of a sweep run
func (g *vC06Gen) sweepNext(phaseB bool, open, any []vC06Send, mk func(uint64, vC06Send) vC06Body) (uint64, vC06Body, string) {
	sw := g.sweep
	if sw.again != nil {
		it := sw.again
		sw.again = nil
		return it.node, it.body, "again"
	}
	if len(open) == 0 {
		return vPick(g.r, g.c.nodes).id, vC06Body{garbage: true}, "garbage"
	}
	t := open[0]
	now := 0
	if phaseB {
		now = 1
	}
	if sw.done || sw.phase != now {
		g.used[t.iid] = true
		return t.node, mk(t.node, t), "good"
	}
	sw.done = true
	b := mk(t.node, t)
	node := t.node
	as := append([]vC06Anom(nil), sw.anoms...)
	sort.SliceStable(as, func(i, j int) bool { return as[i].order < as[j].order })
	name := ""
	for _, a := range as {
		a.apply(g, &b, &node, t, any)
		name += "+" + a.name
		if a.twice {
			sw.again = &vC06Item{node: node, body: b}
		}
	}
	if sw.again != nil { // deliver the final form twice
		sw.again = &vC06Item{node: node, body: b}
	}
	if node == t.node && !b.garbage && b.iid == t.iid {
		g.used[t.iid] = true // the request is answered (well or badly); otherwise the node answers it later
	}
	return node, b, "anomaly:" + name[1:]
}

func (g *vC06Gen) goodObs(node uint64, s vC06Send) vC06Body {
	b := vC06Body{rid: s.rid, iid: s.iid, kind: 1, hasObs: true, hasDest: true, sel: g.c.destSel, off: g.c.destOff,
		dig: g.c.digest}
	if n := g.c.node(node); n != nil {
		b.sig = n.key
	} else if k, ok := g.oldKey[node]; ok {
		b.sig = k // no longer in RMNHome: the node still has the key it had
	}
	for _, ch := range s.chains {
		rq := g.c.req(ch)
		root := g.c.trueRoot[ch]
		if g.c.byzantine[node] && g.villainA < 0 && g.r.Chance(1, 2) {
			root = g.c.altRoot[ch]
		}
		b.lus = append(b.lus, vC06LU{src: true, ch: ch, onr: rq.onr, olen: rq.olen, itv: true, mn: rq.mn, mx: rq.mx, rootKind: 2, root: root})
	}
	return b
}

// corrupt one aspect of an otherwise correct observation
func (g *vC06Gen) corruptObs(b *vC06Body) string { return g.corruptObsK(b, g.r.Intn(33)) }

func (g *vC06Gen) corruptObsK(b *vC06Body, k int) string {
	r := g.r
	lu := func() *vC06LU {
		if len(b.lus) == 0 {
			return nil
		}
		return &b.lus[r.Intn(len(b.lus))]
	}
	switch k {
	case 0:
		b.hasObs = false
		return "nil-observation"
	case 1:
		b.hasDest = false
		return "nil-lanedest"
	case 2:
		if l := lu(); l != nil {
			l.src = false
			return "nil-lanesource"
		}
	case 3:
		if l := lu(); l != nil {
			l.itv = false
			return "nil-interval"
		}
	case 4:
		if l := lu(); l != nil {
			l.rootKind = 0
			return "nil-root"
		}
	case 5:
		if l := lu(); l != nil {
			l.rootKind = 1
			return "short-root"
		}
	case 6:
		if l := lu(); l != nil {
			l.rootKind = 3
			return "long-root"
		}
	case 7:
		b.sel = 3 - b.sel
		return "wrong-dest-selector"
	case 8:
		b.off++
		return "wrong-offramp"
	case 9:
		b.dig++
		return "wrong-digest"
	case 10:
		if l := lu(); l != nil {
			l.mn++
			return "wrong-min"
		}
	case 11:
		if l := lu(); l != nil {
			l.mx--
			return "wrong-max"
		}
	case 12:
		if l := lu(); l != nil {
			l.bumpOnramp()
			return "wrong-onramp"
		}
	case 13:
		if l := lu(); l != nil {
			l.ch = 9 // configured but not requested
			return "unrequested-chain"
		}
	case 14:
		if l := lu(); l != nil {
			b.lus = append(b.lus, *l)
			return "duplicate-lane"
		}
	case 15:
		b.sig = b.sig + 1
		return "bad-signature"
	case 16:
		if l := lu(); l != nil {
			l.root = g.c.altRoot[l.ch]
			return "conflicting-root"
		}
	case 17:
		if l := lu(); l != nil {
			l.root = 0
			return "empty-root"
		}
	case 18:
		if len(b.lus) > 0 {
			b.lus = b.lus[:len(b.lus)-1]
			return "lane-subset"
		}
	case 26, 27, 28, 29, 30, 31, 32:
		// the lane source names ANOTHER lane: an address that shares bytes with the requested one (a shorter tail, a
		// prefix, the abi-encoded form, padded) but is not byte-equal to its last 20 bytes
		if l := lu(); l != nil {
			sh := vC06OnrampShapes[k-26]
			l.setOnramp(sh.f)
			return sh.name
		}
	case 24:
		b.sigOther = true
		return "signature-over-other-bytes"
	case 25:
		b.sigEmpty = true
		return "empty-signature"
	case 22, 23:
		// a correctly signed observation without any lane update: validation accepts it; the comparator of
		// transformAndSortObservations would index FixedDestLaneUpdates[0] of it if the same node had a second
		// accepted observation
		b.lus = nil
		return "zero-lanes"
	case 19:
		// a lane the node is not an observer of
		for _, rq := range g.c.reqs {
			has := false
			for _, l := range b.lus {
				has = has || l.ch == rq.ch
			}
			if !has {
				b.lus = append(b.lus, vC06LU{src: true, ch: rq.ch, onr: rq.onr, olen: rq.olen, itv: true, mn: rq.mn, mx: rq.mx,
					rootKind: 2, root: g.c.trueRoot[rq.ch]})
				return "extra-lane"
			}
		}
	case 20:
		b.kind = 0
		return "no-payload"
	case 21:
		b.kind, b.hasSig, b.lenOK, b.by = 2, true, true, 1
		return "signature-in-phase-A"
	}
	b.garbage = true
	return "garbage"
}

func (g *vC06Gen) goodSig(node uint64, s vC06Send) vC06Body {
	b := vC06Body{rid: s.rid, iid: s.iid, kind: 2, hasSig: true, lenOK: true, nonc: uint64(g.r.Intn(90))}
	for _, sg := range g.c.signers {
		if sg.node == node {
			b.by = sg.addr
		}
	}
	if a, ok := g.oldAddr[node]; ok && b.by == 0 {
		b.by = a // no signer any more: the node still signs with the address it had
	}
	return b
}
func (g *vC06Gen) corruptSig(b *vC06Body) string { return g.corruptSigK(b, g.r.Intn(6)) }
func (g *vC06Gen) corruptSigK(b *vC06Body, k int) string {
	switch k {
	case 0:
		b.hasSig = false
		return "nil-signature"
	case 1:
		b.lenOK = false
		return "short-R"
	case 2:
		b.by = b.by%60 + 1
		return "sig-of-other-signer"
	case 3:
		b.kind = 0
		return "no-payload"
	case 4:
		b.kind, b.hasObs, b.hasDest = 1, true, true
		return "observation-in-phase-B"
	}
	b.garbage = true
	return "garbage"
}

// next produces the next response given the Send calls seen so far.
func (g *vC06Gen) next(sends []vC06Send) (node uint64, body vC06Body, cls string) {
	r := g.r
	phaseB := false
	for _, s := range sends {
		phaseB = phaseB || s.kind == 1
	}
	kind := uint64(0)
	if phaseB {
		kind = 1
	}
	var open, any []vC06Send // requests of the current phase: unanswered by their addressee / all
	for _, s := range sends {
		if s.kind != kind {
			continue
		}
		any = append(any, s)
		if s.ok && !g.used[s.iid] {
			open = append(open, s)
		}
	}
	// choices must not depend on the order in which Go happened to send
	byNode := func(l []vC06Send) {
		sort.Slice(l, func(i, j int) bool { return l[i].node < l[j].node || l[i].node == l[j].node && l[i].iid < l[j].iid })
	}
	byNode(open)
	byNode(any)
	mk := func(n uint64, s vC06Send) vC06Body {
		if phaseB {
			return g.goodSig(n, s)
		}
		return g.goodObs(n, s)
	}
	corrupt := func(b *vC06Body) string {
		if phaseB {
			return g.corruptSig(b)
		}
		return g.corruptObs(b)
	}
	if g.sweep != nil {
		return g.sweepNext(phaseB, open, any, mk)
	}
	if g.attack && !phaseB {
		observes := func(n, ch uint64) bool {
			nd := g.c.node(n)
			if nd == nil {
				return false
			}
			for _, x := range nd.chains {
				if x == ch {
					return true
				}
			}
			return false
		}
		for _, s := range open {
			if s.node == g.attacker {
				g.used[s.iid] = true
				b := g.goodObs(s.node, vC06Send{rid: s.rid, iid: s.iid})
				cl := "over-answer"
				for _, rq := range g.c.reqs {
					if !observes(s.node, rq.ch) {
						continue
					}
					asked := false
					for _, ch := range s.chains {
						asked = asked || ch == rq.ch
					}
					if !asked {
						cl = "over-answer:unasked-lane"
					}
					root := g.c.trueRoot[rq.ch]
					if rq.ch == g.attackChain {
						root = 250
					}
					b.lus = append(b.lus, vC06LU{src: true, ch: rq.ch, onr: rq.onr, olen: rq.olen, itv: true, mn: rq.mn, mx: rq.mx,
						rootKind: 2, root: root})
				}
				return s.node, b, cl
			}
		}
		for _, s := range open {
			if !observes(s.node, g.attackChain) {
				g.used[s.iid] = true
				return s.node, g.goodObs(s.node, s), "good"
			}
		}
		return vPick(r, g.c.nodes).id, vC06Body{garbage: true}, "garbage"
	}
	if len(g.stale) > 0 && r.Chance(1, 6) {
		it := vPick(r, g.stale)
		return it.node, it.body, "late-answer-to-earlier-call"
	}
	if len(open) > 0 && r.Intn(100) < g.honest {
		s := vPick(r, open)
		g.used[s.iid] = true
		b := mk(s.node, s)
		if g.previousIdentity(&b, s.node, phaseB) {
			return s.node, b, "previous-identity"
		}
		if g.c.byzantine[s.node] && !phaseB && g.villainA >= 0 {
			return s.node, b, "villain:" + g.corruptObsK(&b, g.villainA)
		}
		if g.c.byzantine[s.node] && phaseB && g.villainB >= 0 {
			return s.node, b, "villain:" + g.corruptSigK(&b, g.villainB)
		}
		return s.node, b, "good"
	}
	switch k := r.Intn(12); {
	case k <= 3 && len(open) > 0: // own outstanding id, corrupted content
		s := vPick(r, open)
		g.used[s.iid] = true
		b := mk(s.node, s)
		return s.node, b, corrupt(&b)
	case k == 4 && len(g.sent) > 0: // a duplicate of something already delivered
		i := r.Intn(len(g.sent))
		return g.sentBy[i], g.sent[i], "duplicate"
	case k == 5 && len(any) > 0: // unknown request id
		s := vPick(r, any)
		b := mk(s.node, s)
		b.rid, b.iid = 0xDEAD0000+uint64(r.Intn(1000)), 900+uint64(r.Intn(50))
		return s.node, b, "unknown-id"
	case k <= 7 && len(any) > 1: // node X answers under the id sent to node Y (F12b), with content correct for X
		sy := vPick(r, any)
		var xs []vC06Send
		for _, s := range any {
			if s.node != sy.node {
				xs = append(xs, s)
			}
		}
		if len(xs) > 0 {
			sx := vPick(r, xs)
			b := mk(sx.node, sx)
			b.rid, b.iid = sy.rid, sy.iid
			if !phaseB && r.Chance(1, 3) {
				b.lus = nil
				return sx.node, b, "foreign-id-zero-lanes"
			}
			return sx.node, b, "foreign-id"
		}
	case k == 8 && len(sends) > 0: // an id of the other phase / of a failed Send
		s := vPick(r, sends)
		b := mk(s.node, vC06Send{rid: s.rid, iid: s.iid, chains: s.chains})
		return s.node, b, "stale-or-failed-id"
	case k == 9 && len(any) > 0: // a node that was not asked answers under somebody's id
		s := vPick(r, any)
		n := vPick(r, g.c.nodes).id
		if r.Chance(1, 4) {
			n = 55 // not in RMNHome at all
		}
		b := mk(n, s)
		return n, b, "uninvited-node"
	case k == 10:
		return vPick(r, g.c.nodes).id, vC06Body{garbage: true}, "garbage"
	}
	if len(open) > 0 {
		s := vPick(r, open)
		g.used[s.iid] = true
		return s.node, mk(s.node, s), "good"
	}
	return vPick(r, g.c.nodes).id, vC06Body{garbage: true}, "garbage"
}

// ---------------------------------------------------------------- one run

type vC06Result struct {
	sigs *ReportSignatures
	err  error
	pan  any
}

type vC06Item struct {
	kind int // 0 resp, 1 race, 2 cancel, 3 race-cancel
	node uint64
	body vC06Body
}

func (it vC06Item) coq() string {
	switch it.kind {
	case 0:
		return cApp("IResp", cN(it.node), it.body.coq())
	case 1:
		return cApp("IRace", cN(it.node), it.body.coq())
	case 2:
		return "ICancel"
	}
	return "IRaceCancel"
}

// vC06Env is what lives as long as the controller does: the controller itself and its collaborators.  The random /
// sweep parts build a fresh one per call; the history part keeps ONE for a whole sequence of calls.
type vC06Env struct {
	home       *vC06Home
	peer       *vC06Peer
	crypto     *vC06Crypto
	ctl        *controller
	dueA, dueB bool       // the timer durations are fixed at construction
	stale      []vC06Item // answers to requests of earlier calls that may still arrive
	calls      int
	lastKey, lastAddr map[uint64]uint64 // node -> key / signer address it had in the most recent call that knew it
}

func vC06Dur(due bool) time.Duration {
	if due {
		return time.Nanosecond
	}
	return time.Hour
}

// vC06HomeNodes builds fresh reader answers for a configuration (new slice, new sets, new map on every call)
func vC06HomeNodes(c *vC06Cfg) ([]rmntypes.HomeNodeInfo, map[cciptypes.ChainSelector]int) {
	var nodes []rmntypes.HomeNodeInfo
	for _, n := range c.nodes {
		set := mapset.NewSet[cciptypes.ChainSelector]()
		for _, ch := range n.chains {
			set.Add(cciptypes.ChainSelector(ch))
		}
		nodes = append(nodes, rmntypes.HomeNodeInfo{ID: rmntypes.NodeID(n.id), SupportedSourceChains: set,
			OffchainPublicKey: vC06Key(n.key)})
	}
	f := map[cciptypes.ChainSelector]int{}
	for _, p := range c.homeF {
		f[cciptypes.ChainSelector(p[0])] = int(p[1])
	}
	return nodes, f
}

func vC06Run(r *vRand, cfgCls string, maxItems int, watchdog time.Duration, sweep *vC06Sweep) (coq string, cls string, nt bool, show map[string]any) {
	c := vC06GenCfg(r, cfgCls)
	in, out, cls, nt, show := vC06Call(nil, r, c, cfgCls, maxItems, watchdog, sweep)
	return cPair(in, cList([]string{out})), cls, nt, show
}

// vC06Call makes ONE scripted ComputeReportSignatures call for configuration c: on a controller built for this call
// (env == nil) or on the long-lived controller of env, whose reader / peer / crypto stubs are re-scripted first.
func vC06Call(env *vC06Env, r *vRand, c *vC06Cfg, cfgCls string, maxItems int, watchdog time.Duration,
	sweep *vC06Sweep) (in string, out string, cls string, nt bool, show map[string]any) {
	if sweep != nil {
		c.byzantine = map[uint64]bool{}
	}
	if env != nil {
		c.dueA, c.dueB = env.dueA, env.dueB
	}
	// the real inputs
	var home *vC06Home
	if env != nil {
		home = env.home
		home.digest = vC06Digest(c.digest)
	} else {
		home = &vC06Home{}
	}
	home.nodes, home.f = vC06HomeNodes(c)
	var reqs []*rmnpb.FixedDestLaneUpdateRequest
	for _, q := range c.reqs {
		reqs = append(reqs, &rmnpb.FixedDestLaneUpdateRequest{
			LaneSource:     &rmnpb.LaneSource{SourceChainSelector: q.ch, OnrampAddress: q.onramp()},
			ClosedInterval: &rmnpb.ClosedInterval{MinMsgNr: q.mn, MaxMsgNr: q.mx}})
	}
	remote := rmntypes.RemoteConfig{ContractAddress: []byte{9, 9, 9}, ConfigDigest: vC06Digest(c.digest), F: c.remoteF,
		ConfigVersion: 1, RmnReportVersion: cciptypes.Bytes32{0x52}}
	for _, s := range c.signers {
		remote.Signers = append(remote.Signers, rmntypes.RemoteSignerInfo{OnchainPublicKey: vC06Addr(s.addr), NodeIndex: s.node})
	}
	dest := &rmnpb.LaneDest{DestChainSelector: vC06DestSel[c.destSel], OfframpAddress: vC06Offramp(c.destOff)}

	// schedule parameters owned by the harness
	failCls := r.Intn(8) // 0..4 none, 5..6 some, 7 many
	if sweep != nil {
		failCls = 0
	}
	if env != nil && failCls >= 5 && r.Chance(1, 2) {
		failCls = 0 // history part: more calls that get as far as counting votes
	}
	fails := make([]bool, 40)
	for i := range fails {
		fails[i] = (failCls >= 5 && failCls <= 6 && r.Chance(1, 5)) || (failCls == 7 && r.Chance(2, 3))
	}
	ctx, cancel := context.WithCancel(context.Background())
	defer cancel()
	var peer *vC06Peer
	var crypto *vC06Crypto
	var ctl *controller
	if env != nil {
		peer, crypto, ctl = env.peer, env.crypto, env.ctl
		peer.arm(fails, cancel)
		crypto.mu.Lock()
		crypto.reports = nil
		crypto.mu.Unlock()
	} else {
		peer = &vC06Peer{ch: make(chan PeerResponse), preload: make(chan PeerResponse, 1), cancel: cancel, fails: fails}
		crypto = &vC06Crypto{}
		ctl = &controller{lggr: logger.Nop(), rmnCrypto: crypto, peerClient: peer, rmnHomeReader: home,
			ed25519Verifier: vC06Ed{}, signObservationPrefix: vC06Prefix,
			observationsInitialRequestTimerDuration: vC06Dur(c.dueA), reportsInitialRequestTimerDuration: vC06Dur(c.dueB)}
	}

	gen := &vC06Gen{r: r, c: c, used: map[uint64]bool{}, honest: vPick(r, []int{97, 92, 85, 70, 40, 15}),
		villainA: -1, villainB: -1}
	if r.Chance(1, 3) {
		gen.villainA = vPick(r, []int{19, 19, 10, 11, 12, 13, 9, 7, 8, 15, 6, 5, 4, 14, 16, 22, 22, 26, 27, 28, 29, 30, 31, 32, 26, 27, 28, 30})
		gen.villainB = vPick(r, []int{1, 2, 2, 0})
		gen.honest = 95
	}
	var items []vC06Item
	var classes []string
	cancelAt := -1
	if r.Chance(1, 4) {
		cancelAt = r.Intn(maxItems)
	}
	if env != nil {
		gen.stale = env.stale
		gen.oldKey, gen.oldAddr = map[uint64]uint64{}, map[uint64]uint64{}
		for id, k := range env.lastKey {
			if n := c.node(id); n == nil || n.key != k {
				gen.oldKey[id] = k
			}
		}
		for id, a := range env.lastAddr {
			cur := uint64(0)
			for _, sg := range c.signers {
				if sg.node == id {
					cur = sg.addr
				}
			}
			if cur != a {
				gen.oldAddr[id] = a
			}
		}
		if gen.honest < 85 && r.Chance(2, 3) {
			gen.honest = 92
		}
		if cancelAt >= 0 && r.Chance(1, 2) {
			cancelAt = -1
		}
	}
	if cfgCls == "ok" && len(c.reqs) >= 2 && r.Chance(1, 5) && (env == nil || env.dueA) {
		// attack mode: the attacker is a node that observes at least two requested lanes
		best, bestN := uint64(0), 0
		for _, n := range c.nodes {
			k := 0
			for _, ch := range n.chains {
				if c.req(ch) != nil {
					k++
				}
			}
			if k > bestN || k == bestN && k > 0 && r.Bool() {
				best, bestN = n.id, k
			}
		}
		if bestN >= 2 {
			gen.attack, gen.attacker = true, best
			bestF := int64(-1)
			for _, p := range c.homeF {
				for _, ch := range c.node(best).chains {
					if uint64(p[0]) == ch && c.req(ch) != nil && p[1] > bestF {
						bestF, gen.attackChain = p[1], ch
					}
				}
			}
			gen.villainA, gen.villainB, gen.honest, cancelAt = -1, -1, 97, -1
			c.byzantine = map[uint64]bool{best: true}
			// the silent observers never trigger Reset(0): let the initial request timer be the one that is due at once
			c.dueA = true
			ctl.observationsInitialRequestTimerDuration = time.Nanosecond
			for i := range fails {
				fails[i] = false
			}
		}
	}
	if sweep != nil {
		gen.sweep, gen.attack, gen.villainA, gen.villainB, cancelAt = sweep, false, -1, -1, -1
	}
	if sweep == nil && r.Chance(1, 25) { // context already cancelled when the first select is entered
		peer.cancelAtNext = true
		items = append(items, vC06Item{kind: 3})
		classes = append(classes, "race-cancel")
	}

	done := make(chan vC06Result, 1)
	gidc := make(chan string, 1)
	go func() {
		gidc <- vC06GoID()
		var res vC06Result
		defer func() {
			if p := recover(); p != nil {
				res.pan = p
			}
			done <- res
		}()
		res.sigs, res.err = ctl.ComputeReportSignatures(ctx, dest, reqs, remote)
	}()
	gid := <-gidc
	stackBuf := make([]byte, 1<<18)
	// The watchdog DECIDES a hang (kind 10). A whole call normally takes a few milliseconds; the watchdog is a vWatch of
	// 3 s (it stretches when this process is starved: the wall clock alone never decides), and the callers run a case
	// that came out as a hang a second time before they report it.
	wd := vNewWatch(watchdog)
	var res vC06Result
	finished, hang := false, false
	// waits until the controller has returned or is parked in select
	settle := func() {
		for spins := 0; ; spins++ {
			select {
			case res = <-done:
				finished = true
				return
			default:
			}
			if vC06Parked(gid, stackBuf) {
				// confirm: still parked, and no select entry in between, after yielding the processor once more
				peer.mu.Lock()
				e0 := peer.epoch
				peer.mu.Unlock()
				runtime.Gosched()
				peer.mu.Lock()
				e1 := peer.epoch
				peer.mu.Unlock()
				if e0 == e1 && vC06Parked(gid, stackBuf) {
					select {
					case res = <-done:
						finished = true
					default:
					}
					return
				}
			}
			if wd.Expired() {
				hang = true
				return
			}
			if spins < 50 {
				runtime.Gosched()
			} else {
				wd.Nap()
			}
		}
	}
	// hands pr to the controller (nil: only waits for it to return); ends when it was taken, the controller returned,
	// or the watchdog expired
	deliver := func(pr *PeerResponse) {
		var ch chan PeerResponse
		var v PeerResponse
		if pr != nil {
			ch, v = peer.ch, *pr
		}
		select {
		case ch <- v:
			return
		case res = <-done:
			finished = true
			return
		default:
		}
		tick := time.NewTicker(time.Millisecond)
		defer tick.Stop()
		for {
			select {
			case ch <- v:
				return
			case res = <-done:
				finished = true
				return
			case <-tick.C:
				if wd.Credit(time.Millisecond); wd.Expired() {
					hang = true
					return
				}
			}
		}
	}
	for !finished && !hang {
		settle()
		if finished || hang {
			break
		}
		if len(items) >= maxItems || (cancelAt >= 0 && len(items) >= cancelAt) {
			items = append(items, vC06Item{kind: 2})
			classes = append(classes, "cancel")
			cancel()
			deliver(nil)
			break
		}
		node, body, cl := gen.next(peer.snapshot())
		it := vC06Item{kind: 0, node: node, body: body}
		items = append(items, it)
		classes = append(classes, cl)
		gen.sent = append(gen.sent, body)
		gen.sentBy = append(gen.sentBy, node)
		// optionally prepare a race partner for the select entry that follows this delivery
		var partner *vC06Item
		if sweep == nil && r.Chance(1, 7) {
			if r.Chance(1, 4) {
				partner = &vC06Item{kind: 3}
				peer.mu.Lock()
				peer.cancelAtNext = true
				peer.mu.Unlock()
			} else {
				n2, b2, c2 := gen.next(peer.snapshot())
				partner = &vC06Item{kind: 1, node: n2, body: b2}
				gen.sent = append(gen.sent, b2)
				gen.sentBy = append(gen.sentBy, n2)
				classes = append(classes, "race:"+c2)
				pr := PeerResponse{RMNNodeID: rmntypes.NodeID(n2), Body: b2.pb()}
				peer.mu.Lock()
				peer.nextPreload = &pr
				peer.mu.Unlock()
			}
		}
		deliver(&PeerResponse{RMNNodeID: rmntypes.NodeID(node), Body: body.pb()})
		if partner != nil {
			items = append(items, *partner)
			if partner.kind == 3 {
				classes = append(classes, "race-cancel")
			}
		}
	}
	cancel()

	// ---------------- canonical observable
	sends := peer.snapshot()
	kind := uint64(7)
	switch {
	case hang:
		kind = 10
	case res.pan != nil:
		kind = 9
	case res.err == nil:
		kind = 0
	case errors.Is(res.err, ErrNothingToDo):
		kind = 3
	case errors.Is(res.err, ErrTimeout):
		kind = 4
	case errors.Is(res.err, ErrInsufficientObservationResponses):
		kind = 5
	case errors.Is(res.err, ErrInsufficientSignatureResponses):
		kind = 6
	}
	var lanes, sigs []string
	repok := true
	if kind == 0 {
		if res.sigs == nil {
			repok = false
		} else {
			for _, lu := range res.sigs.LaneUpdates {
				lanes = append(lanes, cPair(cN(lu.LaneSource.SourceChainSelector), cN(vC06RootID(lu.Root))))
				q := c.req(lu.LaneSource.SourceChainSelector)
				if q == nil || !bytes.Equal(lu.LaneSource.OnrampAddress, q.onramp()) ||
					lu.ClosedInterval.MinMsgNr != q.mn || lu.ClosedInterval.MaxMsgNr != q.mx {
					repok = false
				}
			}
			for _, s := range res.sigs.Signatures {
				if s == nil || len(s.R) != 32 {
					sigs = append(sigs, cN(99999))
					continue
				}
				sigs = append(sigs, cN(uint64(s.R[0])*100+uint64(s.R[1])))
			}
			// every verification saw exactly the report that is handed back, for this destination and configuration
			for _, rep := range crypto.reports {
				ok := len(rep.LaneUpdates) == len(res.sigs.LaneUpdates) &&
					uint64(rep.DestChainSelector) == dest.DestChainSelector &&
					bytes.Equal(rep.OfframpAddress, dest.OfframpAddress) &&
					rep.RmnHomeContractConfigDigest == remote.ConfigDigest &&
					bytes.Equal(rep.RmnRemoteContractAddress, remote.ContractAddress) &&
					rep.ReportVersionDigest == remote.RmnReportVersion
				for i := 0; ok && i < len(rep.LaneUpdates); i++ {
					a, b := rep.LaneUpdates[i], res.sigs.LaneUpdates[i]
					ok = uint64(a.SourceChainSelector) == b.LaneSource.SourceChainSelector &&
						bytes.Equal(a.MerkleRoot[:], b.Root) && uint64(a.MinSeqNr) == b.ClosedInterval.MinMsgNr &&
						uint64(a.MaxSeqNr) == b.ClosedInterval.MaxMsgNr && bytes.Equal(a.OnRampAddress, b.LaneSource.OnrampAddress)
				}
				repok = repok && ok
			}
		}
	}
	var asked, a2, b1, b2 []uint64
	firstSigEpoch := -1
	var attr []string
	log := cMap(sends, func(s vC06Send) string {
		return cTup(cN(s.kind), cN(s.node), cN(s.iid), cBool(s.ok), cListN(s.chains))
	})
	for _, s := range sends {
		switch {
		case s.kind == 0 && s.epoch == 0:
			asked = append(asked, s.node)
		case s.kind == 0:
			a2 = append(a2, s.node)
		default:
			if firstSigEpoch < 0 {
				firstSigEpoch = s.epoch
				for _, a := range s.attr {
					var vs []string
					for _, lu := range a.SignedObservation.Observation.FixedDestLaneUpdates {
						vs = append(vs, cPair(cN(lu.LaneSource.SourceChainSelector), cN(vC06RootID(lu.Root))))
					}
					attr = append(attr, cPair(cN(uint64(a.SignerNodeIndex)), cList(vs)))
				}
			}
			if s.epoch == firstSigEpoch {
				b1 = append(b1, s.node)
			} else {
				b2 = append(b2, s.node)
			}
		}
	}
	out = cApp("mkOut", cN(kind), cList(lanes), cList(sigs), log, cList(attr), cBool(repok))
	// the model reads a missing entry of the failure script as "the Send succeeds": trailing successes are not printed
	nf := len(fails)
	for nf > 0 && !fails[nf-1] {
		nf--
	}
	in = cApp("mkIn", c.coq(), cListN(asked), cListN(a2), cListN(b1), cListN(b2),
		cMap(fails[:nf], cBool), cMap(items, func(it vC06Item) string { return it.coq() }))
	timer := map[bool]string{false: "never", true: "at-start"}
	cls = fmt.Sprintf("cfg=%s/timerA=%s/kind=%d", cfgCls, timer[c.dueA], kind)
	nt = firstSigEpoch >= 0 || kind == 0
	show = map[string]any{"classes": classes, "kind": kind, "nodes": fmt.Sprintf("%+v", c.nodes),
		"reqs": fmt.Sprintf("%+v", c.reqs), "signers": fmt.Sprintf("%+v", c.signers),
		"homeF": c.homeF, "remoteF": c.remoteF, "items": len(items), "sends": len(sends),
		"err": fmt.Sprint(res.err), "panic": fmt.Sprint(res.pan)}
	if env != nil {
		// what may still arrive during later calls on this controller: a correct answer to every request of this call
		// (from its addressee, under its real request id), and what was delivered in this call, once more
		env.calls++
		if env.lastKey == nil {
			env.lastKey, env.lastAddr = map[uint64]uint64{}, map[uint64]uint64{}
		}
		for _, n := range c.nodes {
			env.lastKey[n.id] = n.key
		}
		for _, sg := range c.signers {
			env.lastAddr[sg.node] = sg.addr
		}
		phaseB := false
		for _, s := range sends {
			phaseB = phaseB || s.kind == 1
		}
		for _, s := range sends {
			if !s.ok {
				continue
			}
			var b vC06Body
			if s.kind == 1 {
				b = gen.goodSig(s.node, s)
			} else {
				b = gen.goodObs(s.node, s)
			}
			env.stale = append(env.stale, vC06Item{node: s.node, body: b})
		}
		for i, b := range gen.sent {
			if !b.garbage && b.iid < 900 && i%3 == 0 {
				env.stale = append(env.stale, vC06Item{node: gen.sentBy[i], body: b})
			}
		}
		if len(env.stale) > 24 {
			env.stale = env.stale[len(env.stale)-24:]
		}
	}
	return in, out, cls, nt, show
}

func TestVerif_C06(t *testing.T) {
	// One P: when this goroutine runs and sees the controller blocked in select, the scheduler has been through
	// its timer check since the controller parked, so a timer that was due (Reset(0), elapsed duration) has
	// already made it runnable.  With several Ps there is a window in which the controller is parked while the
	// due timer still sits in another P's heap.
	defer runtime.GOMAXPROCS(runtime.GOMAXPROCS(1))
	r := vNewRand(vSeed())
	n := vEnvInt("VERIF_N", 200)
	only := vReplayOnly()
	sink := vOpenSink("C06_sched")
	defer sink.Close()
	hist := map[string]int{}
	hangs := 0
	for i := 0; i < n; i++ {
		cfgCls := "ok"
		switch r.Intn(20) {
		case 0:
			cfgCls = "nof"
		case 1:
			cfgCls = "dupchain"
		case 2:
			cfgCls = "baddest"
		case 3:
			cfgCls = "fewobs"
		case 4:
			cfgCls = "fewsigners"
		}
		// every case draws from its own stream so that one case can be replayed alone
		cseed := r.U64()
		cr := vNewRand(cseed)
		if only >= 0 && i != only {
			continue
		}
		coq, cls, nt, show := vC06Run(cr, cfgCls, 4+cr.Intn(24), 3*time.Second, nil)
		if show["kind"].(uint64) == 10 { // a hang is reported only when the same case hangs a second time
			cr = vNewRand(cseed)
			coq, cls, nt, show = vC06Run(cr, cfgCls, 4+cr.Intn(24), 3*time.Second, nil)
		}
		for _, c := range show["classes"].([]string) {
			hist[c]++
		}
		sink.Emit("C06_sched", cls, nt, coq, show)
		if show["kind"].(uint64) == 10 {
			// the controller did not return after its context was cancelled (its goroutine is still alive):
			// three such cases are enough evidence, do not wait for more
			if hangs++; hangs >= 3 {
				break
			}
		}
	}
	keys := ""
	for k, v := range hist {
		keys += k + "=" + strconv.Itoa(v) + " "
	}
	t.Log("response classes: " + keys)
}

// TestVerif_C06_sweep: every single anomaly and every PAIR of anomalies of the lists above, in both phases, each on
// VERIF_N random configurations. The judge is the same as for the random schedules: the implementation must reject /
// ignore / accept the anomalous response exactly as the model does, never panic (kind 9) and never hang (kind 10).
func TestVerif_C06_sweep(t *testing.T) {
	defer runtime.GOMAXPROCS(runtime.GOMAXPROCS(1))
	r := vNewRand(vSeed() + 77)
	reps := vEnvInt("VERIF_N", 1)
	only := vReplayOnly()
	sink := vOpenSink("C06_sweep")
	defer sink.Close()
	i, hangs := 0, 0
	for phase, list := range [][]vC06Anom{vC06AnomsA(), vC06AnomsB()} {
		for a := 0; a < len(list); a++ {
			for b := a; b < len(list); b++ {
				for k := 0; k < reps; k++ {
					cseed := r.U64()
					cr := vNewRand(cseed)
					idx := i
					i++
					if only >= 0 && idx != only {
						continue
					}
					sw := &vC06Sweep{phase: phase, anoms: []vC06Anom{list[a]}}
					if b != a {
						sw.anoms = append(sw.anoms, list[b])
					}
					coq, cls, nt, show := vC06Run(cr, "ok", 14, 3*time.Second, sw)
					if show["kind"].(uint64) == 10 { // a hang is reported only when the same case hangs a second time
						sw2 := &vC06Sweep{phase: sw.phase, anoms: append([]vC06Anom(nil), sw.anoms...)}
						coq, cls, nt, show = vC06Run(vNewRand(cseed), "ok", 14, 3*time.Second, sw2)
					}
					name := list[a].name
					if b != a {
						name += "+" + list[b].name
					}
					sink.Emit("C06_sweep", fmt.Sprintf("%c:%s/%s", "AB"[phase], name, cls), nt, coq, show)
					if show["kind"].(uint64) == 10 {
						if hangs++; hangs >= 3 {
							return
						}
					}
				}
			}
		}
	}
}

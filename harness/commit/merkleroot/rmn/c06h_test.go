//go:build verif

// C06 history part: ONE long-lived rmn.controller (built by the real NewController, as the merkleroot Processor keeps
// it) makes a SEQUENCE of ComputeReportSignatures calls while everything the call reads from its environment changes
// between the calls: the RMNHome reader's answers (node list, keys, per-chain observer sets, F per chain — under the
// same config digest, as RMNHome.setDynamicConfig does, and under a new one), the RMNRemote config (signers, F_sign,
// digest), the lane update requests and the destination.  Every call is scripted and observed exactly like the calls
// of the random part (c06_test.go); the case is the whole history, judged call by call against the model started from
// THAT call's configuration.  The model is memoryless across calls, so anything the controller remembers from an
// earlier call (a memoised node list, request ids, votes) shows up as a disagreement, and the executable property
// names the call whose result counts a node that is no observer / signer in the configuration current at that call.
//
// What legitimately persists is varied as well and must not matter: the PeerClient with its connection state
// (InitConnection on a digest change as the Processor does, and at random other moments), late answers to requests of
// EARLIER calls (real request ids of those calls) arriving during a later call, and the position in the stream of
// request ids (model ids keep counting over the whole history).
package rmn

import (
	"context"
	"fmt"
	"runtime"
	"sort"
	"strings"
	"testing"
	"time"

	ragep2ptypes "github.com/smartcontractkit/libocr/ragep2p/types"

	"github.com/smartcontractkit/chainlink-common/pkg/logger"

	cciptypes "github.com/smartcontractkit/chainlink-ccip/pkg/types/ccipocr3"
)

func vC06LongEnv(dueA, dueB bool) *vC06Env {
	e := &vC06Env{dueA: dueA, dueB: dueB}
	e.home = &vC06Home{strict: true}
	e.peer = &vC06Peer{ch: make(chan PeerResponse), preload: make(chan PeerResponse, 1)}
	e.crypto = &vC06Crypto{}
	ctl := NewController(logger.Nop(), e.crypto, vC06Prefix, e.peer, e.home, vC06Dur(dueA), vC06Dur(dueB))
	e.ctl = ctl.(*controller)
	e.ctl.ed25519Verifier = vC06Ed{} // the only collaborator NewController does not take as an argument
	return e
}

func (c *vC06Cfg) clone() *vC06Cfg {
	d := *c
	d.nodes = nil
	for _, n := range c.nodes {
		n.chains = append([]uint64(nil), n.chains...)
		d.nodes = append(d.nodes, n)
	}
	d.homeF = append([][2]int64(nil), c.homeF...)
	d.reqs = append([]vC06Req(nil), c.reqs...)
	d.signers = append([]vC06Signer(nil), c.signers...)
	d.trueRoot, d.altRoot, d.byzantine = map[uint64]uint64{}, map[uint64]uint64{}, map[uint64]bool{}
	for k, v := range c.trueRoot {
		d.trueRoot[k] = v
	}
	for k, v := range c.altRoot {
		d.altRoot[k] = v
	}
	return &d
}

func (c *vC06Cfg) fIdx(ch uint64) int {
	for i, p := range c.homeF {
		if uint64(p[0]) == ch {
			return i
		}
	}
	return -1
}
func (c *vC06Cfg) observes(i int, ch uint64) bool {
	for _, x := range c.nodes[i].chains {
		if x == ch {
			return true
		}
	}
	return false
}
func (c *vC06Cfg) setObserver(i int, ch uint64, on bool) {
	var out []uint64
	for _, x := range c.nodes[i].chains {
		if x != ch {
			out = append(out, x)
		}
	}
	if on {
		out = append(out, ch)
	}
	vSortU64(out)
	c.nodes[i].chains = out
}

// the aspects of the environment that may change between two calls
var vC06Aspects = []string{"observers-removed", "observers-added", "observer-swapped", "F-raised", "F-lowered",
	"node-removed", "node-added", "key-rotated", "signer-removed", "signer-added", "signer-address", "signer-node",
	"F-remote", "interval", "onramp", "onramp-length", "lane-dropped", "lane-added", "offramp", "digest", "nothing"}

// vC06Evolve applies one aspect to c in place; reports whether anything changed.
func vC06Evolve(r *vRand, c *vC06Cfg, aspect string) bool {
	reqCh := func() (uint64, bool) {
		if len(c.reqs) == 0 {
			return 0, false
		}
		return vPick(r, c.reqs).ch, true
	}
	idx := func(ch uint64, want bool) []int { // nodes that are / are not observers of ch, in random order
		var l []int
		for _, i := range r.Perm(len(c.nodes)) {
			if c.observes(i, ch) == want {
				l = append(l, i)
			}
		}
		return l
	}
	switch aspect {
	case "observers-removed": // down to F+1, F or 0 observers, or just one fewer
		ch, ok := reqCh()
		fi := c.fIdx(ch)
		obs := idx(ch, true)
		if !ok || len(obs) == 0 {
			return false
		}
		f := 0
		if fi >= 0 {
			f = int(c.homeF[fi][1])
		}
		keep := vPick(r, []int{f + 1, f + 1, f, f, len(obs) - 1, 0})
		if keep >= len(obs) {
			keep = len(obs) - 1
		}
		if keep < 0 {
			keep = 0
		}
		for _, i := range obs[keep:] {
			c.setObserver(i, ch, false)
		}
		return true
	case "observers-added":
		ch, ok := reqCh()
		non := idx(ch, false)
		if !ok || len(non) == 0 {
			return false
		}
		for _, i := range non[:1+r.Intn(len(non))] {
			c.setObserver(i, ch, true)
		}
		return true
	case "observer-swapped": // the number of observers stays, their identity changes
		ch, ok := reqCh()
		obs, non := idx(ch, true), idx(ch, false)
		if !ok || len(obs) == 0 || len(non) == 0 {
			return false
		}
		k := 1 + r.Intn(len(obs))
		if k > len(non) {
			k = len(non)
		}
		for j := 0; j < k; j++ {
			c.setObserver(obs[j], ch, false)
			c.setObserver(non[j], ch, true)
		}
		return true
	case "F-raised", "F-lowered":
		ch, ok := reqCh()
		fi := c.fIdx(ch)
		if !ok || fi < 0 {
			return false
		}
		n := int64(len(c.observers(ch)))
		old := c.homeF[fi][1]
		var nf int64
		if aspect == "F-raised" {
			nf = vPick(r, []int64{n - 1, n, old + 1})
			if nf <= old {
				nf = old + 1
			}
		} else {
			nf = vPick(r, []int64{0, old - 1, n - 1})
			if nf >= old {
				nf = old - 1
			}
		}
		if nf < 0 || nf > 4 {
			return false
		}
		c.homeF[fi][1] = nf
		return true
	case "node-removed":
		if len(c.nodes) <= 1 {
			return false
		}
		i := r.Intn(len(c.nodes))
		c.nodes = append(c.nodes[:i:i], c.nodes[i+1:]...)
		return true
	case "node-added":
		used := map[uint64]bool{}
		for _, n := range c.nodes {
			used[n.id] = true
		}
		for _, id := range r.Perm(10) {
			if !used[uint64(id)] && len(c.nodes) < 7 {
				n := vC06Node{id: uint64(id), key: uint64(20 + id)}
				for _, q := range c.reqs {
					if r.Chance(2, 3) {
						n.chains = append(n.chains, q.ch)
					}
				}
				vSortU64(n.chains)
				c.nodes = append(c.nodes, n)
				return true
			}
		}
		return false
	case "key-rotated":
		i := r.Intn(len(c.nodes))
		if c.nodes[i].key >= 40 {
			c.nodes[i].key -= 20
		} else {
			c.nodes[i].key += 20
		}
		return true
	case "signer-removed":
		if len(c.signers) == 0 {
			return false
		}
		keep := vPick(r, []int{int(c.remoteF) + 1, int(c.remoteF), len(c.signers) - 1})
		if keep >= len(c.signers) {
			keep = len(c.signers) - 1
		}
		p := r.Perm(len(c.signers))[:keep]
		sort.Ints(p)
		var l []vC06Signer
		for _, i := range p {
			l = append(l, c.signers[i])
		}
		c.signers = l
		return true
	case "signer-added", "signer-node":
		is := map[uint64]bool{}
		addr := map[uint64]bool{}
		for _, s := range c.signers {
			is[s.node], addr[s.addr] = true, true
		}
		var free []uint64
		for _, n := range c.nodes {
			if !is[n.id] {
				free = append(free, n.id)
			}
		}
		if len(free) == 0 {
			return false
		}
		if aspect == "signer-node" { // an address moves to another node
			if len(c.signers) == 0 {
				return false
			}
			c.signers[r.Intn(len(c.signers))].node = vPick(r, free)
			return true
		}
		for _, a := range r.Perm(60) {
			if !addr[uint64(a+1)] {
				c.signers = append(c.signers, vC06Signer{node: vPick(r, free), addr: uint64(a + 1)})
				return true
			}
		}
		return false
	case "signer-address":
		if len(c.signers) == 0 {
			return false
		}
		addr := map[uint64]bool{}
		for _, s := range c.signers {
			addr[s.addr] = true
		}
		for _, a := range r.Perm(60) {
			if !addr[uint64(a+1)] {
				c.signers[r.Intn(len(c.signers))].addr = uint64(a + 1)
				return true
			}
		}
		return false
	case "F-remote":
		n := uint64(len(c.signers))
		nf := vPick(r, []uint64{0, 1, 2, n, n - 1})
		if nf == c.remoteF || nf > 5 {
			return false
		}
		c.remoteF = nf
		return true
	case "interval":
		if len(c.reqs) == 0 {
			return false
		}
		q := &c.reqs[r.Intn(len(c.reqs))]
		if r.Bool() {
			q.mn, q.mx = q.mx+1, q.mx+1+uint64(r.Intn(20)) // the next interval
		} else {
			q.mx++
		}
		return true
	case "onramp":
		if len(c.reqs) == 0 {
			return false
		}
		c.reqs[r.Intn(len(c.reqs))].onr += 40
		return true
	case "onramp-length": // the same address requested in another form (abi-encoded / bare / truncated / empty)
		if len(c.reqs) == 0 {
			return false
		}
		q := &c.reqs[r.Intn(len(c.reqs))]
		n := vPick(r, []int{0, 20, 21, 40, 5, 1, -1, 19})
		if n == q.olen {
			return false
		}
		q.olen = n
		return true
	case "lane-dropped":
		if len(c.reqs) <= 1 {
			return false
		}
		i := r.Intn(len(c.reqs))
		c.reqs = append(c.reqs[:i:i], c.reqs[i+1:]...)
		return true
	case "lane-added":
		for _, k := range r.Perm(6) {
			ch := uint64(k + 1)
			if c.req(ch) != nil || len(c.reqs) >= 3 {
				continue
			}
			if c.fIdx(ch) < 0 {
				c.homeF = append(c.homeF, [2]int64{int64(ch), int64(r.Range(0, 1))})
			}
			for i := range c.nodes {
				if r.Chance(2, 3) {
					c.setObserver(i, ch, true)
				}
			}
			c.reqs = append(c.reqs, vC06Req{ch: ch, onr: 30 + ch, mn: uint64(r.Range(0, 50)), mx: uint64(60 + r.Range(0, 50))})
			c.trueRoot[ch], c.altRoot[ch] = 100+ch, 200+ch
			return true
		}
		return false
	case "offramp":
		c.destOff++
		return true
	case "digest":
		c.digest = c.digest%9 + 1
		return true
	}
	return false
}

// vC06History runs one history on one controller and returns the case.
func vC06History(r *vRand, ncalls int) (coq string, cls string, nt bool, show map[string]any) {
	env := vC06LongEnv(r.Chance(1, 3), r.Chance(1, 3))
	theme := "combined"
	switch k := r.Intn(10); {
	case k < 6:
		theme = vPick(r, vC06Aspects)
	case k == 9:
		theme = "regenerated"
	}
	var ins, outs, kinds []string
	var calls []map[string]any
	var c *vC06Cfg
	lastInit := uint64(0)
	changed, ntLater := false, false
	for k := 0; k < ncalls; k++ {
		var applied []string
		switch {
		case k == 0:
			cfgCls := "ok"
			if r.Chance(1, 10) {
				cfgCls = vPick(r, []string{"fewobs", "fewsigners", "nof"})
			}
			c = vC06GenCfg(r, cfgCls)
		case theme == "regenerated": // everything at once; under a new digest or (1 in 3) under the same one
			d := c.digest
			c = vC06GenCfg(r, "ok")
			c.digest = d
			if r.Chance(2, 3) {
				c.digest = d%9 + 1
			}
			applied = append(applied, "regenerated")
		default:
			c = c.clone()
			todo := []string{theme}
			if theme == "combined" {
				todo = nil
				for _, i := range r.Perm(len(vC06Aspects))[:2+r.Intn(3)] {
					todo = append(todo, vC06Aspects[i])
				}
			} else if r.Chance(1, 4) {
				todo = append(todo, "digest") // the same aspect together with a new config digest
			}
			for _, a := range todo {
				if vC06Evolve(r, c, a) {
					applied = append(applied, a)
				}
			}
		}
		changed = changed || len(applied) > 0
		for _, n := range c.nodes {
			if r.Chance(1, 3) {
				c.byzantine[n.id] = true
			}
		}
		// the Processor (re)initialises the connection when the config digest differs from the one it initialised for
		inits := ""
		if c.digest != lastInit || r.Chance(1, 5) {
			nodes, _ := vC06HomeNodes(c)
			_ = env.ctl.InitConnection(context.Background(), cciptypes.Bytes32{1}, vC06Digest(c.digest),
				[]ragep2ptypes.PeerID{}, nodes)
			lastInit = c.digest
			inits = "init"
		}
		base := env.peer.base + len(env.peer.sends)
		in, out, ccls, cnt, cshow := vC06Call(env, r, c, "hist", 4+r.Intn(20), 3*time.Second, nil)
		ins = append(ins, cPair(cNi(base), in))
		outs = append(outs, cList([]string{out}))
		kind := cshow["kind"].(uint64)
		kinds = append(kinds, fmt.Sprint(kind))
		cshow["changed"], cshow["init"], cshow["class"] = applied, inits, ccls
		calls = append(calls, cshow)
		if k > 0 && cnt {
			ntLater = true
		}
		if kind == 10 {
			break // the controller goroutine of this call is still alive: nothing more can be learnt from this controller
		}
	}
	cls = fmt.Sprintf("%s/calls=%d", theme, len(ins))
	show = map[string]any{"theme": theme, "kinds": strings.Join(kinds, ","), "calls": calls, "inits": env.peer.inits,
		"kind": map[bool]uint64{false: 0, true: 10}[kinds[len(kinds)-1] == "10"]}
	return cPair(cList(ins), cList(outs)), cls, changed && ntLater, show
}

func TestVerif_C06_hist(t *testing.T) {
	defer runtime.GOMAXPROCS(runtime.GOMAXPROCS(1)) // see TestVerif_C06
	// the part is run as several independent streams (VERIF_C06_STREAM = 0, 1, 2 ...), each with its own sink, so that
	// the Coq judge of the histories is spread over several processes
	stream := vEnvInt("VERIF_C06_STREAM", 0)
	name := "C06_hist"
	if stream > 0 {
		name = fmt.Sprintf("C06_hist%d", stream)
	}
	r := vNewRand(vSeed() + 1906 + 7919*uint64(stream))
	n := vEnvInt("VERIF_N", 100)
	only := vReplayOnly()
	sink := vOpenSink(name)
	defer sink.Close()
	hist := map[string]int{}
	hangs := 0
	for i := 0; i < n; i++ {
		cseed := r.U64()
		cr := vNewRand(cseed)
		if only >= 0 && i != only {
			continue
		}
		coq, cls, nt, show := vC06History(cr, 2+cr.Intn(3))
		if show["kind"].(uint64) == 10 { // a hang is reported only when the same history hangs a second time
			cr = vNewRand(cseed)
			coq, cls, nt, show = vC06History(cr, 2+cr.Intn(3))
		}
		sink.Emit(name, cls, nt, coq, show)
		for _, c := range show["calls"].([]map[string]any) {
			for _, a := range c["changed"].([]string) {
				hist[a]++
			}
		}
		if show["kind"].(uint64) == 10 {
			if hangs++; hangs >= 3 {
				break
			}
		}
	}
	keys := ""
	for k, v := range hist {
		keys += fmt.Sprintf("%s=%d ", k, v)
	}
	t.Log("changes applied between calls: " + keys)
}

//go:build verif

package rmn

import (
	"fmt"
	"testing"
	"time"

	mapset "github.com/deckarep/golang-set/v2"

	"github.com/smartcontractkit/chainlink-ccip/commit/merkleroot/rmn/rmnpb"
	rmntypes "github.com/smartcontractkit/chainlink-ccip/commit/merkleroot/rmn/types"
	"github.com/smartcontractkit/chainlink-ccip/internal/mocks"
	cciptypes "github.com/smartcontractkit/chainlink-ccip/pkg/types/ccipocr3"
)

// C13 directed site classes, package commit/merkleroot/rmn (coq/Model/PanicSites2.v): the protobuf translation guards
// (nil entries, 32-byte fields), the root length guard in front of the Bytes32 conversions of the controller, and the
// "no responses for the chain" guard in front of values[len(values)-1].

func vC13sRun(f func() error) (int, string) {
	var err error
	code, what := vGuard(3*time.Second, func() { err = f() })
	if code == 0 && err != nil {
		return 1, err.Error()
	}
	return code, what
}

func vC13sNat(n int) string { return fmt.Sprintf("%d%%nat", n) }

func TestVerif_C13_sites_rmn(t *testing.T) {
	sink := vOpenSink("C13_sites_rmn")
	defer sink.Close()
	emit := func(cls, in string, code int, what string, show map[string]any) {
		show["code"], show["panic"] = code, what
		sink.Emit("C13_sites_rmn", cls, true, cPair(in, cNi(code)), show)
	}
	blens := []int{0, 1, 31, 32, 33, 64}

	// ---- site sig: NewECDSASigFromPB — nil / len(R), len(S) == 32 before R[:32], S[:32]
	{
		code, what := vC13sRun(func() error { _, err := NewECDSASigFromPB(nil); return err })
		emit("sig/nil", cApp("SSig", cBool(true), vC13sNat(0), vC13sNat(0)), code, what, map[string]any{"nil": true})
	}
	for _, lr := range blens {
		for _, ls := range blens {
			sig := &rmnpb.EcdsaSignature{R: make([]byte, lr), S: make([]byte, ls)}
			code, what := vC13sRun(func() error { _, err := NewECDSASigFromPB(sig); return err })
			emit("sig", cApp("SSig", cBool(false), vC13sNat(lr), vC13sNat(ls)), code, what, map[string]any{"lenR": lr, "lenS": ls})
		}
	}

	// ---- site lane: NewLaneUpdatesFromPB — nil update / lane source / closed interval, len(Root) == 32 before Root[:32]
	for _, luNil := range []bool{false, true} {
		for _, srcNil := range []bool{false, true} {
			for _, ivNil := range []bool{false, true} {
				for _, lroot := range blens {
					if luNil && (srcNil || ivNil || lroot != 0) {
						continue
					}
					var lu *rmnpb.FixedDestLaneUpdate
					if !luNil {
						lu = &rmnpb.FixedDestLaneUpdate{Root: make([]byte, lroot)}
						if !srcNil {
							lu.LaneSource = &rmnpb.LaneSource{SourceChainSelector: 5}
						}
						if !ivNil {
							lu.ClosedInterval = &rmnpb.ClosedInterval{MinMsgNr: 1, MaxMsgNr: 2}
						}
					}
					good := &rmnpb.FixedDestLaneUpdate{Root: make([]byte, 32), LaneSource: &rmnpb.LaneSource{SourceChainSelector: 7}, ClosedInterval: &rmnpb.ClosedInterval{}}
					code, what := vC13sRun(func() error { _, err := NewLaneUpdatesFromPB([]*rmnpb.FixedDestLaneUpdate{good, lu}); return err })
					emit("lane", cApp("SLane", cBool(luNil), cBool(srcNil), cBool(ivNil), vC13sNat(lroot)), code, what,
						map[string]any{"update_nil": luNil, "source_nil": srcNil, "interval_nil": ivNil, "lenRoot": lroot})
				}
			}
		}
	}

	// ---- site root32: validateRootLengths in front of cciptypes.Bytes32(lu.Root) in gotSufficientObservationResponses / selectRoots
	for _, l := range blens {
		root := make([]byte, l)
		if l > 0 {
			root[0] = 1
		}
		so := &rmnpb.SignedObservation{Observation: &rmnpb.Observation{FixedDestLaneUpdates: []*rmnpb.FixedDestLaneUpdate{
			{LaneSource: &rmnpb.LaneSource{SourceChainSelector: 5}, ClosedInterval: &rmnpb.ClosedInterval{MinMsgNr: 1, MaxMsgNr: 2}, Root: root}}}}
		code, what := vC13sRun(func() error {
			if err := validateRootLengths(so); err != nil {
				return err
			}
			obs := []rmnSignedObservationWithMeta{{SignedObservation: so, RMNNodeID: 1}}
			reqs := map[uint64]updateRequestWithMeta{5: {Data: &rmnpb.FixedDestLaneUpdateRequest{}, RmnNodes: mapset.NewSet[rmntypes.NodeID](1)}}
			f := map[cciptypes.ChainSelector]int{5: 0}
			_ = gotSufficientObservationResponses(mocks.NullLogger, reqs, obs, f)
			_, err := selectRoots(obs, f)
			return err
		})
		emit("root32", cApp("SRoot32", vC13sNat(l)), code, what, map[string]any{"lenRoot": l})
	}

	// ---- site max-count: gotSufficientObservationResponses — no response for a requested chain before values[len(values)-1]
	for _, n := range []int{0, 1, 2, 3} {
		var obs []rmnSignedObservationWithMeta
		for i := 0; i < n; i++ {
			root := make([]byte, 32)
			root[0] = byte(i + 1)
			obs = append(obs, rmnSignedObservationWithMeta{RMNNodeID: rmntypes.NodeID(i), SignedObservation: &rmnpb.SignedObservation{Observation: &rmnpb.Observation{
				FixedDestLaneUpdates: []*rmnpb.FixedDestLaneUpdate{{LaneSource: &rmnpb.LaneSource{SourceChainSelector: 5}, ClosedInterval: &rmnpb.ClosedInterval{}, Root: root}}}}})
		}
		// one response about another chain only: the requested chain 5 has no entry at all when n == 0
		other := make([]byte, 32)
		obs = append(obs, rmnSignedObservationWithMeta{RMNNodeID: 9, SignedObservation: &rmnpb.SignedObservation{Observation: &rmnpb.Observation{
			FixedDestLaneUpdates: []*rmnpb.FixedDestLaneUpdate{{LaneSource: &rmnpb.LaneSource{SourceChainSelector: 7}, ClosedInterval: &rmnpb.ClosedInterval{}, Root: other}}}}})
		reqs := map[uint64]updateRequestWithMeta{5: {Data: &rmnpb.FixedDestLaneUpdateRequest{}, RmnNodes: mapset.NewSet[rmntypes.NodeID](1)}}
		code, what := vC13sRun(func() error {
			_ = gotSufficientObservationResponses(mocks.NullLogger, reqs, obs, map[cciptypes.ChainSelector]int{5: 1})
			return nil
		})
		emit("max-count", cApp("SMaxCount", vC13sNat(n)), code, what, map[string]any{"distinct_roots": n})
	}
}

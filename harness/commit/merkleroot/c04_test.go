//go:build verif

package merkleroot

import (
	"context"
	"testing"

	cciptypes "github.com/smartcontractkit/chainlink-ccip/pkg/types/ccipocr3"
)

// ValidateMerkleRootsState against generated (report roots, off-ramp cursor, reader behaviour)
func TestVerif_C04_state(t *testing.T) {
	ctx := context.Background()
	r := vNewRand(vSeed() + 4040)
	n := vEnvInt("VERIF_N", 600)
	sink := vOpenSink("C04_state")
	defer sink.Close()
	for i := 0; i < n; i++ {
		nr := r.Intn(5)
		chains := []uint64{3, 5, 7, 9, 1 << 40}
		perm := r.Perm(len(chains))
		cursor := map[cciptypes.ChainSelector]uint64{}
		for _, c := range chains {
			cursor[cciptypes.ChainSelector(c)] = uint64(vPick(r, []int{0, 1, 10, 11, 250}))
		}
		var roots []cciptypes.MerkleRootChain
		cls := "match"
		for k := 0; k < nr; k++ {
			ch := cciptypes.ChainSelector(chains[perm[k]])
			start := cursor[ch]
			switch r.Intn(8) {
			case 0:
				start++ // gap
				cls = "ahead"
			case 1:
				if start > 0 {
					start-- // stale
					cls = "stale"
				}
			}
			roots = append(roots, cciptypes.MerkleRootChain{ChainSel: ch, SeqNumsRange: cciptypes.NewSeqNumRange(cciptypes.SeqNum(start), cciptypes.SeqNum(start+uint64(r.Intn(4)))), MerkleRoot: cciptypes.Bytes32{byte(k + 1)}})
		}
		if nr >= 2 && r.Chance(1, 8) {
			roots[1].ChainSel = roots[0].ChainSel
			cls = "dupchain"
		}
		mode := 0 // 0 honest, 1 error, 2 short answer, 3 long answer
		if r.Chance(1, 6) {
			mode = 1 + r.Intn(3)
			cls = []string{"", "readerr", "short", "long"}[mode]
		}
		rd := &vCCIPReader{NextSeqNumFn: func(cs []cciptypes.ChainSelector) ([]cciptypes.SeqNum, error) {
			if mode == 1 {
				return nil, vErrNext()
			}
			out := make([]cciptypes.SeqNum, 0, len(cs)+1)
			for _, c := range cs {
				out = append(out, cciptypes.SeqNum(cursor[c]))
			}
			if mode == 2 && len(out) > 0 {
				out = out[:len(out)-1]
			}
			if mode == 3 {
				out = append(out, 1)
			}
			return out, nil
		}}
		err := ValidateMerkleRootsState(ctx, roots, rd)
		ok := err == nil
		var cur []string
		for _, c := range chains {
			cur = append(cur, cPair(cN(c), cN(cursor[cciptypes.ChainSelector(c)])))
		}
		in := cTup(cMap(roots, func(m cciptypes.MerkleRootChain) string {
			return cTup(cN(uint64(m.ChainSel)), cPair(cN(uint64(m.SeqNumsRange.Start())), cN(uint64(m.SeqNumsRange.End()))), cN(0))
		}), cList(cur), cNi(mode))
		sink.Emit("C04_state", cls, nr > 0, cPair(in, cBool(ok)), map[string]any{"roots": len(roots), "class": cls, "ok": ok})
	}
}

//go:build verif

package merkleroot

import (
	"context"
	"encoding/hex"
	"encoding/json"
	"math"
	"sort"
	"testing"

	"github.com/smartcontractkit/libocr/commontypes"
	"github.com/smartcontractkit/libocr/offchainreporting2plus/ocr3types"

	"github.com/smartcontractkit/chainlink-ccip/commit/merkleroot/rmn"
	"github.com/smartcontractkit/chainlink-ccip/commit/merkleroot/rmn/rmnpb"
	rmntypes "github.com/smartcontractkit/chainlink-ccip/commit/merkleroot/rmn/types"
	"github.com/smartcontractkit/chainlink-ccip/internal/mocks"
	"github.com/smartcontractkit/chainlink-ccip/internal/plugincommon"
	"github.com/smartcontractkit/chainlink-ccip/internal/plugintypes"
	cciptypes "github.com/smartcontractkit/chainlink-ccip/pkg/types/ccipocr3"
	"github.com/smartcontractkit/chainlink-ccip/pluginconfig"
)

const vC03Dest = cciptypes.ChainSelector(900)

// ---------- Coq term printers for the state-machine types (shared shape with Model/CommitSM.v) ----------
type vC03Terms struct {
	in   *vIntern
	dest cciptypes.ChainSelector // destination whose RMN remote config the consensus term shows (0 = vC03Dest)
}

func (t vC03Terms) destSel() cciptypes.ChainSelector {
	if t.dest != 0 {
		return t.dest
	}
	return vC03Dest
}
func (t vC03Terms) addr(b []byte) string  { return cN(t.in.Id("a:" + hex.EncodeToString(b))) }
func (t vC03Terms) h32(b [32]byte) string { return cN(t.in.Id("h:" + hex.EncodeToString(b[:]))) }
func (t vC03Terms) root(r cciptypes.MerkleRootChain) string {
	return cTup(cN(uint64(r.ChainSel)), cPair(cN(uint64(r.SeqNumsRange.Start())), cN(uint64(r.SeqNumsRange.End()))),
		t.addr(r.OnRampAddress), t.h32(r.MerkleRoot))
}
func (t vC03Terms) cfg(c rmntypes.RemoteConfig) string {
	if c.IsEmpty() {
		return cPair(cN(0), cN(0))
	}
	b, _ := json.Marshal(c)
	return cPair(cN(t.in.Id("cfg:"+string(b))), cN(c.F))
}
func (t vC03Terms) sig(s cciptypes.RMNECDSASignature) string {
	return cN(t.in.Id("sig:" + hex.EncodeToString(s.R[:]) + hex.EncodeToString(s.S[:])))
}
func (t vC03Terms) seqChains(xs []plugintypes.SeqNumChain) string {
	return cMap(xs, func(c plugintypes.SeqNumChain) string { return cPair(cN(uint64(c.ChainSel)), cN(uint64(c.SeqNum))) })
}
func (t vC03Terms) outcome(o Outcome) string {
	return cApp("mkOutcome", cZ(int64(o.OutcomeType)),
		cMap(o.RangesSelectedForReport, func(c plugintypes.ChainRange) string {
			return cPair(cN(uint64(c.ChainSel)), cPair(cN(uint64(c.SeqNumRange.Start())), cN(uint64(c.SeqNumRange.End()))))
		}),
		cMap(o.RootsToReport, t.root),
		t.seqChains(o.OffRampNextSeqNums),
		cN(uint64(o.ReportTransmissionCheckAttempts)),
		cMap(o.RMNReportSignatures, t.sig),
		t.cfg(o.RMNRemoteCfg))
}
func (t vC03Terms) seqMap(m map[cciptypes.ChainSelector]cciptypes.SeqNum) string {
	var ks []cciptypes.ChainSelector
	for k := range m {
		ks = append(ks, k)
	}
	sort.Slice(ks, func(a, b int) bool { return ks[a] < ks[b] })
	return cMap(ks, func(k cciptypes.ChainSelector) string { return cPair(cN(uint64(k)), cN(uint64(m[k]))) })
}
func (t vC03Terms) cons(c consensusObservation, err error) string {
	if err != nil {
		return cNone()
	}
	var ks []cciptypes.ChainSelector
	for k := range c.MerkleRoots {
		ks = append(ks, k)
	}
	sort.Slice(ks, func(a, b int) bool { return ks[a] < ks[b] })
	roots := cMap(ks, func(k cciptypes.ChainSelector) string { return t.root(c.MerkleRoots[k]) })
	return cSome(cApp("mkCons", roots, t.seqMap(c.OnRampMaxSeqNums), t.seqMap(c.OffRampNextSeqNums), t.cfg(c.RMNRemoteConfig[t.destSel()])))
}
func (t vC03Terms) query(q Query) string {
	b := cNone()
	if q.RMNSignatures != nil {
		sigs := cMap(q.RMNSignatures.Signatures, func(s *rmnpb.EcdsaSignature) string {
			switch {
			case s == nil:
				return "SigNil"
			case len(s.R) != 32 || len(s.S) != 32:
				return "SigBad"
			}
			var r, ss [32]byte
			copy(r[:], s.R)
			copy(ss[:], s.S)
			return cApp("SigOk", t.sig(cciptypes.RMNECDSASignature{R: r, S: ss}))
		})
		lanes := cMap(q.RMNSignatures.LaneUpdates, func(l *rmnpb.FixedDestLaneUpdate) string {
			switch {
			case l == nil:
				return "LaneNil"
			case l.LaneSource == nil:
				return "LaneNoSource"
			case l.ClosedInterval == nil:
				return "LaneNoInterval"
			case len(l.Root) != 32:
				return "LaneBadRoot"
			}
			var r [32]byte
			copy(r[:], l.Root)
			return cApp("LaneOk", cN(l.LaneSource.SourceChainSelector), cN(l.ClosedInterval.MinMsgNr), cN(l.ClosedInterval.MaxMsgNr),
				t.addr(l.LaneSource.OnrampAddress), t.h32(r))
		})
		b = cSome(cApp("mkBundle", sigs, lanes))
	}
	return cApp("mkQuery", cBool(q.RetryRMNSignatures), b)
}

// ---------- generators ----------
func vC03Bytes32(r *vRand, tag byte) cciptypes.Bytes32 {
	var b cciptypes.Bytes32
	b[0] = tag
	b[1] = byte(r.Intn(4)) // few distinct values: collisions between rounds are wanted
	return b
}

func vC03Cfg(r *vRand) rmntypes.RemoteConfig {
	if r.Chance(1, 3) {
		return rmntypes.RemoteConfig{}
	}
	return rmntypes.RemoteConfig{
		ContractAddress: []byte{0xC0, byte(r.Intn(2))},
		ConfigDigest:    vC03Bytes32(r, 0xD1),
		Signers:         []rmntypes.RemoteSignerInfo{{OnchainPublicKey: []byte{1}, NodeIndex: 0}, {OnchainPublicKey: []byte{2}, NodeIndex: 1}},
		F:               uint64(r.Intn(3)),
		ConfigVersion:   1,
	}
}

func vC03Root(r *vRand, k cciptypes.ChainSelector, s, e uint64) cciptypes.MerkleRootChain {
	// on-ramp addresses of 2, 20 and 32 bytes (abi-encoded / non-EVM addresses are longer than 20 bytes)
	addr := []byte{byte(k), 0xAD}
	switch r.Intn(3) {
	case 1:
		addr = make([]byte, 20)
		addr[0], addr[19] = byte(k), 0xAD
	case 2:
		addr = make([]byte, 32)
		addr[0], addr[11], addr[12], addr[31] = byte(k), 0x01, byte(k), 0xAD
	}
	return cciptypes.MerkleRootChain{ChainSel: k, OnRampAddress: addr,
		SeqNumsRange: cciptypes.NewSeqNumRange(cciptypes.SeqNum(s), cciptypes.SeqNum(e)), MerkleRoot: vC03Bytes32(r, 0xAA)}
}

// one round's observations (4 oracles, F = 1, fChain = 1 everywhere) drawn from an abstract class, given the
// previous outcome; returns the class label too
func vC03GenObs(r *vRand, prev Outcome) ([]plugincommon.AttributedObservation[Observation], []cciptypes.MerkleRootChain, string) {
	chains := []cciptypes.ChainSelector{1, 2, 3}
	fChain := map[cciptypes.ChainSelector]int{vC03Dest: 1, 1: 1, 2: 1, 3: 1}
	cls := vPick(r, []string{"none", "f-only", "f-too-few", "select", "select", "roots-agree", "roots-agree", "roots-disagree",
		"roots-partial", "off-same", "off-same", "off-changed", "off-other", "mixed"})
	obs := make([]Observation, 4)
	var agreed []cciptypes.MerkleRootChain
	setF := func(n int) {
		for i := 0; i < n; i++ {
			obs[i].FChain = fChain
		}
	}
	offFromPrev := func(change bool) []plugintypes.SeqNumChain {
		var xs []plugintypes.SeqNumChain
		for _, c := range prev.OffRampNextSeqNums {
			xs = append(xs, c)
		}
		if len(xs) == 0 {
			xs = []plugintypes.SeqNumChain{{ChainSel: 1, SeqNum: 10}, {ChainSel: 2, SeqNum: 20}}
		}
		if change {
			i := r.Intn(len(xs))
			if r.Bool() || xs[i].SeqNum < 4 {
				xs[i].SeqNum += cciptypes.SeqNum(1 + r.Intn(3))
			} else {
				xs[i].SeqNum -= cciptypes.SeqNum(1 + r.Intn(3)) // a cursor that moved backwards is a change too
			}
		}
		if r.Chance(1, 4) && len(xs) > 1 { // only a subset observed
			xs = xs[:len(xs)-1]
		}
		return xs
	}
	switch cls {
	case "none":
	case "f-only":
		setF(4)
	case "f-too-few": // only two oracles report fChain: no consensus on fChain[dest]
		setF(2)
	case "select":
		setF(4)
		var on, off []plugintypes.SeqNumChain
		for _, k := range chains {
			if r.Chance(1, 5) {
				continue
			}
			o := uint64(r.Range(1, 30))
			off = append(off, plugintypes.NewSeqNumChain(k, cciptypes.SeqNum(o)))
			if !r.Chance(1, 6) {
				on = append(on, plugintypes.NewSeqNumChain(k, cciptypes.SeqNum(o+uint64(r.Range(0, 5))-1)))
			}
		}
		cfg := vC03Cfg(r)
		for i := range obs {
			obs[i].OnRampMaxSeqNums, obs[i].OffRampNextSeqNums, obs[i].RMNRemoteConfig = on, off, cfg
		}
	case "roots-agree", "roots-partial", "roots-disagree":
		setF(4)
		rs := prev.RangesSelectedForReport
		if len(rs) == 0 {
			rs = []plugintypes.ChainRange{{ChainSel: 2, SeqNumRange: cciptypes.NewSeqNumRange(5, 7)}}
		}
		for j, cr := range rs {
			rt := vC03Root(r, cr.ChainSel, uint64(cr.SeqNumRange.Start()), uint64(cr.SeqNumRange.End()))
			agree := cls == "roots-agree" || (cls == "roots-partial" && j%2 == 0)
			for i := range obs {
				x := rt
				if !agree {
					x.MerkleRoot[5] = byte(i + 1) // every oracle a different root
				}
				obs[i].MerkleRoots = append(obs[i].MerkleRoots, x)
			}
			if agree {
				agreed = append(agreed, rt)
			}
		}
	case "off-same":
		setF(4)
		off := offFromPrev(false)
		for i := range obs {
			obs[i].OffRampNextSeqNums = off
		}
	case "off-changed":
		setF(4)
		off := offFromPrev(true)
		for i := range obs {
			obs[i].OffRampNextSeqNums = off
		}
	case "off-other":
		setF(4)
		for i := range obs {
			obs[i].OffRampNextSeqNums = []plugintypes.SeqNumChain{{ChainSel: 3, SeqNum: cciptypes.SeqNum(r.Range(1, 50))}}
		}
	case "mixed": // everything at once, whatever the state
		setF(4)
		off := offFromPrev(r.Bool())
		rt := vC03Root(r, 1, 10, 12)
		agreed = append(agreed, rt)
		cfg := vC03Cfg(r)
		for i := range obs {
			obs[i].OffRampNextSeqNums = off
			obs[i].OnRampMaxSeqNums = []plugintypes.SeqNumChain{{ChainSel: 1, SeqNum: 40}, {ChainSel: 2, SeqNum: 41}}
			obs[i].MerkleRoots = []cciptypes.MerkleRootChain{rt}
			obs[i].RMNRemoteConfig = cfg
		}
	}
	aos := make([]plugincommon.AttributedObservation[Observation], 0, 4)
	for i, o := range obs {
		aos = append(aos, plugincommon.AttributedObservation[Observation]{OracleID: commontypes.OracleID(i), Observation: o})
	}
	return aos, agreed, cls
}

func vC03Sig(b byte) *rmnpb.EcdsaSignature {
	rr := make([]byte, 32)
	ss := make([]byte, 32)
	rr[0], ss[0] = b, 0x55
	return &rmnpb.EcdsaSignature{R: rr, S: ss}
}

func vC03Lane(rt cciptypes.MerkleRootChain) *rmnpb.FixedDestLaneUpdate {
	return &rmnpb.FixedDestLaneUpdate{
		LaneSource:     &rmnpb.LaneSource{SourceChainSelector: uint64(rt.ChainSel), OnrampAddress: rt.OnRampAddress},
		ClosedInterval: &rmnpb.ClosedInterval{MinMsgNr: uint64(rt.SeqNumsRange.Start()), MaxMsgNr: uint64(rt.SeqNumsRange.End())},
		Root:           append([]byte{}, rt.MerkleRoot[:]...),
	}
}

// query classes; agreed = the roots the observations of this round agree on
func vC03GenQuery(r *vRand, agreed []cciptypes.MerkleRootChain) (Query, string) {
	q := Query{RetryRMNSignatures: r.Chance(1, 6)}
	cls := vPick(r, []string{"nosigs", "nosigs", "nosigs", "sign-all", "sign-all", "sign-subset", "sign-none", "sign-other", "malformed"})
	switch cls {
	case "nosigs":
	case "sign-all", "sign-subset", "sign-none", "sign-other":
		rs := &rmn.ReportSignatures{Signatures: []*rmnpb.EcdsaSignature{vC03Sig(1), vC03Sig(2)}}
		for j, rt := range agreed {
			switch cls {
			case "sign-all":
				rs.LaneUpdates = append(rs.LaneUpdates, vC03Lane(rt))
			case "sign-subset":
				if j%2 == 1 {
					rs.LaneUpdates = append(rs.LaneUpdates, vC03Lane(rt))
				}
			case "sign-other":
				x := rt
				x.MerkleRoot[9] ^= 0xFF
				rs.LaneUpdates = append(rs.LaneUpdates, vC03Lane(x))
			}
		}
		q.RMNSignatures = rs
	case "malformed":
		rs := &rmn.ReportSignatures{Signatures: []*rmnpb.EcdsaSignature{vC03Sig(1)}}
		for _, rt := range agreed {
			rs.LaneUpdates = append(rs.LaneUpdates, vC03Lane(rt))
		}
		switch r.Intn(5) {
		case 0:
			rs.Signatures = append(rs.Signatures, nil)
		case 1:
			rs.Signatures = append(rs.Signatures, &rmnpb.EcdsaSignature{R: []byte{1, 2}, S: make([]byte, 32)})
		case 2:
			rs.LaneUpdates = append(rs.LaneUpdates, nil)
		case 3:
			rs.LaneUpdates = append(rs.LaneUpdates, &rmnpb.FixedDestLaneUpdate{ClosedInterval: &rmnpb.ClosedInterval{}, Root: make([]byte, 32)})
		case 4:
			rs.LaneUpdates = append(rs.LaneUpdates, &rmnpb.FixedDestLaneUpdate{LaneSource: &rmnpb.LaneSource{}, ClosedInterval: &rmnpb.ClosedInterval{}, Root: make([]byte, 15)})
		}
		q.RMNSignatures = rs
	}
	if q.RetryRMNSignatures {
		cls = "retry+" + cls
	}
	return q, cls
}

func vC03FirstOutcome(r *vRand, max uint64) Outcome {
	types := []int64{0, 1, 2, 3, 4, 5, 6, 7, -1, 1 << 31, 1 << 62, 1, 2, 4, 1, 2, 4}
	sub := func(a, b uint64) uint64 {
		if a < b {
			return 0
		}
		return a - b
	}
	atts := []uint64{0, 1, sub(max, 2), sub(max, 1), max, max + 1, math.MaxUint64 - 1, math.MaxUint64}
	o := Outcome{OutcomeType: OutcomeType(vPick(r, types)), ReportTransmissionCheckAttempts: uint(vPick(r, atts))}
	if r.Chance(3, 4) {
		for _, k := range []cciptypes.ChainSelector{1, 2, 3} {
			if r.Bool() {
				o.OffRampNextSeqNums = append(o.OffRampNextSeqNums, plugintypes.NewSeqNumChain(k, cciptypes.SeqNum(r.Range(1, 30))))
			}
		}
	}
	if r.Chance(1, 2) {
		for _, k := range []cciptypes.ChainSelector{1, 2, 3} {
			if r.Bool() {
				s := uint64(r.Range(1, 30))
				o.RangesSelectedForReport = append(o.RangesSelectedForReport, plugintypes.ChainRange{ChainSel: k, SeqNumRange: cciptypes.NewSeqNumRange(cciptypes.SeqNum(s), cciptypes.SeqNum(s+uint64(r.Intn(4))))})
			}
		}
	}
	if r.Chance(1, 3) {
		o.RootsToReport = []cciptypes.MerkleRootChain{vC03Root(r, 1, 3, 4)}
		o.RMNReportSignatures = []cciptypes.RMNECDSASignature{{R: vC03Bytes32(r, 1), S: vC03Bytes32(r, 2)}}
	}
	if r.Bool() {
		o.RMNRemoteCfg = vC03Cfg(r)
	}
	return o
}

// the outcome as the next round receives it: through its JSON encoding (what libocr carries between rounds)
func vC03Wire(o Outcome) Outcome {
	b, err := json.Marshal(o)
	if err != nil {
		panic(err)
	}
	var back Outcome
	if err := json.Unmarshal(b, &back); err != nil {
		panic(err)
	}
	return back
}

func TestVerif_C03_histories(t *testing.T) {
	ctx := context.Background()
	r := vNewRand(vSeed() + 301)
	n := vEnvInt("VERIF_N", 300)
	sink := vOpenSink("C03_hist")
	defer sink.Close()
	for i := 0; i < n; i++ {
		tm := vC03Terms{in: vNewIntern()}
		max := vPick(r, []uint64{0, 1, 2, 3, 5, 5})
		if r.Chance(1, 30) {
			max = math.MaxUint64
		}
		tree := vPick(r, []uint64{1, 2, 256})
		proc := &Processor{
			offchainCfg:  pluginconfig.CommitOffchainConfig{MaxMerkleTreeSize: tree, MaxReportTransmissionCheckAttempts: uint(max)},
			destChain:    vC03Dest,
			lggr:         mocks.NullLogger,
			reportingCfg: ocr3types.ReportingPluginConfig{F: 1, N: 4},
		}
		prev := vC03Wire(vC03FirstOutcome(r, max))
		first := tm.outcome(prev)
		firstType := int64(prev.OutcomeType)
		firstAtt := uint64(prev.ReportTransmissionCheckAttempts)
		rounds := r.Range(1, 16)
		var roundTerms, outTerms []string
		var classes []string
		consRounds := 0
		for k := 0; k < rounds; k++ {
			aos, agreed, ocls := vC03GenObs(r, prev)
			q, qcls := vC03GenQuery(r, agreed)
			co, cerr := getConsensusObservation(mocks.NullLogger, 1, vC03Dest, aos)
			if cerr == nil {
				consRounds++
			}
			var out Outcome
			panicked := false
			func() {
				defer func() {
					if rec := recover(); rec != nil {
						panicked = true
					}
				}()
				var err error
				out, err = proc.Outcome(ctx, prev, q, aos)
				if err != nil {
					panicked = true
				}
			}()
			roundTerms = append(roundTerms, cPair(tm.query(q), tm.cons(co, cerr)))
			classes = append(classes, ocls+"/"+qcls)
			if panicked {
				// not an outcome the model can produce: type -77
				outTerms = append(outTerms, cApp("mkOutcome", cZ(-77), "[]", "[]", "[]", cN(0), "[]", cPair(cN(0), cN(0))))
				classes = append(classes, "PANIC")
				break
			}
			out = vC03Wire(out)
			outTerms = append(outTerms, tm.outcome(out))
			prev = out
		}
		in := cTup(cN(max), cN(tree), first, cList(roundTerms))
		cls := "first-type-other"
		switch firstType {
		case 1:
			cls = "first-building"
		case 2, 4:
			cls = "first-waiting"
			if firstAtt >= math.MaxUint64-1 {
				cls = "first-waiting-wrap"
			}
		case 0, 3, 5, 6:
			cls = "first-selecting"
		}
		sink.Emit("C03_hist", cls, rounds >= 2 && consRounds >= 1, cPair(in, cList(outTerms)),
			map[string]any{"max": max, "rounds": rounds, "firstType": firstType, "firstAttempts": firstAtt, "classes": classes})
	}
}

//go:build verif

package merkleroot

// C05 harness, part life: ONE long-lived set of processors (one per oracle, built once with the real NewProcessor, as
// commit.Plugin keeps them) driven over several report cycles while the environment moves BETWEEN the rounds.
// Injected together with c03_test.go (term printers, generators) and c05_test.go (hasher, message maker).

import (
	"bytes"
	"context"
	"crypto/sha256"
	"encoding/hex"
	"fmt"
	"sort"
	"strings"
	"testing"
	"time"

	"github.com/smartcontractkit/chainlink-common/pkg/hashutil"

	"github.com/smartcontractkit/libocr/commontypes"
	"github.com/smartcontractkit/libocr/offchainreporting2plus/ocr3types"
	ragep2ptypes "github.com/smartcontractkit/libocr/ragep2p/types"

	"github.com/smartcontractkit/chainlink-ccip/commit/merkleroot/rmn"
	"github.com/smartcontractkit/chainlink-ccip/commit/merkleroot/rmn/rmnpb"
	rmntypes "github.com/smartcontractkit/chainlink-ccip/commit/merkleroot/rmn/types"
	"github.com/smartcontractkit/chainlink-ccip/internal/mocks"
	"github.com/smartcontractkit/chainlink-ccip/internal/plugincommon"
	"github.com/smartcontractkit/chainlink-ccip/pkg/consts"
	readerpkg "github.com/smartcontractkit/chainlink-ccip/pkg/reader"
	cciptypes "github.com/smartcontractkit/chainlink-ccip/pkg/types/ccipocr3"
	"github.com/smartcontractkit/chainlink-ccip/pluginconfig"
)

// ---------- the signature scheme of this part ----------
// A signature is made by one key over one report: R[0] = key byte, R[1] = a nonce, S = sha256 of the canonical report.
// VerifyReportSignatures answers yes iff every signature's key address is among the signer addresses it is handed and
// the report it is handed is the one the signature was made over. Every call is recorded with its arguments.
func vC05LifeKeyAddr(k byte) cciptypes.UnknownAddress { return cciptypes.UnknownAddress{0xA5, k} }

func vC05LifeRepKey(rep cciptypes.RMNReport) string {
	var sb strings.Builder
	fmt.Fprintf(&sb, "%x|%d|%x|%x|%x|", rep.ReportVersionDigest[:], uint64(rep.DestChainSelector), []byte(rep.RmnRemoteContractAddress),
		[]byte(rep.OfframpAddress), rep.RmnHomeContractConfigDigest[:])
	for _, l := range rep.LaneUpdates {
		fmt.Fprintf(&sb, "%d,%d,%d,%x,%x;", uint64(l.SourceChainSelector), uint64(l.MinSeqNr), uint64(l.MaxSeqNr), []byte(l.OnRampAddress), l.MerkleRoot[:])
	}
	return sb.String()
}

func vC05LifeTag(rep cciptypes.RMNReport) [32]byte { return sha256.Sum256([]byte(vC05LifeRepKey(rep))) }

type vC05LifeCrypto struct {
	calls int
	sigs  []cciptypes.RMNECDSASignature
	rep   cciptypes.RMNReport
	addrs []cciptypes.UnknownAddress
}

func (c *vC05LifeCrypto) VerifyReportSignatures(_ context.Context, sigs []cciptypes.RMNECDSASignature, rep cciptypes.RMNReport, addrs []cciptypes.UnknownAddress) error {
	c.calls++
	c.sigs, c.rep, c.addrs = sigs, rep, addrs
	tag := vC05LifeTag(rep)
	for _, s := range sigs {
		found := false
		for _, a := range addrs {
			if bytes.Equal(a, vC05LifeKeyAddr(s.R[0])) {
				found = true
			}
		}
		if !found || s.S != tag {
			return vErrNext()
		}
	}
	return nil
}

// ---------- the RMN side of the environment: RMNHome reader and the RMN network behind every oracle's controller ----------
type vC05LifeNet struct {
	ifail     int    // 0 none, 1 GetRMNNodesInfo fails, 2 InitConnection fails
	nodeEpoch int    // the RMNHome node set changes with it
	mode      string // answer of the RMN nodes to ComputeReportSignatures: sigs / sigs-other / sigs-subset / timeout / err
	trueRoots []cciptypes.MerkleRootChain
	nonce     byte
	reg       map[[32]byte]cciptypes.RMNReport // every report a signature was made over, by tag
}

func (n *vC05LifeNet) nodesFor(d cciptypes.Bytes32) []rmntypes.HomeNodeInfo {
	return []rmntypes.HomeNodeInfo{{ID: rmntypes.NodeID(d[1])}, {ID: rmntypes.NodeID(100 + n.nodeEpoch)}, {ID: rmntypes.NodeID(200 + int(d[2]))}}
}

func vC05LifeNodesKey(commitDigest cciptypes.Bytes32, peers []ragep2ptypes.PeerID, nodes []rmntypes.HomeNodeInfo) string {
	ps := make([]string, 0, len(peers))
	for _, p := range peers {
		ps = append(ps, hex.EncodeToString(p[:4]))
	}
	sort.Strings(ps)
	ids := make([]string, 0, len(nodes))
	for _, nd := range nodes {
		ids = append(ids, fmt.Sprint(nd.ID))
	}
	return "nodes:" + strings.Join(ids, ",") + "|peers:" + strings.Join(ps, ",") + "|ocr:" + hex.EncodeToString(commitDigest[:2])
}

// sign: signatures of the given keys over the report
func (n *vC05LifeNet) sign(keys []byte, rep cciptypes.RMNReport) []*rmnpb.EcdsaSignature {
	tag := vC05LifeTag(rep)
	n.reg[tag] = rep
	var out []*rmnpb.EcdsaSignature
	for _, k := range keys {
		n.nonce++
		rr := make([]byte, 32)
		rr[0], rr[1] = k, n.nonce
		out = append(out, &rmnpb.EcdsaSignature{R: rr, S: append([]byte{}, tag[:]...)})
	}
	return out
}

func vC05LifeReport(cfg rmntypes.RemoteConfig, dest cciptypes.ChainSelector, offramp []byte, lanes []*rmnpb.FixedDestLaneUpdate) (cciptypes.RMNReport, bool) {
	lu, err := rmn.NewLaneUpdatesFromPB(lanes)
	if err != nil {
		return cciptypes.RMNReport{}, false
	}
	// the byte slices are COPIED: the report is kept in the registry of signed reports for the rest of the history, while the
	// environment's addresses move in place (offAddr[1]++); an aliased slice would make the registry show the address of a later
	// round for a signature made over the address of this one
	return cciptypes.RMNReport{ReportVersionDigest: cfg.RmnReportVersion, DestChainSelector: dest,
		RmnRemoteContractAddress: append([]byte{}, cfg.ContractAddress...),
		OfframpAddress:           append([]byte{}, offramp...), RmnHomeContractConfigDigest: cfg.ConfigDigest, LaneUpdates: lu}, true
}

type vC05LifeHome struct {
	readerpkg.RMNHome // only GetRMNNodesInfo is called by the code under test
	net               *vC05LifeNet
}

func (h vC05LifeHome) GetRMNNodesInfo(d cciptypes.Bytes32) ([]rmntypes.HomeNodeInfo, error) {
	if h.net.ifail == 1 {
		return nil, vErrNext()
	}
	return h.net.nodesFor(d), nil
}

type vC05LifeInit struct {
	digest cciptypes.Bytes32
	key    string
}

// one controller per oracle; its connection is state of the environment (the model reads it from here)
type vC05LifeCtrl struct {
	net   *vC05LifeNet
	conn  cciptypes.Bytes32
	inits []vC05LifeInit
	calls int
	reqs  []*rmnpb.FixedDestLaneUpdateRequest
	cfg   rmntypes.RemoteConfig
}

func (c *vC05LifeCtrl) InitConnection(_ context.Context, commitDigest, homeDigest cciptypes.Bytes32, peers []ragep2ptypes.PeerID, nodes []rmntypes.HomeNodeInfo) error {
	c.inits = append(c.inits, vC05LifeInit{homeDigest, vC05LifeNodesKey(commitDigest, peers, nodes)})
	if c.net.ifail == 2 {
		return vErrNext()
	}
	c.conn = homeDigest
	return nil
}
func (c *vC05LifeCtrl) Close() error { return nil }

// the RMN nodes sign what they are asked, for the config they are handed, with the keys of that config
func (c *vC05LifeCtrl) ComputeReportSignatures(_ context.Context, dest *rmnpb.LaneDest, reqs []*rmnpb.FixedDestLaneUpdateRequest, cfg rmntypes.RemoteConfig) (*rmn.ReportSignatures, error) {
	c.calls++
	c.reqs, c.cfg = reqs, cfg
	n := c.net
	switch n.mode {
	case "timeout":
		return nil, rmn.ErrTimeout
	case "err":
		return nil, vErrNext()
	}
	rs := &rmn.ReportSignatures{}
	for i, rq := range reqs {
		if n.mode == "sigs-subset" && i == 0 && len(reqs) > 1 {
			continue
		}
		for _, rt := range n.trueRoots {
			if uint64(rt.ChainSel) == rq.LaneSource.SourceChainSelector {
				root := rt.MerkleRoot
				if n.mode == "sigs-other" {
					root[7] ^= 0x5A
				}
				rs.LaneUpdates = append(rs.LaneUpdates, &rmnpb.FixedDestLaneUpdate{
					LaneSource:     &rmnpb.LaneSource{SourceChainSelector: rq.LaneSource.SourceChainSelector, OnrampAddress: rq.LaneSource.OnrampAddress},
					ClosedInterval: &rmnpb.ClosedInterval{MinMsgNr: rq.ClosedInterval.MinMsgNr, MaxMsgNr: rq.ClosedInterval.MaxMsgNr},
					Root:           append([]byte{}, root[:]...)})
			}
		}
	}
	var keys []byte
	for _, s := range cfg.Signers {
		if len(s.OnchainPublicKey) == 2 {
			keys = append(keys, s.OnchainPublicKey[1])
		}
	}
	rep, _ := vC05LifeReport(cfg, cciptypes.ChainSelector(dest.DestChainSelector), dest.OfframpAddress, rs.LaneUpdates)
	rs.Signatures = n.sign(keys, rep)
	return rs, nil
}

// ---------- the RMNRemote configuration on chain and how it moves ----------
type vC05LifeChainCfg struct {
	cfg     rmntypes.RemoteConfig
	stash   *rmntypes.RemoteConfig // the config while it is absent from the chain
	nextKey byte
	retired []byte // keys that were signers once
	ctr     byte
}

func vC05LifeSigners(keys []byte) []rmntypes.RemoteSignerInfo {
	var out []rmntypes.RemoteSignerInfo
	for i, k := range keys {
		out = append(out, rmntypes.RemoteSignerInfo{OnchainPublicKey: vC05LifeKeyAddr(k), NodeIndex: uint64(i)})
	}
	return out
}

func vC05LifeKeys(cfg rmntypes.RemoteConfig) []byte {
	var ks []byte
	for _, s := range cfg.Signers {
		ks = append(ks, s.OnchainPublicKey[1])
	}
	return ks
}

func (w *vC05LifeChainCfg) fresh() byte { w.nextKey++; return w.nextKey }

func (w *vC05LifeChainCfg) mutate(r *vRand, aspect string) {
	if aspect == "vanish" {
		if w.stash != nil {
			w.cfg, w.stash = *w.stash, nil
		} else {
			c := w.cfg
			w.stash, w.cfg = &c, rmntypes.RemoteConfig{}
		}
		return
	}
	if w.stash != nil { // the other aspects move the config that will reappear
		w.cfg, w.stash = *w.stash, nil
	}
	w.ctr++
	c := &w.cfg
	switch aspect {
	case "signers":
		ks := vC05LifeKeys(*c)
		switch op := r.Intn(6); {
		case op == 0: // one signer rotated out, a new one in
			w.retired = append(w.retired, ks[0])
			ks = append(ks[1:], w.fresh())
		case op == 1: // all replaced
			w.retired = append(w.retired, ks...)
			nk := make([]byte, len(ks))
			for i := range nk {
				nk[i] = w.fresh()
			}
			ks = nk
		case op == 2: // same set, other order
			for i, j := 0, len(ks)-1; i < j; i, j = i+1, j-1 {
				ks[i], ks[j] = ks[j], ks[i]
			}
		case op == 3 && len(ks) < 4: // one more
			ks = append(ks, w.fresh())
		case op == 4 && uint64(len(ks)) > c.F+1: // one fewer
			w.retired = append(w.retired, ks[len(ks)-1])
			ks = ks[:len(ks)-1]
		default: // a retired key comes back in place of the last signer (or a new one)
			w.retired = append(w.retired, ks[len(ks)-1])
			if len(w.retired) > 1 && r.Bool() {
				ks[len(ks)-1] = w.retired[0]
			} else {
				ks[len(ks)-1] = w.fresh()
			}
		}
		c.Signers = vC05LifeSigners(ks)
	case "f":
		c.F = (c.F + 1 + uint64(r.Intn(2))) % uint64(len(c.Signers))
	case "version":
		c.ConfigVersion++
	case "digest":
		c.ConfigDigest = cciptypes.Bytes32{0xD1, w.ctr, byte(r.Intn(2))}
	case "contract":
		c.ContractAddress = []byte{0xC0, w.ctr}
	case "repver":
		c.RmnReportVersion = cciptypes.Bytes32{0x52, w.ctr}
	}
}

var vC05LifeAspects = []string{"signers", "f", "version", "digest", "contract", "repver", "vanish", "nodes", "offaddr", "onaddr"}

func TestVerif_C05_life(t *testing.T) {
	ctx := context.Background()
	r := vNewRand(vSeed() + 515)
	nHist := vEnvInt("VERIF_N", 60)
	sink := vOpenSink("C05_life")
	defer sink.Close()
	keccak := hashutil.NewKeccak()
	sources := []cciptypes.ChainSelector{1, 2, 3}
	ocrDigest := [32]byte{0x0C, 0x0D}
	const dbMax = 400
	for hidx := 0; hidx < nHist; hidx++ {
		enabled := !r.Chance(1, 7)
		max := vPick(r, []uint64{1, 2, 3})
		tree := vPick(r, []uint64{2, 4, 9})
		arrive := vPick(r, []int{0, 1, 2, 2})    // new messages per chain and round: up to this many (0 = the lanes are quiet)
		txOdds := vPick(r, []int{0, 1, 2, 2, 3}) // a generated report reaches the chain with probability txOdds/3 per round
		// ---- which aspects of the environment move in this history: one, two, or all
		var allowed []string
		profile := "one"
		switch r.Intn(10) {
		case 0, 1:
			profile = "two"
			allowed = []string{vPick(r, vC05LifeAspects), vPick(r, vC05LifeAspects)}
		case 2, 3:
			profile = "all"
			allowed = vC05LifeAspects
		case 4:
			profile = "none"
		default:
			allowed = []string{vPick(r, []string{"signers", "signers", "signers", "signers", "f", "f", "version", "digest", "digest", "contract", "repver", "vanish", "nodes", "offaddr", "offaddr", "onaddr"})}
		}
		if profile == "one" {
			profile = allowed[0]
		}
		// ---- the DON: 4 oracles, F = 1, every oracle reads every chain
		hc := vNewHomeChain()
		idToPeer := map[commontypes.OracleID]ragep2ptypes.PeerID{}
		var peers []ragep2ptypes.PeerID
		for o := 0; o < 4; o++ {
			idToPeer[commontypes.OracleID(o)] = vPeer(o)
			peers = append(peers, vPeer(o))
		}
		hc.SetChain(vC05KnownDest, 1, peers)
		for _, k := range sources {
			hc.SetChain(k, 1, peers)
		}
		off := map[cciptypes.ChainSelector]uint64{}
		on := map[cciptypes.ChainSelector]uint64{}
		for _, k := range sources {
			off[k] = uint64(r.Range(1, 20))
			on[k] = off[k] + uint64(r.Range(0, 6)) - 1
		}
		wc := &vC05LifeChainCfg{nextKey: byte(10 * r.Range(1, 5))}
		nk := r.Range(2, 3)
		var ks []byte
		for i := 0; i < nk; i++ {
			ks = append(ks, wc.fresh())
		}
		wc.cfg = rmntypes.RemoteConfig{ContractAddress: []byte{0xC0, 0}, ConfigDigest: cciptypes.Bytes32{0xD1, 0, byte(r.Intn(2))},
			Signers: vC05LifeSigners(ks), F: uint64(r.Intn(nk)), ConfigVersion: 1, RmnReportVersion: cciptypes.Bytes32{0x52, 0}}
		if r.Chance(1, 10) {
			wc.mutate(r, "vanish")
		}
		offAddr := []byte{0x0F, 0x01}
		offErr := false
		onAddrErr := map[cciptypes.ChainSelector]bool{}
		onEpoch := byte(0)
		onAddr := func(k cciptypes.ChainSelector) []byte { return []byte{byte(k), 0xAD, onEpoch} }
		rd := &vCCIPReader{
			MsgsFn: func(chain cciptypes.ChainSelector, rg cciptypes.SeqNumRange) ([]cciptypes.Message, error) {
				ms := []cciptypes.Message{}
				for q := uint64(rg.Start()); q <= uint64(rg.End()) && q <= dbMax; q++ {
					if q <= on[chain] {
						ms = append(ms, vC05ChainMsg(chain, q))
					}
				}
				return ms, nil
			},
			AddrFn: func(name string, chain cciptypes.ChainSelector) ([]byte, error) {
				if name == consts.ContractNameOffRamp {
					if offErr {
						return nil, vErrNext()
					}
					return append([]byte{}, offAddr...), nil
				}
				if onAddrErr[chain] {
					return nil, vErrNext()
				}
				return onAddr(chain), nil
			},
			NextSeqNumFn: func(chains []cciptypes.ChainSelector) ([]cciptypes.SeqNum, error) {
				out := make([]cciptypes.SeqNum, len(chains))
				for i, c := range chains {
					out[i] = cciptypes.SeqNum(off[c])
				}
				return out, nil
			},
			ExpectedNextFn: func(src, dst cciptypes.ChainSelector) (cciptypes.SeqNum, error) {
				return cciptypes.SeqNum(on[src] + 1), nil
			},
			RMNRemoteFn: func(cciptypes.ChainSelector) (rmntypes.RemoteConfig, error) { return wc.cfg, nil },
		}
		net := &vC05LifeNet{reg: map[[32]byte]cciptypes.RMNReport{}}
		// ---- the long-lived instances: built ONCE per history
		ctrls := make([]*vC05LifeCtrl, 4)
		cryptos := make([]*vC05LifeCrypto, 4)
		procs := make([]*Processor, 4)
		for o := 0; o < 4; o++ {
			ctrls[o] = &vC05LifeCtrl{net: net}
			cryptos[o] = &vC05LifeCrypto{}
			oid := commontypes.OracleID(o)
			procs[o] = NewProcessor(oid, idToPeer, mocks.NullLogger,
				pluginconfig.CommitOffchainConfig{RMNEnabled: enabled, MaxMerkleTreeSize: tree, MaxReportTransmissionCheckAttempts: uint(max), RMNSignaturesTimeout: time.Second},
				vC05KnownDest, hc, rd, vC05IdHasher{},
				ocr3types.ReportingPluginConfig{F: 1, N: 4, OracleID: oid, ConfigDigest: ocrDigest},
				plugincommon.NewChainSupport(mocks.NullLogger, hc, idToPeer, oid, vC05KnownDest),
				ctrls[o], cryptos[o], vC05LifeHome{net: net})
		}
		// a separate, unjudged observer computes the true roots for the RMN side and the Byzantine leader
		side := NewProcessor(3, idToPeer, mocks.NullLogger, pluginconfig.CommitOffchainConfig{}, vC05KnownDest, hc, rd, vC05IdHasher{},
			ocr3types.ReportingPluginConfig{F: 1, N: 4, OracleID: 3}, plugincommon.NewChainSupport(mocks.NullLogger, hc, idToPeer, 3, vC05KnownDest), nil, nil, nil)
		var agreedHist []rmntypes.RemoteConfig  // every RMN config a previous outcome carried so far
		var pastBundles []*rmn.ReportSignatures // every bundle on which some oracle observed roots so far
		var pastMoveAt []int                    // value of moveCtr when that bundle was accepted
		moveCtr := 0                            // how many times the environment moved so far in this history
		prev := Outcome{}
		rounds := r.Range(8, 16)
		buildingSeen := 0
		for rd0 := 0; rd0 < rounds; rd0++ {
			tm := vC03Terms{in: vNewIntern(), dest: vC05KnownDest}
			hid := func(b [32]byte) uint64 { return tm.in.Id("h:" + hex.EncodeToString(b[:])) }
			zeroID := hid(keccak.ZeroHash())
			prev = vC03Wire(prev)
			st := prev.NextState()
			// ---- the environment moves between the rounds
			for _, k := range sources {
				if on[k]+3 < dbMax {
					on[k] += uint64(r.Intn(arrive + 1))
				}
			}
			moved := ""
			if rd0 > 0 && len(allowed) > 0 && r.Bool() {
				for _, a := range allowed {
					if len(allowed) > 1 && !r.Bool() {
						continue
					}
					moved += "," + a
					moveCtr++
					switch a {
					case "nodes":
						net.nodeEpoch++
					case "offaddr":
						offAddr[1]++
					case "onaddr":
						onEpoch++
					default:
						wc.mutate(r, a)
					}
				}
			}
			net.ifail = 0
			if r.Chance(1, 10) {
				net.ifail = 1 + r.Intn(2)
			}
			offErr = r.Chance(1, 30)
			onAddrErr = map[cciptypes.ChainSelector]bool{}
			if r.Chance(1, 25) {
				onAddrErr[vPick(r, sources)] = true
			}
			if !prev.RMNRemoteCfg.IsEmpty() {
				agreedHist = append(agreedHist, prev.RMNRemoteCfg)
			}
			agreed := prev.RMNRemoteCfg
			trueRoots := side.observer.ObserveMerkleRoots(ctx, prev.RangesSelectedForReport)
			sort.Slice(trueRoots, func(a, b int) bool { return trueRoots[a].ChainSel < trueRoots[b].ChainSel })
			net.trueRoots = trueRoots
			for o := 0; o < 4; o++ {
				*cryptos[o] = vC05LifeCrypto{}
				ctrls[o].inits, ctrls[o].calls, ctrls[o].reqs, ctrls[o].cfg = nil, 0, nil, rmntypes.RemoteConfig{}
			}
			connBefore := make([]cciptypes.Bytes32, 4)
			for o := 0; o < 4; o++ {
				connBefore[o] = ctrls[o].conn
			}
			lidx := rd0 % 4
			// ---- leader
			var q Query
			var leadTerm, leadOut, lcls string
			leaderFailed := false
			honest := r.Chance(9, 20)
			if st != BuildingReport {
				honest = r.Chance(7, 10)
			}
			if honest {
				net.mode = vPick(r, []string{"sigs", "sigs", "sigs", "sigs", "sigs", "sigs", "sigs-other", "sigs-subset", "timeout", "err"})
				code := 0
				func() {
					defer func() {
						if rec := recover(); rec != nil {
							code = 2
						}
					}()
					var err error
					q, err = procs[lidx].Query(ctx, prev)
					if err != nil {
						code = 1
					}
				}()
				c := ctrls[lidx]
				ctrlTerm := "CtrlErr"
				if net.mode == "timeout" {
					ctrlTerm = "CtrlTimeout"
				}
				reqT := cNone()
				if c.calls > 0 {
					reqT = cSome(cPair(cMap(c.reqs, func(u *rmnpb.FixedDestLaneUpdateRequest) string {
						return cTup(cN(u.LaneSource.SourceChainSelector), tm.addr(u.LaneSource.OnrampAddress), cN(u.ClosedInterval.MinMsgNr), cN(u.ClosedInterval.MaxMsgNr))
					}), tm.cfg(c.cfg)))
					if c.calls > 1 {
						code = 2
					}
				}
				if strings.HasPrefix(net.mode, "sigs") {
					// what the RMN side answers (or would answer: the model needs it only when the controller is asked)
					b := q.RMNSignatures
					if b == nil {
						b = &rmn.ReportSignatures{}
					}
					bt := tm.query(Query{RMNSignatures: b})[len("(mkQuery false (Some "):]
					ctrlTerm = cApp("CtrlSigs", bt[:len(bt)-2])
				}
				lcls = "honest-" + net.mode
				leadTerm = cApp("LHonest", ctrlTerm)
				qT := cNone()
				if code == 0 {
					qT = cSome(tm.query(q))
				} else {
					leaderFailed = true
				}
				initT := cNone()
				if len(c.inits) > 0 {
					initT = cSome(cPair(tm.h32(c.inits[0].digest), cN(tm.in.Id(c.inits[0].key))))
					if len(c.inits) > 1 {
						code = 2
					}
				}
				leadOut = cTup(cNi(code), qT, reqT, initT)
			} else {
				q = Query{RetryRMNSignatures: r.Chance(1, 8)}
				kind := "absent"
				withBundle := r.Chance(1, 4)
				if st == BuildingReport {
					withBundle = r.Chance(14, 15)
				}
				if withBundle {
					cur := vC05LifeKeys(agreed)
					curSet := map[byte]bool{}
					for _, k := range cur {
						curSet[k] = true
					}
					var removed, future []byte
					for _, c := range agreedHist {
						for _, k := range vC05LifeKeys(c) {
							if !curSet[k] && !bytes.Contains(removed, []byte{k}) {
								removed = append(removed, k)
							}
						}
					}
					for _, k := range wc.retired {
						if !curSet[k] && !bytes.Contains(removed, []byte{k}) && len(removed) == 0 {
							removed = append(removed, k)
						}
					}
					for _, k := range vC05LifeKeys(wc.cfg) {
						if !curSet[k] {
							future = append(future, k)
						}
					}
					foreign := []byte{0xF0, 0xF1}
					skind := vPick(r, []string{"current", "current", "current", "removed", "removed", "removed", "future", "future", "mixed", "foreign", "few", "none", "replayed", "replayed"})
					// an accepted bundle of an earlier round, replayed after the environment moved: sampled on purpose (2 in 5 of the
					// building rounds in which such a bundle exists), it is what a memo of verification results would let through
					var stale []int
					for i, at := range pastMoveAt {
						if at < moveCtr {
							stale = append(stale, i)
						}
					}
					afterMove := false
					if st == BuildingReport && len(stale) > 0 && r.Chance(2, 5) {
						skind, afterMove = "replayed", true
					}
					if skind == "replayed" && len(pastBundles) == 0 {
						skind = "current"
					}
					var keys []byte
					switch skind {
					case "current":
						keys = cur
					case "removed":
						keys = removed
						if len(keys) == 0 {
							skind, keys = "foreign", foreign
						}
					case "future":
						keys = future
						if len(keys) == 0 {
							skind, keys = "foreign", foreign
						}
					case "mixed":
						other := foreign
						if len(removed) > 0 {
							other = removed
						}
						if len(cur) > 0 {
							keys = []byte{cur[0], other[0]}
						} else {
							keys = other
						}
					case "foreign":
						keys = foreign
					case "few":
						if uint64(len(cur)) >= agreed.F {
							keys = cur[:agreed.F]
						}
					}
					rkind := vPick(r, []string{"agreed", "agreed", "agreed", "agreed", "earlier", "onchain"})
					rcfg := agreed
					switch rkind {
					case "earlier":
						if len(agreedHist) > 0 {
							rcfg = agreedHist[r.Intn(len(agreedHist))]
						}
					case "onchain":
						rcfg = wc.cfg
					}
					lkind := vPick(r, []string{"matching", "matching", "matching", "matching", "other", "subset"})
					rs := &rmn.ReportSignatures{}
					drop := r.Intn(3)
					for i, rt := range trueRoots {
						if lkind == "subset" && i == drop%len(trueRoots) {
							continue
						}
						x := rt
						if lkind == "other" {
							x.MerkleRoot[7] ^= 0x5A
						}
						rs.LaneUpdates = append(rs.LaneUpdates, vC03Lane(x))
					}
					if lkind == "other" && len(trueRoots) == 0 {
						rs.LaneUpdates = append(rs.LaneUpdates, vC03Lane(vC03Root(r, 1, 1, 2)))
					}
					rep, _ := vC05LifeReport(rcfg, vC05KnownDest, offAddr, rs.LaneUpdates)
					rs.Signatures = net.sign(keys, rep)
					if skind == "replayed" { // signatures of a bundle that was accepted in an earlier round, around this round's lanes or verbatim
						old := pastBundles[r.Intn(len(pastBundles))]
						verbatim := r.Bool()
						if afterMove {
							old = pastBundles[stale[r.Intn(len(stale))]]
							verbatim = r.Chance(2, 3)
							skind = "replayed-after-move"
						}
						rs.Signatures = old.Signatures
						rkind = "-"
						if verbatim {
							rs.LaneUpdates = old.LaneUpdates
							lkind = "replayed"
						}
						// what makes the replayed signatures stale NOW: which parts of the report they were made over differ from
						// the report of this round, and whether their keys are still signers of the agreed config
						var diff []string
						if len(old.Signatures) > 0 && old.Signatures[0] != nil && len(old.Signatures[0].S) == 32 {
							var tag [32]byte
							copy(tag[:], old.Signatures[0].S)
							was, known := net.reg[tag]
							now, _ := vC05LifeReport(agreed, vC05KnownDest, offAddr, rs.LaneUpdates)
							if known {
								if was.ReportVersionDigest != now.ReportVersionDigest {
									diff = append(diff, "repver")
								}
								if !bytes.Equal(was.RmnRemoteContractAddress, now.RmnRemoteContractAddress) {
									diff = append(diff, "contract")
								}
								if !bytes.Equal(was.OfframpAddress, now.OfframpAddress) {
									diff = append(diff, "offramp")
								}
								if was.RmnHomeContractConfigDigest != now.RmnHomeContractConfigDigest {
									diff = append(diff, "digest")
								}
								a, b := cciptypes.RMNReport{LaneUpdates: was.LaneUpdates}, cciptypes.RMNReport{LaneUpdates: now.LaneUpdates}
								if vC05LifeRepKey(a) != vC05LifeRepKey(b) {
									diff = append(diff, "lanes")
								}
							}
							for _, sg := range old.Signatures {
								if sg != nil && len(sg.R) == 32 && !curSet[sg.R[0]] {
									diff = append(diff, "signers")
									break
								}
							}
						}
						if len(diff) == 0 {
							skind += "(still-valid)"
						} else {
							skind += "(stale:" + strings.Join(diff, "+") + ")"
						}
					}
					if r.Chance(1, 25) {
						rs.Signatures = append(rs.Signatures, nil)
						skind += "+nil"
					}
					q.RMNSignatures = rs
					kind = "keys-" + skind + "/report-" + rkind + "/lanes-" + lkind
				}
				lcls = "byz-" + kind
				if q.RetryRMNSignatures {
					lcls += "+retry"
				}
				leadTerm = cApp("LByz", tm.query(q))
				leadOut = cTup(cNi(0), cSome(tm.query(q)), cNone(), cNone())
			}
			leaderInits := len(ctrls[lidx].inits)
			// ---- oracles: the SAME processors as in every earlier round of this history
			restOut := cNone()
			var out Outcome
			haveOut := false
			var co consensusObservation
			var cerr error = vErrNext()
			rootsObserved := 0
			outDiffers := false
			if !leaderFailed {
				var obsL, validT []string
				var aos, validAos []plugincommon.AttributedObservation[Observation]
				for o := 0; o < 4; o++ {
					var ob Observation
					code := 0
					func() {
						defer func() {
							if rec := recover(); rec != nil {
								code = 2
							}
						}()
						var err error
						ob, err = procs[o].Observation(ctx, prev, q)
						if err != nil {
							code = 1
						}
					}()
					sort.Slice(ob.MerkleRoots, func(a, b int) bool { return ob.MerkleRoots[a].ChainSel < ob.MerkleRoots[b].ChainSel })
					sort.Slice(ob.OnRampMaxSeqNums, func(a, b int) bool { return ob.OnRampMaxSeqNums[a].ChainSel < ob.OnRampMaxSeqNums[b].ChainSel })
					sort.Slice(ob.OffRampNextSeqNums, func(a, b int) bool { return ob.OffRampNextSeqNums[a].ChainSel < ob.OffRampNextSeqNums[b].ChainSel })
					if len(ob.MerkleRoots) > 0 {
						rootsObserved++
					}
					call := cNone()
					if c := cryptos[o]; c.calls > 0 {
						call = cSome(cTup(cMap(c.sigs, tm.sig), vC05LifeRepTerm(tm, c.rep), cMap(c.addrs, func(a cciptypes.UnknownAddress) string { return tm.addr(a) })))
						if c.calls > 1 {
							code = 2 // verified twice: not expressible, shows as a mismatch and a violation
						}
					}
					initT := cNone()
					mine := ctrls[o].inits
					if o == lidx {
						mine = mine[leaderInits:]
					}
					if len(mine) > 0 {
						initT = cSome(cPair(tm.h32(mine[0].digest), cN(tm.in.Id(mine[0].key))))
						if len(mine) > 1 {
							code = 2
						}
					}
					obsL = append(obsL, cTup(cNi(code), call, vC05ObsTerm(tm, ob), initT))
					aos = append(aos, plugincommon.AttributedObservation[Observation]{OracleID: commontypes.OracleID(o), Observation: ob})
				}
				for o := 0; o < 4; o++ {
					ok := false
					func() {
						defer func() { _ = recover() }()
						ok = procs[0].ValidateObservation(prev, q, aos[o]) == nil
					}()
					validT = append(validT, cBool(ok))
					if ok {
						validAos = append(validAos, aos[o])
					}
				}
				outT := cNone()
				if len(validAos) >= 3 { // libocr calls Outcome on a quorum (2F+1) of valid observations only
					co, cerr = getConsensusObservation(mocks.NullLogger, 1, vC05KnownDest, validAos)
					// every oracle computes the outcome, on its own long-lived processor; the judged one is oracle 0's
					// unless another oracle's differs (then that one, so that the difference is seen)
					for o := 0; o < 4; o++ {
						var o2 Outcome
						term := ""
						func() {
							defer func() {
								if rec := recover(); rec != nil {
									term = cApp("mkOutcome", cZ(-77), "[]", "[]", "[]", cN(0), "[]", cPair(cN(0), cN(0)))
								}
							}()
							var err error
							o2, err = procs[o].Outcome(ctx, prev, q, validAos)
							if err != nil {
								panic(err)
							}
							o2 = vC03Wire(o2)
							term = tm.outcome(o2)
						}()
						if o == 0 {
							out, haveOut = o2, true
							outT = cSome(term)
						} else if cSome(term) != outT && !outDiffers {
							outDiffers = true
							outT = cSome(term)
						}
					}
				}
				restOut = cSome(cTup(cList(obsL), cList(validT), outT))
			}
			connAfter := make([]string, 4)
			connB := make([]string, 4)
			for o := 0; o < 4; o++ {
				connAfter[o] = tm.h32(ctrls[o].conn)
				connB[o] = tm.h32(connBefore[o])
			}
			// ---- input term
			detail := cApp("mkDetail",
				cMap(agreed.Signers, func(s rmntypes.RemoteSignerInfo) string { return tm.addr(s.OnchainPublicKey) }),
				tm.addr(agreed.ContractAddress), tm.h32(agreed.ConfigDigest), tm.h32(agreed.RmnReportVersion))
			offT := cSome(tm.addr(offAddr))
			if offErr {
				offT = cNone()
			}
			var onrL, ansL []string
			for _, k := range sources {
				if !onAddrErr[k] {
					onrL = append(onrL, cPair(cN(uint64(k)), tm.addr(onAddr(k))))
				}
			}
			type triple struct{ a, b, c uint64 }
			var tbl []triple
			seenT := map[[2]uint64]bool{}
			seenK := map[cciptypes.ChainSelector]bool{}
			for _, cr := range prev.RangesSelectedForReport {
				if seenK[cr.ChainSel] {
					continue
				}
				seenK[cr.ChainSel] = true
				ms, _ := rd.MsgsFn(cr.ChainSel, cr.SeqNumRange)
				ansL = append(ansL, cPair(cN(uint64(cr.ChainSel)), cSome(cMap(ms, func(m cciptypes.Message) string {
					return cTup(cN(uint64(m.Header.SequenceNumber)), cN(uint64(m.Header.SourceChainSelector)), cSome(cN(hid(m.Header.MessageID))))
				}))))
				var layer [][32]byte
				for _, m := range ms {
					layer = append(layer, m.Header.MessageID)
				}
				for len(layer) > 1 {
					if len(layer)%2 == 1 {
						layer = append(append([][32]byte{}, layer...), keccak.ZeroHash())
					}
					var next [][32]byte
					for j := 0; j < len(layer); j += 2 {
						c := keccak.HashInternal(layer[j], layer[j+1])
						key := [2]uint64{hid(layer[j]), hid(layer[j+1])}
						if !seenT[key] {
							seenT[key] = true
							tbl = append(tbl, triple{key[0], key[1], hid(c)})
						}
						next = append(next, c)
					}
					layer = next
				}
			}
			supT := cSome(cList([]string{cN(uint64(vC05KnownDest)), cN(1), cN(2), cN(3)}))
			rootsSide := cTup(supT, cList(ansL), cN(zeroID), cMap(tbl, func(x triple) string { return cPair(cPair(cN(x.a), cN(x.b)), cN(x.c)) }))
			var wonL, woffL []string
			for _, k := range sources {
				wonL = append(wonL, cPair(cN(uint64(k)), cN(on[k])))
				woffL = append(woffL, cPair(cN(uint64(k)), cN(off[k])))
			}
			// the signature table of the round: every well-formed signature of the query
			var tabL []string
			if q.RMNSignatures != nil {
				seen := map[string]bool{}
				for _, s := range q.RMNSignatures.Signatures {
					if s == nil || len(s.R) != 32 || len(s.S) != 32 {
						continue
					}
					var rr, ss [32]byte
					copy(rr[:], s.R)
					copy(ss[:], s.S)
					id := tm.sig(cciptypes.RMNECDSASignature{R: rr, S: ss})
					if seen[id] {
						continue
					}
					seen[id] = true
					repT := cNone()
					if rep, ok := net.reg[ss]; ok {
						repT = cSome(vC05LifeRepTerm(tm, rep))
					}
					tabL = append(tabL, cPair(id, cPair(tm.addr(vC05LifeKeyAddr(rr[0])), repT)))
				}
			}
			nodesT := cN(0)
			if !agreed.IsEmpty() {
				nodesT = cN(tm.in.Id(vC05LifeNodesKey(ocrDigest, peers, net.nodesFor(agreed.ConfigDigest))))
			}
			lifeX := cTup(cNi(lidx), cList(connB), cNi(net.ifail), nodesT, cList(tabL))
			input := cTup(cBool(enabled), cN(max), cN(tree), tm.outcome(prev), detail, cN(uint64(vC05KnownDest)), offT, cList(onrL),
				leadTerm, rootsSide, cList(wonL), cList(woffL), tm.cfg(wc.cfg), cBool(true), tm.cons(co, cerr), lifeX)
			stName := map[State]string{SelectingRangesForReport: "selecting", BuildingReport: "building", WaitingForReportTransmission: "waiting"}[st]
			cls := stName
			if st == BuildingReport {
				buildingSeen++
				cls = fmt.Sprintf("building#%d", vMinInt(buildingSeen, 4)) + "/" + lcls
			} else if strings.HasPrefix(lcls, "byz-keys") {
				cls += "/byz-bundle"
			}
			cls = "moves:" + profile + "/" + cls
			if !enabled {
				cls = "rmn-off/" + stName
			}
			sink.Emit("C05_life", cls, enabled && st == BuildingReport, cPair(input, cTup(leadOut, restOut, cList(connAfter))),
				map[string]any{"history": hidx, "round": rd0, "enabled": enabled, "state": int(st), "leader": lcls, "profile": profile, "moved": moved,
					"ifail": net.ifail, "agreed_signers": fmt.Sprintf("%x", vC05LifeKeys(agreed)), "agreed_F": agreed.F, "agreed_version": agreed.ConfigVersion,
					"agreed_digest": hex.EncodeToString(agreed.ConfigDigest[:3]), "onchain_signers": fmt.Sprintf("%x", vC05LifeKeys(wc.cfg)),
					"oracles_observing_roots": rootsObserved, "haveOutcome": haveOut,
					"roots_out": len(out.RootsToReport), "sigs_out": len(out.RMNReportSignatures), "type_out": int(out.OutcomeType)})
			if rootsObserved > 0 && q.RMNSignatures != nil {
				pastBundles = append(pastBundles, q.RMNSignatures)
				pastMoveAt = append(pastMoveAt, moveCtr)
			}
			if !haveOut {
				continue // leader failed / no quorum: libocr starts another round on the same previous outcome
			}
			// the report is transmitted some time after it was generated
			if out.OutcomeType == ReportGenerated || prev.OutcomeType == ReportGenerated || out.OutcomeType == ReportInFlight {
				if r.Chance(txOdds, 3) {
					for _, rt := range out.RootsToReport {
						off[rt.ChainSel] = uint64(rt.SeqNumsRange.End()) + 1
					}
					if len(out.RootsToReport) == 0 {
						for _, rt := range prev.RootsToReport {
							off[rt.ChainSel] = uint64(rt.SeqNumsRange.End()) + 1
						}
					}
				}
			}
			prev = out
		}
	}
}

func vMinInt(a, b int) int {
	if a < b {
		return a
	}
	return b
}

func vC05LifeRepTerm(tm vC03Terms, rep cciptypes.RMNReport) string {
	lanes := cMap(rep.LaneUpdates, func(l cciptypes.RMNLaneUpdate) string {
		return cTup(cN(uint64(l.SourceChainSelector)), cPair(cN(uint64(l.MinSeqNr)), cN(uint64(l.MaxSeqNr))), tm.addr(l.OnRampAddress), tm.h32(l.MerkleRoot))
	})
	return cTup(tm.h32(rep.ReportVersionDigest), cN(uint64(rep.DestChainSelector)), tm.addr(rep.RmnRemoteContractAddress),
		tm.addr(rep.OfframpAddress), tm.h32(rep.RmnHomeContractConfigDigest), lanes)
}

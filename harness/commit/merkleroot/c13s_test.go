//go:build verif

package merkleroot

import (
	"context"
	"fmt"
	"testing"
	"time"

	mapset "github.com/deckarep/golang-set/v2"
	"github.com/smartcontractkit/libocr/commontypes"

	"github.com/smartcontractkit/chainlink-ccip/commit/merkleroot/rmn"
	"github.com/smartcontractkit/chainlink-ccip/commit/merkleroot/rmn/rmnpb"
	rmntypes "github.com/smartcontractkit/chainlink-ccip/commit/merkleroot/rmn/types"
	"github.com/smartcontractkit/chainlink-ccip/internal/mocks"
	"github.com/smartcontractkit/chainlink-ccip/internal/plugintypes"
	cciptypes "github.com/smartcontractkit/chainlink-ccip/pkg/types/ccipocr3"
	"github.com/smartcontractkit/chainlink-ccip/pluginconfig"
)

// C13 directed site classes, package commit/merkleroot (coq/Model/PanicSites2.v): the query's RMN signature bundle
// (nil bundle / nil entries / short roots) against verifyQuery and buildReport, and the reader answers whose length
// must equal the number of chains asked about. Case = (site input, 0 returned / 1 error / 2 panicked / 3 hung).

func vC13sRun(f func() error) (int, string) {
	var err error
	code, what := vGuard(3*time.Second, func() { err = f() })
	if code == 0 && err != nil {
		return 1, err.Error()
	}
	return code, what
}

func vC13sNat(n int) string { return fmt.Sprintf("%d%%nat", n) }

type vC13sSupport struct{}

func (vC13sSupport) DestChain() cciptypes.ChainSelector { return vC13sDest }
func (vC13sSupport) SupportedChains(commontypes.OracleID) (mapset.Set[cciptypes.ChainSelector], error) {
	return mapset.NewSet[cciptypes.ChainSelector](vC13sDest, 5, 7, 9), nil
}
func (vC13sSupport) SupportsDestChain(commontypes.OracleID) (bool, error) { return true, nil }
func (vC13sSupport) KnownSourceChainsSlice() ([]cciptypes.ChainSelector, error) {
	return append([]cciptypes.ChainSelector{}, vC13sKnown...), nil
}

var vC13sKnown []cciptypes.ChainSelector

const vC13sDest = cciptypes.ChainSelector(5009297550715157269) // a selector chainsel knows (verifyQuery looks it up)

type vC13sCrypto struct{}

func (vC13sCrypto) VerifyReportSignatures(context.Context, []cciptypes.RMNECDSASignature, cciptypes.RMNReport, []cciptypes.UnknownAddress) error {
	return nil
}

type vC13sSig struct {
	isNil  bool
	lr, ls int
}
type vC13sLane struct {
	luNil, srcNil, ivNil bool
	lroot                int
}

func (s vC13sSig) pb() *rmnpb.EcdsaSignature {
	if s.isNil {
		return nil
	}
	return &rmnpb.EcdsaSignature{R: make([]byte, s.lr), S: make([]byte, s.ls)}
}
func (s vC13sSig) coq() string { return cTup(cBool(s.isNil), vC13sNat(s.lr), vC13sNat(s.ls)) }
func (l vC13sLane) pb() *rmnpb.FixedDestLaneUpdate {
	if l.luNil {
		return nil
	}
	lu := &rmnpb.FixedDestLaneUpdate{Root: make([]byte, l.lroot)}
	if l.lroot == 0 {
		lu.Root = nil
	}
	if !l.srcNil {
		lu.LaneSource = &rmnpb.LaneSource{SourceChainSelector: 5, OnrampAddress: []byte{5, 0xAA}}
	}
	if !l.ivNil {
		lu.ClosedInterval = &rmnpb.ClosedInterval{MinMsgNr: 10, MaxMsgNr: 12}
	}
	return lu
}
func (l vC13sLane) coq() string {
	return cTup(cBool(l.luNil), cBool(l.srcNil), cBool(l.ivNil), vC13sNat(l.lroot))
}

func TestVerif_C13_sites_merkleroot(t *testing.T) {
	ctx := context.Background()
	sink := vOpenSink("C13_sites_merkleroot")
	defer sink.Close()
	emit := func(cls, in string, code int, what string, show map[string]any) {
		show["code"], show["panic"] = code, what
		sink.Emit("C13_sites_merkleroot", cls, true, cPair(in, cNi(code)), show)
	}
	goodSig, goodLane := vC13sSig{lr: 32, ls: 32}, vC13sLane{lroot: 32}
	cfg := rmntypes.RemoteConfig{ContractAddress: []byte{1}, ConfigDigest: cciptypes.Bytes32{1}, F: 1,
		Signers: []rmntypes.RemoteSignerInfo{{OnchainPublicKey: []byte{1}, NodeIndex: 0}, {OnchainPublicKey: []byte{2}, NodeIndex: 1}}, RmnReportVersion: cciptypes.Bytes32{3}}

	// ---- site verify-query: shouldSkipRMNVerification rules before q.RMNSignatures.Signatures
	for _, building := range []bool{true, false} {
		for _, retry := range []bool{true, false} {
			for _, hasSigs := range []bool{true, false} {
				for _, cfgEmpty := range []bool{true, false} {
					w := &Processor{offchainCfg: pluginconfig.CommitOffchainConfig{RMNEnabled: true}, destChain: vC13sDest, lggr: mocks.NullLogger,
						ccipReader: &vCCIPReader{}, rmnCrypto: vC13sCrypto{}}
					prev := Outcome{OutcomeType: ReportGenerated}
					if building {
						prev.OutcomeType = ReportIntervalsSelected
					}
					if !cfgEmpty {
						prev.RMNRemoteCfg = cfg
					}
					q := Query{RetryRMNSignatures: retry}
					if hasSigs {
						q.RMNSignatures = &rmn.ReportSignatures{Signatures: []*rmnpb.EcdsaSignature{goodSig.pb()}, LaneUpdates: []*rmnpb.FixedDestLaneUpdate{goodLane.pb()}}
					}
					code, what := vC13sRun(func() error { return w.verifyQuery(ctx, prev, q) })
					emit("verify-query", cApp("SVerifyQuery", cBool(building), cBool(retry), cBool(hasSigs), cBool(cfgEmpty)), code, what,
						map[string]any{"building": building, "retry": retry, "has_sigs": hasSigs, "cfg_empty": cfgEmpty})
				}
			}
		}
	}

	// ---- site bundle: the bundle's entries through verifyQuery (RMN enabled) and buildReport (Outcome)
	sigs := []vC13sSig{goodSig, {isNil: true}, {lr: 0, ls: 32}, {lr: 31, ls: 32}, {lr: 33, ls: 32}, {lr: 32, ls: 0}, {lr: 32, ls: 31}, {lr: 32, ls: 33}, {lr: 64, ls: 64}}
	lanes := []vC13sLane{goodLane, {luNil: true}, {srcNil: true, lroot: 32}, {ivNil: true, lroot: 32}, {srcNil: true, ivNil: true, lroot: 32},
		{lroot: 0}, {lroot: 5}, {lroot: 31}, {lroot: 33}, {lroot: 64}}
	for _, nilBundle := range []bool{false, true} {
		for si, s := range sigs {
			for li, l := range lanes {
				if nilBundle && (si > 0 || li > 0) {
					continue
				}
				mkQ := func() Query {
					if nilBundle {
						return Query{}
					}
					// the entry under test sits behind a good one
					return Query{RMNSignatures: &rmn.ReportSignatures{Signatures: []*rmnpb.EcdsaSignature{goodSig.pb(), s.pb()},
						LaneUpdates: []*rmnpb.FixedDestLaneUpdate{goodLane.pb(), l.pb()}}}
				}
				in := cTup(cBool(nilBundle), s.coq(), l.coq())
				show := func() map[string]any { return map[string]any{"nil_bundle": nilBundle, "sig": fmt.Sprint(s), "lane": fmt.Sprint(l)} }
				w := &Processor{offchainCfg: pluginconfig.CommitOffchainConfig{RMNEnabled: true}, destChain: vC13sDest, lggr: mocks.NullLogger,
					ccipReader: &vCCIPReader{}, rmnCrypto: vC13sCrypto{}}
				prev := Outcome{OutcomeType: ReportIntervalsSelected, RMNRemoteCfg: cfg}
				code, what := vC13sRun(func() error { return w.verifyQuery(ctx, prev, mkQ()) })
				emit("bundle/verify-query", cApp("SBundleVerify", in), code, what, show())
				code, what = vC13sRun(func() error { _ = buildReport(mkQ(), mocks.NullLogger, consensusObservation{}, prev); return nil })
				emit("bundle/build-report", cApp("SBundleBuild", in), code, what, show())
			}
		}
	}

	// ---- site zip/1: ValidateMerkleRootsState — len(answers) != len(chains) before chainSlice[i]
	// ---- site zip/2: ObserveOffRampNextSeqNums — len(answers) != len(sourceChains) before offRampNextSeqNums[i]
	for _, n := range []int{1, 2, 3, 5} {
		for _, d := range []int{-2, -1, 0, 1, 2} {
			m := n + d // answers
			if m < 0 {
				continue
			}
			rd := &vCCIPReader{NextSeqNumFn: func(chains []cciptypes.ChainSelector) ([]cciptypes.SeqNum, error) {
				out := make([]cciptypes.SeqNum, m)
				for i := range out {
					out[i] = 10
				}
				return out, nil
			}}
			var roots []cciptypes.MerkleRootChain
			vC13sKnown = nil
			for i := 0; i < n; i++ {
				roots = append(roots, cciptypes.MerkleRootChain{ChainSel: cciptypes.ChainSelector(5 + 2*i), SeqNumsRange: cciptypes.NewSeqNumRange(10, 12)})
				vC13sKnown = append(vC13sKnown, cciptypes.ChainSelector(5+2*i))
			}
			code, what := vC13sRun(func() error { return ValidateMerkleRootsState(ctx, roots, rd) })
			emit("zip1/validate-roots-state", cApp("SZip", cN(1), vC13sNat(m), vC13sNat(n)), code, what, map[string]any{"chains": n, "answers": m})
			o := observerImpl{lggr: mocks.NullLogger, nodeID: 1, chainSupport: vC13sSupport{}, ccipReader: rd}
			var res []plugintypes.SeqNumChain
			code, what = vC13sRun(func() error { res = o.ObserveOffRampNextSeqNums(ctx); return nil })
			emit("zip2/observe-offramp-next", cApp("SZip", cN(2), vC13sNat(n), vC13sNat(m)), code, what, map[string]any{"chains": n, "answers": m, "observed": len(res)})
		}
	}
}

//go:build verif

package merkleroot

import (
	"context"
	"encoding/hex"
	"math"
	"sort"
	"strconv"
	"testing"

	mapset "github.com/deckarep/golang-set/v2"
	"github.com/smartcontractkit/libocr/commontypes"
	"github.com/smartcontractkit/libocr/offchainreporting2plus/ocr3types"

	"github.com/smartcontractkit/chainlink-common/pkg/hashutil"

	rmntypes "github.com/smartcontractkit/chainlink-ccip/commit/merkleroot/rmn/types"
	"github.com/smartcontractkit/chainlink-ccip/internal/mocks"
	"github.com/smartcontractkit/chainlink-ccip/internal/plugincommon"
	"github.com/smartcontractkit/chainlink-ccip/internal/plugintypes"
	cciptypes "github.com/smartcontractkit/chainlink-ccip/pkg/types/ccipocr3"
	"github.com/smartcontractkit/chainlink-ccip/pluginconfig"
)

const vC02Dest = cciptypes.ChainSelector(900)
const vC02Max = uint64(math.MaxUint64)

// ---------------------------------------------------------------------------------------------------------------
// part rng: interval selection. Half of the cases call reportRangesOutcome with a constructed consensus
// observation, half go through Processor.Outcome with observation sets on which consensus yields the same maps.
// ---------------------------------------------------------------------------------------------------------------

type vC02Pair struct {
	k     uint64
	on    uint64
	off   uint64
	hasOn bool
	hasOf bool
	cls   string
}

func vC02GenPair(r *vRand, k, n uint64) vC02Pair {
	p := vC02Pair{k: k, hasOn: true, hasOf: true}
	p.cls = vPick(r, []string{"equal", "one-behind", "size-n-1", "size-n", "size-n+1", "big", "inverted", "zero",
		"near-max", "full", "no-on", "no-off", "random"})
	base := r.U64() >> uint(r.Intn(64))
	if base > vC02Max-1000 {
		base = vC02Max - 1000
	}
	nn := n
	if nn > 1<<40 {
		nn = 1 << 40
	}
	switch p.cls {
	case "equal": // exactly one message pending
		p.off, p.on = base, base
	case "one-behind": // nothing pending: on = off-1
		p.off, p.on = base+1, base
	case "size-n-1":
		p.off = base
		p.on = base + nn - 1
		if nn >= 2 {
			p.on = base + nn - 2
		}
	case "size-n":
		p.off, p.on = base, base+nn-1
		if nn == 0 {
			p.on = base
		}
	case "size-n+1":
		p.off, p.on = base, base+nn
	case "big":
		p.off = base
		p.on = base + nn + 1 + (r.U64()>>1)%(vC02Max-base-nn-1)
	case "inverted":
		p.on = base
		p.off = base + 2 + uint64(r.Intn(1000))
	case "zero":
		p.off, p.on = 0, uint64(r.Intn(4))
	case "near-max":
		p.off = vC02Max - uint64(r.Intn(300))
		p.on = p.off + uint64(r.Intn(int(vC02Max-p.off)+1))
	case "full":
		p.off, p.on = 0, vC02Max
	case "no-on":
		p.off, p.hasOn = base, false
	case "no-off":
		p.on, p.hasOf = base, false
	case "random":
		p.off, p.on = r.U64()>>uint(r.Intn(64)), r.U64()>>uint(r.Intn(64))
	}
	return p
}

func TestVerif_C02_ranges(t *testing.T) {
	ctx := context.Background()
	r := vNewRand(vSeed() + 202)
	n := vEnvInt("VERIF_N", 500)
	sink := vOpenSink("C02_rng")
	defer sink.Close()
	for i := 0; i < n; i++ {
		limit := vPick(r, []uint64{1, 2, 3, 16, 255, 256, 256, 256, 257, 300, 1000, 1 << 63, vC02Max})
		if r.Chance(1, 40) {
			limit = 0
		}
		nch := r.Range(0, 6)
		if r.Chance(1, 10) {
			nch = r.Range(7, 12)
		}
		keyPool := []uint64{1, 2, 3, 5, 8, 13, 900, 1 << 32, 1<<63 + 5, vC02Max, vC02Max - 1, 77, 4, 6, 7}
		perm := r.Perm(len(keyPool))
		var ps []vC02Pair
		clsHist := ""
		nPending := 0
		for c := 0; c < nch; c++ {
			p := vC02GenPair(r, keyPool[perm[c]], limit)
			ps = append(ps, p)
			if c < 3 {
				clsHist += p.cls + ","
			}
			if p.hasOn && p.hasOf && p.off <= p.on {
				nPending++
			}
		}
		onMap := map[cciptypes.ChainSelector]cciptypes.SeqNum{}
		offMap := map[cciptypes.ChainSelector]cciptypes.SeqNum{}
		// maps are filled in random key order (Go randomises iteration anyway)
		for _, idx := range r.Perm(len(ps)) {
			p := ps[idx]
			if p.hasOn {
				onMap[cciptypes.ChainSelector(p.k)] = cciptypes.SeqNum(p.on)
			}
			if p.hasOf {
				offMap[cciptypes.ChainSelector(p.k)] = cciptypes.SeqNum(p.off)
			}
		}
		viaOutcome := r.Bool()
		var out Outcome
		panicked := false
		func() {
			defer func() {
				if rec := recover(); rec != nil {
					panicked = true
				}
			}()
			if !viaOutcome {
				out = reportRangesOutcome(Query{}, mocks.NullLogger, consensusObservation{
					OnRampMaxSeqNums:   onMap,
					OffRampNextSeqNums: offMap,
					RMNRemoteConfig:    map[cciptypes.ChainSelector]rmntypes.RemoteConfig{},
				}, limit, vC02Dest)
				return
			}
			// four oracles, F = 1, fChain = 1 for every chain: 2f+1 = 3 identical votes are needed and given
			fChain := map[cciptypes.ChainSelector]int{vC02Dest: 1}
			for _, p := range ps {
				fChain[cciptypes.ChainSelector(p.k)] = 1
			}
			var aos []plugincommon.AttributedObservation[Observation]
			silent := r.Intn(5) // oracle 4 (if any) stays silent: three votes remain
			for o := 0; o < 4; o++ {
				obs := Observation{FChain: fChain}
				if o != silent {
					for _, idx := range r.Perm(len(ps)) {
						p := ps[idx]
						if p.hasOn {
							obs.OnRampMaxSeqNums = append(obs.OnRampMaxSeqNums, plugintypes.NewSeqNumChain(cciptypes.ChainSelector(p.k), cciptypes.SeqNum(p.on)))
						}
						if p.hasOf {
							obs.OffRampNextSeqNums = append(obs.OffRampNextSeqNums, plugintypes.NewSeqNumChain(cciptypes.ChainSelector(p.k), cciptypes.SeqNum(p.off)))
						}
					}
				}
				aos = append(aos, plugincommon.AttributedObservation[Observation]{OracleID: commontypes.OracleID(o), Observation: obs})
			}
			proc := &Processor{
				offchainCfg:  pluginconfig.CommitOffchainConfig{MaxMerkleTreeSize: limit, MaxReportTransmissionCheckAttempts: 5},
				destChain:    vC02Dest,
				lggr:         mocks.NullLogger,
				reportingCfg: ocr3types.ReportingPluginConfig{F: 1, N: 4},
			}
			prev := Outcome{OutcomeType: vPick(r, []OutcomeType{0, ReportEmpty, ReportTransmitted, ReportTransmissionFailed, 99, -1})}
			var err error
			out, err = proc.Outcome(ctx, prev, Query{}, aos)
			if err != nil {
				panicked = true
			}
		}()
		// canonical input: both maps as association lists sorted by key (the model is order independent, proved)
		sort.Slice(ps, func(a, b int) bool { return ps[a].k < ps[b].k })
		var onL, offL []string
		for _, p := range ps {
			if p.hasOn {
				onL = append(onL, cPair(cN(p.k), cN(p.on)))
			}
			if p.hasOf {
				offL = append(offL, cPair(cN(p.k), cN(p.off)))
			}
		}
		in := cTup(cList(onL), cList(offL), cN(limit))
		var outS string
		if panicked || out.OutcomeType != ReportIntervalsSelected {
			outS = cPair(cList([]string{cPair(cN(0), cPair(cN(0), cN(0)))}), cList([]string{"(0%N, 0%N)", "(0%N, 0%N)"})) // never a model answer
		} else {
			outS = cPair(
				cMap(out.RangesSelectedForReport, func(c plugintypes.ChainRange) string {
					return cPair(cN(uint64(c.ChainSel)), cPair(cN(uint64(c.SeqNumRange.Start())), cN(uint64(c.SeqNumRange.End()))))
				}),
				cMap(out.OffRampNextSeqNums, func(c plugintypes.SeqNumChain) string {
					return cPair(cN(uint64(c.ChainSel)), cN(uint64(c.SeqNum)))
				}))
		}
		cls := "direct:"
		if viaOutcome {
			cls = "outcome:"
		}
		if len(ps) > 0 {
			cls += ps[r.Intn(len(ps))].cls
		} else {
			cls += "nochains"
		}
		show := map[string]any{"maxTreeSize": limit, "viaOutcome": viaOutcome, "pairs": clsHist, "nchains": nch}
		sink.Emit("C02_rng", cls, nPending >= 1 && limit >= 1, cPair(in, outS), show)
	}
}

// ---------------------------------------------------------------------------------------------------------------
// part roots: observerImpl.ObserveMerkleRoots against a scripted reader / hasher / chain support
// ---------------------------------------------------------------------------------------------------------------

type vC02Support struct {
	sup []cciptypes.ChainSelector
	err bool
}

func (s vC02Support) DestChain() cciptypes.ChainSelector { return vC02Dest }
func (s vC02Support) SupportedChains(commontypes.OracleID) (mapset.Set[cciptypes.ChainSelector], error) {
	if s.err {
		return mapset.NewSet[cciptypes.ChainSelector](), vC02Err{}
	}
	return mapset.NewSet(s.sup...), nil
}
func (s vC02Support) SupportsDestChain(commontypes.OracleID) (bool, error) { return true, nil }
func (s vC02Support) KnownSourceChainsSlice() ([]cciptypes.ChainSelector, error) {
	return s.sup, nil
}

type vC02Err struct{}

func (vC02Err) Error() string { return "scripted" }

// hasher: the leaf hash is the message id; ids starting with 0xEE make the hasher fail
type vC02Hasher struct{}

func (vC02Hasher) Hash(_ context.Context, m cciptypes.Message) (cciptypes.Bytes32, error) {
	if m.Header.MessageID[0] == 0xEE {
		return cciptypes.Bytes32{}, vC02Err{}
	}
	return m.Header.MessageID, nil
}

type vC02Answer struct {
	err  bool
	msgs []cciptypes.Message // what the reader answers to a request for the interval of the case
	cls  string
	db   []cciptypes.Message // class honest-db: the reader holds these and answers every request with those inside it
}

func vC02Msg(r *vRand, seq uint64, src uint64) cciptypes.Message {
	var id cciptypes.Bytes32
	for b := 0; b < 32; b += 8 {
		x := r.U64()
		for j := 0; j < 8; j++ {
			id[b+j] = byte(x >> (8 * j))
		}
	}
	if id[0] == 0xEE {
		id[0] = 0xED
	}
	return cciptypes.Message{Header: cciptypes.RampMessageHeader{
		MessageID: id, SequenceNumber: cciptypes.SeqNum(seq), SourceChainSelector: cciptypes.ChainSelector(src),
		DestChainSelector: vC02Dest}}
}

// reader answer for the request (k, [s,e]); classes follow the quantifier of C02
func vC02GenAnswer(r *vRand, k, s, e uint64, force string) vC02Answer {
	cls := vPick(r, []string{"complete", "complete", "honest-db", "honest-db", "complete-unordered", "prefix", "suffix", "gap",
		"duplicate-extra", "duplicate-replace", "shifted-up", "shifted-down", "extra-above", "extra-below",
		"wrong-chain-one", "wrong-chain-all", "empty", "nil", "error", "hasher-error", "one-short-window",
		"shifted-unordered", "shifted-unordered", "shifted-unordered", "one-out-middle", "one-out-middle", "inner-duplicate", "inner-foreign"})
	if force != "" {
		cls = force
	}
	a := vC02Answer{cls: cls}
	var seqs []uint64
	if s <= e {
		cnt := e - s + 1
		if cnt == 0 || cnt > 2000 { // huge or full range: answer with a few messages at the start
			cnt = 3
		}
		for q := uint64(0); q < cnt; q++ {
			seqs = append(seqs, s+q)
		}
	} else {
		seqs = []uint64{e, e + 1, s} // inverted request: something around the bounds
	}
	mk := func(qs []uint64) []cciptypes.Message {
		var ms []cciptypes.Message
		for _, q := range qs {
			ms = append(ms, vC02Msg(r, q, k))
		}
		return ms
	}
	n := len(seqs)
	switch cls {
	case "complete":
		a.msgs = mk(seqs)
		if r.Bool() {
			p := r.Perm(n)
			sh := make([]cciptypes.Message, n)
			for i := range p {
				sh[i] = a.msgs[p[i]]
			}
			a.msgs = sh
		}
	case "honest-db":
		// an honest, complete reader: it holds every message of the interval and some around it, and answers a
		// request with exactly the messages whose sequence number lies inside the requested range
		var qs []uint64
		for d := uint64(2); d >= 1; d-- {
			if seqs[0] >= d {
				qs = append(qs, seqs[0]-d)
			}
		}
		qs = append(qs, seqs...)
		for d := uint64(1); d <= 2; d++ {
			if seqs[n-1] <= vC02Max-d {
				qs = append(qs, seqs[n-1]+d)
			}
		}
		a.db = mk(qs)
		if r.Chance(1, 3) {
			p := r.Perm(len(a.db))
			sh := make([]cciptypes.Message, len(a.db))
			for i := range p {
				sh[i] = a.db[p[i]]
			}
			a.db = sh
		}
		rg := cciptypes.NewSeqNumRange(cciptypes.SeqNum(s), cciptypes.SeqNum(e))
		a.msgs = []cciptypes.Message{}
		for _, m := range a.db {
			if rg.Contains(m.Header.SequenceNumber) {
				a.msgs = append(a.msgs, m)
			}
		}
	case "complete-unordered":
		ms := mk(seqs)
		for i, j := 0, n-1; i < j; i, j = i+1, j-1 {
			ms[i], ms[j] = ms[j], ms[i]
		}
		a.msgs = ms
	case "prefix":
		if n >= 2 {
			a.msgs = mk(seqs[:r.Range(1, n-1)])
		} else {
			a.msgs = []cciptypes.Message{}
		}
	case "suffix":
		if n >= 2 {
			a.msgs = mk(seqs[r.Range(1, n-1):])
		} else {
			a.msgs = []cciptypes.Message{}
		}
	case "gap":
		if n >= 3 {
			d := r.Range(1, n-2)
			a.msgs = mk(append(append([]uint64{}, seqs[:d]...), seqs[d+1:]...))
		} else {
			a.msgs = []cciptypes.Message{}
		}
	case "duplicate-extra": // complete plus a second message with an existing number
		a.msgs = append(mk(seqs), vC02Msg(r, seqs[r.Intn(n)], k))
	case "duplicate-replace": // right count, every number in range, one number twice and one missing
		qs := append([]uint64{}, seqs...)
		if n >= 2 {
			i := r.Intn(n)
			j := (i + 1 + r.Intn(n-1)) % n
			qs[i] = qs[j]
		}
		a.msgs = mk(qs)
	case "shifted-up": // right count, consecutive, window moved by one
		qs := make([]uint64, n)
		for i, q := range seqs {
			qs[i] = q + 1
		}
		a.msgs = mk(qs)
	case "shifted-down":
		qs := make([]uint64, n)
		for i, q := range seqs {
			qs[i] = q - 1
		}
		a.msgs = mk(qs)
	case "extra-above":
		a.msgs = mk(append(append([]uint64{}, seqs...), seqs[n-1]+1))
	case "extra-below":
		a.msgs = mk(append([]uint64{seqs[0] - 1}, seqs...))
	case "wrong-chain-one":
		a.msgs = mk(seqs)
		a.msgs[r.Intn(n)].Header.SourceChainSelector = cciptypes.ChainSelector(k + 1)
	case "wrong-chain-all":
		a.msgs = mk(seqs)
		for i := range a.msgs {
			a.msgs[i].Header.SourceChainSelector = cciptypes.ChainSelector(k ^ 0x10)
		}
	case "empty":
		a.msgs = []cciptypes.Message{}
	case "nil":
		a.msgs = nil
	case "error":
		a.err = true
		a.msgs = mk(seqs) // returned together with the error; must be ignored
	case "hasher-error":
		a.msgs = mk(seqs)
		a.msgs[r.Intn(n)].Header.MessageID[0] = 0xEE
	case "shifted-unordered":
		// a window of the right size moved by 1 or 2, listed so that the FIRST and the LAST message lie in the interval and
		// the out-of-range ones sit in between (4,6,5 or 3,2,4 for [3->5]): right count, both ends in range, consecutive
		// once sorted, and yet a sequence number of the interval was not read
		a.msgs = mk(vC02ShiftedUnordered(r, seqs))
	case "one-out-middle": // right count, ends in range, exactly one out-of-range number in a middle position
		qs := append([]uint64{}, seqs...)
		if n >= 3 {
			i := 1 + r.Intn(n-2)
			switch {
			case r.Bool() && seqs[n-1] < vC02Max:
				qs[i] = seqs[n-1] + 1 + uint64(r.Intn(2))
			case seqs[0] > 0:
				qs[i] = seqs[0] - 1
			default:
				qs[i] = seqs[n-1] + 1
			}
			if r.Bool() { // ... and the rest not in sequence order either
				qs[0], qs[n-1] = qs[n-1], qs[0]
			}
		}
		a.msgs = mk(qs)
	case "inner-duplicate": // right count, ends in range, an inner message repeats another number (one number missing)
		qs := append([]uint64{}, seqs...)
		if n >= 3 {
			i := 1 + r.Intn(n-2)
			j := r.Intn(n)
			if j == i {
				j = 0
			}
			qs[i] = seqs[j]
		}
		a.msgs = mk(qs)
	case "inner-foreign": // complete by numbers, ends fine, an inner message names another source chain
		a.msgs = mk(seqs)
		if n >= 3 {
			a.msgs[1+r.Intn(n-2)].Header.SourceChainSelector = cciptypes.ChainSelector(k ^ 0x20)
		} else {
			a.msgs[0].Header.SourceChainSelector = cciptypes.ChainSelector(k ^ 0x20)
		}
		if r.Bool() {
			a.msgs[0], a.msgs[n-1] = a.msgs[n-1], a.msgs[0]
		}
	case "one-short-window": // consecutive, in range, one message short (first or last missing)
		if n >= 2 {
			if r.Bool() {
				a.msgs = mk(seqs[1:])
			} else {
				a.msgs = mk(seqs[:n-1])
			}
		} else {
			a.msgs = nil
		}
	}
	return a
}

// the interval seqs (consecutive, len >= 3) moved by +-1 or +-2 and permuted: in-range numbers at both ends, the
// out-of-range ones in the middle; intervals too short or at the uint64 bounds fall back to what is possible
func vC02ShiftedUnordered(r *vRand, seqs []uint64) []uint64 {
	n := len(seqs)
	if n < 3 {
		return append([]uint64{}, seqs...)
	}
	d := 1 + r.Intn(2)
	if n-d < 2 {
		d = 1
	}
	up := r.Bool()
	if up && seqs[n-1] > vC02Max-uint64(d) {
		up = false
	}
	if !up && seqs[0] < uint64(d) {
		up = true
		if seqs[n-1] > vC02Max-uint64(d) {
			return append([]uint64{}, seqs...)
		}
	}
	var in, out []uint64
	for _, q := range seqs {
		x := q + uint64(d)
		if !up {
			x = q - uint64(d)
		}
		if x >= seqs[0] && x <= seqs[n-1] {
			in = append(in, x)
		} else {
			out = append(out, x)
		}
	}
	if r.Bool() { // in-range part descending as well
		for i, j := 0, len(in)-1; i < j; i, j = i+1, j-1 {
			in[i], in[j] = in[j], in[i]
		}
	}
	res := append([]uint64{in[0]}, out...)
	return append(res, in[1:]...)
}

func TestVerif_C02_roots(t *testing.T) {
	ctx := context.Background()
	r := vNewRand(vSeed() + 203)
	n := vEnvInt("VERIF_N", 400)
	sink := vOpenSink("C02_roots")
	defer sink.Close()
	keccak := hashutil.NewKeccak()
	for i := 0; i < n; i++ {
		in := vNewIntern()
		hid := func(b [32]byte) uint64 { return in.Id("h:" + hex.EncodeToString(b[:])) }
		zeroID := hid(keccak.ZeroHash())
		nr := r.Range(1, 4)
		if r.Chance(1, 12) {
			nr = 0
		}
		// the first cases of every run: one interval around / above the size of one merkle tree (256 leaves),
		// completely read; large intervals are kept few because each carries its full hash table
		bigSizes := []int{255, 256, 257, 300, 1000, 257, 300, 256, 513, 300}
		big := i < len(bigSizes) && n >= 50
		if big {
			nr = 1
		}
		keyPool := []uint64{1, 2, 3, 5, 8, 13, 1 << 40, vC02Max}
		perm := r.Perm(len(keyPool))
		var ranges []plugintypes.ChainRange
		answers := map[cciptypes.ChainSelector]vC02Answer{}
		addrs := map[cciptypes.ChainSelector][]byte{}
		addrErr := map[cciptypes.ChainSelector]bool{}
		var sup []cciptypes.ChainSelector
		clsAll := ""
		ntCase := false
		for c := 0; c < nr; c++ {
			k := keyPool[perm[c]]
			size := uint64(vPick(r, []int{1, 1, 2, 3, 4, 5, 7, 8, 9, 16, 17}))
			if r.Chance(1, 60) {
				size = uint64(vPick(r, []int{255, 256, 257, 258, 300}))
			}
			var s uint64
			shape := vPick(r, []string{"mid", "mid", "mid", "zero", "max", "inverted", "full"})
			if r.Chance(9, 10) {
				shape = vPick(r, []string{"mid", "zero", "max"})
			}
			force := ""
			if big {
				size = uint64(bigSizes[i])
				shape = vPick(r, []string{"mid", "mid", "zero", "max"})
				force = vPick(r, []string{"honest-db", "honest-db", "complete"})
			}
			e := uint64(0)
			switch shape {
			case "mid":
				s = 1 + r.U64()>>uint(r.Range(1, 63))
				if s > vC02Max-2000 {
					s = vC02Max - 2000
				}
				e = s + size - 1
			case "zero":
				s, e = 0, size-1
			case "max":
				e = vC02Max
				s = e - size + 1
			case "inverted":
				e = 10 + uint64(r.Intn(5))
				s = e + 1 + uint64(r.Intn(3))
			case "full":
				s, e = 0, vC02Max
			}
			ksel := cciptypes.ChainSelector(k)
			ranges = append(ranges, plugintypes.ChainRange{ChainSel: ksel, SeqNumRange: cciptypes.NewSeqNumRange(cciptypes.SeqNum(s), cciptypes.SeqNum(e))})
			a := vC02GenAnswer(r, k, s, e, force)
			answers[ksel] = a
			clsAll += shape + "/" + a.cls + ","
			if size >= 255 {
				clsAll += "size-" + strconv.FormatUint(size, 10) + ","
			}
			supported := !r.Chance(1, 8) || big
			if supported {
				sup = append(sup, ksel)
				if !a.err {
					ntCase = true
				}
			}
			addrPick := r.Intn(10)
			if big {
				addrPick = 9
			}
			switch addrPick {
			case 0:
				addrErr[ksel] = true
			case 1:
				addrs[ksel] = nil
			case 2:
				addrs[ksel] = []byte{}
			default:
				addrs[ksel] = []byte{byte(k), 0xAD, byte(r.Intn(3))}
			}
		}
		if nr >= 2 && r.Chance(1, 10) { // the same chain requested twice (same range): both answered alike
			ranges = append(ranges, ranges[0])
			clsAll += "dup-range,"
		}
		supErr := r.Chance(1, 15) && !big
		rd := &vCCIPReader{
			MsgsFn: func(chain cciptypes.ChainSelector, rg cciptypes.SeqNumRange) ([]cciptypes.Message, error) {
				a := answers[chain]
				var cp []cciptypes.Message
				if a.db != nil {
					cp = []cciptypes.Message{}
					for _, m := range a.db {
						if rg.Contains(m.Header.SequenceNumber) {
							cp = append(cp, m)
						}
					}
				} else if a.msgs != nil {
					cp = append(make([]cciptypes.Message, 0, len(a.msgs)), a.msgs...)
				}
				if a.err {
					return cp, vErrNext()
				}
				return cp, nil
			},
			AddrFn: func(name string, chain cciptypes.ChainSelector) ([]byte, error) {
				if addrErr[chain] {
					return nil, vErrNext()
				}
				return addrs[chain], nil
			},
		}
		o := observerImpl{
			lggr:         mocks.NullLogger,
			nodeID:       1,
			chainSupport: vC02Support{sup: sup, err: supErr},
			ccipReader:   rd,
			msgHasher:    vC02Hasher{},
		}
		var roots []cciptypes.MerkleRootChain
		panicked := false
		func() {
			defer func() {
				if rec := recover(); rec != nil {
					panicked = true
				}
			}()
			roots = o.ObserveMerkleRoots(ctx, ranges)
		}()

		// hash table: reference layering (pad odd layers with the zero hash, hash neighbours) with the real keccak
		// hasher, logged as ((a,b),c) triples; the Coq model evaluates its own tree through this table.
		type triple struct{ a, b, c uint64 }
		var tbl []triple
		seenT := map[[2]uint64]bool{}
		logTree := func(leaves [][32]byte) {
			layer := leaves
			for len(layer) > 1 {
				if len(layer)%2 == 1 {
					layer = append(append([][32]byte{}, layer...), keccak.ZeroHash())
				}
				var next [][32]byte
				for j := 0; j < len(layer); j += 2 {
					c := keccak.HashInternal(layer[j], layer[j+1])
					key := [2]uint64{hid(layer[j]), hid(layer[j+1])}
					if !seenT[key] {
						seenT[key] = true
						tbl = append(tbl, triple{key[0], key[1], hid(c)})
					}
					next = append(next, c)
				}
				layer = next
			}
		}
		msgTerm := func(m cciptypes.Message) string {
			hh := cNone()
			if m.Header.MessageID[0] != 0xEE {
				hh = cSome(cN(hid(m.Header.MessageID)))
			}
			return cTup(cN(uint64(m.Header.SequenceNumber)), cN(uint64(m.Header.SourceChainSelector)), hh)
		}
		var ansL, addrL []string
		var keys []cciptypes.ChainSelector
		for k := range answers {
			keys = append(keys, k)
		}
		sort.Slice(keys, func(a, b int) bool { return keys[a] < keys[b] })
		for _, k := range keys {
			a := answers[k]
			if a.err {
				ansL = append(ansL, cPair(cN(uint64(k)), cNone()))
			} else {
				ansL = append(ansL, cPair(cN(uint64(k)), cSome(cMap(a.msgs, msgTerm))))
				ms := append([]cciptypes.Message{}, a.msgs...)
				sort.SliceStable(ms, func(x, y int) bool { return ms[x].Header.SequenceNumber < ms[y].Header.SequenceNumber })
				var leaves [][32]byte
				for _, m := range ms {
					if m.Header.MessageID[0] != 0xEE {
						leaves = append(leaves, m.Header.MessageID)
					}
				}
				if len(leaves) > 0 {
					logTree(leaves)
				}
			}
			if !addrErr[k] {
				addrL = append(addrL, cPair(cN(uint64(k)), cN(in.Id("a:"+hex.EncodeToString(addrs[k])))))
			}
		}
		supS := cNone()
		if !supErr {
			supS = cSome(cMap(sup, func(c cciptypes.ChainSelector) string { return cN(uint64(c)) }))
		}
		rangesS := cMap(ranges, func(c plugintypes.ChainRange) string {
			return cPair(cN(uint64(c.ChainSel)), cPair(cN(uint64(c.SeqNumRange.Start())), cN(uint64(c.SeqNumRange.End()))))
		})
		tblS := cMap(tbl, func(x triple) string { return cPair(cPair(cN(x.a), cN(x.b)), cN(x.c)) })
		input := cTup(supS, rangesS, cList(ansL), cList(addrL), cN(zeroID), tblS)
		var outL []string
		for _, rt := range roots {
			outL = append(outL, cTup(cN(uint64(rt.ChainSel)),
				cPair(cN(uint64(rt.SeqNumsRange.Start())), cN(uint64(rt.SeqNumsRange.End()))),
				cN(in.Id("a:"+hex.EncodeToString(rt.OnRampAddress))), cN(hid(rt.MerkleRoot))))
		}
		if panicked {
			outL = []string{cTup(cN(0), cPair(cN(0), cN(0)), cN(0), cN(0))}
			clsAll += "PANIC"
		}
		cls := "none"
		if len(ranges) > 0 {
			cls = answers[ranges[0].ChainSel].cls
		}
		if supErr {
			cls = "supported-error"
		}
		if big {
			cls = "tree-size-" + strconv.Itoa(bigSizes[i]) + "/" + cls
		}
		sink.Emit("C02_roots", cls, ntCase && !supErr, cPair(input, cList(outL)),
			map[string]any{"ranges": len(ranges), "classes": clsAll, "roots": len(roots)})
	}
}

//go:build verif

// C13 — "no callback blocks past its context deadline": the context the commit plugin's Query hands to the RMN
// controller must inherit the caller's deadline and cancellation, and be bounded by RMNSignaturesTimeout.
// Judged without any wall-clock measurement: the scripted controller inspects the context it is given
// (seeded change C13-10 detached it with context.WithoutCancel).
package merkleroot

import (
	"context"
	"testing"
	"time"

	"github.com/smartcontractkit/libocr/commontypes"
	"github.com/smartcontractkit/libocr/offchainreporting2plus/ocr3types"
	libocrtypes "github.com/smartcontractkit/libocr/ragep2p/types"

	"github.com/smartcontractkit/chainlink-ccip/commit/merkleroot/rmn"
	"github.com/smartcontractkit/chainlink-ccip/commit/merkleroot/rmn/rmnpb"
	rmntypes "github.com/smartcontractkit/chainlink-ccip/commit/merkleroot/rmn/types"
	"github.com/smartcontractkit/chainlink-ccip/internal/mocks"
	"github.com/smartcontractkit/chainlink-ccip/internal/plugincommon"
	"github.com/smartcontractkit/chainlink-ccip/internal/plugintypes"
	cciptypes "github.com/smartcontractkit/chainlink-ccip/pkg/types/ccipocr3"
	"github.com/smartcontractkit/chainlink-ccip/pluginconfig"
)

type vC13QCtrl struct {
	rmn.Controller
	seen func(ctx context.Context)
}

func (c *vC13QCtrl) InitConnection(context.Context, cciptypes.Bytes32, cciptypes.Bytes32, []libocrtypes.PeerID, []rmntypes.HomeNodeInfo) error {
	return nil
}
func (c *vC13QCtrl) Close() error { return nil }
func (c *vC13QCtrl) ComputeReportSignatures(ctx context.Context, _ *rmnpb.LaneDest, _ []*rmnpb.FixedDestLaneUpdateRequest,
	_ rmntypes.RemoteConfig) (*rmn.ReportSignatures, error) {
	c.seen(ctx)
	return nil, rmn.ErrTimeout
}

func TestVerif_C13_query_ctx(t *testing.T) {
	sink := vOpenSink("C13_query_ctx")
	defer sink.Close()
	const dest = cciptypes.ChainSelector(900)
	idToPeer := map[commontypes.OracleID]libocrtypes.PeerID{}
	for o := 0; o < 4; o++ {
		idToPeer[commontypes.OracleID(o)] = vPeer(o)
	}
	hc := vNewHomeChain()
	timeouts := []time.Duration{50 * time.Millisecond, 5 * time.Second, 24 * time.Hour}
	prev := Outcome{OutcomeType: ReportIntervalsSelected,
		RangesSelectedForReport: []plugintypes.ChainRange{{ChainSel: 5, SeqNumRange: cciptypes.NewSeqNumRange(10, 12)}},
		RMNRemoteCfg:            rmntypes.RemoteConfig{ContractAddress: []byte{1, 2, 3}, F: 1}}
	for ti, to := range timeouts {
		for parentKind := 0; parentKind < 3; parentKind++ { // 0 background, 1 deadline in one hour, 2 already cancelled
			code := 0
			entered := false
			var parent context.Context
			cancel := func() {}
			var parentDeadline time.Time
			switch parentKind {
			case 0:
				parent = context.Background()
			case 1:
				parentDeadline = time.Now().Add(time.Hour)
				parent, cancel = context.WithDeadline(context.Background(), parentDeadline)
			default:
				parent, cancel = context.WithCancel(context.Background())
				cancel()
			}
			ctrl := &vC13QCtrl{seen: func(ctx context.Context) {
				entered = true
				dl, ok := ctx.Deadline()
				switch {
				case !ok:
					code = 3 // no deadline at all: the RMN phase is unbounded
				case dl.After(time.Now().Add(to + time.Minute)):
					code = 3 // not bounded by RMNSignaturesTimeout
				case parentKind == 1 && dl.After(parentDeadline):
					code = 3 // outlives the caller's deadline
				case parentKind == 2 && ctx.Err() == nil:
					code = 3 // the caller's context is cancelled, this one is not
				}
			}}
			p := NewProcessor(0, idToPeer, mocks.NullLogger,
				pluginconfig.CommitOffchainConfig{RMNEnabled: true, MaxMerkleTreeSize: 16, MaxReportTransmissionCheckAttempts: 3, RMNSignaturesTimeout: to},
				dest, hc, &vCCIPReader{}, mocks.NewMessageHasher(),
				ocr3types.ReportingPluginConfig{F: 1, N: 4, OracleID: 0},
				plugincommon.NewChainSupport(mocks.NullLogger, hc, idToPeer, 0, dest), ctrl, nil, nil)
			func() {
				defer func() {
					if x := recover(); x != nil {
						code = 2
					}
				}()
				_, _ = p.Query(parent, prev)
			}()
			cancel()
			if !entered && code == 0 {
				code = 1 // the controller was not consulted in a building round with RMN enabled: nothing judged
			}
			cls := []string{"background", "deadline-1h", "cancelled"}[parentKind] + "/" + to.String()
			sink.Emit("C13_query_ctx", cls, true, cPair(cTup(cN(98), cNi(parentKind), cNi(ti), cN(0)), cNi(code)),
				map[string]any{"parent": cls, "rmn_signatures_timeout": to.String(), "code": code})
		}
	}
}

//go:build verif

package commit

import (
	"context"
	"math/big"
	"sort"
	"testing"
	"time"

	"github.com/smartcontractkit/libocr/commontypes"
	"github.com/smartcontractkit/libocr/offchainreporting2plus/ocr3types"
	"github.com/smartcontractkit/libocr/offchainreporting2plus/types"
	libocrtypes "github.com/smartcontractkit/libocr/ragep2p/types"

	cctypes "github.com/smartcontractkit/chainlink-common/pkg/types"

	"github.com/smartcontractkit/chainlink-ccip/commit/chainfee"
	"github.com/smartcontractkit/chainlink-ccip/commit/merkleroot"
	"github.com/smartcontractkit/chainlink-ccip/commit/merkleroot/rmn"
	rmntypes "github.com/smartcontractkit/chainlink-ccip/commit/merkleroot/rmn/types"
	"github.com/smartcontractkit/chainlink-ccip/commit/tokenprice"
	"github.com/smartcontractkit/chainlink-ccip/internal/mocks"
	dt "github.com/smartcontractkit/chainlink-ccip/internal/plugincommon/discovery/discoverytypes"
	"github.com/smartcontractkit/chainlink-ccip/internal/plugintypes"
	readerpkg "github.com/smartcontractkit/chainlink-ccip/pkg/reader"
	cciptypes "github.com/smartcontractkit/chainlink-ccip/pkg/types/ccipocr3"
	"github.com/smartcontractkit/chainlink-ccip/pluginconfig"
)

// ---------- role configuration shared by the C12 generators of this package ----------
type vC12Cfg struct {
	Oracles []int                // oracle ids with a peer id
	Chains  []uint64             // home-chain configured chains, in emission order
	F       map[uint64]int       // fChain
	Readers map[uint64][]int     // chain -> designated oracle ids
	Dest    uint64
	Feed    uint64
}

func (c *vC12Cfg) known(o int) bool {
	for _, x := range c.Oracles {
		if x == o {
			return true
		}
	}
	return false
}
func (c *vC12Cfg) reads(o int, ch uint64) bool {
	for _, x := range c.Readers[ch] {
		if x == o {
			return true
		}
	}
	return false
}
func (c *vC12Cfg) coq() string {
	chains := make([]string, len(c.Chains))
	for i, ch := range c.Chains {
		rs := make([]string, len(c.Readers[ch]))
		for k, o := range c.Readers[ch] {
			rs[k] = cNi(o)
		}
		chains[i] = cPair(cN(ch), cPair(cZ(int64(c.F[ch])), cList(rs)))
	}
	os := make([]string, len(c.Oracles))
	for i, o := range c.Oracles {
		os[i] = cNi(o)
	}
	return cApp("mkCfg", cList(os), cList(chains), cN(c.Dest), cN(c.Feed))
}

// vC12GenCfg: 4..7 oracles, destination 900, 2..3 source chains, feed chain either a chain of its own, a source or the
// destination; role shapes: everybody everything / random subsets / a group without destination / without feed.
func vC12GenCfg(r *vRand) *vC12Cfg {
	n := r.Range(4, 7)
	perm := r.Perm(10)
	c := &vC12Cfg{F: map[uint64]int{}, Readers: map[uint64][]int{}, Dest: 900}
	for i := 0; i < n; i++ {
		c.Oracles = append(c.Oracles, perm[i])
	}
	sort.Ints(c.Oracles)
	srcs := []uint64{5, 6, 11}[:r.Range(2, 3)]
	switch r.Intn(4) {
	case 0:
		c.Feed = 900
	case 1:
		c.Feed = 5
	default:
		c.Feed = 700
	}
	c.Chains = append([]uint64{900}, srcs...)
	if c.Feed == 700 {
		c.Chains = append(c.Chains, 700)
	}
	if r.Chance(1, 25) {
		c.Chains = c.Chains[1:] // destination not configured on the home chain
	}
	shape := r.Intn(4)
	for _, ch := range c.Chains {
		c.F[ch] = r.Range(1, 2)
		for _, o := range c.Oracles {
			in := true
			switch shape {
			case 0:
			case 1:
				in = r.Chance(2, 3)
			case 2:
				in = !(ch == 900 && o == c.Oracles[len(c.Oracles)-1]) && (ch == 900 || r.Chance(3, 4))
			default:
				in = !(ch == c.Feed && o >= c.Oracles[len(c.Oracles)/2]) && r.Chance(4, 5)
			}
			if in {
				c.Readers[ch] = append(c.Readers[ch], o)
			}
		}
	}
	return c
}

func (c *vC12Cfg) homeChain() (*vHomeChain, map[commontypes.OracleID]libocrtypes.PeerID) {
	hc := vNewHomeChain()
	m := map[commontypes.OracleID]libocrtypes.PeerID{}
	for _, o := range c.Oracles {
		m[commontypes.OracleID(o)] = vPeer(o)
	}
	for _, ch := range c.Chains {
		var peers []libocrtypes.PeerID
		for _, o := range c.Readers[ch] {
			peers = append(peers, vPeer(o))
		}
		hc.SetChain(cciptypes.ChainSelector(ch), c.F[ch], peers)
	}
	return hc, m
}

// picks an observer: mostly a partial-role oracle, sometimes a full-role one, rarely an id without peer id
func (c *vC12Cfg) pickObserver(r *vRand) int {
	if r.Chance(1, 30) {
		for o := 0; o < 12; o++ {
			if !c.known(o) {
				return o
			}
		}
	}
	var partial []int
	for _, o := range c.Oracles {
		for _, ch := range c.Chains {
			if !c.reads(o, ch) {
				partial = append(partial, o)
				break
			}
		}
	}
	if len(partial) > 0 && r.Chance(3, 4) {
		return vPick(r, partial)
	}
	return vPick(r, c.Oracles)
}

func vC12ReadChains(c *vC12Cfg, o int) (rd []uint64, unread []uint64) {
	for _, ch := range c.Chains {
		if c.known(o) && c.reads(o, ch) {
			rd = append(rd, ch)
		} else {
			unread = append(unread, ch)
		}
	}
	unread = append(unread, 77) // a chain the home chain does not know
	return
}

func vC12Subset(r *vRand, xs []uint64) []uint64 {
	var out []uint64
	for _, x := range xs {
		if r.Bool() {
			out = append(out, x)
		}
	}
	return out
}

func vC12FChain(r *vRand, c *vC12Cfg, bad bool) (map[cciptypes.ChainSelector]int, string) {
	m := map[cciptypes.ChainSelector]int{}
	var items []string
	for _, ch := range c.Chains {
		f := c.F[ch]
		if bad && r.Bool() {
			f = -r.Intn(2)
		}
		m[cciptypes.ChainSelector(ch)] = f
		items = append(items, cPair(cN(ch), cZ(int64(f))))
	}
	return m, cList(items)
}

var vC12DiscNames = []string{"OnRamp", "OffRamp", "NonceManager", "RMNRemote", "FeeQuoter", "Router", "AggregatorV3Interface"}

// discovery observation: conformant entries for what the observer reads, plus optional violating entry
func vC12Disc(r *vRand, c *vC12Cfg, rd []uint64, readsDest bool, fill int, bad string, unread []uint64) (readerpkg.ContractAddresses, string) {
	ca := readerpkg.ContractAddresses{}
	type ent struct {
		code   int
		chains []uint64
	}
	var ents []ent
	add := func(code int, chains []uint64) {
		name := vC12DiscNames[code]
		if _, ok := ca[name]; ok {
			return
		}
		ca[name] = map[cciptypes.ChainSelector]cciptypes.UnknownAddress{}
		for _, ch := range chains {
			ca[name][cciptypes.ChainSelector(ch)] = []byte{byte(code + 1), byte(ch)}
		}
		ents = append(ents, ent{code, chains})
	}
	if fill > 0 {
		if readsDest && r.Bool() {
			add(0, vC12Subset(r, c.Chains))
			add(r.Range(1, 3), []uint64{c.Dest})
		}
		if len(rd) > 0 && r.Bool() {
			add(4+r.Intn(2), vC12Subset(r, rd))
		}
	}
	switch bad {
	case "disc-dest":
		code := r.Range(0, 3)
		chs := []uint64{c.Dest}
		if code == 0 {
			chs = vC12Subset(r, c.Chains) // possibly empty: the entry alone is rejected
		}
		add(code, chs)
	case "disc-own":
		add(4+r.Intn(2), append(vC12Subset(r, rd), vPick(r, unread)))
	case "disc-name":
		add(6, []uint64{c.Dest})
	case "disc-empty":
		add(r.Range(0, 5), nil) // a contract name with an empty address map
	}
	items := make([]string, len(ents))
	for i, e := range ents {
		items[i] = cPair(cNi(e.code), cListN(e.chains))
	}
	return ca, cList(items)
}

func vC12Plugin(c *vC12Cfg, me int, rmnOn bool) *Plugin {
	hc, m := c.homeChain()
	var rd readerpkg.CCIPReader = &vCCIPReader{}
	return NewPlugin(1, m,
		pluginconfig.CommitOffchainConfig{PriceFeedChainSelector: cciptypes.ChainSelector(c.Feed), RMNEnabled: rmnOn},
		cciptypes.ChainSelector(c.Dest), rd, nil, mocks.NewCommitPluginJSONReportCodec(), mocks.NewMessageHasher(),
		mocks.NullLogger, hc, nil, nil, nil,
		ocr3types.ReportingPluginConfig{F: 1, N: len(c.Oracles), OracleID: commontypes.OracleID(me)})
}

var vC12CommitClasses = []string{
	"none", "none", "none", "roots", "onramp", "offramp", "rmncfg", "feecomp", "native", "feed", "fq", "chainfeeupd",
	"disc-dest", "disc-own", "disc-name", "malformed", "retry", "disc-empty",
}

// options of the observation generator (zero value + fill = -1: everything drawn at random)
type vC12GenOpt struct {
	bad    string // injected class; "" = drawn
	fill   int    // 0..2; -1 = drawn
	prefer uint64 // chain the injected / conformant fields should be about when possible; 0 = none
	force  bool   // conformant chain subsets include prefer whenever the observer reads it
}

// one generated commit ValidateObservation case: observation of observer o under role map c, and the round it is validated in
type vC12CommitCase struct {
	o                                    int
	bad                                  string
	fill, prevType                       int
	retry, sigs, rmnOn, discOn, initd    bool
	qb, prevB, ob                        []byte
	obsS                                 string
	nfields, nunread                     int
}

func (cs *vC12CommitCase) rctx() string {
	return cTup(cNi(cs.prevType), cBool(cs.sigs), cBool(cs.rmnOn), cBool(cs.discOn), cBool(cs.initd))
}
func (cs *vC12CommitCase) show(c *vC12Cfg, verdict string) map[string]any {
	return map[string]any{"oracles": c.Oracles, "readers": c.Readers, "dest": c.Dest, "feed": c.Feed, "observer": cs.o,
		"injected": cs.bad, "fill": cs.fill, "retry": cs.retry, "prev_outcome_type": cs.prevType, "rmn_signatures_in_query": cs.sigs,
		"rmn_enabled": cs.rmnOn, "discovery_enabled": cs.discOn, "contracts_initialized": cs.initd,
		"observation": string(cs.ob), "accepted": verdict}
}
func (cs *vC12CommitCase) verdict(ctx context.Context, p *Plugin) (v string) {
	defer func() {
		if e := recover(); e != nil {
			v = "panic"
		}
	}()
	if err := p.ValidateObservation(ctx, ocr3types.OutcomeContext{SeqNr: 7, PreviousOutcome: cs.prevB}, cs.qb,
		types.AttributedObservation{Observation: cs.ob, Observer: commontypes.OracleID(cs.o)}); err != nil {
		v = "false"
	} else {
		v = "true"
	}
	return v
}

func vC12GenCommitCase(t *testing.T, r *vRand, c *vC12Cfg, o int, tokens *vIntern, now time.Time, opt vC12GenOpt) *vC12CommitCase {
	rd, unread := vC12ReadChains(c, o)
	// opt.prefer: the chain the injected field / the conformant fields should be about when possible
	pickUnread := func() uint64 {
		x := vPick(r, unread)
		if opt.prefer == 0 {
			return x
		}
		for _, u := range rd {
			if u == opt.prefer {
				return x
			}
		}
		return opt.prefer // not read by the observer now (possibly no longer configured at all)
	}
	sub := func(xs []uint64) []uint64 {
		out := vC12Subset(r, xs)
		if !opt.force {
			return out
		}
		for _, u := range out {
			if u == opt.prefer {
				return out
			}
		}
		for _, u := range xs {
			if u == opt.prefer {
				return append(out, u)
			}
		}
		return out
	}
	readsDest := c.known(o) && c.reads(o, c.Dest)
	readsFeed := c.known(o) && c.reads(o, c.Feed)
	bad := vPick(r, vC12CommitClasses)
	fill := r.Intn(3) // 0: nothing but the injected field, 1: some conformant fields, 2: all conformant fields
	if opt.bad != "" {
		bad = opt.bad
	}
	if opt.fill >= 0 {
		fill = opt.fill
	}
	want := func() bool { return fill == 2 || (fill == 1 && r.Bool()) }
	malformed := bad == "malformed"
	mal := func() bool { return malformed && r.Chance(1, 4) }

	// ---- round context: the verdict is taken in every kind of round.
	// previous merkle outcome type: 0 (no previous outcome), 1 ReportIntervalsSelected .. 6 ReportTransmissionFailed, 99 out of range;
	// query: retry flag and / or RMN signatures present; RMN enabled or not; discovery processor present or not;
	// contracts initialised or not.
	prevType := vPick(r, []int{0, 1, 1, 2, 3, 4, 5, 6, 99})
	retry := bad == "retry" || r.Chance(2, 5)
	sigs := r.Chance(1, 3)
	rmnOn := r.Bool()
	discOn := !r.Chance(1, 5)
	initd := r.Bool()
	// in a retry round a non-empty merkle part is rejected as such: keep it empty most of the time so that the
	// other validators decide
	noMerkle := retry && r.Chance(3, 4)
	wantM := func() bool { return !noMerkle && want() }

	// ---- merkle root observation
	var mo merkleroot.Observation
	var roots, onr, offr []uint64
	if wantM() {
		roots = sub(rd)
	}
	if wantM() {
		onr = sub(rd)
	}
	if wantM() && readsDest {
		offr = vC12Subset(r, []uint64{5, 6, 11})
	}
	switch bad {
	case "roots":
		roots = append(roots, pickUnread())
	case "onramp":
		onr = append(onr, pickUnread())
	case "offramp":
		offr = append(offr, vPick(r, []uint64{5, 6}))
	}
	if mal() && len(roots) > 0 {
		roots = append(roots, roots[0])
	}
	if mal() && len(onr) > 0 {
		onr = append(onr, onr[0])
	}
	if mal() && len(offr) > 0 {
		offr = append(offr, offr[0])
	}
	for _, ch := range roots {
		mo.MerkleRoots = append(mo.MerkleRoots, cciptypes.MerkleRootChain{ChainSel: cciptypes.ChainSelector(ch),
			OnRampAddress: []byte{1}, SeqNumsRange: cciptypes.NewSeqNumRange(1, 2), MerkleRoot: cciptypes.Bytes32{byte(ch)}})
	}
	for _, ch := range onr {
		mo.OnRampMaxSeqNums = append(mo.OnRampMaxSeqNums, plugintypes.SeqNumChain{ChainSel: cciptypes.ChainSelector(ch), SeqNum: 9})
	}
	for _, ch := range offr {
		mo.OffRampNextSeqNums = append(mo.OffRampNextSeqNums, plugintypes.SeqNumChain{ChainSel: cciptypes.ChainSelector(ch), SeqNum: 3})
	}
	rmnS := "rmn_none"
	if (wantM() && readsDest) || bad == "rmncfg" {
		nsig := r.Range(1, 3)
		rc := rmntypes.RemoteConfig{ContractAddress: []byte{7}, ConfigDigest: cciptypes.Bytes32{1}, F: uint64(r.Range(0, nsig-1)),
			ConfigVersion: 1, RmnReportVersion: cciptypes.Bytes32{2}}
		if bad == "rmncfg" && r.Chance(1, 3) {
			// boundary: a config that is non-empty only because of one field
			// ... or the opposite: everything set except F and the signers ("RMN not enforced": F = 0, no signers — seeded
			// change C12-13 let exactly that shape through before the role check)
			switch r.Intn(3) {
			case 0:
				rc = rmntypes.RemoteConfig{F: 1}
			case 1:
				rc.F = 0
			default:
				rc = rmntypes.RemoteConfig{ContractAddress: []byte{7}}
			}
			nsig = 0
		}
		for k := 0; k < nsig; k++ {
			rc.Signers = append(rc.Signers, rmntypes.RemoteSignerInfo{OnchainPublicKey: []byte{byte(k + 1)}, NodeIndex: uint64(k)})
		}
		if len(rc.Signers) > 0 && mal() {
			switch r.Intn(6) {
			case 0:
				rc.ConfigDigest = cciptypes.Bytes32{}
			case 1:
				rc.RmnReportVersion = cciptypes.Bytes32{}
			case 2:
				rc.F = uint64(nsig)
			case 3:
				rc.ContractAddress = nil
			case 4:
				rc.Signers[0].OnchainPublicKey = nil
			default:
				rc.Signers = append(rc.Signers, rc.Signers[0])
			}
		}
		mo.RMNRemoteConfig = rc
		sg := make([]string, len(rc.Signers))
		for k, s := range rc.Signers {
			sg[k] = cPair(cBool(len(s.OnchainPublicKey) == 0), cN(s.NodeIndex))
		}
		rmnS = cApp("mkRmn", cBool(len(rc.ContractAddress) == 0), cBool(rc.ConfigDigest == cciptypes.Bytes32{}), cList(sg),
			cN(rc.F), cBool(rc.ConfigVersion == 0), cBool(rc.RmnReportVersion == cciptypes.Bytes32{}))
	}
	mfcS := "[]"
	if wantM() || len(roots)+len(onr)+len(offr) > 0 {
		mo.FChain, mfcS = vC12FChain(r, c, mal())
	}
	moS := cApp("mkMobs", cListN(roots), cListN(onr), cListN(offr), rmnS, mfcS)

	// ---- token price observation
	var to tokenprice.Observation
	var feedS []string
	var fqS []string
	nfeed := 0
	if (want() && readsFeed) || bad == "feed" {
		nfeed = r.Range(1, 3)
	}
	for k := 0; k < nfeed; k++ {
		id := "tok" + string(rune('A'+k))
		if mal() && k > 0 {
			id = "tokA"
		}
		p := cciptypes.NewBigIntFromInt64(int64(100 + k))
		if r.Chance(1, 3) {
			// validation accepts any non-nil feed price: zero, negative (feed answers are int256), huge
			p = cciptypes.NewBigInt(vPick(r, []*big.Int{big.NewInt(0), big.NewInt(-3), new(big.Int).Lsh(big.NewInt(1), 200)}))
		}
		if mal() {
			p = cciptypes.BigInt{}
		}
		to.FeedTokenPrices = append(to.FeedTokenPrices, cciptypes.TokenPrice{TokenID: cciptypes.UnknownEncodedAddress(id), Price: p})
		feedS = append(feedS, cPair(cN(tokens.Id(id)), cBool(p.Int == nil)))
	}
	if (want() && readsDest) || bad == "fq" {
		to.FeeQuoterTokenUpdates = map[cciptypes.UnknownEncodedAddress]plugintypes.TimestampedBig{}
		for k := 0; k < r.Range(1, 2); k++ {
			id := "tok" + string(rune('A'+k))
			to.FeeQuoterTokenUpdates[cciptypes.UnknownEncodedAddress(id)] = plugintypes.TimestampedBig{Timestamp: now,
				Value: cciptypes.NewBigInt(vPick(r, []*big.Int{big.NewInt(5), big.NewInt(5), big.NewInt(0), big.NewInt(-1), new(big.Int).Lsh(big.NewInt(1), 200)}))}
			fqS = append(fqS, cN(tokens.Id(id)))
		}
	}
	tfcS := "[]"
	if want() || nfeed > 0 || len(fqS) > 0 {
		to.FChain, tfcS = vC12FChain(r, c, mal())
		to.Timestamp = now
	}
	toS := cApp("mkTobs", cList(feedS), cList(fqS), tfcS)

	// ---- chain fee observation
	var fo chainfee.Observation
	var comp, nat, upd []uint64
	if want() {
		comp = sub(rd)
	}
	if want() {
		nat = sub(rd)
	}
	if want() && readsDest {
		upd = vC12Subset(r, c.Chains)
	}
	switch bad {
	case "feecomp":
		comp = append(comp, pickUnread())
	case "native":
		nat = append(nat, pickUnread())
	case "chainfeeupd":
		upd = append(upd, vPick(r, []uint64{5, 6}))
		upd = vC12Dedup(upd)
	}
	comp, nat = vC12Dedup(comp), vC12Dedup(nat)
	var compS, natS []string
	optZ := func(b *big.Int) string {
		if b == nil {
			return "None"
		}
		return cSome(cZb(b))
	}
	if len(comp) > 0 {
		fo.FeeComponents = map[cciptypes.ChainSelector]cctypes.ChainFeeComponents{}
	}
	for _, ch := range comp {
		ex, da := big.NewInt(int64(r.Range(1, 9))), big.NewInt(int64(r.Range(0, 3)))
		if mal() {
			switch r.Intn(4) {
			case 0:
				ex = nil
			case 1:
				ex = big.NewInt(0)
			case 2:
				da = nil
			default:
				da = big.NewInt(-1)
			}
		}
		fo.FeeComponents[cciptypes.ChainSelector(ch)] = cctypes.ChainFeeComponents{ExecutionFee: ex, DataAvailabilityFee: da}
		compS = append(compS, cPair(cN(ch), cPair(optZ(ex), optZ(da))))
	}
	if len(nat) > 0 {
		fo.NativeTokenPrices = map[cciptypes.ChainSelector]cciptypes.BigInt{}
	}
	for _, ch := range nat {
		p := big.NewInt(int64(r.Range(1, 9)))
		if mal() {
			if r.Bool() {
				p = nil
			} else {
				p = big.NewInt(0)
			}
		}
		fo.NativeTokenPrices[cciptypes.ChainSelector(ch)] = cciptypes.BigInt{Int: p}
		natS = append(natS, cPair(cN(ch), optZ(p)))
	}
	if len(upd) > 0 {
		fo.ChainFeeUpdates = map[cciptypes.ChainSelector]chainfee.Update{}
	}
	for _, ch := range upd {
		fo.ChainFeeUpdates[cciptypes.ChainSelector(ch)] = chainfee.Update{Timestamp: now,
			ChainFee: chainfee.ComponentsUSDPrices{ExecutionFeePriceUSD: big.NewInt(3), DataAvFeePriceUSD: big.NewInt(1)}}
	}
	ffcS := "[]"
	if want() || len(comp)+len(nat)+len(upd) > 0 {
		fo.FChain, ffcS = vC12FChain(r, c, mal())
		fo.TimestampNow = now
	}
	foS := cApp("mkFobs", cList(compS), cList(natS), cListN(upd), ffcS)

	// ---- discovery + top level
	ca, dS := vC12Disc(r, c, rd, readsDest, fill, bad, unread)
	obs := Observation{MerkleRootObs: mo, TokenPriceObs: to, ChainFeeObs: fo, DiscoveryObs: dt.Observation{Addresses: ca}}
	fcS := "[]"
	if fill > 0 || r.Bool() {
		obs.FChain, fcS = vC12FChain(r, c, mal())
		obs.DiscoveryObs.FChain = obs.FChain
	}
	q := Query{MerkleRootQuery: merkleroot.Query{RetryRMNSignatures: retry}}
	if sigs {
		q.MerkleRootQuery.RMNSignatures = &rmn.ReportSignatures{}
	}
	qb, err := q.Encode()
	if err != nil {
		t.Fatal(err)
	}
	var prevB []byte
	if prevType != 0 {
		prev := Outcome{MerkleRootOutcome: merkleroot.Outcome{OutcomeType: merkleroot.OutcomeType(prevType)}}
		if prevType == 1 {
			prev.MerkleRootOutcome.RangesSelectedForReport = []plugintypes.ChainRange{{ChainSel: 5, SeqNumRange: cciptypes.NewSeqNumRange(10, 12)}}
		}
		if prevB, err = prev.Encode(); err != nil {
			t.Fatal(err)
		}
	}
	ob, err := obs.Encode()
	if err != nil {
		t.Fatal(err)
	}
	nfields := len(roots) + len(onr) + len(offr) + nfeed + len(fqS) + len(comp) + len(nat) + len(upd) + len(ca)
	if rmnS != "rmn_none" {
		nfields++
	}
	return &vC12CommitCase{o: o, bad: bad, fill: fill, prevType: prevType, retry: retry, sigs: sigs, rmnOn: rmnOn, discOn: discOn, initd: initd,
		qb: qb, prevB: prevB, ob: ob, obsS: cApp("mkCobs", moS, toS, foS, dS, fcS), nfields: nfields, nunread: len(unread)}
}

func TestVerif_C12_commit(t *testing.T) {
	ctx := context.Background()
	r := vNewRand(vSeed() + 1201)
	n := vEnvInt("VERIF_N", 300)
	sink := vOpenSink("C12_commit")
	defer sink.Close()
	tokens := vNewIntern()
	now := time.Unix(1700000000, 0).UTC()
	for i := 0; i < n; i++ {
		c := vC12GenCfg(r)
		o := c.pickObserver(r)
		cs := vC12GenCommitCase(t, r, c, o, tokens, now, vC12GenOpt{fill: -1})
		p := vC12Plugin(c, vPick(r, c.Oracles), cs.rmnOn)
		if !cs.discOn {
			p.discoveryProcessor = nil
		}
		p.contractsInitialized.Store(cs.initd)
		verdict := cs.verdict(ctx, p)
		if verdict == "panic" {
			t.Fatalf("ValidateObservation panicked on case %d", i)
		}
		in := cTup(c.coq(), cs.rctx(), cBool(cs.retry), cNi(o), cs.obsS)
		sink.Emit("C12_commit", cs.bad, cs.nfields > 0 && cs.nunread > 1, cPair(in, verdict), cs.show(c, verdict))
	}
}

func vC12Dedup(xs []uint64) []uint64 {
	seen := map[uint64]bool{}
	var out []uint64
	for _, x := range xs {
		if !seen[x] {
			seen[x] = true
			out = append(out, x)
		}
	}
	return out
}

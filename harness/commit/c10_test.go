//go:build verif

package commit

import (
	"context"
	"crypto/sha256"
	"encoding/hex"
	"fmt"
	"math/big"
	"testing"
	"time"

	commonconfig "github.com/smartcontractkit/chainlink-common/pkg/config"
	ctypes "github.com/smartcontractkit/chainlink-common/pkg/types"
	"github.com/smartcontractkit/libocr/commontypes"
	"github.com/smartcontractkit/libocr/offchainreporting2plus/ocr3types"
	"github.com/smartcontractkit/libocr/offchainreporting2plus/types"
	libocrtypes "github.com/smartcontractkit/libocr/ragep2p/types"

	"github.com/smartcontractkit/chainlink-ccip/commit/chainfee"
	"github.com/smartcontractkit/chainlink-ccip/commit/merkleroot"
	rmntypes "github.com/smartcontractkit/chainlink-ccip/commit/merkleroot/rmn/types"
	"github.com/smartcontractkit/chainlink-ccip/internal/mocks"
	"github.com/smartcontractkit/chainlink-ccip/internal/plugintypes"
	cciptypes "github.com/smartcontractkit/chainlink-ccip/pkg/types/ccipocr3"
	"github.com/smartcontractkit/chainlink-ccip/pluginconfig"
)

const (
	vC10Dest = cciptypes.ChainSelector(900)
	vC10Feed = cciptypes.ChainSelector(800)
)

type vC10World struct {
	n, f    int
	sources []cciptypes.ChainSelector
	fChain  map[cciptypes.ChainSelector]int
	tokens  []cciptypes.UnknownEncodedAddress
	cfg     pluginconfig.CommitOffchainConfig
}

// a fresh plugin: fresh maps everywhere => fresh Go map iteration seeds
func vC10Plugin(w *vC10World, me int) *Plugin {
	p, _ := vC10PluginHC(w, me)
	return p
}

func vC10Repoint(hc *vHomeChain, w *vC10World) {
	var peers []libocrtypes.PeerID
	for i := 0; i < w.n; i++ {
		peers = append(peers, vPeer(i))
	}
	for ch := range hc.Configs {
		delete(hc.Configs, ch)
	}
	for ch, f := range w.fChain {
		hc.SetChain(ch, f, peers)
	}
}

func vC10PluginHC(w *vC10World, me int) (*Plugin, *vHomeChain) {
	hc := vNewHomeChain()
	m := map[commontypes.OracleID]libocrtypes.PeerID{}
	var peers []libocrtypes.PeerID
	for i := 0; i < w.n; i++ {
		m[commontypes.OracleID(i)] = vPeer(i)
		peers = append(peers, vPeer(i))
	}
	for ch, f := range w.fChain {
		hc.SetChain(ch, f, peers)
	}
	cfg := w.cfg
	cfg.TokenInfo = map[cciptypes.UnknownEncodedAddress]pluginconfig.TokenInfo{}
	for k, v := range w.cfg.TokenInfo {
		cfg.TokenInfo[k] = v
	}
	cfg.FeeInfo = map[cciptypes.ChainSelector]pluginconfig.FeeInfo{}
	for k, v := range w.cfg.FeeInfo {
		cfg.FeeInfo[k] = v
	}
	p := NewPlugin(1, m, cfg, vC10Dest, &vCCIPReader{}, nil, mocks.NewCommitPluginJSONReportCodec(),
		mocks.NewMessageHasher(), mocks.NullLogger, hc, nil, nil, nil,
		ocr3types.ReportingPluginConfig{F: w.f, N: w.n, OracleID: commontypes.OracleID(me), MaxDurationQuery: time.Second})
	p.discoveryProcessor = nil
	return p, hc
}

// vote pattern: how many oracles report value A, how many value B (rest: nothing)
func vC10Pattern(r *vRand, n, thr int) (string, int, int) {
	switch r.Intn(6) {
	case 0:
		return "agree", n, 0
	case 1:
		return "exact", thr, n - thr
	case 2:
		return "short", thr - 1, n - thr + 1
	case 3:
		if n >= 2*thr {
			return "split2valid", thr, thr
		}
		return "split", n / 2, n - n/2
	case 4:
		return "missing", 0, 0
	default:
		return "exact+none", thr, 0
	}
}

var vC10BigSels = []cciptypes.ChainSelector{5009297550715157269, 11344663589394136015, 15971525489660198786, 4949039107694359620,
	3734403246176062136, 4051577828743386545, 6433500567565415381, 16015286601757825753, 13264668187771770619,
	1<<64 - 1, 1 << 63, 7}

func vC10Root(ch cciptypes.ChainSelector, s, e uint64, tag byte) cciptypes.MerkleRootChain {
	return cciptypes.MerkleRootChain{ChainSel: ch, OnRampAddress: []byte{byte(ch), 0xAA}, SeqNumsRange: cciptypes.NewSeqNumRange(cciptypes.SeqNum(s), cciptypes.SeqNum(e)), MerkleRoot: cciptypes.Bytes32{tag, byte(ch)}}
}

func TestVerif_C10_commit(t *testing.T) {
	ctx := context.Background()
	r := vNewRand(vSeed() + 1010)
	n := vEnvInt("VERIF_N", 60)
	reps := vEnvInt("VERIF_REPS", 16)
	sink := vOpenSink("C10_commit")
	defer sink.Close()
	zones := []*time.Location{time.UTC, time.FixedZone("EET", 2*3600), time.FixedZone("LINT", 14*3600), time.FixedZone("", -5*3600)}
	savedLocal := time.Local
	defer func() { time.Local = savedLocal }()
	base := time.Date(2024, 11, 5, 12, 0, 0, 0, time.UTC)
	// a world lives for three consecutive cases; two veteran plugins (own ids 0 and 1) are created with it and are evaluated
	// on every case of the world next to the fresh instances, the per-chain f values changing in between
	var w *vC10World
	var vetP [2]*Plugin
	var vetHC [2]*vHomeChain
	for i := 0; i < n; i++ {
		if i%3 != 0 {
			for _, ch := range w.sources {
				if r.Chance(1, 2) {
					w.fChain[ch] = r.Range(1, w.f)
				}
			}
			vC10Repoint(vetHC[0], w)
			vC10Repoint(vetHC[1], w)
		}
		if i%3 == 0 {
			w = &vC10World{}
			w.n = vPick(r, []int{4, 7, 10})
			w.f = (w.n - 1) / 3
			ns := r.Range(2, 5)
			perm := r.Perm(50)
			w.fChain = map[cciptypes.ChainSelector]int{vC10Dest: r.Range(1, w.f), vC10Feed: r.Range(1, w.f)}
			// half of the worlds use production-sized selectors (mainnet, BSC, Base, … and the extremes of uint64): chains
			// whose selectors are more than 2^63 apart, or wrap around 2^64 in a cycle, order differently under a
			// subtracting / truncating comparator (seeded change C10-11); their low bytes are pairwise distinct (vC10Root)
			bigSels := r.Chance(1, 2)
			bigPerm := r.Perm(len(vC10BigSels))
			for k := 0; k < ns; k++ {
				ch := cciptypes.ChainSelector(perm[k] + 1)
				if bigSels {
					ch = vC10BigSels[bigPerm[k]]
				}
				w.sources = append(w.sources, ch)
				w.fChain[ch] = r.Range(1, w.f)
			}
			nt := r.Range(1, 4)
			w.cfg = pluginconfig.CommitOffchainConfig{
				RemoteGasPriceBatchWriteFrequency:  *commonconfig.MustNewDuration(time.Minute),
				TokenPriceBatchWriteFrequency:      *commonconfig.MustNewDuration(time.Minute),
				PriceFeedChainSelector:             vC10Feed,
				MaxReportTransmissionCheckAttempts: uint(r.Range(1, 4)),
				MaxMerkleTreeSize:                  uint64(vPick(r, []int{1, 4, 256})),
				TokenInfo:                          map[cciptypes.UnknownEncodedAddress]pluginconfig.TokenInfo{},
				FeeInfo:                            map[cciptypes.ChainSelector]pluginconfig.FeeInfo{},
			}
			for k := 0; k < nt; k++ {
				tok := cciptypes.UnknownEncodedAddress(fmt.Sprintf("0x%040x", perm[10+k]+1))
				w.tokens = append(w.tokens, tok)
				w.cfg.TokenInfo[tok] = pluginconfig.TokenInfo{AggregatorAddress: tok, DeviationPPB: cciptypes.NewBigIntFromInt64(int64(r.Range(1, 5)) * 1e7), Decimals: 18}
			}
			for _, ch := range w.sources {
				w.cfg.FeeInfo[ch] = pluginconfig.FeeInfo{ExecDeviationPPB: cciptypes.NewBigIntFromInt64(1e8), DataAvailabilityDeviationPPB: cciptypes.NewBigIntFromInt64(1e8)}
			}
			vetP[0], vetHC[0] = vC10PluginHC(w, 0)
			vetP[1], vetHC[1] = vC10PluginHC(w, 1)
		}
		// ---- previous outcome / state
		state := vPick(r, []string{"select", "build", "wait", "build-retry"})
		prev := Outcome{}
		q := Query{}
		switch state {
		case "build", "build-retry":
			mo := merkleroot.Outcome{OutcomeType: merkleroot.ReportIntervalsSelected}
			for _, ch := range w.sources {
				mo.RangesSelectedForReport = append(mo.RangesSelectedForReport, plugintypes.ChainRange{ChainSel: ch, SeqNumRange: cciptypes.NewSeqNumRange(10, 12)})
				mo.OffRampNextSeqNums = append(mo.OffRampNextSeqNums, plugintypes.SeqNumChain{ChainSel: ch, SeqNum: 10})
			}
			prev.MerkleRootOutcome = mo
			q.MerkleRootQuery.RetryRMNSignatures = state == "build-retry"
		case "wait":
			mo := merkleroot.Outcome{OutcomeType: vPick(r, []merkleroot.OutcomeType{merkleroot.ReportGenerated, merkleroot.ReportInFlight}),
				ReportTransmissionCheckAttempts: uint(r.Intn(4))}
			for _, ch := range w.sources {
				mo.OffRampNextSeqNums = append(mo.OffRampNextSeqNums, plugintypes.SeqNumChain{ChainSel: ch, SeqNum: 10})
			}
			prev.MerkleRootOutcome = mo
		}
		prevB, _ := prev.Encode()
		qB, _ := q.Encode()
		// ---- observations
		obs := make([]Observation, w.n)
		fch := func() map[cciptypes.ChainSelector]int {
			m := map[cciptypes.ChainSelector]int{}
			for k, v := range w.fChain {
				m[k] = v
			}
			return m
		}
		for o := range obs {
			obs[o].FChain = fch()
			obs[o].MerkleRootObs.FChain = fch()
			obs[o].TokenPriceObs.FChain = fch()
			obs[o].ChainFeeObs.FChain = fch()
			ts := base.Add(time.Duration(r.Intn(3)) * time.Second)
			if r.Chance(1, 3) {
				ts = base // equal timestamps
			}
			obs[o].TokenPriceObs.Timestamp = ts
			obs[o].ChainFeeObs.TimestampNow = ts
			obs[o].TokenPriceObs.FeeQuoterTokenUpdates = map[cciptypes.UnknownEncodedAddress]plugintypes.TimestampedBig{}
			obs[o].ChainFeeObs.FeeComponents = map[cciptypes.ChainSelector]ctypes.ChainFeeComponents{}
			obs[o].ChainFeeObs.NativeTokenPrices = map[cciptypes.ChainSelector]cciptypes.BigInt{}
			obs[o].ChainFeeObs.ChainFeeUpdates = map[cciptypes.ChainSelector]chainfee.Update{}
		}
		classes := ""
		order := r.Perm(w.n)
		nativeOdds := map[cciptypes.ChainSelector]int{}
		for _, ch := range w.sources {
			nativeOdds[ch] = vPick(r, []int{6, 5, 5, 1, 0})
		}
		for _, ch := range w.sources {
			thr := 2*w.fChain[ch] + 1
			pn, a, b := vC10Pattern(r, w.n, thr)
			classes += pn + ","
			for idx, o := range order {
				var v uint64
				switch {
				case idx < a:
					v = 20
				case idx < a+b:
					v = 21
				default:
					continue
				}
				if state != "build-retry" {
					obs[o].MerkleRootObs.OnRampMaxSeqNums = append(obs[o].MerkleRootObs.OnRampMaxSeqNums, plugintypes.SeqNumChain{ChainSel: ch, SeqNum: cciptypes.SeqNum(v)})
				}
			}
			pn2, a2, b2 := vC10Pattern(r, w.n, thr)
			classes += pn2 + ","
			order2 := r.Perm(w.n)
			for idx, o := range order2 {
				var v uint64
				switch {
				case idx < a2:
					v = 10
				case idx < a2+b2:
					v = 13
				default:
					continue
				}
				if state != "build-retry" {
					obs[o].MerkleRootObs.OffRampNextSeqNums = append(obs[o].MerkleRootObs.OffRampNextSeqNums, plugintypes.SeqNumChain{ChainSel: ch, SeqNum: cciptypes.SeqNum(v)})
				}
			}
			if state == "build" {
				pn3, a3, b3 := vC10Pattern(r, w.n, thr)
				classes += pn3 + ","
				order3 := r.Perm(w.n)
				for idx, o := range order3 {
					switch {
					case idx < a3:
						obs[o].MerkleRootObs.MerkleRoots = append(obs[o].MerkleRootObs.MerkleRoots, vC10Root(ch, 10, 12, 1))
					case idx < a3+b3:
						obs[o].MerkleRootObs.MerkleRoots = append(obs[o].MerkleRootObs.MerkleRoots, vC10Root(ch, 10, 12, 2))
					}
				}
			}
			// fee components / native prices / stored updates for this chain
			for o := range obs {
				if state == "build-retry" {
					continue
				}
				if r.Chance(5, 6) {
					obs[o].ChainFeeObs.FeeComponents[ch] = ctypes.ChainFeeComponents{ExecutionFee: big.NewInt(int64(1000 + r.Intn(5))), DataAvailabilityFee: big.NewInt(int64(10 + r.Intn(3)))}
				}
				// native prices independently of the fee components: a chain may reach its threshold for one and not
				// for the other (per chain: priced by nearly everybody, or by too few)
				if r.Chance(nativeOdds[ch], 6) {
					obs[o].ChainFeeObs.NativeTokenPrices[ch] = cciptypes.NewBigInt(new(big.Int).Mul(big.NewInt(int64(2000+r.Intn(4))), big.NewInt(1e18)))
				}
				if r.Chance(4, 6) {
					obs[o].ChainFeeObs.ChainFeeUpdates[ch] = chainfee.Update{
						ChainFee:  chainfee.ComponentsUSDPrices{ExecutionFeePriceUSD: big.NewInt(2000000), DataAvFeePriceUSD: big.NewInt(20000)},
						Timestamp: base.Add(-time.Duration(vPick(r, []int{30, 59, 60, 61, 90})) * time.Second)}
				}
			}
		}
		for _, tok := range w.tokens {
			for o := range obs {
				if state == "build-retry" {
					continue
				}
				if r.Chance(5, 6) {
					obs[o].TokenPriceObs.FeedTokenPrices = append(obs[o].TokenPriceObs.FeedTokenPrices, cciptypes.TokenPrice{TokenID: tok, Price: cciptypes.NewBigIntFromInt64(int64(1e9 + r.Intn(4)*1e7))})
				}
				if r.Chance(4, 6) {
					obs[o].TokenPriceObs.FeeQuoterTokenUpdates[tok] = plugintypes.TimestampedBig{Timestamp: base.Add(-time.Duration(vPick(r, []int{30, 60, 61})) * time.Second), Value: cciptypes.NewBigIntFromInt64(1e9)}
				}
			}
		}
		if state == "select" && r.Bool() {
			for o := range obs {
				obs[o].MerkleRootObs.RMNRemoteConfig = rmntypes.RemoteConfig{ContractAddress: []byte{1}, ConfigDigest: cciptypes.Bytes32{1}, F: 1,
					Signers: []rmntypes.RemoteSignerInfo{{OnchainPublicKey: []byte{1}, NodeIndex: 0}, {OnchainPublicKey: []byte{2}, NodeIndex: 1}}, RmnReportVersion: cciptypes.Bytes32{3}}
			}
		}
		if state == "build-retry" {
			for o := range obs {
				obs[o] = Observation{}
			}
		}
		aos := make([]types.AttributedObservation, 0, w.n)
		for _, o := range r.Perm(w.n) {
			b, err := obs[o].Encode()
			if err != nil {
				t.Fatal(err)
			}
			aos = append(aos, types.AttributedObservation{Observation: b, Observer: commontypes.OracleID(o)})
		}
		// ---- repeated evaluation on fresh instances, different own ids, different process zones
		seen := map[string]bool{}
		errs := 0
		first := ""
		for k := 0; k < reps; k++ {
			time.Local = zones[k%len(zones)]
			p := vC10Plugin(w, k%w.n)
			var repP *Plugin
			if k == reps-1 {
				p, repP = vetP[0], vetP[1]
			}
			out, err := p.Outcome(ctx, ocr3types.OutcomeContext{SeqNr: 5, PreviousOutcome: prevB}, qB, aos)
			key := ""
			if err != nil {
				errs++
				key = "ERR"
			} else {
				h := sha256.Sum256(out)
				key = hex.EncodeToString(h[:8])
				if first == "" {
					first = string(out)
				}
				// reports derived from the outcome, on another fresh instance
				if repP == nil {
					repP = vC10Plugin(w, (k+1)%w.n)
				}
				reps2, err2 := repP.Reports(ctx, 5, out)
				if err2 != nil {
					key += "/RERR"
				} else {
					for _, rp := range reps2 {
						hh := sha256.Sum256(append(append([]byte{}, rp.ReportWithInfo.Report...), rp.ReportWithInfo.Info...))
						key += "/" + hex.EncodeToString(hh[:6]) + fmt.Sprint(rp.TransmissionScheduleOverride)
					}
				}
			}
			seen[key] = true
		}
		time.Local = savedLocal
		if len(first) > 700 {
			first = first[:700]
		}
		ih := sha256.New()
		ih.Write(prevB)
		ih.Write(qB)
		for _, ao := range aos {
			ih.Write([]byte{byte(ao.Observer)})
			ih.Write(ao.Observation)
		}
		ihs := ih.Sum(nil)
		inputID := uint64(ihs[0])<<40 | uint64(ihs[1])<<32 | uint64(ihs[2])<<24 | uint64(ihs[3])<<16 | uint64(ihs[4])<<8 | uint64(ihs[5])
		sink.Emit("C10_commit", state, len(first) > 120, cPair(cTup(cN(0), cN(0), cNi(reps), cN(inputID)), cNi(len(seen))),
			map[string]any{"N": w.n, "F": w.f, "state": state, "sources": w.sources, "tokens": len(w.tokens), "vote_patterns": classes, "distinct_outputs": len(seen), "errors": errs, "outcome": first})
	}
}

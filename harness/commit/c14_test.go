//go:build verif

package commit

import (
	"context"
	"fmt"
	"math/big"
	"sort"
	"strconv"
	"testing"
	"time"

	"github.com/smartcontractkit/libocr/commontypes"
	"github.com/smartcontractkit/libocr/offchainreporting2plus/ocr3types"
	"github.com/smartcontractkit/libocr/offchainreporting2plus/types"
	libocrtypes "github.com/smartcontractkit/libocr/ragep2p/types"

	commonconfig "github.com/smartcontractkit/chainlink-common/pkg/config"
	commontypes2 "github.com/smartcontractkit/chainlink-common/pkg/types"

	"github.com/smartcontractkit/chainlink-ccip/commit/chainfee"
	"github.com/smartcontractkit/chainlink-ccip/commit/tokenprice"
	"github.com/smartcontractkit/chainlink-ccip/internal/mocks"
	plugintypes2 "github.com/smartcontractkit/chainlink-ccip/internal/plugintypes"
	readerpkg "github.com/smartcontractkit/chainlink-ccip/pkg/reader"
	cciptypes "github.com/smartcontractkit/chainlink-ccip/pkg/types/ccipocr3"
	"github.com/smartcontractkit/chainlink-ccip/pluginconfig"
)

// C14 (plugin level): commit.Plugin built with NewPlugin; observations carrying chain-fee and token-price parts go
// through Plugin.ValidateObservation, the accepted ones through Plugin.Outcome (f(source) != f(dest) != F where the DON
// size allows), and the outcome through Plugin.Reports: the report's PriceUpdates are emitted next to the outcome's prices.

const (
	vC14PDest = cciptypes.ChainSelector(900)
	vC14PSrc  = cciptypes.ChainSelector(11)
	vC14PFeed = cciptypes.ChainSelector(50)
)

func vC14PZ(b *big.Int) string {
	if b.Sign() < 0 {
		return "(-0x" + new(big.Int).Neg(b).Text(16) + ")%Z"
	}
	return "(0x" + b.Text(16) + ")%Z"
}
func vC14POpt(b *big.Int) string {
	if b == nil {
		return cNone()
	}
	return cSome(vC14PZ(b))
}
func vC14PTok(id int) cciptypes.UnknownEncodedAddress {
	return cciptypes.UnknownEncodedAddress(fmt.Sprintf("0x%04x", id))
}
func vC14PTokID(t cciptypes.UnknownEncodedAddress) uint64 {
	v, err := strconv.ParseUint(string(t)[2:], 16, 64)
	if err != nil {
		panic(err)
	}
	return v
}
func vC14PCount(r *vRand, f, n int) int {
	c := vPick(r, []int{2 * f, 2*f + 1, 2*f + 1, 2*f + 2, n, n})
	if c > n {
		c = n
	}
	return c
}
func vC14PNear(r *vRand, base *big.Int, ppm int) *big.Int {
	if ppm == 0 {
		return new(big.Int).Set(base)
	}
	d := new(big.Int).Mul(base, big.NewInt(int64(r.Range(-ppm, ppm))))
	d.Div(d, big.NewInt(1e6))
	v := new(big.Int).Add(base, d)
	if v.Sign() <= 0 {
		v.SetInt64(1)
	}
	return v
}
func vC14PStored(r *vRand, cur *big.Int, ppb int64) *big.Int {
	switch r.Intn(5) {
	case 0:
		return new(big.Int).Set(cur)
	case 1:
		return big.NewInt(0)
	}
	den := big.NewInt(1e9 + ppb + int64(r.Range(-1, 1)))
	s := new(big.Int).Mul(cur, big.NewInt(1e9))
	s.Div(s, den)
	s.Add(s, big.NewInt(int64(r.Range(-1, 1))))
	if s.Sign() < 0 {
		s.SetInt64(0)
	}
	return s
}
func vC14PSorted[V any](m map[cciptypes.ChainSelector]V, pr func(V) string) string {
	ks := make([]uint64, 0, len(m))
	for k := range m {
		ks = append(ks, uint64(k))
	}
	vSortU64(ks)
	return cMap(ks, func(k uint64) string { return cPair(cN(k), pr(m[cciptypes.ChainSelector(k)])) })
}

type vC14PChain struct {
	sel     cciptypes.ChainSelector
	f       int
	readers []int
}

func TestVerif_C14_plugin(t *testing.T) {
	ctx := context.Background()
	r := vNewRand(vSeed() + 1407)
	n := vEnvInt("VERIF_N", 150)
	sink := vOpenSink("C14_pplug")
	defer sink.Close()
	e18 := big.NewInt(1e18)
	for i := 0; i < n; i++ {
		nOr, F := 4, 1
		switch r.Intn(3) {
		case 1:
			nOr, F = 7, 2
		case 2:
			nOr, F = 7, 1
		}
		perm := r.Perm(32)
		ids := make([]commontypes.OracleID, nOr)
		idmap := map[commontypes.OracleID]libocrtypes.PeerID{}
		for k := range ids {
			ids[k] = commontypes.OracleID(perm[k])
			idmap[ids[k]] = vPeer(int(ids[k]))
		}
		// f(source) != f(dest) (and != F) where the DON is large enough
		chains := []vC14PChain{{sel: vC14PDest, f: 1}, {sel: vC14PSrc, f: 1}, {sel: vC14PFeed, f: 1}}
		if nOr == 7 {
			fd := r.Range(1, 2)
			chains[0].f, chains[1].f, chains[2].f = fd, 3-fd, r.Range(1, 2)
		}
		hc := vNewHomeChain()
		for k := range chains {
			var peers []libocrtypes.PeerID
			for j, o := range ids {
				if r.Chance(9, 10) {
					chains[k].readers = append(chains[k].readers, j)
					peers = append(peers, vPeer(int(o)))
				}
			}
			if len(peers) == 0 {
				chains[k].readers = []int{0}
				peers = []libocrtypes.PeerID{vPeer(int(ids[0]))}
			}
			hc.SetChain(chains[k].sel, chains[k].f, peers)
		}
		gfreq := vPick(r, []time.Duration{time.Minute, time.Second})
		tfreq := vPick(r, []time.Duration{time.Minute, 3 * time.Hour})
		gppb := [2]int64{vPick(r, []int64{1e6, 5e7}), vPick(r, []int64{1e6, 2e9})}
		feeInfo := map[cciptypes.ChainSelector]pluginconfig.FeeInfo{
			vC14PSrc: {ExecDeviationPPB: cciptypes.NewBigIntFromInt64(gppb[0]), DataAvailabilityDeviationPPB: cciptypes.NewBigIntFromInt64(gppb[1])}}
		nTok := r.Range(1, 3)
		tperm := r.Perm(0x3000)
		toks := make([]cciptypes.UnknownEncodedAddress, nTok)
		tokenInfo := map[cciptypes.UnknownEncodedAddress]pluginconfig.TokenInfo{}
		tppb := map[cciptypes.UnknownEncodedAddress]int64{}
		for k := range toks {
			toks[k] = vC14PTok(1 + tperm[k])
			tppb[toks[k]] = vPick(r, []int64{1e6, 5e7, 1e9})
			tokenInfo[toks[k]] = pluginconfig.TokenInfo{DeviationPPB: cciptypes.NewBigIntFromInt64(tppb[toks[k]]), Decimals: 18}
		}
		cfg := pluginconfig.CommitOffchainConfig{
			RemoteGasPriceBatchWriteFrequency: *commonconfig.MustNewDuration(gfreq), FeeInfo: feeInfo,
			TokenPriceBatchWriteFrequency: *commonconfig.MustNewDuration(tfreq), TokenInfo: tokenInfo, PriceFeedChainSelector: vC14PFeed,
		}
		rd := &vCCIPReader{}
		p := NewPlugin(1, idmap, cfg, vC14PDest, rd, nil, mocks.NewCommitPluginJSONReportCodec(), mocks.NewMessageHasher(),
			mocks.NullLogger, hc, nil, nil, nil,
			ocr3types.ReportingPluginConfig{F: F, N: nOr, OracleID: ids[0], ConfigDigest: [32]byte{1}, MaxDurationQuery: time.Second})
		if r.Bool() {
			p.contractsInitialized.Store(true)
		}

		now := time.Unix(1_700_000_000, int64(r.Intn(1e9))).UTC()
		obs := make([]Observation, nOr)
		for k := range obs {
			obs[k].FChain = map[cciptypes.ChainSelector]int{}
			obs[k].ChainFeeObs = chainfee.Observation{
				FeeComponents:     map[cciptypes.ChainSelector]commontypes2.ChainFeeComponents{},
				NativeTokenPrices: map[cciptypes.ChainSelector]cciptypes.BigInt{},
				ChainFeeUpdates:   map[cciptypes.ChainSelector]chainfee.Update{},
				FChain:            map[cciptypes.ChainSelector]int{}, TimestampNow: now}
			obs[k].TokenPriceObs = tokenprice.Observation{
				FeeQuoterTokenUpdates: map[cciptypes.UnknownEncodedAddress]plugintypes2.TimestampedBig{},
				FChain:                map[cciptypes.ChainSelector]int{}, Timestamp: now}
		}
		for _, c := range chains {
			cnt := vPick(r, []int{nOr, nOr, nOr, 2*F + 1, 2 * F, 3, 2})
			for j, oi := range r.Perm(nOr) {
				if j < cnt {
					obs[oi].FChain[c.sel] = c.f
					obs[oi].ChainFeeObs.FChain[c.sel] = c.f
					obs[oi].TokenPriceObs.FChain[c.sel] = c.f
				}
			}
		}
		spread := vPick(r, []int{0, 0, 1000})
		fDest, src, feed := chains[0].f, chains[1], chains[2]
		// gas: fee components + native price of the source chain from its readers; stored update from destination readers
		exec := new(big.Int).Mul(big.NewInt(int64(r.Range(1, 500))), big.NewInt(1e9))
		da := new(big.Int).Mul(big.NewInt(int64(r.Range(0, 50))), big.NewInt(1e8))
		price := new(big.Int).Mul(big.NewInt(int64(r.Range(1, 5000))), e18)
		nFc := vC14PCount(r, src.f, len(src.readers))
		for j, ri := range r.Perm(len(src.readers)) {
			if j >= nFc {
				break
			}
			oi := src.readers[ri]
			d := vC14PNear(r, da, spread)
			if da.Sign() == 0 {
				d = big.NewInt(0)
			}
			obs[oi].ChainFeeObs.FeeComponents[vC14PSrc] = commontypes2.ChainFeeComponents{ExecutionFee: vC14PNear(r, exec, spread), DataAvailabilityFee: d}
			obs[oi].ChainFeeObs.NativeTokenPrices[vC14PSrc] = cciptypes.NewBigInt(vC14PNear(r, price, spread))
		}
		if r.Chance(3, 4) {
			curEx := new(big.Int).Div(new(big.Int).Mul(exec, price), e18)
			curDa := new(big.Int).Div(new(big.Int).Mul(da, price), e18)
			sEx, sDa := vC14PStored(r, curEx, gppb[0]), new(big.Int).Set(curDa)
			if r.Chance(1, 3) {
				sEx, sDa = new(big.Int).Set(curEx), vC14PStored(r, curDa, gppb[1])
			}
			ts := now.Add(-gfreq).Add(time.Duration(r.Range(-1, 1)))
			dr := chains[0].readers
			nUp := vC14PCount(r, fDest, len(dr))
			for j, ri := range r.Perm(len(dr)) {
				if j >= nUp {
					break
				}
				obs[dr[ri]].ChainFeeObs.ChainFeeUpdates[vC14PSrc] = chainfee.Update{
					ChainFee: chainfee.ComponentsUSDPrices{ExecutionFeePriceUSD: new(big.Int).Set(sEx), DataAvFeePriceUSD: new(big.Int).Set(sDa)}, Timestamp: ts}
			}
		}
		// tokens: feed prices from feed-chain readers, stored updates from destination readers
		for _, tok := range toks {
			tp := new(big.Int).Mul(big.NewInt(int64(r.Range(1, 5000))), e18)
			nP := vC14PCount(r, feed.f, len(feed.readers))
			for j, ri := range r.Perm(len(feed.readers)) {
				if j >= nP {
					break
				}
				oi := feed.readers[ri]
				obs[oi].TokenPriceObs.FeedTokenPrices = append(obs[oi].TokenPriceObs.FeedTokenPrices,
					cciptypes.TokenPrice{TokenID: tok, Price: cciptypes.NewBigInt(vC14PNear(r, tp, spread))})
			}
			if r.Chance(3, 4) {
				st := vC14PStored(r, tp, tppb[tok])
				ts := now.Add(-tfreq).Add(time.Duration(r.Range(-1, 1)))
				dr := chains[0].readers
				nUp := vC14PCount(r, fDest, len(dr))
				for j, ri := range r.Perm(len(dr)) {
					if j >= nUp {
						break
					}
					obs[dr[ri]].TokenPriceObs.FeeQuoterTokenUpdates[tok] = plugintypes2.TimestampedBig{Timestamp: ts, Value: cciptypes.NewBigInt(new(big.Int).Set(st))}
				}
			}
		}
		byz := ""
		for b, nb := 0, r.Intn(2); b < nb; b++ {
			oi := r.Intn(nOr)
			switch r.Intn(5) {
			case 0:
				obs[oi].ChainFeeObs.ChainFeeUpdates[vC14PSrc] = chainfee.Update{Timestamp: now}
				byz += "+nilupdate"
			case 1:
				obs[oi].TokenPriceObs.FeeQuoterTokenUpdates[toks[0]] = plugintypes2.TimestampedBig{Timestamp: now}
				byz += "+niltokupdate"
			case 2:
				obs[oi].TokenPriceObs.FeedTokenPrices = append(obs[oi].TokenPriceObs.FeedTokenPrices,
					cciptypes.TokenPrice{TokenID: toks[0], Price: cciptypes.NewBigIntFromInt64(1)}, cciptypes.TokenPrice{TokenID: toks[0], Price: cciptypes.NewBigIntFromInt64(1)})
				byz += "+duptoken"
			case 3:
				obs[oi].ChainFeeObs.FeeComponents[vC14PSrc] = commontypes2.ChainFeeComponents{ExecutionFee: big.NewInt(0), DataAvailabilityFee: big.NewInt(1)}
				byz += "+zeroexec"
			case 4:
				obs[oi].FChain[vC14PSrc] = 0
				byz += "+topfnonpos"
			}
		}

		order := r.Perm(nOr)
		if r.Bool() {
			sort.Slice(order, func(a, b int) bool { return ids[order[a]] < ids[order[b]] })
		}
		emptyQ, _ := Query{}.Encode()
		verdicts := make([]string, nOr)
		aoStr := make([]string, nOr)
		var accepted []types.AttributedObservation
		cls := fmt.Sprintf("N%dF%d", nOr, F)
		if chains[0].f != chains[1].f {
			cls += "/fsrc!=fdest"
		}
		for k, oi := range order {
			enc, err := obs[oi].Encode()
			if err != nil {
				t.Fatal(err)
			}
			ao := types.AttributedObservation{Observation: enc, Observer: ids[oi]}
			ok := func() (ok bool) {
				defer func() {
					if recover() != nil {
						ok = false
						cls += "+VALPANIC"
					}
				}()
				return p.ValidateObservation(ctx, ocr3types.OutcomeContext{}, emptyQ, ao) == nil
			}()
			verdicts[k] = cBool(ok)
			if ok {
				accepted = append(accepted, ao)
			}
			cf, tp := obs[oi].ChainFeeObs, obs[oi].TokenPriceObs
			var uk []uint64
			for tk := range tp.FeeQuoterTokenUpdates {
				uk = append(uk, vC14PTokID(tk))
			}
			vSortU64(uk)
			cfStr := cApp("mkCfRaw",
				vC14PSorted(cf.FeeComponents, func(c commontypes2.ChainFeeComponents) string {
					return cPair(vC14POpt(c.ExecutionFee), vC14POpt(c.DataAvailabilityFee))
				}),
				vC14PSorted(cf.NativeTokenPrices, func(b cciptypes.BigInt) string { return vC14POpt(b.Int) }),
				vC14PSorted(cf.ChainFeeUpdates, func(u chainfee.Update) string {
					return cTup(vC14POpt(u.ChainFee.ExecutionFeePriceUSD), vC14POpt(u.ChainFee.DataAvFeePriceUSD), vC14PZ(big.NewInt(u.Timestamp.UnixNano())))
				}),
				vC14PSorted(cf.FChain, func(f int) string { return cZ(int64(f)) }),
				vC14PZ(big.NewInt(cf.TimestampNow.UnixNano())))
			tpStr := cApp("mkTpRaw",
				cMap(tp.FeedTokenPrices, func(q cciptypes.TokenPrice) string { return cPair(cN(vC14PTokID(q.TokenID)), vC14POpt(q.Price.Int)) }),
				cMap(uk, func(k uint64) string {
					u := tp.FeeQuoterTokenUpdates[vC14PTok(int(k))]
					return cPair(cN(k), cPair(vC14PZ(big.NewInt(u.Timestamp.UnixNano())), vC14POpt(u.Value.Int)))
				}),
				vC14PSorted(tp.FChain, func(f int) string { return cZ(int64(f)) }),
				vC14PZ(big.NewInt(tp.Timestamp.UnixNano())))
			aoStr[k] = cPair(cN(uint64(ids[oi])), cTup(cfStr, tpStr, vC14PSorted(obs[oi].FChain, func(f int) string { return cZ(int64(f)) })))
		}
		gasStr := func(gs []cciptypes.GasPriceChain) string {
			return cMap(gs, func(g cciptypes.GasPriceChain) string { return cPair(cN(uint64(g.ChainSel)), vC14PZ(g.GasPrice.Int)) })
		}
		tokStr := func(ts []cciptypes.TokenPrice) string {
			return cMap(ts, func(q cciptypes.TokenPrice) string { return cPair(cN(vC14PTokID(q.TokenID)), vC14PZ(q.Price.Int)) })
		}
		nPrices := 0
		res := func() (out string) {
			defer func() {
				if recover() != nil {
					out = "Panic"
				}
			}()
			ocb, err := p.Outcome(ctx, ocr3types.OutcomeContext{}, emptyQ, accepted)
			if err != nil {
				return "Err"
			}
			oc, err := decodeOutcome(ocb)
			if err != nil {
				return "Err"
			}
			reps, err := p.Reports(ctx, 1, ocb)
			if err != nil || len(reps) > 1 {
				return "Err"
			}
			var pu cciptypes.PriceUpdates
			if len(reps) == 1 {
				rep, err := p.reportCodec.Decode(ctx, reps[0].ReportWithInfo.Report)
				if err != nil {
					return "Err"
				}
				pu = rep.PriceUpdates
			}
			nPrices = len(oc.ChainFeeOutcome.GasPrices) + len(oc.TokenPriceOutcome.TokenPrices)
			return cApp("pp_out", gasStr(oc.ChainFeeOutcome.GasPrices), tokStr(oc.TokenPriceOutcome.TokenPrices),
				gasStr(pu.GasPriceUpdates), tokStr(pu.TokenPriceUpdates))
		}()
		sort.Slice(chains, func(a, b int) bool { return chains[a].sel < chains[b].sel })
		roleStr := cMap(chains, func(c vC14PChain) string {
			return cPair(cN(uint64(c.sel)), cMap(c.readers, func(j int) string { return cN(uint64(ids[j])) }))
		})
		known := cMap(ids, func(o commontypes.OracleID) string { return cN(uint64(o)) })
		var tiKeys []uint64
		for k := range tokenInfo {
			tiKeys = append(tiKeys, vC14PTokID(k))
		}
		vSortU64(tiKeys)
		input := cTup(vC14PZ(big.NewInt(int64(gfreq))),
			cList([]string{cPair(cN(uint64(vC14PSrc)), cPair(cZ(gppb[0]), cZ(gppb[1])))}),
			vC14PZ(big.NewInt(int64(tfreq))),
			cMap(tiKeys, func(k uint64) string { return cPair(cN(k), cZ(tppb[vC14PTok(int(k))])) }),
			cN(uint64(vC14PFeed)), cZ(int64(F)), cN(uint64(vC14PDest)), roleStr, known, cList(aoStr))
		if byz != "" {
			cls += "/byz"
		}
		if nPrices > 0 {
			cls += "/prices"
		} else {
			cls += "/none"
		}
		sink.Emit("C14_pplug", cls, nPrices > 0, cPair(input, cPair(cList(verdicts), res)),
			map[string]any{"N": nOr, "F": F, "fdest": fDest, "fsrc": src.f, "ffeed": feed.f, "byz": byz, "obs": obs, "order": order, "result": res})
	}
}

var _ readerpkg.CCIPReader = (*vCCIPReader)(nil)

//go:build verif

package tokenprice

import (
	"context"
	"encoding/json"
	"math/big"
	"sort"
	"strings"
	"testing"
	"time"

	"github.com/smartcontractkit/libocr/commontypes"
	libocrtypes "github.com/smartcontractkit/libocr/ragep2p/types"

	commonconfig "github.com/smartcontractkit/chainlink-common/pkg/config"
	"github.com/smartcontractkit/chainlink-common/pkg/logger"

	"github.com/smartcontractkit/chainlink-ccip/internal/plugincommon"
	"github.com/smartcontractkit/chainlink-ccip/internal/plugintypes"
	cciptypes "github.com/smartcontractkit/chainlink-ccip/pkg/types/ccipocr3"
	"github.com/smartcontractkit/chainlink-ccip/pluginconfig"
)

// C14 (tokenprice, histories): ONE processor built with NewProcessor over ONE home-chain fake lives through a history of
// rounds; round k+1 is handed the Outcome value round k returned (JSON round-tripped; also after an error) or an arbitrary
// non-empty previous outcome. Between rounds the role map, the chains' f, the observers, the agreement on f(dest) / f(feed),
// the stored fee-quoter updates (fresh / heartbeat-due / absent / at the deviation boundary), the feed prices and the clock
// change. One case per round: (previous outcome, this round's full input) -> (verdicts, result, prices of the returned value).

type vC14HTokState struct {
	price  *big.Int
	stored *plugintypes.TimestampedBig
}

func vC14HToks(ts []cciptypes.TokenPrice) string {
	if len(ts) == 0 {
		return "no_prices"
	}
	return cMap(ts, func(p cciptypes.TokenPrice) string { return cPair(cN(vC14TokID(p.TokenID)), vC14Z(p.Price.Int)) })
}

func vC14HPeers(ids []commontypes.OracleID, readers []int) []libocrtypes.PeerID {
	ps := make([]libocrtypes.PeerID, 0, len(readers))
	for _, j := range readers {
		ps = append(ps, vPeer(int(ids[j])))
	}
	return ps
}

func vC14HUniq(xs []string) []string {
	var out []string
	for i, x := range xs {
		if i == 0 || xs[i-1] != x {
			out = append(out, x)
		}
	}
	return out
}

func TestVerif_C14_tph(t *testing.T) {
	r := vNewRand(vSeed() + 1416)
	n := vEnvInt("VERIF_N", 250)
	sink := vOpenSink("C14_tph")
	defer sink.Close()
	e18 := big.NewInt(1e18)
	emitted := 0
	for hist := 0; emitted < n; hist++ {
		nOr := r.Range(4, 10)
		F := (nOr - 1) / 3
		hcls := "std"
		if r.Chance(1, 12) {
			F = r.Range(0, 3)
			hcls = "Frand"
		}
		perm := r.Perm(32)
		ids := make([]commontypes.OracleID, nOr)
		idmap := map[commontypes.OracleID]libocrtypes.PeerID{}
		for k := range ids {
			ids[k] = commontypes.OracleID(perm[k])
			idmap[ids[k]] = vPeer(int(ids[k]))
		}
		dest := cciptypes.ChainSelector(900)
		feed := cciptypes.ChainSelector(50)
		maxF := 1
		if nOr >= 6 {
			maxF = 2
		}
		pickF := func() int {
			if r.Chance(1, 10) {
				return r.Range(1, 2)
			}
			return r.Range(1, maxF)
		}
		chains := []vC14Chain{{sel: dest, f: pickF()}, {sel: feed, f: pickF()}}
		if r.Chance(1, 2) {
			chains = append(chains, vC14Chain{sel: 60, f: pickF()})
		}
		hc := vNewHomeChain()
		for k := range chains {
			for j := range ids {
				if r.Chance(19, 20) {
					chains[k].readers = append(chains[k].readers, j)
				}
			}
			hc.SetChain(chains[k].sel, chains[k].f, vC14HPeers(ids, chains[k].readers))
		}
		freq := vPick(r, []time.Duration{time.Minute, time.Second, 3 * time.Hour})
		if r.Chance(1, 30) {
			freq = 0
			hcls += "+freq0"
		}
		nTok := r.Range(1, 4)
		tperm := r.Perm(0x3000)
		toks := make([]cciptypes.UnknownEncodedAddress, nTok)
		tokenInfo := map[cciptypes.UnknownEncodedAddress]pluginconfig.TokenInfo{}
		ppbOf := map[cciptypes.UnknownEncodedAddress]int64{}
		state := map[cciptypes.UnknownEncodedAddress]*vC14HTokState{}
		for k := range toks {
			toks[k] = vC14Tok(1 + tperm[k])
			if r.Chance(9, 10) {
				p := vPick(r, []int64{1e6, 5e7, 1e9, 1})
				ppbOf[toks[k]] = p
				tokenInfo[toks[k]] = pluginconfig.TokenInfo{DeviationPPB: cciptypes.NewBigIntFromInt64(p), Decimals: 18}
			}
			st := &vC14HTokState{price: new(big.Int).Mul(big.NewInt(int64(r.Range(1, 5000))), e18)}
			switch r.Intn(8) {
			case 0:
				st.price = vC14Pow2(130)
			case 1:
				st.price = big.NewInt(int64(r.Range(1, 1000)))
			}
			state[toks[k]] = st
		}
		// the long-lived instance: the real constructor
		proc := NewProcessor(ids[0], logger.Nop(),
			pluginconfig.CommitOffchainConfig{TokenPriceBatchWriteFrequency: *commonconfig.MustNewDuration(freq),
				TokenInfo: tokenInfo, PriceFeedChainSelector: feed},
			dest, plugincommon.NewChainSupport(logger.Nop(), hc, idmap, ids[0], dest), nil, hc, F)

		now := time.Unix(1_700_000_000, int64(r.Intn(1e9))).UTC()
		lastNow := now
		arbPrev := func() Outcome {
			var ps []cciptypes.TokenPrice
			for _, tok := range toks {
				if r.Chance(2, 3) {
					ps = append(ps, cciptypes.TokenPrice{TokenID: tok, Price: cciptypes.NewBigInt(vPick(r, []*big.Int{big.NewInt(1), vC14Pow2(130), big.NewInt(int64(r.Range(2, 1<<40)))}))})
				}
			}
			if len(ps) == 0 || r.Chance(1, 4) {
				ps = append(ps, cciptypes.TokenPrice{TokenID: vC14Tok(0x3f00 + r.Intn(3)), Price: cciptypes.NewBigIntFromInt64(int64(r.Range(1, 1<<40)))})
			}
			sort.Slice(ps, func(a, b int) bool { return ps[a].TokenID < ps[b].TokenID })
			return Outcome{TokenPrices: ps}
		}
		prev, prevKind := Outcome{}, "first-empty"
		if r.Chance(1, 2) {
			prev, prevKind = arbPrev(), "first-arb"
		}
		var lastReturned Outcome
		rounds := r.Range(3, 8)
		// calm histories: every round is nominal (all oracles observe everything they can read, full agreement, no spread,
		// small clock steps, what was reported is written) except for ONE deviation; wild histories: everything varies at once
		calm := r.Chance(1, 2)
		if calm {
			hcls += "+calm"
			rounds = r.Range(4, 10)
			for _, tok := range toks {
				if st := state[tok]; r.Bool() {
					st.stored = &plugintypes.TimestampedBig{Timestamp: now.Add(-freq / 2), Value: cciptypes.NewBigInt(new(big.Int).Set(st.price))}
				}
			}
		}
		for k := 0; k < rounds && emitted < n; k++ {
			var changes []string
			dev, devTok := "", vPick(r, toks)
			if calm && r.Chance(3, 4) {
				dev = vPick(r, []string{"roles", "f", "market", "heartbeat", "clockback", "wipe", "stored-boundary", "stored-heartbeat",
					"observers", "observers", "quiet", "quiet", "fdest-agreement", "ffeed-agreement", "price-count", "price-count",
					"outliers", "nup", "byz", "arbprev"})
			}
			if k > 0 {
				lastNow = now
				step := vPick(r, []time.Duration{time.Second, time.Second, freq / 3, freq / 3, freq / 7, freq - 1, freq, freq + 1, 2 * freq})
				if calm {
					step = vPick(r, []time.Duration{time.Second, freq / 7})
					if dev == "heartbeat" {
						step = vPick(r, []time.Duration{freq - 1, freq, freq + 1, 2 * freq})
					}
				}
				now = now.Add(step)
				if (!calm && r.Chance(1, 12)) || dev == "clockback" {
					now = lastNow.Add(-time.Second)
					changes = append(changes, "clockback")
				}
				muts := []func(){
					func() {
						c := &chains[r.Intn(len(chains))]
						if len(c.readers) > 0 && r.Bool() {
							x := r.Intn(len(c.readers))
							c.readers = append(append([]int{}, c.readers[:x]...), c.readers[x+1:]...)
						} else {
							have := map[int]bool{}
							for _, j := range c.readers {
								have[j] = true
							}
							for _, j := range r.Perm(nOr) {
								if !have[j] {
									c.readers = append(append([]int{}, c.readers...), j)
									break
								}
							}
						}
						hc.SetChain(c.sel, c.f, vC14HPeers(ids, c.readers))
						changes = append(changes, "roles")
					},
					func() {
						c := &chains[r.Intn(len(chains))]
						if maxF == 2 || r.Chance(1, 6) {
							c.f = 3 - c.f
						}
						hc.SetChain(c.sel, c.f, vC14HPeers(ids, c.readers))
						switch c.sel {
						case dest:
							changes = append(changes, "fdest")
						case feed:
							changes = append(changes, "ffeed")
						default:
							changes = append(changes, "fother")
						}
					},
					func() {
						st := state[vPick(r, toks)]
						switch r.Intn(3) {
						case 0:
							st.price = new(big.Int).Mul(big.NewInt(int64(r.Range(1, 5000))), e18)
						case 1:
							st.price = new(big.Int).Add(st.price, big.NewInt(int64(r.Range(1, 1000))))
						case 2:
							st.price = new(big.Int).Add(st.price, new(big.Int).Div(st.price, big.NewInt(int64(r.Range(10, 2000)))))
						}
						changes = append(changes, "market")
					},
				}
				switch {
				case calm:
					switch dev {
					case "roles":
						muts[0]()
					case "f":
						muts[1]()
					case "market":
						muts[2]()
					}
				case r.Intn(4) == 0:
				case r.Bool():
					vPick(r, muts)()
				default:
					for _, mi := range r.Perm(len(muts))[:r.Range(2, 3)] {
						muts[mi]()
					}
				}
			}
			// what the fee quoter stores: the last returned prices were written (or not), wiped, or sit at a boundary
			for _, tok := range toks {
				st := state[tok]
				written := false
				for _, p := range lastReturned.TokenPrices {
					if p.TokenID == tok && (calm || r.Chance(3, 4)) {
						st.stored = &plugintypes.TimestampedBig{Timestamp: lastNow, Value: cciptypes.NewBigInt(new(big.Int).Set(p.Price.Int))}
						written = true
					}
				}
				if written {
					continue
				}
				op := r.Intn(8)
				if calm {
					op = 7
					if tok == devTok {
						switch dev {
						case "wipe":
							op = 0
						case "stored-boundary":
							op = 1
						case "stored-heartbeat":
							op = 3
						}
					}
				}
				switch op {
				case 0, 4:
					st.stored = nil
				case 1, 2:
					pp, ok := ppbOf[tok]
					if !ok {
						pp = 1e6
					}
					ts := now.Add(-freq).Add(time.Duration(r.Range(-1, 1)))
					if r.Chance(1, 2) {
						ts = now.Add(-freq / 2)
					}
					st.stored = &plugintypes.TimestampedBig{Timestamp: ts, Value: cciptypes.NewBigInt(vC14Stored(r, st.price, pp))}
				case 3:
					if st.stored != nil {
						st.stored = &plugintypes.TimestampedBig{Timestamp: now.Add(-freq).Add(time.Duration(r.Range(-1, 1))), Value: st.stored.Value}
					}
				}
			}
			if dev == "clockback" && k > 0 {
				// the clock went back across a heartbeat boundary: due at the previous round's time, not due now
				if st := state[devTok]; st.stored != nil {
					st.stored = &plugintypes.TimestampedBig{Timestamp: now.Add(-freq).Add(lastNow.Sub(now) / 2), Value: st.stored.Value}
				}
			}
			nObs := vPick(r, []int{nOr, nOr, nOr, nOr, nOr, nOr, nOr, nOr, 2*F + 1, 2*F + 1, 2*chains[1].f + 1, 2 * F, r.Range(0, 1)})
			if calm {
				nObs = nOr
				if dev == "observers" {
					nObs = vPick(r, []int{2*F + 1, 2*chains[1].f + 1, 2 * F, 2 * chains[1].f, 1})
				}
			}
			if nObs > nOr {
				nObs = nOr
			}
			if nObs < nOr {
				changes = append(changes, "observers")
			}
			observers := r.Perm(nOr)[:nObs]
			isObs := map[int]bool{}
			for _, oi := range observers {
				isObs[oi] = true
			}
			quiet := r.Chance(1, 6)
			if calm {
				quiet = dev == "quiet"
			}
			if quiet {
				changes = append(changes, "quiet")
			}
			obs := make([]Observation, nOr)
			sameNow := r.Chance(1, 2) || calm
			for k := range obs {
				obs[k] = Observation{FeeQuoterTokenUpdates: map[cciptypes.UnknownEncodedAddress]plugintypes.TimestampedBig{},
					FChain: map[cciptypes.ChainSelector]int{}, Timestamp: now}
				if !sameNow {
					obs[k].Timestamp = now.Add(time.Duration(r.Range(-2000, 2000)) * time.Millisecond)
				}
			}
			for ci, c := range chains {
				cnt := nObs
				lose := r.Chance(1, 10)
				if calm {
					lose = (ci == 0 && dev == "fdest-agreement") || (ci == 1 && dev == "ffeed-agreement")
				}
				if lose {
					cnt = vPick(r, []int{2*F + 1, 2 * F, 0})
					switch ci {
					case 0:
						changes = append(changes, "fdest-agreement")
					case 1:
						changes = append(changes, "ffeed-agreement")
					}
				}
				for j, oi := range observers {
					if j < cnt {
						obs[oi].FChain[c.sel] = c.f
					} else if r.Chance(1, 3) {
						obs[oi].FChain[c.sel] = c.f + 1
					}
				}
			}
			spread := vPick(r, []int{0, 0, 1000, 200000})
			if calm {
				spread = 0
			}
			fDest, fFeed := chains[0].f, chains[1].f
			var fr, dr []int
			for _, j := range chains[1].readers {
				if isObs[j] {
					fr = append(fr, j)
				}
			}
			for _, j := range chains[0].readers {
				if isObs[j] {
					dr = append(dr, j)
				}
			}
			for _, tok := range toks {
				st := state[tok]
				nP := vC14Count(r, fFeed, len(fr))
				if r.Chance(1, 8) {
					nP = 0
				}
				if calm {
					nP = len(fr)
					if dev == "price-count" && tok == devTok {
						nP = vPick(r, []int{0, 2 * fFeed, 2*fFeed + 1})
						if nP > len(fr) {
							nP = len(fr)
						}
					}
				}
				if quiet {
					nP = vPick(r, []int{0, 0, 2 * fFeed, 1})
					if nP > len(fr) {
						nP = len(fr)
					}
				}
				nOut := r.Intn(fFeed + 1)
				if calm {
					nOut = 0
					if dev == "outliers" && tok == devTok {
						nOut = fFeed
					}
				}
				for j, ri := range r.Perm(len(fr)) {
					if j >= nP {
						break
					}
					p := vC14Near(r, st.price, spread)
					if j < nOut {
						p = vC14Outlier(r)
					}
					obs[fr[ri]].FeedTokenPrices = append(obs[fr[ri]].FeedTokenPrices, cciptypes.TokenPrice{TokenID: tok, Price: cciptypes.NewBigInt(p)})
				}
				if st.stored != nil {
					nUp := vC14Count(r, fDest, len(dr))
					if r.Chance(1, 6) {
						nUp = 0 // nobody reports what the destination stores
					}
					nUo := 0
					if r.Chance(1, 4) {
						nUo = r.Intn(fDest + 1)
					}
					if calm {
						nUp, nUo = len(dr), 0
						if dev == "nup" && tok == devTok {
							nUp = vPick(r, []int{0, 2 * fDest, 2*fDest + 1})
							if nUp > len(dr) {
								nUp = len(dr)
							}
						}
					}
					for j, ri := range r.Perm(len(dr)) {
						if j >= nUp {
							break
						}
						u := plugintypes.TimestampedBig{Timestamp: st.stored.Timestamp, Value: cciptypes.NewBigInt(new(big.Int).Set(st.stored.Value.Int))}
						if j < nUo {
							u = plugintypes.TimestampedBig{Timestamp: u.Timestamp.Add(time.Duration(r.Range(-5, 5)) * time.Hour), Value: cciptypes.NewBigInt(vC14Outlier(r))}
						}
						obs[dr[ri]].FeeQuoterTokenUpdates[tok] = u
					}
				}
			}
			byz := ""
			nByz := r.Intn(5) / 3
			if calm {
				nByz = 0
				if dev == "byz" {
					nByz = 1
				}
			}
			for b := 0; b < nByz && nObs > 0; b++ {
				oi := vPick(r, observers)
				tok := vPick(r, toks)
				switch r.Intn(5) {
				case 0:
					obs[oi].FeedTokenPrices = append(obs[oi].FeedTokenPrices, cciptypes.TokenPrice{TokenID: tok, Price: cciptypes.NewBigInt(vC14Outlier(r))},
						cciptypes.TokenPrice{TokenID: tok, Price: cciptypes.NewBigInt(vC14Outlier(r))})
					byz += "+duptoken"
				case 1:
					obs[oi].FeedTokenPrices = append(obs[oi].FeedTokenPrices, cciptypes.TokenPrice{TokenID: vC14Tok(0x3fff), Price: cciptypes.BigInt{}})
					byz += "+nilprice"
				case 2:
					obs[oi].FeeQuoterTokenUpdates[tok] = plugintypes.TimestampedBig{Timestamp: now}
					byz += "+nilupdate"
				case 3:
					obs[oi].FChain[vPick(r, chains).sel] = vPick(r, []int{0, -1})
					byz += "+fnonpos"
				case 4:
					obs[oi].FChain[vPick(r, chains).sel] = vPick(r, []int{3, 9, 1 << 40})
					byz += "+finflated"
				}
			}
			if k > 0 {
				prevKind = "own"
				if (!calm && r.Chance(1, 6)) || dev == "arbprev" {
					prev, prevKind = arbPrev(), "arb"
				}
			}
			prevStr := vC14HToks(prev.TokenPrices)

			aos := make([]plugincommon.AttributedObservation[Observation], 0, nObs)
			for _, oi := range observers {
				aos = append(aos, plugincommon.AttributedObservation[Observation]{OracleID: ids[oi], Observation: obs[oi]})
			}
			cls := hcls
			verdicts := make([]string, len(aos))
			var accepted []plugincommon.AttributedObservation[Observation]
			for k, ao := range aos {
				ok := func() (ok bool) {
					defer func() {
						if recover() != nil {
							ok = false
							cls += "+VALPANIC"
						}
					}()
					return proc.ValidateObservation(prev, Query{}, ao) == nil
				}()
				verdicts[k] = cBool(ok)
				if ok {
					accepted = append(accepted, ao)
				}
			}
			var returned Outcome
			res := func() (out string) {
				defer func() {
					if recover() != nil {
						out = "Panic"
						returned = Outcome{}
					}
				}()
				oc, err := proc.Outcome(context.Background(), prev, Query{}, accepted)
				returned = oc
				if err != nil {
					return "Err"
				}
				return cApp("Ok", vC14HToks(oc.TokenPrices))
			}()
			carried := vC14HToks(returned.TokenPrices)
			lastReturned = returned
			var next Outcome
			if b, err := json.Marshal(returned); err != nil || json.Unmarshal(b, &next) != nil {
				t.Fatalf("outcome does not round-trip: %v", err)
			}

			sorted := append([]vC14Chain{}, chains...)
			sort.Slice(sorted, func(a, b int) bool { return sorted[a].sel < sorted[b].sel })
			roleStr := cMap(sorted, func(c vC14Chain) string {
				return cPair(cN(uint64(c.sel)), cMap(c.readers, func(j int) string { return cN(uint64(ids[j])) }))
			})
			known := cMap(ids, func(o commontypes.OracleID) string { return cN(uint64(o)) })
			var tiKeys []uint64
			for k := range tokenInfo {
				tiKeys = append(tiKeys, vC14TokID(k))
			}
			vSortU64(tiKeys)
			tiStr := cMap(tiKeys, func(k uint64) string { return cPair(cN(k), cZ(ppbOf[vC14Tok(int(k))])) })
			aoStr := cMap(aos, func(ao plugincommon.AttributedObservation[Observation]) string {
				o := ao.Observation
				var uk []uint64
				for k := range o.FeeQuoterTokenUpdates {
					uk = append(uk, vC14TokID(k))
				}
				vSortU64(uk)
				var fk []uint64
				for k := range o.FChain {
					fk = append(fk, uint64(k))
				}
				vSortU64(fk)
				return cPair(cN(uint64(ao.OracleID)), cApp("mkTpRaw",
					cMap(o.FeedTokenPrices, func(p cciptypes.TokenPrice) string { return cPair(cN(vC14TokID(p.TokenID)), vC14OptZ(p.Price.Int)) }),
					cMap(uk, func(k uint64) string {
						u := o.FeeQuoterTokenUpdates[vC14Tok(int(k))]
						return cPair(cN(k), cPair(vC14Zi(u.Timestamp.UnixNano()), vC14OptZ(u.Value.Int)))
					}),
					cMap(fk, func(k uint64) string { return cPair(cN(k), cZ(int64(o.FChain[cciptypes.ChainSelector(k)]))) }),
					vC14Zi(o.Timestamp.UnixNano())))
			})
			input := cPair(prevStr, cTup(vC14Zi(int64(freq)), tiStr, cN(uint64(feed)), cZ(int64(F)), cN(uint64(dest)), roleStr, known, aoStr))
			cls += "/prev=" + prevKind
			if len(prev.TokenPrices) > 0 {
				cls += "+"
			}
			if calm {
				changes = nil
				if dev != "" {
					changes = []string{dev}
				}
			}
			if len(changes) > 0 {
				sort.Strings(changes)
				cls += "/" + strings.Join(vC14HUniq(changes), ",")
			}
			if byz != "" {
				cls += "/byz"
			}
			switch {
			case res == "Err":
				cls += "/err"
			case res == "Panic":
				cls += "/panic"
			case len(returned.TokenPrices) == 0:
				cls += "/none"
			default:
				cls += "/prices"
			}
			sink.Emit("C14_tph", cls, len(prev.TokenPrices) > 0, cPair(input, cApp("hist_o", cList(verdicts), res, carried)),
				map[string]any{"history": hist, "round": k, "F": F, "n": nOr, "freq_ns": int64(freq), "byz": byz, "changes": changes,
					"prev": prev, "prevKind": prevKind, "aos": aos, "tokenInfo": ppbOf, "result": res, "returned": returned})
			emitted++
			prev = next
		}
		_ = proc.Close()
	}
}

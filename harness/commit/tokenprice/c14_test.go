//go:build verif

package tokenprice

import (
	"context"
	"fmt"
	"math/big"
	"sort"
	"strconv"
	"testing"
	"time"

	"github.com/smartcontractkit/libocr/commontypes"
	libocrtypes "github.com/smartcontractkit/libocr/ragep2p/types"

	commonconfig "github.com/smartcontractkit/chainlink-common/pkg/config"
	"github.com/smartcontractkit/chainlink-common/pkg/logger"

	"github.com/smartcontractkit/chainlink-ccip/internal/plugincommon"
	"github.com/smartcontractkit/chainlink-ccip/internal/plugintypes"
	cciptypes "github.com/smartcontractkit/chainlink-ccip/pkg/types/ccipocr3"
	"github.com/smartcontractkit/chainlink-ccip/pluginconfig"
)

// Coq numerals in hexadecimal: decimal literals of 20..80 digits dominate the parsing time of the case files
func vC14Z(b *big.Int) string {
	if b.Sign() < 0 {
		return "(-0x" + new(big.Int).Neg(b).Text(16) + ")%Z"
	}
	return "(0x" + b.Text(16) + ")%Z"
}
func vC14Zi(v int64) string { return vC14Z(big.NewInt(v)) }

// C14 (tokenprice part): ValidateObservation on every generated observation + Outcome on the accepted ones.

func vC14Tok(id int) cciptypes.UnknownEncodedAddress {
	return cciptypes.UnknownEncodedAddress(fmt.Sprintf("0x%04x", id)) // fixed width: string order = numeric order
}
func vC14TokID(t cciptypes.UnknownEncodedAddress) uint64 {
	v, err := strconv.ParseUint(string(t)[2:], 16, 64)
	if err != nil {
		panic(err)
	}
	return v
}

func vC14Pow2(n int) *big.Int { return new(big.Int).Lsh(big.NewInt(1), uint(n)) }

func vC14OptZ(b *big.Int) string {
	if b == nil {
		return cNone()
	}
	return cSome(vC14Z(b))
}

func vC14Count(r *vRand, f, n int) int {
	c := vPick(r, []int{2 * f, 2*f + 1, 2*f + 1, 2*f + 2, n, n})
	if c > n {
		c = n
	}
	if c < 0 {
		c = 0
	}
	return c
}

func vC14Near(r *vRand, base *big.Int, spreadPPM int) *big.Int {
	if spreadPPM == 0 {
		return new(big.Int).Set(base)
	}
	d := new(big.Int).Mul(base, big.NewInt(int64(r.Range(-spreadPPM, spreadPPM))))
	d.Div(d, big.NewInt(1e6))
	return new(big.Int).Add(base, d)
}

func vC14Outlier(r *vRand) *big.Int {
	return vPick(r, []*big.Int{big.NewInt(0), big.NewInt(1), vC14Pow2(256), vC14Pow2(130)})
}

func vC14Stored(r *vRand, cur *big.Int, ppb int64) *big.Int {
	switch r.Intn(6) {
	case 0:
		return new(big.Int).Set(cur)
	case 1:
		return big.NewInt(0)
	case 2:
		return big.NewInt(int64(r.Range(1, 2)))
	}
	d := int64(r.Range(-1, 1))
	den := big.NewInt(1e9 + ppb + d)
	s := new(big.Int).Mul(cur, big.NewInt(1e9))
	s.Div(s, den)
	s.Add(s, big.NewInt(int64(r.Range(-1, 1))))
	if r.Chance(1, 4) {
		s = new(big.Int).Mul(cur, den)
		s.Div(s, big.NewInt(1e9))
		s.Add(s, big.NewInt(int64(r.Range(-1, 1))))
	}
	if s.Sign() < 0 {
		s.SetInt64(0)
	}
	return s
}

type vC14Chain struct {
	sel     cciptypes.ChainSelector
	f       int
	readers []int
}

func TestVerif_C14_tp(t *testing.T) {
	r := vNewRand(vSeed() + 1406)
	n := vEnvInt("VERIF_N", 300)
	sink := vOpenSink("C14_tp")
	defer sink.Close()
	e18 := big.NewInt(1e18)
	for i := 0; i < n; i++ {
		nOr := r.Range(4, 10)
		F := (nOr - 1) / 3
		cls := "std"
		if r.Chance(1, 12) {
			F = r.Range(0, 3)
			cls = "Frand"
		}
		perm := r.Perm(32)
		ids := make([]commontypes.OracleID, nOr)
		for k := range ids {
			ids[k] = commontypes.OracleID(perm[k])
		}
		dest := cciptypes.ChainSelector(900)
		feed := cciptypes.ChainSelector(50)
		chains := []vC14Chain{{sel: dest, f: r.Range(1, 2)}, {sel: feed, f: r.Range(1, 2)}}
		if r.Chance(1, 2) {
			chains = append(chains, vC14Chain{sel: 60, f: r.Range(1, 2)})
		}
		hc := vNewHomeChain()
		idmap := map[commontypes.OracleID]libocrtypes.PeerID{}
		for _, o := range ids {
			idmap[o] = vPeer(int(o))
		}
		for k := range chains {
			var peers []libocrtypes.PeerID
			for j, o := range ids {
				if r.Chance(19, 20) {
					chains[k].readers = append(chains[k].readers, j)
					peers = append(peers, vPeer(int(o)))
				}
			}
			hc.SetChain(chains[k].sel, chains[k].f, peers)
		}
		freq := vPick(r, []time.Duration{time.Minute, time.Second, 3 * time.Hour})
		if r.Chance(1, 25) {
			freq = 0
			cls += "+freq0"
		}
		nTok := r.Range(1, 4)
		tperm := r.Perm(0x3000)
		toks := make([]cciptypes.UnknownEncodedAddress, nTok)
		tokenInfo := map[cciptypes.UnknownEncodedAddress]pluginconfig.TokenInfo{}
		ppbOf := map[cciptypes.UnknownEncodedAddress]int64{}
		for k := range toks {
			toks[k] = vC14Tok(1 + tperm[k])
			if r.Chance(7, 8) {
				p := vPick(r, []int64{1e6, 5e7, 1e9, 1})
				ppbOf[toks[k]] = p
				tokenInfo[toks[k]] = pluginconfig.TokenInfo{DeviationPPB: cciptypes.NewBigIntFromInt64(p), Decimals: 18}
			}
		}
		proc := &processor{
			oracleID: ids[0], destChain: dest, lggr: logger.Nop(), fRoleDON: F,
			chainSupport: plugincommon.NewChainSupport(logger.Nop(), hc, idmap, ids[0], dest),
			offChainCfg: pluginconfig.CommitOffchainConfig{TokenPriceBatchWriteFrequency: *commonconfig.MustNewDuration(freq),
				TokenInfo: tokenInfo, PriceFeedChainSelector: feed},
		}
		now := time.Unix(1_700_000_000, int64(r.Intn(1e9))).UTC()
		sameNow := r.Chance(1, 2)
		obs := make([]Observation, nOr)
		for k := range obs {
			obs[k] = Observation{FeeQuoterTokenUpdates: map[cciptypes.UnknownEncodedAddress]plugintypes.TimestampedBig{},
				FChain: map[cciptypes.ChainSelector]int{}, Timestamp: now}
			if !sameNow {
				obs[k].Timestamp = now.Add(time.Duration(r.Range(-2000, 2000)) * time.Millisecond)
			}
		}
		for ci, c := range chains {
			cnt := nOr
			if r.Chance(1, 10) {
				cnt = vPick(r, []int{2 * F, 2*F + 1, 0})
				if ci < 2 {
					cls += "+nof"
				}
			}
			for j, oi := range r.Perm(nOr) {
				if j < cnt {
					obs[oi].FChain[c.sel] = c.f
				} else if r.Chance(1, 3) {
					obs[oi].FChain[c.sel] = c.f + 1
				}
			}
		}
		spread := vPick(r, []int{0, 0, 1000, 200000})
		fDest, fFeed := chains[0].f, chains[1].f
		for _, tok := range toks {
			price := new(big.Int).Mul(big.NewInt(int64(r.Range(1, 5000))), e18)
			switch r.Intn(8) {
			case 0:
				price = vC14Pow2(130)
			case 1:
				price = big.NewInt(int64(r.Range(1, 1000)))
			}
			fr := chains[1].readers
			nP := vC14Count(r, fFeed, len(fr))
			nOut := r.Intn(fFeed + 1)
			for j, ri := range r.Perm(len(fr)) {
				if j >= nP {
					break
				}
				p := vC14Near(r, price, spread)
				if j < nOut {
					p = vC14Outlier(r)
				}
				obs[fr[ri]].FeedTokenPrices = append(obs[fr[ri]].FeedTokenPrices, cciptypes.TokenPrice{TokenID: tok, Price: cciptypes.NewBigInt(p)})
			}
			if r.Chance(3, 4) {
				pp, ok := ppbOf[tok]
				if !ok {
					pp = 1e6
				}
				st := vC14Stored(r, price, pp)
				ts := now.Add(-freq).Add(time.Duration(r.Range(-1, 1)))
				if r.Chance(1, 4) {
					ts = now.Add(-freq / 2)
				}
				dr := chains[0].readers
				nUp := vC14Count(r, fDest, len(dr))
				nUo := 0
				if r.Chance(1, 3) {
					nUo = r.Intn(fDest + 1)
				}
				for j, ri := range r.Perm(len(dr)) {
					if j >= nUp {
						break
					}
					u := plugintypes.TimestampedBig{Timestamp: ts, Value: cciptypes.NewBigInt(new(big.Int).Set(st))}
					if j < nUo {
						u = plugintypes.TimestampedBig{Timestamp: ts.Add(time.Duration(r.Range(-5, 5)) * time.Hour), Value: cciptypes.NewBigInt(vC14Outlier(r))}
					}
					obs[dr[ri]].FeeQuoterTokenUpdates[tok] = u
				}
			}
		}
		byz := ""
		for b, nb := 0, r.Intn(3); b < nb; b++ {
			oi := r.Intn(nOr)
			tok := vPick(r, toks)
			switch r.Intn(6) {
			case 0: // duplicate token in the feed price list: double vote attempt
				obs[oi].FeedTokenPrices = append(obs[oi].FeedTokenPrices, cciptypes.TokenPrice{TokenID: tok, Price: cciptypes.NewBigInt(vC14Outlier(r))},
					cciptypes.TokenPrice{TokenID: tok, Price: cciptypes.NewBigInt(vC14Outlier(r))})
				byz += "+duptoken"
			case 1:
				obs[oi].FeedTokenPrices = append(obs[oi].FeedTokenPrices, cciptypes.TokenPrice{TokenID: vC14Tok(0x3fff), Price: cciptypes.BigInt{}})
				byz += "+nilprice"
			case 2: // F09
				obs[oi].FeeQuoterTokenUpdates[tok] = plugintypes.TimestampedBig{Timestamp: now}
				byz += "+nilupdate"
			case 3:
				obs[oi].FChain[vPick(r, chains).sel] = vPick(r, []int{0, -1})
				byz += "+fnonpos"
			case 4:
				obs[oi].FChain[778] = 1
				byz += "+funsupported"
			case 5:
				obs[oi].FChain[vPick(r, chains).sel] = vPick(r, []int{3, 9, 1 << 40})
				byz += "+finflated"
			}
		}

		order := r.Perm(nOr)
		aos := make([]plugincommon.AttributedObservation[Observation], nOr)
		for k, oi := range order {
			aos[k] = plugincommon.AttributedObservation[Observation]{OracleID: ids[oi], Observation: obs[oi]}
		}
		verdicts := make([]string, nOr)
		var accepted []plugincommon.AttributedObservation[Observation]
		for k, ao := range aos {
			ok := func() (ok bool) {
				defer func() {
					if recover() != nil {
						ok = false
						cls += "+VALPANIC"
					}
				}()
				return proc.ValidateObservation(Outcome{}, Query{}, ao) == nil
			}()
			verdicts[k] = cBool(ok)
			if ok {
				accepted = append(accepted, ao)
			}
		}
		res := func() (out string) {
			defer func() {
				if recover() != nil {
					out = "Panic"
				}
			}()
			oc, err := proc.Outcome(context.Background(), Outcome{}, Query{}, accepted)
			if err != nil {
				return "Err"
			}
			return cApp("Ok", cMap(oc.TokenPrices, func(p cciptypes.TokenPrice) string {
				return cPair(cN(vC14TokID(p.TokenID)), vC14Z(p.Price.Int))
			}))
		}()

		sort.Slice(chains, func(a, b int) bool { return chains[a].sel < chains[b].sel })
		roleStr := cMap(chains, func(c vC14Chain) string {
			return cPair(cN(uint64(c.sel)), cMap(c.readers, func(j int) string { return cN(uint64(ids[j])) }))
		})
		known := cMap(ids, func(o commontypes.OracleID) string { return cN(uint64(o)) })
		var tiKeys []uint64
		for k := range tokenInfo {
			tiKeys = append(tiKeys, vC14TokID(k))
		}
		vSortU64(tiKeys)
		tiStr := cMap(tiKeys, func(k uint64) string { return cPair(cN(k), cZ(ppbOf[vC14Tok(int(k))])) })
		aoStr := cMap(aos, func(ao plugincommon.AttributedObservation[Observation]) string {
			o := ao.Observation
			var uk []uint64
			for k := range o.FeeQuoterTokenUpdates {
				uk = append(uk, vC14TokID(k))
			}
			vSortU64(uk)
			var fk []uint64
			for k := range o.FChain {
				fk = append(fk, uint64(k))
			}
			vSortU64(fk)
			return cPair(cN(uint64(ao.OracleID)), cApp("mkTpRaw",
				cMap(o.FeedTokenPrices, func(p cciptypes.TokenPrice) string { return cPair(cN(vC14TokID(p.TokenID)), vC14OptZ(p.Price.Int)) }),
				cMap(uk, func(k uint64) string {
					u := o.FeeQuoterTokenUpdates[vC14Tok(int(k))]
					return cPair(cN(k), cPair(vC14Zi(u.Timestamp.UnixNano()), vC14OptZ(u.Value.Int)))
				}),
				cMap(fk, func(k uint64) string { return cPair(cN(k), cZ(int64(o.FChain[cciptypes.ChainSelector(k)]))) }),
				vC14Zi(o.Timestamp.UnixNano())))
		})
		input := cTup(vC14Zi(int64(freq)), tiStr, cN(uint64(feed)), cZ(int64(F)), cN(uint64(dest)), roleStr, known, aoStr)
		full := cls
		if byz != "" {
			full += "/byz"
		}
		switch {
		case res == "Err":
			full += "/err"
		case res == "Panic":
			full += "/panic"
		case res == "(Ok [])":
			full += "/none"
		default:
			full += "/prices"
		}
		sink.Emit("C14_tp", full, res != "Err" && res != "Panic" && res != "(Ok [])", cPair(input, cPair(cList(verdicts), res)),
			map[string]any{"F": F, "n": nOr, "freq_ns": int64(freq), "byz": byz, "aos": aos, "tokenInfo": ppbOf, "result": res})
	}
}

//go:build verif

package commit

import (
	cctypes2 "github.com/smartcontractkit/chainlink-common/pkg/types"
	"github.com/smartcontractkit/chainlink-common/pkg/types/query/primitives"
	"fmt"
	"strings"
	"time"
	"context"
	"testing"

	"github.com/smartcontractkit/libocr/commontypes"
	"github.com/smartcontractkit/libocr/offchainreporting2plus/ocr3types"
	"github.com/smartcontractkit/libocr/offchainreporting2plus/types"
	libocrtypes "github.com/smartcontractkit/libocr/ragep2p/types"

	"github.com/smartcontractkit/chainlink-ccip/commit/chainfee"
	"github.com/smartcontractkit/chainlink-ccip/commit/merkleroot"
	"github.com/smartcontractkit/chainlink-ccip/internal/mocks"
	"github.com/smartcontractkit/chainlink-ccip/internal/plugincommon"
	"github.com/smartcontractkit/chainlink-ccip/internal/reader"
	readerpkg "github.com/smartcontractkit/chainlink-ccip/pkg/reader"
	"github.com/smartcontractkit/chainlink-ccip/pkg/consts"
	cciptypes "github.com/smartcontractkit/chainlink-ccip/pkg/types/ccipocr3"
	"github.com/smartcontractkit/chainlink-ccip/pluginconfig"
)

const vC16Dest = cciptypes.ChainSelector(900)

func vC16Digest(b byte) types.ConfigDigest {
	var d types.ConfigDigest
	d[0] = b
	return d
}

// fresh plugin instance: fresh oracle map => fresh Go map iteration seed
// the candidate check goes through the REAL home-chain poller's GetOCRConfigs (read identifier, confidence level and
// parameters as the code builds them) over a scripted contract reader that answers from the fake's tables
type vC16CR struct {
	cctypes2.UnimplementedContractReader
	hc *vHomeChain
}

func (c *vC16CR) GetLatestValue(ctx context.Context, id string, conf primitives.ConfidenceLevel, params, ret any) error {
	if !strings.HasSuffix(id, consts.MethodNameGetOCRConfig) {
		return fmt.Errorf("verif: unexpected read %q", id)
	}
	pm, ok := params.(map[string]any)
	if !ok {
		return fmt.Errorf("verif: unexpected params %T", params)
	}
	don, ok1 := pm["donId"].(uint32)
	pt, ok2 := pm["pluginType"].(uint8)
	out, ok3 := ret.(*reader.ActiveAndCandidate)
	if !ok1 || !ok2 || !ok3 {
		return fmt.Errorf("verif: unexpected params %v / return %T", pm, ret)
	}
	v, err := c.hc.GetOCRConfigs(ctx, don, pt)
	if err != nil {
		return err
	}
	*out = v
	return nil
}

type vC16HC struct {
	*vHomeChain
	real reader.HomeChain
}

func (h *vC16HC) GetOCRConfigs(ctx context.Context, donID uint32, pluginType uint8) (reader.ActiveAndCandidate, error) {
	return h.real.GetOCRConfigs(ctx, donID, pluginType)
}

func vC16Wrap(hc *vHomeChain) *vC16HC {
	return &vC16HC{vHomeChain: hc, real: reader.NewHomeChainConfigPoller(&vC16CR{hc: hc}, mocks.NullLogger, time.Hour,
		cctypes2.BoundContract{Address: "0xCC", Name: consts.ContractNameCCIPConfig})}
}

const vC16Don = 7

func vC16Plugin(ids []commontypes.OracleID, writers map[commontypes.OracleID]bool, cfgErr bool,
	my byte, cand byte, ocrErr bool, rd readerpkg.CCIPReader, rmnEnabled bool) *Plugin {
	hc := vNewHomeChain()
	m := map[commontypes.OracleID]libocrtypes.PeerID{}
	var peers []libocrtypes.PeerID
	for _, o := range ids {
		m[o] = vPeer(int(o))
		if writers[o] {
			peers = append(peers, vPeer(int(o)))
		}
	}
	if !cfgErr {
		hc.SetChain(vC16Dest, 1, peers)
	}
	hc.OCRErr = ocrErr
	hc.OCR = reader.ActiveAndCandidate{
		ActiveConfig:    reader.OCR3ConfigWithMeta{ConfigDigest: vC16Digest(200)},
		CandidateConfig: reader.OCR3ConfigWithMeta{ConfigDigest: vC16Digest(cand)},
	}
	// the configs of every OTHER (DON, plugin type) say the opposite about this instance's digest, so that asking the
	// home chain for the wrong DON or the wrong plugin type flips the candidate verdict
	hc.OCRFor = func(donID uint32, pluginType uint8) reader.ActiveAndCandidate {
		d := hc.OCR
		if donID == vC16Don && pluginType == consts.PluginTypeCommit {
			return d
		}
		if d.CandidateConfig.ConfigDigest == vC16Digest(my) {
			d.CandidateConfig.ConfigDigest = vC16Digest(201)
		} else {
			d.CandidateConfig.ConfigDigest = vC16Digest(my)
		}
		return d
	}
	var me commontypes.OracleID
	if len(ids) > 0 {
		me = ids[0]
	}
	return &Plugin{
		donID:           vC16Don,
		oracleID:        me,
		oracleIDToP2PID: m,
		offchainCfg:     pluginconfig.CommitOffchainConfig{RMNEnabled: rmnEnabled},
		ccipReader:      rd,
		reportCodec:     mocks.NewCommitPluginJSONReportCodec(),
		lggr:            mocks.NullLogger,
		homeChain:       vC16Wrap(hc),
		reportingCfg:    ocr3types.ReportingPluginConfig{ConfigDigest: vC16Digest(my), OracleID: me},
		chainSupport:    plugincommon.NewChainSupport(mocks.NullLogger, hc, m, me, vC16Dest),
	}
}

func vC16Root(start uint64) cciptypes.MerkleRootChain {
	return cciptypes.MerkleRootChain{ChainSel: 5, OnRampAddress: []byte{1, 2}, SeqNumsRange: cciptypes.NewSeqNumRange(cciptypes.SeqNum(start), cciptypes.SeqNum(start+3)), MerkleRoot: cciptypes.Bytes32{7}}
}

func TestVerif_C16_commit(t *testing.T) {
	ctx := context.Background()
	r := vNewRand(vSeed() + 77)
	n := vEnvInt("VERIF_N", 100)
	reps := vEnvInt("VERIF_REPS", 24)
	sink := vOpenSink("C16_rep_commit")
	defer sink.Close()
	for i := 0; i < n; i++ {
		cls := vPick(r, []string{"none", "one", "some", "all", "cfgerr", "emptyoutcome", "n4", "n31"})
		size := r.Range(2, 10)
		if cls == "n4" {
			size = 4
		}
		if cls == "n31" {
			size = 31
		}
		perm := r.Perm(256)
		ids := make([]commontypes.OracleID, size)
		writers := map[commontypes.OracleID]bool{}
		for k := range ids {
			ids[k] = commontypes.OracleID(perm[k])
			switch cls {
			case "none":
			case "all":
				writers[ids[k]] = true
			case "one":
			default:
				writers[ids[k]] = r.Bool()
			}
		}
		if cls == "one" {
			writers[ids[r.Intn(size)]] = true
		}
		empty := cls == "emptyoutcome" || r.Chance(1, 10)
		oc := Outcome{}
		if !empty {
			switch r.Intn(3) {
			case 0:
				oc.MerkleRootOutcome = merkleroot.Outcome{OutcomeType: merkleroot.ReportGenerated, RootsToReport: []cciptypes.MerkleRootChain{vC16Root(10)}}
			case 1:
				oc.ChainFeeOutcome = chainfee.Outcome{GasPrices: []cciptypes.GasPriceChain{{ChainSel: 3, GasPrice: cciptypes.NewBigIntFromInt64(5)}}}
			default:
				oc.MerkleRootOutcome = merkleroot.Outcome{OutcomeType: merkleroot.ReportGenerated, RootsToReport: []cciptypes.MerkleRootChain{vC16Root(1)}}
				oc.ChainFeeOutcome = chainfee.Outcome{GasPrices: []cciptypes.GasPriceChain{{ChainSel: 3, GasPrice: cciptypes.NewBigIntFromInt64(5)}}}
			}
		}
		if empty && r.Bool() {
			// empty, but with allocated zero-length slices (what buildReport produces for ReportEmpty and what
			// JSON "[]" decodes to) rather than nil ones
			oc.MerkleRootOutcome = merkleroot.Outcome{OutcomeType: merkleroot.ReportEmpty, RootsToReport: []cciptypes.MerkleRootChain{},
				RMNReportSignatures: []cciptypes.RMNECDSASignature{}}
			oc.ChainFeeOutcome = chainfee.Outcome{GasPrices: []cciptypes.GasPriceChain{}}
		}
		ocb, err := oc.Encode()
		if err != nil {
			t.Fatal(err)
		}
		cfgErr := cls == "cfgerr"
		seen := map[string]bool{}
		var outs []string
		for k := 0; k < reps; k++ {
			p := vC16Plugin(ids, writers, cfgErr, 1, 2, false, &vCCIPReader{}, false)
			reports, err := p.Reports(ctx, 1, ocb)
			var o string
			switch {
			case err != nil:
				o = "Err"
			case len(reports) == 0:
				o = "(Ok None)"
			default:
				s := reports[0].TransmissionScheduleOverride
				if s == nil {
					o = "Panic" // a report without schedule override: not expressible, flagged as mismatch
				} else {
					tr := make([]string, len(s.Transmitters))
					for x, id := range s.Transmitters {
						tr[x] = cN(uint64(id))
					}
					dl := make([]string, len(s.TransmissionDelays))
					for x, d := range s.TransmissionDelays {
						dl[x] = cZ(int64(d))
					}
					o = "(Ok (Some " + cPair(cList(tr), cList(dl)) + "))"
				}
			}
			if !seen[o] {
				seen[o] = true
				outs = append(outs, o)
			}
		}
		item := func(o commontypes.OracleID) string {
			s := 0
			if writers[o] {
				s = 1
			}
			if cfgErr {
				s = 2
			}
			return cPair(cN(uint64(o)), cNi(s))
		}
		in := cTup(cN(0), cMap(ids, item), cBool(empty), cZ(int64(transmissionDelayMultiplier)))
		nw := 0
		for _, w := range writers {
			if w {
				nw++
			}
		}
		idsInt := make([]int, len(ids))
		for k := range ids {
			idsInt[k] = int(ids[k])
		}
		sink.Emit("C16_rep_commit", cls, nw >= 2 && !empty && !cfgErr, cPair(in, cList(outs)),
			map[string]any{"ids": idsInt, "writers": nw, "empty_outcome": empty, "cfg_err": cfgErr, "fresh_instances": reps})
	}
}

func TestVerif_C16_commit_gates(t *testing.T) {
	errKind := 0 // rotates the kind of the scripted reader error

	ctx := context.Background()
	r := vNewRand(vSeed() + 78)
	n := vEnvInt("VERIF_N", 200)
	sink := vOpenSink("C16_gate_commit")
	defer sink.Close()
	code := func(b bool, err error) string {
		if err != nil {
			return cN(2)
		}
		if b {
			return cN(1)
		}
		return cN(0)
	}
	codec := mocks.NewCommitPluginJSONReportCodec()
	for i := 0; i < n; i++ {
		ids := []commontypes.OracleID{0, 1, 2, 3}
		writers := map[commontypes.OracleID]bool{0: true, 1: true}
		if r.Bool() {
			// ---- ShouldTransmitAcceptedReport
			my := byte(r.Range(0, 2))
			cand := byte(r.Range(0, 2))
			ocrErr := r.Chance(1, 8)
			decodeOK := !r.Chance(1, 6)
			mode := r.Intn(4) // 0: no roots, 1: matching next, 2: stale, 3: reader error
			rep := cciptypes.CommitPluginReport{PriceUpdates: cciptypes.PriceUpdates{GasPriceUpdates: []cciptypes.GasPriceChain{{ChainSel: 3, GasPrice: cciptypes.NewBigIntFromInt64(5)}}}}
			if mode != 0 {
				rep.MerkleRoots = []cciptypes.MerkleRootChain{vC16Root(10)}
			}
			rd := &vCCIPReader{NextSeqNumFn: func(ch []cciptypes.ChainSelector) ([]cciptypes.SeqNum, error) {
				switch mode {
				case 2:
					return []cciptypes.SeqNum{11}, nil
				case 3:
					errKind++
					return nil, vErrN(errKind)
				}
				return []cciptypes.SeqNum{10}, nil
			}}
			rb, _ := codec.Encode(ctx, rep)
			if !decodeOK {
				rb = []byte("{not json")
			}
			p := vC16Plugin(ids, writers, false, my, cand, ocrErr, rd, false)
			// a long-lived instance: the home chain's candidate digest changes between calls (swapped mid-flight);
			// every call must be decided by the configuration read at that moment
			steps := r.Range(1, 4)
			for st := 0; st < steps; st++ {
				if st > 0 {
					cand = byte(r.Range(0, 2))
					ocrErr = r.Chance(1, 8)
					hc := p.homeChain.(*vC16HC).vHomeChain
					hc.OCRErr = ocrErr
					hc.OCR.CandidateConfig.ConfigDigest = vC16Digest(cand)
				}
				ok, err := p.ShouldTransmitAcceptedReport(ctx, uint64(st+1), ocr3types.ReportWithInfo[[]byte]{Report: rb})
				candS := cSome(cN(uint64(cand)))
				if ocrErr {
					candS = cNone()
				}
				rootsOK := mode == 0 || mode == 1
				in := cApp("GCommitT", cN(uint64(my)), candS, cBool(decodeOK), cBool(rootsOK))
				cls := "transmit"
				if my == cand {
					cls = "transmit-candidate"
				}
				if st > 0 {
					cls += "-later-call"
				}
				sink.Emit("C16_gate_commit", cls, true, cPair(in, code(ok, err)),
					map[string]any{"my": my, "cand": cand, "ocrErr": ocrErr, "decodeOK": decodeOK, "rootsMode": mode, "call": st})
			}
		} else {
			// ---- ShouldAcceptAttestedReport
			decodeOK := !r.Chance(1, 8)
			roots := r.Intn(3)
			tp := r.Intn(2)
			gp := r.Intn(2)
			sigs := r.Intn(4)
			if r.Chance(1, 4) {
				roots, tp, gp, sigs = 0, 0, 0, 0
			}
			curse := r.Intn(3)
			if r.Chance(1, 2) {
				curse = 0
			}
			infoOK := !r.Chance(1, 8)
			rmn := r.Bool()
			remoteF := uint64(r.Intn(3))
			rep := cciptypes.CommitPluginReport{}
			for k := 0; k < roots; k++ {
				rt := vC16Root(10)
				rt.ChainSel = cciptypes.ChainSelector(5 + k)
				rep.MerkleRoots = append(rep.MerkleRoots, rt)
			}
			for k := 0; k < tp; k++ {
				rep.PriceUpdates.TokenPriceUpdates = append(rep.PriceUpdates.TokenPriceUpdates, cciptypes.TokenPrice{TokenID: "0xaa", Price: cciptypes.NewBigIntFromInt64(3)})
			}
			for k := 0; k < gp; k++ {
				rep.PriceUpdates.GasPriceUpdates = append(rep.PriceUpdates.GasPriceUpdates, cciptypes.GasPriceChain{ChainSel: 3, GasPrice: cciptypes.NewBigIntFromInt64(5)})
			}
			for k := 0; k < sigs; k++ {
				rep.RMNSignatures = append(rep.RMNSignatures, cciptypes.RMNECDSASignature{R: cciptypes.Bytes32{byte(k + 1)}, S: cciptypes.Bytes32{9}})
			}
			if r.Bool() { // absent parts as allocated zero-length slices instead of nil
				if roots == 0 {
					rep.MerkleRoots = []cciptypes.MerkleRootChain{}
				}
				if tp == 0 {
					rep.PriceUpdates.TokenPriceUpdates = []cciptypes.TokenPrice{}
				}
				if gp == 0 {
					rep.PriceUpdates.GasPriceUpdates = []cciptypes.GasPriceChain{}
				}
				if sigs == 0 {
					rep.RMNSignatures = []cciptypes.RMNECDSASignature{}
				}
			}
			rd := &vCCIPReader{CurseFn: func(dest cciptypes.ChainSelector, src []cciptypes.ChainSelector) (*readerpkg.CurseInfo, error) {
				switch curse {
				case 1:
					return &readerpkg.CurseInfo{CursedSourceChains: map[cciptypes.ChainSelector]bool{5: true}}, nil
				case 2:
					return nil, vErrNext()
				}
				return &readerpkg.CurseInfo{CursedSourceChains: map[cciptypes.ChainSelector]bool{}}, nil
			}}
			rb, _ := codec.Encode(ctx, rep)
			if !decodeOK {
				rb = []byte("{not json")
			}
			info, _ := ReportInfo{RemoteF: remoteF}.Encode()
			if !infoOK {
				info = []byte("[1")
			}
			p := vC16Plugin(ids, writers, false, 1, 2, false, rd, rmn)
			ok, err := p.ShouldAcceptAttestedReport(ctx, 1, ocr3types.ReportWithInfo[[]byte]{Report: rb, Info: info})
			in := cApp("GCommitA", cBool(decodeOK), cNi(roots), cNi(tp), cNi(gp), cNi(sigs), cNi(curse), cBool(infoOK), cBool(rmn), cN(remoteF))
			cls := "accept"
			if roots+tp+gp+sigs == 0 {
				cls = "accept-empty"
			}
			sink.Emit("C16_gate_commit", cls, true, cPair(in, code(ok, err)),
				map[string]any{"decodeOK": decodeOK, "roots": roots, "tokenPrices": tp, "gasPrices": gp, "sigs": sigs, "curse": curse, "infoOK": infoOK, "rmn": rmn, "remoteF": remoteF})
		}
	}
}

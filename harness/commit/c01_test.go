//go:build verif

package commit

import (
	"context"
	"encoding/hex"
	"fmt"
	"sort"
	"testing"
	"time"

	"github.com/smartcontractkit/libocr/commontypes"
	"github.com/smartcontractkit/libocr/offchainreporting2plus/ocr3types"
	"github.com/smartcontractkit/libocr/offchainreporting2plus/types"
	libocrtypes "github.com/smartcontractkit/libocr/ragep2p/types"

	"github.com/smartcontractkit/chainlink-ccip/commit/merkleroot"
	rmntypes "github.com/smartcontractkit/chainlink-ccip/commit/merkleroot/rmn/types"
	"github.com/smartcontractkit/chainlink-ccip/internal/mocks"
	dt "github.com/smartcontractkit/chainlink-ccip/internal/plugincommon/discovery/discoverytypes"
	"github.com/smartcontractkit/chainlink-ccip/internal/plugintypes"
	"github.com/smartcontractkit/chainlink-ccip/pkg/consts"
	readerpkg "github.com/smartcontractkit/chainlink-ccip/pkg/reader"
	cciptypes "github.com/smartcontractkit/chainlink-ccip/pkg/types/ccipocr3"
	"github.com/smartcontractkit/chainlink-ccip/pluginconfig"
)

// C01 (plugin level): real commit.Plugin instances built with NewPlugin (discovery processor ENABLED), fresh
// (contracts not initialised) or initialised; every attributed observation is JSON-encoded, goes through
// Plugin.ValidateObservation, the accepted ones through Plugin.Outcome; the decoded merkle-root outcome and the
// argument of CCIPReader.Sync are emitted. Plus Plugin.ObservationQuorum.

const vC01PDest = cciptypes.ChainSelector(900)

type vC01PChain struct {
	sel     cciptypes.ChainSelector
	f       int
	readers []int // indexes into ids
}

type vC01PPrinter struct{ in *vIntern }

// value identity = canonical encoding of the content, never a String()/%v of the code under test
func (p vC01PPrinter) bytesID(b []byte) string { return cN(p.in.Id("b:" + hex.EncodeToString(b))) }
func (p vC01PPrinter) addrID(a []byte) string {
	for _, x := range a {
		if x != 0 {
			return cN(p.in.Id("a:" + hex.EncodeToString(a)))
		}
	}
	return cN(0)
}
func (p vC01PPrinter) rmnID(c rmntypes.RemoteConfig) string {
	k := "rmn|" + hex.EncodeToString(c.ContractAddress) + "|" + hex.EncodeToString(c.ConfigDigest[:]) + "|"
	for _, sg := range c.Signers {
		k += hex.EncodeToString(sg.OnchainPublicKey) + ":" + fmt.Sprint(sg.NodeIndex) + ","
	}
	k += "|" + fmt.Sprint(c.F) + "|" + fmt.Sprint(c.ConfigVersion) + "|" + hex.EncodeToString(c.RmnReportVersion[:])
	return cN(p.in.Id(k))
}
func (p vC01PPrinter) rmn(c rmntypes.RemoteConfig) string {
	return cApp("mkRmn", p.rmnID(c), cBool(len(c.ContractAddress) == 0), cBool(c.ConfigDigest == cciptypes.Bytes32{}),
		cMap(c.Signers, func(s rmntypes.RemoteSignerInfo) string {
			return cPair(cBool(len(s.OnchainPublicKey) == 0), cN(s.NodeIndex))
		}), cN(c.F), cN(uint64(c.ConfigVersion)), cBool(c.RmnReportVersion == cciptypes.Bytes32{}))
}
func vC01PFChain(m map[cciptypes.ChainSelector]int) string {
	ks := make([]uint64, 0, len(m))
	for k := range m {
		ks = append(ks, uint64(k))
	}
	vSortU64(ks)
	return cMap(ks, func(k uint64) string { return cPair(cN(k), cZ(int64(m[cciptypes.ChainSelector(k)]))) })
}
func (p vC01PPrinter) seq(s plugintypes.SeqNumChain) string {
	return cPair(cN(uint64(s.ChainSel)), cN(uint64(s.SeqNum)))
}
func (p vC01PPrinter) merkle(o merkleroot.Observation) string {
	return cApp("mkObs", cMap(o.MerkleRoots, func(m cciptypes.MerkleRootChain) string {
		return cTup(cN(uint64(m.ChainSel)), p.bytesID(m.OnRampAddress),
			cPair(cN(uint64(m.SeqNumsRange.Start())), cN(uint64(m.SeqNumsRange.End()))), p.bytesID(m.MerkleRoot[:]))
	}), cMap(o.OnRampMaxSeqNums, p.seq), cMap(o.OffRampNextSeqNums, p.seq), p.rmn(o.RMNRemoteConfig), vC01PFChain(o.FChain))
}
func (p vC01PPrinter) addrMap(m map[cciptypes.ChainSelector]cciptypes.UnknownAddress) string {
	ks := make([]uint64, 0, len(m))
	for k := range m {
		ks = append(ks, uint64(k))
	}
	vSortU64(ks)
	return cMap(ks, func(k uint64) string { return cPair(cN(k), p.addrID(m[cciptypes.ChainSelector(k)])) })
}

var vC01PNames = []string{consts.ContractNameOnRamp, consts.ContractNameNonceManager, consts.ContractNameRMNRemote,
	consts.ContractNameFeeQuoter, consts.ContractNameRouter}

func (p vC01PPrinter) disc(o dt.Observation) string {
	parts := []string{vC01PFChain(o.FChain)}
	for _, name := range vC01PNames {
		parts = append(parts, p.addrMap(o.Addresses[name]))
	}
	return cApp("mkDobs", parts...)
}
func (p vC01PPrinter) contracts(c readerpkg.ContractAddresses) (string, bool) {
	if len(c) != len(vC01PNames) {
		return "", false
	}
	parts := make([]string, len(vC01PNames))
	for k, name := range vC01PNames {
		m, ok := c[name]
		if !ok {
			return "", false
		}
		parts[k] = p.addrMap(m)
	}
	return cApp("mkDcons", parts...), true
}

func vC01PRmn(v byte) rmntypes.RemoteConfig {
	return rmntypes.RemoteConfig{
		ContractAddress: cciptypes.UnknownAddress{0xCC, 1}, ConfigDigest: cciptypes.Bytes32{1},
		Signers: []rmntypes.RemoteSignerInfo{{OnchainPublicKey: cciptypes.UnknownAddress{1, v}, NodeIndex: 0},
			{OnchainPublicKey: cciptypes.UnknownAddress{2}, NodeIndex: 1}},
		F: 1, ConfigVersion: 1, RmnReportVersion: cciptypes.Bytes32{9},
	}
}

func vC01PCount(r *vRand, thr, n int) int {
	c := vPick(r, []int{0, thr - 1, thr, thr, thr + 1, n})
	if c < 0 {
		c = 0
	}
	if c > n {
		c = n
	}
	return c
}

func TestVerif_C01_plugin(t *testing.T) {
	ctx := context.Background()
	r := vNewRand(vSeed() + 303)
	n := vEnvInt("VERIF_N", 200)
	sink := vOpenSink("C01_plug")
	defer sink.Close()
	for i := 0; i < n; i++ {
		pr := vC01PPrinter{vNewIntern()}
		nOr, F := 4, 1
		switch r.Intn(3) {
		case 1:
			nOr, F = 7, 2
		case 2:
			nOr, F = 7, 1
		}
		perm := r.Perm(32)
		ids := make([]commontypes.OracleID, nOr)
		idmap := map[commontypes.OracleID]libocrtypes.PeerID{}
		for k := range ids {
			ids[k] = commontypes.OracleID(perm[k])
			idmap[ids[k]] = vPeer(int(ids[k]))
		}
		// f of the chains differs from F and from each other where the DON size allows
		chains := []vC01PChain{{sel: vC01PDest, f: vPick(r, []int{1, 2})}, {sel: 11, f: vPick(r, []int{1, 2})}, {sel: 22, f: 1}}
		if nOr == 4 {
			chains[0].f, chains[1].f = 1, 1
		}
		hc := vNewHomeChain()
		for k := range chains {
			var peers []libocrtypes.PeerID
			for j, o := range ids {
				if r.Chance(5, 6) { // partial role assignment
					chains[k].readers = append(chains[k].readers, j)
					peers = append(peers, vPeer(int(o)))
				}
			}
			hc.SetChain(chains[k].sel, chains[k].f, peers)
		}
		isReader := func(c vC01PChain, oi int) bool {
			for _, j := range c.readers {
				if j == oi {
					return true
				}
			}
			return false
		}
		var synced []readerpkg.ContractAddresses
		rd := &vCCIPReader{SyncFn: func(c readerpkg.ContractAddresses) error { synced = append(synced, c); return nil }}
		maxTree := uint64(vPick(r, []int{256, 256, 4}))
		fresh := r.Bool()
		p := NewPlugin(1, idmap, pluginconfig.CommitOffchainConfig{MaxMerkleTreeSize: maxTree}, vC01PDest, rd, nil,
			mocks.NewCommitPluginJSONReportCodec(), mocks.NewMessageHasher(), mocks.NullLogger, hc, nil, nil, nil,
			ocr3types.ReportingPluginConfig{F: F, N: nOr, OracleID: ids[0], ConfigDigest: [32]byte{1}, MaxDurationQuery: time.Second})
		if p.discoveryProcessor == nil {
			t.Fatal("discovery processor not wired by NewPlugin")
		}
		if !fresh {
			p.contractsInitialized.Store(true)
		}

		obs := make([]Observation, nOr)
		for k := range obs {
			obs[k].FChain = map[cciptypes.ChainSelector]int{}
			obs[k].MerkleRootObs.FChain = map[cciptypes.ChainSelector]int{}
			obs[k].DiscoveryObs.FChain = map[cciptypes.ChainSelector]int{}
			obs[k].DiscoveryObs.Addresses = readerpkg.ContractAddresses{}
		}
		thrF := 2*F + 1
		for _, c := range chains {
			cnt := nOr
			if r.Chance(1, 3) { // agreement on f at the 2F+1 boundary, also for the destination (F wiring of the processors)
				cnt = vPick(r, []int{thrF - 1, thrF, thrF, 3, 2})
			}
			for j, oi := range r.Perm(nOr) {
				if j < cnt {
					obs[oi].FChain[c.sel] = c.f
					obs[oi].MerkleRootObs.FChain[c.sel] = c.f
					obs[oi].DiscoveryObs.FChain[c.sel] = c.f
				}
			}
		}
		put := func(oi int, name string, ch cciptypes.ChainSelector, a cciptypes.UnknownAddress) {
			if obs[oi].DiscoveryObs.Addresses[name] == nil {
				obs[oi].DiscoveryObs.Addresses[name] = map[cciptypes.ChainSelector]cciptypes.UnknownAddress{}
			}
			obs[oi].DiscoveryObs.Addresses[name][ch] = a
		}
		for _, c := range chains {
			if c.sel == vC01PDest {
				continue
			}
			thr := 2*c.f + 1
			thrD := 2*chains[0].f + 1
			// on-ramp max from readers of c, off-ramp next + on-ramp address from readers of the destination
			ta := vC01PCount(r, thr, len(c.readers))
			for j, ri := range r.Perm(len(c.readers)) {
				if j < ta {
					obs[c.readers[ri]].MerkleRootObs.OnRampMaxSeqNums = append(obs[c.readers[ri]].MerkleRootObs.OnRampMaxSeqNums,
						plugintypes.NewSeqNumChain(c.sel, 20))
				} else if j == ta && r.Chance(1, 2) {
					obs[c.readers[ri]].MerkleRootObs.OnRampMaxSeqNums = append(obs[c.readers[ri]].MerkleRootObs.OnRampMaxSeqNums,
						plugintypes.NewSeqNumChain(c.sel, 21))
				}
			}
			dr := chains[0].readers
			// off-ramp next: counts around the destination's threshold (what decides after fixes/F26.patch) or around the
			// key chain's (what decided before); f_k < f_dest and f_k > f_dest both occur
			tb := vC01PCount(r, vPick(r, []int{thrD, thrD, thr}), len(dr))
			for j, ri := range r.Perm(len(dr)) {
				if j < tb {
					obs[dr[ri]].MerkleRootObs.OffRampNextSeqNums = append(obs[dr[ri]].MerkleRootObs.OffRampNextSeqNums,
						plugintypes.NewSeqNumChain(c.sel, 10))
				}
			}
			tc := vC01PCount(r, thrD, len(dr))
			for j, ri := range r.Perm(len(dr)) {
				if j < tc {
					put(dr[ri], consts.ContractNameOnRamp, c.sel, cciptypes.UnknownAddress{0xD0, 1})
				}
			}
			td := vC01PCount(r, thr, len(c.readers))
			for j, ri := range r.Perm(len(c.readers)) {
				if j < td {
					put(c.readers[ri], consts.ContractNameRouter, c.sel, cciptypes.UnknownAddress{0xD7, 1})
				}
			}
		}
		{ // RMN remote config from destination readers, one competing value differing in a signer key
			dr := chains[0].readers
			thrD := 2*chains[0].f + 1
			ta := vC01PCount(r, thrD, len(dr))
			for j, ri := range r.Perm(len(dr)) {
				if j < ta {
					obs[dr[ri]].MerkleRootObs.RMNRemoteConfig = vC01PRmn(1)
				} else if j == ta && r.Chance(1, 2) {
					obs[dr[ri]].MerkleRootObs.RMNRemoteConfig = vC01PRmn(2)
				}
			}
		}
		// Byzantine shapes
		byz := ""
		for b, nb := 0, r.Intn(3); b < nb; b++ {
			oi := r.Intn(nOr)
			c := chains[r.Range(1, len(chains)-1)]
			o := &obs[oi].MerkleRootObs
			reps := 2*c.f + 1
			switch r.Intn(8) {
			case 0: // one oracle repeating an on-ramp entry 2f+1 times (its own value)
				for k := 0; k < reps; k++ {
					o.OnRampMaxSeqNums = append(o.OnRampMaxSeqNums, plugintypes.NewSeqNumChain(c.sel, 999))
				}
				byz += "+duponramp"
			case 1:
				for k := 0; k < 2*chains[0].f+1; k++ {
					o.OffRampNextSeqNums = append(o.OffRampNextSeqNums, plugintypes.NewSeqNumChain(c.sel, 900))
				}
				byz += "+dupofframp"
			case 2:
				m := cciptypes.MerkleRootChain{ChainSel: c.sel, SeqNumsRange: cciptypes.NewSeqNumRange(10, 20), MerkleRoot: cciptypes.Bytes32{0xEE}}
				o.MerkleRoots = append(o.MerkleRoots, m, m)
				byz += "+duproot"
			case 3: // entry for a chain the oracle may not read
				o.OnRampMaxSeqNums = append(o.OnRampMaxSeqNums, plugintypes.NewSeqNumChain(777, 5))
				byz += "+unsupported"
			case 4:
				if !isReader(chains[0], oi) {
					o.OffRampNextSeqNums = append(o.OffRampNextSeqNums, plugintypes.NewSeqNumChain(c.sel, 10))
					byz += "+offrampnondest"
				}
			case 5:
				o.FChain[c.sel] = vPick(r, []int{0, -1})
				byz += "+fnonpos"
			case 6:
				obs[oi].FChain[c.sel] = vPick(r, []int{0, -2})
				byz += "+topfnonpos"
			case 7:
				o.FChain[c.sel] = vPick(r, []int{c.f + 1, 1 << 40})
				obs[oi].DiscoveryObs.FChain[c.sel] = o.FChain[c.sel]
				byz += "+finflated"
			}
		}

		order := r.Perm(nOr)
		if r.Bool() {
			sort.Slice(order, func(a, b int) bool { return ids[order[a]] < ids[order[b]] })
		}
		emptyQ, _ := Query{}.Encode()
		verdicts := make([]string, nOr)
		var accepted []types.AttributedObservation
		aoStr := make([]string, nOr)
		cls := fmt.Sprintf("N%dF%d", nOr, F)
		if fresh {
			cls += "/fresh"
		} else {
			cls += "/init"
		}
		for k, oi := range order {
			enc, err := obs[oi].Encode()
			if err != nil {
				t.Fatal(err)
			}
			ao := types.AttributedObservation{Observation: enc, Observer: ids[oi]}
			ok := func() (ok bool) {
				defer func() {
					if recover() != nil {
						ok = false
						cls += "+VALPANIC"
					}
				}()
				return p.ValidateObservation(ctx, ocr3types.OutcomeContext{}, emptyQ, ao) == nil
			}()
			verdicts[k] = cBool(ok)
			if ok {
				accepted = append(accepted, ao)
			}
			aoStr[k] = cPair(cN(uint64(ids[oi])), cTup(pr.merkle(obs[oi].MerkleRootObs), pr.disc(obs[oi].DiscoveryObs), vC01PFChain(obs[oi].FChain)))
		}
		res := func() (out string) {
			defer func() {
				if recover() != nil {
					out = "Panic"
				}
			}()
			ocb, err := p.Outcome(ctx, ocr3types.OutcomeContext{}, emptyQ, accepted)
			if err != nil {
				return "Err"
			}
			oc, err := decodeOutcome(ocb)
			if err != nil || len(synced) != 1 {
				return "Err"
			}
			cs, ok := pr.contracts(synced[0])
			if !ok {
				return "Err"
			}
			m := oc.MerkleRootOutcome
			rmn := cNone()
			if !m.RMNRemoteCfg.IsEmpty() {
				rmn = cSome(pr.rmnID(m.RMNRemoteCfg))
			}
			return cApp("plug_res", cN(uint64(m.OutcomeType)),
				cMap(m.RangesSelectedForReport, func(c plugintypes.ChainRange) string {
					return cPair(cN(uint64(c.ChainSel)), cPair(cN(uint64(c.SeqNumRange.Start())), cN(uint64(c.SeqNumRange.End()))))
				}),
				cMap(m.OffRampNextSeqNums, pr.seq), rmn, cs)
		}()
		sort.Slice(chains, func(a, b int) bool { return chains[a].sel < chains[b].sel })
		roleStr := cMap(chains, func(c vC01PChain) string {
			return cPair(cN(uint64(c.sel)), cMap(c.readers, func(j int) string { return cN(uint64(ids[j])) }))
		})
		known := cMap(ids, func(o commontypes.OracleID) string { return cN(uint64(o)) })
		input := cTup(cBool(fresh), cZ(int64(F)), cN(uint64(vC01PDest)), cN(maxTree), roleStr, known, cList(aoStr))
		if byz != "" {
			cls += "/byz"
		}
		sink.Emit("C01_plug", cls, len(accepted) >= 3 && res != "Err" && res != "Panic", cPair(input, cPair(cList(verdicts), res)),
			map[string]any{"N": nOr, "F": F, "fresh": fresh, "byz": byz, "obs": obs, "order": order, "result": res})
	}
}

func TestVerif_C01_quorum(t *testing.T) {
	r := vNewRand(vSeed() + 304)
	n := vEnvInt("VERIF_N", 100)
	sink := vOpenSink("C01_quorum")
	defer sink.Close()
	for i := 0; i < n; i++ {
		N := r.Range(1, 31)
		F := r.Range(0, 10)
		cnt := vPick(r, []int{0, F, F + 1, 2 * F, 2*F + 1, 2*F + 2, N - F, N})
		if cnt < 0 {
			cnt = 0
		}
		p := &Plugin{reportingCfg: ocr3types.ReportingPluginConfig{N: N, F: F}}
		got, err := p.ObservationQuorum(context.Background(), ocr3types.OutcomeContext{}, nil, make([]types.AttributedObservation, cnt))
		cls := "ok"
		if err != nil {
			cls = "err"
			got = false
		}
		sink.Emit("C01_quorum", cls, true, cPair(cTup(cZ(int64(N)), cZ(int64(F)), cZ(int64(cnt))), cBool(got)),
			map[string]any{"N": N, "F": F, "count": cnt, "quorum": got})
	}
}

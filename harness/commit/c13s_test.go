//go:build verif

package commit

import (
	"context"
	"errors"
	"fmt"
	"math/big"
	"strings"
	"testing"
	"time"

	commonconfig "github.com/smartcontractkit/chainlink-common/pkg/config"
	cctypes "github.com/smartcontractkit/chainlink-common/pkg/types"
	"github.com/smartcontractkit/chainlink-common/pkg/types/query"
	"github.com/smartcontractkit/chainlink-common/pkg/types/query/primitives"
	"github.com/smartcontractkit/libocr/commontypes"
	libocrtypes "github.com/smartcontractkit/libocr/ragep2p/types"

	"github.com/smartcontractkit/chainlink-ccip/commit/chainfee"
	"github.com/smartcontractkit/chainlink-ccip/commit/tokenprice"
	"github.com/smartcontractkit/chainlink-ccip/internal/mocks"
	"github.com/smartcontractkit/chainlink-ccip/internal/plugincommon"
	"github.com/smartcontractkit/chainlink-ccip/internal/plugintypes"
	"github.com/smartcontractkit/chainlink-ccip/pkg/consts"
	"github.com/smartcontractkit/chainlink-ccip/pkg/contractreader"
	readerpkg "github.com/smartcontractkit/chainlink-ccip/pkg/reader"
	cciptypes "github.com/smartcontractkit/chainlink-ccip/pkg/types/ccipocr3"
	"github.com/smartcontractkit/chainlink-ccip/pluginconfig"
)

// C13 directed site classes driven from package commit (coq/Model/PanicSites2.v): reader answers handed to the
// commit processors — the fee quoter's packed fee update (nil / zero values are dropped by the real ccipChainReader
// before chainfee unpacks them) and the feed price list whose length must equal the number of tokens asked about.

type vC13sCR struct {
	fn func(method string, params, ret any) error
}

func (c *vC13sCR) GetLatestValue(ctx context.Context, readIdentifier string, conf primitives.ConfidenceLevel, params, ret any) error {
	parts := strings.Split(readIdentifier, "-")
	return c.fn(parts[len(parts)-1], params, ret)
}
func (c *vC13sCR) BatchGetLatestValues(ctx context.Context, request cctypes.BatchGetLatestValuesRequest) (cctypes.BatchGetLatestValuesResult, error) {
	return nil, errors.New("unscripted")
}
func (c *vC13sCR) Bind(ctx context.Context, bindings []cctypes.BoundContract) error   { return nil }
func (c *vC13sCR) Unbind(ctx context.Context, bindings []cctypes.BoundContract) error { return nil }
func (c *vC13sCR) QueryKey(ctx context.Context, contract cctypes.BoundContract, filter query.KeyFilter, ls query.LimitAndSort, seqType any) ([]cctypes.Sequence, error) {
	return nil, nil
}

var _ contractreader.ContractReaderFacade = (*vC13sCR)(nil)

type vC13sPrices struct{ m int }

func (p vC13sPrices) GetFeedPricesUSD(ctx context.Context, tokens []cciptypes.UnknownEncodedAddress) ([]*big.Int, error) {
	out := make([]*big.Int, p.m)
	for i := range out {
		out[i] = big.NewInt(int64(1e9 + i))
	}
	return out, nil
}
func (p vC13sPrices) GetFeeQuoterTokenUpdates(ctx context.Context, tokens []cciptypes.UnknownEncodedAddress, chain cciptypes.ChainSelector) (map[cciptypes.UnknownEncodedAddress]plugintypes.TimestampedBig, error) {
	return map[cciptypes.UnknownEncodedAddress]plugintypes.TimestampedBig{}, nil
}

func vC13sRun(f func() error) (int, string) {
	var err error
	code, what := vGuard(3*time.Second, func() { err = f() })
	if code == 0 && err != nil {
		return 1, err.Error()
	}
	return code, what
}

func vC13sNat(n int) string { return fmt.Sprintf("%d%%nat", n) }

func TestVerif_C13_sites_commit(t *testing.T) {
	ctx := context.Background()
	sink := vOpenSink("C13_sites_commit")
	defer sink.Close()
	emit := func(cls, in string, code int, what string, show map[string]any) {
		show["code"], show["panic"] = code, what
		sink.Emit("C13_sites_commit", cls, true, cPair(in, cNi(code)), show)
	}
	const dest = cciptypes.ChainSelector(900)

	// ---- site packed-fee: ccipChainReader.GetChainFeePriceUpdate (drops empty answers) then chainfee.FromPackedFee
	big200 := new(big.Int).Lsh(big.NewInt(1), 200)
	for _, tsZero := range []bool{false, true} {
		for _, v := range []*big.Int{nil, big.NewInt(0), big.NewInt(1), big.NewInt(-7), big200} {
			cr := &vC13sCR{fn: func(method string, params, ret any) error {
				if method != consts.MethodNameGetFeePriceUpdate {
					return errors.New("unscripted " + method)
				}
				out := ret.(*plugintypes.TimestampedUnixBig)
				out.Value = v
				if !tsZero {
					out.Timestamp = 1700000000
				}
				return nil
			}}
			rd := readerpkg.NewCCIPChainReader(ctx, mocks.NullLogger, map[cciptypes.ChainSelector]contractreader.ContractReaderFacade{dest: cr}, nil, dest, []byte{0x0F})
			_ = rd.Sync(ctx, readerpkg.ContractAddresses{consts.ContractNameFeeQuoter: {dest: []byte{0xFE}}})
			kept := -1
			code, what := vC13sRun(func() error {
				upd := rd.GetChainFeePriceUpdate(ctx, []cciptypes.ChainSelector{5, 7})
				kept = len(chainfee.FeeUpdatesFromTimestampedBig(upd))
				return nil
			})
			val := cNone()
			if v != nil {
				val = cSome(cZb(v))
			}
			emit("packed-fee/nil="+fmt.Sprint(v == nil), cApp("SPackedFee", cBool(tsZero), val), code, what, map[string]any{"timestamp_zero": tsZero, "value": fmt.Sprint(v), "kept": kept})
		}
	}

	// ---- site zip/3: tokenprice ObserveFeedTokenPrices — len(prices) != len(tokens) before tokenPrices[i]
	hc := vNewHomeChain()
	peers := []libocrtypes.PeerID{vPeer(0), vPeer(1), vPeer(2), vPeer(3)}
	idMap := map[commontypes.OracleID]libocrtypes.PeerID{}
	for i, p := range peers {
		idMap[commontypes.OracleID(i)] = p
	}
	for _, ch := range []cciptypes.ChainSelector{dest, 800, 5} {
		hc.SetChain(ch, 1, peers)
	}
	for _, n := range []int{0, 1, 2, 3, 5} {
		for _, d := range []int{-2, -1, 0, 1, 2} {
			m := n + d
			if m < 0 {
				continue
			}
			cfg := pluginconfig.CommitOffchainConfig{PriceFeedChainSelector: 800, TokenPriceBatchWriteFrequency: *commonconfig.MustNewDuration(time.Minute),
				TokenInfo: map[cciptypes.UnknownEncodedAddress]pluginconfig.TokenInfo{}}
			for i := 0; i < n; i++ {
				tok := cciptypes.UnknownEncodedAddress(fmt.Sprintf("0x%040x", 10+i))
				cfg.TokenInfo[tok] = pluginconfig.TokenInfo{AggregatorAddress: tok, DeviationPPB: cciptypes.NewBigIntFromInt64(1e7), Decimals: 18}
			}
			proc := tokenprice.NewProcessor(1, mocks.NullLogger, cfg, dest, plugincommon.NewChainSupport(mocks.NullLogger, hc, idMap, 1, dest), vC13sPrices{m: m}, hc, 1)
			observed := -1
			code, what := vC13sRun(func() error {
				ob, err := proc.Observation(ctx, tokenprice.Outcome{}, tokenprice.Query{})
				observed = len(ob.FeedTokenPrices)
				return err
			})
			emit("zip3/observe-feed-prices", cApp("SZip", cN(3), vC13sNat(n), vC13sNat(m)), code, what, map[string]any{"tokens": n, "prices": m, "observed": observed})
		}
	}
}

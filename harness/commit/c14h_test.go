//go:build verif

package commit

import (
	"context"
	"fmt"
	"math/big"
	"sort"
	"strings"
	"testing"
	"time"

	"github.com/smartcontractkit/libocr/commontypes"
	"github.com/smartcontractkit/libocr/offchainreporting2plus/ocr3types"
	"github.com/smartcontractkit/libocr/offchainreporting2plus/types"
	libocrtypes "github.com/smartcontractkit/libocr/ragep2p/types"

	commonconfig "github.com/smartcontractkit/chainlink-common/pkg/config"
	commontypes2 "github.com/smartcontractkit/chainlink-common/pkg/types"

	"github.com/smartcontractkit/chainlink-ccip/commit/chainfee"
	"github.com/smartcontractkit/chainlink-ccip/commit/tokenprice"
	"github.com/smartcontractkit/chainlink-ccip/internal/mocks"
	plugintypes2 "github.com/smartcontractkit/chainlink-ccip/internal/plugintypes"
	cciptypes "github.com/smartcontractkit/chainlink-ccip/pkg/types/ccipocr3"
	"github.com/smartcontractkit/chainlink-ccip/pluginconfig"
)

// C14 (plugin level, histories): ONE commit.Plugin built with NewPlugin lives through a history of rounds. Every round
// goes ValidateObservation -> Outcome -> Reports with OutcomeContext.PreviousOutcome = the encoded outcome of the round
// before (the production threading of ChainFeeOutcome / TokenPriceOutcome) or an arbitrary outcome with non-empty prices.
// Between rounds the role map, the chains' f, the observers, the agreement on f, the stored updates, prices and clock change.
// One case per round: (previous outcome's prices, the round's input as in part pplug) -> (verdicts, outcome prices, report prices).

func vC14PHGas(gs []cciptypes.GasPriceChain) string {
	if len(gs) == 0 {
		return "no_prices"
	}
	return cMap(gs, func(g cciptypes.GasPriceChain) string { return cPair(cN(uint64(g.ChainSel)), vC14PZ(g.GasPrice.Int)) })
}
func vC14PHTok(ts []cciptypes.TokenPrice) string {
	if len(ts) == 0 {
		return "no_prices"
	}
	return cMap(ts, func(q cciptypes.TokenPrice) string { return cPair(cN(vC14PTokID(q.TokenID)), vC14PZ(q.Price.Int)) })
}
func vC14PHPeers(ids []commontypes.OracleID, readers []int) []libocrtypes.PeerID {
	ps := make([]libocrtypes.PeerID, 0, len(readers))
	for _, j := range readers {
		ps = append(ps, vPeer(int(ids[j])))
	}
	return ps
}

func TestVerif_C14_pluginh(t *testing.T) {
	ctx := context.Background()
	r := vNewRand(vSeed() + 1417)
	n := vEnvInt("VERIF_N", 150)
	sink := vOpenSink("C14_pplugh")
	defer sink.Close()
	e18 := big.NewInt(1e18)
	emptyQ, _ := Query{}.Encode()
	emitted := 0
	for hist := 0; emitted < n; hist++ {
		nOr, F := 4, 1
		switch r.Intn(3) {
		case 1:
			nOr, F = 7, 2
		case 2:
			nOr, F = 7, 1
		}
		perm := r.Perm(32)
		ids := make([]commontypes.OracleID, nOr)
		idmap := map[commontypes.OracleID]libocrtypes.PeerID{}
		for k := range ids {
			ids[k] = commontypes.OracleID(perm[k])
			idmap[ids[k]] = vPeer(int(ids[k]))
		}
		chains := []vC14PChain{{sel: vC14PDest, f: 1}, {sel: vC14PSrc, f: 1}, {sel: vC14PFeed, f: 1}}
		if nOr == 7 {
			fd := r.Range(1, 2)
			chains[0].f, chains[1].f, chains[2].f = fd, 3-fd, r.Range(1, 2)
		}
		hc := vNewHomeChain()
		for k := range chains {
			for j := range ids {
				if r.Chance(9, 10) {
					chains[k].readers = append(chains[k].readers, j)
				}
			}
			if len(chains[k].readers) == 0 {
				chains[k].readers = []int{0}
			}
			hc.SetChain(chains[k].sel, chains[k].f, vC14PHPeers(ids, chains[k].readers))
		}
		gfreq := vPick(r, []time.Duration{time.Minute, time.Second})
		tfreq := vPick(r, []time.Duration{time.Minute, 3 * time.Hour})
		gppb := [2]int64{vPick(r, []int64{1e6, 5e7}), vPick(r, []int64{1e6, 2e9})}
		feeInfo := map[cciptypes.ChainSelector]pluginconfig.FeeInfo{
			vC14PSrc: {ExecDeviationPPB: cciptypes.NewBigIntFromInt64(gppb[0]), DataAvailabilityDeviationPPB: cciptypes.NewBigIntFromInt64(gppb[1])}}
		nTok := r.Range(1, 3)
		tperm := r.Perm(0x3000)
		toks := make([]cciptypes.UnknownEncodedAddress, nTok)
		tokenInfo := map[cciptypes.UnknownEncodedAddress]pluginconfig.TokenInfo{}
		tppb := map[cciptypes.UnknownEncodedAddress]int64{}
		tprice := map[cciptypes.UnknownEncodedAddress]*big.Int{}
		tstored := map[cciptypes.UnknownEncodedAddress]*plugintypes2.TimestampedBig{}
		for k := range toks {
			toks[k] = vC14PTok(1 + tperm[k])
			tppb[toks[k]] = vPick(r, []int64{1e6, 5e7, 1e9})
			tokenInfo[toks[k]] = pluginconfig.TokenInfo{DeviationPPB: cciptypes.NewBigIntFromInt64(tppb[toks[k]]), Decimals: 18}
			tprice[toks[k]] = new(big.Int).Mul(big.NewInt(int64(r.Range(1, 5000))), e18)
		}
		cfg := pluginconfig.CommitOffchainConfig{
			RemoteGasPriceBatchWriteFrequency: *commonconfig.MustNewDuration(gfreq), FeeInfo: feeInfo,
			TokenPriceBatchWriteFrequency: *commonconfig.MustNewDuration(tfreq), TokenInfo: tokenInfo, PriceFeedChainSelector: vC14PFeed,
		}
		// the long-lived instance
		p := NewPlugin(1, idmap, cfg, vC14PDest, &vCCIPReader{}, nil, mocks.NewCommitPluginJSONReportCodec(), mocks.NewMessageHasher(),
			mocks.NullLogger, hc, nil, nil, nil,
			ocr3types.ReportingPluginConfig{F: F, N: nOr, OracleID: ids[0], ConfigDigest: [32]byte{1}, MaxDurationQuery: time.Second})
		if r.Bool() {
			p.contractsInitialized.Store(true)
		}
		exec := new(big.Int).Mul(big.NewInt(int64(r.Range(1, 500))), big.NewInt(1e9))
		da := new(big.Int).Mul(big.NewInt(int64(r.Range(0, 50))), big.NewInt(1e8))
		price := new(big.Int).Mul(big.NewInt(int64(r.Range(1, 5000))), e18)
		var gstored *chainfee.Update
		now := time.Unix(1_700_000_000, int64(r.Intn(1e9))).UTC()
		lastNow := now

		arbPrev := func() []byte {
			o := Outcome{}
			if r.Chance(3, 4) {
				o.ChainFeeOutcome.GasPrices = []cciptypes.GasPriceChain{{ChainSel: vPick(r, []cciptypes.ChainSelector{vC14PSrc, vC14PSrc, 4000}),
					GasPrice: cciptypes.NewBigIntFromInt64(int64(r.Range(1, 1<<40)))}}
			}
			if len(o.ChainFeeOutcome.GasPrices) == 0 || r.Bool() {
				o.TokenPriceOutcome.TokenPrices = []cciptypes.TokenPrice{{TokenID: vPick(r, append([]cciptypes.UnknownEncodedAddress{vC14PTok(0x3f00)}, toks...)),
					Price: cciptypes.NewBigIntFromInt64(int64(r.Range(1, 1<<40)))}}
			}
			b, err := o.Encode()
			if err != nil {
				t.Fatal(err)
			}
			return b
		}
		var prevB []byte
		prevKind := "first-empty"
		if r.Chance(1, 2) {
			prevB, prevKind = arbPrev(), "first-arb"
		}
		var lastOut Outcome
		rounds := r.Range(3, 8)
		// calm histories: nominal rounds with ONE deviation each; wild histories: everything varies at once
		calm := r.Chance(1, 2)
		if calm {
			rounds = r.Range(4, 10)
			if r.Bool() {
				gstored = &chainfee.Update{ChainFee: chainfee.ComponentsUSDPrices{
					ExecutionFeePriceUSD: new(big.Int).Div(new(big.Int).Mul(exec, price), e18),
					DataAvFeePriceUSD:    new(big.Int).Div(new(big.Int).Mul(da, price), e18)}, Timestamp: now.Add(-gfreq / 2)}
			}
			for _, tok := range toks {
				if r.Bool() {
					tstored[tok] = &plugintypes2.TimestampedBig{Timestamp: now.Add(-tfreq / 2), Value: cciptypes.NewBigInt(new(big.Int).Set(tprice[tok]))}
				}
			}
		}
		for k := 0; k < rounds && emitted < n; k++ {
			var changes []string
			dev, devTok := "", vPick(r, toks)
			if calm && r.Chance(3, 4) {
				dev = vPick(r, []string{"roles", "f", "market", "heartbeat", "wipe", "stored-boundary", "observers", "observers", "quiet", "quiet",
					"f-agreement", "f-agreement", "count", "count", "nup", "byz", "arbprev"})
			}
			if k > 0 {
				lastNow = now
				step := vPick(r, []time.Duration{time.Second, gfreq / 3, gfreq - 1, gfreq, gfreq + 1, 2 * gfreq, tfreq + 1})
				if calm {
					step = vPick(r, []time.Duration{time.Second, gfreq / 7})
					if dev == "heartbeat" {
						step = vPick(r, []time.Duration{gfreq - 1, gfreq, gfreq + 1, tfreq + 1})
					}
				}
				now = now.Add(step)
				muts := []func(){
					func() {
						c := &chains[r.Intn(len(chains))]
						if len(c.readers) > 1 && r.Bool() {
							x := r.Intn(len(c.readers))
							c.readers = append(append([]int{}, c.readers[:x]...), c.readers[x+1:]...)
						} else {
							have := map[int]bool{}
							for _, j := range c.readers {
								have[j] = true
							}
							for _, j := range r.Perm(nOr) {
								if !have[j] {
									c.readers = append(append([]int{}, c.readers...), j)
									break
								}
							}
						}
						hc.SetChain(c.sel, c.f, vC14PHPeers(ids, c.readers))
						changes = append(changes, "roles")
					},
					func() {
						c := &chains[r.Intn(len(chains))]
						if nOr == 7 {
							c.f = 3 - c.f
						}
						hc.SetChain(c.sel, c.f, vC14PHPeers(ids, c.readers))
						changes = append(changes, "f")
					},
					func() {
						if r.Bool() {
							exec = new(big.Int).Mul(big.NewInt(int64(r.Range(1, 500))), big.NewInt(1e9))
						} else {
							tok := vPick(r, toks)
							tprice[tok] = new(big.Int).Mul(big.NewInt(int64(r.Range(1, 5000))), e18)
						}
						changes = append(changes, "market")
					},
				}
				switch {
				case calm:
					switch dev {
					case "roles":
						muts[0]()
					case "f":
						muts[1]()
					case "market":
						muts[2]()
					}
				case r.Intn(4) == 0:
				case r.Bool():
					vPick(r, muts)()
				default:
					for _, mi := range r.Perm(len(muts))[:r.Range(2, 3)] {
						muts[mi]()
					}
				}
			}
			// stored state: last outcome's prices written (or not), wiped, boundary
			curEx := new(big.Int).Div(new(big.Int).Mul(exec, price), e18)
			curDa := new(big.Int).Div(new(big.Int).Mul(da, price), e18)
			gw := false
			for _, g := range lastOut.ChainFeeOutcome.GasPrices {
				if g.ChainSel == vC14PSrc && (calm || r.Chance(3, 4)) {
					gstored = &chainfee.Update{ChainFee: chainfee.FromPackedFee(g.GasPrice.Int), Timestamp: lastNow}
					gw = true
				}
			}
			if !gw {
				op := r.Intn(6)
				if calm {
					op = 5
					switch dev {
					case "wipe":
						op = 0
					case "stored-boundary":
						op = 1
					}
				}
				switch op {
				case 0:
					gstored = nil
				case 1, 2:
					sEx, sDa := vC14PStored(r, curEx, gppb[0]), new(big.Int).Set(curDa)
					if r.Chance(1, 3) {
						sEx, sDa = new(big.Int).Set(curEx), vC14PStored(r, curDa, gppb[1])
					}
					ts := now.Add(-gfreq).Add(time.Duration(r.Range(-1, 1)))
					if r.Bool() {
						ts = now.Add(-gfreq / 2)
					}
					gstored = &chainfee.Update{ChainFee: chainfee.ComponentsUSDPrices{ExecutionFeePriceUSD: sEx, DataAvFeePriceUSD: sDa}, Timestamp: ts}
				}
			}
			for _, tok := range toks {
				tw := false
				for _, q := range lastOut.TokenPriceOutcome.TokenPrices {
					if q.TokenID == tok && (calm || r.Chance(3, 4)) {
						tstored[tok] = &plugintypes2.TimestampedBig{Timestamp: lastNow, Value: cciptypes.NewBigInt(new(big.Int).Set(q.Price.Int))}
						tw = true
					}
				}
				if tw {
					continue
				}
				op := r.Intn(6)
				if calm {
					op = 5
					if tok == devTok {
						switch dev {
						case "wipe":
							op = 0
						case "stored-boundary":
							op = 1
						}
					}
				}
				switch op {
				case 0:
					tstored[tok] = nil
				case 1, 2:
					ts := now.Add(-tfreq).Add(time.Duration(r.Range(-1, 1)))
					if r.Bool() {
						ts = now.Add(-tfreq / 2)
					}
					tstored[tok] = &plugintypes2.TimestampedBig{Timestamp: ts, Value: cciptypes.NewBigInt(vC14PStored(r, tprice[tok], tppb[tok]))}
				}
			}
			nObs := vPick(r, []int{nOr, nOr, nOr, nOr, nOr, nOr, 2*F + 1, 2*F + 1, 2 * F, r.Range(0, 1)})
			if calm {
				nObs = nOr
				if dev == "observers" {
					nObs = vPick(r, []int{2*F + 1, 2 * F, 2*chains[0].f + 1, 2 * chains[0].f, 1})
					if nObs > nOr {
						nObs = nOr
					}
				}
			}
			if nObs < nOr {
				changes = append(changes, "observers")
			}
			observers := r.Perm(nOr)[:nObs]
			if r.Bool() {
				sort.Slice(observers, func(a, b int) bool { return ids[observers[a]] < ids[observers[b]] })
			}
			isObs := map[int]bool{}
			for _, oi := range observers {
				isObs[oi] = true
			}
			quiet := r.Chance(1, 6)
			if calm {
				quiet = dev == "quiet"
			}
			devChainIdx := r.Intn(len(chains))
			if quiet {
				changes = append(changes, "quiet")
			}
			obs := make([]Observation, nOr)
			for k := range obs {
				obs[k].FChain = map[cciptypes.ChainSelector]int{}
				obs[k].ChainFeeObs = chainfee.Observation{
					FeeComponents:     map[cciptypes.ChainSelector]commontypes2.ChainFeeComponents{},
					NativeTokenPrices: map[cciptypes.ChainSelector]cciptypes.BigInt{},
					ChainFeeUpdates:   map[cciptypes.ChainSelector]chainfee.Update{},
					FChain:            map[cciptypes.ChainSelector]int{}, TimestampNow: now}
				obs[k].TokenPriceObs = tokenprice.Observation{
					FeeQuoterTokenUpdates: map[cciptypes.UnknownEncodedAddress]plugintypes2.TimestampedBig{},
					FChain:                map[cciptypes.ChainSelector]int{}, Timestamp: now}
			}
			for _, c := range chains {
				cnt := nObs
				lose := r.Chance(1, 8)
				if calm {
					lose = dev == "f-agreement" && c.sel == chains[devChainIdx].sel
				}
				if lose {
					cnt = vPick(r, []int{2*F + 1, 2 * F, 2, 0})
					changes = append(changes, "f-agreement")
				}
				for j, oi := range observers {
					if j < cnt {
						obs[oi].FChain[c.sel] = c.f
						obs[oi].ChainFeeObs.FChain[c.sel] = c.f
						obs[oi].TokenPriceObs.FChain[c.sel] = c.f
					}
				}
			}
			spread := vPick(r, []int{0, 0, 1000})
			if calm {
				spread = 0
			}
			fDest, src, feed := chains[0].f, chains[1], chains[2]
			rdOf := func(c vC14PChain) []int {
				var rd []int
				for _, j := range c.readers {
					if isObs[j] {
						rd = append(rd, j)
					}
				}
				return rd
			}
			sr, fr, dr := rdOf(src), rdOf(feed), rdOf(chains[0])
			nFc := vC14PCount(r, src.f, len(sr))
			lowFc := r.Chance(1, 8)
			if calm {
				nFc, lowFc = len(sr), false
				if dev == "count" && r.Bool() {
					nFc = vPick(r, []int{2 * src.f, 2*src.f + 1})
					if nFc > len(sr) {
						nFc = len(sr)
					}
				}
			}
			if quiet || lowFc {
				nFc = vPick(r, []int{0, 0, 2 * src.f})
				if nFc > len(sr) {
					nFc = len(sr)
				}
			}
			for j, ri := range r.Perm(len(sr)) {
				if j >= nFc {
					break
				}
				oi := sr[ri]
				d := vC14PNear(r, da, spread)
				if da.Sign() == 0 {
					d = big.NewInt(0)
				}
				obs[oi].ChainFeeObs.FeeComponents[vC14PSrc] = commontypes2.ChainFeeComponents{ExecutionFee: vC14PNear(r, exec, spread), DataAvailabilityFee: d}
				if calm || !(r.Chance(1, 10)) {
					obs[oi].ChainFeeObs.NativeTokenPrices[vC14PSrc] = cciptypes.NewBigInt(vC14PNear(r, price, spread))
				}
			}
			if gstored != nil {
				nUp := vC14PCount(r, fDest, len(dr))
				if calm {
					nUp = len(dr)
					if dev == "nup" {
						nUp = vPick(r, []int{0, 2 * fDest, 2*fDest + 1})
						if nUp > len(dr) {
							nUp = len(dr)
						}
					}
				}
				for j, ri := range r.Perm(len(dr)) {
					if j >= nUp {
						break
					}
					obs[dr[ri]].ChainFeeObs.ChainFeeUpdates[vC14PSrc] = chainfee.Update{
						ChainFee: chainfee.ComponentsUSDPrices{ExecutionFeePriceUSD: new(big.Int).Set(gstored.ChainFee.ExecutionFeePriceUSD),
							DataAvFeePriceUSD: new(big.Int).Set(gstored.ChainFee.DataAvFeePriceUSD)}, Timestamp: gstored.Timestamp}
				}
			}
			for _, tok := range toks {
				nP := vC14PCount(r, feed.f, len(fr))
				lowP := r.Chance(1, 8)
				if calm {
					nP, lowP = len(fr), false
					if dev == "count" && tok == devTok {
						nP = vPick(r, []int{0, 2 * feed.f, 2*feed.f + 1})
						if nP > len(fr) {
							nP = len(fr)
						}
					}
				}
				if quiet || lowP {
					nP = vPick(r, []int{0, 0, 2 * feed.f})
					if nP > len(fr) {
						nP = len(fr)
					}
				}
				for j, ri := range r.Perm(len(fr)) {
					if j >= nP {
						break
					}
					oi := fr[ri]
					obs[oi].TokenPriceObs.FeedTokenPrices = append(obs[oi].TokenPriceObs.FeedTokenPrices,
						cciptypes.TokenPrice{TokenID: tok, Price: cciptypes.NewBigInt(vC14PNear(r, tprice[tok], spread))})
				}
				if st := tstored[tok]; st != nil {
					nUp := vC14PCount(r, fDest, len(dr))
					if calm {
						nUp = len(dr)
						if dev == "nup" && tok == devTok {
							nUp = vPick(r, []int{0, 2 * fDest, 2*fDest + 1})
							if nUp > len(dr) {
								nUp = len(dr)
							}
						}
					}
					for j, ri := range r.Perm(len(dr)) {
						if j >= nUp {
							break
						}
						obs[dr[ri]].TokenPriceObs.FeeQuoterTokenUpdates[tok] = plugintypes2.TimestampedBig{Timestamp: st.Timestamp, Value: cciptypes.NewBigInt(new(big.Int).Set(st.Value.Int))}
					}
				}
			}
			byz := ""
			if nObs > 0 && ((!calm && r.Chance(1, 6)) || dev == "byz") {
				oi := vPick(r, observers)
				switch r.Intn(4) {
				case 0:
					obs[oi].ChainFeeObs.ChainFeeUpdates[vC14PSrc] = chainfee.Update{Timestamp: now}
					byz += "+nilupdate"
				case 1:
					obs[oi].TokenPriceObs.FeeQuoterTokenUpdates[toks[0]] = plugintypes2.TimestampedBig{Timestamp: now}
					byz += "+niltokupdate"
				case 2:
					obs[oi].ChainFeeObs.FeeComponents[vC14PSrc] = commontypes2.ChainFeeComponents{ExecutionFee: big.NewInt(0), DataAvailabilityFee: big.NewInt(1)}
					byz += "+zeroexec"
				case 3:
					obs[oi].FChain[vC14PSrc] = 0
					byz += "+topfnonpos"
				}
			}
			// the previous outcome handed to this round
			if k > 0 {
				prevKind = "own"
				if (!calm && r.Chance(1, 6)) || dev == "arbprev" {
					prevB, prevKind = arbPrev(), "arb"
				}
			}
			prevO, err := decodeOutcome(prevB)
			if err != nil {
				t.Fatal(err)
			}
			outCtx := ocr3types.OutcomeContext{SeqNr: uint64(k + 1), PreviousOutcome: prevB}

			verdicts := make([]string, len(observers))
			aoStr := make([]string, len(observers))
			var accepted []types.AttributedObservation
			cls := fmt.Sprintf("N%dF%d", nOr, F)
			if calm {
				cls += "+calm"
				changes = nil
				if dev != "" {
					changes = []string{dev}
				}
			}
			for k, oi := range observers {
				enc, err := obs[oi].Encode()
				if err != nil {
					t.Fatal(err)
				}
				ao := types.AttributedObservation{Observation: enc, Observer: ids[oi]}
				ok := func() (ok bool) {
					defer func() {
						if recover() != nil {
							ok = false
							cls += "+VALPANIC"
						}
					}()
					return p.ValidateObservation(ctx, outCtx, emptyQ, ao) == nil
				}()
				verdicts[k] = cBool(ok)
				if ok {
					accepted = append(accepted, ao)
				}
				cf, tp := obs[oi].ChainFeeObs, obs[oi].TokenPriceObs
				var uk []uint64
				for tk := range tp.FeeQuoterTokenUpdates {
					uk = append(uk, vC14PTokID(tk))
				}
				vSortU64(uk)
				cfStr := cApp("mkCfRaw",
					vC14PSorted(cf.FeeComponents, func(c commontypes2.ChainFeeComponents) string {
						return cPair(vC14POpt(c.ExecutionFee), vC14POpt(c.DataAvailabilityFee))
					}),
					vC14PSorted(cf.NativeTokenPrices, func(b cciptypes.BigInt) string { return vC14POpt(b.Int) }),
					vC14PSorted(cf.ChainFeeUpdates, func(u chainfee.Update) string {
						return cTup(vC14POpt(u.ChainFee.ExecutionFeePriceUSD), vC14POpt(u.ChainFee.DataAvFeePriceUSD), vC14PZ(big.NewInt(u.Timestamp.UnixNano())))
					}),
					vC14PSorted(cf.FChain, func(f int) string { return cZ(int64(f)) }),
					vC14PZ(big.NewInt(cf.TimestampNow.UnixNano())))
				tpStr := cApp("mkTpRaw",
					cMap(tp.FeedTokenPrices, func(q cciptypes.TokenPrice) string { return cPair(cN(vC14PTokID(q.TokenID)), vC14POpt(q.Price.Int)) }),
					cMap(uk, func(k uint64) string {
						u := tp.FeeQuoterTokenUpdates[vC14PTok(int(k))]
						return cPair(cN(k), cPair(vC14PZ(big.NewInt(u.Timestamp.UnixNano())), vC14POpt(u.Value.Int)))
					}),
					vC14PSorted(tp.FChain, func(f int) string { return cZ(int64(f)) }),
					vC14PZ(big.NewInt(tp.Timestamp.UnixNano())))
				aoStr[k] = cPair(cN(uint64(ids[oi])), cTup(cfStr, tpStr, vC14PSorted(obs[oi].FChain, func(f int) string { return cZ(int64(f)) })))
			}
			nPrices := 0
			var nextB []byte
			lastOut = Outcome{}
			res := func() (out string) {
				defer func() {
					if recover() != nil {
						out = "Panic"
					}
				}()
				ocb, err := p.Outcome(ctx, outCtx, emptyQ, accepted)
				if err != nil {
					return "Err"
				}
				oc, err := decodeOutcome(ocb)
				if err != nil {
					return "Err"
				}
				nextB, lastOut = ocb, oc
				reps, err := p.Reports(ctx, uint64(k+1), ocb)
				if err != nil || len(reps) > 1 {
					return "Err"
				}
				var pu cciptypes.PriceUpdates
				if len(reps) == 1 {
					rep, err := p.reportCodec.Decode(ctx, reps[0].ReportWithInfo.Report)
					if err != nil {
						return "Err"
					}
					pu = rep.PriceUpdates
				}
				nPrices = len(oc.ChainFeeOutcome.GasPrices) + len(oc.TokenPriceOutcome.TokenPrices)
				return cApp("pp_out", vC14PHGas(oc.ChainFeeOutcome.GasPrices), vC14PHTok(oc.TokenPriceOutcome.TokenPrices),
					vC14PHGas(pu.GasPriceUpdates), vC14PHTok(pu.TokenPriceUpdates))
			}()
			sorted := append([]vC14PChain{}, chains...)
			sort.Slice(sorted, func(a, b int) bool { return sorted[a].sel < sorted[b].sel })
			roleStr := cMap(sorted, func(c vC14PChain) string {
				return cPair(cN(uint64(c.sel)), cMap(c.readers, func(j int) string { return cN(uint64(ids[j])) }))
			})
			known := cMap(ids, func(o commontypes.OracleID) string { return cN(uint64(o)) })
			var tiKeys []uint64
			for k := range tokenInfo {
				tiKeys = append(tiKeys, vC14PTokID(k))
			}
			vSortU64(tiKeys)
			input := cTup(vC14PHGas(prevO.ChainFeeOutcome.GasPrices), vC14PHTok(prevO.TokenPriceOutcome.TokenPrices),
				cTup(vC14PZ(big.NewInt(int64(gfreq))),
					cList([]string{cPair(cN(uint64(vC14PSrc)), cPair(cZ(gppb[0]), cZ(gppb[1])))}),
					vC14PZ(big.NewInt(int64(tfreq))),
					cMap(tiKeys, func(k uint64) string { return cPair(cN(k), cZ(tppb[vC14PTok(int(k))])) }),
					cN(uint64(vC14PFeed)), cZ(int64(F)), cN(uint64(vC14PDest)), roleStr, known, cList(aoStr)))
			prevNonEmpty := len(prevO.ChainFeeOutcome.GasPrices)+len(prevO.TokenPriceOutcome.TokenPrices) > 0
			cls += "/prev=" + prevKind
			if prevNonEmpty {
				cls += "+"
			}
			if len(changes) > 0 {
				sort.Strings(changes)
				var u []string
				for i, x := range changes {
					if i == 0 || changes[i-1] != x {
						u = append(u, x)
					}
				}
				cls += "/" + strings.Join(u, ",")
			}
			if byz != "" {
				cls += "/byz"
			}
			if nPrices > 0 {
				cls += "/prices"
			} else {
				cls += "/none"
			}
			sink.Emit("C14_pplugh", cls, prevNonEmpty, cPair(input, cPair(cList(verdicts), res)),
				map[string]any{"history": hist, "round": k, "N": nOr, "F": F, "fdest": fDest, "fsrc": src.f, "ffeed": feed.f, "byz": byz,
					"changes": changes, "prevKind": prevKind, "prev": prevO, "obs": obs, "observers": observers, "result": res})
			emitted++
			prevB = nextB
		}

	}
}

//go:build verif

package mathslib

import (
	"math/big"
	"testing"
)

// Coq numerals in hexadecimal: decimal literals of 20..80 digits dominate the parsing time of the case files
func vC14Z(b *big.Int) string {
	if b.Sign() < 0 {
		return "(-0x" + new(big.Int).Neg(b).Text(16) + ")%Z"
	}
	return "(0x" + b.Text(16) + ")%Z"
}
func vC14Zi(v int64) string { return vC14Z(big.NewInt(v)) }

// C14 (mathslib part): Deviates in both argument orders, CalculateUsdPerUnitGas.

func vC14Big(r *vRand) *big.Int {
	switch r.Intn(10) {
	case 0:
		return big.NewInt(0)
	case 1:
		return big.NewInt(int64(r.Range(1, 3)))
	case 2:
		return new(big.Int).Lsh(big.NewInt(1), uint(r.Range(100, 260)))
	case 3:
		return new(big.Int).Add(new(big.Int).Lsh(big.NewInt(int64(r.Range(1, 1000))), uint(r.Range(60, 130))), big.NewInt(int64(r.Intn(1000))))
	default:
		return new(big.Int).SetUint64(r.U64() >> uint(r.Intn(60)))
	}
}

func TestVerif_C14_dev(t *testing.T) {
	r := vNewRand(vSeed() + 1401)
	n := vEnvInt("VERIF_N", 400)
	sink := vOpenSink("C14_dev")
	defer sink.Close()
	e9 := big.NewInt(1e9)
	for i := 0; i < n; i++ {
		x2 := vC14Big(r)
		ppb := vPick(r, []int64{0, 1, 1000, 1e6, 5e7, 1e9, 2e9, 1<<62 + 5, -1})
		var x1 *big.Int
		cls := ""
		switch r.Intn(8) {
		case 0:
			x1, cls = vC14Big(r), "random"
		case 1:
			x1, cls = new(big.Int).Set(x2), "equal"
		case 2:
			x1, cls = big.NewInt(0), "x1zero"
		case 3: // negative operand: outside the domain of prices, model correspondence only
			x1, cls = new(big.Int).Neg(vC14Big(r)), "negative"
		default:
			// deviation exactly at the threshold: x1 = x2 + ceil((ppb+d)*x2/1e9) +- 1
			d := int64(r.Range(-1, 1))
			num := new(big.Int).Mul(big.NewInt(ppb+d), x2)
			q, m := new(big.Int).DivMod(num, e9, new(big.Int))
			if m.Sign() != 0 && r.Bool() {
				q.Add(q, big.NewInt(1))
			}
			x1 = new(big.Int).Add(x2, q)
			x1.Add(x1, big.NewInt(int64(r.Range(-1, 1))))
			cls = "boundary"
			if x1.Sign() < 0 {
				x1.SetInt64(0)
			}
		}
		if r.Bool() {
			x1, x2 = x2, x1
		}
		a, b := new(big.Int).Set(x1), new(big.Int).Set(x2)
		d12 := Deviates(x1, x2, ppb)
		d21 := Deviates(x2, x1, ppb)
		if a.Cmp(x1) != 0 || b.Cmp(x2) != 0 {
			cls += "+MUTATED-ARGS"
			d12 = !d21 // force a visible failure: the function must not modify its arguments
		}
		sink.Emit("C14_dev", cls, x1.Sign() != 0 && x2.Sign() != 0 && x1.Cmp(x2) != 0,
			cPair(cTup(vC14Z(a), vC14Z(b), vC14Zi(ppb)), cPair(cBool(d12), cBool(d21))),
			map[string]any{"x1": a.String(), "x2": b.String(), "ppb": ppb, "d12": d12, "d21": d21})
	}
}

func TestVerif_C14_usd(t *testing.T) {
	r := vNewRand(vSeed() + 1402)
	n := vEnvInt("VERIF_N", 200)
	sink := vOpenSink("C14_usd")
	defer sink.Close()
	e18 := big.NewInt(1e18)
	for i := 0; i < n; i++ {
		a, b := vC14Big(r), vC14Big(r)
		cls := "random"
		if r.Chance(1, 2) {
			// product within 1 of a multiple of 1e18
			cls = "boundary"
			a = new(big.Int).Mul(big.NewInt(int64(r.Range(1, 1<<30))), big.NewInt(1e9))
			b = new(big.Int).Mul(big.NewInt(int64(r.Range(1, 1<<30))), big.NewInt(1e9))
			switch r.Intn(3) {
			case 0:
				a, b = new(big.Int).Mul(a, b), big.NewInt(1)
				a.Add(a, big.NewInt(int64(r.Range(-1, 1))))
			case 1:
				b = new(big.Int).Set(e18)
			}
		}
		a0, b0 := new(big.Int).Set(a), new(big.Int).Set(b)
		res := CalculateUsdPerUnitGas(a, b)
		if a0.Cmp(a) != 0 || b0.Cmp(b) != 0 {
			cls += "+MUTATED-ARGS"
			res = big.NewInt(-1)
		}
		sink.Emit("C14_usd", cls, a0.Sign() != 0 && b0.Sign() != 0, cPair(cPair(vC14Z(a0), vC14Z(b0)), vC14Z(res)),
			map[string]any{"a": a0.String(), "b": b0.String(), "res": res.String()})
	}
}

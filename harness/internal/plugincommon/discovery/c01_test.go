//go:build verif

package discovery

import (
	"context"
	"encoding/hex"
	"sort"
	"testing"

	"github.com/smartcontractkit/libocr/commontypes"
	ragep2ptypes "github.com/smartcontractkit/libocr/ragep2p/types"

	"github.com/smartcontractkit/chainlink-common/pkg/logger"

	"github.com/smartcontractkit/chainlink-ccip/internal/plugincommon"
	dt "github.com/smartcontractkit/chainlink-ccip/internal/plugincommon/discovery/discoverytypes"
	"github.com/smartcontractkit/chainlink-ccip/pkg/consts"
	"github.com/smartcontractkit/chainlink-ccip/pkg/reader"
	cciptypes "github.com/smartcontractkit/chainlink-ccip/pkg/types/ccipocr3"
)

// C01 (discovery part): ContractDiscoveryProcessor.Outcome with a recording CCIPReader.Sync.
// Case = ((F, dest, sync_fails, observations), Ok (contracts handed to Sync, Outcome returned error)).

type vC01DChain struct {
	sel cciptypes.ChainSelector
	f   int
}

func vC01DTarget(r *vRand, thr, n int) int {
	c := vPick(r, []int{0, 1, thr - 1, thr, thr, thr + 1, n})
	if c < 0 {
		c = 0
	}
	if c > n {
		c = n
	}
	return c
}

// address value v: 0 = one of the isZero forms; 1 = value A; 2.. = values that differ from A in exactly one respect
// (last byte, first byte, one more trailing zero byte, one leading zero byte)
func vC01DAddr(r *vRand, v int) cciptypes.UnknownAddress {
	switch v {
	case 0:
		return vPick(r, []cciptypes.UnknownAddress{nil, {}, {0}, {0, 0, 0, 0}})
	case 1:
		return cciptypes.UnknownAddress{0xD0, 1}
	case 2:
		return cciptypes.UnknownAddress{0xD0, 2}
	case 3:
		return cciptypes.UnknownAddress{0xD1, 1}
	case 4:
		return cciptypes.UnknownAddress{0xD0, 1, 0}
	default:
		return cciptypes.UnknownAddress{0, 0xD0, 1}
	}
}

// identity of an address = its raw bytes (hand-written encoding, independent of any String()/"%v" of the code under test)
func vC01DAddrID(in *vIntern, a cciptypes.UnknownAddress) uint64 {
	if vC01IsZero(a) {
		return 0
	}
	return in.Id(hex.EncodeToString(a))
}

// reference for "no non-zero byte" used only to pick the id 0; the implementation's own isZero decides what is skipped
func vC01IsZero(a []byte) bool {
	for _, b := range a {
		if b != 0 {
			return false
		}
	}
	return true
}

func vC01DMap(in *vIntern, m map[cciptypes.ChainSelector]cciptypes.UnknownAddress) string {
	ks := make([]uint64, 0, len(m))
	for k := range m {
		ks = append(ks, uint64(k))
	}
	vSortU64(ks)
	return cMap(ks, func(k uint64) string {
		return cPair(cN(k), cN(vC01DAddrID(in, m[cciptypes.ChainSelector(k)])))
	})
}

func vC01DFChain(m map[cciptypes.ChainSelector]int) string {
	ks := make([]uint64, 0, len(m))
	for k := range m {
		ks = append(ks, uint64(k))
	}
	vSortU64(ks)
	return cMap(ks, func(k uint64) string { return cPair(cN(k), cZ(int64(m[cciptypes.ChainSelector(k)]))) })
}

func TestVerif_C01_disc(t *testing.T) {
	r := vNewRand(vSeed() + 202)
	n := vEnvInt("VERIF_N", 300)
	sink := vOpenSink("C01_disc")
	defer sink.Close()
	names := []string{consts.ContractNameOnRamp, consts.ContractNameNonceManager, consts.ContractNameRMNRemote,
		consts.ContractNameFeeQuoter, consts.ContractNameRouter}
	for i := 0; i < n; i++ {
		in := vNewIntern()
		nOr := r.Range(4, 13)
		F := (nOr - 1) / 3
		cls := "std"
		switch r.Intn(14) {
		case 0:
			F, cls = 0, "F0"
		case 1:
			F, cls = -1, "Fneg"
		case 2:
			F, cls = r.Range(1, 4), "Frand"
		}
		perm := r.Perm(32)
		ids := make([]commontypes.OracleID, nOr)
		idmap := map[commontypes.OracleID]ragep2ptypes.PeerID{}
		for k := range ids {
			ids[k] = commontypes.OracleID(perm[k])
			idmap[ids[k]] = vPeer(int(ids[k]))
		}
		dest := cciptypes.ChainSelector(900)
		chains := []vC01DChain{{dest, r.Range(1, 3)}}
		for k, ns := 0, r.Range(1, 3); k < ns; k++ {
			chains = append(chains, vC01DChain{cciptypes.ChainSelector(10 + r.Intn(3) + 10*k), r.Range(1, 3)})
		}
		obs := make([]dt.Observation, nOr)
		for k := range obs {
			obs[k].FChain = map[cciptypes.ChainSelector]int{}
			obs[k].Addresses = reader.ContractAddresses{}
		}
		thrF := 2*F + 1
		if thrF < 1 {
			thrF = 1
		}
		noDest := r.Chance(1, 5) // class of F03: no agreement on the destination's f
		for _, c := range chains {
			tc := vC01DTarget(r, thrF, nOr)
			if c.sel == dest {
				if noDest {
					tc = vPick(r, []int{0, thrF - 1})
					if tc < 0 {
						tc = 0
					}
				} else if r.Chance(3, 4) {
					tc = nOr
				}
			}
			alt := vC01DTarget(r, thrF, nOr)
			for j, oi := range r.Perm(nOr) {
				switch {
				case j < tc:
					obs[oi].FChain[c.sel] = c.f
				case j < tc+alt && r.Chance(1, 2):
					obs[oi].FChain[c.sel] = c.f + 1
				}
			}
		}
		put := func(oi int, name string, ch cciptypes.ChainSelector, a cciptypes.UnknownAddress) {
			if obs[oi].Addresses[name] == nil {
				obs[oi].Addresses[name] = map[cciptypes.ChainSelector]cciptypes.UnknownAddress{}
			}
			obs[oi].Addresses[name][ch] = a
		}
		for _, name := range names {
			for _, c := range chains {
				thr := 2*c.f + 1
				switch name {
				case consts.ContractNameOnRamp:
					if c.sel == dest && r.Chance(2, 3) {
						continue
					}
					thr = 2*chains[0].f + 1 // destination's f
				case consts.ContractNameNonceManager, consts.ContractNameRMNRemote:
					if c.sel != dest && r.Chance(3, 4) {
						continue // entries under other keys are noise the processor must ignore
					}
					thr = 2*chains[0].f + 1
				}
				ta := vC01DTarget(r, thr, nOr)
				tb := 0
				bv := 2
				order := r.Perm(nOr)
				if r.Chance(1, 2) {
					tb = vPick(r, []int{1, 1, vC01DTarget(r, thr, nOr)})
					bv = r.Range(2, 5)
					// the first holder of the competing value has the lowest / the highest oracle id
					if mode := r.Intn(3); mode != 0 && ta < nOr {
						best := 0
						for k := range order {
							if (mode == 1 && ids[order[k]] < ids[order[best]]) || (mode == 2 && ids[order[k]] > ids[order[best]]) {
								best = k
							}
						}
						order[ta], order[best] = order[best], order[ta]
					}
				}
				tz := 0
				if r.Chance(1, 3) {
					tz = vPick(r, []int{1, 2, 3, thr, thr + 1})
				}
				for j, oi := range order {
					switch {
					case j < ta:
						put(oi, name, c.sel, vC01DAddr(r, 1))
					case j < ta+tb:
						put(oi, name, c.sel, vC01DAddr(r, bv))
					case j < ta+tb+tz:
						put(oi, name, c.sel, vC01DAddr(r, 0))
					}
				}
			}
		}
		if noDest {
			cls = "nodestf"
			// the F03 shape: one oracle alone reports an on-ramp for a chain nobody else reports
			if r.Chance(1, 2) {
				put(r.Intn(nOr), consts.ContractNameOnRamp, 555, cciptypes.UnknownAddress{0xBA, 0xD0})
				cls = "nodestf-lone"
			}
		} else if r.Chance(1, 6) {
			put(r.Intn(nOr), consts.ContractNameOnRamp, 555, cciptypes.UnknownAddress{0xBA, 0xD0})
			cls += "+lone"
		}
		syncFails := r.Chance(1, 10)

		var got []reader.ContractAddresses
		var rd reader.CCIPReader = &vCCIPReader{SyncFn: func(c reader.ContractAddresses) error {
			got = append(got, c)
			if syncFails {
				return vErrNext()
			}
			return nil
		}}
		cdp := NewContractDiscoveryProcessor(logger.Nop(), &rd, nil, dest, F, idmap)
		order := r.Perm(nOr)
		if r.Chance(1, 2) { // ascending oracle id, as libocr hands them over
			sort.Slice(order, func(a, b int) bool { return ids[order[a]] < ids[order[b]] })
		}
		aos := make([]plugincommon.AttributedObservation[dt.Observation], nOr)
		for k, oi := range order {
			aos[k] = plugincommon.AttributedObservation[dt.Observation]{OracleID: ids[oi], Observation: obs[oi]}
		}
		res := func() (out string) {
			defer func() {
				if rec := recover(); rec != nil {
					out = "Panic"
				}
			}()
			_, err := cdp.Outcome(context.Background(), dt.Outcome{}, dt.Query{}, aos)
			if len(got) != 1 || len(got[0]) != len(names) {
				return "Err"
			}
			parts := make([]string, len(names))
			for k, name := range names {
				m, ok := got[0][name]
				if !ok {
					return "Err"
				}
				parts[k] = vC01DMap(in, m)
			}
			return cApp("Ok", cPair(cApp("mkDcons", parts...), cBool(err != nil)))
		}()
		// interning of inputs after the outputs does not matter: ids are per rendering
		aoStr := cMap(aos, func(ao plugincommon.AttributedObservation[dt.Observation]) string {
			parts := []string{vC01DFChain(ao.Observation.FChain)}
			for _, name := range names {
				parts = append(parts, vC01DMap(in, ao.Observation.Addresses[name]))
			}
			return cPair(cN(uint64(ao.OracleID)), cApp("mkDobs", parts...))
		})
		input := cTup(cZ(int64(F)), cN(uint64(dest)), cBool(syncFails), aoStr)
		nt := res != "Err" && res != "Panic" && nOr >= 4
		sink.Emit("C01_disc", cls, nt, cPair(input, res),
			map[string]any{"F": F, "dest": dest, "n": nOr, "syncFails": syncFails, "aos": aos, "sync": got})
	}
}

//go:build verif

package plugincommon

import (
	"testing"
	"time"

	mapset "github.com/deckarep/golang-set/v2"
	"github.com/smartcontractkit/libocr/commontypes"
	"github.com/smartcontractkit/libocr/offchainreporting2plus/ocr3types"

	cciptypes "github.com/smartcontractkit/chainlink-ccip/pkg/types/ccipocr3"
)

type vC16Support struct{ sup map[commontypes.OracleID]int }

func (s vC16Support) DestChain() cciptypes.ChainSelector { return 1 }
func (s vC16Support) SupportedChains(commontypes.OracleID) (mapset.Set[cciptypes.ChainSelector], error) {
	return nil, nil
}
func (s vC16Support) SupportsDestChain(o commontypes.OracleID) (bool, error) {
	switch s.sup[o] {
	case 0:
		return false, nil
	case 1:
		return true, nil
	}
	return false, errC16
}
func (s vC16Support) KnownSourceChainsSlice() ([]cciptypes.ChainSelector, error) { return nil, nil }

type vC16err struct{}

func (vC16err) Error() string { return "scripted" }

var errC16 = vC16err{}

func vC16Sched(s *ocr3types.TransmissionSchedule, err error) string {
	if err != nil || s == nil {
		return cNone()
	}
	return cSome(cPair(
		cMap(s.Transmitters, func(o commontypes.OracleID) string { return cN(uint64(o)) }),
		cMap(s.TransmissionDelays, func(d time.Duration) string { return cZ(int64(d)) })))
}

func TestVerif_C16_sched(t *testing.T) {
	r := vNewRand(vSeed())
	n := vEnvInt("VERIF_N", 300)
	sink := vOpenSink("C16_sched")
	defer sink.Close()
	for i := 0; i < n; i++ {
		// class: size and writer-count boundary
		cls := vPick(r, []string{"none", "one", "some", "all", "err", "big"})
		size := r.Range(1, 9)
		if cls == "big" {
			size = r.Range(10, 31)
		}
		if i == 0 {
			size = 0 // no oracles at all
			cls = "empty"
		}
		perm := r.Perm(256)
		ids := make([]commontypes.OracleID, size)
		sup := map[commontypes.OracleID]int{}
		for k := 0; k < size; k++ {
			ids[k] = commontypes.OracleID(perm[k])
			switch cls {
			case "none":
				sup[ids[k]] = 0
			case "all":
				sup[ids[k]] = 1
			case "one":
				sup[ids[k]] = 0
			default:
				if r.Bool() {
					sup[ids[k]] = 1
				}
			}
		}
		if cls == "one" && size > 0 {
			sup[ids[r.Intn(size)]] = 1
		}
		if cls == "err" && size > 0 {
			sup[ids[r.Intn(size)]] = 2
		}
		mult := vPick(r, []time.Duration{1, 3 * time.Second, 5 * time.Second, 1500 * time.Millisecond})
		// second order: a permutation of the first
		p2 := r.Perm(size)
		ids2 := make([]commontypes.OracleID, size)
		for k := range p2 {
			ids2[k] = ids[p2[k]]
		}
		cs := vC16Support{sup: sup}
		s1, e1 := GetTransmissionSchedule(cs, ids, mult)
		s2, e2 := GetTransmissionSchedule(cs, ids2, mult)
		item := func(o commontypes.OracleID) string { return cPair(cN(uint64(o)), cNi(sup[o])) }
		in := cTup(cMap(ids, item), cMap(ids2, item), cZ(int64(mult)))
		out := cPair(vC16Sched(s1, e1), vC16Sched(s2, e2))
		nw := 0
		for _, v := range sup {
			if v == 1 {
				nw++
			}
		}
		sink.Emit("C16_sched", cls, size >= 2 && nw >= 1, cPair(in, out),
			map[string]any{"ids": ids, "ids2": ids2, "sup": sup, "mult_ns": int64(mult)})
	}
}

//go:build verif

package reader

// C18 correspondence harness, home-chain poller (internal/reader/home_chain.go).
//   TestVerif_C18_home_seq  : sequential histories over a scripted, gated contract reader; every getter,
//                             Ready and HealthReport compared with the model at every read.
//   TestVerif_C18_home_conc : 16 reader goroutines while the poller refreshes (run with -race).

import (
	"context"
	"encoding/json"
	"errors"
	"fmt"
	"runtime"
	"sort"
	"strings"
	"sync"
	"sync/atomic"
	"testing"
	"time"

	libocrtypes "github.com/smartcontractkit/libocr/ragep2p/types"

	"github.com/smartcontractkit/chainlink-common/pkg/logger"
	"github.com/smartcontractkit/chainlink-common/pkg/types"
	"github.com/smartcontractkit/chainlink-common/pkg/types/query"
	"github.com/smartcontractkit/chainlink-common/pkg/types/query/primitives"

	"github.com/smartcontractkit/chainlink-ccip/chainconfig"
	"github.com/smartcontractkit/chainlink-ccip/pkg/consts"
	cciptypes "github.com/smartcontractkit/chainlink-ccip/pkg/types/ccipocr3"
)

var vC18Err = errors.New("verif: scripted reader error")

// ---------- scripted contract reader ----------
type vC18Answer struct {
	err   bool
	infos []ChainConfigInfo
}

// gated: every GetLatestValue announces itself on arrived and then waits for the harness's answer (or ctx end).
// free:  the k-th call is answered with script[k] at once; calls beyond the script wait for ctx end.
type vC18Reader struct {
	gated   bool
	arrived chan struct{}
	answers chan vC18Answer
	script  [][]ChainConfigInfo
	calls   atomic.Int64
	done    chan struct{} // closed when the free script is used up
	once    sync.Once
}

func (r *vC18Reader) GetLatestValue(ctx context.Context, _ string, _ primitives.ConfidenceLevel, _ any, ret any) error {
	out, ok := ret.(*[]ChainConfigInfo)
	if !ok {
		return vC18Err
	}
	if !r.gated {
		k := int(r.calls.Add(1)) - 1
		if k < len(r.script) {
			*out = r.script[k]
			return nil
		}
		r.once.Do(func() { close(r.done) })
		<-ctx.Done()
		return ctx.Err()
	}
	select {
	case r.arrived <- struct{}{}:
	case <-ctx.Done():
		return ctx.Err()
	}
	select {
	case a := <-r.answers:
		if a.err {
			return vC18Err
		}
		*out = a.infos
		return nil
	case <-ctx.Done():
		return ctx.Err()
	}
}
func (r *vC18Reader) BatchGetLatestValues(context.Context, types.BatchGetLatestValuesRequest) (types.BatchGetLatestValuesResult, error) {
	return nil, vC18Err
}
func (r *vC18Reader) Bind(context.Context, []types.BoundContract) error   { return nil }
func (r *vC18Reader) Unbind(context.Context, []types.BoundContract) error { return nil }
func (r *vC18Reader) QueryKey(context.Context, types.BoundContract, query.KeyFilter, query.LimitAndSort, any) ([]types.Sequence, error) {
	return nil, vC18Err
}

func (r *vC18Reader) waitArrival(t *testing.T) {
	// the event is the call itself (normally within a millisecond); "did not call" is decided by a watch that
	// stretches on a starved machine, and only after a second, longer one has expired too - never by the wall clock alone
	if _, ok := vRecvW(r.arrived, 30*time.Second); ok {
		return
	}
	if _, ok := vRecvW(r.arrived, 60*time.Second); !ok {
		t.Fatalf("C18: poller did not call the contract reader")
	}
}

// ---------- identities ----------
func vC18Peer(i int) libocrtypes.PeerID {
	var p libocrtypes.PeerID
	p[0] = byte(i)
	p[1] = byte(i >> 8)
	p[31] = 0x5a
	return p
}
func vC18PeerN(p libocrtypes.PeerID) uint64 {
	if p[31] != 0x5a {
		return 99999
	}
	return uint64(p[0]) | uint64(p[1])<<8
}

type vC18Gen struct {
	r      *vRand
	cfgIDs *vIntern
	blobs  [][]byte
}

func vC18NewGen(r *vRand) *vC18Gen {
	g := &vC18Gen{r: r, cfgIDs: vNewIntern()}
	for _, oc := range []uint32{0, 1, 7} {
		b, _ := chainconfig.EncodeChainConfig(chainconfig.ChainConfig{
			GasPriceDeviationPPB: cciptypes.NewBigIntFromInt64(int64(oc) + 5), OptimisticConfirmations: oc})
		g.blobs = append(g.blobs, b)
	}
	g.blobs = append(g.blobs, []byte("{bad json"), nil, []byte(`{"optimisticConfirmations":"x"}`))
	return g
}

// cfg id of a decoded chain config (identity = its JSON rendering)
func (g *vC18Gen) cfgID(c chainconfig.ChainConfig) uint64 {
	b, _ := json.Marshal(c)
	return g.cfgIDs.Id(string(b))
}

func (g *vC18Gen) entryCoq(e ChainConfigInfo) string {
	rs := make([]string, len(e.ChainConfig.Readers))
	for i, p := range e.ChainConfig.Readers {
		rs[i] = cN(vC18PeerN(p))
	}
	cfg := cNone()
	if dec, err := chainconfig.DecodeChainConfig(e.ChainConfig.Config); err == nil {
		cfg = cSome(cN(g.cfgID(dec)))
	}
	return cApp("mkE", cN(uint64(e.ChainSelector)), cList(rs), cN(uint64(e.ChainConfig.FChain)), cfg)
}

func (g *vC18Gen) entry(sel uint64, good bool) ChainConfigInfo {
	r := g.r
	var readers []libocrtypes.PeerID
	for k := r.Intn(5); k > 0; k-- {
		readers = append(readers, vC18Peer(r.Range(1, 6)))
	}
	blob := g.blobs[r.Intn(3)]
	if !good {
		blob = g.blobs[3+r.Intn(3)]
	}
	f := uint8(r.Intn(4))
	if r.Chance(1, 10) {
		f = uint8(vPick(r, []int{0, 255, 128}))
	}
	return ChainConfigInfo{ChainSelector: cciptypes.ChainSelector(sel),
		ChainConfig: HomeChainConfigMapper{Readers: readers, FChain: f, Config: blob}}
}

func (g *vC18Gen) config() []ChainConfigInfo {
	r := g.r
	n := r.Intn(6)
	var es []ChainConfigInfo
	for i := 0; i < n; i++ {
		es = append(es, g.entry(uint64(r.Range(1, 7)), !r.Chance(1, 8))) // duplicates of a selector are wanted
	}
	return es
}

// ---------- events ----------
type vC18Ev struct {
	kind  string // start, poll, read, close
	pages []vC18Answer
	peers []uint64
	sels  []uint64
}

func (g *vC18Gen) read() vC18Ev {
	r := g.r
	// every peer of the pool (1..6) plus one that is never configured, every selector of the pool plus an unknown one
	ev := vC18Ev{kind: "read"}
	for _, p := range r.Perm(7) {
		ev.peers = append(ev.peers, uint64(p+1))
	}
	for _, s := range r.Perm(8) {
		ev.sels = append(ev.sels, uint64(s+1))
	}
	return ev
}
func (g *vC18Gen) pollOK() vC18Ev {
	return vC18Ev{kind: "poll", pages: []vC18Answer{{infos: g.config()}}}
}
func (g *vC18Gen) pollFail() vC18Ev { return vC18Ev{kind: "poll", pages: []vC18Answer{{err: true}}} }

// total entries split into contract-style pages of 100 (a final short, possibly empty page)
func (g *vC18Gen) pollPaged(total int) vC18Ev {
	var all []ChainConfigInfo
	for i := 0; i < total; i++ {
		e := g.entry(uint64(1000+i), true)
		if len(e.ChainConfig.Readers) > 1 {
			e.ChainConfig.Readers = e.ChainConfig.Readers[:1]
		}
		all = append(all, e)
	}
	ev := vC18Ev{kind: "poll"}
	for {
		k := 100
		if len(all) < k {
			k = len(all)
		}
		ev.pages = append(ev.pages, vC18Answer{infos: all[:k]})
		all = all[k:]
		if k < 100 {
			break
		}
	}
	return ev
}

// a configuration that differs from prev in exactly one aspect
func (g *vC18Gen) variant(prev []ChainConfigInfo, aspect string) []ChainConfigInfo {
	r := g.r
	out := make([]ChainConfigInfo, len(prev))
	for i, e := range prev {
		e.ChainConfig.Readers = append([]libocrtypes.PeerID{}, e.ChainConfig.Readers...)
		out[i] = e
	}
	if len(out) == 0 {
		return []ChainConfigInfo{g.entry(1, true)}
	}
	k := r.Intn(len(out))
	switch aspect {
	case "readers": // node rotation on one chain: same selectors, same f
		old := out[k].ChainConfig.Readers
		var nw []libocrtypes.PeerID
		switch {
		case len(old) > 0 && r.Chance(1, 3): // one reader leaves
			nw = old[1:]
		case len(old) > 0 && r.Chance(1, 2): // one reader replaced by a peer not yet reading this chain
			nw = append([]libocrtypes.PeerID{}, old[1:]...)
			fallthrough
		default: // one reader joins
			if nw == nil {
				nw = append([]libocrtypes.PeerID{}, old...)
			}
			for c := 1; c <= 6; c++ {
				has := false
				for _, p := range old {
					has = has || p == vC18Peer(c)
				}
				if !has {
					nw = append(nw, vC18Peer(c))
					break
				}
			}
		}
		out[k].ChainConfig.Readers = nw
	case "f":
		out[k].ChainConfig.FChain = out[k].ChainConfig.FChain + uint8(r.Range(1, 3))
	case "chainset":
		if len(out) > 1 && r.Bool() {
			out = append(out[:k], out[k+1:]...)
		} else {
			used := map[uint64]bool{}
			for _, e := range out {
				used[uint64(e.ChainSelector)] = true
			}
			for c := uint64(1); c <= 7; c++ {
				if !used[c] {
					out = append(out, g.entry(c, true))
					break
				}
			}
		}
	case "order":
		perm := r.Perm(len(out))
		sh := make([]ChainConfigInfo, len(out))
		for i, j := range perm {
			sh[i] = out[j]
		}
		out = sh
	case "config": // only the opaque per-chain config bytes
		out[k].ChainConfig.Config = g.blobs[(r.Intn(2)+1+indexOfBlob(g.blobs, out[k].ChainConfig.Config))%3]
	default: // identical
	}
	return out
}

func indexOfBlob(blobs [][]byte, b []byte) int {
	for i := 0; i < 3; i++ {
		if string(blobs[i]) == string(b) {
			return i
		}
	}
	return 0
}

func (g *vC18Gen) history(cls string) []vC18Ev {
	r := g.r
	var evs []vC18Ev
	add := func(e vC18Ev) {
		evs = append(evs, e)
		if e.kind != "read" && r.Chance(2, 3) {
			evs = append(evs, g.read())
		}
	}
	start := vC18Ev{kind: "start"}
	closeEv := vC18Ev{kind: "close"}
	switch cls {
	case "delta":
		// successive SUCCESSFUL polls that differ in exactly one aspect, every view read after every poll
		evs = append(evs, start)
		var cur []ChainConfigInfo
		for _, c := range r.Perm(7)[:r.Range(2, 5)] { // distinct selectors, all decodable
			cur = append(cur, g.entry(uint64(c+1), true))
		}
		evs = append(evs, vC18Ev{kind: "poll", pages: []vC18Answer{{infos: cur}}}, g.read())
		aspects := []string{"readers", "readers", "readers", "f", "chainset", "order", "config", "same"}
		for k := r.Range(3, 7); k > 0; k-- {
			cur = g.variant(cur, vPick(r, aspects))
			evs = append(evs, vC18Ev{kind: "poll", pages: []vC18Answer{{infos: cur}}}, g.read())
			if r.Chance(1, 6) {
				evs = append(evs, g.pollFail(), g.read())
			}
		}
	case "mixed":
		add(start)
		for k := r.Range(3, 14); k > 0; k-- {
			switch {
			case r.Chance(6, 10):
				add(g.pollOK())
			case r.Chance(3, 4):
				add(g.pollFail())
			default:
				add(vC18Ev{kind: "poll", pages: []vC18Answer{{infos: nil}}}) // no configs on chain: a success
			}
		}
		if r.Bool() {
			add(closeEv)
		}
	case "health":
		// k failures around the threshold, optionally split by one success, optionally a failing initial fetch
		add(start)
		if r.Bool() {
			add(g.pollOK())
		} else {
			add(g.pollFail())
		}
		k := vPick(r, []int{9, 10, 11, 12})
		cut := -1
		if r.Chance(2, 3) {
			cut = r.Range(1, k-1)
		}
		for i := 0; i < k; i++ {
			if i == cut {
				add(g.pollOK())
			}
			evs = append(evs, g.pollFail())
			if i >= 7 || r.Chance(1, 3) {
				evs = append(evs, g.read())
			}
		}
		if r.Bool() {
			add(g.pollOK())
		}
		for i := r.Intn(3); i > 0; i-- {
			add(g.pollFail())
		}
		if r.Chance(1, 3) {
			add(closeEv)
		}
	case "paging":
		add(start)
		for k := r.Range(1, 3); k > 0; k-- {
			switch r.Intn(5) {
			case 0, 1:
				add(g.pollPaged(vPick(r, []int{99, 100, 101, 199, 200, 201})))
			case 2: // second page fails: the fetch fails as a whole
				e := g.pollPaged(vPick(r, []int{100, 150, 200}))
				e.pages[len(e.pages)-1] = vC18Answer{err: true}
				add(e)
			case 3: // a page longer than the page size counts as full; then a short one
				e := g.pollPaged(130)
				e.pages = []vC18Answer{{infos: append(append([]ChainConfigInfo{}, e.pages[0].infos...), e.pages[1].infos...)}, {infos: g.config()}}
				add(e)
			default: // short first page; the rest of the script must not be consumed
				e := g.pollOK()
				e.pages = append(e.pages, vC18Answer{infos: g.config()})
				add(e)
			}
			if r.Bool() {
				add(g.pollOK())
			}
		}
	default: // lifecycle
		if r.Bool() {
			add(g.read())
		}
		if r.Chance(1, 3) {
			add(closeEv) // close before start: refused
		}
		if r.Chance(1, 4) {
			add(g.pollOK()) // not polling yet: nothing can be delivered
		}
		add(start)
		if r.Chance(1, 3) {
			add(start)
		}
		for k := r.Intn(4); k > 0; k-- {
			if r.Chance(2, 3) {
				add(g.pollOK())
			} else {
				add(g.pollFail())
			}
		}
		if r.Chance(1, 2) { // close in the middle of a paged fetch
			e := g.pollPaged(vPick(r, []int{100, 200}))
			e.pages = e.pages[:len(e.pages)-1]
			evs = append(evs, e)
		}
		add(closeEv)
		evs = append(evs, g.read())
		for k := r.Intn(4); k > 0; k-- {
			switch r.Intn(4) {
			case 0:
				add(g.pollOK())
			case 1:
				add(closeEv)
			case 2:
				add(start)
			default:
				add(g.read())
			}
		}
	}
	if evs[len(evs)-1].kind != "read" {
		evs = append(evs, g.read())
	}
	return evs
}

// ---------- canonical rendering of what a reader sees ----------
func (g *vC18Gen) ccCoq(c ChainConfig) string {
	var nodes []uint64
	if c.SupportedNodes != nil {
		for _, p := range c.SupportedNodes.ToSlice() {
			nodes = append(nodes, vC18PeerN(p))
		}
	}
	vSortU64(nodes)
	return cApp("mkCC", cN(uint64(int64(c.FChain))), cListN(nodes), cN(g.cfgID(c.Config)))
}
func (g *vC18Gen) allCoq(m map[cciptypes.ChainSelector]ChainConfig) string {
	keys := make([]uint64, 0, len(m))
	for k := range m {
		keys = append(keys, uint64(k))
	}
	vSortU64(keys)
	return cMap(keys, func(k uint64) string { return cPair(cN(k), g.ccCoq(m[cciptypes.ChainSelector(k)])) })
}
func vC18SetCoq(s interface {
	ToSlice() []cciptypes.ChainSelector
}) string {
	var xs []uint64
	if s != nil {
		for _, c := range s.ToSlice() {
			xs = append(xs, uint64(c))
		}
	}
	vSortU64(xs)
	return cListN(xs)
}
func vC18FchCoq(m map[cciptypes.ChainSelector]int) string {
	keys := make([]uint64, 0, len(m))
	for k := range m {
		keys = append(keys, uint64(k))
	}
	vSortU64(keys)
	return cMap(keys, func(k uint64) string { return cPair(cN(k), cN(uint64(int64(m[cciptypes.ChainSelector(k)])))) })
}

func (g *vC18Gen) observe(p HomeChain, ev vC18Ev) string {
	all, err1 := p.GetAllChainConfigs()
	known, err2 := p.GetKnownCCIPChains()
	fch, err3 := p.GetFChain()
	if err1 != nil || err2 != nil || err3 != nil {
		return "getter-error" // not a Coq term: the case will not evaluate, which fails the check
	}
	supp := make([]string, len(ev.peers))
	for i, pn := range ev.peers {
		s, err := p.GetSupportedChainsForPeer(vC18Peer(int(pn)))
		if err != nil {
			return "getter-error"
		}
		supp[i] = vC18SetCoq(s)
	}
	ccs := make([]string, len(ev.sels))
	for i, s := range ev.sels {
		c, err := p.GetChainConfig(cciptypes.ChainSelector(s))
		if err != nil {
			ccs[i] = cNone()
		} else {
			ccs[i] = cSome(g.ccCoq(c))
		}
	}
	ready := p.Ready() == nil
	hr := p.HealthReport()
	healthy := len(hr) == 1
	for _, e := range hr {
		if e != nil {
			healthy = false
		}
	}
	return cTup(g.allCoq(all), vC18SetCoq(known), vC18FchCoq(fch), cList(supp), cList(ccs), cBool(ready), cBool(healthy))
}

func vC18NewPoller(rd *vC18Reader, interval time.Duration) *homeChainPoller {
	return NewHomeChainConfigPoller(rd, logger.Nop(), interval,
		types.BoundContract{Address: "0xCCIPConfigFakeAddress", Name: consts.ContractNameCCIPConfig}).(*homeChainPoller)
}

func vC18Watch(t *testing.T, what string, f func()) {
	done := make(chan struct{})
	go func() { f(); close(done) }()
	if _, ok := vRecvW(done, 30*time.Second); ok {
		return
	}
	if _, ok := vRecvW(done, 60*time.Second); !ok { // second chance before a hang is declared
		t.Fatalf("C18: %s did not return", what)
	}
}

// runs one history on a fresh real poller; returns the observations at the reads
func (g *vC18Gen) runHistory(t *testing.T, evs []vC18Ev) []string {
	rd := &vC18Reader{gated: true, arrived: make(chan struct{}), answers: make(chan vC18Answer)}
	p := vC18NewPoller(rd, 300*time.Microsecond)
	phase := 0 // 0 unstarted, 1 polling (a reader call is waiting for its answer), 2 closed
	var obs []string
	answer := func(a vC18Answer) {
		if !vSendW(rd.answers, a, 30*time.Second) && !vSendW(rd.answers, a, 60*time.Second) {
			t.Fatalf("C18: poller did not take the scripted answer")
		}
	}
	for i, ev := range evs {
		switch ev.kind {
		case "start":
			err := p.Start(context.Background())
			if phase == 0 {
				if err != nil {
					t.Fatalf("C18: Start failed: %v", err)
				}
				phase = 1
				rd.waitArrival(t)
			}
		case "close":
			var err error
			vC18Watch(t, "Close", func() { err = p.Close() })
			if phase == 1 {
				if err != nil {
					t.Fatalf("C18: Close failed: %v", err)
				}
				phase = 2
			}
		case "poll":
			if phase != 1 {
				continue
			}
			finished := false
			for _, pg := range ev.pages {
				answer(pg)
				if pg.err || len(pg.infos) < int(defaultConfigPageSize) {
					finished = true
					rd.waitArrival(t) // the next fetch has begun, so this one is fully processed
					break
				}
				rd.waitArrival(t) // next page of the same fetch
			}
			if !finished {
				if i+1 < len(evs) && evs[i+1].kind == "close" {
					continue // Close arrives while the fetch waits for its next page
				}
				answer(vC18Answer{err: true})
				rd.waitArrival(t)
			}
		case "read":
			obs = append(obs, g.observe(p, ev))
		}
	}
	if phase == 1 {
		vC18Watch(t, "Close", func() { _ = p.Close() })
	}
	return obs
}

func (g *vC18Gen) evCoq(ev vC18Ev) string {
	switch ev.kind {
	case "start":
		return "HStart"
	case "close":
		return "HClose"
	case "read":
		return cApp("HRead", cListN(ev.peers), cListN(ev.sels))
	default:
		return cApp("HPoll", cMap(ev.pages, func(a vC18Answer) string {
			if a.err {
				return cNone()
			}
			return cSome(cMap(a.infos, g.entryCoq))
		}))
	}
}

func vC18Show(evs []vC18Ev) string {
	var sb strings.Builder
	for _, e := range evs {
		switch e.kind {
		case "poll":
			sb.WriteString("poll(")
			for _, pg := range e.pages {
				if pg.err {
					sb.WriteString("err ")
				} else {
					sb.WriteString(fmt.Sprintf("%d ", len(pg.infos)))
				}
			}
			sb.WriteString(") ")
		default:
			sb.WriteString(e.kind + " ")
		}
	}
	return sb.String()
}

func TestVerif_C18_home_seq(t *testing.T) {
	r := vNewRand(vSeed() + 1801)
	n := vEnvInt("VERIF_N", 100)
	sink := vOpenSink("C18_home_seq")
	defer sink.Close()
	g := vC18NewGen(r)
	classes := []string{"mixed", "delta", "health", "delta", "paging", "lifecycle", "delta", "mixed", "health", "lifecycle"}
	for i := 0; i < n; i++ {
		cls := classes[i%len(classes)]
		evs := g.history(cls)
		obs := g.runHistory(t, evs)
		polls := 0
		for _, e := range evs {
			if e.kind == "poll" {
				polls++
			}
		}
		sink.Emit("hseq", cls, polls >= 2, cPair(cMap(evs, g.evCoq), cList(obs)), vC18Show(evs))
	}
}

// ---------- concurrent readers during refresh ----------
type vC18Rec struct {
	all   map[cciptypes.ChainSelector]ChainConfig
	supp  interface{ ToSlice() []cciptypes.ChainSelector }
	known interface{ ToSlice() []cciptypes.ChainSelector }
	fch   map[cciptypes.ChainSelector]int
	st    state
}

func TestVerif_C18_home_conc(t *testing.T) {
	r := vNewRand(vSeed() + 1802)
	n := vEnvInt("VERIF_N", 10)
	sink := vOpenSink("C18_home_conc")
	defer sink.Close()
	g := vC18NewGen(r)
	const readers = 16
	p1 := vC18Peer(1)
	for run := 0; run < n; run++ {
		K := r.Range(20, 60)
		script := make([][]ChainConfigInfo, K)
		for k := range script {
			i := k + 1
			es := []ChainConfigInfo{
				{ChainSelector: 1, ChainConfig: HomeChainConfigMapper{Readers: []libocrtypes.PeerID{vC18Peer(2)}, FChain: uint8(i), Config: g.blobs[0]}},
				{ChainSelector: cciptypes.ChainSelector(1000 + i), ChainConfig: HomeChainConfigMapper{Readers: []libocrtypes.PeerID{p1, vC18Peer(3)}, FChain: 1, Config: g.blobs[1]}},
			}
			for x := r.Intn(4); x > 0; x-- {
				es = append(es, g.entry(uint64(r.Range(2, 9)), true))
			}
			script[k] = es
		}
		rd := &vC18Reader{script: script, done: make(chan struct{})}
		p := vC18NewPoller(rd, 150*time.Microsecond)
		var stop atomic.Bool
		var wg sync.WaitGroup
		logs := make([][]vC18Rec, readers)
		for w := 0; w < readers; w++ {
			wg.Add(1)
			go func(w int) {
				defer wg.Done()
				var last [4]int
				for it := 0; !stop.Load(); it++ {
					var rec vC18Rec
					rec.all, _ = p.GetAllChainConfigs()
					rec.supp, _ = p.GetSupportedChainsForPeer(p1)
					rec.known, _ = p.GetKnownCCIPChains()
					rec.fch, _ = p.GetFChain()
					p.mutex.RLock()
					rec.st = p.state
					p.mutex.RUnlock()
					mark := [4]int{rec.all[1].FChain, rec.fch[1], rec.st.chainConfigs[1].FChain, rec.st.fChain[1]}
					if (mark != last || it%16 == 0) && len(logs[w]) < 300 {
						logs[w] = append(logs[w], rec)
						last = mark
					}
					runtime.Gosched()
				}
			}(w)
		}
		if err := p.Start(context.Background()); err != nil {
			t.Fatalf("C18: Start: %v", err)
		}
		if _, ok := vRecvW(rd.done, 60*time.Second); !ok {
			if _, ok := vRecvW(rd.done, 120*time.Second); !ok { // second chance before a hang is declared
				t.Fatalf("C18: the poller did not perform %d polls", K)
			}
		}
		time.Sleep(300 * time.Microsecond)
		stop.Store(true)
		wg.Wait()
		vC18Watch(t, "Close", func() { _ = p.Close() })

		// canonicalise after the run (the returned maps and sets are the published snapshots themselves)
		table := vNewIntern()
		var items []string
		id := func(s string) string {
			k := table.Id(s)
			if int(k) > len(items) {
				items = append(items, s)
			}
			return cN(k - 1)
		}
		setCoq := func(s interface{ ToSlice() []cciptypes.ChainSelector }) string {
			if s == nil {
				return "[]"
			}
			return vC18SetCoq(s)
		}
		readersCoq := make([]string, readers)
		nrec := 0
		for w := range logs {
			recs := make([]string, len(logs[w]))
			for i, rec := range logs[w] {
				var stSupp interface{ ToSlice() []cciptypes.ChainSelector }
				if s, ok := rec.st.nodeSupportedChains[p1]; ok {
					stSupp = s
				}
				var stKnown interface{ ToSlice() []cciptypes.ChainSelector }
				if rec.st.knownSourceChains != nil {
					stKnown = rec.st.knownSourceChains
				}
				recs[i] = cList([]string{
					id(cApp("IAll", g.allCoq(rec.all))),
					id(cApp("ISupp", cN(1), setCoq(rec.supp))),
					id(cApp("IKnown", setCoq(rec.known))),
					id(cApp("IFch", vC18FchCoq(rec.fch))),
					id(cApp("IAll", g.allCoq(rec.st.chainConfigs))),
					id(cApp("ISupp", cN(1), setCoq(stSupp))),
					id(cApp("IKnown", setCoq(stKnown))),
					id(cApp("IFch", vC18FchCoq(rec.st.fChain))),
				})
				nrec++
			}
			readersCoq[w] = cList(recs)
		}
		in := cMap(script, func(es []ChainConfigInfo) string { return cMap(es, g.entryCoq) })
		sink.Emit("hconc", "refresh", len(items) > 8,
			cPair(in, cPair(cList(items), cList(readersCoq))),
			fmt.Sprintf("polls=%d distinct_views=%d records=%d", K, len(items), nrec))
	}
	_ = sort.Ints
}

//go:build verif

// C12 — long-lived execute plugins (one per oracle) on REAL home-chain pollers over a scripted CCIPHome whose chain
// configs change between rounds.  After every poll observations are validated on the long-lived instances: one per
// oracle (random filling + one injected class), plus targeted ones about every designation that was just removed
// (data about the removed chain: must be rejected at once) or just given (conformant data about the added chain: must be
// accepted at once).  Every instance has looked every oracle up before the first change.  Verdicts are judged against
// the Roles model on the role map of the latest successfully fetched configuration.
package execute

import (
	"context"
	"sort"
	"testing"

	"github.com/smartcontractkit/libocr/commontypes"
	"github.com/smartcontractkit/libocr/offchainreporting2plus/ocr3types"

	"github.com/smartcontractkit/chainlink-ccip/internal/mocks"
	cciptypes "github.com/smartcontractkit/chainlink-ccip/pkg/types/ccipocr3"
	"github.com/smartcontractkit/chainlink-ccip/pluginconfig"
)

func vC12FromRH(h *vRHCfg) *vC12Cfg {
	c := h.clone()
	return &vC12Cfg{Oracles: c.Oracles, Chains: c.Chains, F: c.F, Readers: c.Readers, Dest: c.Dest, Feed: c.Feed}
}

// initial role map: the C12 generator restricted to DONs of 4 or 7 oracles with a configured destination
func vC12HGenCfg(r *vRand) *vRHCfg {
	for {
		c := vC12GenCfg(r)
		if (len(c.Oracles) == 4 || len(c.Oracles) == 7) && c.Chains[0] == c.Dest {
			h := (&vRHCfg{Oracles: c.Oracles, Chains: c.Chains, F: c.F, Readers: c.Readers, Dest: c.Dest, Feed: c.Feed}).clone()
			sort.Slice(h.Chains, func(i, j int) bool { return h.Chains[i] < h.Chains[j] })
			return h
		}
	}
}

func vC12HClass(st int, chg *vRHChange) string {
	if st == 0 || chg == nil {
		return "first-poll/"
	}
	return chg.Kind + "/"
}

// classes whose data is about chain ch
func vC12HExecClassesAbout(c *vRHCfg, ch uint64) []string {
	if ch == c.Dest {
		return []string{"nonces", "costly", "disc-dest", "commitreports"}
	}
	return []string{"messages", "messages", "tokendata", "tokendata", "disc-own", "messages-empty", "tokendata-empty", "cross", "cross"}
}

func vC12HInOracles(c *vRHCfg, o int) bool {
	for _, x := range c.Oracles {
		if x == o {
			return true
		}
	}
	return false
}

func TestVerif_C12_exec_hist(t *testing.T) {
	ctx := context.Background()
	r := vNewRand(vSeed() + 1212)
	n := vEnvInt("VERIF_N", 8) // histories
	sink := vOpenSink("C12_exec_hist")
	defer sink.Close()
	api := vOpenSink("C12_exec_api")
	defer api.Close()
	for hi := 0; hi < n; hi++ {
		base := vC12HGenCfg(r)
		discOn := !r.Chance(1, 5)
		don := vRHNewDon(t, r, base)
		onchain, eff := base.clone(), base.clone()
		N := len(base.Oracles)
		plugins := make([]*Plugin, N)
		for k, o := range base.Oracles {
			plugins[k] = NewPlugin(1, ocr3types.ReportingPluginConfig{F: 1, N: N, OracleID: commontypes.OracleID(o)},
				pluginconfig.ExecuteOffchainConfig{}, cciptypes.ChainSelector(base.Dest), don.p2p, &vCCIPReader{},
				mocks.NewExecutePluginJSONReportCodec(), mocks.NewMessageHasher(), don.hcs[k], nil, nil, mocks.NullLogger, nil)
			if !discOn {
				plugins[k].discovery = nil
			}
		}
		steps := r.Range(5, 8)
		kinds := vRHPlan(r, hi, steps)
		var chg *vRHChange
		for st := 0; st <= steps; st++ {
			if st > 0 {
				onchain, chg = vRHMutate(r, onchain, kinds[st-1], r.Chance(9, 10), []uint64{5, 6, 11, 700})
				don.apply(t, onchain, chg.Failed)
				if !chg.Failed {
					eff = onchain.clone()
				}
			}
			c := vC12FromRH(eff)
			ctxS := don.coqCtx(eff)
			clsPre := vC12HClass(st, chg)
			run := func(cs *vC12ExecCase, label string, validators []int) {
				cs.discOn = discOn
				seen := map[int]bool{}
				for _, k := range validators {
					if seen[k] {
						continue
					}
					seen[k] = true
					plugins[k].contractsInitialized = cs.initd
					verdict := cs.verdict(ctx, plugins[k])
					if verdict == "panic" {
						t.Fatalf("ValidateObservation panicked in history %d step %d", hi, st)
					}
					in := cPair(ctxS, cTup(cs.rctx(), cNi(cs.o), cs.obsS))
					show := cs.show(c, verdict)
					show["history"], show["step"], show["validator"], show["polls"] = hi, st, c.Oracles[k], don.shows
					if chg != nil {
						show["change"] = chg
					}
					sink.Emit("C12_exec_hist", clsPre+label+cs.bad, cs.nfields > 0 && cs.nunread > 1, cPair(in, verdict), show)
				}
			}
			some := func() []int { return []int{0, st % N, r.Intn(N)} }
			all := make([]int, N)
			for k := range all {
				all[k] = k
			}
			// targeted: designations just taken away / just given (also when the poll that would have shown them failed:
			// then the last good map still decides)
			if chg != nil {
				nt := 0
				for _, rm := range chg.Removed {
					if nt >= 4 || !vC12HInOracles(eff, rm[0]) {
						continue
					}
					nt++
					bad := vPick(r, vC12HExecClassesAbout(eff, uint64(rm[1])))
					run(vC12GenExecCase(t, r, c, rm[0], vC12GenOpt{bad: bad, fill: r.Intn(3), prefer: uint64(rm[1])}), "removed:", some())
				}
				nt = 0
				for _, ad := range chg.Added {
					if nt >= 3 || !vC12HInOracles(eff, ad[0]) {
						continue
					}
					nt++
					run(vC12GenExecCase(t, r, c, ad[0], vC12GenOpt{bad: "none", fill: 2, prefer: uint64(ad[1]), force: true}), "added:", some())
				}
			}
			// one observation per oracle (the first round: validated by every instance, so that every instance has looked
			// every oracle up before anything changes)
			for _, o := range c.Oracles {
				vs := some()
				if st == 0 {
					vs = all
				}
				run(vC12GenExecCase(t, r, c, o, vC12GenOpt{fill: -1}), "", vs)
			}
			if r.Chance(1, 3) {
				run(vC12GenExecCase(t, r, c, c.pickObserver(r), vC12GenOpt{fill: -1}), "", some())
			}
			inst := 0
			if st%2 == 1 {
				inst = r.Intn(N)
			}
			don.queryAll(api, "C12_exec_api", eff, inst, clsPre, map[string]any{"history": hi, "step": st})
		}
		don.close()
	}
}

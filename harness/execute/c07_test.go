//go:build verif

package execute

import (
	"context"
	"fmt"
	"math"
	"sort"
	"testing"
	"time"

	"github.com/smartcontractkit/libocr/commontypes"
	"github.com/smartcontractkit/libocr/offchainreporting2plus/ocr3types"
	"github.com/smartcontractkit/libocr/offchainreporting2plus/types"
	libocrtypes "github.com/smartcontractkit/libocr/ragep2p/types"

	"github.com/smartcontractkit/chainlink-ccip/execute/exectypes"
	"github.com/smartcontractkit/chainlink-ccip/internal/mocks"
	"github.com/smartcontractkit/chainlink-ccip/internal/plugincommon"
	cciptypes "github.com/smartcontractkit/chainlink-ccip/pkg/types/ccipocr3"
)

// C07: ValidateObservation on every attributed observation, then getConsensusObservation on the accepted ones.

const vC07Dest = cciptypes.ChainSelector(900)

var vC07BigSels = []cciptypes.ChainSelector{5009297550715157269, 11344663589394136015, 15971525489660198786, 4949039107694359620,
	3734403246176062136, 4051577828743386545, 6433500567565415381, 16015286601757825753, 13264668187771770619,
	1<<64 - 1, 1 << 63, 7}

var vC07T0 = time.Date(2024, 5, 1, 10, 0, 0, 0, time.UTC)

func vC07B32(x uint64) cciptypes.Bytes32 {
	var b cciptypes.Bytes32
	for i := 0; i < 8; i++ {
		b[31-i] = byte(x >> (8 * i))
	}
	return b
}

func vC07Msg(chain cciptypes.ChainSelector, seq cciptypes.SeqNum, variant int) cciptypes.Message {
	return cciptypes.Message{
		Header: cciptypes.RampMessageHeader{
			MessageID:           vC07B32(uint64(chain)*1000 + uint64(seq)),
			SourceChainSelector: chain,
			DestChainSelector:   vC07Dest,
			SequenceNumber:      seq,
			Nonce:               uint64(seq),
		},
		Sender:         cciptypes.UnknownAddress{byte(seq % 3), 0xAA},
		Data:           cciptypes.Bytes{byte(variant), 1, 2},
		FeeTokenAmount: cciptypes.NewBigIntFromInt64(1),
		FeeValueJuels:  cciptypes.NewBigIntFromInt64(2),
	}
}

// ---- per-case interning and Coq printing ----
type vC07Tab struct{ commit, root, msg, mid, data, sender *vIntern }

func vC07NewTab() *vC07Tab {
	return &vC07Tab{vNewIntern(), vNewIntern(), vNewIntern(), vNewIntern(), vNewIntern(), vNewIntern()}
}
func (t *vC07Tab) Commit(d exectypes.CommitData) string {
	ex := make([]uint64, len(d.ExecutedMessages))
	for i, s := range d.ExecutedMessages {
		ex[i] = uint64(s)
	}
	return cApp("mkCommit", cN(t.commit.Id(fmt.Sprintf("%v", d))), cN(uint64(d.SourceChain)), cN(t.root.Id(d.MerkleRoot.String())),
		cN(uint64(d.SequenceNumberRange.Start())), cN(uint64(d.SequenceNumberRange.End())), cListN(ex))
}
func (t *vC07Tab) CommitID(d exectypes.CommitData) uint64 { return t.commit.Id(fmt.Sprintf("%v", d)) }
func (t *vC07Tab) Msg(m cciptypes.Message) string {
	return cApp("mkMsg", cN(t.msg.Id(fmt.Sprintf("%v", m))), cN(uint64(m.Header.SequenceNumber)),
		cN(t.mid.Id(m.Header.MessageID.String())))
}
func (t *vC07Tab) Tok(td exectypes.TokenData) string {
	id := uint64(0)
	if len(td.Data) > 0 {
		id = t.data.Id(fmt.Sprintf("%v", td.Data))
	}
	return cApp("mkTok", cBool(td.Ready), cN(id))
}

func vC07SortedKeys[V any](m map[cciptypes.ChainSelector]V) []cciptypes.ChainSelector {
	ks := make([]cciptypes.ChainSelector, 0, len(m))
	for k := range m {
		ks = append(ks, k)
	}
	sort.Slice(ks, func(i, j int) bool { return ks[i] < ks[j] })
	return ks
}
func vC07SortedSeqs[V any](m map[cciptypes.SeqNum]V) []cciptypes.SeqNum {
	ks := make([]cciptypes.SeqNum, 0, len(m))
	for k := range m {
		ks = append(ks, k)
	}
	sort.Slice(ks, func(i, j int) bool { return ks[i] < ks[j] })
	return ks
}

func (t *vC07Tab) Tokens(td exectypes.TokenDataObservations) string {
	var chains []string
	for _, c := range vC07SortedKeys(td) {
		var seqs []string
		for _, s := range vC07SortedSeqs(td[c]) {
			seqs = append(seqs, cPair(cN(uint64(s)), cMap(td[c][s].TokenData, t.Tok)))
		}
		chains = append(chains, cPair(cN(uint64(c)), cList(seqs)))
	}
	return cList(chains)
}
func (t *vC07Tab) MsgMap(mo exectypes.MessageObservations) string {
	var chains []string
	for _, c := range vC07SortedKeys(mo) {
		var seqs []string
		for _, s := range vC07SortedSeqs(mo[c]) {
			seqs = append(seqs, cPair(cN(uint64(s)), t.Msg(mo[c][s])))
		}
		chains = append(chains, cPair(cN(uint64(c)), cList(seqs)))
	}
	return cList(chains)
}

// observation as sent (input side): lists in wire order, maps by ascending key
func (t *vC07Tab) Obs(o exectypes.Observation) string {
	var commits []string
	for _, c := range vC07SortedKeys(o.CommitReports) {
		commits = append(commits, cPair(cN(uint64(c)), cMap(o.CommitReports[c], t.Commit)))
	}
	costly := make([]string, len(o.CostlyMessages))
	for i, id := range o.CostlyMessages {
		costly[i] = cN(t.mid.Id(id.String()))
	}
	var nonces []string
	for _, c := range vC07SortedKeys(o.Nonces) {
		var ss []string
		senders := make([]string, 0)
		for s := range o.Nonces[c] {
			senders = append(senders, s)
		}
		sort.Strings(senders)
		for _, s := range senders {
			ss = append(ss, cPair(cN(t.sender.Id(s)), cN(o.Nonces[c][s])))
		}
		nonces = append(nonces, cPair(cN(uint64(c)), cList(ss)))
	}
	return cApp("mkObs", cList(commits), t.MsgMap(o.Messages), t.Tokens(o.TokenData), cList(costly), cList(nonces))
}

// merged observation (output side), canonical
func (t *vC07Tab) Merged(o exectypes.Observation) string {
	var commits []string
	for _, c := range vC07SortedKeys(o.CommitReports) {
		l := append([]exectypes.CommitData{}, o.CommitReports[c]...)
		sort.Slice(l, func(i, j int) bool { return t.CommitID(l[i]) < t.CommitID(l[j]) })
		commits = append(commits, cPair(cN(uint64(c)), cMap(l, t.Commit)))
	}
	ids := make([]uint64, len(o.CostlyMessages))
	for i, id := range o.CostlyMessages {
		ids[i] = t.mid.Id(id.String())
	}
	vSortU64(ids)
	type trip struct{ c, s, n uint64 }
	var ts []trip
	for c, m := range o.Nonces {
		for s, n := range m {
			ts = append(ts, trip{uint64(c), t.sender.Id(s), n})
		}
	}
	sort.Slice(ts, func(i, j int) bool {
		if ts[i].c != ts[j].c {
			return ts[i].c < ts[j].c
		}
		if ts[i].s != ts[j].s {
			return ts[i].s < ts[j].s
		}
		return ts[i].n < ts[j].n
	})
	nonces := make([]string, len(ts))
	for i, x := range ts {
		nonces[i] = cTup(cN(x.c), cN(x.s), cN(x.n))
	}
	return cTup(cList(commits), t.MsgMap(o.Messages), t.Tokens(o.TokenData), cListN(ids), cList(nonces))
}

// ---- generator ----
type vC07Case struct {
	r      *vRand
	ids    []commontypes.OracleID
	sup    map[commontypes.OracleID]map[cciptypes.ChainSelector]bool
	chains []cciptypes.ChainSelector
	f      map[cciptypes.ChainSelector]int
	obs    map[commontypes.OracleID]*exectypes.Observation
}

func (g *vC07Case) thr(c cciptypes.ChainSelector) int {
	t := g.f[c] + 1
	if t < 0 {
		t = 0
	}
	return t
}

// a support count at or around the threshold
func (g *vC07Case) count(thr int) int {
	n := len(g.ids)
	c := vPick(g.r, []int{thr - 1, thr, thr, thr + 1, n, g.r.Intn(n + 1)})
	if c < 0 {
		c = 0
	}
	if c > n {
		c = n
	}
	return c
}

// k oracles, preferring those that support chain c (all oracles when c == 0)
func (g *vC07Case) pickOracles(k int, c cciptypes.ChainSelector) []commontypes.OracleID {
	var good, rest []commontypes.OracleID
	for _, p := range g.r.Perm(len(g.ids)) {
		o := g.ids[p]
		if c == 0 || g.sup[o][c] {
			good = append(good, o)
		} else {
			rest = append(rest, o)
		}
	}
	if g.r.Chance(1, 12) { // sometimes an oracle that may not read the chain reports anyway
		good = append(good, rest...)
	}
	if k > len(good) {
		k = len(good)
	}
	return good[:k]
}

func (g *vC07Case) ob(o commontypes.OracleID) *exectypes.Observation { return g.obs[o] }

func vC07AddCommit(o *exectypes.Observation, c cciptypes.ChainSelector, d exectypes.CommitData) {
	if o.CommitReports == nil {
		o.CommitReports = exectypes.CommitObservations{}
	}
	o.CommitReports[c] = append(o.CommitReports[c], d)
}
func vC07AddMsg(o *exectypes.Observation, c cciptypes.ChainSelector, key cciptypes.SeqNum, m cciptypes.Message) {
	if o.Messages == nil {
		o.Messages = exectypes.MessageObservations{}
	}
	if o.Messages[c] == nil {
		o.Messages[c] = map[cciptypes.SeqNum]cciptypes.Message{}
	}
	o.Messages[c][key] = m
}
func vC07AddTok(o *exectypes.Observation, c cciptypes.ChainSelector, key cciptypes.SeqNum, td []exectypes.TokenData) {
	if o.TokenData == nil {
		o.TokenData = exectypes.TokenDataObservations{}
	}
	if o.TokenData[c] == nil {
		o.TokenData[c] = map[cciptypes.SeqNum]exectypes.MessageTokenData{}
	}
	o.TokenData[c][key] = exectypes.MessageTokenData{TokenData: td}
}
func vC07AddNonce(o *exectypes.Observation, c cciptypes.ChainSelector, sender string, n uint64) {
	if o.Nonces == nil {
		o.Nonces = exectypes.NonceObservations{}
	}
	if o.Nonces[c] == nil {
		o.Nonces[c] = map[string]uint64{}
	}
	o.Nonces[c][sender] = n
}

func vC07Commit(c cciptypes.ChainSelector, lo, hi cciptypes.SeqNum, root uint64, ex []cciptypes.SeqNum) exectypes.CommitData {
	return exectypes.CommitData{SourceChain: c, Timestamp: vC07T0.Add(time.Duration(lo) * time.Second), BlockNum: uint64(lo) + 5,
		MerkleRoot: vC07B32(root), SequenceNumberRange: cciptypes.NewSeqNumRange(lo, hi), ExecutedMessages: ex}
}

var vC07Shapes = []string{
	"honest", "honest", "honest",
	"repeat-commit", "exec-variant", "ts-variant", "split-range", "overlap-range", "exec-outside",
	"rekey-msg", "rechain-msg", "msg-variant", "unsupported-msgs",
	"costly-repeat", "costly-foreign", "nonce-variant", "nonce-rechain",
	"token-variant", "token-missing-slot", "token-rekey",
	"below-F", "weird-f",
	"token-unsupported", "nonce-nodest", "costly-nodest",
	"rechain-commit", "commit-foreign-source",
	"token-extra-slot", "unknown-chain", "token-long-list",
}

// one generated case: the DON, the fChain map, the observations (honest world + Byzantine shape) and the home chain
func vC07Build(cr *vRand, shape string, forceN, forceF int, distinctF bool) (*vC07Case, int, []commontypes.OracleID, *vHomeChain, map[commontypes.OracleID]libocrtypes.PeerID) {
	{
		g := &vC07Case{r: cr, sup: map[commontypes.OracleID]map[cciptypes.ChainSelector]bool{},
			f: map[cciptypes.ChainSelector]int{}, obs: map[commontypes.OracleID]*exectypes.Observation{}}
		nOr := cr.Range(4, 10)
		if forceN > 0 {
			nOr = forceN
		}
		perm := cr.Perm(16)
		for k := 0; k < nOr; k++ {
			g.ids = append(g.ids, commontypes.OracleID(perm[k]))
		}
		sort.Slice(g.ids, func(a, b int) bool { return g.ids[a] < g.ids[b] })
		nc := cr.Range(1, 3)
		// half of the groups: production-sized selectors (more than 2^63 apart / cyclic modulo 2^64)
		bigSels, bigPerm := cr.Chance(1, 2), cr.Perm(len(vC07BigSels))
		for k := 1; k <= nc; k++ {
			if bigSels {
				g.chains = append(g.chains, vC07BigSels[bigPerm[k]])
			} else {
				g.chains = append(g.chains, cciptypes.ChainSelector(k))
			}
		}
		sort.Slice(g.chains, func(a, b int) bool { return g.chains[a] < g.chains[b] })
		for _, c := range append(append([]cciptypes.ChainSelector{}, g.chains...), vC07Dest) {
			g.f[c] = cr.Range(1, 3)
			if shape == "weird-f" {
				g.f[c] = vPick(cr, []int{0, 0, 1, -1, -2, 2})
			}
		}
		if shape == "weird-f" && cr.Bool() {
			delete(g.f, vC07Dest) // fChain[dest] reads as 0
		}
		if distinctF && shape != "weird-f" && g.f[vC07Dest] == g.f[g.chains[0]] {
			g.f[vC07Dest] = g.f[vC07Dest]%3 + 1 // f(source) != f(dest)
		}
		for _, o := range g.ids {
			g.sup[o] = map[cciptypes.ChainSelector]bool{vC07Dest: cr.Chance(3, 4)}
			for _, c := range g.chains {
				g.sup[o][c] = cr.Chance(4, 5)
			}
			g.obs[o] = &exectypes.Observation{}
		}
		bigF := cr.Range(1, 3)
		if forceF > 0 {
			bigF = forceF
		}
		if shape == "below-F" {
			bigF = nOr + cr.Range(0, 1)
		}
		// which sections this round carries
		withCommits, withMsgs, withRest := cr.Chance(3, 4), cr.Chance(3, 4), cr.Chance(3, 4)

		// ---- the agreed world, each item reported by a number of oracles at or around its threshold ----
		type truthMsg struct {
			c   cciptypes.ChainSelector
			seq cciptypes.SeqNum
		}
		var allMsgs []truthMsg
		rootCtr := uint64(100)
		for _, c := range g.chains {
			next := cciptypes.SeqNum(cr.Range(1, 20))
			for k := cr.Range(1, 3); k > 0; k-- {
				lo := next + cciptypes.SeqNum(cr.Intn(2))
				hi := lo + cciptypes.SeqNum(cr.Intn(3))
				next = hi + 1
				var ex []cciptypes.SeqNum
				for s := lo; s <= hi; s++ {
					if cr.Chance(1, 4) {
						ex = append(ex, s)
					}
				}
				rootCtr++
				d := vC07Commit(c, lo, hi, rootCtr, ex)
				if withCommits {
					// commit reports are agreed at the destination's f (repair of F75): counts around both thresholds, so that
					// f(source) < f(dest) and f(source) > f(dest) both put reports between the two
					for _, o := range g.pickOracles(g.count(vPick(cr, []int{g.thr(c), g.thr(vC07Dest), g.thr(vC07Dest)})), 0) {
						vC07AddCommit(g.ob(o), c, d)
					}
				}
				for s := lo; s <= hi; s++ {
					allMsgs = append(allMsgs, truthMsg{c, s})
					if withMsgs {
						for _, o := range g.pickOracles(g.count(g.thr(c)), c) {
							vC07AddMsg(g.ob(o), c, s, vC07Msg(c, s, 0))
						}
						nt := cr.Intn(3)
						td := make([]exectypes.TokenData, nt)
						for x := range td {
							td[x] = exectypes.TokenData{Ready: cr.Chance(4, 5), Data: cciptypes.Bytes{byte(s), byte(x)}}
							if cr.Chance(1, 5) {
								td[x].Data = nil
							}
						}
						for _, o := range g.pickOracles(g.count(g.thr(c)), c) {
							vC07AddTok(g.ob(o), c, s, append([]exectypes.TokenData{}, td...))
						}
					}
				}
			}
			if withRest {
				for s := 0; s < cr.Range(1, 3); s++ {
					sender := fmt.Sprintf("0x%02xaa", s)
					for _, o := range g.pickOracles(g.count(g.thr(vC07Dest)), vC07Dest) {
						vC07AddNonce(g.ob(o), c, sender, uint64(cr.Range(1, 3)+s))
					}
				}
			}
		}
		if withRest {
			for _, m := range allMsgs {
				if cr.Chance(1, 3) {
					for _, o := range g.pickOracles(g.count(g.thr(vC07Dest)), vC07Dest) {
						g.ob(o).CostlyMessages = append(g.ob(o).CostlyMessages, vC07B32(uint64(m.c)*1000+uint64(m.seq)))
					}
				}
			}
		}
		// nonce values above were drawn per oracle set, so two sets may disagree: that is intended (conflicts)

		// ---- Byzantine shaping: nb colluding oracles apply the same edit ----
		thrAny := g.thr(g.chains[0])
		nb := vPick(cr, []int{1, 1, 2, thrAny - 1, thrAny, thrAny})
		if nb < 1 {
			nb = 1
		}
		if nb > nOr {
			nb = nOr
		}
		byz := g.pickOracles(nb, 0)
		c0 := vPick(cr, g.chains)
		var seq0 cciptypes.SeqNum = 1
		for _, m := range allMsgs {
			if m.c == c0 {
				seq0 = m.seq
				break
			}
		}
		copies := g.thr(c0) + cr.Intn(2)
		if copies < 2 {
			copies = 2
		}
		// a commit report of chain c0 that nobody else knows, or that thr-1 honest oracles file (correctly) under c0
		foreign := vC07Commit(c0, 500, 502, 777, []cciptypes.SeqNum{501})
		if shape == "rechain-commit" || shape == "commit-foreign-source" {
			isByz := map[commontypes.OracleID]bool{}
			for _, o := range byz {
				isByz[o] = true
			}
			hs := vPick(cr, []int{0, g.thr(c0) - 1, g.thr(c0) - 1})
			for _, o := range g.pickOracles(len(g.ids), 0) {
				if hs > 0 && !isByz[o] {
					vC07AddCommit(g.ob(o), c0, foreign)
					hs--
				}
			}
		}
		for _, o := range byz {
			ob := g.ob(o)
			switch shape {
			case "rechain-commit": // the identical report (SourceChain = c0) filed under several known chain keys
				keys := append(append([]cciptypes.ChainSelector{}, g.chains...), vC07Dest)
				for _, k := range keys {
					if k == c0 && cr.Bool() {
						continue // with and without a copy under its own chain
					}
					vC07AddCommit(ob, k, foreign)
				}
			case "commit-foreign-source": // one report whose SourceChain differs from the key it is filed under
				other := vC07Dest
				if len(g.chains) > 1 && cr.Bool() {
					for _, k := range g.chains {
						if k != c0 {
							other = k
						}
					}
				}
				vC07AddCommit(ob, other, foreign)
			case "repeat-commit": // adjacent or with other reports in between
				if l := ob.CommitReports[c0]; len(l) > 0 {
					for k := 1; k < copies; k++ {
						if cr.Bool() {
							ob.CommitReports[c0] = append(ob.CommitReports[c0], vC07Commit(c0, 900+cciptypes.SeqNum(10*k), 901+cciptypes.SeqNum(10*k), 990+uint64(k), nil))
						}
						ob.CommitReports[c0] = append(ob.CommitReports[c0], l[0])
					}
				} else {
					d := vC07Commit(c0, 500, 502, 777, nil)
					for k := 0; k < copies; k++ {
						vC07AddCommit(ob, c0, d)
					}
				}
			case "exec-variant": // same report, other executed set: a different item
				if l := ob.CommitReports[c0]; len(l) > 0 {
					l[0].ExecutedMessages = []cciptypes.SeqNum{l[0].SequenceNumberRange.Start()}
				} else {
					vC07AddCommit(ob, c0, vC07Commit(c0, 500, 502, 777, []cciptypes.SeqNum{501}))
				}
			case "ts-variant": // same report, timestamp / block differing by an amount an identity function could lose
				// (1 ns, 1 s, 2^32 s, 2^63 ns, exactly 2^64 ns = int64 nanoseconds wrapping once — seeded change C07-11)
				if l := ob.CommitReports[c0]; len(l) > 0 {
					switch cr.Intn(6) {
					case 0:
						l[0].Timestamp = l[0].Timestamp.Add(time.Nanosecond)
					case 1:
						l[0].Timestamp = l[0].Timestamp.Add(time.Second)
					case 2:
						l[0].Timestamp = l[0].Timestamp.Add(time.Duration(1<<32) * time.Second)
					case 3:
						l[0].Timestamp = l[0].Timestamp.Add(time.Duration(math.MaxInt64)).Add(1)
					case 4:
						l[0].Timestamp = l[0].Timestamp.Add(time.Duration(math.MaxInt64)).Add(time.Duration(math.MaxInt64)).Add(2)
					default:
						l[0].BlockNum += 1 << 32
					}
				} else {
					vC07AddCommit(ob, c0, vC07Commit(c0, 500, 502, 777, nil))
				}
			case "split-range":
				if l := ob.CommitReports[c0]; len(l) > 0 && l[0].SequenceNumberRange.End() > l[0].SequenceNumberRange.Start() {
					lo, hi := l[0].SequenceNumberRange.Start(), l[0].SequenceNumberRange.End()
					l[0] = vC07Commit(c0, lo, lo, 901, nil)
					ob.CommitReports[c0] = append(ob.CommitReports[c0], vC07Commit(c0, lo+1, hi, 902, nil))
				} else {
					vC07AddCommit(ob, c0, vC07Commit(c0, 600, 600, 901, nil))
					vC07AddCommit(ob, c0, vC07Commit(c0, 601, 603, 902, nil))
				}
			case "overlap-range":
				vC07AddCommit(ob, c0, vC07Commit(c0, 700, 705, 911, nil))
				vC07AddCommit(ob, c0, vC07Commit(c0, 705, 709, 912, nil))
			case "exec-outside":
				vC07AddCommit(ob, c0, vC07Commit(c0, 800, 802, 921, []cciptypes.SeqNum{vPick(cr, []cciptypes.SeqNum{799, 803})}))
			case "rekey-msg": // F13a: one message under several sequence-number keys
				if !g.sup[o][c0] {
					g.sup[o][c0] = true
				}
				for k := 0; k < copies; k++ {
					vC07AddMsg(ob, c0, seq0+cciptypes.SeqNum(1000+k), vC07Msg(c0, seq0, 0))
				}
			case "rechain-msg": // chain c0's messages filed under another chain key
				other := vPick(cr, append(append([]cciptypes.ChainSelector{}, g.chains...), vC07Dest))
				vC07AddMsg(ob, other, seq0, vC07Msg(c0, seq0, 0))
			case "msg-variant":
				g.sup[o][c0] = true
				vC07AddMsg(ob, c0, seq0, vC07Msg(c0, seq0, 9))
			case "unsupported-msgs":
				g.sup[o][c0] = false
				vC07AddMsg(ob, c0, seq0, vC07Msg(c0, seq0, 0))
			case "costly-repeat": // F13c: one id repeated, adjacent ([A,A]) or with other ids in between ([A,B,A], [A,B,B,A], [A,B,C,A,..])
				g.sup[o][vC07Dest] = true
				idA := vC07B32(uint64(c0)*1000 + uint64(seq0))
				others := []cciptypes.Bytes32{vC07B32(515151), vC07B32(525252), vC07B32(535353)}
				for _, m := range allMsgs {
					if id := vC07B32(uint64(m.c)*1000 + uint64(m.seq)); id != idA && len(others) < 6 {
						others = append(others, id)
					}
				}
				style := cr.Intn(4)
				for k := 0; k < g.thr(vC07Dest)+cr.Intn(2); k++ {
					ob.CostlyMessages = append(ob.CostlyMessages, idA)
					switch style {
					case 1: // A,B,A,B,..
						ob.CostlyMessages = append(ob.CostlyMessages, others[0])
					case 2: // A,B,B,A,C,C,..
						x := others[k%len(others)]
						ob.CostlyMessages = append(ob.CostlyMessages, x, x)
					case 3: // A,B,A,C,A,D: repeats spread over several ids
						ob.CostlyMessages = append(ob.CostlyMessages, others[cr.Intn(len(others))])
					}
				}
			case "costly-foreign":
				g.sup[o][vC07Dest] = true
				ob.CostlyMessages = append(ob.CostlyMessages, vC07B32(424242))
			case "nonce-variant":
				g.sup[o][vC07Dest] = true
				vC07AddNonce(ob, c0, "0x00aa", 77)
			case "nonce-rechain":
				g.sup[o][vC07Dest] = true
				vC07AddNonce(ob, vC07Dest, "0x00aa", 1)
				vC07AddNonce(ob, c0, "0x77bb", 1)
			case "token-variant":
				g.sup[o][c0] = true
				vC07AddTok(ob, c0, seq0, []exectypes.TokenData{{Ready: true, Data: cciptypes.Bytes{0xEE}}})
			case "token-missing-slot":
				g.sup[o][c0] = true
				vC07AddTok(ob, c0, seq0, nil)
			case "token-rekey":
				g.sup[o][c0] = true
				vC07AddTok(ob, c0, seq0+1000, []exectypes.TokenData{{Ready: true, Data: cciptypes.Bytes{1}}})
			case "token-unsupported": // token data of a chain the oracle does not read (F07): rejected; an empty inner map is allowed
				g.sup[o][c0] = false
				delete(ob.Messages, c0)
				if cr.Chance(1, 4) {
					if ob.TokenData == nil {
						ob.TokenData = exectypes.TokenDataObservations{}
					}
					ob.TokenData[c0] = map[cciptypes.SeqNum]exectypes.MessageTokenData{}
				} else {
					vC07AddTok(ob, c0, seq0, []exectypes.TokenData{{Ready: true, Data: cciptypes.Bytes{0xEE}}})
				}
			case "nonce-nodest": // nonces from an oracle that does not read the destination (F07)
				g.sup[o][vC07Dest] = false
				ob.CostlyMessages = nil
				if cr.Chance(1, 4) {
					ob.Nonces = exectypes.NonceObservations{c0: map[string]uint64{}}
				} else {
					vC07AddNonce(ob, c0, "0x00aa", 1)
				}
			case "costly-nodest":
				g.sup[o][vC07Dest] = false
				ob.Nonces = nil
				ob.CostlyMessages = append(ob.CostlyMessages, vC07B32(uint64(c0)*1000+uint64(seq0)))
			case "token-extra-slot": // F13e
				g.sup[o][c0] = true
				if cr.Bool() { // ... also with a variant of the message that claims one more token transfer
					vC07AddMsg(ob, c0, seq0, vC07Msg(c0, seq0, 9))
				}
				var base []exectypes.TokenData
				if m, ok := ob.TokenData[c0]; ok {
					base = append(base, m[seq0].TokenData...)
				}
				vC07AddTok(ob, c0, seq0, append(base, exectypes.TokenData{Ready: true, Data: cciptypes.Bytes{0xEF}}))
			case "token-long-list": // more than 256 token-data slots for one message, slot k and slot k+256 equal: a vote
				// counter keyed by a narrowed (8-bit) slot index would count one observer several times (seeded change C07-13)
				g.sup[o][c0] = true
				var base []exectypes.TokenData
				if m, ok := ob.TokenData[c0]; ok {
					base = append(base, m[seq0].TokenData...)
				}
				forged := exectypes.TokenData{Ready: true, Data: cciptypes.Bytes{0xEE}}
				if len(base) == 0 || cr.Bool() {
					base = append([]exectypes.TokenData{forged}, base...)
				} else {
					base[0] = forged
				}
				for k := len(base); k < 256*g.thr(c0)+1+cr.Intn(3); k++ {
					td := exectypes.TokenData{Ready: true, Data: cciptypes.Bytes{0xA0, byte(k), byte(k >> 8)}}
					if k%256 == 0 {
						td = forged
					}
					base = append(base, td)
				}
				vC07AddTok(ob, c0, seq0, base)
			case "unknown-chain": // F13d
				switch cr.Intn(4) {
				case 0:
					if ob.Messages == nil {
						ob.Messages = exectypes.MessageObservations{}
					}
					ob.Messages[55] = map[cciptypes.SeqNum]cciptypes.Message{}
				case 1:
					vC07AddCommit(ob, 55, vC07Commit(55, 1, 2, 931, nil))
				case 2:
					vC07AddTok(ob, 55, 1, nil)
				default:
					if ob.CommitReports == nil {
						ob.CommitReports = exectypes.CommitObservations{}
					}
					ob.CommitReports[55] = nil
				}
			}
		}

		// ---- run the implementation ----
		hc := vNewHomeChain()
		p2p := map[commontypes.OracleID]libocrtypes.PeerID{}
		for _, o := range g.ids {
			p2p[o] = vPeer(int(o))
		}
		// the home chain holds exactly the chains of fChain (the validation reads fChain from it), with their f
		for _, c := range append(append([]cciptypes.ChainSelector{}, g.chains...), vC07Dest) {
			f, known := g.f[c]
			var peers []libocrtypes.PeerID
			for _, o := range g.ids {
				if !known {
					g.sup[o][c] = false // a chain without configuration has no readers
				}
				if g.sup[o][c] {
					peers = append(peers, vPeer(int(o)))
				}
			}
			if known {
				hc.SetChain(c, f, peers)
			}
		}
		return g, bigF, byz, hc, p2p
	}
}

func TestVerif_C07(t *testing.T) {
	ctx := context.Background()
	r := vNewRand(vSeed() + 7)
	n := vEnvInt("VERIF_N", 300)
	sink := vOpenSink("C07_merge")
	defer sink.Close()
	for i := 0; i < n; i++ {
		cr := vNewRand(r.U64())
		shape := vC07Shapes[i%len(vC07Shapes)]
		g, bigF, byz, hc, p2p := vC07Build(cr, shape, 0, 0, false)
		p := &Plugin{
			reportingCfg:    ocr3types.ReportingPluginConfig{OracleID: g.ids[0], F: bigF},
			destChain:       vC07Dest,
			homeChain:       hc,
			oracleIDToP2pID: p2p,
			lggr:            mocks.NullLogger,
		}
		tab := vC07NewTab()
		var inAos, vals []string
		var accepted []plugincommon.AttributedObservation[exectypes.Observation]
		fail := ""
		for _, o := range g.ids {
			enc, err := g.obs[o].Encode()
			if err != nil {
				fail = "encode: " + err.Error()
				break
			}
			dec, err := exectypes.DecodeObservation(enc)
			if err != nil {
				fail = "decode: " + err.Error()
				break
			}
			var sup []uint64
			for _, c := range append(append([]cciptypes.ChainSelector{}, g.chains...), vC07Dest) {
				if g.sup[o][c] {
					sup = append(sup, uint64(c))
				}
			}
			inAos = append(inAos, cTup(cN(uint64(o)), cListN(sup), tab.Obs(dec)))
			verr := func() (err error) {
				defer func() {
					if rec := recover(); rec != nil {
						err = fmt.Errorf("panic: %v", rec)
						fail = err.Error()
					}
				}()
				return p.ValidateObservation(ctx, ocr3types.OutcomeContext{}, types.Query{},
					types.AttributedObservation{Observation: enc, Observer: o})
			}()
			vals = append(vals, cBool(verr == nil))
			if verr == nil {
				accepted = append(accepted, plugincommon.AttributedObservation[exectypes.Observation]{OracleID: o, Observation: dec})
			}
		}
		if fail != "" {
			t.Fatalf("case %d: %s", i, fail)
		}
		var out string
		func() {
			defer func() {
				if rec := recover(); rec != nil {
					out = "Panic"
				}
			}()
			merged, err := getConsensusObservation(mocks.NullLogger, accepted, vC07Dest, bigF, g.f)
			if err != nil {
				out = "Err"
			} else {
				out = "(Ok " + tab.Merged(merged) + ")"
			}
		}()
		fkeys := vC07SortedKeys(g.f)
		fchain := make([]string, len(fkeys))
		for k, c := range fkeys {
			fchain[k] = cPair(cN(uint64(c)), cZ(int64(g.f[c])))
		}
		in := cTup(cZ(int64(bigF)), cN(uint64(vC07Dest)), cList(fchain), cList(inAos))
		nt := out != "Err" && len(accepted) >= 2
		sink.Emit("C07_merge", shape, nt, cPair(in, cPair(cList(vals), out)),
			map[string]any{"oracles": g.ids, "fChain": fmt.Sprint(g.f), "F": bigF, "byzantine": byz, "shape": shape,
				"accepted": len(accepted), "observations": g.obs, "result": out})
	}
}

// ---------------------------------------------------------------------------------------------------------------
// Plugin level: execute.Plugin.ValidateObservation on every observation, then execute.Plugin.Outcome on the accepted
// ones (F from the reporting config, fChain from the plugin's home chain), in the GetCommitReports phase (the outcome's
// PendingCommitReports are the merged commit reports) and in the GetMessages phase (the previous outcome holds one wide
// pending report per chain, so the outcome's reports carry the merged messages). N in {4, 7}, F in {1, 2},
// f(source) != f(dest).
func TestVerif_C07_outcome(t *testing.T) {
	ctx := context.Background()
	r := vNewRand(vSeed() + 8)
	n := vEnvInt("VERIF_N", 200)
	sink := vOpenSink("C07_outcome")
	defer sink.Close()
	for i := 0; i < n; i++ {
		cr := vNewRand(r.U64())
		shape := vC07Shapes[i%len(vC07Shapes)]
		phase := 1 + (i/len(vC07Shapes))%2
		forceN := vPick(cr, []int{4, 7})
		forceF := vPick(cr, []int{1, 2})
		g, bigF, byz, hc, p2p := vC07Build(cr, shape, forceN, forceF, true)
		p := &Plugin{
			reportingCfg:    ocr3types.ReportingPluginConfig{OracleID: g.ids[0], F: bigF, N: len(g.ids)},
			destChain:       vC07Dest,
			homeChain:       hc,
			oracleIDToP2pID: p2p,
			lggr:            mocks.NullLogger,
		}
		var prev []byte
		if phase == 2 {
			var wide []exectypes.CommitData
			for k, c := range append(append([]cciptypes.ChainSelector{}, g.chains...), vC07Dest) {
				wide = append(wide, exectypes.CommitData{SourceChain: c, Timestamp: vC07T0.Add(time.Duration(k) * time.Second),
					MerkleRoot: vC07B32(uint64(7000 + k)), SequenceNumberRange: cciptypes.NewSeqNumRange(0, 1<<40)})
			}
			var err error
			prev, err = exectypes.NewOutcome(exectypes.GetCommitReports, wide, cciptypes.ExecutePluginReport{}).Encode()
			if err != nil {
				t.Fatal(err)
			}
		}
		outctx := ocr3types.OutcomeContext{SeqNr: 5, PreviousOutcome: prev}
		tab := vC07NewTab()
		var inAos, vals []string
		var accepted []types.AttributedObservation
		for _, o := range g.ids {
			enc, err := g.obs[o].Encode()
			if err != nil {
				t.Fatal(err)
			}
			dec, err := exectypes.DecodeObservation(enc)
			if err != nil {
				t.Fatal(err)
			}
			var sup []uint64
			for _, c := range append(append([]cciptypes.ChainSelector{}, g.chains...), vC07Dest) {
				if g.sup[o][c] {
					sup = append(sup, uint64(c))
				}
			}
			inAos = append(inAos, cTup(cN(uint64(o)), cListN(sup), tab.Obs(dec)))
			ao := types.AttributedObservation{Observation: enc, Observer: o}
			verr := p.ValidateObservation(ctx, outctx, types.Query{}, ao)
			vals = append(vals, cBool(verr == nil))
			if verr == nil {
				accepted = append(accepted, ao)
			}
		}
		var out string
		func() {
			defer func() {
				if rec := recover(); rec != nil {
					out = "Panic"
				}
			}()
			ob, err := p.Outcome(ctx, outctx, types.Query{}, accepted)
			if err != nil {
				out = "Err"
				return
			}
			oc, err := exectypes.DecodeOutcome(ob)
			if err != nil {
				out = "Panic"
				return
			}
			var commits, msgs []string
			if phase == 1 {
				l := append([]exectypes.CommitData{}, oc.PendingCommitReports...)
				sort.Slice(l, func(a, b int) bool { return tab.CommitID(l[a]) < tab.CommitID(l[b]) })
				commits = cMapS(l, tab.Commit)
			} else {
				l := append([]exectypes.CommitData{}, oc.PendingCommitReports...)
				sort.Slice(l, func(a, b int) bool { return l[a].SourceChain < l[b].SourceChain })
				for _, d := range l {
					if len(d.Messages) == 0 {
						continue
					}
					var ms []string
					for _, m := range d.Messages {
						ms = append(ms, cPair(cN(uint64(m.Header.SequenceNumber)), tab.Msg(m)))
					}
					msgs = append(msgs, cPair(cN(uint64(d.SourceChain)), cList(ms)))
				}
			}
			out = "(Ok " + cPair(cList(commits), cList(msgs)) + ")"
		}()
		fkeys := vC07SortedKeys(g.f)
		fchain := make([]string, len(fkeys))
		for k, c := range fkeys {
			fchain[k] = cPair(cN(uint64(c)), cZ(int64(g.f[c])))
		}
		in := cTup(cNi(phase), cZ(int64(bigF)), cN(uint64(vC07Dest)), cList(fchain), cList(inAos))
		sink.Emit("C07_outcome", fmt.Sprintf("phase-%d/N%d-F%d/%s", phase, len(g.ids), bigF, shape), out != "Err" && len(accepted) >= 2,
			cPair(in, cPair(cList(vals), out)),
			map[string]any{"oracles": g.ids, "fChain": fmt.Sprint(g.f), "F": bigF, "byzantine": byz, "shape": shape, "phase": phase,
				"accepted": len(accepted), "observations": g.obs, "result": out})
	}
}

func cMapS[T any](xs []T, f func(T) string) []string {
	s := make([]string, len(xs))
	for i, x := range xs {
		s[i] = f(x)
	}
	return s
}

// execute.Plugin.ObservationQuorum: f+1 observations
func TestVerif_C07_quorum(t *testing.T) {
	ctx := context.Background()
	r := vNewRand(vSeed() + 9)
	n := vEnvInt("VERIF_N", 100)
	sink := vOpenSink("C07_quorum")
	defer sink.Close()
	for i := 0; i < n; i++ {
		N := r.Range(4, 13)
		F := r.Range(0, (N-1)/3)
		count := vPick(r, []int{0, F, F + 1, F + 2, 2 * F, 2*F + 1, N, r.Intn(N + 1)})
		p := &Plugin{reportingCfg: ocr3types.ReportingPluginConfig{N: N, F: F}, lggr: mocks.NullLogger}
		aos := make([]types.AttributedObservation, count)
		for k := range aos {
			aos[k].Observer = commontypes.OracleID(k)
		}
		out := "2%N"
		func() {
			defer func() { _ = recover() }()
			ok, err := p.ObservationQuorum(ctx, ocr3types.OutcomeContext{}, types.Query{}, aos)
			if err == nil {
				out = cNi(map[bool]int{false: 0, true: 1}[ok])
			}
		}()
		sink.Emit("C07_quorum", fmt.Sprintf("count-F=%d", count-F), true, cPair(cTup(cNi(N), cZ(int64(F)), cNi(count)), out),
			map[string]any{"N": N, "F": F, "observations": count, "result": out})
	}
}

//go:build verif

package report

import (
	"context"
	"encoding/binary"
	"encoding/hex"
	"errors"
	"fmt"
	"math/big"
	"sort"
	"testing"

	"github.com/smartcontractkit/chainlink-common/pkg/hashutil"
	"github.com/smartcontractkit/chainlink-common/pkg/merklemulti"

	"github.com/smartcontractkit/chainlink-ccip/execute/exectypes"
	"github.com/smartcontractkit/chainlink-ccip/internal/libs/slicelib"
	typeconv "github.com/smartcontractkit/chainlink-ccip/internal/libs/typeconv"
	"github.com/smartcontractkit/chainlink-ccip/internal/mocks"
	cciptypes "github.com/smartcontractkit/chainlink-ccip/pkg/types/ccipocr3"
)

const vC08Dest = cciptypes.ChainSelector(900)

// ---------- oracles: codec with a controlled size, gas estimator with a per-message table ----------
type vC08Codec struct {
	base, bad int
}

func (c vC08Codec) Encode(_ context.Context, rep cciptypes.ExecutePluginReport) ([]byte, error) {
	size := c.base
	for _, cr := range rep.ChainReports {
		for _, m := range cr.Messages {
			if len(m.Data) == c.bad {
				return nil, errors.New("verif: codec refuses this message")
			}
			size += len(m.Data)
		}
		size += 32 * len(cr.Proofs)
		for _, td := range cr.OffchainTokenData {
			size += 3 * len(td)
		}
	}
	return make([]byte, size), nil
}
func (c vC08Codec) Decode(context.Context, []byte) (cciptypes.ExecutePluginReport, error) {
	return cciptypes.ExecutePluginReport{}, errors.New("not used")
}

type vC08Est struct {
	gas      map[cciptypes.Bytes32]uint64
	tga, tgb uint64
}

func (e vC08Est) CalculateMerkleTreeGas(n int) uint64               { return e.tga + e.tgb*uint64(n) }
func (e vC08Est) CalculateMessageMaxGas(m cciptypes.Message) uint64 { return e.gas[m.Header.MessageID] }

// ---------- pure-data description of a case; materialised freshly for every run (Add mutates its argument) ----------
type vC08M struct {
	id     [32]byte
	src    uint64
	seq    uint64
	nonce  uint64
	sender []byte
	size   int
	gas    uint64
}
type vC08TD struct {
	ready bool
	data  []byte
}
type vC08CD struct {
	src        uint64
	root       [32]byte
	start, end uint64
	exec       []uint64
	msgs       []vC08M
	costly     [][32]byte
	td         [][]vC08TD
	tdNil      bool // MessageTokenData left nil
}
type vC08Case struct {
	cds              []vC08CD
	nonces           map[uint64]map[string]uint64
	maxSize, maxGas  uint64
	tga, tgb         uint64
	base, bad        int
}

func vC08Mat(c vC08CD) exectypes.CommitData {
	cd := exectypes.CommitData{
		SourceChain:         cciptypes.ChainSelector(c.src),
		MerkleRoot:          c.root,
		SequenceNumberRange: cciptypes.NewSeqNumRange(cciptypes.SeqNum(c.start), cciptypes.SeqNum(c.end)),
	}
	for _, e := range c.exec {
		cd.ExecutedMessages = append(cd.ExecutedMessages, cciptypes.SeqNum(e))
	}
	for _, m := range c.msgs {
		cd.Messages = append(cd.Messages, cciptypes.Message{
			Header: cciptypes.RampMessageHeader{MessageID: m.id, SourceChainSelector: cciptypes.ChainSelector(m.src),
				DestChainSelector: vC08Dest, SequenceNumber: cciptypes.SeqNum(m.seq), Nonce: m.nonce},
			Sender: append([]byte{}, m.sender...),
			Data:   make([]byte, m.size),
		})
	}
	for _, id := range c.costly {
		cd.CostlyMessages = append(cd.CostlyMessages, id)
	}
	if !c.tdNil {
		cd.MessageTokenData = []exectypes.MessageTokenData{}
		for _, tds := range c.td {
			mtd := exectypes.MessageTokenData{TokenData: []exectypes.TokenData{}}
			for _, t := range tds {
				mtd.TokenData = append(mtd.TokenData, exectypes.TokenData{Ready: t.ready, Data: append([]byte{}, t.data...)})
			}
			cd.MessageTokenData = append(cd.MessageTokenData, mtd)
		}
	}
	return cd
}

func vC08Builder(c *vC08Case, maxSize, maxGas uint64) ExecReportBuilder {
	gas := map[cciptypes.Bytes32]uint64{}
	for _, cd := range c.cds {
		for _, m := range cd.msgs {
			gas[m.id] = m.gas
		}
	}
	nonces := map[cciptypes.ChainSelector]map[string]uint64{}
	for ch, mm := range c.nonces {
		nonces[cciptypes.ChainSelector(ch)] = map[string]uint64{}
		for s, v := range mm {
			nonces[cciptypes.ChainSelector(ch)][s] = v
		}
	}
	return NewBuilder(mocks.NullLogger, mocks.NewMessageHasher(), vC08Codec{base: c.base, bad: c.bad},
		vC08Est{gas: gas, tga: c.tga, tgb: c.tgb}, nonces, vC08Dest, maxSize, maxGas)
}

// ---------- reference tree (mirrors Merkle.v layers_from / pair_up line by line); fills the hash table ----------
type vC08Tab struct {
	in   *vIntern
	rows map[[2]uint64]uint64
	list []string
}

func vC08NewTab() *vC08Tab {
	t := &vC08Tab{in: vNewIntern(), rows: map[[2]uint64]uint64{}}
	return t
}
func (t *vC08Tab) id(h [32]byte) uint64 { return t.in.Id(hex.EncodeToString(h[:])) }
func (t *vC08Tab) root(leaves [][32]byte) [32]byte {
	k := hashutil.NewKeccak()
	layer := append([][32]byte{}, leaves...)
	for len(layer) > 1 {
		if len(layer)%2 != 0 {
			layer = append(layer, k.ZeroHash())
		}
		var next [][32]byte
		for i := 0; i < len(layer); i += 2 {
			c := k.HashInternal(layer[i], layer[i+1])
			a, b := t.id(layer[i]), t.id(layer[i+1])
			if a > b {
				a, b = b, a
			}
			key := [2]uint64{a, b}
			if _, ok := t.rows[key]; !ok {
				t.rows[key] = t.id(c)
				t.list = append(t.list, cTup(cN(a), cN(b), cN(t.id(c))))
			}
			next = append(next, c)
		}
		layer = next
	}
	if len(layer) == 0 {
		return [32]byte{}
	}
	return layer[0]
}

// ---------- Coq printers ----------
type vC08P struct {
	tab     *vC08Tab
	senders *vIntern
	datas   *vIntern
	gas     map[[32]byte]uint64
}

func (p *vC08P) msgOf(m cciptypes.Message) string {
	s := typeconv.AddressBytesToString(m.Sender[:], uint64(vC08Dest))
	return cApp("mkMsg", cN(p.tab.id(m.Header.MessageID)), cN(uint64(m.Header.SourceChainSelector)),
		cN(uint64(m.Header.SequenceNumber)), cN(m.Header.Nonce), cN(p.senders.Id(s)), cNi(len(m.Data)),
		cN(p.gas[m.Header.MessageID]))
}
func (p *vC08P) cdOf(cd exectypes.CommitData) string {
	ex := make([]string, len(cd.ExecutedMessages))
	for i, e := range cd.ExecutedMessages {
		ex[i] = cN(uint64(e))
	}
	co := make([]string, len(cd.CostlyMessages))
	for i, e := range cd.CostlyMessages {
		co[i] = cN(p.tab.id(e))
	}
	td := make([]string, len(cd.MessageTokenData))
	for i, mtd := range cd.MessageTokenData {
		td[i] = cMap(mtd.TokenData, func(t exectypes.TokenData) string {
			return cPair(cBool(t.Ready), cN(p.datas.Id(hex.EncodeToString(t.Data))))
		})
	}
	return cApp("mkCD", cN(uint64(cd.SourceChain)), cN(p.tab.id(cd.MerkleRoot)),
		cN(uint64(cd.SequenceNumberRange.Start())), cN(uint64(cd.SequenceNumberRange.End())),
		cList(ex), cMap(cd.Messages, p.msgOf), cList(co), cList(td))
}
func (p *vC08P) repOf(r cciptypes.ExecutePluginReportSingleChain) string {
	td := make([]string, len(r.OffchainTokenData))
	for i, x := range r.OffchainTokenData {
		td[i] = cMap(x, func(b []byte) string { return cN(p.datas.Id(hex.EncodeToString(b))) })
	}
	pr := cMap(r.Proofs, func(b cciptypes.Bytes32) string { return cN(p.tab.id(b)) })
	fl := big.NewInt(0)
	if r.ProofFlagBits.Int != nil {
		fl = r.ProofFlagBits.Int
	}
	return cApp("mkCR", cN(uint64(r.SourceChainSelector)), cMap(r.Messages, p.msgOf), cList(td), pr, cZb(fl))
}

// the contract-style check: leaves = message hashes, flags = first |leaves|+|proofs|-1 bits
func vC08Reverify(r cciptypes.ExecutePluginReportSingleChain, root [32]byte) (ok bool) {
	defer func() {
		if recover() != nil {
			ok = false
		}
	}()
	h := mocks.NewMessageHasher()
	var leaves [][32]byte
	for _, m := range r.Messages {
		l, err := h.Hash(context.Background(), m)
		if err != nil {
			return false
		}
		leaves = append(leaves, l)
	}
	var ps [][32]byte
	for _, p := range r.Proofs {
		ps = append(ps, p)
	}
	n := len(leaves) + len(ps) - 1
	if n < 0 || r.ProofFlagBits.Int == nil {
		return false
	}
	flags := slicelib.BitFlagsToBools(r.ProofFlagBits.Int, n)
	got, err := merklemulti.VerifyComputeRoot(hashutil.NewKeccak(), leaves, merklemulti.Proof[[32]byte]{Hashes: ps, SourceFlags: flags})
	return err == nil && got == root
}

// ---------- generator ----------
func vC08Bytes32(r *vRand) (b [32]byte) {
	for i := 0; i < 4; i++ {
		binary.BigEndian.PutUint64(b[8*i:], r.U64())
	}
	return
}

var vC08Sizes = []int{1, 1, 2, 2, 3, 3, 4, 5, 5, 7, 8, 9, 12, 16, 17}
var vC08Big = []int{31, 32, 33, 64, 100, 255, 256}

func vC08Gen(r *vRand, cls string) *vC08Case {
	c := &vC08Case{nonces: map[uint64]map[string]uint64{}, tga: uint64(r.Range(0, 50)), tgb: uint64(r.Range(0, 9)),
		base: r.Range(0, 20), bad: 1999}
	ncd := vPick(r, []int{1, 1, 1, 2, 2, 2, 3, 4})
	if cls == "big" {
		ncd = vPick(r, []int{1, 1, 2})
	}
	// senders: 3 per chain; on-chain nonce; generator's idea of the next nonce
	type sk struct {
		ch uint64
		s  int
	}
	senders := map[sk][]byte{}
	next := map[sk]uint64{}
	for ch := uint64(1); ch <= 2; ch++ {
		if r.Chance(1, 25) {
			continue // chain missing from the nonce map
		}
		c.nonces[ch] = map[string]uint64{}
	}
	for ch := uint64(1); ch <= 2; ch++ {
		for s := 0; s < 3; s++ {
			b := make([]byte, 20)
			binary.BigEndian.PutUint64(b, r.U64())
			b[19] = byte(s)
			senders[sk{ch, s}] = b
			on := vPick(r, []uint64{0, 0, 0, 3, 41, 41, 1<<64 - 3, 1<<64 - 2, 1<<64 - 1})
			next[sk{ch, s}] = on + 1
			if r.Chance(1, 10) {
				next[sk{ch, s}] = on + uint64(2*r.Intn(2)) // first nonce equal to the on-chain one, or one too far
			}
			if c.nonces[ch] != nil && !r.Chance(1, 15) {
				c.nonces[ch][typeconv.AddressBytesToString(b, uint64(vC08Dest))] = on
			}
		}
	}
	nextSeq := map[uint64]uint64{1: uint64(r.Range(0, 50)), 2: uint64(r.Range(0, 50))}
	for k := 0; k < ncd; k++ {
		src := uint64(r.Range(1, 2))
		n := vPick(r, vC08Sizes)
		if cls == "big" && k == 0 {
			n = vPick(r, vC08Big)
		}
		var cd vC08CD
		cd.src = src
		cd.start = nextSeq[src]
		if cls == "seqmax" && k == 0 {
			cd.start = -uint64(n) // range ends at 2^64-1
		}
		cd.end = cd.start + uint64(n) - 1
		nextSeq[src] = cd.end + 1 + uint64(r.Intn(3))
		unorderedOnly := r.Chance(1, 8)
		for i := 0; i < n; i++ {
			s := r.Intn(3)
			key := sk{src, s}
			m := vC08M{id: vC08Bytes32(r), src: src, seq: cd.start + uint64(i), sender: senders[key],
				size: vPick(r, []int{0, 1, 5, 20, 20, 64, 300}), gas: uint64(vPick(r, []int{0, 1, 100, 100, 5000, 90000}))}
			if unorderedOnly || r.Chance(1, 4) {
				m.nonce = 0
			} else {
				m.nonce = next[key]
				next[key]++
				switch {
				case r.Chance(1, 30): // gap
					next[key]++
				case r.Chance(1, 40): // repeat
					next[key]--
				}
			}
			cd.msgs = append(cd.msgs, m)
			// token data
			nt := vPick(r, []int{0, 1, 1, 2})
			var tds []vC08TD
			for j := 0; j < nt; j++ {
				ready := !r.Chance(1, 12)
				if cls == "notready" {
					ready = r.Bool()
				}
				tds = append(tds, vC08TD{ready: ready, data: []byte{byte(r.Intn(4)), byte(j)}[:r.Intn(3)]})
			}
			cd.td = append(cd.td, tds)
		}
		// executed pattern
		switch vPick(r, []string{"none", "none", "some", "some", "prefix", "all", "foreign"}) {
		case "some":
			for _, m := range cd.msgs {
				if r.Chance(1, 3) {
					cd.exec = append(cd.exec, m.seq)
				}
			}
		case "prefix":
			p := r.Intn(n + 1)
			for i := 0; i < p; i++ {
				cd.exec = append(cd.exec, cd.msgs[i].seq)
			}
		case "all":
			for _, m := range cd.msgs {
				cd.exec = append(cd.exec, m.seq)
			}
		case "foreign":
			cd.exec = append(cd.exec, cd.end+7, cd.start-1)
		}
		// the executed list is a set as far as the property goes: nothing requires it to be ascending or free of
		// repeats (seeded change C08-7 looked entries up with a binary search)
		if len(cd.exec) >= 2 {
			switch r.Intn(4) {
			case 0: // reversed
				for i, j := 0, len(cd.exec)-1; i < j; i, j = i+1, j-1 {
					cd.exec[i], cd.exec[j] = cd.exec[j], cd.exec[i]
				}
			case 1: // shuffled, one entry repeated, a foreign number in the middle
				pm := r.Perm(len(cd.exec))
				sh := make([]uint64, 0, len(cd.exec)+2)
				for _, k := range pm {
					sh = append(sh, cd.exec[k])
				}
				sh = append(sh, sh[0])
				mid := len(sh) / 2
				sh = append(sh[:mid], append([]uint64{cd.end + 9}, sh[mid:]...)...)
				cd.exec = sh
			}
		}
		// costly
		costlyP := vPick(r, []int{0, 0, 0, 6, 3})
		if cls == "costly" {
			costlyP = 3
		}
		for _, m := range cd.msgs {
			if costlyP > 0 && r.Chance(1, costlyP) {
				cd.costly = append(cd.costly, m.id)
			}
		}
		if r.Chance(1, 10) {
			cd.costly = append(cd.costly, vC08Bytes32(r)) // id of no message
		}
		c.cds = append(c.cds, cd)
	}
	return c
}

// malformed / Byzantine commit data: applied to one commit report after the honest root was computed (or before,
// so that the tampered data is what the root commits to)
func vC08Tamper(r *vRand, c *vC08Case, tab *vC08Tab, kind string) {
	k := r.Intn(len(c.cds))
	cd := &c.cds[k]
	n := len(cd.msgs)
	i := r.Intn(n)
	reroot := func() {
		var leaves [][32]byte
		for _, m := range cd.msgs {
			leaves = append(leaves, m.id)
		}
		cd.root = tab.root(leaves)
	}
	switch kind {
	case "wrongroot":
		cd.root = vC08Bytes32(r)
	case "zeroroot":
		cd.root = [32]byte{}
	case "body": // a message body (id = leaf hash under the mock hasher) changed after commitment
		cd.msgs[i].id = vC08Bytes32(r)
	case "swap": // two messages exchanged
		if n >= 2 {
			j := (i + 1 + r.Intn(n-1)) % n
			cd.msgs[i].id, cd.msgs[j].id = cd.msgs[j].id, cd.msgs[i].id
		}
	case "missing":
		cd.msgs = append(cd.msgs[:i:i], cd.msgs[i+1:]...)
		cd.td = append(cd.td[:i:i], cd.td[i+1:]...)
	case "missing-rerooted": // root commits to the short list; range still the long one
		cd.msgs = append(cd.msgs[:i:i], cd.msgs[i+1:]...)
		cd.td = append(cd.td[:i:i], cd.td[i+1:]...)
		reroot()
	case "extra":
		cd.msgs = append(cd.msgs, cd.msgs[i])
		cd.td = append(cd.td, cd.td[i])
	case "extra-rerooted-range": // duplicate appended, range widened, root recomputed: consistent commit data
		m := cd.msgs[i]
		cd.msgs = append(cd.msgs, m)
		cd.td = append(cd.td, cd.td[i])
		cd.end++
		reroot()
	case "foreign-chain":
		cd.msgs[i].src = cd.src + 5
	case "foreign-chain-rerooted":
		cd.msgs[i].src = cd.src + 5
		reroot()
	case "outside-range":
		cd.msgs[i].seq = cd.end + 1 + uint64(r.Intn(3))
	case "outside-range-low":
		cd.msgs[i].seq = cd.start - 1
	case "td-short":
		cd.td = cd.td[:n-1]
	case "td-long":
		cd.td = append(cd.td, []vC08TD{{ready: true}})
	case "td-nil":
		cd.td = nil
		cd.tdNil = true
	case "codec-error":
		cd.msgs[i].size = c.bad
	case "range-wide":
		cd.end += uint64(1 + r.Intn(2))
	case "range-full": // End-Start+1 wraps to 0
		cd.start, cd.end = 0, 1<<64-1
	}
}

type vC08Run struct {
	outs   []string
	built  []cciptypes.ExecutePluginReportSingleChain
	sizes  []uint64
	gases  []uint64
	errAt  int
}

func vC08Exec(c *vC08Case, p *vC08P, maxSize, maxGas uint64) (res vC08Run) {
	b := vC08Builder(c, maxSize, maxGas)
	ctx := context.Background()
	codec := vC08Codec{base: c.base, bad: -1}
	res.errAt = -1
	for k, spec := range c.cds {
		cd := vC08Mat(spec)
		before, _ := b.Build()
		nb := len(before)
		var upd exectypes.CommitData
		var err error
		panicked := func() (pn bool) {
			defer func() {
				if recover() != nil {
					pn = true
				}
			}()
			upd, err = b.Add(ctx, cd)
			return false
		}()
		if panicked {
			res.outs = append(res.outs, "APanic")
			res.errAt = k
			break
		}
		if err != nil {
			res.outs = append(res.outs, "AErr")
			res.errAt = k
			break
		}
		after, _ := b.Build()
		app := cNone()
		if len(after) > nb {
			r := after[len(after)-1]
			v := vC08Reverify(r, spec.root)
			if p != nil {
				app = cSome(cPair(p.repOf(r), cBool(v)))
			}
			enc, _ := codec.Encode(ctx, cciptypes.ExecutePluginReport{ChainReports: []cciptypes.ExecutePluginReportSingleChain{r}})
			res.sizes = append(res.sizes, uint64(len(enc)))
			g := c.tga + c.tgb*uint64(len(r.Messages))
			for _, m := range r.Messages {
				for _, s := range spec.msgs {
					if s.id == m.Header.MessageID {
						g += s.gas
						break
					}
				}
			}
			res.gases = append(res.gases, g)
		}
		if p != nil {
			res.outs = append(res.outs, cApp("AOk", app, p.cdOf(upd)))
		}
	}
	res.built, _ = b.Build()
	return
}

// vC08Emit finishes a case: honest roots, optional tampering, limit selection at the boundaries found by a dry run
// (or fixed limits), the real run, and the Coq term.
func vC08Emit(sink *vSink, sinkName string, r *vRand, c *vC08Case, cls, tamper, ls, lg string, fixed *[2]uint64) {
	tab := vC08NewTab()
	zeroID := tab.id(hashutil.NewKeccak().ZeroHash())
	for k := range c.cds {
		var leaves [][32]byte
		for _, m := range c.cds[k].msgs {
			leaves = append(leaves, m.id)
		}
		c.cds[k].root = tab.root(leaves)
	}
	label := cls
	if tamper != "" {
		vC08Tamper(r, c, tab, tamper)
		label = "tamper/" + tamper
	}
	// table rows for the trees the implementation will build from the (possibly tampered) messages
	for k := range c.cds {
		var leaves [][32]byte
		for _, m := range c.cds[k].msgs {
			leaves = append(leaves, m.id)
		}
		tab.root(leaves)
	}
	// dry run without limits to learn the sizes, then choose limits at the boundaries
	dry := vC08Exec(c, nil, 1<<62, 1<<62)
	var st, gt uint64
	for k := range dry.sizes {
		st += dry.sizes[k]
		gt += dry.gases[k]
	}
	pickLimit := func(total uint64, first uint64, kind string) uint64 {
		switch kind {
		case "fit":
			return total + uint64(r.Intn(20))
		case "exact":
			return total
		case "minus1":
			if total == 0 {
				return 0
			}
			return total - 1
		case "half":
			return total / 2
		case "threequarter":
			return total / 4 * 3
		case "quarter":
			return total / 4
		case "one":
			return first
		case "tiny":
			return uint64(r.Intn(40))
		case "zero":
			return 0
		case "int63":
			return 1<<63 - 1
		case "neg":
			return 1 << 63
		}
		return 1<<64 - 1
	}
	var f1, g1 uint64
	if len(dry.sizes) > 0 {
		f1, g1 = dry.sizes[0], dry.gases[0]
	}
	if fixed != nil {
		c.maxSize, c.maxGas = fixed[0], fixed[1]
	} else {
		c.maxSize = pickLimit(st, f1, ls)
		if lg == "int63" || lg == "neg" {
			lg = "max"
		}
		c.maxGas = pickLimit(gt, g1, lg)
	}
	label += "|size:" + ls + "|gas:" + lg

	p := &vC08P{tab: tab, senders: vNewIntern(), datas: vNewIntern(), gas: map[[32]byte]uint64{}}
	for _, cd := range c.cds {
		for _, m := range cd.msgs {
			p.gas[m.id] = m.gas
		}
	}
	cds := make([]string, len(c.cds))
	nmsgs := 0
	for k, spec := range c.cds {
		cds[k] = p.cdOf(vC08Mat(spec))
		nmsgs += len(spec.msgs)
	}
	var nm []string
	for ch := uint64(0); ch < 4; ch++ {
		var keys []string
		for s := range c.nonces[ch] {
			keys = append(keys, s)
		}
		sort.Strings(keys)
		for _, s := range keys {
			nm = append(nm, cPair(cPair(cN(ch), cN(p.senders.Id(s))), cN(c.nonces[ch][s])))
		}
	}
	run := vC08Exec(c, p, c.maxSize, c.maxGas)
	cfg := cApp("mkCfg", cList(tab.list), cN(zeroID), cList(nm), cN(c.maxSize), cN(c.maxGas), cN(c.tga), cN(c.tgb),
		cNi(c.base), cNi(c.bad))
	in := cPair(cfg, cList(cds))
	out := cPair(cList(run.outs), cMap(run.built, p.repOf))
	inc := 0
	for _, b := range run.built {
		inc += len(b.Messages)
	}
	sink.Emit(sinkName, label, len(run.built) > 0, cPair(in, out), map[string]any{
		"class": label, "commit_reports": len(c.cds), "messages": nmsgs, "max_size": c.maxSize, "max_gas": c.maxGas,
		"reports_built": len(run.built), "messages_included": inc, "error_at": run.errAt,
		"unlimited_size": st, "unlimited_gas": gt})
}

// the two F14 inputs of Proofs/ExecReportP.v (module F14), replayed on the real builder: the too-costly one
// (repaired by F14a: only nonce 1 may be reported) and the size-fallback one (still recorded)
func vC08Witness(costly bool) *vC08Case {
	snd := make([]byte, 20)
	snd[19] = 77
	c := &vC08Case{nonces: map[uint64]map[string]uint64{1: {typeconv.AddressBytesToString(snd, uint64(vC08Dest)): 0}},
		tga: 0, tgb: 1, base: 10, bad: 1999}
	cd := vC08CD{src: 1, start: 1, end: 3}
	for i := 0; i < 3; i++ {
		var id [32]byte
		id[31] = byte(101 + i)
		m := vC08M{id: id, src: 1, seq: uint64(1 + i), nonce: uint64(1 + i), sender: snd, size: 20, gas: 5}
		if i == 1 && !costly {
			m.size = 500
		}
		cd.msgs = append(cd.msgs, m)
		cd.td = append(cd.td, nil)
		if i == 1 && costly {
			cd.costly = append(cd.costly, id)
		}
	}
	c.cds = []vC08CD{cd}
	return c
}

func TestVerif_C08_add(t *testing.T) {
	part := vEnvInt("VERIF_C08_PART", 0) // the add sample is split over several sinks so that Coq judges them in parallel
	r := vNewRand(vSeed() + 801 + 1000*uint64(part))
	n := vEnvInt("VERIF_N", 100)
	sinkName := fmt.Sprintf("C08_add_%d", part)
	sink := vOpenSink(sinkName)
	defer sink.Close()
	classes := []string{"plain", "plain", "plain", "costly", "costly", "notready", "seqmax", "big", "tamper", "tamper"}
	tampers := []string{"wrongroot", "zeroroot", "body", "swap", "missing", "missing-rerooted", "extra", "extra-rerooted-range",
		"foreign-chain", "foreign-chain-rerooted", "outside-range", "outside-range-low", "td-short", "td-long", "td-nil",
		"codec-error", "range-wide", "range-full"}
	limits := []string{"fit", "fit", "fit", "fit", "exact", "exact", "minus1", "minus1", "half", "half", "threequarter",
		"quarter", "one", "tiny", "zero", "int63", "neg", "max"}
	// corpus first
	first := 0
	if part == 0 {
		vC08Emit(sink, sinkName, r, vC08Witness(true), "F14a-costly-repaired", "", "fixed", "fixed", &[2]uint64{1000, 1000})
		vC08Emit(sink, sinkName, r, vC08Witness(false), "F14-witness-fallback", "", "fixed", "fixed", &[2]uint64{200, 1000})
		first = 2
	}
	for i := first; i < n; i++ {
		cls := vPick(r, classes)
		if i%40 == 39 {
			cls = "big"
		}
		c := vC08Gen(r, cls)
		tamper := ""
		if cls == "tamper" {
			tamper = vPick(r, tampers)
		}
		ls, lg := vPick(r, limits), vPick(r, limits)
		if len(c.cds[0].msgs) >= 100 {
			// the one-by-one fallback over hundreds of messages is quadratic in the model; big reports only meet
			// limits that accept or reject the all-ready report outright or at its exact size
			ls, lg = vPick(r, []string{"fit", "exact", "zero", "neg"}), vPick(r, []string{"fit", "exact", "fit"})
		}
		if r.Chance(1, 3) {
			lg = "fit" // let the size limit alone decide
		} else if r.Chance(1, 3) {
			ls = "fit"
		}
		vC08Emit(sink, sinkName, r, c, cls, tamper, ls, lg, nil)
	}
}

// ---------- merklemulti directly, over an arithmetic commutative hash shared with the Coq side ----------
type vC08AH struct{}

const vC08P31 = 2147483647

func vC08V(h [32]byte) uint64 { return binary.BigEndian.Uint64(h[24:]) }
func vC08H(v uint64) (h [32]byte) {
	binary.BigEndian.PutUint64(h[24:], v)
	return
}
func (vC08AH) Hash(l []byte) [32]byte { return vC08H(uint64(len(l))) }
func (vC08AH) HashInternal(a, b [32]byte) [32]byte {
	x, y := vC08V(a), vC08V(b)
	if x > y {
		x, y = y, x
	}
	return vC08H((x*48271 + y*69621 + 7) % vC08P31)
}
func (vC08AH) ZeroHash() [32]byte { return vC08H(vC08P31 - 1) }

func TestVerif_C08_mm(t *testing.T) {
	r := vNewRand(vSeed() + 802)
	n := vEnvInt("VERIF_N", 300)
	sink := vOpenSink("C08_mm")
	defer sink.Close()
	h := vC08AH{}
	hs := func(xs [][32]byte) string {
		return cMap(xs, func(x [32]byte) string { return cN(vC08V(x)) })
	}
	ints := func(xs []int) string { return cMap(xs, func(x int) string { return fmt.Sprintf("%d%%nat", x) }) }
	bools := func(xs []bool) string { return cMap(xs, cBool) }
	for i := 0; i < n; i++ {
		size := vPick(r, []int{1, 1, 2, 2, 3, 3, 4, 5, 6, 7, 8, 9, 10, 15, 16, 17, 31, 33})
		if i%50 == 49 {
			size = vPick(r, []int{255, 256, 257, 300})
		}
		leaves := make([][32]byte, size)
		for k := range leaves {
			leaves[k] = vC08H(uint64(r.Intn(1 << 30)))
		}
		cls := vPick(r, []string{"subset", "subset", "subset", "all", "single", "empty", "unsorted", "dup", "oob", "mutated", "mutated", "mutated"})
		var idxs []int
		switch cls {
		case "all":
			for k := 0; k < size; k++ {
				idxs = append(idxs, k)
			}
		case "single":
			idxs = []int{r.Intn(size)}
		case "empty":
		default:
			den := vPick(r, []int{2, 2, 3, 8})
			for k := 0; k < size; k++ {
				if r.Chance(1, den) {
					idxs = append(idxs, k)
				}
			}
			if len(idxs) == 0 {
				idxs = []int{r.Intn(size)}
			}
		}
		switch cls {
		case "unsorted":
			pm := r.Perm(len(idxs))
			sh := make([]int, len(idxs))
			for k, j := range pm {
				sh[k] = idxs[j]
			}
			idxs = sh
		case "dup":
			idxs = append(idxs, idxs[r.Intn(len(idxs))])
		case "oob":
			idxs = append(idxs, size+r.Intn(3))
		}
		tree, err := merklemulti.NewTree[[32]byte](h, leaves)
		if err != nil {
			t.Fatal(err)
		}
		root := tree.Root()
		var proveOut string
		var proof merklemulti.Proof[[32]byte]
		func() {
			defer func() {
				if recover() != nil {
					proveOut = "Panic"
				}
			}()
			var perr error
			proof, perr = tree.Prove(idxs)
			if perr != nil {
				proveOut = "Err"
				proof = merklemulti.Proof[[32]byte]{}
			} else {
				proveOut = "(Ok " + cPair(hs(proof.Hashes), bools(proof.SourceFlags)) + ")"
			}
		}()
		// what is handed to the verifier
		var vl [][32]byte
		for _, x := range idxs {
			if x < size {
				vl = append(vl, leaves[x])
			}
		}
		vp := append([][32]byte{}, proof.Hashes...)
		vf := append([]bool{}, proof.SourceFlags...)
		if cls == "mutated" {
			switch r.Intn(8) {
			case 0:
				if len(vf) > 0 {
					k := r.Intn(len(vf))
					vf[k] = !vf[k]
				}
			case 1:
				if len(vf) > 0 {
					vf = vf[:len(vf)-1]
				}
			case 2:
				vf = append(vf, r.Bool())
			case 3:
				if len(vp) > 0 {
					vp = vp[:len(vp)-1]
				}
			case 4:
				vp = append(vp, vC08H(uint64(r.Intn(1000))))
			case 5:
				if len(vl) > 0 {
					vl = vl[:len(vl)-1]
				}
			case 6:
				vl = append(vl, vC08H(uint64(r.Intn(1000))))
			case 7: // flags shuffled: same counts, different order
				pm := r.Perm(len(vf))
				sh := make([]bool, len(vf))
				for k, j := range pm {
					sh[k] = vf[j]
				}
				vf = sh
			}
		}
		var verOut string
		func() {
			defer func() {
				if recover() != nil {
					verOut = "Panic"
				}
			}()
			got, verr := merklemulti.VerifyComputeRoot[[32]byte](h, vl, merklemulti.Proof[[32]byte]{Hashes: vp, SourceFlags: vf})
			if verr != nil {
				verOut = "Err"
			} else {
				verOut = "(Ok " + cN(vC08V(got)) + ")"
			}
		}()
		in := cTup(hs(leaves), ints(idxs), cTup(hs(vl), hs(vp), bools(vf)))
		out := cTup(proveOut, cN(vC08V(root)), verOut)
		sink.Emit("C08_mm", cls, cls != "empty", cPair(in, out),
			map[string]any{"leaves": size, "indices": idxs, "class": cls})
	}
}

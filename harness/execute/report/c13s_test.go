//go:build verif

package report

import (
	"context"
	"fmt"
	"testing"
	"time"

	"github.com/smartcontractkit/chainlink-ccip/execute/exectypes"
	"github.com/smartcontractkit/chainlink-ccip/internal/mocks"
	cciptypes "github.com/smartcontractkit/chainlink-ccip/pkg/types/ccipocr3"
)

// C13 directed site classes, package execute/report (coq/Model/PanicSites2.v sites check_message and
// report_token_data): a decodable previous outcome may carry pending commit reports whose Messages and
// MessageTokenData have different lengths; the builder must answer with an error, not an index panic.

func vC13sRun(f func() error) (int, string) {
	var err error
	code, what := vGuard(3*time.Second, func() { err = f() })
	if code == 0 && err != nil {
		return 1, err.Error()
	}
	return code, what
}

func vC13sNat(n int) string { return fmt.Sprintf("%d%%nat", n) }

func vC13sReport(ctx context.Context, nmsgs, ntok int) exectypes.CommitData {
	cd := exectypes.CommitData{SourceChain: 5, SequenceNumberRange: cciptypes.NewSeqNumRange(10, cciptypes.SeqNum(10+nmsgs-1))}
	if nmsgs == 0 {
		cd.SequenceNumberRange = cciptypes.NewSeqNumRange(10, 9)
	}
	for i := 0; i < nmsgs; i++ {
		cd.Messages = append(cd.Messages, cciptypes.Message{Header: cciptypes.RampMessageHeader{MessageID: cciptypes.Bytes32{1, byte(i)},
			SourceChainSelector: 5, DestChainSelector: 900, SequenceNumber: cciptypes.SeqNum(10 + i)}, Sender: []byte{1}, Data: []byte{1, 2}})
	}
	for i := 0; i < ntok; i++ {
		cd.MessageTokenData = append(cd.MessageTokenData, exectypes.NewMessageTokenData(exectypes.NewSuccessTokenData([]byte{byte(i)})))
	}
	if nmsgs > 0 {
		if tree, err := ConstructMerkleTree(ctx, mocks.NewMessageHasher(), cd, mocks.NullLogger); err == nil {
			cd.MerkleRoot = tree.Root()
		}
	}
	return cd
}

func TestVerif_C13_sites_report(t *testing.T) {
	ctx := context.Background()
	sink := vOpenSink("C13_sites_report")
	defer sink.Close()
	emit := func(cls, in string, code int, what string, show map[string]any) {
		show["code"], show["panic"] = code, what
		sink.Emit("C13_sites_report", cls, true, cPair(in, cNi(code)), show)
	}
	newBuilder := func() *execReportBuilder {
		return NewBuilder(mocks.NullLogger, mocks.NewMessageHasher(), mocks.NewExecutePluginJSONReportCodec(), vC13sEst{},
			map[cciptypes.ChainSelector]map[string]uint64{}, 900, 1<<30, 1<<40).(*execReportBuilder)
	}

	// ---- site check-msg: checkMessage — idx against len(Messages) and len(MessageTokenData)
	for _, nm := range []int{0, 1, 2, 4} {
		for _, dt := range []int{-4, -2, -1, 0, 1, 2} {
			nt := nm + dt
			if nt < 0 {
				continue
			}
			for _, idx := range []int{0, 1, nt - 1, nt, nt + 1, nm - 1, nm, nm + 1} {
				if idx < 0 {
					continue
				}
				cd := vC13sReport(ctx, nm, nt)
				code, what := vC13sRun(func() error { _, _, err := newBuilder().checkMessage(ctx, idx, cd); return err })
				emit("check-msg", cApp("SCheckMsg", cZ(int64(idx)), vC13sNat(nm), vC13sNat(nt)), code, what, map[string]any{"idx": idx, "messages": nm, "tokenData": nt})
			}
		}
	}

	// ---- site zip/5: buildSingleChainReportHelper — len(MessageTokenData) != len(Messages) before MessageTokenData[i]
	for _, nm := range []int{1, 2, 3, 5} {
		for _, dt := range []int{-2, -1, 0, 1, 2} {
			nt := nm + dt
			if nt < 0 {
				continue
			}
			cd := vC13sReport(ctx, nm, nt)
			code, what := vC13sRun(func() error {
				_, err := buildSingleChainReportHelper(ctx, mocks.NullLogger, mocks.NewMessageHasher(), cd, nil)
				return err
			})
			emit("zip5/report-token-data", cApp("SZip", cN(5), vC13sNat(nm), vC13sNat(nt)), code, what, map[string]any{"messages": nm, "tokenData": nt})
			// the whole builder on the same report: Add must answer (value or error)
			cd2 := vC13sReport(ctx, nm, nt)
			code2, what2 := vC13sRun(func() error { _, err := newBuilder().Add(ctx, cd2); return err })
			emit("builder-add", cApp("SBuilderAdd", vC13sNat(nm), vC13sNat(nt)), code2, what2, map[string]any{"messages": nm, "tokenData": nt})
		}
	}
}

type vC13sEst struct{}

func (vC13sEst) CalculateMerkleTreeGas(n int) uint64               { return uint64(10 * n) }
func (vC13sEst) CalculateMessageMaxGas(m cciptypes.Message) uint64 { return 100 }

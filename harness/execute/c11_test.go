//go:build verif

package execute

import (
	"context"
	"encoding/base64"
	"encoding/binary"
	"encoding/json"
	"fmt"
	"math/big"
	"reflect"
	"sort"
	"strconv"
	"strings"
	"testing"
	"time"

	"github.com/smartcontractkit/libocr/commontypes"
	"github.com/smartcontractkit/libocr/offchainreporting2plus/ocr3types"
	"github.com/smartcontractkit/libocr/offchainreporting2plus/types"
	libocrtypes "github.com/smartcontractkit/libocr/ragep2p/types"

	cctypes "github.com/smartcontractkit/chainlink-common/pkg/types"
	"github.com/smartcontractkit/chainlink-common/pkg/types/query"
	"github.com/smartcontractkit/chainlink-common/pkg/types/query/primitives"

	"github.com/smartcontractkit/chainlink-ccip/execute/costlymessages"
	"github.com/smartcontractkit/chainlink-ccip/execute/exectypes"
	"github.com/smartcontractkit/chainlink-ccip/execute/tokendata"
	"github.com/smartcontractkit/chainlink-ccip/internal/mocks"
	"github.com/smartcontractkit/chainlink-ccip/internal/plugintypes"
	"github.com/smartcontractkit/chainlink-ccip/pkg/consts"
	"github.com/smartcontractkit/chainlink-ccip/pkg/contractreader"
	readerpkg "github.com/smartcontractkit/chainlink-ccip/pkg/reader"
	cciptypes "github.com/smartcontractkit/chainlink-ccip/pkg/types/ccipocr3"
	"github.com/smartcontractkit/chainlink-ccip/pluginconfig"
)

// ===================================================================================================
// C11 common part (identical text in harness/commit/c11_test.go and harness/execute/c11_test.go):
// role configuration, scripted chain state ("world"), fake contract reader / chain writer / price reader that
// exist only for the chains of an oracle's role, Coq printers for cfg and rstate.
// ===================================================================================================

const (
	vC11KDisc = iota + 1
	vC11KOnRampDyn
	vC11KOnRampDcc
	vC11KCurse
	vC11KNextSeq
	vC11KExpNext
	vC11KRmn
	vC11KMsgs
	vC11KFeeComp
	vC11KNative
	vC11KFeeUpd
	vC11KFeed
	vC11KFq
	vC11KReports
	vC11KExecuted
	vC11KNonces
	vC11KLink
)

type vC11Cfg struct {
	Oracles []int
	Chains  []uint64 // ascending
	F       map[uint64]int
	Readers map[uint64][]int
	Dest    uint64
	Feed    uint64
}

func (c *vC11Cfg) reads(o int, ch uint64) bool {
	for _, x := range c.Readers[ch] {
		if x == o {
			return true
		}
	}
	return false
}
func (c *vC11Cfg) role(o int) []uint64 {
	var out []uint64
	for _, ch := range c.Chains {
		if c.reads(o, ch) {
			out = append(out, ch)
		}
	}
	return out
}
func (c *vC11Cfg) sources() []uint64 {
	var out []uint64
	for _, ch := range c.Chains {
		if ch != c.Dest {
			out = append(out, ch)
		}
	}
	return out
}
func (c *vC11Cfg) coq() string {
	chains := make([]string, len(c.Chains))
	for i, ch := range c.Chains {
		rs := make([]string, len(c.Readers[ch]))
		for k, o := range c.Readers[ch] {
			rs[k] = cNi(o)
		}
		chains[i] = cPair(cN(ch), cPair(cZ(int64(c.F[ch])), cList(rs)))
	}
	os := make([]string, len(c.Oracles))
	for i, o := range c.Oracles {
		os[i] = cNi(o)
	}
	return cApp("mkCfg", cList(os), cList(chains), cN(c.Dest), cN(c.Feed))
}
func (c *vC11Cfg) homeChain() (*vHomeChain, map[commontypes.OracleID]libocrtypes.PeerID) {
	hc := vNewHomeChain()
	m := map[commontypes.OracleID]libocrtypes.PeerID{}
	for _, o := range c.Oracles {
		m[commontypes.OracleID(o)] = vPeer(o)
	}
	for _, ch := range c.Chains {
		var peers []libocrtypes.PeerID
		for _, o := range c.Readers[ch] {
			peers = append(peers, vPeer(o))
		}
		hc.SetChain(cciptypes.ChainSelector(ch), c.F[ch], peers)
	}
	return hc, m
}

// role assignments: 4..7 oracles, destination 9, sources {5,6,11}[:2..3], feed chain 7 / a source / the destination.
// shapes: full access; every chain read by a random subset of at least min(N,4) oracles; a group without destination;
// a group without feed chain; one oracle with a single source chain; one oracle with no chain at all.
func vC11GenCfg(r *vRand) *vC11Cfg {
	n := r.Range(4, 7)
	c := &vC11Cfg{F: map[uint64]int{}, Readers: map[uint64][]int{}, Dest: 9}
	for i := 0; i < n; i++ {
		c.Oracles = append(c.Oracles, i)
	}
	chains := append([]uint64{}, []uint64{5, 6, 11}[:r.Range(2, 3)]...)
	switch r.Intn(4) {
	case 0:
		c.Feed = 9
	case 1:
		c.Feed = 5
	default:
		c.Feed = 7
		chains = append(chains, 7)
	}
	chains = append(chains, 9)
	sort.Slice(chains, func(i, j int) bool { return chains[i] < chains[j] })
	c.Chains = chains
	shape := r.Intn(6)
	for _, ch := range c.Chains {
		c.F[ch] = 1
		for _, o := range c.Oracles {
			in := true
			switch shape {
			case 0:
			case 1:
				in = r.Chance(3, 4)
			case 2:
				in = !(ch == c.Dest && o >= n-2) && r.Chance(5, 6)
			case 3:
				in = !(ch == c.Feed && o >= n-2) && r.Chance(5, 6)
			case 4:
				in = o != n-1 || ch == 5
			default:
				in = o != n-1 && r.Chance(5, 6)
			}
			if in {
				c.Readers[ch] = append(c.Readers[ch], o)
			}
		}
		if len(c.Readers[ch]) == 0 {
			c.Readers[ch] = []int{0}
		}
	}
	return c
}

type vC11Rep struct {
	Root       byte
	Start, End uint64
}

type vC11World struct {
	C         *vC11Cfg
	Init      bool
	Fail      map[[2]uint64]bool
	FailList  [][2]uint64
	CursedAll bool
	Cursed    map[uint64]bool
	Enabled   []uint64
	RmnSet    bool
	Ranges    []uint64
	Tokens    []string
	Fq        []string
	Comp      map[uint64][2]*big.Int
	Native    map[uint64]int64
	Upd       map[uint64]bool
	Reports   map[uint64][]vC11Rep
	Pending   map[uint64][]vC11Rep
	NMsgs     map[uint64]int
	Senders   map[uint64]int
	// values the validators must accept from anybody (not part of the Coq input: the model ignores them)
	FeedAns  map[string]*big.Int // USD feed answer per token: regular / 0 / negative / huge
	FqVal    *big.Int            // fee-quoter token update value: regular / huge
	UpdZero  map[uint64]bool     // chains whose fee update carries a timestamp but the value 0 (the reader drops it: as if absent)
	UpdVal   *big.Int            // value of the non-empty fee updates: regular / huge
	MsgFee   *big.Int            // FeeValueJuels of every readable message: regular / 0 / nil
	MsgData  []byte              // Data of every readable message: nil / zero-length / some bytes
	NonceVal uint64              // inbound nonce of every sender: 3 / 0 / max
}

var vC11Huge = new(big.Int).Lsh(big.NewInt(1), 200)

func (w *vC11World) fails(kind int, ch uint64) bool { return w.Fail[[2]uint64{uint64(kind), ch}] }

func vC11TokenID(t string) uint64 { return uint64(t[len(t)-1]-'A') + 1 }

func vC11SortedKeys[V any](m map[uint64]V) []uint64 {
	var ks []uint64
	for k := range m {
		ks = append(ks, k)
	}
	vSortU64(ks)
	return ks
}

func vC11GenWorld(r *vRand, c *vC11Cfg, failMode int) *vC11World {
	w := &vC11World{C: c, Init: !r.Chance(1, 10), Fail: map[[2]uint64]bool{}, Cursed: map[uint64]bool{},
		Comp: map[uint64][2]*big.Int{}, Native: map[uint64]int64{}, Upd: map[uint64]bool{},
		Reports: map[uint64][]vC11Rep{}, Pending: map[uint64][]vC11Rep{}, NMsgs: map[uint64]int{}, Senders: map[uint64]int{}}
	srcs := c.sources()
	// failing calls: none / a few random (kind, chain) pairs / everything on one chain
	addFail := func(k int, ch uint64) {
		key := [2]uint64{uint64(k), ch}
		if !w.Fail[key] {
			w.Fail[key] = true
			w.FailList = append(w.FailList, key)
		}
	}
	switch failMode {
	case 1:
		for x := 0; x < r.Range(1, 3); x++ {
			addFail(r.Range(1, 17), vPick(r, c.Chains))
		}
	case 2:
		ch := vPick(r, c.Chains)
		for k := 1; k <= 17; k++ {
			addFail(k, ch)
		}
	}
	w.CursedAll = r.Chance(1, 12)
	for _, s := range srcs {
		if r.Chance(1, 8) {
			w.Cursed[s] = true
		}
	}
	for _, s := range srcs {
		if !r.Chance(1, 10) {
			w.Enabled = append(w.Enabled, s)
		}
	}
	w.RmnSet = r.Chance(2, 3)
	for _, s := range srcs {
		if r.Chance(2, 3) {
			w.Ranges = append(w.Ranges, s)
		}
	}
	w.Tokens = []string{"0x0A", "0x0B"}[:r.Range(0, 2)]
	// value classes: half of the worlds are regular throughout, the others draw every value from its boundary classes
	odd := r.Bool()
	w.FeedAns = map[string]*big.Int{}
	for i, t := range []string{"0x0A", "0x0B"} {
		w.FeedAns[t] = big.NewInt(int64(100 + i))
		if odd {
			w.FeedAns[t] = vPick(r, []*big.Int{big.NewInt(int64(100 + i)), big.NewInt(0), big.NewInt(-7), vC11Huge, big.NewInt(1)})
		}
	}
	w.FqVal, w.UpdVal, w.MsgFee, w.NonceVal = big.NewInt(9), big.NewInt(77), new(big.Int).Exp(big.NewInt(10), big.NewInt(30), nil), 3
	w.UpdZero = map[uint64]bool{}
	if odd {
		w.FqVal = vPick(r, []*big.Int{big.NewInt(9), big.NewInt(1), vC11Huge})
		w.UpdVal = vPick(r, []*big.Int{big.NewInt(77), big.NewInt(1), vC11Huge})
		w.MsgFee = vPick(r, []*big.Int{w.MsgFee, big.NewInt(0), nil, vC11Huge})
		w.MsgData = vPick(r, [][]byte{nil, {}, {1, 2, 3}})
		w.NonceVal = vPick(r, []uint64{3, 0, ^uint64(0)})
	}
	for _, t := range w.Tokens {
		if r.Bool() {
			w.Fq = append(w.Fq, t)
		}
	}
	for _, ch := range c.Chains {
		if !r.Chance(1, 8) {
			w.Comp[ch] = [2]*big.Int{big.NewInt(int64(r.Range(1, 9))), big.NewInt(int64(r.Range(0, 3)))}
			// the execute harness keeps the destination's values small: the costly-message observer prices every message
			// with them, and the model's "no message is flagged" rests on the execution cost rounding to 0
			small := !vC11FullRanges && ch == c.Dest
			if odd && !small && r.Chance(1, 3) {
				w.Comp[ch] = [2]*big.Int{vPick(r, []*big.Int{big.NewInt(1), vC11Huge}), vPick(r, []*big.Int{big.NewInt(0), vC11Huge})}
			}
			if odd && r.Chance(1, 14) {
				// values validation rejects from anybody (outside values_ok: judged for model/implementation agreement only)
				w.Comp[ch] = vPick(r, [][2]*big.Int{{big.NewInt(0), big.NewInt(1)}, {nil, big.NewInt(1)}, {big.NewInt(2), nil}, {big.NewInt(-1), big.NewInt(0)}, {big.NewInt(2), big.NewInt(-1)}})
			}
		}
		if !r.Chance(1, 6) {
			w.Native[ch] = int64(r.Range(1, 50))
			if odd && !(!vC11FullRanges && ch == c.Dest) && r.Chance(1, 4) {
				w.Native[ch] = 1 << 60
			}
			if odd && r.Chance(1, 14) {
				w.Native[ch] = 0 // a stored price of 0 with a timestamp: observed as it is, rejected by validation (outside values_ok)
			}
		}
		if ch != c.Dest && r.Chance(2, 3) {
			w.Upd[ch] = true
		} else if odd && r.Chance(1, 2) {
			w.UpdZero[ch] = true
		}
	}
	root := byte(1)
	for _, s := range srcs {
		if r.Chance(2, 3) {
			k := r.Range(1, 2)
			start := uint64(1)
			for x := 0; x < k; x++ {
				end := start + uint64(r.Range(0, 3))
				w.Reports[s] = append(w.Reports[s], vC11Rep{root, start, end})
				root++
				start = end + 1
			}
		}
		if r.Chance(2, 3) {
			end := uint64(r.Range(1, 4))
			w.Pending[s] = []vC11Rep{{root, 1, end}}
			root++
			w.NMsgs[s] = r.Range(0, int(end))
			if r.Chance(2, 3) {
				w.NMsgs[s] = int(end)
			}
			w.Senders[s] = r.Range(0, 2)
		}
	}
	if r.Chance(1, 6) {
		// the destination also holds a report of a chain the home chain does not configure (13): not observed
		w.Reports[13] = []vC11Rep{{root, 1, 2}}
	}
	return w
}

func vC11TokenList(ts []string) string {
	s := make([]string, len(ts))
	for i, t := range ts {
		s[i] = cN(vC11TokenID(t))
	}
	return cList(s)
}
func vC11Reps(m map[uint64][]vC11Rep) string {
	var items []string
	for _, ch := range vC11SortedKeys(m) {
		var l []string
		for _, rp := range m[ch] {
			l = append(l, cApp("mkCdata", cN(uint64(rp.Root)), cN(rp.Start), cN(rp.End), "[]"))
		}
		items = append(items, cPair(cN(ch), cList(l)))
	}
	return cList(items)
}
func vC11Counts(m map[uint64]int) string {
	var items []string
	for _, ch := range vC11SortedKeys(m) {
		items = append(items, cPair(cN(ch), cNi(m[ch])))
	}
	return cList(items)
}
func vC11OptZ(b *big.Int) string {
	if b == nil {
		return "None"
	}
	return cSome(cZb(b))
}

const vC11RmnCoq = "(mkRmn false false [(false, 0%N); (false, 1%N)] 1%N false false)"

// (fail list, rstate) as Coq terms; the rstate refers to the variable fl bound by the caller
func (w *vC11World) coq() (string, string) {
	fl := make([]string, len(w.FailList))
	for i, f := range w.FailList {
		fl[i] = cPair(cN(f[0]), cN(f[1]))
	}
	rmn := "rmn_none"
	if w.RmnSet {
		rmn = vC11RmnCoq
	}
	var comp, nat []string
	for _, ch := range vC11SortedKeys(w.Comp) {
		comp = append(comp, cPair(cN(ch), cPair(vC11OptZ(w.Comp[ch][0]), vC11OptZ(w.Comp[ch][1]))))
	}
	for _, ch := range vC11SortedKeys(w.Native) {
		nat = append(nat, cPair(cN(ch), cZ(w.Native[ch])))
	}
	st := cApp("mkRs", cBool(w.Init), "(fail_of fl)", cBool(w.CursedAll), cListN(vC11SortedKeys(w.Cursed)), cListN(w.Enabled), rmn,
		cListN(w.Ranges), vC11TokenList(w.Tokens), vC11TokenList(w.Fq), cList(comp), cList(nat), cListN(vC11SortedKeys(w.Upd)),
		vC11Reps(w.Reports), vC11Reps(w.Pending), vC11Counts(w.NMsgs), vC11Counts(w.Senders))
	return cList(fl), st
}

// ---------- fake contract reader: one per (oracle, chain of its role) ----------
type vC11CR struct {
	w     *vC11World
	chain uint64
}

func vC11Addr(kind byte, ch uint64) []byte { return []byte{kind, byte(ch)} }

// vC11ResultHook (used by the C13 reader-result sweep) may rewrite an answer before it is decoded into the caller's
// value; an answer that then no longer fits the caller's type is what a real contract reader reports as an error.
var vC11ResultHook func(js string) string

func vC11JSON(ret any, js string) error {
	if vC11ResultHook != nil {
		js2 := vC11ResultHook(js)
		if js2 != js {
			if err := json.Unmarshal([]byte(js2), ret); err != nil {
				return vErrNext()
			}
			return nil
		}
	}
	if err := json.Unmarshal([]byte(js), ret); err != nil {
		panic(fmt.Sprintf("verif fake reader: cannot fill %T from %s: %v", ret, js, err))
	}
	return nil
}
func vC11B64(b []byte) string { return `"` + base64.StdEncoding.EncodeToString(b) + `"` }

func (r *vC11CR) Bind(ctx context.Context, bindings []cctypes.BoundContract) error   { return nil }
func (r *vC11CR) Unbind(ctx context.Context, bindings []cctypes.BoundContract) error { return nil }
func (r *vC11CR) BatchGetLatestValues(ctx context.Context, request cctypes.BatchGetLatestValuesRequest) (cctypes.BatchGetLatestValuesResult, error) {
	return nil, vErrNext()
}

func (r *vC11CR) GetLatestValue(ctx context.Context, readIdentifier string, conf primitives.ConfidenceLevel, params, ret any) error {
	parts := strings.Split(readIdentifier, "-")
	name, method := parts[len(parts)-2], parts[len(parts)-1]
	w, d := r.w, r.w.C.Dest
	pm, _ := params.(map[string]any)
	switch name + "." + method {
	case "OffRamp." + consts.MethodNameOffRampGetAllSourceChainConfigs:
		if w.fails(vC11KDisc, d) {
			return vErrNext()
		}
		var sels, cfgs []string
		for _, s := range w.Enabled {
			sels = append(sels, strconv.FormatUint(s, 10))
			cfgs = append(cfgs, fmt.Sprintf(`{"Router":%s,"IsEnabled":true,"OnRamp":%s,"MinSeqNr":10}`, vC11B64(vC11Addr(5, d)), vC11B64(vC11Addr(1, s))))
		}
		return vC11JSON(ret, fmt.Sprintf(`{"Selectors":[%s],"SourceChainConfigs":[%s]}`, strings.Join(sels, ","), strings.Join(cfgs, ",")))
	case "OffRamp." + consts.MethodNameOffRampGetStaticConfig:
		if w.fails(vC11KDisc, d) {
			return vErrNext()
		}
		return vC11JSON(ret, fmt.Sprintf(`{"chainSelector":%d,"rmnRemote":%s,"nonceManager":%s}`, d, vC11B64(vC11Addr(4, d)), vC11B64(vC11Addr(3, d))))
	case "OffRamp." + consts.MethodNameOffRampGetDynamicConfig:
		if w.fails(vC11KDisc, d) {
			return vErrNext()
		}
		return vC11JSON(ret, fmt.Sprintf(`{"feeQuoter":%s}`, vC11B64(vC11Addr(6, d))))
	case "OffRamp." + consts.MethodNameGetSourceChainConfig:
		if w.fails(vC11KNextSeq, d) {
			return vErrNext()
		}
		s := uint64(pm["sourceChainSelector"].(cciptypes.ChainSelector))
		en := false
		for _, e := range w.Enabled {
			en = en || e == s
		}
		return vC11JSON(ret, fmt.Sprintf(`{"Router":%s,"IsEnabled":%v,"OnRamp":%s,"MinSeqNr":10}`, vC11B64(vC11Addr(5, d)), en, vC11B64(vC11Addr(1, s))))
	case "OnRamp." + consts.MethodNameOnRampGetDynamicConfig:
		if w.fails(vC11KOnRampDyn, r.chain) {
			return vErrNext()
		}
		return vC11JSON(ret, fmt.Sprintf(`{"dynamicConfig":{"feeQuoter":%s}}`, vC11B64(vC11Addr(6, r.chain))))
	case "OnRamp." + consts.MethodNameOnRampGetDestChainConfig:
		if w.fails(vC11KOnRampDcc, r.chain) {
			return vErrNext()
		}
		return vC11JSON(ret, fmt.Sprintf(`{"router":%s}`, vC11B64(vC11Addr(5, r.chain))))
	case "OnRamp." + consts.MethodNameGetExpectedNextSequenceNumber:
		if w.fails(vC11KExpNext, r.chain) {
			return vErrNext()
		}
		return vC11JSON(ret, "21")
	case "RMNRemote." + consts.MethodNameGetCursedSubjects:
		if w.fails(vC11KCurse, d) {
			return vErrNext()
		}
		var subj []string
		b16 := func(ch uint64) string {
			var a [16]byte
			binary.BigEndian.PutUint64(a[8:], ch)
			s := make([]string, 16)
			for i, x := range a {
				s[i] = strconv.Itoa(int(x))
			}
			return "[" + strings.Join(s, ",") + "]"
		}
		if w.CursedAll {
			subj = append(subj, b16(d))
		}
		for _, ch := range vC11SortedKeys(w.Cursed) {
			subj = append(subj, b16(ch))
		}
		return vC11JSON(ret, fmt.Sprintf(`{"CursedSubjects":[%s]}`, strings.Join(subj, ",")))
	case "RMNRemote." + consts.MethodNameGetVersionedConfig:
		if w.fails(vC11KRmn, d) {
			return vErrNext()
		}
		if !w.RmnSet {
			return vC11JSON(ret, fmt.Sprintf(`{"version":0,"config":{"rmnHomeContractConfigDigest":%s,"signers":[],"f":0}}`, vC11B64(make([]byte, 32))))
		}
		dg := make([]byte, 32)
		dg[0] = 1
		return vC11JSON(ret, fmt.Sprintf(`{"version":1,"config":{"rmnHomeContractConfigDigest":%s,"signers":[{"onchainPublicKey":%s,"nodeIndex":0},{"onchainPublicKey":%s,"nodeIndex":1}],"f":1}}`,
			vC11B64(dg), vC11B64([]byte{1}), vC11B64([]byte{2})))
	case "RMNRemote." + consts.MethodNameGetReportDigestHeader:
		if w.fails(vC11KRmn, d) {
			return vErrNext()
		}
		h := cciptypes.Bytes32{}
		if w.RmnSet {
			h[0] = 2
		}
		return vC11JSON(ret, fmt.Sprintf(`{"DigestHeader":"%s"}`, h.String()))
	case "RMNProxy." + consts.MethodNameGetARM:
		if w.fails(vC11KRmn, d) {
			return vErrNext()
		}
		if !w.RmnSet {
			return vC11JSON(ret, `""`)
		}
		return vC11JSON(ret, vC11B64(vC11Addr(7, d)))
	case "Router." + consts.MethodNameRouterGetWrappedNative:
		if w.fails(vC11KNative, r.chain) {
			return vErrNext()
		}
		return vC11JSON(ret, `"0xee"`)
	case "FeeQuoter." + consts.MethodNameFeeQuoterGetTokenPrice:
		tok, _ := pm["token"].([]byte)
		if b, ok := pm["token"].(cciptypes.Bytes); ok {
			tok = b
		}
		if len(tok) == 1 && tok[0] == 0xee { // wrapped native
			if w.fails(vC11KNative, r.chain) {
				return vErrNext()
			}
			p, ok := w.Native[r.chain]
			if !ok {
				return vC11JSON(ret, `{"timestamp":0,"value":0}`)
			}
			return vC11JSON(ret, fmt.Sprintf(`{"timestamp":1700000000,"value":%d}`, p))
		}
		if w.fails(vC11KLink, d) { // LINK
			return vErrNext()
		}
		return vC11JSON(ret, `{"timestamp":1700000000,"value":1000000000000000000000}`)
	case "FeeQuoter." + consts.MethodNameFeeQuoterGetStaticConfig:
		if w.fails(vC11KLink, d) {
			return vErrNext()
		}
		return vC11JSON(ret, fmt.Sprintf(`{"maxFeeJuelsPerMsg":"1","linkToken":%s,"stalenessThreshold":1}`, vC11B64([]byte{0x11})))
	case "FeeQuoter." + consts.MethodNameGetFeePriceUpdate:
		s := uint64(pm["destChainSelector"].(cciptypes.ChainSelector))
		if w.fails(vC11KFeeUpd, s) {
			return vErrNext()
		}
		if w.UpdZero[s] {
			return vC11JSON(ret, `{"timestamp":1700000000,"value":0}`)
		}
		if !w.Upd[s] {
			return vC11JSON(ret, `{"timestamp":0,"value":0}`)
		}
		return vC11JSON(ret, fmt.Sprintf(`{"timestamp":1700000000,"value":%s}`, w.UpdVal.String()))
	case "FeeQuoter." + consts.MethodNameGetDestChainConfig:
		return vC11JSON(ret, `{"IsEnabled":false}`)
	case "NonceManager." + consts.MethodNameGetInboundNonce:
		s := uint64(pm["sourceChainSelector"].(cciptypes.ChainSelector))
		if w.fails(vC11KNonces, s) {
			return vErrNext()
		}
		return vC11JSON(ret, strconv.FormatUint(w.NonceVal, 10))
	}
	panic("verif fake reader: unscripted read " + name + "." + method)
}

func vC11FilterArgs(filter query.KeyFilter) (src uint64, lo, hi uint64) {
	for _, e := range filter.Expressions {
		c, ok := e.Primitive.(*primitives.Comparator)
		if !ok {
			continue
		}
		switch c.Name {
		case consts.EventAttributeSourceChain:
			src = uint64(c.ValueComparators[0].Value.(cciptypes.ChainSelector))
		case consts.EventAttributeSequenceNumber:
			lo = uint64(c.ValueComparators[0].Value.(cciptypes.SeqNum))
			hi = uint64(c.ValueComparators[1].Value.(cciptypes.SeqNum))
		}
	}
	return
}

// VC11FullRanges: commit harness reads complete ranges (merkle roots), execute harness reads NMsgs[chain] messages
var vC11FullRanges = false

func (r *vC11CR) QueryKey(ctx context.Context, contract cctypes.BoundContract, filter query.KeyFilter, ls query.LimitAndSort, seqType any) ([]cctypes.Sequence, error) {
	w, d := r.w, r.w.C.Dest
	newData := func() reflect.Value { return reflect.New(reflect.TypeOf(seqType).Elem()) }
	switch contract.Name + "." + filter.Key {
	case "OffRamp." + consts.EventNameCommitReportAccepted:
		if w.fails(vC11KReports, d) {
			return nil, vErrNext()
		}
		var out []cctypes.Sequence
		ts := uint64(time.Now().Unix())
		// one event per source chain report, oldest first
		for _, s := range vC11SortedKeys(w.Reports) {
			for _, rp := range w.Reports[s] {
				v := newData()
				root := cciptypes.Bytes32{rp.Root}
				if err := vC11JSON(v.Interface(), fmt.Sprintf(`{"MerkleRoots":[{"SourceChainSelector":%d,"MinSeqNr":%d,"MaxSeqNr":%d,"MerkleRoot":"%s","OnRampAddress":%s}],"PriceUpdates":{}}`,
					s, rp.Start, rp.End, root.String(), vC11B64(vC11Addr(1, s)))); err != nil {
					return nil, err
				}
				out = append(out, cctypes.Sequence{Head: cctypes.Head{Height: "5", Timestamp: ts}, Data: v.Interface()})
			}
		}
		return out, nil
	case "OffRamp." + consts.EventNameExecutionStateChanged:
		src, _, _ := vC11FilterArgs(filter)
		if w.fails(vC11KExecuted, src) {
			return nil, vErrNext()
		}
		return nil, nil
	case "OnRamp." + consts.EventNameCCIPMessageSent:
		if w.fails(vC11KMsgs, r.chain) {
			return nil, vErrNext()
		}
		_, lo, hi := vC11FilterArgs(filter)
		var out []cctypes.Sequence
		n := 0
		for seq := lo; seq <= hi; seq++ {
			if !vC11FullRanges && n >= w.NMsgs[r.chain] {
				break
			}
			n++
			msg := cciptypes.Message{
				Header: cciptypes.RampMessageHeader{MessageID: cciptypes.Bytes32{byte(r.chain), byte(seq)}, SourceChainSelector: cciptypes.ChainSelector(r.chain),
					DestChainSelector: cciptypes.ChainSelector(d), SequenceNumber: cciptypes.SeqNum(seq)},
				Sender:         []byte{byte(seq % 2)},
				Data:           w.MsgData,
				FeeValueJuels:  cciptypes.BigInt{Int: w.MsgFee},
				FeeTokenAmount: cciptypes.NewBigIntFromInt64(1),
			}
			v := newData()
			v.Elem().FieldByName("Message").Set(reflect.ValueOf(msg))
			out = append(out, cctypes.Sequence{Head: cctypes.Head{Height: "5", Timestamp: 1700000000}, Data: v.Interface()})
		}
		return out, nil
	}
	panic("verif fake reader: unscripted query " + contract.Name + "." + filter.Key)
}

var _ contractreader.ContractReaderFacade = (*vC11CR)(nil)

// ---------- fake chain writer ----------
type vC11CW struct {
	w     *vC11World
	chain uint64
}

func (c *vC11CW) Start(context.Context) error    { return nil }
func (c *vC11CW) Close() error                   { return nil }
func (c *vC11CW) Ready() error                   { return nil }
func (c *vC11CW) HealthReport() map[string]error { return nil }
func (c *vC11CW) Name() string                   { return "vC11CW" }
func (c *vC11CW) SubmitTransaction(ctx context.Context, contractName, method string, args any, transactionID string, toAddress string, meta *cctypes.TxMeta, value *big.Int) error {
	return vErrNext()
}
func (c *vC11CW) GetTransactionStatus(ctx context.Context, transactionID string) (cctypes.TransactionStatus, error) {
	return 0, vErrNext()
}
func (c *vC11CW) GetFeeComponents(ctx context.Context) (*cctypes.ChainFeeComponents, error) {
	v, ok := c.w.Comp[c.chain]
	if !ok || c.w.fails(vC11KFeeComp, c.chain) {
		return nil, vErrNext()
	}
	return &cctypes.ChainFeeComponents{ExecutionFee: v[0], DataAvailabilityFee: v[1]}, nil
}

// ---------- fake price reader (mirrors the guards of pkg/reader/price_reader.go) ----------
type vC11PR struct {
	w      *vC11World
	oracle int
}

func (p *vC11PR) GetFeedPricesUSD(ctx context.Context, tokens []cciptypes.UnknownEncodedAddress) ([]*big.Int, error) {
	prices := make([]*big.Int, len(tokens))
	if !p.w.C.reads(p.oracle, p.w.C.Feed) {
		return prices, nil
	}
	if p.w.fails(vC11KFeed, p.w.C.Feed) {
		return nil, vErrNext()
	}
	for i, t := range tokens {
		// the real price reader passes the aggregator's answer on, whatever its sign
		prices[i] = new(big.Int).Set(p.w.FeedAns[string(t)])
	}
	return prices, nil
}
func (p *vC11PR) GetFeeQuoterTokenUpdates(ctx context.Context, tokens []cciptypes.UnknownEncodedAddress, chain cciptypes.ChainSelector) (map[cciptypes.UnknownEncodedAddress]plugintypes.TimestampedBig, error) {
	out := map[cciptypes.UnknownEncodedAddress]plugintypes.TimestampedBig{}
	if !p.w.C.reads(p.oracle, uint64(chain)) {
		return nil, nil
	}
	if p.w.fails(vC11KFq, uint64(chain)) {
		return nil, vErrNext()
	}
	for _, t := range p.w.Fq {
		out[cciptypes.UnknownEncodedAddress(t)] = plugintypes.TimestampedBig{Timestamp: time.Unix(1700000000, 0).UTC(), Value: cciptypes.BigInt{Int: new(big.Int).Set(p.w.FqVal)}}
	}
	return out, nil
}

// the real ccipChainReader of oracle o: contract readers and chain writers only for the chains of its role
func vC11Reader(ctx context.Context, w *vC11World, o int) readerpkg.CCIPReader {
	crs := map[cciptypes.ChainSelector]contractreader.ContractReaderFacade{}
	cws := map[cciptypes.ChainSelector]cctypes.ContractWriter{}
	for _, ch := range w.C.role(o) {
		crs[cciptypes.ChainSelector(ch)] = &vC11CR{w: w, chain: ch}
		cws[cciptypes.ChainSelector(ch)] = &vC11CW{w: w, chain: ch}
	}
	rd := readerpkg.NewCCIPChainReader(ctx, mocks.NullLogger, crs, cws, cciptypes.ChainSelector(w.C.Dest), vC11Addr(2, w.C.Dest))
	if w.Init {
		// what the discovery outcome binds once the contracts are agreed on
		ca := readerpkg.ContractAddresses{}
		for _, ch := range w.C.Chains {
			sel := cciptypes.ChainSelector(ch)
			if ch != w.C.Dest {
				ca = ca.Append(consts.ContractNameOnRamp, sel, vC11Addr(1, ch))
			} else {
				ca = ca.Append(consts.ContractNameNonceManager, sel, vC11Addr(3, ch))
				ca = ca.Append(consts.ContractNameRMNRemote, sel, vC11Addr(4, ch))
			}
			ca = ca.Append(consts.ContractNameRouter, sel, vC11Addr(5, ch))
			ca = ca.Append(consts.ContractNameFeeQuoter, sel, vC11Addr(6, ch))
		}
		if err := rd.Sync(ctx, ca); err != nil {
			panic(err)
		}
	}
	return rd
}

// canonical discovery observation: (contract code, ascending chains), ascending codes
func vC11Disc(ca readerpkg.ContractAddresses) string {
	names := []string{"OnRamp", "OffRamp", "NonceManager", "RMNRemote", "FeeQuoter", "Router"}
	var items []string
	known := 0
	for code, n := range names {
		m, ok := ca[n]
		if !ok {
			continue
		}
		known++
		var chs []uint64
		for ch := range m {
			chs = append(chs, uint64(ch))
		}
		vSortU64(chs)
		items = append(items, cPair(cNi(code), cListN(chs)))
	}
	if known != len(ca) {
		items = append(items, cPair(cNi(99), "[]"))
	}
	return cList(items)
}

func vC11FChain(m map[cciptypes.ChainSelector]int) string {
	var ks []uint64
	for k := range m {
		ks = append(ks, uint64(k))
	}
	vSortU64(ks)
	items := make([]string, len(ks))
	for i, k := range ks {
		items[i] = cPair(cN(k), cZ(int64(m[cciptypes.ChainSelector(k)])))
	}
	return cList(items)
}

// ===================================================================================================
// execute: one real plugin per oracle (production wiring: real ccipChainReader, costly-message observer with the
// CCIP calculators, no-op token data observer), Observation of every oracle fed to ValidateObservation of every oracle
// ===================================================================================================
type vC11Gas struct{}

func (vC11Gas) CalculateMerkleTreeGas(numRequests int) uint64         { return 10 }
func (vC11Gas) CalculateMessageMaxGas(msg cciptypes.Message) uint64 { return 100 }

var _ = plugintypes.SeqNumChain{}

func vC11ExecPlugin(ctx context.Context, w *vC11World, o int) *Plugin {
	hc, m := w.C.homeChain()
	rd := vC11Reader(ctx, w, o)
	p := NewPlugin(1, ocr3types.ReportingPluginConfig{F: 1, N: len(w.C.Oracles), OracleID: commontypes.OracleID(o)},
		pluginconfig.ExecuteOffchainConfig{}, cciptypes.ChainSelector(w.C.Dest), m, rd,
		mocks.NewExecutePluginJSONReportCodec(), mocks.NewMessageHasher(), hc, &tokendata.NoopTokenDataObserver{}, vC11Gas{},
		mocks.NullLogger, costlymessages.NewObserverWithDefaults(mocks.NullLogger, true, rd, 0.5, vC11Gas{}))
	p.contractsInitialized = w.Init
	return p
}

func vC11ExecObsCoq(ob exectypes.Observation) string {
	var cr []string
	var ks []uint64
	for k := range ob.CommitReports {
		ks = append(ks, uint64(k))
	}
	vSortU64(ks)
	for _, k := range ks {
		var l []string
		for _, cd := range ob.CommitReports[cciptypes.ChainSelector(k)] {
			ex := make([]uint64, len(cd.ExecutedMessages))
			for y, s := range cd.ExecutedMessages {
				ex[y] = uint64(s)
			}
			l = append(l, cApp("mkCdata", cN(uint64(cd.MerkleRoot[0])), cN(uint64(cd.SequenceNumberRange.Start())),
				cN(uint64(cd.SequenceNumberRange.End())), cListN(ex)))
		}
		cr = append(cr, cPair(cN(k), cList(l)))
	}
	keysOK := true
	msgs := map[uint64]int{}
	for ch, inner := range ob.Messages {
		msgs[uint64(ch)] = len(inner)
		for k, mm := range inner {
			keysOK = keysOK && mm.Header.SequenceNumber == k
		}
	}
	toks := map[uint64]int{}
	for ch, inner := range ob.TokenData {
		toks[uint64(ch)] = len(inner)
	}
	nonces := map[uint64]int{}
	for ch, inner := range ob.Nonces {
		nonces[uint64(ch)] = len(inner)
	}
	return cApp("mkEobs", cList(cr), vC11Counts(msgs), cBool(keysOK), vC11Counts(toks), cNi(len(ob.CostlyMessages)),
		vC11Counts(nonces), vC11Disc(ob.Contracts.Addresses))
}

// one execute round: phase (0 GetCommitReports, 1 GetMessages, 2 Filter) and the previous outcome the plugins receive
type vC11ExecRound struct {
	phase          int
	pendingUnknown bool
	outCtx         ocr3types.OutcomeContext
}

func vC11ExecGenRound(t *testing.T, r *vRand, w *vC11World, phase int, pendingUnknown bool) vC11ExecRound {
	prev := exectypes.Outcome{State: []exectypes.PluginState{exectypes.Filter, exectypes.GetCommitReports, exectypes.GetMessages}[phase]}
	if phase == 0 && r.Bool() {
		prev.State = exectypes.Unknown
	}
	for _, ch := range vC11SortedKeys(w.Pending) {
		for _, rp := range w.Pending[ch] {
			cd := exectypes.CommitData{SourceChain: cciptypes.ChainSelector(ch), MerkleRoot: cciptypes.Bytes32{rp.Root},
				SequenceNumberRange: cciptypes.NewSeqNumRange(cciptypes.SeqNum(rp.Start), cciptypes.SeqNum(rp.End)),
				Timestamp:           time.Unix(1700000000, 0).UTC()}
			if phase == 2 {
				// the Filter phase reads the senders from the messages stored in the previous outcome
				for s := 0; s < w.Senders[ch]; s++ {
					cd.Messages = append(cd.Messages, cciptypes.Message{Sender: []byte{byte(s + 1)},
						Header: cciptypes.RampMessageHeader{SourceChainSelector: cciptypes.ChainSelector(ch), SequenceNumber: cciptypes.SeqNum(rp.Start + uint64(s))}})
				}
			}
			prev.PendingCommitReports = append(prev.PendingCommitReports, cd)
		}
	}
	prevB, err := prev.Encode()
	if err != nil {
		t.Fatal(err)
	}
	return vC11ExecRound{phase, pendingUnknown, ocr3types.OutcomeContext{SeqNr: 5, PreviousOutcome: prevB}}
}

// Observation of every oracle of the world, each fed to ValidateObservation of every oracle; one case per observer.
// mkIn builds the Coq input from (failing calls, reader state, observer)
func vC11ExecRunWorld(t *testing.T, ctx context.Context, sink *vSink, sinkName string, c *vC11Cfg, w *vC11World, plugins []*Plugin,
	rd vC11ExecRound, mkIn func(flS, stS string, o int) string, clsPre string, extra map[string]any) {
	phase, pendingUnknown, outCtx := rd.phase, rd.pendingUnknown, rd.outCtx
	flS, stS := w.coq()
	for k, o := range c.Oracles {
		var obsB []byte
		panicMsg, errMsg := "", ""
		status := func() (s string) {
			defer func() {
				if e := recover(); e != nil {
					s = "Panic"
					panicMsg = fmt.Sprint(e)
				}
			}()
			b, err := plugins[k].Observation(ctx, outCtx, nil)
			if err != nil {
				errMsg = err.Error()
				return "Err"
			}
			obsB = b
			return "Ok"
		}()
		out := status
		var verdicts []string
		nfields := 0
		if status == "Ok" {
			dec, err := exectypes.DecodeObservation(obsB)
			if err != nil {
				t.Fatal(err)
			}
			out = cApp("Ok", vC11ExecObsCoq(dec))
			nfields = len(dec.CommitReports) + len(dec.Messages) + len(dec.Nonces) + len(dec.Contracts.Addresses)
			for j := range c.Oracles {
				v := func() (s string) {
					defer func() {
						if e := recover(); e != nil {
							s = "false"
						}
					}()
					if err := plugins[j].ValidateObservation(ctx, outCtx, nil,
						types.AttributedObservation{Observation: obsB, Observer: commontypes.OracleID(o)}); err != nil {
						return "false"
					}
					return "true"
				}()
				verdicts = append(verdicts, v)
			}
		}
		in := mkIn(flS, stS, o)
		partial := len(c.role(o)) < len(c.Chains)
		cls := clsPre + []string{"getcommitreports", "getmessages", "filter"}[phase]
		if !w.Init {
			cls = clsPre + "discovery-only"
		}
		if !c.reads(o, c.Dest) {
			cls += "/no-dest"
		} else if partial {
			cls += "/partial"
		} else {
			cls += "/full"
		}
		if len(w.FailList) > 0 {
			cls += "/failing-calls"
		}
		if pendingUnknown {
			cls = "pending-unknown-chain/" + cls
		}
		show := map[string]any{"oracles": c.Oracles, "readers": c.Readers, "dest": c.Dest, "observer": o,
			"phase": phase, "init": w.Init, "failing_calls": w.FailList, "status": status, "panic": panicMsg, "error": errMsg,
			"pending": w.Pending, "reports": w.Reports, "observation": string(obsB), "verdicts": verdicts,
			"message_fee": fmt.Sprint(w.MsgFee), "message_data": fmt.Sprint(w.MsgData), "nonce_value": w.NonceVal, "fee_components": fmt.Sprint(w.Comp), "native_prices": fmt.Sprint(w.Native)}
		for kk, v := range extra {
			show[kk] = v
		}
		sink.Emit(sinkName, cls, partial && (nfields > 0 || status != "Ok"), "("+in+", "+cPair(out, cList(verdicts))+")", show)
	}
}

func TestVerif_C11_exec(t *testing.T) {
	ctx := context.Background()
	vC11FullRanges = false
	r := vNewRand(vSeed() + 1102)
	n := vEnvInt("VERIF_N", 60)
	sink := vOpenSink("C11_exec")
	defer sink.Close()
	for wi := 0; wi < n; wi++ {
		c := vC11GenCfg(r)
		failMode := r.Intn(3)
		if r.Bool() {
			failMode = 0
		}
		w := vC11GenWorld(r, c, failMode)
		phase := r.Intn(3)
		// outside the stable-home-configuration hypothesis: the previous outcome still names a chain (13) the home
		// chain does not configure; judged only for model/implementation agreement, not as a C11 violation
		pendingUnknown := r.Chance(1, 12)
		if pendingUnknown {
			w.Pending[13] = []vC11Rep{{200, 1, 2}}
			w.NMsgs[13] = 2
			w.Senders[13] = 1
		}
		rd := vC11ExecGenRound(t, r, w, phase, pendingUnknown)
		plugins := make([]*Plugin, len(c.Oracles))
		for k, o := range c.Oracles {
			plugins[k] = vC11ExecPlugin(ctx, w, o)
		}
		vC11ExecRunWorld(t, ctx, sink, "C11_exec", c, w, plugins, rd, func(flS, stS string, o int) string {
			return "let fl := " + flS + " in " + cTup(c.coq(), "fl", stS, cNi(phase), cNi(o))
		}, "", nil)
	}
}

//go:build verif

package execute

import (
	"context"
	"fmt"
	"testing"
	"time"

	"github.com/smartcontractkit/libocr/offchainreporting2plus/ocr3types"

	"github.com/smartcontractkit/chainlink-ccip/execute/exectypes"
	cciptypes "github.com/smartcontractkit/chainlink-ccip/pkg/types/ccipocr3"
)

// C13, chain-reader results (execute): every answer a contract reader gives while the execute plugin observes
// (through the real ccipChainReader, all three phases) is mutated at every JSON node in turn; Observation must
// return (value or error), never panic or hang. Uses the scripted contract readers of the C11 harness.
func TestVerif_C13_exec_reader(t *testing.T) {
	ctx := context.Background()
	vC11FullRanges = false
	r := vNewRand(vSeed() + 1316)
	worlds := vEnvInt("VERIF_N", 3)
	sink := vOpenSink("C13_reader_exec")
	defer sink.Close()
	defer func() { vC11ResultHook = nil }()
	for wi := 0; wi < worlds; wi++ {
		c := vC11GenCfg(r)
		w := vC11GenWorld(r, c, 0)
		best, bestN := c.Oracles[0], -1
		for _, o := range c.Oracles {
			if n := len(c.role(o)); n > bestN {
				best, bestN = o, n
			}
		}
		for phase := 0; phase < 3; phase++ {
			prev := exectypes.Outcome{State: []exectypes.PluginState{exectypes.Filter, exectypes.GetCommitReports, exectypes.GetMessages}[phase]}
			for _, ch := range vC11SortedKeys(w.Pending) {
				for _, rp := range w.Pending[ch] {
					cd := exectypes.CommitData{SourceChain: cciptypes.ChainSelector(ch), MerkleRoot: cciptypes.Bytes32{rp.Root},
						SequenceNumberRange: cciptypes.NewSeqNumRange(cciptypes.SeqNum(rp.Start), cciptypes.SeqNum(rp.End)),
						Timestamp:           time.Unix(1700000000, 0).UTC()}
					if phase == 2 {
						for s := 0; s < w.Senders[ch]; s++ {
							cd.Messages = append(cd.Messages, cciptypes.Message{Sender: []byte{byte(s + 1)},
								Header: cciptypes.RampMessageHeader{SourceChainSelector: cciptypes.ChainSelector(ch), SequenceNumber: cciptypes.SeqNum(rp.Start + uint64(s))}})
						}
					}
					prev.PendingCommitReports = append(prev.PendingCommitReports, cd)
				}
			}
			prevB, _ := prev.Encode()
			outCtx := ocr3types.OutcomeContext{SeqNr: 5, PreviousOutcome: prevB}
			var answers []string
			vC11ResultHook = func(js string) string { answers = append(answers, js); return js }
			p := vC11ExecPlugin(ctx, w, best)
			_, _ = p.Observation(ctx, outCtx, nil)
			vC11ResultHook = nil
			for k, js := range answers {
				tree, err := vDecodeJSON([]byte(js))
				if err != nil {
					continue
				}
				var paths [][]vPathElem
				vPaths(tree, nil, &paths)
				for _, pth := range paths {
					for _, kind := range vMutKinds {
						mv, ok := vMutate(tree, pth, kind)
						if !ok {
							continue
						}
						mjs := string(vC13Enc(mv))
						count := 0
						vC11ResultHook = func(in string) string {
							count++
							if count-1 == k {
								return mjs
							}
							return in
						}
						pl := vC11ExecPlugin(ctx, w, best)
						code, what := vGuard(3*time.Second, func() { _, _ = pl.Observation(ctx, outCtx, nil) })
						vC11ResultHook = nil
						site := fmt.Sprintf("w%d|phase%d|answer%d|%s|%s", wi, phase, k, vPathString(pth), kind)
						sink.Emit("C13_reader_exec", "reader/"+kind, true,
							cPair(cTup(cN(1), cNi(7), cNi(0), cN(vHash48(site))), cNi(code)),
							map[string]any{"world": wi, "phase": phase, "answer": k, "honest_answer": js, "path": vPathString(pth), "mutation": kind, "code": code, "panic": what})
					}
				}
			}
		}
	}
}

//go:build verif

package execute

import (
	"context"
	"encoding/json"
	"fmt"
	"testing"
	"time"

	"github.com/smartcontractkit/chainlink-common/pkg/hashutil"
	"github.com/smartcontractkit/chainlink-common/pkg/merklemulti"
	"github.com/smartcontractkit/libocr/commontypes"
	"github.com/smartcontractkit/libocr/offchainreporting2plus/ocr3types"
	"github.com/smartcontractkit/libocr/offchainreporting2plus/types"
	libocrtypes "github.com/smartcontractkit/libocr/ragep2p/types"

	"github.com/smartcontractkit/chainlink-ccip/execute/costlymessages"
	"github.com/smartcontractkit/chainlink-ccip/execute/exectypes"
	"github.com/smartcontractkit/chainlink-ccip/execute/tokendata"
	"github.com/smartcontractkit/chainlink-ccip/internal/mocks"
	"github.com/smartcontractkit/chainlink-ccip/internal/plugincommon"
	"github.com/smartcontractkit/chainlink-ccip/internal/plugincommon/discovery"
	"github.com/smartcontractkit/chainlink-ccip/pkg/consts"
	readerpkg "github.com/smartcontractkit/chainlink-ccip/pkg/reader"
	cciptypes "github.com/smartcontractkit/chainlink-ccip/pkg/types/ccipocr3"
	"github.com/smartcontractkit/chainlink-ccip/pluginconfig"
	plugintypes2 "github.com/smartcontractkit/chainlink-ccip/plugintypes"
)

const (
	vC13Dest = cciptypes.ChainSelector(900)
	vC13N    = 4
)

var vC13Sources = []cciptypes.ChainSelector{5, 7}

type vC13Gas struct{}

func (vC13Gas) CalculateMerkleTreeGas(n int) uint64                   { return uint64(1000 * n) }
func (vC13Gas) CalculateMessageMaxGas(msg cciptypes.Message) uint64 { return 50000 }

func vC13Msg(src cciptypes.ChainSelector, seq uint64) cciptypes.Message {
	return cciptypes.Message{
		Header: cciptypes.RampMessageHeader{MessageID: cciptypes.Bytes32{1, byte(src), byte(seq)}, SourceChainSelector: src,
			DestChainSelector: vC13Dest, SequenceNumber: cciptypes.SeqNum(seq), Nonce: seq},
		Sender: []byte{1}, Data: []byte{1, 2, 3}, Receiver: []byte{9}, FeeValueJuels: cciptypes.NewBigIntFromInt64(100),
		FeeToken: []byte{3}, FeeTokenAmount: cciptypes.NewBigIntFromInt64(5),
		TokenAmounts: []cciptypes.RampTokenAmount{{SourcePoolAddress: []byte{4}, DestTokenAddress: []byte{5}, Amount: cciptypes.NewBigIntFromInt64(7)}},
	}
}

type vC13Truth struct {
	cd   exectypes.CommitData
	msgs []cciptypes.Message
}

func vC13World() map[cciptypes.ChainSelector][]vC13Truth {
	base := time.Date(2024, 11, 5, 12, 0, 0, 0, time.UTC)
	w := map[cciptypes.ChainSelector][]vC13Truth{}
	for _, ch := range vC13Sources {
		start := uint64(10)
		for k := 0; k < 2; k++ {
			var msgs []cciptypes.Message
			var leaves [][32]byte
			for s := start; s < start+2; s++ {
				m := vC13Msg(ch, s)
				msgs = append(msgs, m)
				leaves = append(leaves, m.Header.MessageID)
			}
			tr, _ := merklemulti.NewTree(hashutil.NewKeccak(), leaves)
			w[ch] = append(w[ch], vC13Truth{cd: exectypes.CommitData{SourceChain: ch, Timestamp: base.Add(time.Duration(k) * time.Minute), BlockNum: uint64(100 + k),
				MerkleRoot: tr.Root(), SequenceNumberRange: cciptypes.NewSeqNumRange(cciptypes.SeqNum(start), cciptypes.SeqNum(start+1))}, msgs: msgs})
			start += 2
		}
	}
	return w
}

func vC13Plugin(me int, costly bool) *Plugin {
	hc := vNewHomeChain()
	m := map[commontypes.OracleID]libocrtypes.PeerID{}
	var peers []libocrtypes.PeerID
	for i := 0; i < vC13N; i++ {
		m[commontypes.OracleID(i)] = vPeer(i)
		peers = append(peers, vPeer(i))
	}
	hc.SetChain(vC13Dest, 1, peers)
	for _, ch := range vC13Sources {
		hc.SetChain(ch, 1, peers)
	}
	w := vC13World()
	rd := &vCCIPReader{
		CommitReportsFn: func(dest cciptypes.ChainSelector, ts time.Time, limit int) ([]plugintypes2.CommitPluginReportWithMeta, error) {
			var out []plugintypes2.CommitPluginReportWithMeta
			for _, ch := range vC13Sources {
				for _, t := range w[ch] {
					out = append(out, plugintypes2.CommitPluginReportWithMeta{Timestamp: t.cd.Timestamp, BlockNum: t.cd.BlockNum,
						Report: cciptypes.CommitPluginReport{MerkleRoots: []cciptypes.MerkleRootChain{{ChainSel: ch, SeqNumsRange: t.cd.SequenceNumberRange, MerkleRoot: t.cd.MerkleRoot}}}})
				}
			}
			return out, nil
		},
		MsgsFn: func(chain cciptypes.ChainSelector, r cciptypes.SeqNumRange) ([]cciptypes.Message, error) {
			var out []cciptypes.Message
			for _, t := range w[chain] {
				for _, m := range t.msgs {
					if r.Contains(m.Header.SequenceNumber) {
						out = append(out, m)
					}
				}
			}
			return out, nil
		},
		NoncesFn: func(s, d cciptypes.ChainSelector, addrs []string) (map[string]uint64, error) {
			out := map[string]uint64{}
			for _, a := range addrs {
				out[a] = 9
			}
			return out, nil
		},
	}
	var cm costlymessages.Observer = costlymessages.NewObserver(mocks.NullLogger, false, nil, nil)
	if costly {
		// the default calculators over a reader that answers with zero values (nil big integers, empty maps)
		cm = costlymessages.NewObserverWithDefaults(mocks.NullLogger, true, rd, 0.5, vC13Gas{})
	}
	var disc *discovery.ContractDiscoveryProcessor
	if vC13Disc > 0 {
		var cr readerpkg.CCIPReader = rd
		disc = discovery.NewContractDiscoveryProcessor(mocks.NullLogger, &cr, hc, vC13Dest, 1, m)
	}
	return &Plugin{
		discovery:             disc,
		contractsInitialized:  vC13Disc == 1,
		reportingCfg:          ocr3types.ReportingPluginConfig{F: 1, N: vC13N, OracleID: commontypes.OracleID(me)},
		offchainCfg:           pluginconfig.ExecuteOffchainConfig{BatchGasLimit: 10_000_000},
		destChain:             vC13Dest,
		ccipReader:            rd,
		reportCodec:           mocks.NewExecutePluginJSONReportCodec(),
		msgHasher:             mocks.NewMessageHasher(),
		homeChain:             hc,
		chainSupport:          plugincommon.NewChainSupport(mocks.NullLogger, hc, m, commontypes.OracleID(me), vC13Dest),
		oracleIDToP2pID:       m,
		estimateProvider:      vC13Gas{},
		tokenDataObserver:     &tokendata.NoopTokenDataObserver{},
		costlyMessageObserver: cm,
		lggr:                  mocks.NullLogger,
	}
}

// vC13Disc: 0 = no discovery processor, 1 = discovery enabled and contracts initialised, 2 = enabled, fresh instance
var vC13Disc = 0

func vC13Enc(v any) []byte {
	b, err := json.Marshal(v)
	if err != nil {
		panic(err)
	}
	return b
}

func TestVerif_C13_exec(t *testing.T) {
	ctx := context.Background()
	r := vNewRand(vSeed() + 1314)
	maxCases := 10000000
	pairsWanted := vEnvInt("VERIF_N", 300) // random double-site mutations on top of the exhaustive single-site sweep
	sink := vOpenSink("C13_exec")
	defer sink.Close()
	emitted, hangs := 0, 0
	run := func(scn string, doc int, path, kind string, cb int, cbName string, f func()) {
		if emitted >= maxCases || hangs > 8 {
			return
		}
		code, what := vGuard(3*time.Second, f)
		if code == 3 {
			hangs++
		}
		sink.Emit("C13_exec", fmt.Sprintf("doc%d/%s", doc, kind), true,
			cPair(cTup(cN(1), cNi(doc), cNi(cb), cN(vHash48(scn+"|"+path+"|"+kind+"|"+cbName))), cNi(code)),
			map[string]any{"scenario": scn, "doc": doc, "path": path, "mutation": kind, "callback": cbName, "code": code, "panic": what})
		emitted++
	}
	w := vC13World()
	defer func() { vC13Disc = 0 }()
	for _, disc := range []int{0, 1, 2} {
	vC13Disc = disc
	for _, state := range []exectypes.PluginState{exectypes.GetCommitReports, exectypes.GetMessages, exectypes.Filter} {
		scn := string(state)
		if disc > 0 {
			scn = fmt.Sprintf("disc%d/%s", disc, scn)
		}
		prev := exectypes.Outcome{}
		obs := make([]exectypes.Observation, vC13N)
		switch state {
		case exectypes.GetCommitReports:
			prev.State = exectypes.Filter
			for o := range obs {
				obs[o].CommitReports = exectypes.CommitObservations{}
				for _, ch := range vC13Sources {
					for _, t := range w[ch] {
						cd := t.cd
						cd.ExecutedMessages = []cciptypes.SeqNum{cd.SequenceNumberRange.Start()}
						obs[o].CommitReports[ch] = append(obs[o].CommitReports[ch], cd)
					}
				}
			}
		case exectypes.GetMessages:
			prev.State = exectypes.GetCommitReports
			for _, ch := range vC13Sources {
				for _, t := range w[ch] {
					prev.PendingCommitReports = append(prev.PendingCommitReports, t.cd)
				}
			}
			for o := range obs {
				obs[o].CommitReports = regroup(prev.PendingCommitReports)
				obs[o].Messages = exectypes.MessageObservations{}
				obs[o].TokenData = exectypes.TokenDataObservations{}
				for _, ch := range vC13Sources {
					obs[o].Messages[ch] = map[cciptypes.SeqNum]cciptypes.Message{}
					obs[o].TokenData[ch] = map[cciptypes.SeqNum]exectypes.MessageTokenData{}
					for _, t := range w[ch] {
						for _, m := range t.msgs {
							obs[o].Messages[ch][m.Header.SequenceNumber] = m
							obs[o].TokenData[ch][m.Header.SequenceNumber] = exectypes.NewMessageTokenData(exectypes.NewSuccessTokenData([]byte{1}))
						}
					}
				}
				obs[o].CostlyMessages = []cciptypes.Bytes32{w[5][0].msgs[0].Header.MessageID}
			}
		case exectypes.Filter:
			prev.State = exectypes.GetMessages
			for _, ch := range vC13Sources {
				for _, t := range w[ch] {
					cd := t.cd
					cd.Messages = t.msgs
					for range t.msgs {
						cd.MessageTokenData = append(cd.MessageTokenData, exectypes.NewMessageTokenData(exectypes.NewSuccessTokenData([]byte{1})))
					}
					cd.CostlyMessages = []cciptypes.Bytes32{}
					prev.PendingCommitReports = append(prev.PendingCommitReports, cd)
				}
			}
			for o := range obs {
				obs[o].Nonces = exectypes.NonceObservations{}
				for _, ch := range vC13Sources {
					obs[o].Nonces[ch] = map[string]uint64{"0x01": 9}
				}
			}
		}
		for o := range obs {
			obs[o].Contracts.FChain = map[cciptypes.ChainSelector]int{vC13Dest: 1}
			obs[o].Contracts.Addresses = readerpkg.ContractAddresses{
				consts.ContractNameOnRamp:       map[cciptypes.ChainSelector]cciptypes.UnknownAddress{},
				consts.ContractNameNonceManager: map[cciptypes.ChainSelector]cciptypes.UnknownAddress{vC13Dest: {0xD1}},
				consts.ContractNameRMNRemote:    map[cciptypes.ChainSelector]cciptypes.UnknownAddress{vC13Dest: {0xD2}},
				consts.ContractNameFeeQuoter:    map[cciptypes.ChainSelector]cciptypes.UnknownAddress{vC13Dest: {0xD3}},
				consts.ContractNameRouter:       map[cciptypes.ChainSelector]cciptypes.UnknownAddress{},
			}
			for _, ch := range vC13Sources {
				obs[o].Contracts.FChain[ch] = 1
				obs[o].Contracts.Addresses[consts.ContractNameOnRamp][ch] = cciptypes.UnknownAddress{byte(ch), 0xAA}
				obs[o].Contracts.Addresses[consts.ContractNameFeeQuoter][ch] = cciptypes.UnknownAddress{byte(ch), 0xFE}
				obs[o].Contracts.Addresses[consts.ContractNameRouter][ch] = cciptypes.UnknownAddress{byte(ch), 0xB0}
			}
		}
		prevB, _ := prev.Encode()
		obsB := make([][]byte, vC13N)
		for o := range obsB {
			obsB[o], _ = obs[o].Encode()
		}
		mkAos := func(first []byte) []types.AttributedObservation {
			aos := []types.AttributedObservation{{Observation: first, Observer: 0}}
			for o := 1; o < vC13N; o++ {
				aos = append(aos, types.AttributedObservation{Observation: obsB[o], Observer: commontypes.OracleID(o)})
			}
			return aos
		}
		octx := ocr3types.OutcomeContext{SeqNr: 5, PreviousOutcome: prevB}
		var honestOutcome ocr3types.Outcome
		run(scn, 0, "$", "none", 2, "Outcome", func() {
			out, err := vC13Plugin(1, false).Outcome(ctx, octx, nil, mkAos(obsB[0]))
			if err == nil {
				honestOutcome = out
			}
		})
		run(scn, 0, "$", "none", 0, "Observation", func() { _, _ = vC13Plugin(1, false).Observation(ctx, octx, nil) })
		var honestReports []ocr3types.ReportPlus[[]byte]
		run(scn, 3, "$", "none", 3, "Reports", func() { honestReports, _ = vC13Plugin(1, false).Reports(ctx, 5, honestOutcome) })

		sweep := func(orig []byte, apply func(path, kind string, mutated []byte)) {
			tree, err := vDecodeJSON(orig)
			if err != nil {
				return
			}
			var paths [][]vPathElem
			vPaths(tree, nil, &paths)
			for _, p := range paths {
				for _, kind := range vMutKinds {
					mv, ok := vMutate(tree, p, kind)
					if !ok {
						continue
					}
					apply(vPathString(p), kind, vC13Enc(mv))
				}
			}
		}
		sweep(obsB[0], func(path, kind string, mb []byte) {
			valid := false
			run(scn, 0, path, kind, 1, "ValidateObservation", func() {
				valid = vC13Plugin(1, false).ValidateObservation(ctx, octx, nil, types.AttributedObservation{Observation: mb, Observer: 0}) == nil
			})
			if valid {
				var out ocr3types.Outcome
				run(scn, 0, path, kind, 2, "Outcome", func() { out, _ = vC13Plugin(2, false).Outcome(ctx, octx, nil, mkAos(mb)) })
				if out != nil {
					run(scn, 0, path, kind, 3, "Reports", func() { _, _ = vC13Plugin(3, false).Reports(ctx, 5, out) })
				}
			}
		})
		// ---- random double-site mutations of oracle 0's observation
		if tree, err := vDecodeJSON(obsB[0]); err == nil {
			var paths [][]vPathElem
			vPaths(tree, nil, &paths)
			for k := 0; k < pairsWanted/3 && len(paths) > 1; k++ {
				p1, p2 := paths[r.Intn(len(paths))], paths[r.Intn(len(paths))]
				k1, k2 := vPick(r, vMutKinds), vPick(r, vMutKinds)
				m1, ok := vMutate(tree, p1, k1)
				if !ok {
					continue
				}
				m2, ok := vMutate(m1, p2, k2)
				if !ok {
					continue
				}
				mb := vC13Enc(m2)
				path, kind := vPathString(p1)+" & "+vPathString(p2), k1+"+"+k2
				valid := false
				run(scn, 0, path, kind, 1, "ValidateObservation", func() {
					valid = vC13Plugin(1, false).ValidateObservation(ctx, octx, nil, types.AttributedObservation{Observation: mb, Observer: 0}) == nil
				})
				if valid {
					run(scn, 0, path, kind, 2, "Outcome", func() { _, _ = vC13Plugin(2, false).Outcome(ctx, octx, nil, mkAos(mb)) })
				}
			}
		}
		sweep(prevB, func(path, kind string, mb []byte) {
			oc := ocr3types.OutcomeContext{SeqNr: 5, PreviousOutcome: mb}
			run(scn, 2, path, kind, 0, "Observation", func() { _, _ = vC13Plugin(1, false).Observation(ctx, oc, nil) })
			run(scn, 2, path, kind, 1, "ValidateObservation", func() {
				_ = vC13Plugin(1, false).ValidateObservation(ctx, oc, nil, types.AttributedObservation{Observation: obsB[0], Observer: 0})
			})
			run(scn, 2, path, kind, 2, "Outcome", func() { _, _ = vC13Plugin(2, false).Outcome(ctx, oc, nil, mkAos(obsB[0])) })
		})
		if honestOutcome != nil {
			sweep(honestOutcome, func(path, kind string, mb []byte) {
				run(scn, 3, path, kind, 3, "Reports", func() { _, _ = vC13Plugin(3, false).Reports(ctx, 5, mb) })
			})
		}
		for _, rp := range honestReports {
			sweep(rp.ReportWithInfo.Report, func(path, kind string, mb []byte) {
				ri := ocr3types.ReportWithInfo[[]byte]{Report: mb}
				run(scn, 4, path, kind, 5, "ShouldAccept", func() { _, _ = vC13Plugin(1, false).ShouldAcceptAttestedReport(ctx, 5, ri) })
				run(scn, 4, path, kind, 6, "ShouldTransmit", func() { _, _ = vC13Plugin(1, false).ShouldTransmitAcceptedReport(ctx, 5, ri) })
			})
		}
		for k := 0; k < 40; k++ {
			var raw []byte
			src := [][]byte{obsB[0], prevB}[k%2]
			switch k % 4 {
			case 0:
				raw = src[:r.Intn(len(src)+1)]
			case 1:
				raw = make([]byte, r.Intn(40))
				for i := range raw {
					raw[i] = byte(r.U64())
				}
			case 2:
				raw = append([]byte{}, src...)
				if len(raw) > 0 {
					raw[r.Intn(len(raw))] = byte(r.U64())
				}
			default:
				raw = []byte(vPick(r, []string{"", "null", "[]", "{}", "0", "\"x\"", "{\"State\":\"Bogus\"}", "{\"commitReports\":null}"}))
			}
			oc := ocr3types.OutcomeContext{SeqNr: 5, PreviousOutcome: raw}
			tag := fmt.Sprintf("raw%d", k)
			rawValid := false
			run(scn, 6, tag, "raw", 1, "ValidateObservation", func() {
				rawValid = vC13Plugin(1, false).ValidateObservation(ctx, octx, nil, types.AttributedObservation{Observation: raw, Observer: 0}) == nil
			})
			run(scn, 6, tag, "raw-prev", 2, "Outcome", func() { _, _ = vC13Plugin(2, false).Outcome(ctx, oc, nil, mkAos(obsB[0])) })
			if rawValid {
				run(scn, 6, tag, "raw-obs", 2, "Outcome", func() { _, _ = vC13Plugin(2, false).Outcome(ctx, octx, nil, mkAos(raw)) })
			}
			run(scn, 6, tag, "raw", 0, "Observation", func() { _, _ = vC13Plugin(2, false).Observation(ctx, oc, nil) })
			run(scn, 6, tag, "raw", 3, "Reports", func() { _, _ = vC13Plugin(2, false).Reports(ctx, 5, raw) })
			ri := ocr3types.ReportWithInfo[[]byte]{Report: raw}
			run(scn, 6, tag, "raw", 5, "ShouldAccept", func() { _, _ = vC13Plugin(1, false).ShouldAcceptAttestedReport(ctx, 5, ri) })
			run(scn, 6, tag, "raw", 6, "ShouldTransmit", func() { _, _ = vC13Plugin(1, false).ShouldTransmitAcceptedReport(ctx, 5, ri) })
		}
	}	}
}

//go:build verif

// C11 — long-lived execute plugins (one per oracle) on REAL home-chain pollers over a scripted CCIPHome whose chain
// configs change between rounds.  After every poll one round is played: every oracle observes through a real
// ccipChainReader limited to the chains of its CURRENT role and every oracle validates every observation.  The round
// is judged against the Roles model on the role map of the latest successfully fetched configuration.
package execute

import (
	"context"
	"testing"

	"github.com/smartcontractkit/libocr/commontypes"
	"github.com/smartcontractkit/libocr/offchainreporting2plus/ocr3types"

	"github.com/smartcontractkit/chainlink-ccip/execute/costlymessages"
	"github.com/smartcontractkit/chainlink-ccip/execute/tokendata"
	"github.com/smartcontractkit/chainlink-ccip/internal/mocks"
	readerpkg "github.com/smartcontractkit/chainlink-ccip/pkg/reader"
	cciptypes "github.com/smartcontractkit/chainlink-ccip/pkg/types/ccipocr3"
	"github.com/smartcontractkit/chainlink-ccip/pluginconfig"
)

// the plugin keeps one CCIPReader for its lifetime; what it can reach (contract readers / chain writers of the chains
// of the oracle's current role) is replaced underneath between rounds
type vC11HSwap struct{ readerpkg.CCIPReader }

func vC11FromRH(h *vRHCfg) *vC11Cfg {
	c := h.clone()
	return &vC11Cfg{Oracles: c.Oracles, Chains: c.Chains, F: c.F, Readers: c.Readers, Dest: c.Dest, Feed: c.Feed}
}

// initial role map: the C11 generator restricted to DONs of 4 or 7 oracles
func vC11HGenCfg(r *vRand) *vRHCfg {
	for {
		c := vC11GenCfg(r)
		if len(c.Oracles) == 4 || len(c.Oracles) == 7 {
			return (&vRHCfg{Oracles: c.Oracles, Chains: c.Chains, F: c.F, Readers: c.Readers, Dest: c.Dest, Feed: c.Feed}).clone()
		}
	}
}

func vC11HClass(st int, chg *vRHChange) string {
	if st == 0 || chg == nil {
		return "first-poll/"
	}
	return chg.Kind + "/"
}

func TestVerif_C11_exec_hist(t *testing.T) {
	ctx := context.Background()
	vC11FullRanges = false
	r := vNewRand(vSeed() + 1112)
	n := vEnvInt("VERIF_N", 10) // histories
	sink := vOpenSink("C11_exec_hist")
	defer sink.Close()
	api := vOpenSink("C11_exec_api")
	defer api.Close()
	for hi := 0; hi < n; hi++ {
		base := vC11HGenCfg(r)
		don := vRHNewDon(t, r, base)
		onchain, eff := base.clone(), base.clone()
		N := len(base.Oracles)
		swaps := make([]*vC11HSwap, N)
		plugins := make([]*Plugin, N)
		for k, o := range base.Oracles {
			swaps[k] = &vC11HSwap{}
			plugins[k] = NewPlugin(1, ocr3types.ReportingPluginConfig{F: 1, N: N, OracleID: commontypes.OracleID(o)},
				pluginconfig.ExecuteOffchainConfig{}, cciptypes.ChainSelector(base.Dest), don.p2p, swaps[k],
				mocks.NewExecutePluginJSONReportCodec(), mocks.NewMessageHasher(), don.hcs[k], &tokendata.NoopTokenDataObserver{}, vC11Gas{},
				mocks.NullLogger, costlymessages.NewObserverWithDefaults(mocks.NullLogger, true, swaps[k], 0.5, vC11Gas{}))
		}
		steps := r.Range(5, 8)
		kinds := vRHPlan(r, hi, steps)
		var chg *vRHChange
		for st := 0; st <= steps; st++ {
			prevEff := eff
			if st > 0 {
				onchain, chg = vRHMutate(r, onchain, kinds[st-1], true, []uint64{5, 6, 7, 11})
				don.apply(t, onchain, chg.Failed)
				if !chg.Failed {
					eff = onchain.clone()
				}
			}
			c := vC11FromRH(eff)
			failMode := r.Intn(3)
			if r.Bool() || len(c.Chains) == 0 {
				failMode = 0
			}
			w := vC11GenWorld(r, c, failMode)
			phase := r.Intn(3)
			// leftover previous outcome: a chain the home chain configured in the previous round (and no longer does) is
			// still named by the pending reports — outside the stable-home-configuration hypothesis, judged for
			// model/implementation agreement only
			pendingUnknown := false
			for _, ch := range prevEff.Chains {
				if !eff.has(ch) && r.Chance(1, 2) {
					pendingUnknown = true
					w.Pending[ch] = []vC11Rep{{200, 1, 2}}
					w.NMsgs[ch] = 2
					w.Senders[ch] = 1
				}
			}
			for k, o := range c.Oracles {
				swaps[k].CCIPReader = vC11Reader(ctx, w, o)
				plugins[k].contractsInitialized = w.Init
			}
			rd := vC11ExecGenRound(t, r, w, phase, pendingUnknown)
			ctxS := don.coqCtx(eff)
			extra := map[string]any{"history": hi, "step": st, "polls": don.shows}
			if chg != nil {
				extra["change"] = chg
			}
			vC11ExecRunWorld(t, ctx, sink, "C11_exec_hist", c, w, plugins, rd, func(flS, stS string, o int) string {
				return cPair(ctxS, "let fl := "+flS+" in "+cTup("fl", stS, cNi(phase), cNi(o)))
			}, vC11HClass(st, chg), extra)
			inst := 0
			if st%2 == 1 {
				inst = r.Intn(N)
			}
			don.queryAll(api, "C11_exec_api", eff, inst, vC11HClass(st, chg), map[string]any{"history": hi, "step": st})
		}
		don.close()
	}
}

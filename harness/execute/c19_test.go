//go:build verif

package execute

// C19 at the plugin boundary: an execute.Plugin whose tokenDataObserver is
// NewCompositeObservers(NewBackgroundObserver(gate-controlled observer)); getMessagesObservation twice
// (first: nothing fetched yet, must answer at once with placeholders; then the gate opens; second: the data),
// then Plugin.Close, after which no goroutine of the observer is left.

import (
	"context"
	"errors"
	"fmt"
	"runtime"
	"testing"
	"time"

	"github.com/smartcontractkit/libocr/commontypes"
	"github.com/smartcontractkit/libocr/offchainreporting2plus/ocr3types"
	libocrtypes "github.com/smartcontractkit/libocr/ragep2p/types"

	"github.com/smartcontractkit/chainlink-ccip/execute/costlymessages"
	"github.com/smartcontractkit/chainlink-ccip/execute/exectypes"
	"github.com/smartcontractkit/chainlink-ccip/execute/tokendata"
	"github.com/smartcontractkit/chainlink-ccip/internal/mocks"
	cciptypes "github.com/smartcontractkit/chainlink-ccip/pkg/types/ccipocr3"
)

type vC19PCall struct {
	seq uint64
	ch  chan exectypes.MessageTokenData
}
type vC19PUnder struct{ arrivals chan vC19PCall }

func (u *vC19PUnder) Observe(ctx context.Context, obs exectypes.MessageObservations) (exectypes.TokenDataObservations, error) {
	for chain, bySeq := range obs {
		for seq := range bySeq {
			ch := make(chan exectypes.MessageTokenData, 1)
			u.arrivals <- vC19PCall{uint64(seq), ch}
			select {
			case d := <-ch:
				return exectypes.TokenDataObservations{chain: {seq: d}}, nil
			case <-ctx.Done():
				return nil, ctx.Err()
			}
		}
	}
	return nil, errors.New("verif: empty fetch")
}
func (u *vC19PUnder) IsTokenSupported(_ cciptypes.ChainSelector, tok cciptypes.RampTokenAmount) bool {
	return len(tok.ExtraData) > 0 && tok.ExtraData[0] == 1
}
func (u *vC19PUnder) Close() error { return nil }

func vC19PTd(d exectypes.MessageTokenData) string {
	return cMap(d.TokenData, func(t exectypes.TokenData) string {
		dn := uint64(0)
		if len(t.Data) > 0 {
			dn = uint64(t.Data[0])
		}
		return cApp("mkT", cBool(t.Ready), cBool(t.Supported), cN(dn))
	})
}

func TestVerif_C19_plugin(t *testing.T) {
	r := vNewRand(vSeed() + 1904)
	n := vEnvInt("VERIF_N", 12)
	sink := vOpenSink("C19_plugin")
	defer sink.Close()
	const src, dest = cciptypes.ChainSelector(10), cciptypes.ChainSelector(900)
	for i := 0; i < n; i++ {
		W := r.Range(1, 3)
		k := r.Range(1, 5) // more messages than workers on purpose
		var msgs []cciptypes.Message
		var msgsCoq, dataCoq []string
		answers := map[uint64]exectypes.MessageTokenData{}
		for s := 1; s <= k; s++ {
			nt := r.Range(0, 3)
			toks := make([]cciptypes.RampTokenAmount, nt)
			td := make([]exectypes.TokenData, nt)
			sup := make([]bool, nt)
			for j := range toks {
				sup[j] = r.Chance(2, 3)
				b := byte(0)
				if sup[j] {
					b = 1
					td[j] = exectypes.TokenData{Ready: true, Supported: true, Data: cciptypes.Bytes{byte(10*s + j + 1)}}
				} else {
					td[j] = exectypes.NotSupportedTokenData()
				}
				toks[j] = cciptypes.RampTokenAmount{ExtraData: cciptypes.Bytes{b}, Amount: cciptypes.NewBigIntFromInt64(1)}
			}
			var id cciptypes.Bytes32
			id[0], id[31] = 0xc9, byte(s)
			msgs = append(msgs, cciptypes.Message{Header: cciptypes.RampMessageHeader{MessageID: id, SourceChainSelector: src,
				DestChainSelector: dest, SequenceNumber: cciptypes.SeqNum(s)}, TokenAmounts: toks})
			answers[uint64(s)] = exectypes.MessageTokenData{TokenData: td}
			msgsCoq = append(msgsCoq, cApp("mkM", cNi(s), cN(uint64(src)), cNi(s), cMap(sup, cBool)))
			dataCoq = append(dataCoq, vC19PTd(answers[uint64(s)]))
		}
		under := &vC19PUnder{arrivals: make(chan vC19PCall, 64)}
		runtime.Gosched()
		base := runtime.NumGoroutine()
		tdo := tokendata.NewCompositeObservers(mocks.NullLogger,
			tokendata.NewBackgroundObserver(mocks.NullLogger, under, W, time.Hour, time.Hour, 5*time.Second))
		hc := vNewHomeChain()
		me := commontypes.OracleID(1)
		hc.SetChain(dest, 1, []libocrtypes.PeerID{vPeer(1)})
		hc.SetChain(src, 1, []libocrtypes.PeerID{vPeer(1)})
		p := &Plugin{
			reportingCfg:          ocr3types.ReportingPluginConfig{OracleID: me},
			destChain:             dest,
			ccipReader:            &vCCIPReader{MsgsFn: func(cciptypes.ChainSelector, cciptypes.SeqNumRange) ([]cciptypes.Message, error) { return msgs, nil }},
			homeChain:             hc,
			oracleIDToP2pID:       map[commontypes.OracleID]libocrtypes.PeerID{me: vPeer(1)},
			tokenDataObserver:     tdo,
			costlyMessageObserver: costlymessages.NewObserver(mocks.NullLogger, false, nil, nil),
			lggr:                  mocks.NullLogger,
		}
		prev := exectypes.Outcome{PendingCommitReports: []exectypes.CommitData{{SourceChain: src,
			SequenceNumberRange: cciptypes.NewSeqNumRange(1, cciptypes.SeqNum(k)), Timestamp: time.Unix(1700000000, 0)}}}
		observe := func() string {
			type res struct {
				o   exectypes.Observation
				err error
			}
			done := make(chan res, 1)
			go func() {
				o, err := p.getMessagesObservation(context.Background(), prev, exectypes.Observation{})
				done <- res{o, err}
			}()
			// the call normally returns within microseconds; "Blocked" is decided by a watch (3 s AND this goroutine has
			// itself been scheduled all along), never by a short wall-clock timeout
			rr, ok := vRecvW(done, 3*time.Second)
			if !ok {
				return "Blocked"
			}
			if rr.err != nil {
				return "ObsErr"
			}
			ents := make([]string, 0, k)
			for s := 1; s <= k; s++ {
				d, ok := rr.o.TokenData[src][cciptypes.SeqNum(s)]
				if !ok || len(rr.o.Messages[src]) != k {
					continue
				}
				ents = append(ents, cTup(cN(uint64(src)), cNi(s), vC19PTd(d)))
			}
			return cApp("Done", cList(ents))
		}
		first := observe()
		// the gate opens: every fetch that arrives is answered, until all k messages have been fetched
		fetched := 0
		for fetched < k {
			c, ok := vRecvW(under.arrivals, 5*time.Second)
			if !ok {
				break
			}
			c.ch <- answers[c.seq]
			fetched++
		}
		// The worker stores the data a moment after its fetch returned; asking in between would queue the message again.
		// No sleep decides when that moment has passed: W sentinel messages (ids nobody else uses) are handed to the
		// observer and HELD at the gate until W of them are there - then every one of the W workers holds one, so every
		// worker has finished the job it had before, including the store.  The sentinels are answered "not ready"
		// (nothing is cached for them) and are not counted.
		if fetched == k && first != "Blocked" {
			var held []vC19PCall
			go func() { // on its own goroutine: an Observe that waits for a free worker must not stop the harness
				for j := 0; j < W; j++ {
					var id cciptypes.Bytes32
					id[0], id[30], id[31] = 0xc9, 0xee, byte(j)
					seq := cciptypes.SeqNum(1000 + j)
					sm := cciptypes.Message{Header: cciptypes.RampMessageHeader{MessageID: id, SourceChainSelector: src,
						DestChainSelector: dest, SequenceNumber: seq},
						TokenAmounts: []cciptypes.RampTokenAmount{{ExtraData: cciptypes.Bytes{1}, Amount: cciptypes.NewBigIntFromInt64(1)}}}
					_, _ = tdo.Observe(context.Background(), exectypes.MessageObservations{src: {seq: sm}})
				}
			}()
			for len(held) < W {
				c, ok := vRecvW(under.arrivals, 5*time.Second)
				if !ok {
					break
				}
				if c.seq >= 1000 {
					held = append(held, c)
					continue
				}
				c.ch <- answers[c.seq] // a fetch nobody expects: answered and counted (the model expects none)
				fetched++
			}
			for _, c := range held {
				c.ch <- exectypes.MessageTokenData{TokenData: []exectypes.TokenData{{Ready: false, Supported: true}}}
			}
		}
		second := observe()
		// a fetch nobody expects must not hang the run: answer and count it (the model expects none)
		stray := make(chan int, 1)
		stop := make(chan struct{})
		go func() {
			extra := 0
			for {
				select {
				case c := <-under.arrivals:
					if c.seq >= 1000 {
						c.ch <- exectypes.MessageTokenData{TokenData: []exectypes.TokenData{{Ready: false, Supported: true}}}
						continue
					}
					c.ch <- answers[c.seq]
					extra++
				case <-stop:
					stray <- extra
					return
				}
			}
		}()
		time.Sleep(time.Millisecond) // only gives an unexpected fetch a chance to show up; none is expected
		closeDone := make(chan struct{})
		go func() { _ = p.Close(); close(closeDone) }()
		// Close stops idle workers: microseconds. "Did not return" and "goroutines left" are decided by watches.
		_, closeOK := vRecvW(closeDone, 10*time.Second)
		close(stop)
		fetched += <-stray
		noLeak := vAwait(10*time.Second, func() bool { return runtime.NumGoroutine() <= base })
		in := cTup(cNi(W), cList(msgsCoq), cList(dataCoq))
		out := cTup(cApp("OObs", first), cApp("OObs", second), cNi(fetched), cBool(closeOK), cBool(noLeak))
		sink.Emit("plugin", fmt.Sprintf("w%d", W), k > W, cPair(in, out), fmt.Sprintf("workers=%d msgs=%d fetched=%d", W, k, fetched))
	}
}

//go:build verif

package execute

import (
	"context"
	"sort"
	"testing"
	"time"

	mapset "github.com/deckarep/golang-set/v2"
	commonconfig "github.com/smartcontractkit/chainlink-common/pkg/config"
	"github.com/smartcontractkit/libocr/commontypes"
	"github.com/smartcontractkit/libocr/offchainreporting2plus/ocr3types"
	libocrtypes "github.com/smartcontractkit/libocr/ragep2p/types"

	"github.com/smartcontractkit/chainlink-ccip/execute/exectypes"
	"github.com/smartcontractkit/chainlink-ccip/internal/mocks"
	readerpkg "github.com/smartcontractkit/chainlink-ccip/pkg/reader"
	cciptypes "github.com/smartcontractkit/chainlink-ccip/pkg/types/ccipocr3"
	"github.com/smartcontractkit/chainlink-ccip/pluginconfig"
	plugintypes2 "github.com/smartcontractkit/chainlink-ccip/plugintypes"
)

type vC15Support struct {
	known    []cciptypes.ChainSelector
	knownErr bool
}

func (s vC15Support) DestChain() cciptypes.ChainSelector { return 900 }
func (s vC15Support) SupportedChains(commontypes.OracleID) (mapset.Set[cciptypes.ChainSelector], error) {
	return mapset.NewSet[cciptypes.ChainSelector](), nil
}
func (s vC15Support) SupportsDestChain(commontypes.OracleID) (bool, error) { return true, nil }
func (s vC15Support) KnownSourceChainsSlice() ([]cciptypes.ChainSelector, error) {
	if s.knownErr {
		return nil, vErr
	}
	return append([]cciptypes.ChainSelector{}, s.known...), nil
}

// the scripted remote: what is cursed right now; answers like the real reader (only for the chains asked about)
type vC15Remote struct {
	fails, global, dest bool
	cursed              map[uint64]bool
}

func (m *vC15Remote) Fn(dest cciptypes.ChainSelector, src []cciptypes.ChainSelector) (*readerpkg.CurseInfo, error) {
	if m.fails {
		return nil, vErr
	}
	ci := &readerpkg.CurseInfo{CursedSourceChains: map[cciptypes.ChainSelector]bool{}, CursedDestination: m.global || m.dest, GlobalCurse: m.global}
	for _, c := range src {
		ci.CursedSourceChains[c] = m.cursed[uint64(c)]
	}
	return ci, nil
}
func (m *vC15Remote) Coq() string {
	var cs []uint64
	for c, b := range m.cursed {
		if b {
			cs = append(cs, c)
		}
	}
	vSortU64(cs)
	return cTup(cBool(m.fails), cBool(m.global), cBool(m.dest), cListN(cs))
}
func vC15GenRemote(r *vRand, chains []uint64) (*vC15Remote, string) {
	m := &vC15Remote{cursed: map[uint64]bool{}}
	cls := vPick(r, []string{"clean", "clean", "global", "dest", "fails", "one", "some", "all", "unrelated"})
	switch cls {
	case "global":
		m.global = true
	case "dest":
		m.dest = true
	case "fails":
		m.fails = true
	case "one":
		if len(chains) > 0 {
			m.cursed[vPick(r, chains)] = true
		}
	case "some":
		for _, c := range chains {
			if r.Bool() {
				m.cursed[c] = true
			}
		}
	case "all":
		for _, c := range chains {
			m.cursed[c] = true
		}
	case "unrelated":
		m.cursed[777] = true
		m.cursed[1<<64-1] = true
	}
	if r.Chance(1, 10) && len(chains) > 0 { // a source curse on top of whatever else
		m.cursed[vPick(r, chains)] = true
	}
	return m, cls
}

func vC15ExecPlugin(sup int, cs vC15Support, rd readerpkg.CCIPReader) *Plugin {
	hc := vNewHomeChain()
	me := commontypes.OracleID(1)
	m := map[commontypes.OracleID]libocrtypes.PeerID{me: vPeer(1)}
	switch sup {
	case 0:
		hc.SetChain(900, 1, []libocrtypes.PeerID{vPeer(2)})
	case 1:
		hc.SetChain(900, 1, []libocrtypes.PeerID{vPeer(1)})
	default:
		hc.CfgErr = true
	}
	return &Plugin{
		reportingCfg:    ocr3types.ReportingPluginConfig{OracleID: me},
		offchainCfg:     pluginconfig.ExecuteOffchainConfig{MessageVisibilityInterval: *commonconfig.MustNewDuration(time.Hour)},
		destChain:       900,
		ccipReader:      rd,
		reportCodec:     mocks.NewExecutePluginJSONReportCodec(),
		homeChain:       hc,
		chainSupport:    cs,
		oracleIDToP2pID: m,
		lggr:            mocks.NullLogger,
	}
}

// phase 1 of the execute observation (getCommitReportsObservation) under a scripted curse reader
func TestVerif_C15_observe_exec(t *testing.T) {
	ctx := context.Background()
	r := vNewRand(vSeed() + 17)
	n := vEnvInt("VERIF_N", 300)
	sink := vOpenSink("C15_obs_exec")
	defer sink.Close()
	pool := []uint64{1, 2, 3, 5, 8, 13, 1<<64 - 2}
	i := 0
	for i < n {
		k := r.Range(0, 5)
		perm := r.Perm(len(pool))
		var known []uint64
		for x := 0; x < k; x++ {
			known = append(known, pool[perm[x]])
		}
		cs := vC15Support{knownErr: r.Chance(1, 10)}
		for _, c := range known {
			cs.known = append(cs.known, cciptypes.ChainSelector(c))
		}
		sup := vPick(r, []int{1, 1, 1, 1, 0, 2})
		rem := &vC15Remote{}
		var pending []uint64
		counts := map[uint64]int{}
		pendErr := false
		rd := &vCCIPReader{
			CurseFn: func(d cciptypes.ChainSelector, s []cciptypes.ChainSelector) (*readerpkg.CurseInfo, error) { return rem.Fn(d, s) },
			CommitReportsFn: func(dest cciptypes.ChainSelector, ts time.Time, limit int) ([]plugintypes2.CommitPluginReportWithMeta, error) {
				if pendErr {
					return nil, vErr
				}
				var out []plugintypes2.CommitPluginReportWithMeta
				for _, c := range pending {
					for x := 0; x < counts[c]; x++ {
						out = append(out, plugintypes2.CommitPluginReportWithMeta{
							Timestamp: time.Unix(1000+int64(x), 0), BlockNum: uint64(10 + x),
							Report: cciptypes.CommitPluginReport{MerkleRoots: []cciptypes.MerkleRootChain{{
								ChainSel:     cciptypes.ChainSelector(c),
								SeqNumsRange: cciptypes.NewSeqNumRange(cciptypes.SeqNum(1+10*x), cciptypes.SeqNum(10+10*x)),
								MerkleRoot:   cciptypes.Bytes32{byte(x + 1)}}}}})
					}
				}
				return out, nil
			},
		}
		p := vC15ExecPlugin(sup, cs, rd)
		steps := r.Range(1, 4)
		for st := 0; st < steps && i < n; st++ {
			// commit reports on the destination: mostly known sources, sometimes a chain outside the known list
			pending = pending[:0]
			counts = map[uint64]int{}
			for _, c := range known {
				if r.Chance(2, 3) {
					pending = append(pending, c)
					counts[c] = r.Range(1, 3)
				}
			}
			outside := r.Chance(1, 8)
			if outside {
				pending = append(pending, 21)
				counts[21] = 1
			}
			pendErr = r.Chance(1, 12)
			var cls string
			rem, cls = vC15GenRemote(r, append(append([]uint64{}, known...), pending...))
			if outside && r.Bool() {
				rem.cursed[21] = true
				cls += "+unknown-cursed"
			}
			obs, err := p.getCommitReportsObservation(ctx, exectypes.Observation{})
			out := cNone()
			if err == nil {
				var keys []uint64
				for c := range obs.CommitReports {
					keys = append(keys, uint64(c))
				}
				sort.Slice(keys, func(a, b int) bool { return keys[a] < keys[b] })
				xs := make([]string, len(keys))
				for x, c := range keys {
					xs[x] = cPair(cN(c), cNi(len(obs.CommitReports[cciptypes.ChainSelector(c)])))
				}
				out = cSome(cList(xs))
			}
			knownQ := cNone()
			if !cs.knownErr {
				knownQ = cSome(cListN(known))
			}
			pendQ := cNone()
			if !pendErr {
				ps := append([]uint64{}, pending...)
				vSortU64(ps)
				pendQ = cSome(cMap(ps, func(c uint64) string { return cPair(cN(c), cNi(counts[c])) }))
			}
			if st > 0 {
				cls = "history/" + cls
			}
			in := cTup(cNi(sup), knownQ, rem.Coq(), pendQ)
			sink.Emit("C15_obs_exec", cls, len(pending) >= 2 && sup == 1, cPair(in, out),
				map[string]any{"known": known, "pending": pending, "sup": sup, "step": st})
			i++
		}
	}
}

func TestVerif_C15_accept_exec(t *testing.T) {
	ctx := context.Background()
	r := vNewRand(vSeed() + 18)
	n := vEnvInt("VERIF_N", 300)
	sink := vOpenSink("C15_acc_exec")
	defer sink.Close()
	codec := mocks.NewExecutePluginJSONReportCodec()
	pool := []uint64{1, 2, 3, 5, 8, 13, 1<<64 - 2}
	i := 0
	for i < n {
		rem := &vC15Remote{}
		rd := &vCCIPReader{CurseFn: func(d cciptypes.ChainSelector, s []cciptypes.ChainSelector) (*readerpkg.CurseInfo, error) { return rem.Fn(d, s) }}
		p := vC15ExecPlugin(1, vC15Support{}, rd)
		steps := r.Range(1, 4)
		for st := 0; st < steps && i < n; st++ {
			k := vPick(r, []int{0, 1, 1, 2, 3})
			perm := r.Perm(len(pool))
			var srcs []uint64
			for x := 0; x < k; x++ {
				srcs = append(srcs, pool[perm[x]])
			}
			if k >= 2 && r.Chance(1, 6) {
				srcs[1] = srcs[0]
			}
			var cls string
			rem, cls = vC15GenRemote(r, srcs)
			rep := cciptypes.ExecutePluginReport{}
			for _, c := range srcs {
				rep.ChainReports = append(rep.ChainReports, cciptypes.ExecutePluginReportSingleChain{SourceChainSelector: cciptypes.ChainSelector(c)})
			}
			rb, err := codec.Encode(ctx, rep)
			if err != nil {
				t.Fatal(err)
			}
			ok, err := p.ShouldAcceptAttestedReport(ctx, 1, ocr3types.ReportWithInfo[[]byte]{Report: rb})
			o := 0
			if err != nil {
				o = 2
			} else if ok {
				o = 1
			}
			if st > 0 {
				cls = "history/" + cls
			}
			in := cTup(cNi(1), cListN(srcs), rem.Coq(), cTup(cNi(0), cNi(0), cNi(0), "true", "false", cNi(0)))
			sink.Emit("C15_acc_exec", cls, len(srcs) > 0, cPair(in, cNi(o)), map[string]any{"srcs": srcs, "step": st})
			i++
		}
	}
}

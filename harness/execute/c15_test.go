//go:build verif

package execute

import (
	"context"
	"encoding/binary"
	"fmt"
	"reflect"
	"sort"
	"testing"
	"time"

	mapset "github.com/deckarep/golang-set/v2"
	commonconfig "github.com/smartcontractkit/chainlink-common/pkg/config"
	cctypes "github.com/smartcontractkit/chainlink-common/pkg/types"
	"github.com/smartcontractkit/chainlink-common/pkg/types/query"
	"github.com/smartcontractkit/chainlink-common/pkg/types/query/primitives"
	"github.com/smartcontractkit/libocr/commontypes"
	"github.com/smartcontractkit/libocr/offchainreporting2plus/ocr3types"
	libocrtypes "github.com/smartcontractkit/libocr/ragep2p/types"

	"github.com/smartcontractkit/chainlink-ccip/execute/costlymessages"
	"github.com/smartcontractkit/chainlink-ccip/execute/exectypes"
	"github.com/smartcontractkit/chainlink-ccip/execute/tokendata"
	"github.com/smartcontractkit/chainlink-ccip/internal/mocks"
	"github.com/smartcontractkit/chainlink-ccip/pkg/consts"
	"github.com/smartcontractkit/chainlink-ccip/pkg/contractreader"
	readerpkg "github.com/smartcontractkit/chainlink-ccip/pkg/reader"
	cciptypes "github.com/smartcontractkit/chainlink-ccip/pkg/types/ccipocr3"
	"github.com/smartcontractkit/chainlink-ccip/pluginconfig"
	plugintypes2 "github.com/smartcontractkit/chainlink-ccip/plugintypes"
)

type vC15Support struct {
	known    []cciptypes.ChainSelector
	knownErr bool
}

func (s vC15Support) DestChain() cciptypes.ChainSelector { return 900 }
func (s vC15Support) SupportedChains(commontypes.OracleID) (mapset.Set[cciptypes.ChainSelector], error) {
	return mapset.NewSet[cciptypes.ChainSelector](), nil
}
func (s vC15Support) SupportsDestChain(commontypes.OracleID) (bool, error) { return true, nil }
func (s vC15Support) KnownSourceChainsSlice() ([]cciptypes.ChainSelector, error) {
	if s.knownErr {
		return nil, vErrNext()
	}
	return append([]cciptypes.ChainSelector{}, s.known...), nil
}

// the scripted remote: what is cursed right now and how the curse read behaves.
// real == false: scripted CCIPReader answer (like the real reader: only for the chains asked about); a failing read
//
//	ranges over error KINDS (plain, wrapping reader.ErrContractReaderNotFound, wrapping contractreader.ErrNoBindings,
//	context deadline / cancellation).
//
// real == true: the answer comes from the REAL ccipChainReader.GetRmnCurseInfo over a scripted contract reader of the
//
//	destination: state "noreader" (no destination reader at all), "unbound" (reader present, RMNRemote not bound),
//	"rpc-plain" / "rpc-ctx" (bound, the call fails), "bound" (bound, returns the cursed subjects on chain).
//
// For the model every failing read is the one value fails = true.
type vC15Remote struct {
	fails, global, dest bool
	cursed              map[uint64]bool
	real                bool
	kind                string
}

type vC15Facade struct {
	subjects [][16]byte
	err      error
}

func (f *vC15Facade) GetLatestValue(ctx context.Context, id string, c primitives.ConfidenceLevel, params, ret any) error {
	if f.err != nil {
		return f.err
	}
	fld := reflect.ValueOf(ret).Elem().FieldByName("CursedSubjects")
	if !fld.IsValid() {
		return fmt.Errorf("verif: unexpected read %s", id)
	}
	fld.Set(reflect.ValueOf(f.subjects))
	return nil
}
func (f *vC15Facade) BatchGetLatestValues(context.Context, cctypes.BatchGetLatestValuesRequest) (cctypes.BatchGetLatestValuesResult, error) {
	return nil, nil
}
func (f *vC15Facade) Bind(context.Context, []cctypes.BoundContract) error   { return nil }
func (f *vC15Facade) Unbind(context.Context, []cctypes.BoundContract) error { return nil }
func (f *vC15Facade) QueryKey(context.Context, cctypes.BoundContract, query.KeyFilter, query.LimitAndSort, any) ([]cctypes.Sequence, error) {
	return nil, nil
}

func vC15ChainSubject(c uint64) [16]byte {
	var b [16]byte
	binary.BigEndian.PutUint64(b[8:], c)
	return b
}

func (m *vC15Remote) Fn(dest cciptypes.ChainSelector, src []cciptypes.ChainSelector) (*readerpkg.CurseInfo, error) {
	if m.real {
		return m.realRead(dest, src)
	}
	if m.fails {
		switch m.kind {
		case "notfound":
			return nil, fmt.Errorf("validate dest=%d extended reader existence: %w", dest,
				fmt.Errorf("chain %d: %w", dest, readerpkg.ErrContractReaderNotFound))
		case "nobindings":
			return nil, fmt.Errorf("get latest value: %w", contractreader.ErrNoBindings)
		case "both":
			return nil, fmt.Errorf("not bound: %w: %w", readerpkg.ErrContractReaderNotFound, contractreader.ErrNoBindings)
		case "ctx-deadline":
			return nil, fmt.Errorf("read: %w", context.DeadlineExceeded)
		case "ctx-canceled":
			return nil, context.Canceled
		case "nil-info": // an error together with a non-nil (empty) answer
			return &readerpkg.CurseInfo{CursedSourceChains: map[cciptypes.ChainSelector]bool{}}, vErrNext()
		}
		return nil, vErrNext()
	}
	ci := &readerpkg.CurseInfo{CursedSourceChains: map[cciptypes.ChainSelector]bool{}, CursedDestination: m.global || m.dest, GlobalCurse: m.global}
	for _, c := range src {
		ci.CursedSourceChains[c] = m.cursed[uint64(c)]
	}
	return ci, nil
}

// the real reader of an oracle, configured for the current state of the remote
func (m *vC15Remote) realRead(dest cciptypes.ChainSelector, src []cciptypes.ChainSelector) (*readerpkg.CurseInfo, error) {
	ctx := context.Background()
	fac := &vC15Facade{}
	if m.global {
		fac.subjects = append(fac.subjects, readerpkg.GlobalCurseSubject)
	}
	if m.dest {
		fac.subjects = append(fac.subjects, vC15ChainSubject(uint64(dest)))
	}
	var cs []uint64
	for c, b := range m.cursed {
		if b {
			cs = append(cs, c)
		}
	}
	vSortU64(cs)
	for _, c := range cs {
		fac.subjects = append(fac.subjects, vC15ChainSubject(c))
	}
	switch m.kind {
	case "rpc-plain":
		fac.err = vErrNext()
	case "rpc-ctx":
		fac.err = context.DeadlineExceeded
	}
	readers := map[cciptypes.ChainSelector]contractreader.Extended{}
	if m.kind != "noreader" {
		ext := contractreader.NewExtendedContractReader(fac)
		if m.kind != "unbound" {
			if err := ext.Bind(ctx, []cctypes.BoundContract{{Name: consts.ContractNameRMNRemote, Address: "0x0000000000000000000000000000000000000002"}}); err != nil {
				panic(err)
			}
		}
		readers[dest] = ext
	}
	rd := readerpkg.NewCCIPReaderWithExtendedContractReaders(ctx, mocks.NullLogger, readers, nil, dest, []byte{0x01})
	return rd.GetRmnCurseInfo(ctx, dest, src)
}

func (m *vC15Remote) Coq() string {
	var cs []uint64
	for c, b := range m.cursed {
		if b {
			cs = append(cs, c)
		}
	}
	vSortU64(cs)
	return cTup(cBool(m.fails), cBool(m.global), cBool(m.dest), cListN(cs))
}
func vC15GenRemote(r *vRand, chains []uint64) (*vC15Remote, string) {
	m := &vC15Remote{cursed: map[uint64]bool{}}
	cls := vPick(r, []string{"clean", "clean", "global", "dest", "fails", "fails", "one", "some", "all", "unrelated"})
	switch cls {
	case "global":
		m.global = true
	case "dest":
		m.dest = true
	case "fails":
		m.fails = true
		// whatever is on chain while the read fails (it must not matter): often a global or lane curse
		switch r.Intn(4) {
		case 0:
			m.global = true
		case 1:
			if len(chains) > 0 {
				m.cursed[vPick(r, chains)] = true
			}
		}
	case "one":
		if len(chains) > 0 {
			m.cursed[vPick(r, chains)] = true
		}
	case "some":
		for _, c := range chains {
			if r.Bool() {
				m.cursed[c] = true
			}
		}
	case "all":
		for _, c := range chains {
			m.cursed[c] = true
		}
	case "unrelated":
		m.cursed[777] = true
		m.cursed[1<<64-1] = true
	}
	if r.Chance(1, 10) && len(chains) > 0 { // a source curse on top of whatever else
		m.cursed[vPick(r, chains)] = true
	}
	m.real = r.Chance(2, 5)
	if m.fails {
		if m.real {
			m.kind = vPick(r, []string{"noreader", "unbound", "unbound", "rpc-plain", "rpc-ctx"})
		} else {
			m.kind = vPick(r, []string{"plain", "notfound", "nobindings", "both", "ctx-deadline", "ctx-canceled", "nil-info"})
		}
		cls += "/" + m.kind
	} else if m.real {
		m.kind = "bound"
	}
	if m.real {
		cls = "real/" + cls
	}
	return m, cls
}

func vC15ExecPlugin(sup int, cs vC15Support, rd readerpkg.CCIPReader) *Plugin {
	hc := vNewHomeChain()
	me := commontypes.OracleID(1)
	m := map[commontypes.OracleID]libocrtypes.PeerID{me: vPeer(1)}
	switch sup {
	case 0:
		hc.SetChain(900, 1, []libocrtypes.PeerID{vPeer(2)})
	case 1:
		hc.SetChain(900, 1, []libocrtypes.PeerID{vPeer(1)})
	default:
		hc.CfgErr = true
	}
	return &Plugin{
		reportingCfg:    ocr3types.ReportingPluginConfig{OracleID: me},
		offchainCfg:     pluginconfig.ExecuteOffchainConfig{MessageVisibilityInterval: *commonconfig.MustNewDuration(time.Hour)},
		destChain:       900,
		ccipReader:      rd,
		reportCodec:     mocks.NewExecutePluginJSONReportCodec(),
		homeChain:       hc,
		chainSupport:    cs,
		oracleIDToP2pID: m,
		lggr:            mocks.NullLogger,
	}
}

// phase 1 of the execute observation (getCommitReportsObservation) under a scripted curse reader
func TestVerif_C15_observe_exec(t *testing.T) {
	ctx := context.Background()
	r := vNewRand(vSeed() + 17)
	n := vEnvInt("VERIF_N", 300)
	sink := vOpenSink("C15_obs_exec")
	defer sink.Close()
	pool := []uint64{1, 2, 3, 5, 8, 13, 1<<64 - 2}
	i := 0
	for i < n {
		k := r.Range(0, 5)
		perm := r.Perm(len(pool))
		var known []uint64
		for x := 0; x < k; x++ {
			known = append(known, pool[perm[x]])
		}
		cs := vC15Support{knownErr: r.Chance(1, 10)}
		for _, c := range known {
			cs.known = append(cs.known, cciptypes.ChainSelector(c))
		}
		sup := vPick(r, []int{1, 1, 1, 1, 0, 2})
		rem := &vC15Remote{}
		var pending []uint64
		counts := map[uint64]int{}
		pendErr := false
		rd := &vCCIPReader{
			CurseFn: func(d cciptypes.ChainSelector, s []cciptypes.ChainSelector) (*readerpkg.CurseInfo, error) {
				return rem.Fn(d, s)
			},
			CommitReportsFn: func(dest cciptypes.ChainSelector, ts time.Time, limit int) ([]plugintypes2.CommitPluginReportWithMeta, error) {
				if pendErr {
					return nil, vErrNext()
				}
				var out []plugintypes2.CommitPluginReportWithMeta
				for _, c := range pending {
					for x := 0; x < counts[c]; x++ {
						out = append(out, plugintypes2.CommitPluginReportWithMeta{
							Timestamp: time.Unix(1000+int64(x), 0), BlockNum: uint64(10 + x),
							Report: cciptypes.CommitPluginReport{MerkleRoots: []cciptypes.MerkleRootChain{{
								ChainSel:     cciptypes.ChainSelector(c),
								SeqNumsRange: cciptypes.NewSeqNumRange(cciptypes.SeqNum(1+10*x), cciptypes.SeqNum(10+10*x)),
								MerkleRoot:   cciptypes.Bytes32{byte(x + 1)}}}}})
					}
				}
				return out, nil
			},
		}
		p := vC15ExecPlugin(sup, cs, rd)
		steps := r.Range(1, 4)
		for st := 0; st < steps && i < n; st++ {
			// commit reports on the destination: mostly known sources, sometimes a chain outside the known list
			pending = pending[:0]
			counts = map[uint64]int{}
			for _, c := range known {
				if r.Chance(2, 3) {
					pending = append(pending, c)
					counts[c] = r.Range(1, 3)
				}
			}
			outside := r.Chance(1, 8)
			if outside {
				pending = append(pending, 21)
				counts[21] = 1
			}
			pendErr = r.Chance(1, 12)
			var cls string
			rem, cls = vC15GenRemote(r, append(append([]uint64{}, known...), pending...))
			if outside && r.Bool() {
				rem.cursed[21] = true
				cls += "+unknown-cursed"
			}
			obs, err := p.getCommitReportsObservation(ctx, exectypes.Observation{})
			out := cNone()
			if err == nil {
				var keys []uint64
				for c := range obs.CommitReports {
					keys = append(keys, uint64(c))
				}
				sort.Slice(keys, func(a, b int) bool { return keys[a] < keys[b] })
				xs := make([]string, len(keys))
				for x, c := range keys {
					xs[x] = cPair(cN(c), cNi(len(obs.CommitReports[cciptypes.ChainSelector(c)])))
				}
				out = cSome(cList(xs))
			}
			knownQ := cNone()
			if !cs.knownErr {
				knownQ = cSome(cListN(known))
			}
			pendQ := cNone()
			if !pendErr {
				ps := append([]uint64{}, pending...)
				vSortU64(ps)
				pendQ = cSome(cMap(ps, func(c uint64) string { return cPair(cN(c), cNi(counts[c])) }))
			}
			if st > 0 {
				cls = "history/" + cls
			}
			in := cTup(cNi(sup), knownQ, rem.Coq(), pendQ)
			sink.Emit("C15_obs_exec", cls, len(pending) >= 2 && sup == 1, cPair(in, out),
				map[string]any{"known": known, "pending": pending, "sup": sup, "step": st})
			i++
		}
	}
}

func TestVerif_C15_accept_exec(t *testing.T) {
	ctx := context.Background()
	r := vNewRand(vSeed() + 18)
	n := vEnvInt("VERIF_N", 300)
	sink := vOpenSink("C15_acc_exec")
	defer sink.Close()
	codec := mocks.NewExecutePluginJSONReportCodec()
	pool := []uint64{1, 2, 3, 5, 8, 13, 1<<64 - 2}
	i := 0
	for i < n {
		rem := &vC15Remote{}
		rd := &vCCIPReader{CurseFn: func(d cciptypes.ChainSelector, s []cciptypes.ChainSelector) (*readerpkg.CurseInfo, error) {
			return rem.Fn(d, s)
		}}
		p := vC15ExecPlugin(1, vC15Support{}, rd)
		steps := r.Range(1, 4)
		for st := 0; st < steps && i < n; st++ {
			k := vPick(r, []int{0, 1, 1, 2, 3})
			perm := r.Perm(len(pool))
			var srcs []uint64
			for x := 0; x < k; x++ {
				srcs = append(srcs, pool[perm[x]])
			}
			if k >= 2 && r.Chance(1, 6) {
				srcs[1] = srcs[0]
			}
			if k >= 2 && r.Chance(1, 3) {
				// an execute report has one chain report per commit root: the same source chain may occur several times,
				// not necessarily next to each other ([T, U, T, S], [T, U, T, U, S]) — seeded change C15-6
				a, b := srcs[0], srcs[1]
				rest := append([]uint64{}, srcs[2:]...)
				if r.Bool() {
					srcs = append([]uint64{a, b, a}, rest...)
				} else {
					srcs = append([]uint64{a, b, a, b}, rest...)
				}
			}
			var cls string
			rem, cls = vC15GenRemote(r, srcs)
			rep := cciptypes.ExecutePluginReport{}
			for _, c := range srcs {
				rep.ChainReports = append(rep.ChainReports, cciptypes.ExecutePluginReportSingleChain{SourceChainSelector: cciptypes.ChainSelector(c)})
			}
			rb, err := codec.Encode(ctx, rep)
			if err != nil {
				t.Fatal(err)
			}
			ok, err := p.ShouldAcceptAttestedReport(ctx, 1, ocr3types.ReportWithInfo[[]byte]{Report: rb})
			o := 0
			if err != nil {
				o = 2
			} else if ok {
				o = 1
			}
			if st > 0 {
				cls = "history/" + cls
			}
			in := cTup(cNi(1), cListN(srcs), rem.Coq(), cTup(cNi(0), cNi(0), cNi(0), "true", "false", cNi(0)))
			sink.Emit("C15_acc_exec", cls, len(srcs) > 0, cPair(in, cNi(o)), map[string]any{"srcs": srcs, "step": st})
			i++
		}
	}
}

// ===================================================================================================
// Plugin level: execute.Plugin.Observation (real Plugin via NewPlugin, real chain support over the fake home chain) in
// every phase of the execute cycle, under a curse state that changes between the rounds, and the acceptance of the
// report the cycle leads to.
// ===================================================================================================
func TestVerif_C15_cycle_exec(t *testing.T) {
	ctx := context.Background()
	r := vNewRand(vSeed() + 20)
	n := vEnvInt("VERIF_N", 300)
	sink := vOpenSink("C15_cyc_exec")
	defer sink.Close()
	asink := vOpenSink("C15_cyc_acc_exec")
	defer asink.Close()
	codec := mocks.NewExecutePluginJSONReportCodec()
	pool := []uint64{1, 2, 3, 5, 8, 13}
	i := 0
	for i < n {
		k := r.Range(0, 5)
		perm := r.Perm(len(pool))
		var known []uint64
		for x := 0; x < k; x++ {
			known = append(known, pool[perm[x]])
		}
		sup := vPick(r, []int{1, 1, 1, 1, 1, 0})
		hc := vNewHomeChain()
		me := commontypes.OracleID(1)
		m := map[commontypes.OracleID]libocrtypes.PeerID{me: vPeer(1), 2: vPeer(2)}
		destPeers := []libocrtypes.PeerID{vPeer(2)}
		if sup == 1 {
			destPeers = append(destPeers, vPeer(1))
		}
		hc.SetChain(900, 1, destPeers)
		for _, c := range known {
			hc.SetChain(cciptypes.ChainSelector(c), 1, []libocrtypes.PeerID{vPeer(1), vPeer(2)})
		}
		rem := &vC15Remote{}
		var pending []uint64
		counts := map[uint64]int{}
		pendErr := false
		mkReports := func() []plugintypes2.CommitPluginReportWithMeta {
			var out []plugintypes2.CommitPluginReportWithMeta
			for _, c := range pending {
				for x := 0; x < counts[c]; x++ {
					out = append(out, plugintypes2.CommitPluginReportWithMeta{
						Timestamp: time.Unix(1000+int64(x), 0), BlockNum: uint64(10 + x),
						Report: cciptypes.CommitPluginReport{MerkleRoots: []cciptypes.MerkleRootChain{{
							ChainSel:     cciptypes.ChainSelector(c),
							SeqNumsRange: cciptypes.NewSeqNumRange(cciptypes.SeqNum(1+10*x), cciptypes.SeqNum(10+10*x)),
							MerkleRoot:   cciptypes.Bytes32{byte(x + 1)}}}}})
				}
			}
			return out
		}
		rd := &vCCIPReader{
			CurseFn: func(d cciptypes.ChainSelector, s []cciptypes.ChainSelector) (*readerpkg.CurseInfo, error) {
				return rem.Fn(d, s)
			},
			CommitReportsFn: func(dest cciptypes.ChainSelector, ts time.Time, limit int) ([]plugintypes2.CommitPluginReportWithMeta, error) {
				if pendErr {
					return nil, vErrNext()
				}
				return mkReports(), nil
			},
			MsgsFn: func(chain cciptypes.ChainSelector, rg cciptypes.SeqNumRange) ([]cciptypes.Message, error) {
				var out []cciptypes.Message
				for s := rg.Start(); s <= rg.End(); s++ {
					out = append(out, cciptypes.Message{Header: cciptypes.RampMessageHeader{
						MessageID: cciptypes.Bytes32{byte(chain), byte(s)}, SourceChainSelector: chain, DestChainSelector: 900, SequenceNumber: s},
						Sender: []byte{byte(chain), 7}})
				}
				return out, nil
			},
			NoncesFn: func(source, dest cciptypes.ChainSelector, addrs []string) (map[string]uint64, error) {
				out := map[string]uint64{}
				for _, a := range addrs {
					out[a] = 1
				}
				return out, nil
			},
		}
		p := NewPlugin(1, ocr3types.ReportingPluginConfig{F: 1, N: 4, OracleID: me},
			pluginconfig.ExecuteOffchainConfig{BatchGasLimit: 100000000, MessageVisibilityInterval: *commonconfig.MustNewDuration(8 * time.Hour)},
			900, m, rd, codec, mocks.NewMessageHasher(), hc, &tokendata.NoopTokenDataObserver{}, nil, mocks.NullLogger,
			costlymessages.NewObserver(mocks.NullLogger, false, nil, nil))
		p.discovery = nil // contract discovery is not part of this property (otherwise only discovery data is observed)
		cycles := r.Range(1, 2)
		for cy := 0; cy < cycles && i < n; cy++ {
			var agreed []exectypes.CommitData // pending commit reports the cycle agreed on after its first round
			prevState := vPick(r, []exectypes.PluginState{exectypes.Unknown, exectypes.Initialized, exectypes.Filter})
			for ph := 1; ph <= 3 && i < n; ph++ {
				pending = pending[:0]
				counts = map[uint64]int{}
				for _, c := range known {
					if r.Chance(2, 3) {
						pending = append(pending, c)
						counts[c] = r.Range(1, 3)
					}
				}
				outside := r.Chance(1, 8)
				if outside {
					pending = append(pending, 21)
					counts[21] = 1
				}
				pendErr = ph == 1 && r.Chance(1, 12)
				var cls string
				rem, cls = vC15GenRemote(r, append(append([]uint64{}, known...), pending...))
				if outside && r.Bool() {
					rem.cursed[21] = true
					cls += "+unknown-cursed"
				}
				hc.CfgErr = ph == 1 && r.Chance(1, 25)
				var prev exectypes.Outcome
				switch ph {
				case 1:
					// the last outcome of the previous cycle: its pending commit reports are leftovers that must not leak
					var left []exectypes.CommitData
					if prevState == exectypes.Filter {
						for _, c := range known {
							if r.Bool() {
								left = append(left, exectypes.CommitData{SourceChain: cciptypes.ChainSelector(c),
									SequenceNumberRange: cciptypes.NewSeqNumRange(1, 10), MerkleRoot: cciptypes.Bytes32{9}, Timestamp: time.Unix(900, 0), BlockNum: 9})
							}
						}
					}
					prev = exectypes.NewOutcome(prevState, left, cciptypes.ExecutePluginReport{})
				case 2:
					prev = exectypes.NewOutcome(exectypes.GetCommitReports, agreed, cciptypes.ExecutePluginReport{})
				default:
					prev = exectypes.NewOutcome(exectypes.GetMessages, agreed, cciptypes.ExecutePluginReport{})
				}
				pb, err := prev.Encode()
				if err != nil {
					t.Fatal(err)
				}
				// what the previous outcome carries, per chain
				prevCounts := map[uint64]int{}
				for _, cd := range agreed {
					prevCounts[uint64(cd.SourceChain)]++
				}
				ob, err := p.Observation(ctx, ocr3types.OutcomeContext{SeqNr: uint64(10 + ph), PreviousOutcome: pb}, nil)
				out := cNone()
				var obs exectypes.Observation
				if err == nil {
					obs, err = exectypes.DecodeObservation(ob)
					if err != nil {
						t.Fatal(err)
					}
					var ck, mk, nk []uint64
					for c := range obs.CommitReports {
						ck = append(ck, uint64(c))
					}
					for c := range obs.Messages {
						mk = append(mk, uint64(c))
					}
					for c := range obs.Nonces {
						nk = append(nk, uint64(c))
					}
					vSortU64(ck)
					vSortU64(mk)
					vSortU64(nk)
					out = cSome(cTup(
						cMap(ck, func(c uint64) string { return cPair(cN(c), cNi(len(obs.CommitReports[cciptypes.ChainSelector(c)]))) }),
						cMap(mk, func(c uint64) string { return cPair(cN(c), cNi(len(obs.Messages[cciptypes.ChainSelector(c)]))) }),
						cListN(nk)))
				}
				supQ, knownQ := sup, cSome(cListN(known))
				if hc.CfgErr {
					supQ, knownQ = 2, cNone()
				}
				pendQ := cNone()
				if ph == 1 {
					if !pendErr {
						ps := append([]uint64{}, pending...)
						vSortU64(ps)
						pendQ = cSome(cMap(ps, func(c uint64) string { return cPair(cN(c), cNi(counts[c])) }))
					}
				} else {
					var ps []uint64
					for c := range prevCounts {
						ps = append(ps, c)
					}
					vSortU64(ps)
					pendQ = cSome(cMap(ps, func(c uint64) string { return cPair(cN(c), cNi(prevCounts[c])) }))
				}
				label := []string{"", "getcommitreports", "getmessages", "filter"}[ph]
				if ph > 1 || cy > 0 {
					cls = "history/" + cls
				}
				in := cTup(cNi(ph), cNi(supQ), knownQ, rem.Coq(), pendQ)
				sink.Emit("C15_cyc_exec", label+"/"+cls, len(known) >= 2 && sup == 1, cPair(in, out),
					map[string]any{"phase": label, "known": known, "pending": pending, "sup": supQ, "cycle": cy})
				i++
				hc.CfgErr = false
				switch ph {
				case 1:
					// the pending commit reports the DON agrees on: what this oracle observed (flattened, as Outcome does)
					agreed = agreed[:0]
					if err == nil {
						var ks []uint64
						for c := range obs.CommitReports {
							ks = append(ks, uint64(c))
						}
						vSortU64(ks)
						for _, c := range ks {
							agreed = append(agreed, obs.CommitReports[cciptypes.ChainSelector(c)]...)
						}
					}
					if len(agreed) == 0 && len(known) > 0 && r.Chance(1, 3) {
						// the others agreed on a report although this oracle saw a curse / failure
						agreed = append(agreed, exectypes.CommitData{SourceChain: cciptypes.ChainSelector(known[0]),
							SequenceNumberRange: cciptypes.NewSeqNumRange(1, 10), MerkleRoot: cciptypes.Bytes32{1}, Timestamp: time.Unix(1000, 0), BlockNum: 10})
					}
				case 2:
					if err == nil {
						// attach the observed messages, as the GetMessages outcome does
						for x := range agreed {
							cd := &agreed[x]
							cd.Messages = nil
							for s := cd.SequenceNumberRange.Start(); s <= cd.SequenceNumberRange.End(); s++ {
								if msg, ok := obs.Messages[cd.SourceChain][s]; ok {
									cd.Messages = append(cd.Messages, msg)
								}
							}
						}
					}
				case 3:
					if len(agreed) > 0 {
						// the report this cycle leads to, presented for acceptance under whatever is cursed THEN
						var srcs []uint64
						seen := map[uint64]bool{}
						rep := cciptypes.ExecutePluginReport{}
						for _, cd := range agreed {
							if !seen[uint64(cd.SourceChain)] {
								seen[uint64(cd.SourceChain)] = true
								srcs = append(srcs, uint64(cd.SourceChain))
								rep.ChainReports = append(rep.ChainReports, cciptypes.ExecutePluginReportSingleChain{SourceChainSelector: cd.SourceChain, Messages: cd.Messages})
							}
						}
						var cls2 string
						rem, cls2 = vC15GenRemote(r, srcs)
						rb, err := codec.Encode(ctx, rep)
						if err != nil {
							t.Fatal(err)
						}
						ok, err := p.ShouldAcceptAttestedReport(ctx, 1, ocr3types.ReportWithInfo[[]byte]{Report: rb})
						o := 0
						if err != nil {
							o = 2
						} else if ok {
							o = 1
						}
						ain := cTup(cNi(1), cListN(srcs), rem.Coq(), cTup(cNi(0), cNi(0), cNi(0), "true", "false", cNi(0)))
						asink.Emit("C15_cyc_acc_exec", "cycle/"+cls2, true, cPair(ain, cNi(o)), map[string]any{"srcs": srcs})
					}
				}
			}
		}
	}
}

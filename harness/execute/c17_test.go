//go:build verif

package execute

import (
	"context"
	"fmt"
	"sort"
	"strings"
	"testing"
	"time"

	commonconfig "github.com/smartcontractkit/chainlink-common/pkg/config"
	"github.com/smartcontractkit/libocr/commontypes"
	"github.com/smartcontractkit/libocr/offchainreporting2plus/ocr3types"
	libocrtypes "github.com/smartcontractkit/libocr/ragep2p/types"

	"github.com/smartcontractkit/chainlink-ccip/execute/exectypes"
	"github.com/smartcontractkit/chainlink-ccip/execute/tokendata"
	"github.com/smartcontractkit/chainlink-ccip/internal/mocks"
	"github.com/smartcontractkit/chainlink-ccip/internal/plugincommon"
	"github.com/smartcontractkit/chainlink-ccip/internal/plugincommon/discovery"
	dt "github.com/smartcontractkit/chainlink-ccip/internal/plugincommon/discovery/discoverytypes"
	"github.com/smartcontractkit/chainlink-ccip/pkg/consts"
	readerpkg "github.com/smartcontractkit/chainlink-ccip/pkg/reader"
	cciptypes "github.com/smartcontractkit/chainlink-ccip/pkg/types/ccipocr3"
	"github.com/smartcontractkit/chainlink-ccip/pluginconfig"
)

// C17: truncateObservation / truncateLastCommit / truncateChain with the real Encode as the size.

var vC17T0 = time.Date(2024, 5, 1, 10, 0, 0, 0, time.UTC)

func vC17B32(x uint64) cciptypes.Bytes32 {
	var b cciptypes.Bytes32
	b[0] = 0xC1
	for i := 0; i < 8; i++ {
		b[31-i] = byte(x >> (8 * i))
	}
	return b
}

// deterministic generator: the same seed gives a fresh, equal observation (the functions under test edit the maps
// of their argument in place)
func vC17Gen(seed uint64) (exectypes.Observation, string) {
	r := vNewRand(seed)
	cls := vPick(r, []string{"small", "small", "wide", "deep", "holes", "msg-only-chain", "dup-costly", "empty-reports", "nil-costly", "foreign-costly"})
	nch := r.Range(1, 3)
	if cls == "wide" {
		nch = 4
	}
	if cls == "deep" {
		nch = r.Range(1, 2)
	}
	perm := r.Perm(9)
	obs := exectypes.Observation{
		CommitReports: exectypes.CommitObservations{},
		Messages:      exectypes.MessageObservations{},
		TokenData:     exectypes.TokenDataObservations{},
		Nonces:        exectypes.NonceObservations{},
	}
	costly := []cciptypes.Bytes32{}
	addMsg := func(c cciptypes.ChainSelector, s cciptypes.SeqNum) {
		if obs.Messages[c] == nil {
			obs.Messages[c] = map[cciptypes.SeqNum]cciptypes.Message{}
		}
		id := vC17B32(uint64(c)*100000 + uint64(s))
		data := make([]byte, vPick(r, []int{20, 100, 400, 1500}))
		for i := range data {
			data[i] = byte(s)
		}
		obs.Messages[c][s] = cciptypes.Message{
			Header: cciptypes.RampMessageHeader{MessageID: id, SourceChainSelector: c, DestChainSelector: 900, SequenceNumber: s},
			Data:   data, FeeTokenAmount: cciptypes.NewBigIntFromInt64(1), FeeValueJuels: cciptypes.NewBigIntFromInt64(1),
		}
		if r.Chance(2, 5) {
			costly = append(costly, id)
		}
	}
	addTok := func(c cciptypes.ChainSelector, s cciptypes.SeqNum) {
		if obs.TokenData[c] == nil {
			obs.TokenData[c] = map[cciptypes.SeqNum]exectypes.MessageTokenData{}
		}
		obs.TokenData[c][s] = exectypes.NewMessageTokenData(exectypes.TokenData{Ready: true, Data: cciptypes.Bytes{byte(s), 1, 2, 3}})
	}
	root := uint64(1)
	for k := 0; k < nch; k++ {
		c := cciptypes.ChainSelector(perm[k] + 1)
		nrep := r.Range(1, 3)
		if cls == "deep" {
			nrep = r.Range(3, 5)
		}
		if cls == "empty-reports" && r.Chance(1, 2) {
			nrep = 0
		}
		next := cciptypes.SeqNum(r.Range(1, 50))
		obs.CommitReports[c] = []exectypes.CommitData{}
		for j := 0; j < nrep; j++ {
			lo := next
			if cls == "holes" && r.Bool() {
				lo += cciptypes.SeqNum(r.Range(1, 3))
			}
			hi := lo + cciptypes.SeqNum(r.Intn(3))
			next = hi + 1
			root++
			obs.CommitReports[c] = append(obs.CommitReports[c], exectypes.CommitData{
				SourceChain: c, Timestamp: vC17T0, BlockNum: root, MerkleRoot: vC17B32(root),
				SequenceNumberRange: cciptypes.NewSeqNumRange(lo, hi),
			})
			for s := lo; s <= hi; s++ {
				if r.Chance(4, 5) {
					addMsg(c, s)
					if r.Bool() {
						addTok(c, s)
					}
				} else if r.Chance(1, 3) {
					addTok(c, s)
				}
			}
		}
		if r.Chance(1, 4) { // a message no report covers
			addMsg(c, next+5)
			addTok(c, next+5)
		}
		if r.Bool() {
			obs.Nonces[c] = map[string]uint64{"0xaa": uint64(k)}
		}
	}
	if cls == "msg-only-chain" { // a chain with messages and nonces but no commit reports
		addMsg(20, 1)
		addMsg(20, 2)
		addTok(20, 1)
		obs.Nonces[20] = map[string]uint64{"0xbb": 1}
	}
	if cls == "foreign-costly" || r.Chance(1, 6) {
		costly = append(costly, vC17B32(999999))
	}
	if cls == "dup-costly" && len(costly) > 0 {
		costly = append(costly, costly[r.Intn(len(costly))])
	}
	for i := len(costly) - 1; i > 0; i-- {
		j := r.Intn(i + 1)
		costly[i], costly[j] = costly[j], costly[i]
	}
	obs.CostlyMessages = costly
	if cls == "nil-costly" {
		obs.CostlyMessages = nil
	}
	return obs, cls
}

func vC17SortedKeys[V any](m map[cciptypes.ChainSelector]V) []cciptypes.ChainSelector {
	ks := make([]cciptypes.ChainSelector, 0, len(m))
	for k := range m {
		ks = append(ks, k)
	}
	sort.Slice(ks, func(i, j int) bool { return ks[i] < ks[j] })
	return ks
}
func vC17SortedSeqs[V any](m map[cciptypes.SeqNum]V) []cciptypes.SeqNum {
	ks := make([]cciptypes.SeqNum, 0, len(m))
	for k := range m {
		ks = append(ks, k)
	}
	sort.Slice(ks, func(i, j int) bool { return ks[i] < ks[j] })
	return ks
}

// ---- Coq rendering ----
type vC17Tab struct{ commit, mid *vIntern }

func (t *vC17Tab) Obs(o exectypes.Observation) string {
	var commits, msgs, toks, costly, nonces []string
	for _, c := range vC17SortedKeys(o.CommitReports) {
		var rs []string
		for _, d := range o.CommitReports[c] {
			rs = append(rs, cApp("mkTC", cN(t.commit.Id(fmt.Sprintf("%v", d))),
				cN(uint64(d.SequenceNumberRange.Start())), cN(uint64(d.SequenceNumberRange.End()))))
		}
		commits = append(commits, cPair(cN(uint64(c)), cList(rs)))
	}
	for _, c := range vC17SortedKeys(o.Messages) {
		for _, s := range vC17SortedSeqs(o.Messages[c]) {
			msgs = append(msgs, cTup(cN(uint64(c)), cN(uint64(s)), cN(t.mid.Id(o.Messages[c][s].Header.MessageID.String()))))
		}
	}
	for _, c := range vC17SortedKeys(o.TokenData) {
		for _, s := range vC17SortedSeqs(o.TokenData[c]) {
			toks = append(toks, cPair(cN(uint64(c)), cN(uint64(s))))
		}
	}
	for _, id := range o.CostlyMessages {
		costly = append(costly, cN(t.mid.Id(id.String())))
	}
	for _, c := range vC17SortedKeys(o.Nonces) {
		nonces = append(nonces, cN(uint64(c)))
	}
	return cApp("mkTObs", cList(commits), cList(msgs), cList(toks), cList(costly), cList(nonces))
}

// ---- lattice of "reports left per chain" ----
type vC17Vec map[cciptypes.ChainSelector]int

func vC17VecOf(o exectypes.Observation) vC17Vec {
	v := vC17Vec{}
	for c, l := range o.CommitReports {
		v[c] = len(l)
	}
	return v
}
func (v vC17Vec) Key() string {
	var parts []string
	for _, c := range vC17SortedKeys(v) {
		parts = append(parts, fmt.Sprintf("%d:%d", c, v[c]))
	}
	return strings.Join(parts, ",")
}
func (v vC17Vec) Coq() string {
	var parts []string
	for _, c := range vC17SortedKeys(v) {
		parts = append(parts, cPair(cN(uint64(c)), fmt.Sprintf("%d%%nat", v[c])))
	}
	return cList(parts)
}
func (v vC17Vec) Dec(c cciptypes.ChainSelector) vC17Vec {
	w := vC17Vec{}
	for k, n := range v {
		w[k] = n
	}
	if w[c] > 1 {
		w[c]--
	} else {
		delete(w, c)
	}
	return w
}
func (v vC17Vec) Geq(t vC17Vec) bool { // t reachable from v
	for c, n := range t {
		if m, ok := v[c]; !ok || m < n {
			return false
		}
	}
	return true
}

// the harness's own projection of the original observation on a vector: used only to measure encoded sizes
func vC17Project(gen func() exectypes.Observation, v vC17Vec) exectypes.Observation {
	o := gen()
	dead := map[cciptypes.Bytes32]bool{}
	touched := false
	for c, l := range o.CommitReports {
		n, ok := v[c]
		if !ok {
			touched = true
			for _, m := range o.Messages[c] {
				dead[m.Header.MessageID] = true
			}
			delete(o.CommitReports, c)
			delete(o.Messages, c)
			delete(o.TokenData, c)
			delete(o.Nonces, c)
			continue
		}
		if n < len(l) {
			touched = true
		}
		for _, d := range l[n:] {
			for s, m := range o.Messages[c] {
				if d.SequenceNumberRange.Contains(s) {
					dead[m.Header.MessageID] = true
					delete(o.Messages[c], s)
					delete(o.TokenData[c], s) // token data goes with its message only
				}
			}
		}
		o.CommitReports[c] = l[:n]
	}
	if touched && o.CostlyMessages != nil {
		kept := []cciptypes.Bytes32{}
		for _, id := range o.CostlyMessages {
			if !dead[id] {
				kept = append(kept, id)
			}
		}
		o.CostlyMessages = kept
	}
	return o
}

type vC17Sizer struct {
	gen  func() exectypes.Observation
	memo map[string]int
	used map[string]vC17Vec
}

func (z *vC17Sizer) Size(v vC17Vec) int {
	k := v.Key()
	if s, ok := z.memo[k]; ok {
		return s
	}
	b, err := vC17Project(z.gen, v).Encode()
	if err != nil {
		panic(err)
	}
	z.memo[k] = len(b)
	return len(b)
}
func (z *vC17Sizer) Use(v vC17Vec) { z.used[v.Key()] = v }

func vC17MinChain(v vC17Vec) cciptypes.ChainSelector {
	ks := vC17SortedKeys(v)
	return ks[0]
}

// a sequence of cuts that explains the implementation's answer: every observation before the target is too big,
// the first cut is on the smallest chain. target == nil: the error (everything cut).
func vC17Search(z *vC17Sizer, v vC17Vec, target vC17Vec, max int, first bool, seen map[string]bool) ([]cciptypes.ChainSelector, bool) {
	if target != nil && v.Key() == target.Key() {
		return nil, z.Size(v) <= max
	}
	if len(v) == 0 || z.Size(v) <= max {
		return nil, false
	}
	if seen[v.Key()] {
		return nil, false
	}
	seen[v.Key()] = true
	cands := vC17SortedKeys(v)
	if first {
		cands = cands[:1]
	}
	for _, c := range cands {
		w := v.Dec(c)
		if target == nil {
			if len(w) == 0 {
				return []cciptypes.ChainSelector{c}, true
			}
		} else if !w.Geq(target) {
			continue
		}
		if p, ok := vC17Search(z, w, target, max, false, seen); ok {
			return append([]cciptypes.ChainSelector{c}, p...), true
		}
	}
	return nil, false
}

func TestVerif_C17_trunc(t *testing.T) {
	r := vNewRand(vSeed() + 17)
	n := vEnvInt("VERIF_N", 100)
	sink := vOpenSink("C17_trunc")
	defer sink.Close()
	for i := 0; i < n; i++ {
		seed := r.U64()
		lr := vNewRand(r.U64())
		obs0, cls := vC17Gen(seed)
		v0 := vC17VecOf(obs0)
		z := &vC17Sizer{gen: func() exectypes.Observation { o, _ := vC17Gen(seed); return o }, memo: map[string]int{}, used: map[string]vC17Vec{}}
		z.Use(v0)
		// sizes along the "always the smallest chain" path give the interesting limits
		var sizes []int
		for v := v0; ; {
			sizes = append(sizes, z.Size(v))
			if len(v) == 0 {
				break
			}
			v = v.Dec(vC17MinChain(v))
		}
		var limits []int
		for k := 0; k < 4; k++ {
			limits = append(limits, sizes[lr.Intn(len(sizes))]+lr.Range(-1, 1))
		}
		limits = append(limits, vPick(lr, []int{1, sizes[len(sizes)-1] - 1, sizes[len(sizes)-1], sizes[0] + 1000}))
		limits = append(limits, sizes[0]-lr.Intn(2))
		tab := &vC17Tab{vNewIntern(), vNewIntern()}
		in0 := tab.Obs(obs0)
		var runs, outs []string
		var show []map[string]any
		nontrivial := false
		for _, max := range limits {
			o, _ := vC17Gen(seed)
			var out string
			var target vC17Vec
			outSize := 0
			isErr, isPanic := false, false
			func() {
				defer func() {
					if rec := recover(); rec != nil {
						isPanic = true
					}
				}()
				res, err := truncateObservation(o, max)
				if err != nil {
					isErr = true
					return
				}
				b, _ := res.Encode()
				outSize = len(b)
				target = vC17VecOf(res)
				out = "(Ok " + tab.Obs(res) + ")"
			}()
			var picks []cciptypes.ChainSelector
			switch {
			case isPanic:
				out = "Panic"
			case isErr:
				out = "Err"
				picks, _ = vC17Search(z, v0, nil, max, true, map[string]bool{})
			default:
				picks, _ = vC17Search(z, v0, target, max, true, map[string]bool{})
			}
			v := v0
			for _, c := range picks {
				v = v.Dec(c)
				z.Use(v)
			}
			if len(picks) > 0 {
				nontrivial = true
			}
			ps := make([]string, len(picks))
			for k, c := range picks {
				ps[k] = cN(uint64(c))
			}
			runs = append(runs, cPair(cZ(int64(max)), cList(ps)))
			outs = append(outs, cPair(out, cNi(outSize)))
			show = append(show, map[string]any{"max": max, "cuts": picks, "result": out[:vMin(len(out), 12)], "size": outSize})
		}
		var tabS []string
		keys := make([]string, 0, len(z.used))
		for k := range z.used {
			keys = append(keys, k)
		}
		sort.Strings(keys)
		for _, k := range keys {
			if len(z.used[k]) == 0 {
				continue
			}
			tabS = append(tabS, cPair(z.used[k].Coq(), cNi(z.Size(z.used[k]))))
		}
		sink.Emit("C17_trunc", cls, nontrivial, cPair(cTup(in0, cList(tabS), cList(runs)), cList(outs)),
			map[string]any{"seed": seed, "class": cls, "reports": v0.Key(), "sizes": sizes, "runs": show})
	}
}

func vMin(a, b int) int {
	if a < b {
		return a
	}
	return b
}

func TestVerif_C17_step(t *testing.T) {
	r := vNewRand(vSeed() + 18)
	n := vEnvInt("VERIF_N", 300)
	sink := vOpenSink("C17_step")
	defer sink.Close()
	for i := 0; i < n; i++ {
		seed := r.U64()
		lr := vNewRand(r.U64())
		before, cls := vC17Gen(seed)
		chains := vC17SortedKeys(before.CommitReports)
		chain := vPick(lr, chains)
		switch lr.Intn(8) {
		case 0:
			chain = 77 // absent everywhere
		case 1:
			if _, ok := before.Messages[20]; ok {
				chain = 20 // messages but no commit reports
			}
		}
		kind := lr.Intn(2)
		tab := &vC17Tab{vNewIntern(), vNewIntern()}
		in := cTup(cNi(kind), cN(uint64(chain)), tab.Obs(before))
		o, _ := vC17Gen(seed)
		var out string
		func() {
			defer func() {
				if rec := recover(); rec != nil {
					out = "Panic"
				}
			}()
			var res exectypes.Observation
			if kind == 0 {
				res = truncateLastCommit(o, chain)
			} else {
				res = truncateChain(o, chain)
			}
			out = "(Ok " + tab.Obs(res) + ")"
		}()
		label := fmt.Sprintf("%s/%s/%d-reports", []string{"lastCommit", "chain"}[kind], cls, len(before.CommitReports[chain]))
		sink.Emit("C17_step", label, len(before.CommitReports[chain]) > 0, cPair(in, out),
			map[string]any{"seed": seed, "kind": kind, "chain": chain, "reports": vC17VecOf(before).Key()})
	}
}

// ---------------------------------------------------------------------------------------------------------------
// End to end: execute.Plugin.Observation in the GetMessages phase against the advertised maxObservationLength.
// The previous outcome holds the pending commit reports, the scripted reader returns messages big enough for the
// observation to straddle the limit; the observation the plugin returns is judged like a truncateObservation result
// (same judge), the untruncated observation being rebuilt from the plugin's own building blocks.

type vC17Costly struct{ ids map[cciptypes.Bytes32]bool }

func (c vC17Costly) Observe(_ context.Context, msgs []cciptypes.Message, _ map[cciptypes.Bytes32]time.Time) ([]cciptypes.Bytes32, error) {
	var out []cciptypes.Bytes32
	for _, m := range msgs {
		if c.ids[m.Header.MessageID] {
			out = append(out, m.Header.MessageID)
		}
	}
	sort.Slice(out, func(i, j int) bool { return string(out[i][:]) < string(out[j][:]) })
	return out, nil
}

func TestVerif_C17_observation(t *testing.T) {
	ctx := context.Background()
	r := vNewRand(vSeed() + 19)
	n := vEnvInt("VERIF_N", 30)
	sink := vOpenSink("C17_observation")
	defer sink.Close()
	for i := 0; i < n; i++ {
		lr := vNewRand(r.U64())
		cls := vPick(lr, []string{"fits", "overflow", "overflow", "overflow-big", "one-report-too-big",
			"calibrated-straddle", "calibrated-straddle", "calibrated-above", "calibrated-just-below"})
		if i < 6 { // the classes the limit is about come first, so that small samples hold them
			cls = []string{"calibrated-straddle", "calibrated-above", "calibrated-just-below", "calibrated-straddle", "overflow", "fits"}[i]
		}
		// contract discovery data carried by the same observation: processor disabled / no addresses / a few / ~300 source chains
		disc := vPick(lr, []int{-1, 0, 3, 300})
		if cls == "calibrated-straddle" {
			disc = vPick(lr, []int{3, 300, 300})
		}
		// pending reports of the previous outcome and the messages behind them
		nch := lr.Range(1, 3)
		var pending []exectypes.CommitData
		msgs := map[cciptypes.ChainSelector]map[cciptypes.SeqNum]cciptypes.Message{}
		costly := map[cciptypes.Bytes32]bool{}
		root := uint64(0)
		for k := 0; k < nch; k++ {
			c := cciptypes.ChainSelector(k + 1)
			msgs[c] = map[cciptypes.SeqNum]cciptypes.Message{}
			next := cciptypes.SeqNum(lr.Range(1, 50))
			for j := lr.Range(1, 3); j > 0; j-- {
				lo := next + cciptypes.SeqNum(lr.Intn(2))
				hi := lo + cciptypes.SeqNum(lr.Intn(3))
				next = hi + 1
				root++
				pending = append(pending, exectypes.CommitData{SourceChain: c, Timestamp: vC17T0.Add(time.Duration(root) * time.Second),
					BlockNum: root, MerkleRoot: vC17B32(root), SequenceNumberRange: cciptypes.NewSeqNumRange(lo, hi)})
				for s := lo; s <= hi; s++ {
					size := map[string][]int{"fits": {100, 2000}, "overflow": {20000, 60000, 90000}, "overflow-big": {90000, 150000},
						"one-report-too-big": {300000, 400000}, "calibrated-straddle": {20000, 30000}, "calibrated-above": {20000, 30000},
						"calibrated-just-below": {20000, 30000}}[cls]
					data := make([]byte, vPick(lr, size))
					id := vC17B32(uint64(c)*100000 + uint64(s))
					msgs[c][s] = cciptypes.Message{Header: cciptypes.RampMessageHeader{MessageID: id, SourceChainSelector: c,
						DestChainSelector: 900, SequenceNumber: s}, Data: data,
						FeeTokenAmount: cciptypes.NewBigIntFromInt64(1), FeeValueJuels: cciptypes.NewBigIntFromInt64(1)}
					if lr.Chance(1, 3) {
						costly[id] = true
					}
				}
			}
		}
		prev, err := exectypes.NewOutcome(exectypes.GetCommitReports, pending, cciptypes.ExecutePluginReport{}).Encode()
		if err != nil {
			t.Fatal(err)
		}
		// one message (the last of the last pending report) is padded to calibrate the encoded size
		padChain, padSeq := pending[len(pending)-1].SourceChain, pending[len(pending)-1].SequenceNumberRange.End()
		padding := 0
		addrs := readerpkg.ContractAddresses{}
		if disc >= 0 {
			addrs[consts.ContractNameOffRamp] = map[cciptypes.ChainSelector]cciptypes.UnknownAddress{900: make([]byte, 20)}
			addrs[consts.ContractNameOnRamp] = map[cciptypes.ChainSelector]cciptypes.UnknownAddress{}
			for k := 0; k < disc; k++ {
				addrs[consts.ContractNameOnRamp][cciptypes.ChainSelector(1000+k)] = make([]byte, 20)
			}
		}
		rd := &vCCIPReader{MsgsFn: func(chain cciptypes.ChainSelector, q cciptypes.SeqNumRange) ([]cciptypes.Message, error) {
			var out []cciptypes.Message
			for s := q.Start(); s <= q.End(); s++ {
				if m, ok := msgs[chain][s]; ok {
					if chain == padChain && s == padSeq && padding > 0 {
						m.Data = make([]byte, len(m.Data)+padding)
					}
					out = append(out, m)
				}
			}
			return out, nil
		}, DiscoverFn: func() (readerpkg.ContractAddresses, error) { return addrs, nil }}
		hc := vNewHomeChain()
		p2p := map[commontypes.OracleID]libocrtypes.PeerID{0: vPeer(0)}
		for c := cciptypes.ChainSelector(1); c <= 3; c++ {
			hc.SetChain(c, 1, []libocrtypes.PeerID{vPeer(0)})
		}
		hc.SetChain(900, 1, []libocrtypes.PeerID{vPeer(0)})
		for k := 0; k < disc; k++ { // the discovered source chains are configured chains (their f is part of the discovery data)
			hc.SetChain(cciptypes.ChainSelector(1000+k), 1, []libocrtypes.PeerID{vPeer(0)})
		}
		p := &Plugin{
			reportingCfg: ocr3types.ReportingPluginConfig{OracleID: 0, F: 1, N: 4},
			offchainCfg: pluginconfig.ExecuteOffchainConfig{BatchGasLimit: 100000000,
				MessageVisibilityInterval: *commonconfig.MustNewDuration(8 * time.Hour)},
			destChain: 900, ccipReader: rd, reportCodec: mocks.NewExecutePluginJSONReportCodec(),
			msgHasher: mocks.NewMessageHasher(), homeChain: hc,
			chainSupport:          plugincommon.NewChainSupport(mocks.NullLogger, hc, p2p, 0, 900),
			oracleIDToP2pID:       p2p,
			tokenDataObserver:     &tokendata.NoopTokenDataObserver{},
			costlyMessageObserver: vC17Costly{costly},
			lggr:                  mocks.NullLogger,
		}
		var contracts dt.Observation
		if disc >= 0 {
			var rdr readerpkg.CCIPReader = rd
			p.discovery = discovery.NewContractDiscoveryProcessor(mocks.NullLogger, &rdr, hc, 900, 1, p2p)
			p.contractsInitialized = true
			contracts, err = p.discovery.Observation(ctx, dt.Outcome{}, dt.Query{})
			if err != nil {
				t.Fatal(err)
			}
		}
		// the WHOLE observation before truncation (discovery data included), from the plugin's own building blocks
		gen := func() exectypes.Observation {
			po, err := exectypes.DecodeOutcome(prev)
			if err != nil {
				t.Fatal(err)
			}
			cache := regroup(po.PendingCommitReports)
			mo, err := readAllMessages(ctx, rd, cache)
			if err != nil {
				t.Fatal(err)
			}
			td, _ := p.tokenDataObserver.Observe(ctx, mo)
			cm, _ := p.costlyMessageObserver.Observe(ctx, mo.Flatten(), nil)
			return exectypes.Observation{CommitReports: cache, Messages: mo, TokenData: td, CostlyMessages: cm, Contracts: contracts}
		}
		max := maxObservationLength
		// calibration: pad one message so that the observation WITHOUT the discovery data ends a little below the
		// limit (less than the discovery data's size below it: the whole observation is above), just above it, or the
		// whole observation ends just below it
		if len(cls) > 10 && cls[:10] == "calibrated" {
			whole := gen()
			bw, _ := whole.Encode()
			whole.Contracts = dt.Observation{}
			bn, _ := whole.Encode()
			discSize := len(bw) - len(bn)
			target := max + 4000 // size without discovery data
			switch cls {
			case "calibrated-straddle":
				target = max - 1 - lr.Intn(discSize)
			case "calibrated-just-below":
				target = max - discSize - lr.Intn(3)
			}
			if target > len(bn) {
				padding = (target - len(bn)) / 2
			}
		}
		full := gen()
		v0 := vC17VecOf(full)
		z := &vC17Sizer{gen: gen, memo: map[string]int{}, used: map[string]vC17Vec{}}
		z.Use(v0)
		tab := &vC17Tab{vNewIntern(), vNewIntern()}
		in0 := tab.Obs(full)
		var out string
		var target vC17Vec
		outSize := 0
		isErr, isPanic := false, false
		func() {
			defer func() {
				if rec := recover(); rec != nil {
					isPanic = true
				}
			}()
			b, err := p.Observation(ctx, ocr3types.OutcomeContext{SeqNr: 2, PreviousOutcome: prev}, nil)
			if err != nil {
				isErr = true
				return
			}
			outSize = len(b)
			res, err := exectypes.DecodeObservation(b)
			if err != nil {
				isErr = true
				return
			}
			target = vC17VecOf(res)
			out = "(Ok " + tab.Obs(res) + ")"
		}()
		var picks []cciptypes.ChainSelector
		switch {
		case isPanic:
			out = "Panic"
		case isErr:
			out = "Err"
			picks, _ = vC17Search(z, v0, nil, max, true, map[string]bool{})
		default:
			picks, _ = vC17Search(z, v0, target, max, true, map[string]bool{})
		}
		v := v0
		for _, c := range picks {
			v = v.Dec(c)
			z.Use(v)
		}
		ps := make([]string, len(picks))
		for k, c := range picks {
			ps[k] = cN(uint64(c))
		}
		var tabS []string
		keys := make([]string, 0, len(z.used))
		for k := range z.used {
			keys = append(keys, k)
		}
		sort.Strings(keys)
		for _, k := range keys {
			if len(z.used[k]) == 0 {
				continue
			}
			tabS = append(tabS, cPair(z.used[k].Coq(), cNi(z.Size(z.used[k]))))
		}
		cls = fmt.Sprintf("%s/discovery-%d", cls, disc)
		sink.Emit("C17_observation", cls, len(picks) > 0,
			cPair(cTup(in0, cList(tabS), cList([]string{cPair(cZ(int64(max)), cList(ps))})), cList([]string{cPair(out, cNi(outSize))})),
			map[string]any{"class": cls, "reports": v0.Key(), "fullSize": z.Size(v0), "limit": max, "cuts": picks, "size": outSize, "padding": padding,
				"result": out[:vMin(len(out), 12)]})
	}
}

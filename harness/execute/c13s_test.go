//go:build verif

package execute

import (
	"context"
	"errors"
	"fmt"
	"math"
	"math/big"
	"os"
	"testing"
	"time"

	ctypes "github.com/smartcontractkit/chainlink-common/pkg/types"
	"github.com/smartcontractkit/libocr/commontypes"

	"github.com/smartcontractkit/chainlink-ccip/execute/costlymessages"
	"github.com/smartcontractkit/chainlink-ccip/execute/exectypes"
	"github.com/smartcontractkit/chainlink-ccip/execute/tokendata"
	"github.com/smartcontractkit/chainlink-ccip/internal/libs/mathslib"
	typeconv "github.com/smartcontractkit/chainlink-ccip/internal/libs/typeconv"
	"github.com/smartcontractkit/chainlink-ccip/internal/mocks"
	"github.com/smartcontractkit/chainlink-ccip/internal/plugincommon"
	cciptypes "github.com/smartcontractkit/chainlink-ccip/pkg/types/ccipocr3"
)

// C13 directed site classes driven from package execute (see coq/Model/PanicSites2.v): every case is
// (site input, termination code 0 returned / 1 returned an error / 2 panicked / 3 did not return).

func vC13sRun(timeout time.Duration, f func() error) (int, string) {
	var err error
	code, what := vGuard(timeout, func() { err = f() })
	if code == 0 && err != nil {
		return 1, err.Error()
	}
	return code, what
}

func vC13sNat(n int) string { return fmt.Sprintf("%d%%nat", n) }
func vC13sOptZ(v *big.Int) string {
	if v == nil {
		return cNone()
	}
	return cSome(cZb(v))
}

type vC13sGas struct{}

func (vC13sGas) CalculateMerkleTreeGas(n int) uint64                 { return uint64(1000 * n) }
func (vC13sGas) CalculateMessageMaxGas(msg cciptypes.Message) uint64 { return 50000 }

// a token data observer that answers with a fixed number of token data entries per message
type vC13sTokObs struct{ n int }

func (o vC13sTokObs) Observe(ctx context.Context, msgs exectypes.MessageObservations) (exectypes.TokenDataObservations, error) {
	out := exectypes.TokenDataObservations{}
	for ch, m := range msgs {
		out[ch] = map[cciptypes.SeqNum]exectypes.MessageTokenData{}
		for seq := range m {
			td := make([]exectypes.TokenData, o.n)
			for i := range td {
				td[i] = exectypes.NewSuccessTokenData([]byte{byte(i)})
			}
			out[ch][seq] = exectypes.MessageTokenData{TokenData: td}
		}
	}
	return out, nil
}
func (o vC13sTokObs) IsTokenSupported(cciptypes.ChainSelector, cciptypes.RampTokenAmount) bool {
	return true
}
func (o vC13sTokObs) Close() error { return nil }

func TestVerif_C13_sites_exec(t *testing.T) {
	ctx := context.Background()
	sink := vOpenSink("C13_sites_exec")
	defer sink.Close()
	lggr := mocks.NullLogger
	emit := func(cls, in string, code int, what string, show map[string]any) {
		show["code"], show["panic"] = code, what
		sink.Emit("C13_sites_exec", cls, true, cPair(in, cNi(code)), show)
	}
	const mx = uint64(math.MaxUint64)

	// ---- site msg-fee: CCIPMessageFeeUSD18Calculator.MessageFeeUSD18 — a message read without FeeValueJuels
	for _, juels := range []*big.Int{nil, big.NewInt(0), big.NewInt(1), new(big.Int).Exp(big.NewInt(10), big.NewInt(30), nil), big.NewInt(-5)} {
		rd := &vCCIPReader{LinkPriceFn: func() (cciptypes.BigInt, error) { return cciptypes.NewBigIntFromInt64(7e18), nil }}
		calc := costlymessages.NewCCIPMessageFeeUSD18Calculator(lggr, rd, 0.5, time.Now)
		msgs := []cciptypes.Message{
			{Header: cciptypes.RampMessageHeader{MessageID: cciptypes.Bytes32{1}}, FeeValueJuels: cciptypes.NewBigIntFromInt64(100)},
			{Header: cciptypes.RampMessageHeader{MessageID: cciptypes.Bytes32{2}}, FeeValueJuels: cciptypes.BigInt{Int: juels}},
		}
		code, what := vC13sRun(3*time.Second, func() error {
			_, err := calc.MessageFeeUSD18(ctx, msgs, map[cciptypes.Bytes32]time.Time{{1}: time.Now().Add(-time.Hour)})
			return err
		})
		emit("msg-fee/nil="+fmt.Sprint(juels == nil), cApp("SMsgFee", vC13sOptZ(juels)), code, what, map[string]any{"feeValueJuels": fmt.Sprint(juels)})
	}

	// ---- site exec-cost: MessageExecCostUSD18 (through Observer.Observe) — messages[0] and the fee components
	for _, n := range []int{0, 1, 2} {
		for _, ef := range []bool{true, false} {
			for _, daf := range []bool{true, false} {
				rd := &vCCIPReader{
					LinkPriceFn: func() (cciptypes.BigInt, error) { return cciptypes.NewBigIntFromInt64(7e18), nil },
					DestFeeCompFn: func() (ctypes.ChainFeeComponents, error) {
						c := ctypes.ChainFeeComponents{}
						if ef {
							c.ExecutionFee = big.NewInt(1000)
						}
						if daf {
							c.DataAvailabilityFee = big.NewInt(10)
						}
						return c, nil
					},
					NativePriceFn: func(sel []cciptypes.ChainSelector) map[cciptypes.ChainSelector]cciptypes.BigInt {
						m := map[cciptypes.ChainSelector]cciptypes.BigInt{}
						for _, c := range sel {
							m[c] = cciptypes.NewBigIntFromInt64(2e18)
						}
						return m
					},
				}
				obs := costlymessages.NewObserverWithDefaults(lggr, true, rd, 0.5, vC13sGas{})
				var msgs []cciptypes.Message
				for i := 0; i < n; i++ {
					msgs = append(msgs, cciptypes.Message{Header: cciptypes.RampMessageHeader{MessageID: cciptypes.Bytes32{byte(i + 1)}, DestChainSelector: 900},
						FeeValueJuels: cciptypes.NewBigIntFromInt64(100), Data: []byte{1, 2, 3}})
				}
				code, what := vC13sRun(3*time.Second, func() error { _, err := obs.Observe(ctx, msgs, nil); return err })
				emit(fmt.Sprintf("exec-cost/n=%d", n), cApp("SExecCost", vC13sNat(n), cBool(ef), cBool(daf)), code, what, map[string]any{"messages": n, "execFee": ef, "daFee": daf})
			}
		}
	}

	// ---- site zip/6: tokendata merge — len(from) != len(base) before base[...].TokenData[i]
	for _, m := range []int{0, 1, 2, 3} { // tokens of the message = length of the base entry
		for _, d := range []int{-2, -1, 0, 1, 2} {
			n := m + d // entries answered by the observer
			if n < 0 {
				continue
			}
			msg := cciptypes.Message{Header: cciptypes.RampMessageHeader{SequenceNumber: 10}}
			for i := 0; i < m; i++ {
				msg.TokenAmounts = append(msg.TokenAmounts, cciptypes.RampTokenAmount{SourcePoolAddress: []byte{byte(i)}})
			}
			mo := exectypes.MessageObservations{5: {10: msg}}
			comp := tokendata.NewCompositeObservers(lggr, vC13sTokObs{n: n})
			code, what := vC13sRun(3*time.Second, func() error { _, err := comp.Observe(ctx, mo); return err })
			emit("zip6/token-data-merge", cApp("SZip", cN(6), vC13sNat(n), vC13sNat(m)), code, what, map[string]any{"from": n, "base": m})
		}
	}

	// ---- site append: MessageTokenData.Append — index >= len before out.TokenData[index]
	for _, l := range []int{0, 1, 2, 5} {
		for _, idx := range []int{0, 1, l - 1, l, l + 1, l + 7} {
			if idx < 0 {
				continue
			}
			mtd := exectypes.MessageTokenData{}
			if l > 0 {
				mtd.TokenData = make([]exectypes.TokenData, l)
			}
			outLen := -1
			code, what := vC13sRun(3*time.Second, func() error {
				o := mtd.Append(idx, exectypes.NewSuccessTokenData([]byte{9}))
				outLen = len(o.TokenData)
				return nil
			})
			emit("append", cApp("SAppend", cZ(int64(idx)), vC13sNat(l)), code, what, map[string]any{"index": idx, "len": l, "outLen": outLen})
		}
	}

	// ---- site merge-tok: mergeTokenObservations — inner maps are made before they are written; chains without F are errors
	for _, known := range []bool{true, false} {
		for _, nor := range []int{1, 2, 3} {
			for _, ntok := range []int{0, 1, 3} {
				var aos []plugincommon.AttributedObservation[exectypes.Observation]
				for o := 0; o < nor; o++ {
					td := make([]exectypes.TokenData, ntok)
					for i := range td {
						td[i] = exectypes.NewSuccessTokenData([]byte{byte(i)})
					}
					aos = append(aos, plugincommon.AttributedObservation[exectypes.Observation]{OracleID: commontypes.OracleID(o),
						Observation: exectypes.Observation{TokenData: exectypes.TokenDataObservations{
							5: {10: {TokenData: td}, 11 + cciptypes.SeqNum(o): {TokenData: td}},
							7: {20: {TokenData: td}},
						}}})
				}
				fChain := map[cciptypes.ChainSelector]int{5: 1}
				if known {
					fChain[7] = 1
				}
				code, what := vC13sRun(3*time.Second, func() error { _, err := mergeTokenObservations(aos, fChain); return err })
				emit("merge-tok/fknown="+fmt.Sprint(known), cApp("SMergeTok", cBool(known), vC13sNat(nor), vC13sNat(ntok)), code, what, map[string]any{"f_known": known, "oracles": nor, "tokens": ntok})
			}
		}
	}

	// ---- site deviates: mathslib.Deviates — zero check before the division
	vals := []int64{0, 1, -1, 2, 1000, -1000, 1e18}
	for _, a := range vals {
		for _, b := range vals {
			x1, x2 := big.NewInt(a), big.NewInt(b)
			code, what := vC13sRun(3*time.Second, func() error { _ = mathslib.Deviates(x1, x2, 1e7); return nil })
			emit("deviates", cApp("SDeviates", cSome(cZ(a)), cSome(cZ(b)), cZ(1e7)), code, what, map[string]any{"x1": a, "x2": b})
		}
	}

	// ---- site keep-right: typeconv.KeepNRightBytes — n >= len(b) before b[len(b)-n:]
	for _, l := range []int{0, 1, 19, 20, 21, 32} {
		for _, n := range []uint{0, 1, 19, 20, 21, 32, 33, math.MaxUint} {
			b := make([]byte, l)
			code, what := vC13sRun(3*time.Second, func() error { _ = typeconv.KeepNRightBytes(b, n); return nil })
			emit("keep-right", cApp("SKeepRight", vC13sNat(l), cN(uint64(n))), code, what, map[string]any{"len": l, "n": n})
		}
	}

	// ---- site filter-loop: filterOutExecutedMessages — "for ; s <= executed.End(); s++" over uint64 bounds.
	// One report [lo, hi], one executed range [a, b]; ranges stay short except where the bound is 2^64-1.
	// LAST class of this part: a loop that does not end also appends without end, so on the first watchdog
	// expiry the case is written and the process is stopped.
	type fl struct{ lo, hi, a, b uint64 }
	var fls []fl
	for _, hi := range []uint64{20, mx - 1, mx} {
		for _, w := range []uint64{0, 1, 3} { // report width - 1
			lo := hi - w
			for _, a := range []uint64{lo - 1, lo, lo + 1, hi} {
				for _, b := range []uint64{a, a + 1, hi - 1, hi, hi + 1} {
					if b < a || (b-a) > 8 {
						continue
					}
					fls = append(fls, fl{lo, hi, a, b})
				}
			}
		}
	}
	for _, c := range fls {
		reports := []exectypes.CommitData{{SourceChain: 5, SequenceNumberRange: cciptypes.NewSeqNumRange(cciptypes.SeqNum(c.lo), cciptypes.SeqNum(c.hi))}}
		executed := []cciptypes.SeqNumRange{cciptypes.NewSeqNumRange(cciptypes.SeqNum(c.a), cciptypes.SeqNum(c.b))}
		code, what := vC13sRun(150*time.Millisecond, func() error {
			_, err := filterOutExecutedMessages(reports, executed)
			if errors.Is(err, errOverlappingRanges) {
				return err
			}
			return err
		})
		emit("filter-loop", cApp("SFilterLoop", cN(c.lo), cN(c.hi), cN(c.a), cN(c.b)), code, what, map[string]any{"report": []uint64{c.lo, c.hi}, "executed": []uint64{c.a, c.b}})
		if code == 3 {
			sink.Close()
			os.Exit(3)
		}
	}
}

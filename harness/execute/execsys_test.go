//go:build verif

package execute

import (
	"bytes"
	"context"
	"encoding/binary"
	"encoding/hex"
	"fmt"
	"math/big"
	"os"
	"sort"
	"strings"
	"testing"
	"time"

	"golang.org/x/crypto/sha3"

	commonconfig "github.com/smartcontractkit/chainlink-common/pkg/config"
	"github.com/smartcontractkit/chainlink-common/pkg/hashutil"
	"github.com/smartcontractkit/libocr/commontypes"
	"github.com/smartcontractkit/libocr/offchainreporting2plus/ocr3types"
	"github.com/smartcontractkit/libocr/offchainreporting2plus/types"
	libocrtypes "github.com/smartcontractkit/libocr/ragep2p/types"

	"github.com/smartcontractkit/chainlink-ccip/execute/exectypes"
	typeconv "github.com/smartcontractkit/chainlink-ccip/internal/libs/typeconv"
	"github.com/smartcontractkit/chainlink-ccip/internal/mocks"
	readerpkg "github.com/smartcontractkit/chainlink-ccip/pkg/reader"
	cciptypes "github.com/smartcontractkit/chainlink-ccip/pkg/types/ccipocr3"
	"github.com/smartcontractkit/chainlink-ccip/pluginconfig"
	plugintypes2 "github.com/smartcontractkit/chainlink-ccip/plugintypes"
)

// Execute SYSTEM level (C07 / C08 / C09 composed): N real execute.Plugin instances built once per history with
// NewPlugin run whole cycles GetCommitReports -> GetMessages -> Filter over one scripted world (destination: commit
// reports, executed messages, sender nonces; sources: messages; token data and costly flags from scripted observers).
// Honest oracles observe through Plugin.Observation; deviating oracles (Byzantine: 0, 1 = within f, or f+1 colluding;
// lagging: an honest oracle reading the destination one cycle late) get their observation rewritten before it is
// encoded.  Every observation goes through JSON and Plugin.ValidateObservation; Plugin.Outcome runs on every oracle
// (all must agree).  One case = one cycle: configuration, previous outcome, per round (fChain, every observation with
// its oracle's supported chains) and, per round, the verdicts and the decoded outcome.  A failed round is repeated on
// the same previous outcome, as libocr would.

const vXSDest = cciptypes.ChainSelector(900)
const vXSWeight = 16 // codec: bytes charged per byte of message data

type vXSKey struct {
	c cciptypes.ChainSelector
	s uint64
}

type vXSRep struct {
	chain  cciptypes.ChainSelector
	lo, hi uint64
	root   cciptypes.Bytes32
	ts     time.Time
	block  uint64
	hidden bool // committed, but no honest reader returns it (only deviating oracles know it)
}

type vXSView struct {
	reps     []vXSRep
	executed map[vXSKey]bool
	nonces   map[cciptypes.ChainSelector]map[string]uint64
}

func (v *vXSView) clone() *vXSView {
	c := &vXSView{reps: append([]vXSRep{}, v.reps...), executed: map[vXSKey]bool{}, nonces: map[cciptypes.ChainSelector]map[string]uint64{}}
	for k, b := range v.executed {
		c.executed[k] = b
	}
	for ch, m := range v.nonces {
		c.nonces[ch] = map[string]uint64{}
		for s, n := range m {
			c.nonces[ch][s] = n
		}
	}
	return c
}

// 32-byte values -> small ids, and the keccak pairs of every tree computed
type vXSTab struct {
	in   *vIntern
	rows map[[2]uint64]bool
	list []string
}

func (t *vXSTab) id(h [32]byte) uint64 { return t.in.Id(hex.EncodeToString(h[:])) }
func (t *vXSTab) root(leaves [][32]byte) [32]byte {
	k := hashutil.NewKeccak()
	layer := append([][32]byte{}, leaves...)
	for len(layer) > 1 {
		if len(layer)%2 != 0 {
			layer = append(layer, k.ZeroHash())
		}
		var next [][32]byte
		for i := 0; i < len(layer); i += 2 {
			c := k.HashInternal(layer[i], layer[i+1])
			a, b := t.id(layer[i]), t.id(layer[i+1])
			if a > b {
				a, b = b, a
			}
			if !t.rows[[2]uint64{a, b}] {
				t.rows[[2]uint64{a, b}] = true
				t.list = append(t.list, cTup(cN(a), cN(b), cN(t.id(c))))
			}
			next = append(next, c)
		}
		layer = next
	}
	if len(layer) == 0 {
		return [32]byte{}
	}
	return layer[0]
}

type vXSWorld struct {
	r         *vRand
	chains    []cciptypes.ChainSelector
	msgs      map[vXSKey]cciptypes.Message
	toks      map[vXSKey][]exectypes.TokenData
	costly    map[cciptypes.Bytes32]bool
	gas       map[cciptypes.Bytes32]uint64
	sender    [3][]byte
	senderStr [3]string
	cur       *vXSView
	stale     *vXSView
	next      map[cciptypes.ChainSelector]uint64
	nextNonce map[cciptypes.ChainSelector]*[3]uint64
	block     uint64
	t0        time.Time
	plain     bool // probes: every report has three ready, affordable, out-of-order messages
	failExec  bool // the executed-range query fails for every range of a chain but the last (all oracles)
	tab       *vXSTab
	senders   *vIntern
	datas     *vIntern
	// per case: shared subterms (printed once, bound by let) and the ids seen (printed as their rank)
	shared map[string]string
	lets   []string
	keys   map[uint64]bool
}

// share prints a subterm once per case
func (w *vXSWorld) share(term string) string {
	if v, ok := w.shared[term]; ok {
		return v
	}
	v := fmt.Sprintf("v%d", len(w.shared))
	w.shared[term] = v
	w.lets = append(w.lets, "let "+v+" := "+term+" in ")
	return v
}

// key prints an id as a placeholder; finish replaces every placeholder by the rank of the id among the ids of the case
// (only the order of ids matters: MinObservation.GetValid sorts by id)
func (w *vXSWorld) key(k uint64) string {
	w.keys[k] = true
	return fmt.Sprintf("@%016x@", k)
}
func (w *vXSWorld) begin() {
	w.shared, w.lets, w.keys = map[string]string{}, nil, map[uint64]bool{}
}
func (w *vXSWorld) finish(body string) string {
	ks := make([]uint64, 0, len(w.keys))
	for k := range w.keys {
		ks = append(ks, k)
	}
	vSortU64(ks)
	out := "(" + strings.Join(w.lets, "") + body + ")"
	for i, k := range ks {
		out = strings.ReplaceAll(out, fmt.Sprintf("@%016x@", k), cNi(i+1))
	}
	return out
}

func vXSB32(r *vRand) (b [32]byte) {
	for i := 0; i < 4; i++ {
		binary.BigEndian.PutUint64(b[8*i:], r.U64())
	}
	return
}

func (w *vXSWorld) commit(c cciptypes.ChainSelector, hidden bool) {
	r := w.r
	if r.Chance(1, 5) {
		w.next[c]++
	}
	lo := w.next[c]
	n := uint64(r.Range(1, 4))
	if w.plain {
		n = 3
	}
	hi := lo + n - 1
	w.next[c] = hi + 1
	var leaves [][32]byte
	for s := lo; s <= hi; s++ {
		k := r.Intn(3)
		m := cciptypes.Message{
			Header: cciptypes.RampMessageHeader{MessageID: vXSB32(r), SourceChainSelector: c, DestChainSelector: vXSDest,
				SequenceNumber: cciptypes.SeqNum(s)},
			Sender: append([]byte{}, w.sender[k]...), Data: make([]byte, vPick(r, []int{0, 1, 5, 20})),
			FeeTokenAmount: cciptypes.NewBigIntFromInt64(1), FeeValueJuels: cciptypes.NewBigIntFromInt64(1),
		}
		if !hidden && !r.Chance(1, 3) && !w.plain {
			m.Header.Nonce = w.nextNonce[c][k]
			w.nextNonce[c][k]++
			if r.Chance(1, 20) {
				w.nextNonce[c][k]++ // a gap: the successors are not in order
			}
		}
		key := vXSKey{c, s}
		w.msgs[key] = m
		td := []exectypes.TokenData{}
		for q := vPick(r, []int{0, 0, 1, 2}); q > 0; q-- {
			td = append(td, exectypes.TokenData{Ready: !r.Chance(1, 8), Data: []byte{byte(1 + r.Intn(5)), byte(q)}, Supported: true})
		}
		if w.plain {
			td = []exectypes.TokenData{}
		}
		w.toks[key] = td
		if r.Chance(1, 12) && !w.plain {
			w.costly[m.Header.MessageID] = true
		}
		w.gas[m.Header.MessageID] = uint64(vPick(r, []int{0, 100, 5000}))
		leaves = append(leaves, m.Header.MessageID)
	}
	w.block++
	w.cur.reps = append(w.cur.reps, vXSRep{chain: c, lo: lo, hi: hi, root: w.tab.root(leaves),
		ts: w.t0.Add(time.Duration(w.block) * time.Minute), block: w.block, hidden: hidden})
}

var vXSNotFound = readerpkg.ErrContractReaderNotFound

func (w *vXSWorld) reader(view func() *vXSView, reads func(cciptypes.ChainSelector) bool) *vCCIPReader {
	return &vCCIPReader{
		CommitReportsFn: func(dest cciptypes.ChainSelector, ts time.Time, limit int) ([]plugintypes2.CommitPluginReportWithMeta, error) {
			var out []plugintypes2.CommitPluginReportWithMeta
			for _, p := range view().reps {
				if p.hidden {
					continue
				}
				out = append(out, plugintypes2.CommitPluginReportWithMeta{
					Report: cciptypes.CommitPluginReport{MerkleRoots: []cciptypes.MerkleRootChain{{ChainSel: p.chain,
						SeqNumsRange: cciptypes.NewSeqNumRange(cciptypes.SeqNum(p.lo), cciptypes.SeqNum(p.hi)), MerkleRoot: p.root}}},
					Timestamp: p.ts, BlockNum: p.block})
			}
			return out, nil
		},
		ExecutedFn: func(source, dest cciptypes.ChainSelector, q cciptypes.SeqNumRange) ([]cciptypes.SeqNumRange, error) {
			if w.failExec {
				for _, p := range view().reps {
					if p.chain == source && !p.hidden && p.lo > uint64(q.End()) {
						return nil, vErrNext() // not the last range of this chain
					}
				}
			}
			var out []cciptypes.SeqNumRange
			for s := uint64(q.Start()); s <= uint64(q.End()); s++ {
				if view().executed[vXSKey{source, s}] {
					out = append(out, cciptypes.NewSeqNumRange(cciptypes.SeqNum(s), cciptypes.SeqNum(s)))
				}
			}
			return out, nil
		},
		MsgsFn: func(chain cciptypes.ChainSelector, q cciptypes.SeqNumRange) ([]cciptypes.Message, error) {
			if !reads(chain) {
				return nil, vXSNotFound
			}
			var out []cciptypes.Message
			for s := uint64(q.Start()); s <= uint64(q.End()); s++ {
				if m, ok := w.msgs[vXSKey{chain, s}]; ok {
					out = append(out, m)
				}
			}
			return out, nil
		},
		NoncesFn: func(source, dest cciptypes.ChainSelector, addrs []string) (map[string]uint64, error) {
			out := map[string]uint64{}
			for _, a := range addrs {
				out[a] = view().nonces[source][a]
			}
			return out, nil
		},
		CurseFn: func(dest cciptypes.ChainSelector, src []cciptypes.ChainSelector) (*readerpkg.CurseInfo, error) {
			return &readerpkg.CurseInfo{CursedSourceChains: map[cciptypes.ChainSelector]bool{}}, nil
		},
	}
}

// scripted token data observer: the world's token data of every observed message
type vXSTok struct{ w *vXSWorld }

func (t vXSTok) Observe(_ context.Context, mo exectypes.MessageObservations) (exectypes.TokenDataObservations, error) {
	out := exectypes.TokenDataObservations{}
	for c, ms := range mo {
		out[c] = map[cciptypes.SeqNum]exectypes.MessageTokenData{}
		for s := range ms {
			out[c][s] = exectypes.NewMessageTokenData(append([]exectypes.TokenData{}, t.w.toks[vXSKey{c, uint64(s)}]...)...)
		}
	}
	return out, nil
}
func (t vXSTok) IsTokenSupported(cciptypes.ChainSelector, cciptypes.RampTokenAmount) bool {
	return false
}
func (t vXSTok) Close() error { return nil }

type vXSCostly struct{ w *vXSWorld }

func (c vXSCostly) Observe(_ context.Context, ms []cciptypes.Message, _ map[cciptypes.Bytes32]time.Time) ([]cciptypes.Bytes32, error) {
	var out []cciptypes.Bytes32
	for _, m := range ms {
		if c.w.costly[m.Header.MessageID] {
			out = append(out, m.Header.MessageID)
		}
	}
	sort.Slice(out, func(i, j int) bool { return bytes.Compare(out[i][:], out[j][:]) < 0 })
	return out, nil
}

type vXSCodec struct{ base int }

func (c vXSCodec) Encode(_ context.Context, rep cciptypes.ExecutePluginReport) ([]byte, error) {
	size := c.base
	for _, cr := range rep.ChainReports {
		for _, m := range cr.Messages {
			size += vXSWeight * len(m.Data)
		}
		size += 32 * len(cr.Proofs)
		for _, td := range cr.OffchainTokenData {
			size += 3 * len(td)
		}
	}
	return make([]byte, size), nil
}
func (c vXSCodec) Decode(context.Context, []byte) (cciptypes.ExecutePluginReport, error) {
	return cciptypes.ExecutePluginReport{}, fmt.Errorf("not used")
}

type vXSEst struct {
	w        *vXSWorld
	tga, tgb uint64
}

func (e vXSEst) CalculateMerkleTreeGas(n int) uint64 { return e.tga + e.tgb*uint64(n) }
func (e vXSEst) CalculateMessageMaxGas(m cciptypes.Message) uint64 {
	return e.w.gas[m.Header.MessageID]
}

// ---- identities (the implementation's id function, first 8 bytes) ----
func vXSKey64(s string) uint64 {
	h := sha3.Sum256([]byte(s))
	return binary.BigEndian.Uint64(h[:8])
}
func vXSCommitKey(d exectypes.CommitData) uint64 {
	d.Timestamp = d.Timestamp.UTC() // mergeCommitObservations normalises before Add
	return vXSKey64(fmt.Sprintf("%v", d))
}
func vXSMsgKey(m cciptypes.Message) uint64 { return vXSKey64(fmt.Sprintf("%v", m)) }

type vXSNonceTriplet struct {
	source cciptypes.ChainSelector
	sender []byte
	nonce  uint64
}

func vXSNonceKey(c cciptypes.ChainSelector, sender string, n uint64) uint64 {
	return vXSKey64(fmt.Sprintf("%v", vXSNonceTriplet{source: c, sender: []byte(sender), nonce: n}))
}

// ---- printing ----
func (w *vXSWorld) msgOf(m cciptypes.Message) string {
	s := typeconv.AddressBytesToString(m.Sender[:], uint64(vXSDest))
	return (cApp("XMsg", cN(w.tab.id(m.Header.MessageID)), cN(uint64(m.Header.SourceChainSelector)),
		cN(uint64(m.Header.SequenceNumber)), cN(m.Header.Nonce), cN(w.senders.Id(s)), cNi(vXSWeight*len(m.Data)),
		cN(w.gas[m.Header.MessageID])))
}
func (w *vXSWorld) dataID(b []byte) uint64 {
	if len(b) == 0 {
		return 0
	}
	return w.datas.Id(hex.EncodeToString(b))
}
func (w *vXSWorld) cdOf(cd exectypes.CommitData) string {
	ex := make([]string, len(cd.ExecutedMessages))
	for i, e := range cd.ExecutedMessages {
		ex[i] = cN(uint64(e))
	}
	co := make([]string, len(cd.CostlyMessages))
	for i, e := range cd.CostlyMessages {
		co[i] = cN(w.tab.id(e))
	}
	td := make([]string, len(cd.MessageTokenData))
	for i, mtd := range cd.MessageTokenData {
		td[i] = cMap(mtd.TokenData, func(t exectypes.TokenData) string { return cPair(cBool(t.Ready), cN(w.dataID(t.Data))) })
	}
	return (cApp("XCD", cN(uint64(cd.SourceChain)), cN(w.tab.id(cd.MerkleRoot)),
		cN(uint64(cd.SequenceNumberRange.Start())), cN(uint64(cd.SequenceNumberRange.End())),
		cList(ex), cMap(cd.Messages, w.msgOf), cList(co), cList(td)))
}
func (w *vXSWorld) repOf(r cciptypes.ExecutePluginReportSingleChain) string {
	td := make([]string, len(r.OffchainTokenData))
	for i, x := range r.OffchainTokenData {
		td[i] = cMap(x, func(b []byte) string { return cN(w.dataID(b)) })
	}
	pr := cMap(r.Proofs, func(b cciptypes.Bytes32) string { return cN(w.tab.id(b)) })
	fl := big.NewInt(0)
	if r.ProofFlagBits.Int != nil {
		fl = r.ProofFlagBits.Int
	}
	return cApp("XCR", cN(uint64(r.SourceChainSelector)), cMap(r.Messages, w.msgOf), cList(td), pr, cZb(fl))
}

var vXSStates = map[exectypes.PluginState]uint64{exectypes.Unknown: 0, exectypes.Initialized: 1, exectypes.GetCommitReports: 2,
	exectypes.GetMessages: 3, exectypes.Filter: 4}

func (w *vXSWorld) outcomeOf(o exectypes.Outcome) string {
	return cApp("mkOut", cN(vXSStates[o.State]), cMap(o.PendingCommitReports, w.cdOf), cMap(o.Report.ChainReports, w.repOf))
}

func vXSChains[V any](m map[cciptypes.ChainSelector]V) []cciptypes.ChainSelector {
	ks := make([]cciptypes.ChainSelector, 0, len(m))
	for k := range m {
		ks = append(ks, k)
	}
	sort.Slice(ks, func(i, j int) bool { return ks[i] < ks[j] })
	return ks
}
func vXSSeqs[V any](m map[cciptypes.SeqNum]V) []cciptypes.SeqNum {
	ks := make([]cciptypes.SeqNum, 0, len(m))
	for k := range m {
		ks = append(ks, k)
	}
	sort.Slice(ks, func(i, j int) bool { return ks[i] < ks[j] })
	return ks
}

func (w *vXSWorld) obsOf(o exectypes.Observation, nkeys map[string]bool, nkeyList *[]string) string {
	var commits []string
	for _, c := range vXSChains(o.CommitReports) {
		commits = append(commits, cPair(cN(uint64(c)), cMap(o.CommitReports[c], func(d exectypes.CommitData) string {
			return (cApp("mkXC", w.key(vXSCommitKey(d)), cN(uint64(d.Timestamp.Unix())), w.cdOf(d)))
		})))
	}
	var msgs []string
	for _, c := range vXSChains(o.Messages) {
		var ss []string
		for _, s := range vXSSeqs(o.Messages[c]) {
			m := o.Messages[c][s]
			ss = append(ss, cPair(cN(uint64(s)), cApp("mkXM", w.key(vXSMsgKey(m)), w.msgOf(m))))
		}
		msgs = append(msgs, cPair(cN(uint64(c)), cList(ss)))
	}
	var toks []string
	for _, c := range vXSChains(o.TokenData) {
		var ss []string
		for _, s := range vXSSeqs(o.TokenData[c]) {
			ss = append(ss, cPair(cN(uint64(s)), cMap(o.TokenData[c][s].TokenData, func(t exectypes.TokenData) string {
				return cApp("XTok", cBool(t.Ready), cN(w.dataID(t.Data)))
			})))
		}
		toks = append(toks, cPair(cN(uint64(c)), cList(ss)))
	}
	costly := cMap(o.CostlyMessages, func(b cciptypes.Bytes32) string { return cN(w.tab.id(b)) })
	var nonces []string
	for _, c := range vXSChains(o.Nonces) {
		var names []string
		for s := range o.Nonces[c] {
			names = append(names, s)
		}
		sort.Strings(names)
		var ss []string
		for _, s := range names {
			n := o.Nonces[c][s]
			ss = append(ss, cPair(cN(w.senders.Id(s)), cN(n)))
			trip := cTup(cN(uint64(c)), cN(w.senders.Id(s)), cN(n))
			if !nkeys[trip] {
				nkeys[trip] = true
				*nkeyList = append(*nkeyList, cPair(trip, w.key(vXSNonceKey(c, s, n))))
			}
		}
		nonces = append(nonces, cPair(cN(uint64(c)), cList(ss)))
	}
	return w.share(cApp("mkSO", cList(commits), cList(msgs), cList(toks), costly, cList(nonces)))
}

// ---- deviating oracles ----
type vXSDev struct {
	shape [3]string // per round of the cycle
	seed  uint64
}

func vXSCopyObs(o exectypes.Observation) exectypes.Observation {
	b, _ := o.Encode()
	c, _ := exectypes.DecodeObservation(b)
	return c
}

func (w *vXSWorld) commitData(p vXSRep, full bool) exectypes.CommitData {
	d := exectypes.CommitData{SourceChain: p.chain, Timestamp: p.ts, BlockNum: p.block, MerkleRoot: p.root,
		SequenceNumberRange: cciptypes.NewSeqNumRange(cciptypes.SeqNum(p.lo), cciptypes.SeqNum(p.hi))}
	if full {
		for s := p.lo; s <= p.hi; s++ {
			d.Messages = append(d.Messages, w.msgs[vXSKey{p.chain, s}])
			d.MessageTokenData = append(d.MessageTokenData, exectypes.NewMessageTokenData())
		}
	}
	return d
}

// the rewriting of one observation; deterministic in (shape, seed, honest observation) so that colluding oracles agree
func (w *vXSWorld) deviate(round int, shape string, seed uint64, hon exectypes.Observation) exectypes.Observation {
	r := vNewRand(seed)
	o := vXSCopyObs(hon)
	other := func(c cciptypes.ChainSelector) cciptypes.ChainSelector { // another configured chain key
		for _, x := range append(append([]cciptypes.ChainSelector{}, w.chains...), vXSDest) {
			if x != c {
				return x
			}
		}
		return vXSDest
	}
	var hidden *vXSRep
	for i := range w.cur.reps {
		if w.cur.reps[i].hidden {
			hidden = &w.cur.reps[i]
		}
	}
	addHidden := func(full bool) {
		if hidden == nil {
			return
		}
		if o.CommitReports == nil {
			o.CommitReports = exectypes.CommitObservations{}
		}
		o.CommitReports[hidden.chain] = append(o.CommitReports[hidden.chain], w.commitData(*hidden, full))
		sort.Slice(o.CommitReports[hidden.chain], func(i, j int) bool {
			return o.CommitReports[hidden.chain][i].SequenceNumberRange.Start() < o.CommitReports[hidden.chain][j].SequenceNumberRange.Start()
		})
	}
	switch shape {
	case "drop":
		return exectypes.Observation{Contracts: hon.Contracts}
	case "exec-variant": // disagree on executed sets
		for c, ds := range o.CommitReports {
			for i := range ds {
				if r.Bool() {
					if len(ds[i].ExecutedMessages) > 0 {
						ds[i].ExecutedMessages = nil
					} else {
						ds[i].ExecutedMessages = []cciptypes.SeqNum{ds[i].SequenceNumberRange.Start()}
					}
				}
			}
			o.CommitReports[c] = ds
		}
	case "foreign-key": // the reports of one chain filed under another chain key (moved or copied)
		for _, c := range vXSChains(o.CommitReports) {
			k := other(c)
			if _, ok := o.CommitReports[k]; ok {
				continue
			}
			o.CommitReports[k] = append([]exectypes.CommitData{}, o.CommitReports[c]...)
			if r.Bool() {
				delete(o.CommitReports, c)
			}
			break
		}
	case "bogus-commit": // a report nobody committed, far away from the real ranges, under any key
		if o.CommitReports == nil {
			o.CommitReports = exectypes.CommitObservations{}
		}
		c := vPick(r, w.chains)
		k := c
		if r.Bool() {
			k = other(c)
		}
		o.CommitReports[k] = append(o.CommitReports[k], exectypes.CommitData{SourceChain: c, Timestamp: w.t0, BlockNum: 7,
			MerkleRoot: vXSB32(r), SequenceNumberRange: cciptypes.NewSeqNumRange(5000, 5001)})
	case "poison": // a forged report over the range of a real pending report of chain 1, filed under chain key 2
		for _, p := range w.cur.reps {
			if p.chain == 1 && !p.hidden && !w.cur.executed[vXSKey{1, p.lo}] {
				if o.CommitReports == nil {
					o.CommitReports = exectypes.CommitObservations{}
				}
				hi, ts := p.hi, p.ts.Add(time.Second)
				if os.Getenv("VERIF_XS_PROBE") == "poison1" {
					// a one-message range sorted before the real report: computeRanges does not call it overlapping, the
					// report builder meets it
					hi, ts = p.lo, p.ts.Add(-time.Second)
				}
				o.CommitReports[2] = append(o.CommitReports[2], exectypes.CommitData{SourceChain: 1, Timestamp: ts,
					BlockNum: p.block, MerkleRoot: vXSB32(r), SequenceNumberRange: cciptypes.NewSeqNumRange(cciptypes.SeqNum(p.lo), cciptypes.SeqNum(hi))})
				break
			}
		}
	case "dup-commit": // the same report twice (validation refuses)
		for c, ds := range o.CommitReports {
			if len(ds) > 0 {
				o.CommitReports[c] = append(ds, ds[0])
				break
			}
		}
	case "ts-variant":
		for c, ds := range o.CommitReports {
			for i := range ds {
				ds[i].Timestamp = ds[i].Timestamp.Add(time.Second)
			}
			o.CommitReports[c] = ds
		}
	case "with-messages": // commit data that already carries messages / token data / costly ids
		for c, ds := range o.CommitReports {
			for i := range ds {
				for s := uint64(ds[i].SequenceNumberRange.Start()); s <= uint64(ds[i].SequenceNumberRange.End()); s++ {
					if m, ok := w.msgs[vXSKey{ds[i].SourceChain, s}]; ok && r.Bool() {
						ds[i].Messages = append(ds[i].Messages, m)
						ds[i].MessageTokenData = append(ds[i].MessageTokenData, exectypes.NewMessageTokenData(exectypes.TokenData{Ready: true, Data: []byte{9}}))
						ds[i].CostlyMessages = append(ds[i].CostlyMessages, m.Header.MessageID)
					}
				}
			}
			o.CommitReports[c] = ds
		}
	case "hidden-commit": // a committed report the honest oracles do not see
		addHidden(false)
	case "hidden-full": // ... with its messages inside the commit data and in the message / token observations
		addHidden(true)
		if hidden != nil {
			if o.Messages == nil {
				o.Messages = exectypes.MessageObservations{}
			}
			if o.TokenData == nil {
				o.TokenData = exectypes.TokenDataObservations{}
			}
			if o.Messages[hidden.chain] == nil {
				o.Messages[hidden.chain] = map[cciptypes.SeqNum]cciptypes.Message{}
			}
			if o.TokenData[hidden.chain] == nil {
				o.TokenData[hidden.chain] = map[cciptypes.SeqNum]exectypes.MessageTokenData{}
			}
			for s := hidden.lo; s <= hidden.hi; s++ {
				o.Messages[hidden.chain][cciptypes.SeqNum(s)] = w.msgs[vXSKey{hidden.chain, s}]
				o.TokenData[hidden.chain][cciptypes.SeqNum(s)] = exectypes.NewMessageTokenData()
			}
		}
	case "msg-variant": // other content under the same header
		for c, ms := range o.Messages {
			for s, m := range ms {
				if r.Bool() {
					m.Data = append(append([]byte{}, m.Data...), 0xEE)
					if r.Bool() {
						m.Header.Nonce++
					}
					o.Messages[c][s] = m
				}
			}
		}
	case "msg-foreign": // messages of one chain filed under another chain key
		for _, c := range vXSChains(o.Messages) {
			k := other(c)
			if k == vXSDest || len(o.Messages[k]) > 0 {
				continue
			}
			o.Messages[k] = o.Messages[c]
			if r.Bool() {
				delete(o.Messages, c)
			}
			break
		}
	case "msg-drop":
		for c, ms := range o.Messages {
			for s := range ms {
				if r.Chance(1, 3) {
					delete(o.Messages[c], s)
				}
			}
		}
	case "extra-slot": // F13e
		for c, ss := range o.TokenData {
			for s, td := range ss {
				if r.Bool() {
					td.TokenData = append(td.TokenData, exectypes.TokenData{Ready: true, Data: []byte{0xAB}})
					o.TokenData[c][s] = td
				}
			}
		}
	case "tok-variant":
		for c, ss := range o.TokenData {
			for s, td := range ss {
				for i := range td.TokenData {
					if r.Bool() {
						td.TokenData[i].Data = []byte{0xCD, byte(i)}
					} else {
						td.TokenData[i].Ready = !td.TokenData[i].Ready
					}
				}
				o.TokenData[c][s] = td
			}
		}
	case "tok-shift": // the token data of every message filed under the next sequence number
		for c, ss := range o.TokenData {
			sh := map[cciptypes.SeqNum]exectypes.MessageTokenData{}
			for s, td := range ss {
				sh[s+1] = td
			}
			o.TokenData[c] = sh
		}
	case "costly-all":
		for _, ms := range o.Messages {
			for _, m := range ms {
				o.CostlyMessages = append(o.CostlyMessages, m.Header.MessageID, m.Header.MessageID)
			}
		}
	case "costly-none":
		o.CostlyMessages = nil
	case "nonce-plus": // every nonce one too high
		for c, ns := range o.Nonces {
			for s, n := range ns {
				o.Nonces[c][s] = n + 1
			}
		}
	case "nonce-foreign":
		for _, c := range vXSChains(o.Nonces) {
			k := other(c)
			if _, ok := o.Nonces[k]; ok {
				continue
			}
			o.Nonces[k] = o.Nonces[c]
			delete(o.Nonces, c)
			break
		}
	case "nonce-extra":
		if o.Nonces == nil {
			o.Nonces = exectypes.NonceObservations{}
		}
		c := vPick(r, w.chains)
		if o.Nonces[c] == nil {
			o.Nonces[c] = map[string]uint64{}
		}
		o.Nonces[c]["0xdeadbeef"] = 4
	}
	return o
}

var vXSShapes = [3][]string{
	{"drop", "exec-variant", "foreign-key", "bogus-commit", "dup-commit", "ts-variant", "with-messages", "hidden-commit", "hidden-full"},
	{"drop", "msg-variant", "msg-foreign", "msg-drop", "extra-slot", "tok-variant", "tok-shift", "costly-all", "costly-none", "hidden-commit", "hidden-full", "bogus-commit", "exec-variant"},
	{"drop", "nonce-plus", "nonce-foreign", "nonce-extra", "hidden-full", "hidden-commit", "msg-variant"},
}

// ---- the DON ----
type vXSDon struct {
	n      int
	F      int
	nodes  []*Plugin
	ids    []commontypes.OracleID
	p2p    map[commontypes.OracleID]libocrtypes.PeerID
	hc     *vHomeChain
	prev   []byte
	seq    uint64
	lag    int // index of the lagging oracle, -1 = none
	byz    map[int]bool
	reads2 map[int]bool // oracles that do not read chain 2
}

type vXSRound struct {
	in, out string
	state   exectypes.PluginState
	ok      bool
	oc      exectypes.Outcome
	fail    string
	obsErrs []string
}

func (d *vXSDon) round(ctx context.Context, w *vXSWorld, k int, dev vXSDev, nkeys map[string]bool, nkeyList *[]string) vXSRound {
	d.seq++
	outctx := ocr3types.OutcomeContext{SeqNr: d.seq, PreviousOutcome: d.prev}
	var aos []types.AttributedObservation
	var obsS, vals, obsErrs []string
	fchain, _ := d.hc.GetFChain()
	var fc []string
	for _, c := range vXSChains(fchain) {
		fc = append(fc, cPair(cN(uint64(c)), cZ(int64(fchain[c]))))
	}
	raws := make([][]byte, len(d.nodes))
	for i, n := range d.nodes {
		raw, err := n.Observation(ctx, outctx, nil)
		if err != nil {
			// the oracle has nothing to send in this round (libocr goes on without it)
			obsErrs = append(obsErrs, fmt.Sprintf("oracle %d: %v", i, err))
			continue
		}
		raws[i] = raw
	}
	for i := range d.nodes {
		raw := raws[i]
		if raw == nil {
			continue
		}
		if d.byz[i] && k >= 0 {
			if dev.shape[k] == "echo-lag" && d.lag >= 0 && raws[d.lag] != nil {
				raw = raws[d.lag] // seconds the lagging reader: what it sends is an honest, but stale, observation
			} else {
				hon, err := exectypes.DecodeObservation(raw)
				if err != nil {
					return vXSRound{fail: "honest observation does not decode"}
				}
				raw, err = w.deviate(k, dev.shape[k], dev.seed+uint64(k), hon).Encode()
				if err != nil {
					return vXSRound{fail: "deviating observation does not encode"}
				}
			}
		}
		ao := types.AttributedObservation{Observation: raw, Observer: d.ids[i]}
		verdict := d.nodes[0].ValidateObservation(ctx, outctx, nil, ao) == nil
		if verdict {
			aos = append(aos, ao)
		}
		dec, err := exectypes.DecodeObservation(raw)
		if err != nil {
			return vXSRound{fail: "observation does not decode"}
		}
		sup, _ := d.hc.GetSupportedChainsForPeer(d.p2p[d.ids[i]])
		var ss []uint64
		for _, c := range sup.ToSlice() {
			ss = append(ss, uint64(c))
		}
		vSortU64(ss)
		obsS = append(obsS, cTup(cN(uint64(d.ids[i])), cListN(ss), w.obsOf(dec, nkeys, nkeyList)))
		vals = append(vals, cBool(verdict))
	}
	res := vXSRound{in: cPair(cList(fc), cList(obsS)), obsErrs: obsErrs}
	var first []byte
	var firstErr bool
	for i, n := range d.nodes {
		var o []byte
		var err error
		func() {
			defer func() {
				if rec := recover(); rec != nil {
					err = fmt.Errorf("panic: %v", rec)
					res.fail = fmt.Sprintf("outcome of oracle %d panicked: %v", i, rec)
				}
			}()
			o, err = n.Outcome(ctx, outctx, nil, aos)
		}()
		if res.fail != "" {
			return res
		}
		if i == 0 {
			first, firstErr = o, err != nil
		} else if firstErr != (err != nil) || !bytes.Equal(first, o) {
			res.fail = "oracles disagree on the outcome"
			return res
		}
	}
	if firstErr {
		res.out = cPair(cList(vals), "Err")
		return res
	}
	oc, err := exectypes.DecodeOutcome(first)
	if err != nil {
		res.fail = "outcome does not decode"
		return res
	}
	// rows for every tree the builder may compute over this outcome's reports
	for _, cd := range oc.PendingCommitReports {
		if len(cd.Messages) > 0 {
			var leaves [][32]byte
			for _, m := range cd.Messages {
				leaves = append(leaves, m.Header.MessageID)
			}
			w.tab.root(leaves)
		}
	}
	d.prev = first
	res.ok, res.oc, res.state = true, oc, oc.State
	res.out = cPair(cList(vals), "(Ok "+w.outcomeOf(oc)+")")
	return res
}

// ground truth of a cycle: the eligible pending messages of the destination's current content, in builder order
func (w *vXSWorld) expected(keep func(vXSRep) bool) [][2]uint64 {
	type rk struct {
		c  cciptypes.ChainSelector
		lo uint64
	}
	reps := append([]vXSRep{}, w.cur.reps...)
	sort.SliceStable(reps, func(i, j int) bool {
		if reps[i].chain != reps[j].chain {
			return reps[i].chain < reps[j].chain
		}
		return reps[i].lo < reps[j].lo
	})
	exp := map[string]uint64{}
	var out [][2]uint64
	for _, p := range reps {
		configured := false
		for _, c := range w.chains {
			configured = configured || c == p.chain
		}
		if p.hidden || !keep(p) || !configured {
			continue
		}
		for s := p.lo; s <= p.hi; s++ {
			key := vXSKey{p.chain, s}
			m := w.msgs[key]
			if w.cur.executed[key] {
				continue
			}
			ready := true
			for _, t := range w.toks[key] {
				ready = ready && t.Ready
			}
			if !ready || w.costly[m.Header.MessageID] {
				continue
			}
			if m.Header.Nonce != 0 {
				sd := typeconv.AddressBytesToString(m.Sender[:], uint64(vXSDest))
				k := fmt.Sprintf("%d/%s", p.chain, sd)
				if _, ok := exp[k]; !ok {
					exp[k] = w.cur.nonces[p.chain][sd] + 1
				}
				if m.Header.Nonce != exp[k] {
					continue
				}
				exp[k]++
			}
			out = append(out, [2]uint64{uint64(p.chain), s})
		}
	}
	return out
}

func TestVerif_ExecSys(t *testing.T) {
	ctx := context.Background()
	// splitmix streams of neighbouring seeds are shifted copies of each other: hash the seed first
	r := vNewRand(vHash48(fmt.Sprintf("execsys/%d", vSeed())))
	nCases := vEnvInt("VERIF_N", 60)
	probe := os.Getenv("VERIF_XS_PROBE")
	var sinks [4]*vSink // four sinks so that the Coq judge runs on four shards side by side
	for i := range sinks {
		sinks[i] = vOpenSink(fmt.Sprintf("ExecSys_cycle_%d", i))
		defer sinks[i].Close()
	}
	emitted := 0
	for h := 0; emitted < nCases; h++ {
		hr := vNewRand(r.U64())
		poison := probe == "poison" || probe == "poison1"
		split := probe == "split"
		big7 := (hr.Chance(1, 6) || poison) && !split
		n, F := 4, 1
		if big7 {
			n, F = 7, 2
		}
		nch := hr.Range(1, 2)
		if poison {
			nch = 2
		}
		if split {
			nch = 1
		}
		w := &vXSWorld{r: hr, msgs: map[vXSKey]cciptypes.Message{}, toks: map[vXSKey][]exectypes.TokenData{},
			costly: map[cciptypes.Bytes32]bool{}, gas: map[cciptypes.Bytes32]uint64{},
			cur:  &vXSView{executed: map[vXSKey]bool{}, nonces: map[cciptypes.ChainSelector]map[string]uint64{}},
			next: map[cciptypes.ChainSelector]uint64{}, nextNonce: map[cciptypes.ChainSelector]*[3]uint64{},
			t0:  time.Now().UTC().Add(-2 * time.Hour).Truncate(time.Second),
			tab: &vXSTab{in: vNewIntern(), rows: map[[2]uint64]bool{}}, senders: vNewIntern(), datas: vNewIntern()}
		w.plain = split
		zeroID := w.tab.id(hashutil.NewKeccak().ZeroHash())
		for k := range w.sender {
			b := make([]byte, 20)
			binary.BigEndian.PutUint64(b, hr.U64())
			b[19] = byte(k)
			w.sender[k] = b
			w.senderStr[k] = typeconv.AddressBytesToString(b, uint64(vXSDest))
		}
		for c := 1; c <= nch; c++ {
			sel := cciptypes.ChainSelector(c)
			w.chains = append(w.chains, sel)
			w.next[sel] = uint64(hr.Range(1, 30))
			w.cur.nonces[sel] = map[string]uint64{}
			var nx [3]uint64
			for k := range nx {
				on := uint64(vPick(hr, []int{0, 3, 10, 41})) + 7*uint64(c)
				w.cur.nonces[sel][w.senderStr[k]] = on
				nx[k] = on + 1
			}
			w.nextNonce[sel] = &nx
		}
		d := &vXSDon{n: n, F: F, hc: vNewHomeChain(), p2p: map[commontypes.OracleID]libocrtypes.PeerID{}, lag: -1, byz: map[int]bool{}, reads2: map[int]bool{}}
		var peers []libocrtypes.PeerID
		for i := 0; i < n; i++ {
			d.ids = append(d.ids, commontypes.OracleID(i))
			d.p2p[commontypes.OracleID(i)] = vPeer(i)
			peers = append(peers, vPeer(i))
		}
		fOf := map[cciptypes.ChainSelector]int{vXSDest: F}
		for _, c := range w.chains {
			fOf[c] = F
		}
		if big7 && !poison {
			// f(source) and f(dest) drawn independently: commit reports, nonces and costly flags go by the destination's f
			fOf[vXSDest] = hr.Range(1, 2)
			for _, c := range w.chains {
				fOf[c] = hr.Range(1, 2)
			}
		}
		noRead2 := map[int]bool{}
		if hr.Chance(1, 5) && nch == 2 {
			noRead2[hr.Intn(n)] = true
		}
		if poison { // f(chain 2) = 1 is below the number of colluding oracles (2 <= F), which do not read chain 2
			fOf[2] = 1
			noRead2 = map[int]bool{5: true, 6: true}
		}
		chainPeers := map[cciptypes.ChainSelector][]libocrtypes.PeerID{vXSDest: peers}
		d.hc.SetChain(vXSDest, fOf[vXSDest], peers)
		for _, c := range w.chains {
			ps := peers
			if c == 2 && len(noRead2) > 0 {
				ps = nil
				for i, p := range peers {
					if !noRead2[i] {
						ps = append(ps, p)
					}
				}
			}
			chainPeers[c] = ps
			d.hc.SetChain(c, fOf[c], ps)
		}
		// the home chain configuration changes while the plugins live: f of a chain raised / lowered by one, a source
		// chain added with its f, a source chain removed
		setF := func(c cciptypes.ChainSelector, f int) {
			fOf[c] = f
			d.hc.SetChain(c, f, chainPeers[c])
		}
		added, removed := false, false
		applyCfg := func(kind string, c cciptypes.ChainSelector) string {
			switch kind {
			case "raise":
				if fOf[c] < 2 {
					setF(c, fOf[c]+1)
					return fmt.Sprintf("f(%d) raised to %d", c, fOf[c])
				}
			case "lower":
				if fOf[c] > 1 {
					setF(c, fOf[c]-1)
					return fmt.Sprintf("f(%d) lowered to %d", c, fOf[c])
				}
			case "lower-all":
				out := ""
				for _, x := range append(append([]cciptypes.ChainSelector{}, w.chains...), vXSDest) {
					if fOf[x] > 1 {
						setF(x, fOf[x]-1)
						out += fmt.Sprintf("f(%d) lowered to %d; ", x, fOf[x])
					}
				}
				return out
			case "add":
				if !added && !removed && len(w.chains) < 3 {
					added = true
					nc := cciptypes.ChainSelector(len(w.chains) + 1)
					w.chains = append(w.chains, nc)
					w.next[nc] = uint64(hr.Range(1, 30))
					w.cur.nonces[nc] = map[string]uint64{}
					var nx [3]uint64
					for k := range nx {
						on := uint64(vPick(hr, []int{0, 3, 10})) + 7*uint64(nc)
						w.cur.nonces[nc][w.senderStr[k]] = on
						nx[k] = on + 1
					}
					w.nextNonce[nc] = &nx
					chainPeers[nc] = peers
					setF(nc, hr.Range(1, 2))
					w.commit(nc, false) // the new lane has a committed report at once
					return fmt.Sprintf("chain %d added with f = %d", nc, fOf[nc])
				}
			case "remove":
				if !removed && !added && len(w.chains) >= 2 {
					removed = true
					rc := w.chains[len(w.chains)-1]
					w.chains = w.chains[:len(w.chains)-1]
					delete(fOf, rc)
					delete(d.hc.Configs, rc)
					return fmt.Sprintf("chain %d removed", rc)
				}
			}
			return ""
		}
		codec := vXSCodec{base: hr.Range(0, 20)}
		est := vXSEst{w: w, tga: uint64(hr.Range(0, 50)), tgb: uint64(hr.Range(0, 9))}
		batchGas := uint64(100000000)
		for i := 0; i < n; i++ {
			i := i
			view := func() *vXSView {
				if i == d.lag && w.stale != nil {
					return w.stale
				}
				return w.cur
			}
			reads := func(c cciptypes.ChainSelector) bool { return !(c == 2 && noRead2[i]) }
			d.nodes = append(d.nodes, NewPlugin(1, ocr3types.ReportingPluginConfig{OracleID: commontypes.OracleID(i), F: F, N: n},
				pluginconfig.ExecuteOffchainConfig{BatchGasLimit: batchGas, MessageVisibilityInterval: *commonconfig.MustNewDuration(8 * time.Hour)},
				vXSDest, d.p2p, w.reader(view, reads), codec, mocks.NewMessageHasher(), d.hc, vXSTok{w}, est, mocks.NullLogger, vXSCostly{w}))
		}
		// contract discovery round
		w.begin()
		if rr := d.round(ctx, w, -1, vXSDev{}, map[string]bool{}, &[]string{}); rr.fail != "" || !rr.ok {
			t.Fatalf("discovery round: %s", rr.fail)
		}
		// backlog
		pickChain := func() cciptypes.ChainSelector {
			if poison {
				return 1 // no reports of chain 2: the forged report filed under key 2 overlaps nothing there
			}
			return vPick(hr, w.chains)
		}
		for k := hr.Range(1, 3); k > 0; k-- {
			w.commit(pickChain(), false)
		}
		if hr.Chance(1, 2) && !poison && !split {
			w.commit(vPick(hr, w.chains), true)
		}
		cycles := hr.Range(2, 4)
		for cy := 0; cy < cycles && emitted < nCases; cy++ {
			// ---- who deviates in this cycle ----
			cls := vPick(hr, []string{"honest", "byz1", "byz1", "byz1", "collude", "collude", "lag", "lag+byz1", "lag+echo"})
			if split {
				cls = "honest" // the probe: an honest cycle whose report lands partly, then lag+echo
				if cy > 0 {
					cls = "lag+echo"
				}
			}
			if !poison && !split && cy > 0 {
				anyHigh := false
				for _, f := range fOf {
					anyHigh = anyHigh || f > 1
				}
				switch {
				case fOf[vXSDest] < 2 && hr.Chance(1, 6):
					cls = "fraise" // f(dest) raised by one before the cycle; old f+1 oracles collude
				case anyHigh && hr.Chance(1, 6):
					cls = "flower" // every f of 2 lowered by one before the cycle; exactly new f+1 = 2 oracles take part
				}
			}
			w.failExec = false
			if cy > 0 && hr.Chance(1, 10) && !split && cls != "fraise" && cls != "flower" {
				cls = "readerr" // the destination reader fails for part of the executed-range queries, on every oracle
				w.failExec = true
			}
			if poison {
				cls = "collude"
			}
			d.byz = map[int]bool{}
			d.lag = -1
			perm := hr.Perm(n)
			if poison {
				perm = []int{5, 6, 0, 1, 2, 3, 4}
			}
			nb := 0
			switch cls {
			case "byz1", "lag+byz1", "lag+echo":
				nb = 1
			case "collude":
				nb = F + 1
				if big7 && hr.Bool() {
					nb = 2 // between f+1 of one chain and f+1 of another when the f differ
				}
			}
			if poison {
				nb = 2 // two faulty oracles of seven: within F = 2
			}
			// ---- the home chain configuration moves: before the cycle (position 0) or between its rounds ----
			cfgKind, cfgAt, cfgChain, cfgNote := "", 0, vXSDest, ""
			switch cls {
			case "fraise":
				nb = fOf[vXSDest] + 1 // exactly the OLD threshold
				cfgKind, cfgAt, cfgChain = "raise", 0, vXSDest
			case "flower":
				nb = n - 2 // exactly the NEW threshold (1 + 1) takes part
				cfgKind, cfgAt = "lower-all", 0
				// the oracles that stay must read every chain
				var rest []int
				perm2 := perm[:0:0]
				for _, i := range perm {
					if noRead2[i] {
						perm2 = append(perm2, i)
					} else {
						rest = append(rest, i)
					}
				}
				perm = append(perm2, rest...)
			default:
				if !poison && !split && hr.Chance(1, 3) {
					cfgKind = vPick(hr, []string{"raise", "raise", "lower", "lower", "add", "remove"})
					cfgChain = vPick(hr, append(append([]cciptypes.ChainSelector{}, w.chains...), vXSDest))
					if cfgKind == "raise" || cfgKind == "lower" {
						cfgAt = hr.Intn(3)
					}
				}
			}
			if cfgKind != "" && cfgAt == 0 {
				cfgNote = applyCfg(cfgKind, cfgChain)
				cfgKind = ""
			}
			for k := 0; k < nb; k++ {
				d.byz[perm[k]] = true
			}
			if cls == "lag" || cls == "lag+byz1" || cls == "lag+echo" {
				d.lag = perm[nb]
			}
			dev := vXSDev{seed: hr.U64()}
			for k := 0; k < 3; k++ {
				dev.shape[k] = vPick(hr, vXSShapes[k])
				if hr.Chance(1, 3) {
					dev.shape[k] = "none"
				}
			}
			if cls == "lag+echo" {
				// the faulty oracle seconds the lagging reader in the GetCommitReports round and is honest afterwards
				dev.shape = [3]string{"echo-lag", "none", "none"}
			}
			if cls == "fraise" {
				// the colluding oracles know a committed report the honest readers do not see: old f+1 votes, below the new f+1
				dev.shape = [3]string{"hidden-commit", "none", "none"}
				haveHidden := false
				for _, p := range w.cur.reps {
					haveHidden = haveHidden || (p.hidden && !w.cur.executed[vXSKey{p.chain, p.lo}])
				}
				if !haveHidden {
					w.commit(pickChain(), true)
				}
			}
			if cls == "flower" {
				dev.shape = [3]string{"drop", "drop", "drop"}
			}
			live := cls == "honest" || cls == "byz1" || cls == "lag" || cls == "readerr" || cls == "lag+echo" || cls == "flower"
			if poison {
				dev.shape = [3]string{"poison", "none", "none"}
				live = true // two faulty oracles of seven, F = 2, f(1) = f(dest) = 2, neither reads chain 2
			}
			if big7 && cls == "lag+byz1" {
				live = true // two deviating oracles of seven: within f only where every f is 2
				for _, f := range fOf {
					if f < 2 {
						live = false
					}
				}
			}
			// a refused observation of a deviating oracle is a dropped one; a lagging reader that misses a report
			// entirely still leaves f+1 honest reporters
			exp := w.expected(func(vXSRep) bool { return true })
			if cls == "lag+echo" && w.stale != nil && n == 4 {
				// two of four oracles (f = 1) report the stale versions: a report whose stale and current version differ is agreed
				// in both versions and, being ambiguous, not pending in this cycle (repair of F76); the other reports must not be
				// blocked by it ("items lacking support are ignored without blocking the others")
				same := func(p vXSRep) bool {
					found := false
					for _, q := range w.stale.reps {
						if q.chain == p.chain && q.lo == p.lo && q.hi == p.hi {
							found = true
						}
					}
					if !found {
						return true // unknown to the stale view: reported in one version, by the two up-to-date oracles (f + 1)
					}
					for s := p.lo; s <= p.hi; s++ {
						if w.stale.executed[vXSKey{p.chain, s}] != w.cur.executed[vXSKey{p.chain, s}] {
							return false
						}
					}
					return true
				}
				exp = w.expected(same)
			} else if cls == "lag+echo" {
				live = big7 // seven oracles: two stale reporters stay below f_dest + 1 only when f_dest = 2
				if fOf[vXSDest] < 2 {
					live = false
				}
			}
			if cls == "readerr" {
				exp = nil // an unreadable chain: nothing is promised, but nothing executed may be reported either
			}
			// every chain must keep f+1 up-to-date honest observers, at the highest f it has during the cycle
			for _, c := range append(append([]cciptypes.ChainSelector{}, w.chains...), vXSDest) {
				fmax := fOf[c]
				if cfgKind == "raise" && cfgChain == c && fmax < 2 {
					fmax++
				}
				cnt := 0
				for i := 0; i < n; i++ {
					if !d.byz[i] && i != d.lag && !(c == 2 && noRead2[i]) {
						cnt++
					}
				}
				if cnt < fmax+1 {
					live = false
				}
			}
			executedAtStart := map[vXSKey]bool{}
			for key, b := range w.cur.executed {
				if b {
					executedAtStart[key] = true
				}
			}
			w.begin()
			prev0 := "out_init"
			if len(d.prev) > 0 {
				o, err := exectypes.DecodeOutcome(d.prev)
				if err != nil {
					t.Fatal(err)
				}
				prev0 = w.outcomeOf(o)
			}
			nkeys := map[string]bool{}
			var nkeyList, ins, outs, showRounds []string
			fail := ""
			var last exectypes.Outcome
			reached := false
			stuck, fails := false, 0
			for steps := 0; steps < 6; steps++ {
				k := 0 // which round of the cycle comes next is decided by the previous outcome
				if len(d.prev) > 0 {
					po, err := exectypes.DecodeOutcome(d.prev)
					if err != nil {
						t.Fatal(err)
					}
					k = map[exectypes.PluginState]int{exectypes.GetCommitReports: 0, exectypes.GetMessages: 1, exectypes.Filter: 2}[po.State.Next()]
				}
				if steps > 0 && k == 0 {
					break
				}
				if cfgKind != "" && k >= cfgAt {
					cfgNote = fmt.Sprintf("before round %d: %s", k+1, applyCfg(cfgKind, cfgChain))
					cfgKind = ""
				}
				rr := d.round(ctx, w, k, dev, nkeys, &nkeyList)
				if rr.fail != "" {
					fail = fmt.Sprintf("round %d: %s", k+1, rr.fail)
					break
				}
				ins = append(ins, rr.in)
				outs = append(outs, rr.out)
				if !rr.ok {
					showRounds = append(showRounds, fmt.Sprintf("round %d (%s): Outcome failed; observation errors: %v", k+1, dev.shape[k], rr.obsErrs))
					// libocr: nothing committed, the next round sees the same previous outcome
					if fails++; fails >= 2 {
						stuck = true
						break
					}
					continue
				}
				showRounds = append(showRounds, fmt.Sprintf("round %d (%s): state %q, %d pending, %d chain reports", k+1, dev.shape[k],
					rr.state, len(rr.oc.PendingCommitReports), len(rr.oc.Report.ChainReports)))
				if k == 2 && rr.state == exectypes.Filter {
					last, reached = rr.oc, true
				}
			}
			if fail != "" {
				t.Fatalf("history %d cycle %d (%s %v): %s", h, cy, cls, dev.shape, fail)
			}
			var expS []string
			for _, e := range exp {
				expS = append(expS, cPair(cN(e[0]), cN(e[1])))
			}
			var exeS []string
			var exeKeys []vXSKey
			for key := range executedAtStart {
				if cls == "lag+echo" {
					// f+1 oracles report the stale view: a report that is fully executed by now is agreed in its stale version
					// alone, so "nothing executed is reported" is not promised here - only that the ambiguous reports do not
					// block the others
					break
				}
				exeKeys = append(exeKeys, key)
			}
			sort.Slice(exeKeys, func(i, j int) bool {
				if exeKeys[i].c != exeKeys[j].c {
					return exeKeys[i].c < exeKeys[j].c
				}
				return exeKeys[i].s < exeKeys[j].s
			})
			for _, key := range exeKeys {
				exeS = append(exeS, cPair(cN(uint64(key.c)), cN(key.s)))
			}
			cfg := cApp("mkSCfg", cList(w.tab.list), cN(zeroID), cZ(int64(F)), cN(uint64(vXSDest)), cN(batchGas), cN(est.tga), cN(est.tgb),
				cNi(codec.base), cList(nkeyList), cBool(live), cList(expS), cList(exeS))
			nincl := 0
			for _, cr := range last.Report.ChainReports {
				nincl += len(cr.Messages)
			}
			label := fmt.Sprintf("%s/n%d/%s|%s|%s", cls, n, dev.shape[0], dev.shape[1], dev.shape[2])
			if nb == 0 {
				label = fmt.Sprintf("%s/n%d", cls, n)
			}
			sinks[emitted%4].Emit(fmt.Sprintf("ExecSys_cycle_%d", emitted%4), label, reached && nincl > 0, w.finish(cPair(cTup(cfg, prev0, cList(ins)), cList(outs))),
				map[string]any{"history": h, "cycle": cy, "class": cls, "oracles": n, "F": F, "deviating": fmt.Sprint(d.byz), "lagging": d.lag,
					"shapes": dev.shape, "homeChainChange": cfgNote, "rounds": showRounds, "expected": fmt.Sprint(exp), "included": nincl, "liveGroundTruth": live})
			emitted++
			if stuck {
				break // the DON does not leave this state any more: the history ends
			}
			// ---- the destination moves ----
			w.stale = w.cur.clone()
			if reached {
				land := hr.Intn(4) // 0,1: everything lands; 2: partly; 3: never
				if split {
					land = 2
				}
				for _, cr := range last.Report.ChainReports {
					for _, m := range cr.Messages {
						key := vXSKey{cr.SourceChainSelector, uint64(m.Header.SequenceNumber)}
						if _, real := w.msgs[key]; !real {
							continue
						}
						lands := land <= 1 || (land == 2 && hr.Bool())
						if split { // the first message of every chain report lands, the others do not
							lands = m.Header.SequenceNumber == cr.Messages[0].Header.SequenceNumber
						}
						if lands {
							w.cur.executed[key] = true
							if m.Header.Nonce != 0 {
								sd := typeconv.AddressBytesToString(m.Sender[:], uint64(vXSDest))
								if w.cur.nonces[cr.SourceChainSelector][sd] < m.Header.Nonce {
									w.cur.nonces[cr.SourceChainSelector][sd] = m.Header.Nonce
								}
							}
						}
					}
				}
			}
			newCommits := hr.Intn(3)
			if split {
				newCommits = 1 // a report the stale view does not know: it must not be blocked by the ambiguous ones
			}
			for k := newCommits; k > 0; k-- {
				w.commit(pickChain(), false)
			}
		}
	}
}

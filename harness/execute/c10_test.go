//go:build verif

package execute

import (
	"bytes"
	"context"
	"crypto/sha256"
	"encoding/hex"
	"fmt"
	"testing"
	"time"

	"github.com/smartcontractkit/chainlink-common/pkg/hashutil"
	"github.com/smartcontractkit/chainlink-common/pkg/merklemulti"
	"github.com/smartcontractkit/libocr/commontypes"
	"github.com/smartcontractkit/libocr/offchainreporting2plus/ocr3types"
	"github.com/smartcontractkit/libocr/offchainreporting2plus/types"
	libocrtypes "github.com/smartcontractkit/libocr/ragep2p/types"

	"github.com/smartcontractkit/chainlink-ccip/execute/exectypes"
	"github.com/smartcontractkit/chainlink-ccip/internal/mocks"
	"github.com/smartcontractkit/chainlink-ccip/internal/plugincommon"
	cciptypes "github.com/smartcontractkit/chainlink-ccip/pkg/types/ccipocr3"
	"github.com/smartcontractkit/chainlink-ccip/pluginconfig"
)

const vC10Dest = cciptypes.ChainSelector(900)

type vC10Gas struct{}

func (vC10Gas) CalculateMerkleTreeGas(n int) uint64                 { return uint64(1000 * n) }
func (vC10Gas) CalculateMessageMaxGas(msg cciptypes.Message) uint64 { return 50000 }

func vC10Plugin(n, f int, fChain map[cciptypes.ChainSelector]int, me int) *Plugin {
	p, _ := vC10PluginHC(n, f, fChain, me)
	return p
}

// a veteran: one long-lived plugin per DON size that is evaluated on EVERY case of the run next to the fresh instances;
// its home chain is re-pointed to the case's configuration, everything else the instance may have kept stays
type vC10Vet struct {
	p  *Plugin
	hc *vHomeChain
}

func vC10Repoint(hc *vHomeChain, n int, fChain map[cciptypes.ChainSelector]int) {
	var peers []libocrtypes.PeerID
	for i := 0; i < n; i++ {
		peers = append(peers, vPeer(i))
	}
	for ch := range hc.Configs {
		delete(hc.Configs, ch)
	}
	for ch, fc := range fChain {
		hc.SetChain(ch, fc, peers)
	}
}

func vC10PluginHC(n, f int, fChain map[cciptypes.ChainSelector]int, me int) (*Plugin, *vHomeChain) {
	hc := vNewHomeChain()
	m := map[commontypes.OracleID]libocrtypes.PeerID{}
	var peers []libocrtypes.PeerID
	for i := 0; i < n; i++ {
		m[commontypes.OracleID(i)] = vPeer(i)
		peers = append(peers, vPeer(i))
	}
	for ch, fc := range fChain {
		hc.SetChain(ch, fc, peers)
	}
	return &Plugin{
		reportingCfg:     ocr3types.ReportingPluginConfig{F: f, N: n, OracleID: commontypes.OracleID(me)},
		offchainCfg:      pluginconfig.ExecuteOffchainConfig{BatchGasLimit: 10_000_000},
		destChain:        vC10Dest,
		ccipReader:       &vCCIPReader{},
		reportCodec:      mocks.NewExecutePluginJSONReportCodec(),
		msgHasher:        mocks.NewMessageHasher(),
		homeChain:        hc,
		chainSupport:     plugincommon.NewChainSupport(mocks.NullLogger, hc, m, commontypes.OracleID(me), vC10Dest),
		oracleIDToP2pID:  m,
		estimateProvider: vC10Gas{},
		lggr:             mocks.NullLogger,
	}, hc
}

func vC10Msg(src cciptypes.ChainSelector, seq uint64, tag byte, sender byte, nonce uint64) cciptypes.Message {
	return cciptypes.Message{
		Header: cciptypes.RampMessageHeader{MessageID: cciptypes.Bytes32{tag, byte(src), byte(seq)}, SourceChainSelector: src,
			DestChainSelector: vC10Dest, SequenceNumber: cciptypes.SeqNum(seq), Nonce: nonce},
		Sender: []byte{sender}, Data: []byte{1, 2, 3}, Receiver: []byte{9}, FeeValueJuels: cciptypes.NewBigIntFromInt64(100),
	}
}

func vC10RootOf(msgs []cciptypes.Message) cciptypes.Bytes32 {
	leaves := make([][32]byte, len(msgs))
	for i, m := range msgs {
		leaves[i] = m.Header.MessageID
	}
	tr, err := merklemulti.NewTree(hashutil.NewKeccak(), leaves)
	if err != nil {
		panic(err)
	}
	return tr.Root()
}

var vC10BigSels = []cciptypes.ChainSelector{5009297550715157269, 11344663589394136015, 15971525489660198786, 4949039107694359620,
	3734403246176062136, 4051577828743386545, 6433500567565415381, 16015286601757825753, 13264668187771770619,
	1<<64 - 1, 1 << 63, 7}

func TestVerif_C10_exec(t *testing.T) {
	ctx := context.Background()
	r := vNewRand(vSeed() + 1011)
	n := vEnvInt("VERIF_N", 60)
	reps := vEnvInt("VERIF_REPS", 16)
	sink := vOpenSink("C10_exec")
	defer sink.Close()
	zones := []*time.Location{time.UTC, time.FixedZone("EET", 2*3600), time.FixedZone("LINT", 14*3600), time.FixedZone("", -5*3600)}
	savedLocal := time.Local
	defer func() { time.Local = savedLocal }()
	base := time.Date(2024, 11, 5, 12, 0, 0, 0, time.UTC)
	classes := []string{"plain", "plain", "plain", "f17a-executed-disagree", "f17b-two-msgs-one-seq", "f17c-two-nonces", "f25-utc-spelling", "equal-timestamps",
		"conflict-root", "conflict-end", "conflict-three", "foreign-chain-key"}
	vets := map[int][2]*vC10Vet{}
	for i := 0; i < n; i++ {
		cls := classes[i%len(classes)]
		N := vPick(r, []int{4, 7})
		F := (N - 1) / 3
		ns := r.Range(2, 4)
		perm := r.Perm(40)
		fChain := map[cciptypes.ChainSelector]int{vC10Dest: 1}
		var sources []cciptypes.ChainSelector
		// half of the cases use production-sized selectors (more than 2^63 apart / wrapping around 2^64 in a cycle; low bytes
		// pairwise distinct): a subtracting or truncating comparator orders those differently (seeded change C10-11)
		bigSels := r.Chance(1, 2)
		bigPerm := r.Perm(len(vC10BigSels))
		for k := 0; k < ns; k++ {
			ch := cciptypes.ChainSelector(perm[k] + 1)
			if bigSels {
				ch = vC10BigSels[bigPerm[k]]
			}
			sources = append(sources, ch)
			fChain[ch] = 1
		}
		if r.Chance(1, 3) {
			// a chain whose f is 0 (threshold f+1 = 1): every observed variant of an item is valid at once, so the order in
			// which valid items are handed on matters most here (seeded change C10-8 short-cut GetValid for thresholds <= 1)
			fChain[sources[0]] = 0
		}
		// ground truth: per source 1..3 commit reports of 1..3 messages
		type rep struct {
			cd   exectypes.CommitData
			msgs []cciptypes.Message
		}
		truth := map[cciptypes.ChainSelector][]rep{}
		for _, ch := range sources {
			start := uint64(r.Range(1, 5))
			for k := 0; k < r.Range(1, 3); k++ {
				ln := uint64(r.Range(1, 3))
				var msgs []cciptypes.Message
				for s := start; s < start+ln; s++ {
					msgs = append(msgs, vC10Msg(ch, s, 1, 1, s))
				}
				ts := base.Add(time.Duration(r.Intn(5)) * time.Minute)
				if cls == "equal-timestamps" {
					ts = base
				}
				truth[ch] = append(truth[ch], rep{cd: exectypes.CommitData{SourceChain: ch, Timestamp: ts, BlockNum: uint64(100 + k),
					MerkleRoot: vC10RootOf(msgs), SequenceNumberRange: cciptypes.NewSeqNumRange(cciptypes.SeqNum(start), cciptypes.SeqNum(start+ln-1))}, msgs: msgs})
				start += ln
			}
		}
		state := vPick(r, []exectypes.PluginState{exectypes.GetCommitReports, exectypes.GetMessages, exectypes.Filter})
		switch cls {
		case "f17a-executed-disagree", "f25-utc-spelling", "equal-timestamps", "conflict-root", "conflict-end", "conflict-three":
			state = exectypes.GetCommitReports
		case "f17b-two-msgs-one-seq", "foreign-chain-key":
			state = exectypes.GetMessages
		case "f17c-two-nonces":
			state = exectypes.Filter
		}
		prev := exectypes.Outcome{}
		obs := make([]exectypes.Observation, N)
		switch state {
		case exectypes.GetCommitReports:
			prev.State = vPick(r, []exectypes.PluginState{exectypes.Unknown, exectypes.Initialized, exectypes.Filter})
			for o := range obs {
				obs[o].CommitReports = exectypes.CommitObservations{}
				for _, ch := range sources {
					for _, rp := range truth[ch] {
						cd := rp.cd
						if cls == "f17a-executed-disagree" && o%2 == 1 {
							cd.ExecutedMessages = []cciptypes.SeqNum{cd.SequenceNumberRange.Start()}
						}
						// conflicting but individually valid views: the same chain, timestamp and range start, another root
						// or range end, each view held by at least f+1 oracles (fChain = 1 everywhere)
						variant := 0
						switch cls {
						case "conflict-root", "conflict-end":
							variant = o % 2
						case "conflict-three":
							if N >= 6 {
								variant = o % 3
							} else {
								variant = o % 2
							}
						}
						if variant > 0 {
							if cls == "conflict-end" {
								cd.SequenceNumberRange = cciptypes.NewSeqNumRange(cd.SequenceNumberRange.Start(), cd.SequenceNumberRange.End()+cciptypes.SeqNum(variant))
							}
							cd.MerkleRoot[0] ^= byte(0xa0 + variant)
						}
						obs[o].CommitReports[ch] = append(obs[o].CommitReports[ch], cd)
					}
				}
			}
		case exectypes.GetMessages:
			prev.State = exectypes.GetCommitReports
			for _, ch := range sources {
				for _, rp := range truth[ch] {
					prev.PendingCommitReports = append(prev.PendingCommitReports, rp.cd)
				}
			}
			for o := range obs {
				obs[o].Messages = exectypes.MessageObservations{}
				obs[o].TokenData = exectypes.TokenDataObservations{}
				for _, ch := range sources {
					obs[o].Messages[ch] = map[cciptypes.SeqNum]cciptypes.Message{}
					obs[o].TokenData[ch] = map[cciptypes.SeqNum]exectypes.MessageTokenData{}
					for _, rp := range truth[ch] {
						for _, m := range rp.msgs {
							mm := m
							if cls == "f17b-two-msgs-one-seq" && o%2 == 1 {
								mm = vC10Msg(ch, uint64(m.Header.SequenceNumber), 2, 7, 1)
							}
							obs[o].Messages[ch][m.Header.SequenceNumber] = mm
							obs[o].TokenData[ch][m.Header.SequenceNumber] = exectypes.NewMessageTokenData()
						}
					}
				}
				if cls == "foreign-chain-key" {
					// a message whose HEADER names source chain A filed under chain key B at A's sequence number, by every
					// oracle, next to the honest message under key A: two per-chain validators hold a valid item with the
					// same header coordinates (seeded change C10-6 filed merged messages by header source chain)
					a, b := sources[0], sources[1]
					n0 := truth[a][0].msgs[0].Header.SequenceNumber
					obs[o].Messages[b][n0] = vC10Msg(a, uint64(n0), 2, 7, 1)
					obs[o].TokenData[b][n0] = exectypes.NewMessageTokenData()
				}
				if r.Bool() {
					obs[o].CostlyMessages = []cciptypes.Bytes32{truth[sources[0]][0].msgs[0].Header.MessageID}
				}
			}
		case exectypes.Filter:
			prev.State = exectypes.GetMessages
			for _, ch := range sources {
				for _, rp := range truth[ch] {
					cd := rp.cd
					cd.Messages = rp.msgs
					for range rp.msgs {
						cd.MessageTokenData = append(cd.MessageTokenData, exectypes.NewMessageTokenData())
					}
					prev.PendingCommitReports = append(prev.PendingCommitReports, cd)
				}
			}
			for o := range obs {
				obs[o].Nonces = exectypes.NonceObservations{}
				for _, ch := range sources {
					first := uint64(truth[ch][0].cd.SequenceNumberRange.Start())
					obs[o].Nonces[ch] = map[string]uint64{}
					for s := byte(1); s <= 2; s++ {
						nv := first - 1
						if cls == "f17c-two-nonces" && o%2 == 1 {
							nv = first
						}
						obs[o].Nonces[ch][fmt.Sprintf("0x%02x", s)] = nv
					}
				}
			}
		}
		prevB, err := prev.Encode()
		if err != nil {
			t.Fatal(err)
		}
		aos := make([]types.AttributedObservation, 0, N)
		for _, o := range r.Perm(N) {
			b, err := obs[o].Encode()
			if err != nil {
				t.Fatal(err)
			}
			if cls == "f25-utc-spelling" && o%2 == 1 {
				// the same instants, offset zero spelled +00:00 instead of Z (both are valid RFC 3339)
				b = bytes.ReplaceAll(b, []byte(`:00Z"`), []byte(`:00+00:00"`))
			}
			aos = append(aos, types.AttributedObservation{Observation: b, Observer: commontypes.OracleID(o)})
		}
		seen := map[string]bool{}
		errs := 0
		first := ""
		for k := 0; k < reps; k++ {
			time.Local = zones[k%len(zones)]
			p := vC10Plugin(N, F, fChain, k%N)
			var repP *Plugin
			if k == reps-1 {
				// the last evaluation runs on the veterans of this DON size (own ids 0 and 1)
				v, ok := vets[N]
				if !ok {
					p0, h0 := vC10PluginHC(N, F, fChain, 0)
					p1, h1 := vC10PluginHC(N, F, fChain, 1)
					v = [2]*vC10Vet{{p0, h0}, {p1, h1}}
					vets[N] = v
				}
				vC10Repoint(v[0].hc, N, fChain)
				vC10Repoint(v[1].hc, N, fChain)
				p, repP = v[0].p, v[1].p
			}
			out, err := func() (o ocr3types.Outcome, e error) {
				defer func() {
					if x := recover(); x != nil {
						e = fmt.Errorf("panic: %v", x)
					}
				}()
				return p.Outcome(ctx, ocr3types.OutcomeContext{SeqNr: 5, PreviousOutcome: prevB}, nil, aos)
			}()
			key := ""
			if err != nil {
				errs++
				key = "ERR"
			} else {
				h := sha256.Sum256(out)
				key = hex.EncodeToString(h[:8])
				if first == "" {
					first = string(out)
				}
				if out != nil {
					if repP == nil {
						repP = vC10Plugin(N, F, fChain, (k+1)%N)
					}
					reps2, err2 := repP.Reports(ctx, 5, out)
					if err2 != nil {
						key += "/RERR"
					} else {
						for _, rp := range reps2 {
							hh := sha256.Sum256(rp.ReportWithInfo.Report)
							key += "/" + hex.EncodeToString(hh[:6]) + fmt.Sprint(rp.TransmissionScheduleOverride)
						}
					}
				}
			}
			seen[key] = true
		}
		time.Local = savedLocal
		if len(first) > 500 {
			first = first[:500]
		}
		known := 0
		switch cls {
		case "f17a-executed-disagree":
			known = 1
		case "f17b-two-msgs-one-seq":
			known = 2
		case "f17c-two-nonces":
			known = 3
		case "f25-utc-spelling":
			known = 4
		}
		ih := sha256.New()
		ih.Write(prevB)
		for _, ao := range aos {
			ih.Write([]byte{byte(ao.Observer)})
			ih.Write(ao.Observation)
		}
		ihs := ih.Sum(nil)
		inputID := uint64(ihs[0])<<40 | uint64(ihs[1])<<32 | uint64(ihs[2])<<24 | uint64(ihs[3])<<16 | uint64(ihs[4])<<8 | uint64(ihs[5])
		sink.Emit("C10_exec", cls+"/"+string(state), len(first) > 100, cPair(cTup(cN(1), cNi(known), cNi(reps), cN(inputID)), cNi(len(seen))),
			map[string]any{"N": N, "F": F, "state": state, "sources": sources, "class": cls, "distinct_outputs": len(seen), "errors": errs, "outcome": first})
	}
}
